(* Soundness and completeness of the derivative matcher of lib/Regex.v with respect to the usual denotational
   semantics `lang`, plus the inversion/characterisation lemmas the property proofs use (C24, C27). *)
From Coq Require Import List NArith Bool Lia.
Import ListNotations.
Require Import V.lib.Bytes V.lib.Regex.
Open Scope N_scope.

Inductive lang : regex -> bytes -> Prop :=
| L_eps : lang Eps []
| L_cls rs c : in_ranges c rs = true -> lang (Cls rs) [c]
| L_cat a b s1 s2 : lang a s1 -> lang b s2 -> lang (Cat a b) (s1 ++ s2)
| L_altl a b s : lang a s -> lang (Alt a b) s
| L_altr a b s : lang b s -> lang (Alt a b) s
| L_star0 a : lang (Star a) []
| L_stars a s1 s2 : lang a s1 -> lang (Star a) s2 -> lang (Star a) (s1 ++ s2).

(* ------------------------------------------------------------------ inversion lemmas *)
Lemma lang_empty_inv s : lang Empty s <-> False.
Proof. split; intros H; inversion H. Qed.

Lemma lang_eps_inv s : lang Eps s <-> s = [].
Proof. split; intros H; [inversion H; reflexivity | subst; constructor]. Qed.

Lemma lang_cls_inv rs s : lang (Cls rs) s <-> exists c, s = [c] /\ in_ranges c rs = true.
Proof.
  split; intros H.
  - inversion H; subst. eexists; split; [reflexivity | assumption].
  - destruct H as (c & -> & H). constructor; assumption.
Qed.

Lemma lang_cat_inv a b s : lang (Cat a b) s <-> exists s1 s2, s = s1 ++ s2 /\ lang a s1 /\ lang b s2.
Proof.
  split; intros H.
  - inversion H; subst. do 2 eexists; split; [reflexivity | split; assumption].
  - destruct H as (s1 & s2 & -> & H1 & H2). constructor; assumption.
Qed.

Lemma lang_alt_inv a b s : lang (Alt a b) s <-> lang a s \/ lang b s.
Proof.
  split; intros H.
  - inversion H; subst; [left | right]; assumption.
  - destruct H; [apply L_altl | apply L_altr]; assumption.
Qed.

Lemma lang_opt_inv r s : lang (Opt r) s <-> s = [] \/ lang r s.
Proof. unfold Opt. rewrite lang_alt_inv, lang_eps_inv. reflexivity. Qed.

Lemma star_ind' a (P : bytes -> Prop) :
  P [] -> (forall s1 s2, lang a s1 -> lang (Star a) s2 -> P s2 -> P (s1 ++ s2)) ->
  forall s, lang (Star a) s -> P s.
Proof.
  intros H0 Hs s H. remember (Star a) as r eqn:E.
  induction H; try discriminate.
  - assumption.
  - injection E as ->. apply Hs; auto.
Qed.

Lemma lang_star_app a s1 s2 : lang (Star a) s1 -> lang (Star a) s2 -> lang (Star a) (s1 ++ s2).
Proof.
  intros H1 H2. revert s1 H1. apply star_ind'.
  - assumption.
  - intros x y Hx Hy IH. rewrite <- app_assoc. constructor; assumption.
Qed.

Lemma lang_star_one a s : lang a s -> lang (Star a) s.
Proof. intros H. rewrite <- (app_nil_r s). constructor; [assumption | constructor]. Qed.

(* a non-empty member of a star starts with a non-empty member of the body *)
Lemma lang_star_cons_inv a c s :
  lang (Star a) (c :: s) -> exists s1 s2, s = s1 ++ s2 /\ lang a (c :: s1) /\ lang (Star a) s2.
Proof.
  intros H. remember (c :: s) as t eqn:Et. revert c s Et.
  pattern t. revert t H. apply star_ind'.
  - intros; discriminate.
  - intros s1 s2 H1 H2 IH c s Et. destruct s1 as [|x s1].
    + cbn in Et. apply IH; assumption.
    + cbn in Et. injection Et as -> <-. exists s1, s2. auto.
Qed.

(* ------------------------------------------------------------------ structural equality *)
Lemma ranges_eqb_eq a : forall b, ranges_eqb a b = true -> a = b.
Proof.
  induction a as [|[l h] a IH]; intros [|[l' h'] b]; cbn; try discriminate; auto.
  intros H. apply andb_true_iff in H as [H H3]. apply andb_true_iff in H as [H1 H2].
  apply N.eqb_eq in H1. apply N.eqb_eq in H2. subst. f_equal. auto.
Qed.

Lemma req_eq a : forall b, req a b = true -> a = b.
Proof.
  induction a; intros b0; destruct b0; cbn; try discriminate; intros H; auto.
  - f_equal. apply ranges_eqb_eq; assumption.
  - apply andb_true_iff in H as [H1 H2]. f_equal; auto.
  - apply andb_true_iff in H as [H1 H2]. f_equal; auto.
  - f_equal; auto.
Qed.

(* ------------------------------------------------------------------ smart constructors *)
Lemma cat_empty_l b s : lang (Cat Empty b) s <-> False.
Proof. rewrite lang_cat_inv. split; [intros (s1 & s2 & _ & H & _); inversion H | tauto]. Qed.
Lemma cat_empty_r a s : lang (Cat a Empty) s <-> False.
Proof. rewrite lang_cat_inv. split; [intros (s1 & s2 & _ & _ & H); inversion H | tauto]. Qed.
Lemma cat_eps_l b s : lang (Cat Eps b) s <-> lang b s.
Proof.
  rewrite lang_cat_inv. split.
  - intros (s1 & s2 & -> & H1 & H2). apply lang_eps_inv in H1. subst. assumption.
  - intros H. exists [], s. repeat split; [constructor | assumption].
Qed.
Lemma cat_eps_r a s : lang (Cat a Eps) s <-> lang a s.
Proof.
  rewrite lang_cat_inv. split.
  - intros (s1 & s2 & -> & H1 & H2). apply lang_eps_inv in H2. subst. rewrite app_nil_r. assumption.
  - intros H. exists s, []. rewrite app_nil_r. repeat split; [assumption | constructor].
Qed.

Lemma lang_cat a b s : lang (cat a b) s <-> lang (Cat a b) s.
Proof.
  destruct a; cbn [cat]; rewrite ?cat_empty_l, ?cat_eps_l, ?lang_empty_inv; try reflexivity;
    destruct b; rewrite ?cat_empty_r, ?cat_eps_r, ?lang_empty_inv; reflexivity.
Qed.

Lemma alt_mem_lang x s : forall y, alt_mem x y = true -> lang x s -> lang y s.
Proof.
  induction y; cbn [alt_mem]; intros H Hx;
    try (apply req_eq in H; subst; assumption).
  apply orb_true_iff in H as [H | H].
  - apply req_eq in H; subst. apply L_altl; assumption.
  - apply L_altr. apply IHy2; assumption.
Qed.

Lemma lang_alt a b s : lang (alt a b) s <-> lang a s \/ lang b s.
Proof.
  assert (G : forall a b, lang (if alt_mem a b then b else Alt a b) s <-> lang a s \/ lang b s).
  { intros a0 b0. destruct (alt_mem a0 b0) eqn:E.
    - split; [tauto | intros [H | H]; [eapply alt_mem_lang; eassumption | assumption]].
    - apply lang_alt_inv. }
  destruct a; cbn [alt]; rewrite ?lang_empty_inv; try tauto;
    destruct b; rewrite ?lang_empty_inv; try tauto; apply G.
Qed.

(* ------------------------------------------------------------------ the matcher *)
Lemma nullable_lang r : nullable r = true <-> lang r [].
Proof.
  induction r; cbn [nullable].
  - rewrite lang_empty_inv. split; [discriminate | tauto].
  - split; [constructor | reflexivity].
  - rewrite lang_cls_inv. split; [discriminate | intros (c & H & _); discriminate].
  - rewrite andb_true_iff, IHr1, IHr2, lang_cat_inv. split.
    + intros [H1 H2]. exists [], []. auto.
    + intros (s1 & s2 & E & H1 & H2). symmetry in E. apply app_eq_nil in E as [-> ->]. auto.
  - rewrite orb_true_iff, IHr1, IHr2, lang_alt_inv. reflexivity.
  - split; [constructor | reflexivity].
Qed.

Lemma lang_cat_cons a b c s :
  lang (Cat a b) (c :: s) <->
  (exists s1 s2, s = s1 ++ s2 /\ lang a (c :: s1) /\ lang b s2) \/ (lang a [] /\ lang b (c :: s)).
Proof.
  rewrite lang_cat_inv. split.
  - intros (s1 & s2 & E & H1 & H2). destruct s1 as [|x s1]; cbn in E.
    + right. subst. auto.
    + left. injection E as -> ->. exists s1, s2. auto.
  - intros [(s1 & s2 & -> & H1 & H2) | [H1 H2]].
    + exists (c :: s1), s2. auto.
    + exists [], (c :: s). auto.
Qed.

Lemma deriv_lang r : forall c s, lang (deriv c r) s <-> lang r (c :: s).
Proof.
  induction r; intros c s; cbn [deriv].
  - rewrite !lang_empty_inv. reflexivity.
  - rewrite lang_empty_inv, lang_eps_inv. split; [tauto | discriminate].
  - rewrite lang_cls_inv. destruct (in_ranges c rs) eqn:E.
    + rewrite lang_eps_inv. split.
      * intros ->. exists c. auto.
      * intros (x & H & _). injection H as _ ->. reflexivity.
    + rewrite lang_empty_inv. split; [tauto |].
      intros (x & H & Hx). injection H as -> _. congruence.
  - rewrite lang_cat_cons. destruct (nullable r1) eqn:En.
    + rewrite lang_alt, lang_cat, lang_cat_inv, IHr2.
      apply nullable_lang in En. split.
      * intros [(s1 & s2 & -> & H1 & H2) | H]; [left | right; auto].
        exists s1, s2. rewrite <- IHr1. auto.
      * intros [(s1 & s2 & -> & H1 & H2) | [_ H]]; [left | right; auto].
        exists s1, s2. rewrite IHr1. auto.
    + rewrite lang_cat, lang_cat_inv. split.
      * intros (s1 & s2 & -> & H1 & H2). left. exists s1, s2. rewrite <- IHr1. auto.
      * intros [(s1 & s2 & -> & H1 & H2) | [H _]].
        -- exists s1, s2. rewrite IHr1. auto.
        -- apply nullable_lang in H. congruence.
  - rewrite lang_alt, !lang_alt_inv, IHr1, IHr2. reflexivity.
  - rewrite lang_cat, lang_cat_inv. split.
    + intros (s1 & s2 & -> & H1 & H2). apply IHr in H1.
      change (c :: s1 ++ s2) with ((c :: s1) ++ s2). constructor; assumption.
    + intros H. apply lang_star_cons_inv in H as (s1 & s2 & -> & H1 & H2).
      exists s1, s2. rewrite IHr. auto.
Qed.

Theorem rmatch_lang : forall s r, rmatch r s = true <-> lang r s.
Proof.
  induction s as [|c s IH]; intros r; cbn [rmatch].
  - apply nullable_lang.
  - rewrite IH. apply deriv_lang.
Qed.

Corollary rmatch_false_lang r s : rmatch r s = false <-> ~ lang r s.
Proof.
  rewrite <- rmatch_lang. destruct (rmatch r s); split; intros H; try congruence.
Qed.

(* two regexes with the same language are matched alike *)
Lemma rmatch_ext r1 r2 : (forall s, lang r1 s <-> lang r2 s) -> forall s, rmatch r1 s = rmatch r2 s.
Proof.
  intros H s. destruct (rmatch r1 s) eqn:E1, (rmatch r2 s) eqn:E2; try reflexivity.
  - apply rmatch_lang, H, rmatch_lang in E1. congruence.
  - apply rmatch_lang, H, rmatch_lang in E2. congruence.
Qed.

(* a boolean characterisation of a language gives the matcher's verdict *)
Lemma rmatch_char r (f : bytes -> bool) : (forall s, lang r s <-> f s = true) -> forall s, rmatch r s = f s.
Proof.
  intros H s. destruct (rmatch r s) eqn:E1, (f s) eqn:E2; try reflexivity.
  - apply rmatch_lang, H in E1. congruence.
  - apply H, rmatch_lang in E2. congruence.
Qed.

(* ------------------------------------------------------------------ characterisations of common shapes *)
Lemma in_ranges_single c x : in_ranges x [(c, c)] = true <-> x = c.
Proof. cbn. rewrite orb_false_r, andb_true_iff, !N.leb_le. lia. Qed.

Lemma lang_chr c s : lang (Chr c) s <-> s = [c].
Proof.
  unfold Chr. rewrite lang_cls_inv. split.
  - intros (x & -> & H). apply in_ranges_single in H. subst. reflexivity.
  - intros ->. exists c. split; [reflexivity | apply in_ranges_single; reflexivity].
Qed.

Lemma lang_lit l : forall s, lang (Lit l) s <-> s = l.
Proof.
  induction l as [|c l IH]; intros s; cbn [Lit].
  - apply lang_eps_inv.
  - rewrite lang_cat_inv. split.
    + intros (s1 & s2 & -> & H1 & H2). apply lang_chr in H1. apply IH in H2. subst. reflexivity.
    + intros ->. exists [c], l. repeat split; [apply lang_chr | apply IH]; reflexivity.
Qed.

Lemma lang_star_cls rs s : lang (Star (Cls rs)) s <-> forallb (fun c => in_ranges c rs) s = true.
Proof.
  split.
  - revert s. apply star_ind'; [reflexivity |].
    intros s1 s2 H1 _ IH. apply lang_cls_inv in H1 as (c & -> & Hc). cbn. rewrite Hc, IH. reflexivity.
  - induction s as [|c s IH]; cbn; intros H; [constructor |].
    apply andb_true_iff in H as [Hc Hs]. change (c :: s) with ([c] ++ s).
    constructor; [constructor; assumption | auto].
Qed.

(* r{0,k} and r{lo,lo+extra} over a byte class: a length window and a character test *)
Lemma lang_rep_opt_cls rs k : forall s,
  lang (rep_opt k (Cls rs)) s <-> (length s <= k)%nat /\ forallb (fun c => in_ranges c rs) s = true.
Proof.
  induction k as [|k IH]; intros s; cbn [rep_opt].
  - rewrite lang_eps_inv. split.
    + intros ->. split; [apply le_n | reflexivity].
    + intros [H _]. destruct s; [reflexivity | cbn in H; lia].
  - rewrite lang_opt_inv, lang_cat_inv. split.
    + intros [-> | (s1 & s2 & -> & H1 & H2)].
      * split; [cbn; lia | reflexivity].
      * apply lang_cls_inv in H1 as (c & -> & Hc). apply IH in H2 as [Hl Hf].
        cbn. rewrite Hc, Hf. split; [lia | reflexivity].
    + intros [Hl Hf]. destruct s as [|c s]; [left; reflexivity | right].
      cbn in Hl, Hf. apply andb_true_iff in Hf as [Hc Hf].
      exists [c], s. repeat split; [constructor; assumption | apply IH; split; [lia | assumption]].
Qed.

Lemma lang_rep_cls rs lo extra : forall s,
  lang (rep lo extra (Cls rs)) s <->
  (lo <= length s <= lo + extra)%nat /\ forallb (fun c => in_ranges c rs) s = true.
Proof.
  induction lo as [|lo IH]; intros s; cbn [rep].
  - rewrite lang_rep_opt_cls. cbn. split; intros [H1 H2]; (split; [lia | assumption]).
  - rewrite lang_cat_inv. split.
    + intros (s1 & s2 & -> & H1 & H2). apply lang_cls_inv in H1 as (c & -> & Hc).
      apply IH in H2 as [Hl Hf]. cbn. rewrite Hc, Hf. split; [lia | reflexivity].
    + intros [Hl Hf]. destruct s as [|c s]; [cbn in Hl; lia |].
      cbn in Hl, Hf. apply andb_true_iff in Hf as [Hc Hf].
      exists [c], s. repeat split; [constructor; assumption | apply IH; split; [lia | assumption]].
Qed.
