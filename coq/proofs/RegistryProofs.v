(* C30 — proofs about models/Registry.v *)
From Coq Require Import List NArith ZArith Bool Lia ZifyBool ZifyN.
Import ListNotations.
Require Import V.lib.JsonTree V.proofs.JsonTreeProofs V.models.Registry.
Open Scope N_scope.

(* ------------------------------------------------------------------ matching *)
Lemma matches_in : forall allow rules req m, In m (matches allow rules req) ->
  exists r, In r rules /\ allow r = true /\ match_rule req r = Some m.
Proof.
  induction rules as [|r rest IH]; intros req m H; [destruct H|]. cbn [matches] in H.
  destruct (match_rule req r) as [m0|] eqn:E.
  - destruct (allow r) eqn:A.
    + destruct H as [<-|H]; [exists r; repeat split; auto; now left|].
      destruct (IH _ _ H) as (r' & I & A' & M). exists r'. repeat split; auto. now right.
    + destruct (IH _ _ H) as (r' & I & A' & M). exists r'. repeat split; auto. now right.
  - destruct (IH _ _ H) as (r' & I & A' & M). exists r'. repeat split; auto. now right.
Qed.

Lemma literal_matches_in : forall ms lms p s, literal_matches ms = Some lms -> In (p, s) lms ->
  exists sp sf, In (sp, sf) ms /\ lits sp = Some p /\ lits sf = Some s.
Proof.
  induction ms as [|[sp sf] r IH]; intros lms p s H I; cbn in H.
  - injection H as <-. destruct I.
  - destruct (lits sp) as [p0|] eqn:E1; [|discriminate]. destruct (lits sf) as [s0|] eqn:E2; [|discriminate].
    destruct (literal_matches r) as [l|] eqn:E3; [|discriminate]. injection H as <-.
    destruct I as [I|I].
    + injection I as <- <-. exists sp, sf. repeat split; auto. now left.
    + destruct (IH _ _ _ eq_refl I) as (sp' & sf' & I' & L1 & L2). exists sp', sf'. repeat split; auto. now right.
Qed.

Lemma in_insert_by : forall {A : Type} (f : A -> path) (x y : A) l, In y (insert_by f x l) <-> y = x \/ In y l.
Proof.
  induction l as [|z r IH]; cbn.
  - intuition.
  - destruct (path_ltb (f x) (f z)); cbn; [intuition|]. rewrite IH. intuition.
Qed.

Lemma in_sort_by : forall {A : Type} (f : A -> path) (l : list A) y, In y (sort_by f l) <-> In y l.
Proof.
  intros A f l y. unfold sort_by.
  assert (G : forall acc, In y (fold_left (fun acc x => insert_by f x acc) l acc) <-> In y acc \/ In y l).
  { induction l as [|x r IH]; intros acc; cbn [fold_left]; [cbn; intuition|].
    rewrite IH, in_insert_by. cbn. intuition. }
  rewrite G. cbn. intuition.
Qed.

(* a storage path is allowed for a request and an access mode when it is the filled storage path of a rule of the view
   that matches the request and grants that access *)
Definition allowed (allow : rule -> bool) (rules : list rule) (req p : path) : Prop :=
  exists r sp sf, In r rules /\ allow r = true /\ match_rule req r = Some (sp, sf) /\ lits sp = Some p.

Lemma lms_allowed : forall allow rules req lms p s, literal_matches (matches allow rules req) = Some lms ->
  In (p, s) lms -> allowed allow rules req p.
Proof.
  intros allow rules req lms p s H I. destruct (literal_matches_in _ _ _ _ H I) as (sp & sf & I' & L1 & _).
  destruct (matches_in _ _ _ _ I') as (r & Ir & A & M). now exists r, sp, sf.
Qed.

(* every databag path written by View.Set is the storage path of a matching writeable rule *)
Theorem write_paths_allowed : forall rules req v ws p x, set_writes rules req v = (ROk, ws) -> In (p, x) ws ->
  allowed writeable rules req p.
Proof.
  intros rules req v ws p x H I. unfold set_writes in H.
  destruct (matches writeable rules req) as [|m ms] eqn:EM; [discriminate|]. rewrite <- EM in H.
  destruct (literal_matches (matches writeable rules req)) as [lms|] eqn:EL; [|discriminate].
  destruct (overlapping (map snd lms)); [discriminate|].
  match type of H with (if ?c then _ else _) = _ => destruct c; [discriminate|] end.
  match type of H with (if ?c then _ else _) = _ => destruct c; [discriminate|] end.
  injection H as <-. rewrite map_map in I. apply in_map_iff in I. destruct I as ([p0 s0] & E & I). cbn in E.
  injection E as <- _. apply in_sort_by in I. eapply lms_allowed; eauto.
Qed.

Theorem unset_paths_allowed : forall rules req ps p, unset_paths rules req = (ROk, ps) -> In p ps ->
  allowed writeable rules req p.
Proof.
  intros rules req ps p H I. unfold unset_paths in H.
  destruct (matches writeable rules req) as [|m ms] eqn:EM; [discriminate|]. rewrite <- EM in H.
  destruct (literal_matches (matches writeable rules req)) as [lms|] eqn:EL; [|discriminate].
  injection H as <-. apply in_map_iff in I. destruct I as ([p0 s0] & E & I). cbn in E. subst p0.
  eapply lms_allowed; eauto.
Qed.

(* View.Get depends on the databag only through the storage paths of matching readable rules: two databags (two
   reader functions) that agree on those paths give the same answer. Data reachable only through write-only rules,
   or through rules that do not match, cannot influence what is returned. *)
Theorem read_paths_allowed : forall rules req (g1 g2 : path -> bres),
  (forall p, allowed readable rules req p -> g1 p = g2 p) -> view_get rules g1 req = view_get rules g2 req.
Proof.
  intros rules req g1 g2 H. unfold view_get.
  destruct (matches readable rules req) as [|m ms] eqn:EM; [reflexivity|]. rewrite <- EM.
  destruct (literal_matches (matches readable rules req)) as [lms|] eqn:EL; [|reflexivity].
  assert (A : forall m0, In m0 (sort_by snd lms) -> g1 (fst m0) = g2 (fst m0)).
  { intros [p s] I. apply in_sort_by in I. apply H. eapply lms_allowed; eauto. }
  match goal with |- match fold_left ?f1 ?l ?a with _ => _ end = match fold_left ?f2 ?l ?a with _ => _ end =>
    assert (F : fold_left f1 l a = fold_left f2 l a) end.
  { generalize (Some (@None tree)) as acc. revert A. generalize (sort_by snd lms) as l.
    induction l as [|m0 r IH]; intros A acc; [reflexivity|]. cbn [fold_left].
    rewrite (A m0 (or_introl eq_refl)). apply IH. intros m1 I. apply A. now right. }
  now rewrite F.
Qed.

(* ------------------------------------------------------------------ rejected requests change nothing *)
Theorem rejected_unchanged : forall valid rules committed req v b,
  set_via_view valid rules committed req v = (b, false) -> b = committed.
Proof.
  intros valid rules committed req v b H. unfold set_via_view in H.
  match type of H with (match ?r with _ => _ end) = _ => destruct r as [ds|] end.
  - destruct (tx_commit valid (add_deltas (mkTx committed []) ds) committed); injection H; congruence.
  - now injection H.
Qed.

Theorem accepted_is_valid : forall valid rules committed req v b,
  set_via_view valid rules committed req v = (b, true) -> valid (Obj b) = true.
Proof.
  intros valid rules committed req v b H. unfold set_via_view in H.
  match type of H with (match ?r with _ => _ end) = _ => destruct r as [ds|] end; [|discriminate].
  unfold tx_commit in H. destruct (apply_deltas committed (tx_deltas (add_deltas (mkTx committed []) ds))) as [b'|]; [|discriminate].
  destruct (valid (Obj b')) eqn:V; [|discriminate]. now injection H as <-.
Qed.

(* in any history only a successful Commit changes the committed databag *)
Theorem only_commit_publishes : forall valid rules st o,
  st_bag (fst (step valid rules st o)) = st_bag st \/
  exists i t b, o = OCommit i /\ nth_error (st_txs st) i = Some t /\ tx_commit valid t (st_bag st) = Some b /\
                st_bag (fst (step valid rules st o)) = b.
Proof.
  intros valid rules st o. destruct o as [| i req v | i req | i req | i | req v]; cbn [step]; [| | | | |now left].
  - now left.
  - left. destruct (nth_error (st_txs st) i); [|reflexivity]. destruct (set_writes_g rules req v) as [[] ws]; reflexivity.
  - left. destruct (nth_error (st_txs st) i); [|reflexivity]. destruct (unset_paths_g rules req) as [[] ps]; reflexivity.
  - left. now destruct (nth_error (st_txs st) i).
  - destruct (nth_error (st_txs st) i) as [t|] eqn:N; [|now left].
    destruct (tx_commit valid t (st_bag st)) as [b|] eqn:C; [|now left]. right. exists i, t, b. auto.
Qed.

(* ------------------------------------------------------------------ commits in either order keep unrelated writes *)
Fixpoint bnode (p : path) (o : option tree) : bres :=
  match p with
  | [] => match o with Some t => BOk t | None => BPathErr end
  | k :: r => match o with
              | Some (Obj l) => bnode r (lookup k l)
              | Some (Atom _) => BErr
              | _ => BPathErr
              end
  end.

Lemma bnode_none : forall p, bnode p None = BPathErr.
Proof. destruct p; reflexivity. Qed.

Lemma bag_get_node : forall p l, p <> [] -> bag_get p l = bnode p (Some (Obj l)).
Proof.
  induction p as [|k r IH]; intros l NE; [congruence|]. cbn [bag_get bnode].
  destruct (lookup k l) as [t|]; [|now rewrite bnode_none].
  destruct r as [|k2 r2]; [reflexivity|]. destruct t as [| z | l']; try reflexivity. apply IH. discriminate.
Qed.

Lemma tset_cons' : forall k r v l, tset (k :: r) v (Some (Obj l)) = Obj (aset k (tset r v (lookup k l)) l).
Proof. reflexivity. Qed.

Lemma bnode_tset_same : forall p v o, bnode p (Some (tset p v o)) = BOk v.
Proof.
  induction p as [|k r IH]; intros v o; [reflexivity|].
  destruct o as [[| z | l]|]; cbn [tset bnode]; rewrite ?lookup_aset_eq; cbn [lookup]; rewrite ?N.eqb_refl; apply IH.
Qed.

Lemma diverge_cons : forall k q k' p, diverge (k :: q) (k' :: p) = if k =? k' then diverge q p else true.
Proof. intros. unfold diverge. cbn. rewrite (N.eqb_sym k' k). destruct (k =? k'); reflexivity. Qed.

Lemma bnode_tset_diverge : forall p q v o t, diverge q p = true -> bnode q o = BOk t -> bnode q (Some (tset p v o)) = BOk t.
Proof.
  induction p as [|k r IH]; intros q v o t D G.
  - unfold diverge in D. cbn in D. now rewrite andb_false_r in D.
  - destruct q as [|k' q']; [discriminate|]. rewrite diverge_cons in D.
    destruct o as [[| z | l]|]; cbn in G; try discriminate; try (rewrite bnode_none in G; discriminate).
    rewrite tset_cons'. cbn [bnode]. rewrite lookup_aset. destruct (k' =? k) eqn:E.
    + assert (k' = k) by lia; subst k'. apply IH; assumption.
    + exact G.
Qed.

Lemma bag_set_obj : forall p v l, p <> [] -> Obj (bag_set p v l) = tset p (strip v) (Some (Obj l)).
Proof. intros [|k r] v l NE; [congruence|]. reflexivity. Qed.

(* all deltas are Sets of non-null values on non-empty paths *)
Definition is_set (d : delta) : Prop := snd d <> Null /\ fst d <> [].

Lemma apply_set : forall b d, is_set d -> apply_delta b d = Some (bag_set (fst d) (snd d) b).
Proof.
  intros b [p v] [NV NP]. cbn in *. unfold apply_delta. cbn. destruct v; [congruence| |]; destruct p; congruence.
Qed.

Lemma apply_sets : forall ds b, Forall is_set ds -> exists b', apply_deltas b ds = Some b' /\
  (forall q t, q <> [] -> (forall d, In d ds -> diverge q (fst d) = true) -> bag_get q b = BOk t -> bag_get q b' = BOk t) /\
  (forall ds1 d ds2, ds = ds1 ++ d :: ds2 -> (forall d', In d' ds2 -> diverge (fst d) (fst d') = true) ->
                     bag_get (fst d) b' = BOk (strip (snd d))).
Proof.
  induction ds as [|d r IH]; intros b F.
  - exists b. split; [reflexivity|]. split; [auto|]. intros [|? ?] ? ? E; discriminate.
  - inversion F as [|? ? Sd Fr]; subst. cbn [apply_deltas]. rewrite (apply_set b d Sd).
    destruct (IH (bag_set (fst d) (snd d) b) Fr) as (b' & E & Keep & Win). exists b'. split; [exact E|]. split.
    + intros q t NQ D G. apply Keep; [exact NQ|intros d' I; apply D; now right|].
      rewrite bag_get_node by exact NQ. rewrite bag_set_obj by apply Sd.
      apply bnode_tset_diverge; [apply D; now left|]. now rewrite <- bag_get_node.
    + intros ds1 d0 ds2 E0 D. destruct ds1 as [|d1 ds1]; cbn in E0; injection E0 as -> ->.
      * apply Keep; [apply Sd|exact D|]. rewrite bag_get_node by apply Sd. rewrite bag_set_obj by apply Sd.
        apply bnode_tset_same.
      * eapply Win; eauto.
Qed.

(* two transactions whose Sets go to pairwise diverging storage paths: after both commit (in this order; swap the
   names for the other order) every written path reads back as written (nulls stripped) *)
Theorem commit_order_no_lost_update : forall valid t1 t2 b b1 b2,
  Forall is_set (tx_deltas t1) -> Forall is_set (tx_deltas t2) ->
  tx_commit valid t1 b = Some b1 -> tx_commit valid t2 b1 = Some b2 ->
  (forall ds1 d ds2, tx_deltas t1 = ds1 ++ d :: ds2 ->
     (forall d', In d' ds2 -> diverge (fst d) (fst d') = true) ->
     (forall d', In d' (tx_deltas t2) -> diverge (fst d) (fst d') = true) ->
     bag_get (fst d) b2 = BOk (strip (snd d))) /\
  (forall ds1 d ds2, tx_deltas t2 = ds1 ++ d :: ds2 ->
     (forall d', In d' ds2 -> diverge (fst d) (fst d') = true) ->
     bag_get (fst d) b2 = BOk (strip (snd d))).
Proof.
  intros valid t1 t2 b b1 b2 F1 F2 C1 C2. unfold tx_commit in C1, C2.
  destruct (apply_sets (tx_deltas t1) b F1) as (x1 & E1 & K1 & W1). rewrite E1 in C1.
  destruct (valid (Obj x1)); [|discriminate]. injection C1 as <-.
  destruct (apply_sets (tx_deltas t2) x1 F2) as (x2 & E2 & K2 & W2). rewrite E2 in C2.
  destruct (valid (Obj x2)); [|discriminate]. injection C2 as <-. split.
  - intros ds1 d ds2 E D1 D2. apply K2; [|exact D2|eapply W1; eauto].
    rewrite Forall_forall in F1. apply (F1 d). rewrite E. apply in_or_app. right. now left.
  - intros ds1 d ds2 E D. eapply W2; eauto.
Qed.

(* ------------------------------------------------------------------ the order of the writes of one Set *)
From Coq Require Import Sorted.

Lemma path_ltb_irrefl : forall a, path_ltb a a = false.
Proof. induction a as [|x a IH]; cbn; [reflexivity|]. rewrite N.ltb_irrefl. exact IH. Qed.

Lemma path_ltb_trans : forall a b c, path_ltb a b = true -> path_ltb b c = true -> path_ltb a c = true.
Proof.
  induction a as [|x a IH]; intros [|y b] [|z c]; cbn; try discriminate; auto.
  intros H1 H2.
  destruct (x <? y) eqn:E1.
  - destruct (y <? z) eqn:E2.
    + assert (E : (x <? z) = true) by lia. now rewrite E.
    + destruct (z <? y) eqn:E3; [discriminate|]. assert (E : (x <? z) = true) by lia. now rewrite E.
  - destruct (y <? x) eqn:E1'; [discriminate|].
    destruct (y <? z) eqn:E2.
    + assert (E : (x <? z) = true) by lia. now rewrite E.
    + destruct (z <? y) eqn:E3; [discriminate|].
      assert (E : (x <? z) = false) by lia. assert (E' : (z <? x) = false) by lia. rewrite E, E'. eauto.
Qed.

Lemma path_ltb_asym : forall a b, path_ltb a b = true -> path_ltb b a = false.
Proof.
  intros a b H. destruct (path_ltb b a) eqn:E; [|reflexivity].
  pose proof (path_ltb_trans _ _ _ H E) as X. now rewrite path_ltb_irrefl in X.
Qed.

Lemma is_prefix_refl : forall p, is_prefix p p = true.
Proof. induction p as [|x p IH]; cbn; [reflexivity|]. now rewrite N.eqb_refl. Qed.

(* a proper prefix sorts first *)
Lemma prefix_ltb : forall q p, is_prefix q p = true -> q = p \/ path_ltb q p = true.
Proof.
  induction q as [|x q IH]; intros [|y p] H; cbn in *; auto; try discriminate.
  apply andb_prop in H. destruct H as [E H]. assert (x = y) by lia; subst y.
  destruct (IH _ H) as [->|L]; [now left|right]. now rewrite N.ltb_irrefl.
Qed.

Section SortBy.
Context {A : Type} (f : A -> path).
Definition notafter (a b : A) : Prop := path_ltb (f b) (f a) = false.   (* b does not sort strictly before a *)

Lemma insert_sorted : forall x l, StronglySorted notafter l -> StronglySorted notafter (insert_by f x l).
Proof.
  induction l as [|y r IH]; intros S; cbn.
  - constructor; constructor.
  - inversion S as [|? ? Sr Fy]; subst. destruct (path_ltb (f x) (f y)) eqn:E.
    + constructor; [exact S|]. constructor; [now apply path_ltb_asym|].
      rewrite Forall_forall in *. intros z Hz. specialize (Fy z Hz). unfold notafter in *.
      destruct (path_ltb (f z) (f x)) eqn:E2; [|reflexivity].
      pose proof (path_ltb_trans _ _ _ E2 E) as X. congruence.
    + constructor; [now apply IH|]. rewrite Forall_forall in *. intros z Hz. apply in_insert_by in Hz.
      destruct Hz as [->|Hz]; [exact E|now apply Fy].
Qed.

Lemma sort_by_sorted : forall l, StronglySorted notafter (sort_by f l).
Proof.
  intros l. unfold sort_by.
  assert (G : forall acc, StronglySorted notafter acc ->
                          StronglySorted notafter (fold_left (fun acc x => insert_by f x acc) l acc)).
  { induction l as [|x r IH]; intros acc S; cbn [fold_left]; [exact S|]. apply IH. now apply insert_sorted. }
  apply G. constructor.
Qed.
End SortBy.

Lemma ss_split : forall {A : Type} (R : A -> A -> Prop) l1 a l2, StronglySorted R (l1 ++ a :: l2) -> Forall (R a) l2.
Proof.
  induction l1 as [|x l1 IH]; intros a l2 S; cbn in S; inversion S; subst; [assumption|eauto].
Qed.

Lemma ss_map : forall {A B : Type} (RA : A -> A -> Prop) (RB : B -> B -> Prop) (g : A -> B) l,
  (forall a b, RA a b -> RB (g a) (g b)) -> StronglySorted RA l -> StronglySorted RB (map g l).
Proof.
  intros A B RA RB g l H S. induction S as [|a l S IH F]; cbn; constructor; [exact IH|].
  rewrite Forall_forall in *. intros b Hb. apply in_map_iff in Hb. destruct Hb as (a' & <- & Ha). apply H. now apply F.
Qed.

Lemma set_writes_sorted : forall rules req v ws, set_writes rules req v = (ROk, ws) ->
  StronglySorted (notafter (fst : path * tree -> path)) ws.
Proof.
  intros rules req v ws H. unfold set_writes in H.
  destruct (matches writeable rules req) as [|m ms] eqn:EM; [discriminate|]. rewrite <- EM in H.
  destruct (literal_matches (matches writeable rules req)) as [lms|] eqn:EL; [|discriminate].
  destruct (overlapping (map snd lms)); [discriminate|].
  match type of H with (if ?c then _ else _) = _ => destruct c; [discriminate|] end.
  match type of H with (if ?c then _ else _) = _ => destruct c; [discriminate|] end.
  injection H as <-. rewrite map_map.
  apply (ss_map (notafter (fst : lmatch -> path))); [|apply sort_by_sorted].
  intros a b R. exact R.
Qed.

(* the sort-order lemma: the writes of one Set are performed outer storage path first - a write never comes after a
   write to a path strictly below it *)
Theorem outer_written_before_inner : forall rules req v ws ws1 d ws2 d',
  set_writes rules req v = (ROk, ws) -> ws = ws1 ++ d :: ws2 -> In d' ws2 ->
  is_prefix (fst d') (fst d) = true -> fst d' = fst d.
Proof.
  intros rules req v ws ws1 d ws2 d' H E I P. pose proof (set_writes_sorted _ _ _ _ H) as S. rewrite E in S.
  apply ss_split in S. rewrite Forall_forall in S. specialize (S d' I). unfold notafter in S.
  destruct (prefix_ltb _ _ P) as [Q|L]; [exact Q|congruence].
Qed.

(* read-after-write at the storage level, nested storage paths included: after all the writes of an accepted Set have
   been applied (in their order) to any databag, every written storage path that no LATER write of the same Set
   touches (equal to it or below it) holds the value written to it - in particular an inner path survives the write
   to the outer path, because the outer one is written first *)
Theorem storage_read_after_write : forall rules req v ws b,
  set_writes rules req v = (ROk, ws) -> Forall is_set ws ->
  exists b', apply_deltas b ws = Some b' /\
    forall ws1 d ws2, ws = ws1 ++ d :: ws2 ->
      (forall d', In d' ws2 -> is_prefix (fst d) (fst d') = false) ->
      bag_get (fst d) b' = BOk (strip (snd d)).
Proof.
  intros rules req v ws b H F. destruct (apply_sets ws b F) as (b' & E & _ & Win). exists b'. split; [exact E|].
  intros ws1 d ws2 Ews NP. apply (Win ws1 d ws2 Ews). intros d' I. unfold diverge. rewrite (NP d' I). cbn.
  destruct (is_prefix (fst d') (fst d)) eqn:P; [|reflexivity].
  pose proof (outer_written_before_inner _ _ _ _ _ _ _ _ H Ews I P) as Q.
  specialize (NP d' I). rewrite Q, is_prefix_refl in NP. discriminate.
Qed.

(* ------------------------------------------------------------------ read-after-write through the view *)
Lemma apply_deltas_app : forall l1 l2 b, apply_deltas b (l1 ++ l2) =
  match apply_deltas b l1 with Some b1 => apply_deltas b1 l2 | None => None end.
Proof.
  induction l1 as [|d r IH]; intros l2 b; cbn; [reflexivity|]. destruct (apply_delta b d); [apply IH|reflexivity].
Qed.

(* a request matched in full by exactly one literal read-write rule (and by no other rule as a prefix): inside a
   transaction whose pending deltas apply cleanly, Get after an accepted Set of v returns v (nulls stripped) *)
Theorem view_read_after_write : forall rules req v sp p t b,
  matches writeable rules req = [(sp, [])] -> matches readable rules req = [(sp, [])] ->
  lits sp = Some p -> p <> [] -> v <> Null ->
  apply_deltas (tx_pristine t) (tx_deltas t) = Some b ->
  set_writes rules req v = (ROk, [(p, v)]) /\
  view_get rules (tx_get (add_deltas t [(p, v)])) req = VOk (strip v).
Proof.
  intros rules req v sp p t b MW MR L NP NV AD. split.
  - unfold set_writes. rewrite MW. cbn. rewrite L. cbn. reflexivity.
  - unfold view_get. rewrite MR. cbn. rewrite L. cbn.
    unfold tx_get, add_deltas. cbn [tx_pristine tx_deltas]. rewrite apply_deltas_app, AD. cbn [apply_deltas].
    rewrite (apply_set b (p, v)) by (split; assumption). cbn [fst snd].
    rewrite bag_get_node by exact NP. rewrite bag_set_obj by exact NP. rewrite bnode_tset_same. reflexivity.
Qed.

(* ------------------------------------------------------------------ bare databag: partial writes *)
Definition bb_rules : list rule := [mkRule [Lit 97; Lit 98] [Lit 112] RW; mkRule [Lit 97; Lit 99] [Lit 113] RW].
Definition bb_value : tree := Obj [(98, Atom 1%Z); (99, Atom 99%Z)].

(* rules a.b -> p, a.c -> q; on an empty bare databag, Set a = {b:1, c:99} with a schema that rejects 99: the write
   of p passes, the write of q fails the schema, the request is rejected and p = 1 stays behind *)
Lemma bare_bag_partial : bare_set drv_valid bb_rules [] [97] bb_value = (RError, [(112, Atom 1%Z); (113, Atom 99%Z)]).
Proof. reflexivity. Qed.

(* ... while the same request at the transactional entry point changes nothing *)
Lemma bare_bag_vs_tx : set_via_view drv_valid bb_rules [] [97] bb_value = ([], false).
Proof. reflexivity. Qed.

(* ------------------------------------------------------------------ general write / read paths (placeholders) *)
(* p is an instance of the part list sp: literals agree, a placeholder stands for any key *)
Fixpoint inst (sp : list part) (p : path) : Prop :=
  match sp, p with
  | [], [] => True
  | Lit k :: sp', k' :: p' => k = k' /\ inst sp' p'
  | Ph _ :: sp', _ :: p' => inst sp' p'
  | _, _ => False
  end.

Lemma inst_lits : forall sp p, lits sp = Some p -> inst sp p.
Proof.
  induction sp as [|[k|n] sp IH]; intros p H; cbn in H.
  - now injection H as <-.
  - destruct (lits sp) as [p0|]; [|discriminate]. injection H as <-. cbn. split; auto.
  - discriminate.
Qed.

Lemma inst_replace : forall sp n c p, inst (replace_in sp n c) p -> inst sp p.
Proof.
  induction sp as [|[k|m] sp IH]; intros n c [|k' p] H; cbn in *; auto; try contradiction.
  - destruct H as [E H]. split; eauto.
  - now destruct (m =? n).
  - destruct (m =? n); cbn in H; [destruct H as [_ H]|]; eauto.
Qed.

Lemma expand_inst : forall sf sp v e sp' x p, expand sf sp v = Some e -> In (sp', x) e -> inst sp' p -> inst sp p.
Proof.
  induction sf as [|[k|n] r IH]; intros sp v e sp' x p H I N; cbn [expand] in H.
  - injection H as <-. destruct I as [I|I]; [|destruct I]. injection I as <- _. exact N.
  - destruct v as [| z | l]; try discriminate. destruct (lookup k l) as [c|]; [|discriminate]. eauto.
  - destruct v as [| z | l]; try discriminate.
    assert (G : forall l acc e, fold_left (fun acc kc => match acc, expand r (replace_in sp n (fst kc)) (snd kc) with
                                                         | Some a, Some e => Some (a ++ e) | _, _ => None end) l acc = Some e ->
              In (sp', x) e -> exists a, acc = Some a /\ (In (sp', x) a \/ inst sp p)).
    { clear H I e l. induction l as [|kc l IHl]; intros acc e H I; cbn [fold_left] in H.
      - subst acc. eauto.
      - destruct (IHl _ _ H I) as (a & E & D). destruct acc as [a0|]; [|discriminate].
        destruct (expand r (replace_in sp n (fst kc)) (snd kc)) as [e0|] eqn:X; [|discriminate].
        injection E as <-. exists a0. split; [reflexivity|]. destruct D as [D|D]; [|now right].
        apply in_app_or in D. destruct D as [D|D]; [now left|right].
        eapply inst_replace. eapply IH; eauto. }
    destruct (G _ _ _ H I) as (a & E & D). injection E as <-. destruct D as [[]|D]; exact D.
Qed.

Definition allowed_g (allow : rule -> bool) (rules : list rule) (req p : path) : Prop :=
  exists r sp sf, In r rules /\ allow r = true /\ match_rule req r = Some (sp, sf) /\ inst sp p.

Lemma allowed_allowed_g : forall allow rules req p, allowed allow rules req p -> allowed_g allow rules req p.
Proof. intros allow rules req p (r & sp & sf & I & A & M & L). exists r, sp, sf. auto using inst_lits. Qed.

Lemma lits_all_in : forall ews ws p x, lits_all ews = Some ws -> In (p, x) ws -> exists sp, In (sp, x) ews /\ lits sp = Some p.
Proof.
  induction ews as [|[sp y] r IH]; intros ws p x H I; cbn in H.
  - injection H as <-. destruct I.
  - destruct (lits sp) as [p0|] eqn:L; [|discriminate]. destruct (lits_all r) as [l|]; [|discriminate]. injection H as <-.
    destruct I as [I|I].
    + injection I as <- <-. exists sp. split; [now left|exact L].
    + destruct (IH _ _ _ eq_refl I) as (sp' & I' & L'). exists sp'. split; [now right|exact L'].
Qed.

(* the writes of the general Set (placeholders of the unmatched suffix filled from the value, order-dependent suffixes
   included): every written path is an instance of the filled storage path of a matching writeable rule *)
Lemma set_class_allowed : forall rules req v ws p x,
  (exists r, set_class rules req v = SDet r ws) \/ (exists m, set_class rules req v = SEither m ws) ->
  In (p, x) ws -> allowed_g writeable rules req p.
Proof.
  intros rules req v ws p x H I. unfold set_class in H.
  destruct (matches writeable rules req) as [|m0 ms] eqn:EM.
  { destruct H as [[r H]|[m H]]; [|discriminate]. injection H as _ <-. destruct I. }
  rewrite <- EM in H.
  set (sorted := sort_by (fun m : rmatch => parts_key (fst m)) (matches writeable rules req)) in *.
  match type of H with context [match ?f with Some _ => _ | None => _ end] => destruct f as [ews|] eqn:EF end.
  2:{ destruct H as [[r H]|[m H]]; [|discriminate]. injection H as _ <-. destruct I. }
  match type of H with context [if ?c then _ else _] => destruct c end.
  { destruct H as [[r H]|[m H]]; [|discriminate]. injection H as _ <-. destruct I. }
  destruct (lits_all ews) as [ws0|] eqn:EL.
  2:{ destruct H as [[r H]|[m H]]; [|discriminate]. injection H as _ <-. destruct I. }
  assert (W : ws = ws0 \/ ws = []).
  { destruct (order_dependent (dedup_parts (map snd (matches writeable rules req)))).
    - destruct H as [[r H]|[m H]]; [discriminate|]. injection H as _ <-. now left.
    - destruct H as [[r H]|[m H]]; [|destruct (prune_all false v _) as [[?|]|]; discriminate].
      destruct (prune_all false v _) as [[?|]|]; injection H as _ <-; auto. }
  destruct W as [->| ->]; [|destruct I].
  destruct (lits_all_in _ _ _ _ EL I) as (sp' & I' & L').
  assert (G : forall l acc e, fold_left (fun acc (m : rmatch) => match acc, expand (snd m) (fst m) v with
                                                       | Some a, Some e => Some (a ++ e) | _, _ => None end) l acc = Some e ->
            In (sp', x) e -> exists a, acc = Some a /\ (In (sp', x) a \/ exists m e0, In m l /\ expand (snd m) (fst m) v = Some e0 /\ In (sp', x) e0)).
  { induction l as [|m l IHl]; intros acc e Hf Ie; cbn [fold_left] in Hf.
    - subst acc. eauto.
    - destruct (IHl _ _ Hf Ie) as (a & E & D). destruct acc as [a0|]; [|discriminate].
      destruct (expand (snd m) (fst m) v) as [e0|] eqn:X; [|discriminate]. injection E as <-.
      exists a0. split; [reflexivity|]. destruct D as [D|(m' & e' & Im & Xm & Ie')].
      + apply in_app_or in D. destruct D as [D|D]; [now left|right]. exists m, e0. repeat split; auto. now left.
      + right. exists m', e'. repeat split; auto. now right. }
  destruct (G _ _ _ EF I') as (a & E & D). injection E as <-. destruct D as [[]|(m & e0 & Im & Xm & Ie)].
  apply in_sort_by in Im. destruct m as [sp sf]. destruct (matches_in _ _ _ _ Im) as (r & Ir & A & M).
  exists r, sp, sf. repeat split; auto. eapply expand_inst; eauto. now apply inst_lits.
Qed.

Theorem write_paths_allowed_g : forall rules req v ws p x, set_writes_g rules req v = (ROk, ws) -> In (p, x) ws ->
  allowed_g writeable rules req p.
Proof.
  intros rules req v ws p x H I. unfold set_writes_g in H.
  assert (G : (match set_class rules req v with SDet r ws => (r, ws) | SEither _ _ => (RUnsupported, []) end) = (ROk, ws) ->
              allowed_g writeable rules req p).
  { destruct (set_class rules req v) as [r ws'|m ws'] eqn:E; [|discriminate]. intros [= -> ->].
    eapply set_class_allowed; [left; eauto|exact I]. }
  destruct (literal_matches (matches writeable rules req)) as [lms|]; [|now apply G].
  destruct (overlapping (map snd lms)); [now apply G|].
  apply allowed_allowed_g. eapply write_paths_allowed; eauto.
Qed.

(* View.Get in general depends on the databag only through the (possibly placeholder-carrying) filled storage paths
   of matching readable rules *)
Definition allowed_parts (rules : list rule) (req : path) (sp : list part) : Prop :=
  exists r sf, In r rules /\ readable r = true /\ match_rule req r = Some (sp, sf).

Theorem read_paths_allowed_ph : forall rules req (g1 g2 : list part -> bres),
  (forall sp, allowed_parts rules req sp -> g1 sp = g2 sp) -> view_get_ph rules g1 req = view_get_ph rules g2 req.
Proof.
  intros rules req g1 g2 H. unfold view_get_ph.
  destruct (matches readable rules req) as [|m ms] eqn:EM; [reflexivity|]. rewrite <- EM.
  set (sorted := sort_by (fun m : rmatch => parts_key (snd m)) (matches readable rules req)).
  assert (A : forall m0, In m0 sorted -> g1 (fst m0) = g2 (fst m0)).
  { intros [sp sf] I. apply in_sort_by in I. apply H. destruct (matches_in _ _ _ _ I) as (r & Ir & Ar & M).
    now exists r, sf. }
  match goal with |- match fold_left ?f1 ?l ?a with _ => _ end = match fold_left ?f2 ?l ?a with _ => _ end =>
    assert (F : fold_left f1 l a = fold_left f2 l a) end.
  { generalize (Some (@None tree)) as acc. revert A. generalize sorted as l.
    induction l as [|m0 r IH]; intros A acc; [reflexivity|]. cbn [fold_left].
    rewrite (A m0 (or_introl eq_refl)). apply IH. intros m1 I. apply A. now right. }
  now rewrite F.
Qed.

(* ------------------------------------------------------------------ read-after-write through the view, rule by rule *)
(* after an accepted Set of v at req, the request g of any ONE written rule (g is matched by exactly that readable rule,
   in full; its storage path p is not touched by a later write of the same Set) reads back the part of v that was written
   through that rule - whatever other rules, nested storage paths included, the Set also wrote *)
Theorem view_read_after_write_rule : forall rules req v ws ws1 p x ws2 g sp t b,
  set_writes rules req v = (ROk, ws) -> Forall is_set ws -> ws = ws1 ++ (p, x) :: ws2 ->
  (forall d', In d' ws2 -> is_prefix p (fst d') = false) ->
  matches readable rules g = [(sp, [])] -> lits sp = Some p ->
  apply_deltas (tx_pristine t) (tx_deltas t) = Some b ->
  view_get rules (tx_get (add_deltas t ws)) g = VOk (strip x).
Proof.
  intros rules req v ws ws1 p x ws2 g sp t b H F E NP MR L AD.
  destruct (storage_read_after_write rules req v ws b H F) as (b' & A & R).
  specialize (R ws1 (p, x) ws2 E NP). cbn [fst snd] in R.
  unfold view_get. rewrite MR. cbn. rewrite L. cbn.
  unfold tx_get, add_deltas. cbn [tx_pristine tx_deltas]. rewrite apply_deltas_app, AD, A, R. reflexivity.
Qed.

(* what the OUTER rule returns when an inner rule wrote below it: its own value with the inner value set inside *)
Lemma bnode_tset_below : forall p q w o t, bnode p o = BOk t -> bnode p (Some (tset (p ++ q) w o)) = BOk (tset q w (Some t)).
Proof.
  induction p as [|k r IH]; intros q w o t H.
  - destruct o as [t0|]; cbn in H; [|discriminate]. now injection H as <-.
  - destruct o as [[| z | l]|]; cbn in H; try discriminate; try (rewrite bnode_none in H; discriminate).
    cbn [app]. rewrite tset_cons'. cbn [bnode]. rewrite lookup_aset_eq. now apply IH.
Qed.

Theorem outer_returns_inner : forall b p q x1 x2, p <> [] -> q <> [] -> x1 <> Null -> x2 <> Null ->
  exists b', apply_deltas b [(p, x1); (p ++ q, x2)] = Some b' /\
             bag_get p b' = BOk (tset q (strip x2) (Some (strip x1))) /\
             bag_get (p ++ q) b' = BOk (strip x2).
Proof.
  intros b p q x1 x2 NP NQ N1 N2.
  assert (NPQ : p ++ q <> []) by (destruct p; [congruence|discriminate]).
  cbn [apply_deltas]. rewrite (apply_set b (p, x1)) by (split; assumption). cbn [fst snd].
  rewrite (apply_set _ (p ++ q, x2)) by (split; assumption). cbn [fst snd].
  eexists. split; [reflexivity|]. split.
  - rewrite bag_get_node by exact NP. rewrite bag_set_obj by exact NPQ. apply bnode_tset_below.
    rewrite bag_set_obj by exact NP. apply bnode_tset_same.
  - rewrite bag_get_node by exact NPQ. rewrite bag_set_obj by exact NPQ. apply bnode_tset_same.
Qed.

(* ------------------------------------------------------------------ commit order with Unset deltas as well *)
(* divergence of a path from an Unset path that may carry match-all sub-keys: they differ at a position where both
   have literal keys *)
Fixpoint pdiverge (q p : path) : bool :=
  match q, p with
  | k :: q', k' :: p' => if is_ph_key k || is_ph_key k' then pdiverge q' p'
                         else if k =? k' then pdiverge q' p' else true
  | _, _ => false
  end.

Lemma pdiverge_nil_r : forall q, pdiverge q [] = false.
Proof. destruct q; reflexivity. Qed.

Lemma pdiverge_diverge : forall q p, pdiverge q p = true -> diverge q p = true.
Proof.
  induction q as [|k q IH]; intros [|k' p] H; cbn in H; try discriminate.
  rewrite diverge_cons. destruct (is_ph_key k || is_ph_key k').
  - rewrite (IH _ H). now destruct (k =? k').
  - destruct (k =? k'); [now apply IH|reflexivity].
Qed.

Fixpoint lit_path (p : path) : bool := match p with [] => true | k :: r => negb (is_ph_key k) && lit_path r end.

Lemma pdiverge_lit : forall q p, lit_path q = true -> lit_path p = true -> pdiverge q p = diverge q p.
Proof.
  induction q as [|k q IH]; intros [|k' p] Lq Lp;
    try (unfold diverge; cbn; rewrite ?andb_false_r; reflexivity).
  cbn in Lq, Lp. cbn [pdiverge].
  - apply andb_prop in Lq. apply andb_prop in Lp. destruct Lq as [A Lq]. destruct Lp as [B Lp].
    rewrite diverge_cons. destruct (is_ph_key k); [discriminate|]. destruct (is_ph_key k'); [discriminate|]. cbn.
    destruct (k =? k'); [now apply IH|reflexivity].
Qed.

Definition ukey (r : path) (acc : option bag) (key : key) : option bag :=
  match acc with
  | None => None
  | Some cur =>
      match lookup key cur with
      | None | Some Null => Some cur
      | Some (Obj l') => match bag_unset_g r l' with
                         | None => None
                         | Some None => Some (aremove key cur)
                         | Some (Some x) => Some (aset key (Obj x) cur)
                         end
      | Some (Atom _) => None
      end
  end.

Lemma bag_unset_g_unfold : forall k k2 r2 l, bag_unset_g (k :: k2 :: r2) l =
  match (if is_ph_key k then fold_left (ukey (k2 :: r2)) (map fst l) (Some l) else ukey (k2 :: r2) (Some l) k) with
  | None => None
  | Some l' => Some (Some l')
  end.
Proof. reflexivity. Qed.

Lemma fold_ukey_none : forall r keys, fold_left (ukey r) keys None = None.
Proof. induction keys; cbn; auto. Qed.

Lemma unset_g_keeps : forall p q l res t, bag_unset_g p l = Some res -> pdiverge q p = true ->
  bag_get q l = BOk t -> exists l', res = Some l' /\ bag_get q l' = BOk t.
Proof.
  induction p as [|k rp IH]; intros q l res t H D G.
  - now rewrite pdiverge_nil_r in D.
  - destruct q as [|k' q']; [discriminate|]. cbn [pdiverge] in D. destruct rp as [|k2 r2].
    + rewrite pdiverge_nil_r in D. destruct (is_ph_key k' || is_ph_key k) eqn:P; [discriminate|].
      apply orb_false_elim in P. destruct P as [_ Pk]. destruct (k' =? k) eqn:E; [discriminate|].
      cbn in H. rewrite Pk in H. injection H as <-. eexists. split; [reflexivity|].
      cbn [bag_get] in *. rewrite lookup_aremove, E. exact G.
    + rewrite bag_unset_g_unfold in H.
      assert (STEP : forall cur key cur', ukey (k2 :: r2) (Some cur) key = Some cur' ->
                bag_get (k' :: q') cur = BOk t -> (key <> k' \/ pdiverge q' (k2 :: r2) = true) ->
                bag_get (k' :: q') cur' = BOk t).
      { intros cur key cur' U Gc C. cbn [ukey] in U. destruct (k' =? key) eqn:E.
        - assert (k' = key) by lia; subst key. destruct C as [C|C]; [congruence|].
          destruct q' as [|k3 q3]; [discriminate|]. cbn [bag_get] in Gc |- *.
          destruct (lookup k' cur) as [[| z | lk]|] eqn:EL; try discriminate.
          destruct (bag_unset_g (k2 :: r2) lk) as [rs|] eqn:UU; [|discriminate].
          destruct (IH (k3 :: q3) lk rs t UU C Gc) as (x & -> & Gx). injection U as <-.
          now rewrite lookup_aset_eq.
        - assert (LK : forall c, lookup k' c = lookup k' cur -> bag_get (k' :: q') c = BOk t).
          { intros c Ec. cbn [bag_get] in Gc |- *. now rewrite Ec. }
          destruct (lookup key cur) as [[| z | lk]|]; try (injection U as <-; exact Gc); try discriminate.
          destruct (bag_unset_g (k2 :: r2) lk) as [[x|]|]; try discriminate; injection U as <-; apply LK.
          + now rewrite lookup_aset, E.
          + now rewrite lookup_aremove, E. }
      destruct (is_ph_key k) eqn:Pk.
      * rewrite orb_true_r in D.
        assert (FOLD : forall keys cur cur', fold_left (ukey (k2 :: r2)) keys (Some cur) = Some cur' ->
                  bag_get (k' :: q') cur = BOk t -> bag_get (k' :: q') cur' = BOk t).
        { induction keys as [|key keys IHk]; intros cur cur' F Gc; cbn [fold_left] in F.
          - now injection F as <-.
          - destruct (ukey (k2 :: r2) (Some cur) key) as [c1|] eqn:U; [|now rewrite fold_ukey_none in F].
            eapply IHk; eauto. }
        destruct (fold_left (ukey (k2 :: r2)) (map fst l) (Some l)) as [l1|] eqn:F; [|discriminate].
        injection H as <-. eexists. split; [reflexivity|]. eapply FOLD; eauto.
      * rewrite orb_false_r in D.
        destruct (ukey (k2 :: r2) (Some l) k) as [l1|] eqn:U; [|discriminate]. injection H as <-.
        eexists. split; [reflexivity|]. eapply STEP; eauto.
        destruct (is_ph_key k'); [now right|]. destruct (k' =? k) eqn:E; [now right|left; lia].
Qed.

Lemma bag_unset_keeps : forall p q l l' t, bag_unset p l = Some l' -> pdiverge q p = true ->
  bag_get q l = BOk t -> bag_get q l' = BOk t.
Proof.
  intros p q l l' t H D G. unfold bag_unset in H. destruct (bag_unset_g p l) as [res|] eqn:U; [|discriminate].
  destruct (unset_g_keeps _ _ _ _ _ U D G) as (x & -> & Gx). now injection H as <-.
Qed.

Definition has_path (d : delta) : Prop := fst d <> [].

Lemma apply_delta_keeps : forall b d b' q t, has_path d -> apply_delta b d = Some b' -> q <> [] ->
  pdiverge q (fst d) = true -> bag_get q b = BOk t -> bag_get q b' = BOk t.
Proof.
  intros b [p x] b' q t HP H NQ D G. cbn in *. unfold apply_delta in H. cbn [fst snd] in H.
  assert (S : forall y, y <> Null -> Some (bag_set p y b) = Some b' -> bag_get q b' = BOk t).
  { intros y NY [= <-]. rewrite bag_get_node by exact NQ. rewrite bag_set_obj by exact HP.
    apply bnode_tset_diverge; [now apply pdiverge_diverge|]. now rewrite <- bag_get_node. }
  destruct x as [| z | l].
  - eapply bag_unset_keeps; eauto.
  - destruct p; [congruence|]. apply (S (Atom z)); [discriminate|exact H].
  - destruct p; [congruence|]. apply (S (Obj l)); [discriminate|exact H].
Qed.

Lemma apply_deltas_keep : forall ds b b' q t, Forall has_path ds -> apply_deltas b ds = Some b' -> q <> [] ->
  (forall d, In d ds -> pdiverge q (fst d) = true) -> bag_get q b = BOk t -> bag_get q b' = BOk t.
Proof.
  induction ds as [|d r IH]; intros b b' q t F H NQ D G; cbn in H.
  - now injection H as <-.
  - inversion F; subst. destruct (apply_delta b d) as [b0|] eqn:E; [|discriminate].
    apply (IH b0 b' q t H3 H NQ); [intros d0 I0; apply D; now right|].
    apply (apply_delta_keeps b d b0 q t H2 E NQ); [apply D; now left|exact G].
Qed.

Lemma apply_deltas_win : forall ds1 d ds2 b b', Forall has_path (ds1 ++ d :: ds2) -> snd d <> Null ->
  apply_deltas b (ds1 ++ d :: ds2) = Some b' ->
  (forall d', In d' ds2 -> pdiverge (fst d) (fst d') = true) ->
  bag_get (fst d) b' = BOk (strip (snd d)).
Proof.
  intros ds1 d ds2 b b' F NV H D. rewrite apply_deltas_app in H.
  destruct (apply_deltas b ds1) as [b0|]; [|discriminate]. cbn [apply_deltas] in H.
  apply Forall_app in F. destruct F as [_ F]. inversion F as [|? ? HP F2]; subst.
  rewrite (apply_set b0 d) in H by (split; assumption).
  eapply apply_deltas_keep; eauto.
  rewrite bag_get_node by exact HP. rewrite bag_set_obj by exact HP. apply bnode_tset_same.
Qed.

(* two transactions with any mix of Set and Unset deltas: after both committed (either order: swap the names) every
   value written by a Set whose path diverges from all later deltas of its own transaction and (for the first one)
   from all deltas of the second reads back as written *)
Theorem commit_order_no_lost_update_g : forall valid t1 t2 b b1 b2,
  Forall has_path (tx_deltas t1) -> Forall has_path (tx_deltas t2) ->
  tx_commit valid t1 b = Some b1 -> tx_commit valid t2 b1 = Some b2 ->
  (forall ds1 d ds2, tx_deltas t1 = ds1 ++ d :: ds2 -> snd d <> Null ->
     (forall d', In d' ds2 -> pdiverge (fst d) (fst d') = true) ->
     (forall d', In d' (tx_deltas t2) -> pdiverge (fst d) (fst d') = true) ->
     bag_get (fst d) b2 = BOk (strip (snd d))) /\
  (forall ds1 d ds2, tx_deltas t2 = ds1 ++ d :: ds2 -> snd d <> Null ->
     (forall d', In d' ds2 -> pdiverge (fst d) (fst d') = true) ->
     bag_get (fst d) b2 = BOk (strip (snd d))).
Proof.
  intros valid t1 t2 b b1 b2 F1 F2 C1 C2. unfold tx_commit in C1, C2.
  destruct (apply_deltas b (tx_deltas t1)) as [x1|] eqn:E1; [|discriminate].
  destruct (valid (Obj x1)); [|discriminate]. injection C1 as <-.
  destruct (apply_deltas x1 (tx_deltas t2)) as [x2|] eqn:E2; [|discriminate].
  destruct (valid (Obj x2)); [|discriminate]. injection C2 as <-. split.
  - intros ds1 d ds2 E NV D1 D2. rewrite E in E1, F1.
    pose proof (apply_deltas_win _ _ _ _ _ F1 NV E1 D1) as W.
    eapply apply_deltas_keep; eauto.
    apply Forall_app in F1. destruct F1 as [_ F1]. now inversion F1.
  - intros ds1 d ds2 E NV D. rewrite E in E2, F2. eapply apply_deltas_win; eauto.
Qed.

(* ------------------------------------------------------------------ the whole transaction model (relation) *)
Lemma lits_parts_key : forall sp p, lits sp = Some p -> parts_key sp = p.
Proof.
  induction sp as [|[k|n] sp IH]; intros p H; cbn in H.
  - now injection H as <-.
  - destruct (lits sp) as [p0|]; [|discriminate]. injection H as <-. cbn. f_equal. now apply IH.
  - discriminate.
Qed.

(* View.Unset, every case (unfilled placeholders included): the Unset paths are the rendered filled storage paths of
   matching writeable rules *)
Theorem unset_paths_allowed_g : forall rules req ps p, unset_paths_g rules req = (ROk, ps) -> In p ps ->
  exists r sp sf, In r rules /\ writeable r = true /\ match_rule req r = Some (sp, sf) /\ p = parts_key sp.
Proof.
  intros rules req ps p H I. unfold unset_paths_g in H.
  destruct (matches writeable rules req) as [|m ms] eqn:EM; [discriminate|]. rewrite <- EM in H. injection H as <-.
  apply in_map_iff in I. destruct I as ([sp sf] & <- & I). destruct (matches_in _ _ _ _ I) as (r & Ir & A & M).
  now exists r, sp, sf.
Qed.

Lemma is_either_class : forall rules req v m ws, is_either rules req v = Some (m, ws) -> set_class rules req v = SEither m ws.
Proof.
  intros rules req v m ws H. unfold is_either in H.
  assert (G : match set_class rules req v with SEither m0 ws0 => Some (m0, ws0) | SDet _ _ => None end = Some (m, ws) ->
              set_class rules req v = SEither m ws).
  { destruct (set_class rules req v); [discriminate|]. now intros [= -> ->]. }
  destruct (literal_matches (matches writeable rules req)) as [lms|]; [|now apply G].
  destruct (overlapping (map snd lms)); [now apply G|discriminate].
Qed.

(* every Set the model determines, whatever its outcome: the recorded writes go to instances of filled storage paths
   of matching writeable rules *)
Theorem outcome_paths_allowed : forall rules req v ws p x,
  set_outcome rules req v (ROk, ws) -> determined rules req v -> In (p, x) ws -> allowed_g writeable rules req p.
Proof.
  intros rules req v ws p x O D I. unfold set_outcome in O. unfold determined in D.
  destruct (is_either rules req v) as [[m ws0]|] eqn:E.
  - destruct O as [O|[_ O]]; [discriminate|]. injection O as ->.
    apply is_either_class in E. eapply set_class_allowed; [right; exists m; exact E|exact I].
  - destruct D as [D|D]; [congruence|].
    destruct (set_writes_g rules req v) as [e ws0] eqn:S. cbn in D.
    destruct e; try congruence; injection O as <-; try (eapply write_paths_allowed_g; eauto); destruct I.
Qed.

Lemma set_writes_g_outcome : forall rules req v, is_either rules req v = None ->
  set_outcome rules req v (set_writes_g rules req v).
Proof.
  intros rules req v H. unfold set_outcome. rewrite H. destruct (set_writes_g rules req v) as [[] ws] eqn:S; try reflexivity.
  cbn. intros X. unfold set_writes_g in S.
  assert (G : forall ws', (match set_class rules req v with SDet r ws => (r, ws) | SEither _ _ => (RUnsupported, []) end) = (RUnsupported, ws') -> ws' = []).
  { intros ws'. unfold set_class. destruct (matches writeable rules req) as [|m0 ms0]; [discriminate|].
    match goal with |- context [fold_left ?f ?l ?a] => destruct (fold_left f l a) as [ews|] end; [|discriminate].
    match goal with |- context [if ?c then SDet RUnsupported [] else _] => destruct c end; [now intros [= <-]|].
    destruct (lits_all ews) as [ws0|]; [|now intros [= <-]].
    match goal with |- context [if ?c then SEither _ _ else _] => destruct c end; [now intros [= <-]|].
    match goal with |- context [prune_all false ?a ?b] => destruct (prune_all false a b) as [[?|]|] end; discriminate. }
  destruct (literal_matches (matches writeable rules req)) as [lms|] eqn:EL; [|now apply G].
  destruct (overlapping (map snd lms)) eqn:EO; [now apply G|].
  unfold set_writes in S. destruct (matches writeable rules req) as [|m0 ms0] eqn:EM; [congruence|]. rewrite EL, EO in S.
  match type of S with (if ?c then _ else _) = _ => destruct c; [congruence|] end.
  match type of S with (if ?c then _ else _) = _ => destruct c; congruence end.
Qed.

Section RelationProofs.
Variable valid : tree -> bool.
Variable rules : list rule.

(* the functional step is one of the relation's steps whenever the Set is not order-dependent *)
Theorem step_is_rstep : forall st o,
  (forall i req v, o = OSet i req v -> is_either rules req v = None) ->
  rstep valid rules st o (fst (step valid rules st o)) (snd (step valid rules st o)).
Proof.
  intros st o H. destruct o as [| i req v | i req | i req | i | req v];
    try (apply rs_other; intros; discriminate).
  specialize (H i req v eq_refl). cbn [step]. destruct (nth_error (st_txs st) i) as [t|] eqn:N; [|now apply rs_set_skip].
  pose proof (set_writes_g_outcome rules req v H) as O.
  destruct (set_writes_g rules req v) as [e ws] eqn:S.
  destruct e; cbn [fst snd]; try (eapply rs_set_rejected; eauto; discriminate).
  eapply rs_set_ok; eauto.
Qed.

(* only a successful Commit changes the committed databag, and what it publishes is valid *)
Theorem rstep_publishes : forall st o st' b, rstep valid rules st o st' b ->
  st_bag st' = st_bag st \/
  exists i t b0, o = OCommit i /\ nth_error (st_txs st) i = Some t /\ tx_commit valid t (st_bag st) = Some b0 /\
                 st_bag st' = b0 /\ valid (Obj b0) = true /\ b = BBag true b0.
Proof.
  intros st o st' b R. destruct R as [st i req v t ws N O | st i req v t e ws N O NE | st i req v N | st o NS]; try now left.
  destruct o as [| i req v | i req | i req | i | req v]; cbn [step]; try now left.
  - exfalso. eapply NS; eauto.
  - left. destruct (nth_error (st_txs st) i); [|reflexivity]. destruct (unset_paths_g rules req) as [[] ps]; reflexivity.
  - left. now destruct (nth_error (st_txs st) i).
  - destruct (nth_error (st_txs st) i) as [t|] eqn:N; [|now left].
    destruct (tx_commit valid t (st_bag st)) as [b0|] eqn:C; [|now left]. right. exists i, t, b0. repeat split; auto.
    unfold tx_commit in C. destruct (apply_deltas (st_bag st) (tx_deltas t)) as [bb|]; [|discriminate].
    destruct (valid (Obj bb)) eqn:V; [|discriminate]. now injection C as <-.
Qed.

(* EVERY history of the relation - any sequence of New / Set / Unset / Get / Commit on any number of transactions, with
   every outcome the Sets may have: if no Commit reported success, the committed databag is what it was *)
Theorem rejected_history_unchanged : forall st steps st', rsteps valid rules st steps st' ->
  (forall o b0, In (o, BBag true b0) steps -> forall i, o <> OCommit i) -> st_bag st' = st_bag st.
Proof.
  intros st steps st' R. induction R as [st | st o b st1 r st2 S R IH]; intros NC; [reflexivity|].
  rewrite IH by (intros o0 b0 I; apply (NC o0 b0); now right).
  destruct (rstep_publishes _ _ _ _ S) as [E|(i & t & b0 & -> & _ & _ & _ & _ & ->)]; [exact E|].
  exfalso. apply (NC (OCommit i) b0 (or_introl eq_refl) i). reflexivity.
Qed.

(* the entry point, every outcome: rejected => committed databag unchanged; accepted => the new databag is valid *)
Theorem via_view_rejected : forall committed req v b ok, via_view valid rules committed req v (b, ok) ->
  (ok = false -> b = committed) /\ (ok = true -> valid (Obj b) = true).
Proof.
  intros committed req v b ok (e & ds & _ & R).
  destruct e; try (injection R as -> ->; split; [reflexivity|discriminate]).
  destruct (tx_commit valid (add_deltas (mkTx committed []) ds) committed) as [b0|] eqn:C.
  - injection R as -> ->. split; [discriminate|]. intros _. unfold tx_commit in C.
    destruct (apply_deltas committed _) as [b1|]; [|discriminate]. destruct (valid (Obj b1)) eqn:V; [|discriminate].
    now injection C as <-.
  - injection R as -> ->. split; [reflexivity|discriminate].
Qed.

(* the functional entry point is one of the relation's outcomes when the Set is not order-dependent *)
Theorem set_via_view_in_relation : forall committed req v, is_either rules req v = None ->
  via_view valid rules committed req v (set_via_view valid rules committed req v).
Proof.
  intros committed req v H. unfold via_view, set_via_view.
  destruct v as [| z | l].
  - exists (fst (unset_paths_g rules req)), (map (fun p => (p, Null)) (snd (unset_paths_g rules req))).
    split; [reflexivity|]. destruct (unset_paths_g rules req) as [[] ps]; reflexivity.
  - exists (fst (set_writes_g rules req (Atom z))), (snd (set_writes_g rules req (Atom z))). split.
    + rewrite <- surjective_pairing. now apply set_writes_g_outcome.
    + destruct (set_writes_g rules req (Atom z)) as [[] ws]; reflexivity.
  - exists (fst (set_writes_g rules req (Obj l))), (snd (set_writes_g rules req (Obj l))). split.
    + rewrite <- surjective_pairing. now apply set_writes_g_outcome.
    + destruct (set_writes_g rules req (Obj l)) as [[] ws]; reflexivity.
Qed.
End RelationProofs.

(* ------------------------------------------------------------------ what Get of the same request returns after a Set
   through several rules *)
(* mergeNamespaces over a list of values, first to last *)
Definition merge_all (l : list tree) : option (option tree) :=
  fold_left (fun acc t => match acc with
                          | None => None
                          | Some None => Some (Some t)
                          | Some (Some old) => match merge t old with Some x => Some (Some x) | None => None end
                          end) l (Some None).

Definition xval (v : tree) (m : lmatch) : tree := match value_at (snd m) v with Some x => x | None => Null end.

Lemma set_writes_ws : forall rules req v ws, set_writes rules req v = (ROk, ws) ->
  exists lms, literal_matches (matches writeable rules req) = Some lms /\
              ws = map (fun m => (fst m, xval v m)) (sort_by fst lms).
Proof.
  intros rules req v ws H. unfold set_writes in H.
  destruct (matches writeable rules req) as [|m ms] eqn:EM; [discriminate|]. rewrite <- EM in H.
  destruct (literal_matches (matches writeable rules req)) as [lms|] eqn:EL; [|discriminate].
  destruct (overlapping (map snd lms)); [discriminate|].
  match type of H with (if ?c then _ else _) = _ => destruct c; [discriminate|] end.
  match type of H with (if ?c then _ else _) = _ => destruct c; [discriminate|] end.
  injection H as <-. exists lms. split; [now rewrite <- EM|]. now rewrite map_map.
Qed.

(* after an accepted Set of v at req through ANY number of literal rules - the same rules being readable and writeable
   for req, none of the written storage paths touched by a later write of the same Set (no nesting, no duplicates) -
   Get of req inside the transaction returns exactly the merge, in namespace order, of the written parts put back
   under their suffixes. (That this merge rebuilds v itself is a fact about trees only, not proved here.) *)
Theorem view_read_after_write_merge : forall rules req v ws lms t b,
  set_writes rules req v = (ROk, ws) -> Forall is_set ws ->
  matches readable rules req = matches writeable rules req ->
  literal_matches (matches writeable rules req) = Some lms ->
  (forall ws1 d ws2, ws = ws1 ++ d :: ws2 -> forall d', In d' ws2 -> is_prefix (fst d) (fst d') = false) ->
  apply_deltas (tx_pristine t) (tx_deltas t) = Some b ->
  view_get rules (tx_get (add_deltas t ws)) req =
  match merge_all (map (fun m => nest (snd m) (strip (xval v m))) (sort_by snd lms)) with
  | None => VErr RError
  | Some None => VErr RNotFound
  | Some (Some r) => VOk r
  end.
Proof.
  intros rules req v ws lms t b H F MRW EL NP AD.
  destruct (set_writes_ws _ _ _ _ H) as (lms' & EL' & Ews). rewrite EL in EL'. injection EL' as <-.
  destruct (storage_read_after_write rules req v ws b H F) as (b' & A & R).
  assert (G : forall m, In m lms -> tx_get (add_deltas t ws) (fst m) = BOk (strip (xval v m))).
  { intros m I. apply (in_sort_by fst) in I. apply in_split in I. destruct I as (l1 & l2 & ES).
    unfold tx_get, add_deltas. cbn [tx_pristine tx_deltas]. rewrite apply_deltas_app, AD, A.
    assert (Esplit : ws = map (fun m => (fst m, xval v m)) l1 ++ (fst m, xval v m) :: map (fun m => (fst m, xval v m)) l2).
    { rewrite Ews, ES, map_app. reflexivity. }
    apply (R _ (fst m, xval v m) _ Esplit). intros d' I'. exact (NP _ _ _ Esplit d' I'). }
  unfold view_get. rewrite MRW.
  destruct (matches writeable rules req) as [|m0 ms0] eqn:EM.
  { cbn in EL. injection EL as <-. unfold set_writes in H. rewrite EM in H. discriminate. }
  rewrite EL. cbv zeta. unfold merge_all.
  assert (FL : forall l acc, (forall m, In m l -> In m lms) ->
    fold_left (fun (acc : option (option tree)) (m : lmatch) =>
                 match acc with
                 | None => None
                 | Some merged =>
                     match tx_get (add_deltas t ws) (fst m) with
                     | BPathErr => Some merged
                     | BErr => None
                     | BOk val => match merged with
                                  | None => Some (Some (nest (snd m) val))
                                  | Some old => match merge (nest (snd m) val) old with Some x => Some (Some x) | None => None end
                                  end
                     end
                 end) l acc =
    fold_left (fun acc t0 => match acc with
                             | None => None
                             | Some None => Some (Some t0)
                             | Some (Some old) => match merge t0 old with Some x => Some (Some x) | None => None end
                             end) (map (fun m => nest (snd m) (strip (xval v m))) l) acc).
  { induction l as [|m l IH]; intros acc Sub; [reflexivity|]. cbn [fold_left map].
    rewrite (G m (Sub m (or_introl eq_refl))). rewrite <- IH by (intros m' I'; apply Sub; now right).
    f_equal; destruct acc as [[old|]|]; reflexivity. }
  rewrite FL; [reflexivity|]. intros m I. exact (proj1 (in_sort_by snd lms m) I).
Qed.

(* ------------------------------------------------------------------ merging the parts of a value rebuilds it *)
Lemma aset_aremove_id : forall (l : list (key * tree)) k c, sorted (map fst l) = true -> lookup k l = Some c ->
  aset k c (aremove k l) = l.
Proof.
  intros l k c S L. apply assoc_ext; [apply sorted_aset, sorted_aremove, S|exact S|].
  intros j. rewrite lookup_aset, lookup_aremove. destruct (j =? k) eqn:E; [|reflexivity].
  assert (j = k) by lia. now subst.
Qed.

Lemma aset_id : forall (l : list (key * tree)) k c, sorted (map fst l) = true -> lookup k l = Some c -> aset k c l = l.
Proof.
  intros l k c S L. apply assoc_ext; [apply sorted_aset, S|exact S|].
  intros j. rewrite lookup_aset. destruct (j =? k) eqn:E; [|reflexivity]. assert (j = k) by lia. now subst.
Qed.

Lemma merge_single : forall k a l', merge (Obj [(k, a)]) (Obj l') =
  match lookup k l' with
  | Some ov => match merge a ov with Some m => Some (Obj (aset k m l')) | None => None end
  | None => Some (Obj (aset k a l'))
  end.
Proof.
  intros k a l'. cbn [merge fold_left fst snd]. destruct (lookup k l') as [ov|]; [|reflexivity].
  destruct (merge a ov); reflexivity.
Qed.

Lemma prune_unfold : forall k q l, prune (k :: q) (Some (Obj l)) =
  match lookup k l with
  | None => None
  | Some c => match prune q (Some c) with
              | None => None
              | Some nv => let l' := match nv with None => aremove k l | Some c' => aset k c' l end in
                           Some (match l' with [] => None | _ => Some (Obj l') end)
              end
  end.
Proof. reflexivity. Qed.

(* A: pruning a suffix and merging its part back are inverse *)
Lemma prune_merge : forall sf v x r, wf_tree v = true -> value_at sf v = Some x -> prune sf (Some v) = Some r ->
  match r with Some rest => merge (nest sf x) rest = Some v | None => nest sf x = v end.
Proof.
  induction sf as [|k q IH]; intros v x r W V P.
  - cbn in V, P. injection V as <-. injection P as <-. reflexivity.
  - destruct v as [| z | l]; try discriminate. cbn [value_at] in V. rewrite prune_unfold in P.
    destruct (lookup k l) as [c|] eqn:EL; [|discriminate].
    pose proof W as W'. apply wf_obj in W'. destruct W' as [S _].
    assert (Wc : wf_tree c = true) by (eapply wf_lookup; eauto).
    destruct (prune q (Some c)) as [nv|] eqn:PQ; [|discriminate]. specialize (IH c x nv Wc V PQ).
    cbn [nest]. destruct nv as [c'|].
    + revert P. cbv beta iota zeta. destruct (aset k c' l) as [|e l1] eqn:EA; intros P.
      { pose proof (lookup_aset_eq l k c') as X. rewrite EA in X. discriminate. }
      injection P as <-. rewrite <- EA. rewrite merge_single, lookup_aset_eq, IH.
      now rewrite aset_aset_same, aset_id.
    + subst c. revert P. cbv beta iota zeta. destruct (aremove k l) as [|e l1] eqn:ER; intros P.
      * injection P as <-. f_equal. rewrite <- (aset_aremove_id l k (nest q x) S EL), ER. reflexivity.
      * injection P as <-. rewrite <- ER. rewrite merge_single, lookup_aremove, N.eqb_refl.
        now rewrite aset_aremove_id.
Qed.

Lemma diverge_nil_r : forall q, diverge q [] = false.
Proof. intros q. unfold diverge. cbn. now rewrite andb_false_r. Qed.

(* B: pruning one suffix leaves what lies under a diverging suffix as it was *)
Lemma prune_other : forall s s' v r x', diverge s s' = true -> prune s (Some v) = Some r ->
  value_at s' v = Some x' -> exists rest, r = Some rest /\ value_at s' rest = Some x'.
Proof.
  induction s as [|k q IH]; intros s' v r x' D P V; [discriminate|].
  destruct s' as [|k' q']; [now rewrite diverge_nil_r in D|]. rewrite diverge_cons in D.
  destruct v as [| z | l]; try discriminate. cbn [value_at] in V. rewrite prune_unfold in P.
  destruct (lookup k' l) as [c2|] eqn:EL2; [|discriminate].
  destruct (lookup k l) as [c|] eqn:EL; [|discriminate].
  destruct (prune q (Some c)) as [nv|] eqn:PQ; [|discriminate]. cbv zeta in P.
  destruct (k =? k') eqn:E.
  - assert (k = k') by lia; subst k'. rewrite EL in EL2. injection EL2 as <-.
    destruct (IH q' c nv x' D PQ V) as (rest' & -> & V').
    revert P. cbv beta iota zeta. destruct (aset k rest' l) as [|e l1] eqn:EA; intros P.
    { pose proof (lookup_aset_eq l k rest') as X. rewrite EA in X. discriminate. }
    injection P as <-. eexists. split; [reflexivity|]. rewrite <- EA. cbn [value_at]. now rewrite lookup_aset_eq.
  - set (l' := match nv with None => aremove k l | Some c' => aset k c' l end) in *.
    assert (LK : lookup k' l' = Some c2).
    { unfold l'. destruct nv; [rewrite lookup_aset|rewrite lookup_aremove]; rewrite (N.eqb_sym k' k), E; exact EL2. }
    destruct l' as [|e l1] eqn:EL'; [discriminate|]. injection P as <-.
    eexists. split; [reflexivity|]. cbn [value_at]. now rewrite LK.
Qed.

Lemma prune_wf : forall s v rest, wf_tree v = true -> prune s (Some v) = Some (Some rest) -> wf_tree rest = true.
Proof.
  induction s as [|k q IH]; intros v rest W P; [discriminate|].
  destruct v as [| z | l]; try discriminate. rewrite prune_unfold in P.
  destruct (lookup k l) as [c|] eqn:EL; [|discriminate].
  destruct (prune q (Some c)) as [nv|] eqn:PQ; [|discriminate]. destruct nv as [c'|]; revert P; cbv beta iota zeta.
  - destruct (aset k c' l) as [|e l1] eqn:EA; intros P; [discriminate|]. injection P as <-. rewrite <- EA.
    apply wf_aset; [exact W|]. eapply IH; [|exact PQ]. eapply wf_lookup; eauto.
  - destruct (aremove k l) as [|e l1] eqn:ER; intros P; [discriminate|]. injection P as <-. rewrite <- ER. now apply wf_aremove.
Qed.

Fixpoint pw_div (L : list path) : Prop :=
  match L with [] => True | s :: r => (forall s', In s' r -> diverge s s' = true) /\ pw_div r end.

Definition xv (cur : tree) (s : path) : tree := match value_at s cur with Some x => x | None => Null end.
Definition prune_step (acc : option (option tree)) (sf : path) : option (option tree) :=
  match acc with Some cur => prune sf cur | None => None end.

Lemma prune_fold_none : forall L, fold_left prune_step L None = None.
Proof. induction L; cbn; auto. Qed.

(* D: if pruning pairwise diverging suffixes one after the other uses the value up, then merging their parts - last
   pruned first - gives the value back *)
Lemma prune_all_merge : forall L cur, wf_tree cur = true -> pw_div L ->
  (forall s, In s L -> value_at s cur <> None) ->
  fold_left prune_step L (Some (Some cur)) = Some None ->
  merge_all (map (fun s => nest s (xv cur s)) (rev L)) = Some (Some cur).
Proof.
  induction L as [|s L' IH]; intros cur W PW VA F; [discriminate|].
  cbn [fold_left prune_step] in F. destruct (prune s (Some cur)) as [r|] eqn:P; [|now rewrite prune_fold_none in F].
  destruct (value_at s cur) as [x|] eqn:Vs; [|exfalso; apply (VA s (or_introl eq_refl)); exact Vs].
  pose proof (prune_merge s cur x r W Vs P) as A. destruct PW as [PWs PW'].
  destruct L' as [|s2 L2].
  - cbn in F. injection F as ->. cbn. unfold xv. rewrite Vs. now rewrite A.
  - remember (s2 :: L2) as L1 eqn:EL1. assert (I2 : In s2 L1) by (rewrite EL1; now left).
    assert (B : forall s', In s' L1 -> exists rest, r = Some rest /\ value_at s' rest = value_at s' cur).
    { intros s' I. destruct (value_at s' cur) as [x'|] eqn:V'; [|exfalso; apply (VA s' (or_intror I)); exact V'].
      destruct (prune_other s s' cur r x' (PWs s' I) P V') as (rest & -> & V2). eauto. }
    destruct (B s2 I2) as (rest & -> & _).
    assert (B' : forall s', In s' L1 -> value_at s' rest = value_at s' cur).
    { intros s' I. destruct (B s' I) as (rest' & E & V2). now injection E as <-. }
    assert (IH' : merge_all (map (fun s0 => nest s0 (xv rest s0)) (rev L1)) = Some (Some rest)).
    { apply IH; [eapply prune_wf; eauto|exact PW'| |exact F].
      intros s' I. rewrite (B' s' I). apply VA. now right. }
    cbn [rev]. rewrite map_app. unfold merge_all in *. rewrite fold_left_app.
    rewrite (map_ext_in (fun s0 => nest s0 (xv cur s0)) (fun s0 => nest s0 (xv rest s0)) (rev L1)).
    + rewrite IH'. cbn. unfold xv at 1. rewrite Vs, A. reflexivity.
    + intros s' I. apply in_rev in I. unfold xv. now rewrite (B' s' I).
Qed.

Lemma path_eqb_eq : forall a b, path_eqb a b = true -> a = b.
Proof.
  induction a as [|x a IH]; intros [|y b] H; cbn in H; try discriminate; [reflexivity|].
  apply andb_prop in H. destruct H as [E H]. assert (x = y) by lia. subst. f_equal. now apply IH.
Qed.

Lemma dedup_nodup : forall l, NoDup l -> dedup_paths l = l.
Proof.
  induction l as [|x r IH]; intros N; [reflexivity|]. inversion N as [|? ? NI Nr]; subst. cbn.
  destruct (existsb (path_eqb x) r) eqn:E.
  - apply existsb_exists in E. destruct E as (y & I & E). apply path_eqb_eq in E. subst. contradiction.
  - now rewrite IH.
Qed.

Lemma pw_from : forall L, NoDup L -> (forall s s', In s L -> In s' L -> s = s' \/ diverge s s' = true) -> pw_div L.
Proof.
  induction L as [|s r IH]; intros N H; [exact I|]. inversion N as [|? ? NI Nr]; subst. split.
  - intros s' I. destruct (H s s' (or_introl eq_refl) (or_intror I)) as [->|D]; [contradiction|exact D].
  - apply IH; [exact Nr|]. intros a b Ia Ib. apply H; now right.
Qed.

Lemma set_writes_facts : forall rules req v ws lms, set_writes rules req v = (ROk, ws) ->
  literal_matches (matches writeable rules req) = Some lms ->
  unused_check v (rev (dedup_paths (map snd (sort_by snd lms)))) = true /\
  (forall m, In m lms -> value_at (snd m) v <> None).
Proof.
  intros rules req v ws lms H EL. unfold set_writes in H.
  destruct (matches writeable rules req) as [|m0 ms0] eqn:EM; [discriminate|]. rewrite EL in H.
  destruct (overlapping (map snd lms)); [discriminate|].
  match type of H with (if ?c then _ else _) = _ => destruct c eqn:C1; [discriminate|] end.
  match type of H with (if ?c then _ else _) = _ => destruct c eqn:C2; [discriminate|] end.
  split; [now apply negb_false_iff in C2|].
  intros m I V. apply (in_sort_by fst) in I.
  assert (X : existsb (fun pv : path * option tree => match snd pv with None => true | Some _ => false end)
                (map (fun m => (fst m, value_at (snd m) v)) (sort_by fst lms)) = true).
  { apply existsb_exists. exists (fst m, value_at (snd m) v). split; [|cbn; now rewrite V].
    exact (in_map (fun m0 : path * path => (fst m0, value_at (snd m0) v)) _ m I). }
  congruence.
Qed.

(* Get of the same request after an accepted Set of v through several literal rules returns v *)
Theorem view_read_after_write_same_request : forall rules req v ws lms t b,
  set_writes rules req v = (ROk, ws) -> Forall is_set ws ->
  matches readable rules req = matches writeable rules req ->
  literal_matches (matches writeable rules req) = Some lms ->
  (forall ws1 d ws2, ws = ws1 ++ d :: ws2 -> forall d', In d' ws2 -> is_prefix (fst d) (fst d') = false) ->
  apply_deltas (tx_pristine t) (tx_deltas t) = Some b ->
  wf_tree v = true ->
  NoDup (map snd (sort_by snd lms)) ->
  (forall s s', In s (map snd lms) -> In s' (map snd lms) -> s = s' \/ diverge s s' = true) ->
  (forall m, In m lms -> strip (xval v m) = xval v m) ->
  view_get rules (tx_get (add_deltas t ws)) req = VOk v.
Proof.
  intros rules req v ws lms t b H F MRW EL NP AD W ND PD ST.
  rewrite (view_read_after_write_merge rules req v ws lms t b H F MRW EL NP AD).
  destruct (set_writes_facts _ _ _ _ _ H EL) as [U VA].
  set (S := map snd (sort_by snd lms)) in *.
  assert (INS : forall s, In s S -> exists m, In m lms /\ snd m = s).
  { intros s I. apply in_map_iff in I. destruct I as (m & E & I). apply (proj1 (in_sort_by snd lms m)) in I. exists m. split; assumption. }
  rewrite (map_ext_in (fun m => nest (snd m) (strip (xval v m))) (fun m => nest (snd m) (xval v m))).
  2:{ intros m I. apply (proj1 (in_sort_by snd lms m)) in I. rewrite (ST m I). reflexivity. }
  rewrite dedup_nodup in U by exact ND. unfold unused_check in U.
  assert (FL : fold_left prune_step (rev S) (Some (Some v)) = Some None).
  { change (fold_left prune_step (rev S) (Some (Some v))) with
      (fold_left (fun acc sf => match acc with Some cur => prune sf cur | None => None end) (rev S) (Some (Some v))).
    destruct (fold_left _ (rev S) (Some (Some v))) as [[?|]|]; try discriminate. reflexivity. }
  assert (M : merge_all (map (fun s => nest s (xv v s)) (rev (rev S))) = Some (Some v)).
  { apply prune_all_merge; [exact W| | |exact FL].
    - apply pw_from; [now apply NoDup_rev|]. intros s s' I I'. apply in_rev in I. apply in_rev in I'.
      destruct (INS s I) as (m & Im & <-). destruct (INS s' I') as (m' & Im' & <-).
      apply PD; now apply in_map.
    - intros s I. apply in_rev in I. destruct (INS s I) as (m & Im & <-). now apply VA. }
  rewrite rev_involutive in M. unfold S in M. rewrite map_map in M.
  unfold xv in M. unfold xval. rewrite M. reflexivity.
Qed.

(* ------------------------------------------------------------------ nulls inside the value *)
Lemma strip_some : forall x, x <> Null -> purge x = Some (strip x).
Proof. intros [| z | l] N; [congruence|reflexivity|]. unfold strip. now rewrite purge_obj. Qed.

(* what lies under a suffix of the stripped value is the stripped part *)
Lemma value_at_strip : forall s v x, wf_tree v = true -> value_at s v = Some x -> x <> Null ->
  value_at s (strip v) = Some (strip x).
Proof.
  induction s as [|k r IH]; intros v x W V N.
  - cbn in V. injection V as <-. reflexivity.
  - destruct v as [| z | l]; try discriminate. cbn [value_at] in V.
    destruct (lookup k l) as [c|] eqn:EL; [|discriminate].
    pose proof W as W'. apply wf_obj in W'. destruct W' as [S _].
    assert (Wc : wf_tree c = true) by (eapply wf_lookup; eauto).
    assert (Nc : c <> Null).
    { intros ->. destruct r; cbn in V; [injection V as <-; congruence|discriminate]. }
    unfold strip at 1. rewrite purge_obj. cbn [value_at]. rewrite lookup_purge_list by exact S. rewrite EL.
    rewrite (strip_some c Nc). now apply IH.
Qed.

(* Get of the same request with nulls INSIDE the written parts: returns v with the nulls stripped.
   Extra hypothesis UC: the unused-branch check also passes on the stripped value. *)
Theorem view_read_after_write_same_request_nulls : forall rules req v v' ws lms t b,
  set_writes rules req v = (ROk, ws) -> Forall is_set ws ->
  matches readable rules req = matches writeable rules req ->
  literal_matches (matches writeable rules req) = Some lms ->
  (forall ws1 d ws2, ws = ws1 ++ d :: ws2 -> forall d', In d' ws2 -> is_prefix (fst d) (fst d') = false) ->
  apply_deltas (tx_pristine t) (tx_deltas t) = Some b ->
  wf_tree v = true -> purge v = Some v' ->
  NoDup (map snd (sort_by snd lms)) ->
  (forall s s', In s (map snd lms) -> In s' (map snd lms) -> s = s' \/ diverge s s' = true) ->
  fold_left prune_step (rev (map snd (sort_by snd lms))) (Some (Some v')) = Some None ->
  view_get rules (tx_get (add_deltas t ws)) req = VOk v'.
Proof.
  intros rules req v v' ws lms t b H F MRW EL NP AD W PV ND PD UC.
  rewrite (view_read_after_write_merge rules req v ws lms t b H F MRW EL NP AD).
  destruct (set_writes_facts _ _ _ _ _ H EL) as [_ VA].
  destruct (set_writes_ws _ _ _ _ H) as (lms' & EL' & Ews). rewrite EL in EL'. injection EL' as <-.
  assert (SV : strip v = v') by (unfold strip; now rewrite PV).
  assert (NN : forall m, In m lms -> xval v m <> Null).
  { intros m I. rewrite Forall_forall in F. apply (proj2 (in_sort_by fst lms m)) in I.
    assert (X : In (fst m, xval v m) ws) by (rewrite Ews; exact (in_map (fun m0 : lmatch => (fst m0, xval v m0)) _ m I)).
    destruct (F _ X) as [N _]. exact N. }
  assert (VS : forall m, In m lms -> value_at (snd m) v' = Some (strip (xval v m))).
  { intros m I. rewrite <- SV. specialize (VA m I). specialize (NN m I). unfold xval in *.
    destruct (value_at (snd m) v) as [x|] eqn:V; [|congruence]. now apply value_at_strip. }
  set (S := map snd (sort_by snd lms)) in *.
  assert (INS : forall s, In s S -> exists m, In m lms /\ snd m = s).
  { intros s I. apply in_map_iff in I. destruct I as (m & E & I). apply (proj1 (in_sort_by snd lms m)) in I.
    exists m. split; assumption. }
  assert (M : merge_all (map (fun s => nest s (xv v' s)) (rev (rev S))) = Some (Some v')).
  { apply prune_all_merge; [eapply wf_purge; eauto| | |exact UC].
    - apply pw_from; [now apply NoDup_rev|]. intros s s' I I'. apply in_rev in I. apply in_rev in I'.
      destruct (INS s I) as (m & Im & <-). destruct (INS s' I') as (m' & Im' & <-).
      apply PD; now apply in_map.
    - intros s I. apply in_rev in I. destruct (INS s I) as (m & Im & <-). rewrite (VS m Im). discriminate. }
  rewrite rev_involutive in M. unfold S in M. rewrite map_map in M.
  rewrite (map_ext_in (fun m => nest (snd m) (strip (xval v m))) (fun m => nest (snd m) (xv v' (snd m)))).
  - now rewrite M.
  - intros m I. apply (proj1 (in_sort_by snd lms m)) in I. unfold xv. now rewrite (VS m I).
Qed.

(* ------------------------------------------------------------------ stripping nulls commutes with prune / merge *)
Lemma strip_obj : forall l, strip (Obj l) = Obj (purge_list l).
Proof. intros l. unfold strip. now rewrite purge_obj. Qed.

Lemma value_at_nonnull_node : forall q c x, value_at q c = Some x -> x <> Null -> c <> Null.
Proof. intros q c x V N ->. destruct q; cbn in V; [injection V as <-; congruence|discriminate]. Qed.

Lemma prune_res_nonnull : forall s o t, prune s o = Some (Some t) -> t <> Null.
Proof.
  intros [|k q] o t P; [discriminate|]. destruct o as [[| z | l]|]; try discriminate.
  rewrite prune_unfold in P. destruct (lookup k l) as [c|]; [|discriminate].
  destruct (prune q (Some c)) as [nv|]; [|discriminate].
  destruct nv; cbv beta iota zeta in P;
    [destruct (aset k t0 l)|destruct (aremove k l)]; try discriminate; injection P as <-; discriminate.
Qed.

(* A': pruning a suffix of v, and merging the STRIPPED part back into the STRIPPED remainder, gives the stripped v *)
Lemma prune_merge_strip : forall sf v x r, wf_tree v = true -> value_at sf v = Some x -> x <> Null ->
  prune sf (Some v) = Some r ->
  match r with
  | Some rest => merge (nest sf (strip x)) (strip rest) = Some (strip v)
  | None => nest sf (strip x) = strip v
  end.
Proof.
  induction sf as [|k q IH]; intros v x r W V N P.
  - cbn in V, P. injection V as <-. injection P as <-. reflexivity.
  - destruct v as [| z | l]; try discriminate. cbn [value_at] in V. rewrite prune_unfold in P.
    destruct (lookup k l) as [c|] eqn:EL; [|discriminate].
    pose proof W as W'. apply wf_obj in W'. destruct W' as [S _].
    assert (Wc : wf_tree c = true) by (eapply wf_lookup; eauto).
    assert (Nc : c <> Null) by (eapply value_at_nonnull_node; eauto).
    destruct (prune q (Some c)) as [nv|] eqn:PQ; [|discriminate]. specialize (IH c x nv Wc V N PQ).
    cbn [nest]. rewrite (strip_obj l).
    assert (PUT : forall l0, sorted (map fst l0) = true -> (forall j, j <> k -> lookup j l0 = lookup j l) ->
                  aset k (strip c) (purge_list l0) = purge_list l).
    { intros l0 S0 E0. apply assoc_ext; [apply sorted_aset, sorted_purge_list, S0|now apply sorted_purge_list|].
      intros j. rewrite lookup_aset, !lookup_purge_list by assumption. destruct (j =? k) eqn:E.
      - assert (j = k) by lia; subst j. rewrite EL. symmetry. now apply strip_some.
      - rewrite E0 by lia. reflexivity. }
    destruct nv as [c'|].
    + revert P. cbv beta iota zeta. destruct (aset k c' l) as [|e l1] eqn:EA; intros P.
      { pose proof (lookup_aset_eq l k c') as X. rewrite EA in X. discriminate. }
      injection P as <-. rewrite <- EA. rewrite strip_obj, merge_single.
      assert (Nc' : c' <> Null) by (eapply prune_res_nonnull; eauto).
      rewrite lookup_purge_list by (now apply sorted_aset). rewrite lookup_aset_eq, (strip_some c' Nc'), IH.
      f_equal. f_equal. apply PUT; [now apply sorted_aset|]. intros j NE. now rewrite lookup_aset_neq.
    + revert P. cbv beta iota zeta. destruct (aremove k l) as [|e l1] eqn:ER; intros P.
      * injection P as <-. f_equal. rewrite IH. rewrite <- (PUT [] eq_refl); [reflexivity|].
        intros j NE. pose proof (lookup_aremove l k j) as X. rewrite ER in X. cbn in X.
        destruct (j =? k) eqn:E; [lia|exact X].
      * injection P as <-. rewrite <- ER. rewrite strip_obj, merge_single.
        rewrite lookup_purge_list by (now apply sorted_aremove). rewrite lookup_aremove, N.eqb_refl, IH.
        f_equal. f_equal. apply PUT; [now apply sorted_aremove|]. intros j NE. rewrite lookup_aremove.
        destruct (j =? k) eqn:E; [lia|reflexivity].
Qed.

(* D': if pruning pairwise diverging suffixes with non-null parts uses the value up, then merging the STRIPPED parts,
   last pruned first, gives the STRIPPED value *)
Lemma prune_all_merge_strip : forall L cur, wf_tree cur = true -> pw_div L ->
  (forall s, In s L -> exists x, value_at s cur = Some x /\ x <> Null) ->
  fold_left prune_step L (Some (Some cur)) = Some None ->
  merge_all (map (fun s => nest s (strip (xv cur s))) (rev L)) = Some (Some (strip cur)).
Proof.
  induction L as [|s L' IH]; intros cur W PW VA F; [discriminate|].
  cbn [fold_left prune_step] in F. destruct (prune s (Some cur)) as [r|] eqn:P; [|now rewrite prune_fold_none in F].
  destruct (VA s (or_introl eq_refl)) as (x & Vs & Nx).
  pose proof (prune_merge_strip s cur x r W Vs Nx P) as A. destruct PW as [PWs PW'].
  destruct L' as [|s2 L2].
  - cbn in F. injection F as ->. cbn. unfold xv. rewrite Vs. now rewrite A.
  - remember (s2 :: L2) as L1 eqn:EL1. assert (I2 : In s2 L1) by (rewrite EL1; now left).
    assert (B : forall s', In s' L1 -> exists rest, r = Some rest /\ value_at s' rest = value_at s' cur).
    { intros s' I. destruct (VA s' (or_intror I)) as (x' & V' & _).
      destruct (prune_other s s' cur r x' (PWs s' I) P V') as (rest & -> & V2). rewrite V'. eauto. }
    destruct (B s2 I2) as (rest & -> & _).
    assert (B' : forall s', In s' L1 -> value_at s' rest = value_at s' cur).
    { intros s' I. destruct (B s' I) as (rest' & E & V2). now injection E as <-. }
    assert (IH' : merge_all (map (fun s0 => nest s0 (strip (xv rest s0))) (rev L1)) = Some (Some (strip rest))).
    { apply IH; [eapply prune_wf; eauto|exact PW'| |exact F].
      intros s' I. rewrite (B' s' I). apply VA. now right. }
    cbn [rev]. rewrite map_app. unfold merge_all in *. rewrite fold_left_app.
    rewrite (map_ext_in (fun s0 => nest s0 (strip (xv cur s0))) (fun s0 => nest s0 (strip (xv rest s0))) (rev L1)).
    + rewrite IH'. cbn. unfold xv at 1. rewrite Vs, A. reflexivity.
    + intros s' I. apply in_rev in I. unfold xv. now rewrite (B' s' I).
Qed.

(* Get of the same request with nulls inside the written parts returns v with the nulls stripped - no extra hypothesis *)
Theorem view_read_after_write_same_request_strip : forall rules req v ws lms t b,
  set_writes rules req v = (ROk, ws) -> Forall is_set ws ->
  matches readable rules req = matches writeable rules req ->
  literal_matches (matches writeable rules req) = Some lms ->
  (forall ws1 d ws2, ws = ws1 ++ d :: ws2 -> forall d', In d' ws2 -> is_prefix (fst d) (fst d') = false) ->
  apply_deltas (tx_pristine t) (tx_deltas t) = Some b ->
  wf_tree v = true ->
  NoDup (map snd (sort_by snd lms)) ->
  (forall s s', In s (map snd lms) -> In s' (map snd lms) -> s = s' \/ diverge s s' = true) ->
  view_get rules (tx_get (add_deltas t ws)) req = VOk (strip v).
Proof.
  intros rules req v ws lms t b H F MRW EL NP AD W ND PD.
  rewrite (view_read_after_write_merge rules req v ws lms t b H F MRW EL NP AD).
  destruct (set_writes_facts _ _ _ _ _ H EL) as [U VA].
  destruct (set_writes_ws _ _ _ _ H) as (lms' & EL' & Ews). rewrite EL in EL'. injection EL' as <-.
  assert (NN : forall m, In m lms -> xval v m <> Null).
  { intros m I. rewrite Forall_forall in F. apply (proj2 (in_sort_by fst lms m)) in I.
    assert (X : In (fst m, xval v m) ws) by (rewrite Ews; exact (in_map (fun m0 : lmatch => (fst m0, xval v m0)) _ m I)).
    destruct (F _ X) as [N _]. exact N. }
  set (S := map snd (sort_by snd lms)) in *.
  assert (INS : forall s, In s S -> exists m, In m lms /\ snd m = s).
  { intros s I. apply in_map_iff in I. destruct I as (m & E & I). apply (proj1 (in_sort_by snd lms m)) in I.
    exists m. split; assumption. }
  rewrite dedup_nodup in U by exact ND. unfold unused_check in U.
  assert (FL : fold_left prune_step (rev S) (Some (Some v)) = Some None).
  { change (fold_left prune_step (rev S) (Some (Some v))) with
      (fold_left (fun acc sf => match acc with Some cur => prune sf cur | None => None end) (rev S) (Some (Some v))).
    destruct (fold_left _ (rev S) (Some (Some v))) as [[?|]|]; try discriminate. reflexivity. }
  assert (M : merge_all (map (fun s => nest s (strip (xv v s))) (rev (rev S))) = Some (Some (strip v))).
  { apply prune_all_merge_strip; [exact W| | |exact FL].
    - apply pw_from; [now apply NoDup_rev|]. intros s s' I I'. apply in_rev in I. apply in_rev in I'.
      destruct (INS s I) as (m & Im & <-). destruct (INS s' I') as (m' & Im' & <-).
      apply PD; now apply in_map.
    - intros s I. apply in_rev in I. destruct (INS s I) as (m & Im & <-).
      specialize (VA m Im). specialize (NN m Im). unfold xval in NN.
      destruct (value_at (snd m) v) as [x|]; [|congruence]. eauto. }
  rewrite rev_involutive in M. unfold S in M. rewrite map_map in M.
  unfold xv in M. unfold xval. rewrite M. reflexivity.
Qed.

(* ------------------------------------------------------------------ storage level: an unset path reads as missing *)
Lemma bnode_tset_diverge_missing : forall p q v o, diverge q p = true -> bnode q o = BPathErr ->
  bnode q (Some (tset p v o)) = BPathErr.
Proof.
  induction p as [|k r IH]; intros q v o D G; [now rewrite diverge_nil_r in D|].
  destruct q as [|k' q']; [discriminate|]. rewrite diverge_cons in D. destruct (k' =? k) eqn:E.
  - assert (k' = k) by lia; subst k'.
    destruct o as [[| z | l]|]; cbn [tset bnode]; cbn [bnode] in G; try discriminate;
      rewrite ?lookup_aset_eq; cbn [lookup]; rewrite ?N.eqb_refl; apply IH; auto using bnode_none.
  - destruct o as [[| z | l]|]; cbn [tset bnode]; cbn [bnode] in G; try discriminate;
      rewrite ?lookup_aset, ?E; cbn [lookup]; rewrite ?E; auto using bnode_none.
Qed.

(* JSONDataBag.Unset of a literal path: afterwards the path reads as missing *)
Lemma unset_reads_missing : forall p l res, lit_path p = true -> p <> [] -> bag_unset_g p l = Some res ->
  exists l', res = Some l' /\ bag_get p l' = BPathErr.
Proof.
  induction p as [|k r IH]; intros l res L NE H; [congruence|].
  cbn [lit_path] in L. apply andb_prop in L. destruct L as [Lk Lr]. apply negb_true_iff in Lk.
  destruct r as [|k2 r2].
  - cbn in H. rewrite Lk in H. injection H as <-. eexists. split; [reflexivity|].
    cbn [bag_get]. now rewrite lookup_aremove, N.eqb_refl.
  - rewrite bag_unset_g_unfold, Lk in H. cbn [ukey] in H.
    destruct (lookup k l) as [[| z | lk]|] eqn:EL; try discriminate;
      try (injection H as <-; eexists; split; [reflexivity|]; cbn [bag_get]; now rewrite EL).
    destruct (bag_unset_g (k2 :: r2) lk) as [rs|] eqn:U; [|discriminate].
    destruct (IH lk rs Lr ltac:(discriminate) U) as (x & -> & Gx). injection H as <-.
    eexists. split; [reflexivity|]. cbn [bag_get]. rewrite lookup_aset_eq. exact Gx.
Qed.

Lemma unset_g_keeps_missing : forall p q l res, bag_unset_g p l = Some res -> pdiverge q p = true ->
  bag_get q l = BPathErr -> exists l', res = Some l' /\ bag_get q l' = BPathErr.
Proof.
  induction p as [|k rp IH]; intros q l res H D G.
  - now rewrite pdiverge_nil_r in D.
  - destruct q as [|k' q']; [discriminate|]. cbn [pdiverge] in D. destruct rp as [|k2 r2].
    + rewrite pdiverge_nil_r in D. destruct (is_ph_key k' || is_ph_key k) eqn:P; [discriminate|].
      apply orb_false_elim in P. destruct P as [_ Pk]. destruct (k' =? k) eqn:E; [discriminate|].
      cbn in H. rewrite Pk in H. injection H as <-. eexists. split; [reflexivity|].
      cbn [bag_get] in *. rewrite lookup_aremove, E. exact G.
    + rewrite bag_unset_g_unfold in H.
      assert (STEP : forall cur key cur', ukey (k2 :: r2) (Some cur) key = Some cur' ->
                bag_get (k' :: q') cur = BPathErr -> (key <> k' \/ pdiverge q' (k2 :: r2) = true) ->
                bag_get (k' :: q') cur' = BPathErr).
      { intros cur key cur' U Gc C. cbn [ukey] in U. destruct (k' =? key) eqn:E.
        - assert (k' = key) by lia; subst key. destruct C as [C|C]; [congruence|].
          destruct q' as [|k3 q3]; [discriminate|]. cbn [bag_get] in Gc |- *.
          destruct (lookup k' cur) as [[| z | lk]|] eqn:EL; try discriminate;
            try (injection U as <-; rewrite EL; reflexivity).
          destruct (bag_unset_g (k2 :: r2) lk) as [rs|] eqn:UU; [|discriminate].
          destruct (IH (k3 :: q3) lk rs UU C Gc) as (x & -> & Gx). injection U as <-.
          now rewrite lookup_aset_eq.
        - assert (LK : forall c, lookup k' c = lookup k' cur -> bag_get (k' :: q') c = BPathErr).
          { intros c Ec. cbn [bag_get] in Gc |- *. now rewrite Ec. }
          destruct (lookup key cur) as [[| z | lk]|]; try (injection U as <-; exact Gc); try discriminate.
          destruct (bag_unset_g (k2 :: r2) lk) as [[x|]|]; try discriminate; injection U as <-; apply LK.
          + now rewrite lookup_aset, E.
          + now rewrite lookup_aremove, E. }
      destruct (is_ph_key k) eqn:Pk.
      * rewrite orb_true_r in D.
        assert (FOLD : forall keys cur cur', fold_left (ukey (k2 :: r2)) keys (Some cur) = Some cur' ->
                  bag_get (k' :: q') cur = BPathErr -> bag_get (k' :: q') cur' = BPathErr).
        { induction keys as [|key keys IHk]; intros cur cur' F Gc; cbn [fold_left] in F.
          - now injection F as <-.
          - destruct (ukey (k2 :: r2) (Some cur) key) as [c1|] eqn:U; [|now rewrite fold_ukey_none in F].
            eapply IHk; eauto. }
        destruct (fold_left (ukey (k2 :: r2)) (map fst l) (Some l)) as [l1|] eqn:F; [|discriminate].
        injection H as <-. eexists. split; [reflexivity|]. eapply FOLD; eauto.
      * rewrite orb_false_r in D.
        destruct (ukey (k2 :: r2) (Some l) k) as [l1|] eqn:U; [|discriminate]. injection H as <-.
        eexists. split; [reflexivity|]. eapply STEP; eauto.
        destruct (is_ph_key k'); [now right|]. destruct (k' =? k) eqn:E; [now right|left; lia].
Qed.

(* a delta applied to a databag leaves a missing diverging path missing *)
Lemma apply_delta_keeps_missing : forall b d b' q, has_path d -> apply_delta b d = Some b' -> q <> [] ->
  pdiverge q (fst d) = true -> bag_get q b = BPathErr -> bag_get q b' = BPathErr.
Proof.
  intros b [p x] b' q HP H NQ D G. cbn in *. unfold apply_delta in H. cbn [fst snd] in H.
  assert (S : forall y, y <> Null -> Some (bag_set p y b) = Some b' -> bag_get q b' = BPathErr).
  { intros y NY [= <-]. rewrite bag_get_node by exact NQ. rewrite bag_set_obj by exact HP.
    apply bnode_tset_diverge_missing; [now apply pdiverge_diverge|]. now rewrite <- bag_get_node. }
  destruct x as [| z | l].
  - unfold bag_unset in H. destruct (bag_unset_g p b) as [res|] eqn:U; [|discriminate].
    destruct (unset_g_keeps_missing _ _ _ _ U D G) as (x & -> & Gx). now injection H as <-.
  - destruct p; [congruence|]. apply (S (Atom z)); [discriminate|exact H].
  - destruct p; [congruence|]. apply (S (Obj l)); [discriminate|exact H].
Qed.

Lemma apply_deltas_keep_missing : forall ds b b' q, Forall has_path ds -> apply_deltas b ds = Some b' -> q <> [] ->
  (forall d, In d ds -> pdiverge q (fst d) = true) -> bag_get q b = BPathErr -> bag_get q b' = BPathErr.
Proof.
  induction ds as [|d r IH]; intros b b' q F H NQ D G; cbn in H.
  - now injection H as <-.
  - inversion F; subst. destruct (apply_delta b d) as [b0|] eqn:E; [|discriminate].
    apply (IH b0 b' q H3 H NQ); [intros d0 I0; apply D; now right|].
    apply (apply_delta_keeps_missing b d b0 q H2 E NQ); [apply D; now left|exact G].
Qed.

(* storage-level read-after-write for Unset deltas: an Unset of a literal path, followed by any deltas (Sets and Unsets)
   on paths diverging from it, leaves the path reading as missing *)
Theorem unset_stays_missing : forall ds1 d ds2 b b', Forall has_path (ds1 ++ d :: ds2) -> snd d = Null ->
  lit_path (fst d) = true -> apply_deltas b (ds1 ++ d :: ds2) = Some b' ->
  (forall d', In d' ds2 -> pdiverge (fst d) (fst d') = true) ->
  bag_get (fst d) b' = BPathErr.
Proof.
  intros ds1 [p x] ds2 b b' F NV L H D. cbn [fst snd] in *. subst x. rewrite apply_deltas_app in H.
  destruct (apply_deltas b ds1) as [b0|]; [|discriminate]. cbn [apply_deltas] in H.
  apply Forall_app in F. destruct F as [_ F]. inversion F as [|? ? HP F2]; subst. cbn in HP.
  destruct (apply_delta b0 (p, Null)) as [b1|] eqn:E; [|discriminate].
  eapply apply_deltas_keep_missing; eauto.
  unfold apply_delta in E. cbn [fst snd] in E. unfold bag_unset in E.
  destruct (bag_unset_g p b0) as [res|] eqn:U; [|discriminate].
  destruct (unset_reads_missing p b0 res L HP U) as (x & -> & Gx). now injection E as <-.
Qed.
