(* Proofs about models/SnapSeq.v — part 7: C11, every step preserves the invariant; induction over histories. *)
From Coq Require Import List NArith ZArith Bool Arith Lia Sorting.Sorted.
Import ListNotations.
Require Import V.models.SnapSeq V.proofs.SnapSeqProofs V.proofs.SnapSeqProofs2 V.proofs.SnapSeqProofs3 V.proofs.SnapSeqProofs4
               V.proofs.SnapSeqProofs5 V.proofs.SnapSeqProofs6.
Open Scope N_scope.

Lemma In_firstn_task : forall (n : nat) (l : list task) x, In x (firstn n l) -> In x l.
Proof.
  induction n as [|n IH]; intros l x H; [destruct H|]. destruct l as [|y r]; [destruct H|].
  destruct H as [H|H]; [left; exact H|right; apply IH; exact H].
Qed.

(* the discards completed in a prefix of a refresh are among the garbage-collected revisions *)
Lemma discards_in_gc : forall o s retain inuse j x,
  okind o = ORefresh -> installed s = true ->
  In x (map snd (filter is_discard (firstn j (install_tasks o s retain inuse)))) ->
  In x (gc_revs s (orev o) retain inuse).
Proof.
  intros o s retain inuse j x K INST H.
  assert (NR : is_revert o = false) by (unfold is_revert; rewrite K; reflexivity).
  apply in_map_iff in H. destruct H as ([k r] & E & H). simpl in E. subst r.
  apply filter_In in H. destruct H as [H D]. apply In_firstn_task in H.
  assert (HE : In (k, x) (filter essential (install_tasks o s retain inuse))).
  { apply filter_In. split; [exact H|]. unfold is_discard in D. simpl in D. destruct k; try discriminate D. reflexivity. }
  rewrite install_tasks_ess in HE. rewrite INST, NR in HE. cbn [negb andb] in HE.
  unfold is_discard in D. simpl in D. destruct k; try discriminate D.
  apply in_app_iff in HE. destruct HE as [HE|HE].
  - unfold ess_pre in HE. rewrite INST in HE. destruct (mem (orev o) (seq s)); simpl in HE;
      repeat (destruct HE as [HE|HE]; [discriminate HE|]); destruct HE.
  - apply in_app_iff in HE. destruct HE as [HE|[HE|[]]]; [|discriminate HE].
    apply in_map_iff in HE. destruct HE as (y & E & HE). injection E as <-. exact HE.
Qed.

(* a failed and undone refresh, at ANY position, leaves a well-formed state (outside the config-from-nothing class) *)
Theorem failed_refresh_wf : forall s o j retain inuse,
  wf s -> okind o = ORefresh -> accepts o s = true -> (2 <= retain)%Z -> cfg_guard o s ->
  wf (run_change o (S j) (tasks_for o s retain inuse) s).
Proof.
  intros s o j retain inuse W K AC R CG.
  eapply wf_forget; [apply failed_after_gc_any; auto|].
  pose proof AC as AC'. unfold accepts in AC'. rewrite K in AC'. bool_hyps.
  match goal with H : installed s = true |- _ => rename H into INST end.
  destruct (refresh_runs s o retain inuse W K AC R) as (_ & _ & G2).
  assert (NE : seq s <> []) by (unfold installed in INST; destruct (seq s); [discriminate|discriminate]).
  apply wf_minus; auto.
  intros I. apply G2. unfold tasks_for in I. rewrite K in I. eapply discards_in_gc; eauto.
Qed.

(* ------------------------------------------------------------------------------------------------ histories *)

(* one operation of a history: the operation, the failure position (0 = completes), the retain value, the in-use answer *)
Record hstep := mkH { h_op : op; h_k : nat; h_retain : Z; h_inuse : N -> bool }.

Definition hrun (h : hstep) (s : st) : st := step (h_op h) (h_k h) (h_retain h) (h_inuse h) s.

(* what the theorem asks of a step taken from state s: retain >= 2 (configuration accepts 2..20); an enable carries the
   current revision in its snap-setup (Enable builds it so); and a FAILED operation is an install / refresh / revert
   outside the config-from-nothing class (failures inside remove / remove-revision / enable / disable are not covered) *)
Definition covered (h : hstep) (s : st) : Prop :=
  (2 <= h_retain h)%Z /\
  (h_k h = O \/
   (c10_op (h_op h) /\ cfg_guard (h_op h) s /\
    (okind (h_op h) = ORefresh \/
     forallb (fun t => negb (is_discard t)) (firstn (pred (h_k h)) (tasks_for (h_op h) s (h_retain h) (h_inuse h))) = true))).

Theorem step_wf : forall h s, wf s -> covered h s -> wf (hrun h s).
Proof.
  intros [o k retain inuse] s W (R & F). simpl in *. unfold hrun. simpl.
  destruct (accepts o s) eqn:AC; [|rewrite refused_unchanged; auto].
  destruct (okind o) eqn:K.
  - (* install *)
    unfold step. rewrite AC, K. destruct F as [->|(OP & CG & [X|ND])]; [apply install_wf; auto|congruence|].
    destruct k as [|j]; [apply install_wf; auto|]. simpl in ND. apply failed_op_wf; auto.
  - (* refresh *)
    unfold step. rewrite AC, K. destruct F as [->|(OP & CG & _)]; [apply refresh_wf; auto|].
    destruct k as [|j]; [apply refresh_wf; auto|]. apply failed_refresh_wf; auto.
  - (* revert *)
    unfold step. rewrite AC, K. destruct F as [->|(OP & CG & [X|ND])]; [apply revert_wf; auto|congruence|].
    destruct k as [|j]; [apply revert_wf; auto|]. simpl in ND. apply failed_op_wf; auto.
  - unfold step. rewrite AC, K. destruct F as [->|(OP & _)]; [apply remove_wf; auto|].
    destruct OP as [X|[X|X]]; congruence.
  - unfold step. rewrite AC, K. destruct F as [->|(OP & _)]; [apply remove_rev_wf; auto|].
    destruct OP as [X|[X|X]]; congruence.
  - unfold step. rewrite AC, K. destruct F as [->|(OP & _)]; [apply enable_wf; auto|].
    destruct OP as [X|[X|X]]; congruence.
  - unfold step. rewrite AC, K. destruct F as [->|(OP & _)]; [apply disable_wf; auto|].
    destruct OP as [X|[X|X]]; congruence.
  - apply poke_wf; auto.
  - apply poke_wf; auto.
  - apply poke_wf; auto.
Qed.

Fixpoint hplay (hs : list hstep) (s : st) : st :=
  match hs with [] => s | h :: r => hplay r (hrun h s) end.

Fixpoint all_covered (hs : list hstep) (s : st) : Prop :=
  match hs with [] => True | h :: r => covered h s /\ all_covered r (hrun h s) end.

(* every history of covered steps, from the empty state, ends in a well-formed state *)
Theorem history_wf : forall hs s, wf s -> all_covered hs s -> wf (hplay hs s).
Proof.
  induction hs as [|h r IH]; intros s W C; [exact W|]. destruct C as [C1 C2]. simpl. apply IH; auto. apply step_wf; auto.
Qed.

(* C12: whatever was kept after the current revision (left over from reverts) is garbage-collected by any refresh, except
   the target itself *)
Theorem after_current_discarded : forall s t retain inuse ci x,
  NoDup (seq s) -> last_index (cur s) (seq s) = Some ci -> t <> cur s ->
  In x (skipn (S ci) (seq s)) -> x <> t -> In x (gc_revs s t retain inuse).
Proof.
  intros s t retain inuse ci x ND LI TC Hx NT.
  destruct (in_dec N.eq_dec t (seq s)) as [I|I].
  - destruct (last_index t (seq s)) as [ti|] eqn:LT; [|apply last_index_none in LT; tauto].
    destruct (last_index_split _ _ _ ND LT) as (a & b & SQ & LA & _ & _).
    destruct (last_index_split _ _ _ ND LI) as (a' & b' & SQ' & LA' & _ & _).
    assert (NE : length a <> ci).
    { intros E. apply TC. rewrite SQ in SQ'. rewrite <- LA' in E.
      assert (X : nth (length a) (a ++ t :: b) 0 = nth (length a') (a' ++ cur s :: b') 0) by (rewrite SQ', E; reflexivity).
      rewrite !nth_app_exact in X. exact X. }
    destruct (lt_dec (length a) ci) as [L|L].
    + rewrite (gc_kept_target_before s t retain inuse a b ci); auto. apply in_or_app. left. exact Hx.
    + rewrite (gc_kept_target_after s t retain inuse a b ci); auto; [|lia]. apply in_or_app. left.
      apply filter_In. split; [exact Hx|]. apply negb_true_iff, N.eqb_neq. exact NT.
  - rewrite (gc_new_revision s t retain inuse ci); auto. apply in_or_app. left. exact Hx.
Qed.

(* ------------------------------------------------------------------------------------------------ C12: source independence *)

(* the same operation with the other source (store download vs local file) *)
Definition with_source (b : bool) (o : op) : op :=
  mkOp (okind o) (orev o) (odefault o) (ochan o) (odev o) (ojail o) (oclassic o) (otry o) (oignore o) (ocohort o)
       (onotblocked o) (ohookcfg o) (onow o) b.

(* the discard-snap tasks of a change do not depend on where the snap file comes from *)
Theorem gc_independent_of_source : forall o s retain inuse b,
  filter is_discard (tasks_for (with_source b o) s retain inuse) = filter is_discard (tasks_for o s retain inuse).
Proof.
  intros o s retain inuse b. unfold tasks_for. change (okind (with_source b o)) with (okind o).
  assert (I : filter is_discard (install_tasks (with_source b o) s retain inuse)
              = filter is_discard (install_tasks o s retain inuse)).
  { rewrite <- (filter_discard_ess (install_tasks (with_source b o) s retain inuse)).
    rewrite <- (filter_discard_ess (install_tasks o s retain inuse)).
    rewrite !install_tasks_ess. reflexivity. }
  destruct (okind o) eqn:K; try exact I; try reflexivity;
    unfold remove_tasks; change (okind (with_source b o)) with (okind o); rewrite K; reflexivity.
Qed.

(* ... for a refresh they are exactly the model's garbage-collection list, which has no source input at all *)
Theorem refresh_discards_are_gc : forall o s retain inuse,
  okind o = ORefresh -> installed s = true ->
  map snd (filter is_discard (tasks_for o s retain inuse)) = gc_revs s (orev o) retain inuse.
Proof.
  intros o s retain inuse K INST. unfold tasks_for. rewrite K.
  assert (NR : is_revert o = false) by (unfold is_revert; rewrite K; reflexivity).
  rewrite <- filter_discard_ess, install_tasks_ess, INST, NR. cbn [negb andb].
  rewrite !filter_app, !map_app.
  assert (E : filter is_discard (ess_pre o s) = []).
  { unfold ess_pre. rewrite INST. destruct (mem (orev o) (seq s)); reflexivity. }
  rewrite E. pose proof (discards_of_map (gc_revs s (orev o) retain inuse)) as DM. unfold task in *. rewrite DM.
  cbn. apply app_nil_r.
Qed.
