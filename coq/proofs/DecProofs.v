(* Round-trip facts about lib/Dec.v *)
From Coq Require Import List NArith ZArith Bool Lia DecimalFacts DecimalPos DecimalN.
Import ListNotations.
Require Import V.lib.Bytes V.lib.Dec.
Open Scope N_scope.

Lemma bytes_uint_of_uint_bytes : forall u, bytes_uint (uint_bytes u) = Some u.
Proof. induction u; cbn [uint_bytes bytes_uint]; try rewrite IHu; reflexivity. Qed.

Lemma uint_bytes_digits : forall u, forallb is_digit (uint_bytes u) = true.
Proof. induction u; cbn [uint_bytes forallb]; try rewrite IHu; reflexivity. Qed.

Lemma to_uint_nonnil : forall n, N.to_uint n <> Decimal.Nil.
Proof. intros [|p]; cbn; [discriminate|apply DecimalPos.Unsigned.to_uint_nonnil]. Qed.

Lemma dec_nonempty : forall n, dec n <> [].
Proof.
  intros n. unfold dec. pose proof (to_uint_nonnil n) as H. destruct (N.to_uint n); cbn; congruence.
Qed.

Lemma dec_digits : forall n, forallb is_digit (dec n) = true.
Proof. intros. apply uint_bytes_digits. Qed.

Lemma undec_dec : forall n, undec (dec n) = Some n.
Proof.
  intros n. unfold undec. pose proof (dec_nonempty n) as H. destruct (dec n) eqn:E; [congruence|].
  rewrite <- E. unfold dec. rewrite bytes_uint_of_uint_bytes. f_equal. apply DecimalN.Unsigned.of_to.
Qed.

Lemma dec_hd_digit : forall n, exists c r, dec n = c :: r /\ is_digit c = true.
Proof.
  intros n. pose proof (dec_nonempty n) as H. pose proof (dec_digits n) as D.
  destruct (dec n) as [|c r]; [congruence|]. exists c, r. split; [reflexivity|].
  cbn [forallb] in D. apply andb_prop in D. tauto.
Qed.

(* no zero padding: a leading 0 only for 0 itself *)
Lemma to_uint_D0 : forall n r, N.to_uint n = Decimal.D0 r -> r = Decimal.Nil.
Proof.
  intros n r H.
  assert (U : N.to_uint n = Decimal.unorm (N.to_uint n)).
  { rewrite <- (DecimalN.Unsigned.of_to n) at 1. apply DecimalN.Unsigned.to_of. }
  rewrite H in U. rewrite unorm_D0 in U. unfold Decimal.unorm in U.
  destruct (Decimal.nzhead r) eqn:Z; try discriminate U.
  - inversion U. reflexivity.
  - inversion U; subst. pose proof (nb_digits_nzhead u) as L. rewrite Z in L. cbn in L. lia.
Qed.

Lemma dec_leading_zero : forall n c r, dec n = 48 :: c :: r -> False.
Proof.
  intros n c r H. unfold dec in H. destruct (N.to_uint n) eqn:E; cbn in H; try discriminate.
  apply to_uint_D0 in E. subst. cbn in H. discriminate.
Qed.
