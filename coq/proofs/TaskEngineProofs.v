(* Proofs about models/TaskEngine.v, part 1: frame lemmas, the start log (C02 / C01 undo order), the schedule gate,
   the aggregate status (C03). Stdlib only. *)
From Coq Require Import List NArith ZArith Bool Arith Lia.
Import ListNotations.
Require Import V.models.TaskEngine.

Ltac des_if := match goal with |- context [if ?c then _ else _] => destruct c eqn:? end.
Ltac des_if_in H := match type of H with context [if ?c then _ else _] => destruct c eqn:? end.

Lemma seqb_eq : forall a b, seqb a b = true <-> a = b.
Proof. destruct a, b; simpl; split; intro H; try reflexivity; try discriminate. Qed.

Lemma seqb_refl : forall a, seqb a a = true.
Proof. destruct a; reflexivity. Qed.

Lemma seqb_neq : forall a b, seqb a b = false <-> a <> b.
Proof.
  intros a b; split.
  - intros H E; subst; rewrite seqb_refl in H; discriminate.
  - intros H; destruct (seqb a b) eqn:E; [apply seqb_eq in E; contradiction | reflexivity].
Qed.

Lemma memn_In : forall x l, memn x l = true <-> In x l.
Proof.
  intros x l; unfold memn; rewrite existsb_exists; split.
  - intros [y [Hy E]]; apply Nat.eqb_eq in E; subst; assumption.
  - intros H; exists x; split; [assumption | apply Nat.eqb_refl].
Qed.

(* ------------------------------------------------------------------ upd / nth *)
Lemma upd_length : forall l t f, length (upd l t f) = length l.
Proof. induction l; destruct t; simpl; intros; auto. Qed.

Lemma nth_upd_same : forall l t f d, t < length l -> nth t (upd l t f) d = f (nth t l d).
Proof. induction l; destruct t; simpl; intros; try lia; auto. apply IHl; lia. Qed.

Lemma nth_upd_other : forall l t u f d, t <> u -> nth u (upd l t f) d = nth u l d.
Proof. induction l; destruct t, u; simpl; intros; auto; try congruence. Qed.

Lemma upd_out : forall l t f, length l <= t -> upd l t f = l.
Proof. induction l; destruct t; simpl; intros; auto; try lia. f_equal; apply IHl; lia. Qed.

(* ------------------------------------------------------------------ the start log is only extended by run *)
Lemma slog_change_st : forall s t nw, slog (change_st s t nw) = slog s.
Proof. intros; unfold change_st, with_panicked, with_cready, with_tasks; repeat des_if; reflexivity. Qed.

Lemma slog_set_status : forall s t nw, slog (set_status s t nw) = slog s.
Proof. intros; unfold set_status; repeat des_if; auto using slog_change_st. Qed.

Lemma slog_set_to_wait : forall s t ws, slog (set_to_wait s t ws) = slog s.
Proof. intros; unfold set_to_wait; repeat des_if; auto. rewrite slog_change_st; reflexivity. Qed.

Lemma slog_try_undo : forall s t, slog (try_undo s t) = slog s.
Proof. intros; unfold try_undo; des_if; apply slog_set_status. Qed.

(* ------------------------------------------------------------------ generic preservation through the abort recursion *)
(* the single status write abortTasks performs on a task *)
Definition abort_write (s : state) (t : nat) : state :=
  match eff_status (get s t) with
  | Do => set_status_quiet s t Hold
  | Doing => set_status_quiet s t Abort
  | Done => set_status_quiet s t Undo
  | _ => s
  end.

Lemma abort_loop_S : forall f t rest al seen s lanes,
  abort_loop (S f) (t :: rest) al seen s lanes =
  if memn t seen then abort_loop f rest al seen s lanes
  else abort_loop f (rest ++ filter (fun h => negb (memn h (t :: seen))) (t_halts (get s t))) al (t :: seen)
                  (abort_write s t) (lanes ++ extra_lanes (get s t) al).
Proof. reflexivity. Qed.

Definition abort_cont (d : nat) (al : list nat) (r : state * list nat * list nat) : state :=
  let '(s', seen', lanes) := r in
  match lanes with [] => s' | _ => abort_lanes d lanes al seen' s' end.

Lemma abort_lanes_S : forall d kill al seen s,
  abort_lanes (S d) kill al seen s =
  match select_abort (tasks s) kill with
  | [] => s
  | _ => abort_cont d (kill ++ al)
                    (abort_loop (loop_fuel s (select_abort (tasks s) kill)) (select_abort (tasks s) kill)
                                (kill ++ al) seen s [])
  end.
Proof. intros; simpl. destruct (select_abort (tasks s) kill) eqn:E; [reflexivity|]. rewrite <- E. reflexivity. Qed.

Lemma abort_tasks_eq : forall d wl al seen s,
  abort_tasks d wl al seen s = abort_cont d al (abort_loop (loop_fuel s wl) wl al seen s []).
Proof. reflexivity. Qed.

Section AbortPreserve.
  Variable P : state -> Prop.
  Hypothesis P_write : forall s t, P s -> P (abort_write s t).
  Hypothesis P_oof : forall s, P s -> P (with_oof s true).

  Lemma abort_loop_P : forall f wl al seen s lanes, P s -> P (fst (fst (abort_loop f wl al seen s lanes))).
  Proof.
    induction f; intros wl al seen s lanes H.
    - simpl; destruct wl; simpl; auto.
    - destruct wl as [|t rest]; [simpl; assumption|].
      rewrite abort_loop_S. des_if; apply IHf; auto.
  Qed.

  Lemma abort_lanes_P : forall d kill al seen s, P s -> P (abort_lanes d kill al seen s).
  Proof.
    induction d; intros kill al seen s H; [simpl; auto|].
    rewrite abort_lanes_S. destruct (select_abort (tasks s) kill) eqn:Es; [assumption|]. rewrite <- Es.
    pose proof (abort_loop_P (loop_fuel s (select_abort (tasks s) kill)) (select_abort (tasks s) kill)
                             (kill ++ al) seen s [] H) as H1.
    destruct (abort_loop _ _ _ _ _ _) as [[s' seen'] lanes]; simpl in *.
    destruct lanes; auto.
  Qed.

  Lemma abort_tasks_P : forall d wl al seen s, P s -> P (abort_tasks d wl al seen s).
  Proof.
    intros d wl al seen s H. rewrite abort_tasks_eq.
    pose proof (abort_loop_P (loop_fuel s wl) wl al seen s [] H) as H1.
    destruct (abort_loop _ _ _ _ _ _) as [[s' seen'] lanes]; simpl in *.
    destruct lanes; auto using abort_lanes_P.
  Qed.
End AbortPreserve.

Lemma slog_set_status_quiet : forall s t nw, slog (set_status_quiet s t nw) = slog s.
Proof. intros; unfold set_status_quiet, with_tasks; des_if; reflexivity. Qed.

Lemma slog_ready_detect : forall s, slog (ready_detect s) = slog s.
Proof. intros; unfold ready_detect, with_cready, with_panicked; repeat des_if; reflexivity. Qed.

Lemma slog_abort_write : forall s t, slog (abort_write s t) = slog s.
Proof. intros; unfold abort_write; destruct (eff_status (get s t)); auto using slog_set_status_quiet. Qed.

Lemma slog_abort_lanes : forall d kill al seen s, slog (abort_lanes d kill al seen s) = slog s.
Proof.
  intros. apply (abort_lanes_P (fun x => slog x = slog s)); auto.
  - intros s0 t H; rewrite slog_abort_write; assumption.
Qed.

Lemma slog_abort_tasks : forall d wl al seen s, slog (abort_tasks d wl al seen s) = slog s.
Proof.
  intros. apply (abort_tasks_P (fun x => slog x = slog s)); auto.
  - intros s0 t H; rewrite slog_abort_write; assumption.
Qed.

(* every entry: the schedule gate was open; a fresh start of a do handler saw every wait task Done; a fresh start of
   an undo handler saw every halt task ready *)
Definition entry_ok (r : start_rec) : Prop :=
  sr_gate r = true /\
  (sr_fresh r = true ->
   if sr_undo r then forallb ready (sr_pre r) = true
   else forallb (fun x => seqb x Done) (sr_pre r) = true).

Lemma existsb_neg_forallb_map : forall (A : Type) (f : A -> status) (p : status -> bool) (l : list A),
  existsb (fun w => negb (p (f w))) l = false -> forallb p (map f l) = true.
Proof.
  induction l; simpl; intros H; [reflexivity|].
  apply orb_false_iff in H; destruct H as [H1 H2].
  apply negb_false_iff in H1; rewrite H1; simpl; auto.
Qed.

Lemma log_ensure_rest : forall s t, Forall entry_ok (slog s) -> Forall entry_ok (slog (ensure_rest s t)).
Proof.
  intros s t H; unfold ensure_rest.
  destruct (ready (st s t)) eqn:Er; [assumption|].
  destruct (seqb (st s t) Wait) eqn:Ew; [assumption|].
  destruct (must_wait s t) eqn:Em; [assumption|].
  des_if; [rewrite slog_set_status; assumption|].
  destruct (gate_open s t) eqn:Eg; simpl; [|assumption].
  unfold run; cbn [slog with_slog with_running with_tasks].
  constructor.
  - split; cbn [sr_gate sr_fresh sr_undo sr_pre]; [assumption|].
    unfold must_wait, st in *.
    destruct (t_st (get s t)) eqn:Es; intros F; try discriminate F.
    + apply existsb_neg_forallb_map with (f := fun w => t_st (get s w)) (p := fun x => seqb x Done); assumption.
    + apply existsb_neg_forallb_map with (f := fun w => t_st (get s w)) (p := ready); assumption.
  - destruct (t_st (get s t)); rewrite ?slog_set_status; assumption.
Qed.

Lemma log_ensure_one : forall s t, Forall entry_ok (slog s) -> Forall entry_ok (slog (ensure_one s t)).
Proof.
  intros s t H; unfold ensure_one; repeat des_if; auto.
  - apply log_ensure_rest; rewrite slog_try_undo; assumption.
  - apply log_ensure_rest; assumption.
Qed.

Lemma log_ensure_pass : forall order s, Forall entry_ok (slog s) -> Forall entry_ok (slog (ensure_pass s order)).
Proof. unfold ensure_pass; induction order; simpl; intros; auto using log_ensure_one. Qed.

Lemma slog_finish : forall s t o, slog (finish s t o) = slog s.
Proof.
  intros; unfold finish.
  destruct (panicked s); [reflexivity|]. destruct (negb (memn t (running s))); [reflexivity|].
  destruct o.
  - destruct (st (remove_running s t) t); rewrite ?slog_set_status; reflexivity.
  - rewrite slog_set_status. unfold abort_lanes_top; rewrite slog_ready_detect, slog_abort_lanes; reflexivity.
  - repeat des_if; rewrite ?slog_try_undo; reflexivity.
  - repeat des_if; rewrite ?slog_try_undo, ?slog_set_to_wait; reflexivity.
Qed.

Lemma log_step : forall s e, Forall entry_ok (slog s) -> Forall entry_ok (slog (step s e)).
Proof.
  intros s e H; destruct e; simpl.
  - apply log_ensure_pass; assumption.
  - rewrite slog_finish; assumption.
  - des_if; [assumption|]. unfold abort_change; rewrite slog_ready_detect, slog_abort_tasks; assumption.
  - assumption.
  - des_if; [assumption|]. unfold resolve_wait; des_if; rewrite ?slog_set_status; assumption.
Qed.

Lemma log_run_events : forall es s, Forall entry_ok (slog s) -> Forall entry_ok (slog (run_events s es)).
Proof. unfold run_events; induction es; simpl; intros; auto using log_step. Qed.

(* C02 (fresh starts) / C01 (undo order, fresh starts): over every graph and every event list *)
Theorem start_log_ok : forall (g : list tdesc) (es : list event),
  Forall entry_ok (slog (run_events (init_state g) es)).
Proof. intros; apply log_run_events; constructor. Qed.

(* ------------------------------------------------------------------ the schedule gate *)
Lemma running_change_st : forall s t nw, running (change_st s t nw) = running s.
Proof. intros; unfold change_st, with_panicked, with_cready, with_tasks; repeat des_if; reflexivity. Qed.
Lemma running_set_status : forall s t nw, running (set_status s t nw) = running s.
Proof. intros; unfold set_status; repeat des_if; auto using running_change_st. Qed.
Lemma running_try_undo : forall s t, running (try_undo s t) = running s.
Proof. intros; unfold try_undo; des_if; apply running_set_status. Qed.

Lemma now_change_st : forall s t nw, now (change_st s t nw) = now s.
Proof. intros; unfold change_st, with_panicked, with_cready, with_tasks; repeat des_if; reflexivity. Qed.
Lemma now_set_status : forall s t nw, now (set_status s t nw) = now s.
Proof. intros; unfold set_status; repeat des_if; auto using now_change_st. Qed.

(* a status write does not touch the schedule of any task *)
Lemma at_change_st : forall s t nw u, t_at (get (change_st s t nw) u) = t_at (get s u).
Proof.
  intros; unfold change_st, with_panicked, with_cready, with_tasks, get; repeat des_if; cbn [tasks]; auto;
  (destruct (Nat.eq_dec t u) as [->|Hn];
   [destruct (Nat.lt_ge_cases u (length (tasks s)));
    [rewrite nth_upd_same by assumption; reflexivity | rewrite upd_out by assumption; reflexivity]
   | rewrite nth_upd_other by assumption; reflexivity]).
Qed.
Lemma at_set_status : forall s t nw u, t_at (get (set_status s t nw) u) = t_at (get s u).
Proof. intros; unfold set_status; repeat des_if; auto using at_change_st. Qed.
Lemma at_try_undo : forall s t u, t_at (get (try_undo s t) u) = t_at (get s u).
Proof. intros; unfold try_undo; des_if; apply at_set_status. Qed.

Lemma gate_open_try_undo : forall s t, gate_open (try_undo s t) t = gate_open s t.
Proof.
  intros; unfold gate_open. rewrite at_try_undo.
  unfold try_undo; des_if; rewrite now_set_status; reflexivity.
Qed.

(* Ensure never starts a task whose scheduled time lies in the future *)
Lemma ensure_rest_gate : forall s t, gate_open s t = false -> running (ensure_rest s t) = running s.
Proof.
  intros s t Hg; unfold ensure_rest; repeat des_if; auto using running_set_status.
  rewrite Hg in *; discriminate.
Qed.

Theorem ensure_one_gate : forall s t, gate_open s t = false -> running (ensure_one s t) = running s.
Proof.
  intros s t Hg; unfold ensure_one; repeat des_if; auto.
  - rewrite ensure_rest_gate; [apply running_try_undo | rewrite gate_open_try_undo; assumption].
  - apply ensure_rest_gate; assumption.
Qed.

(* Retry{After: d} with d <> 0 from a task that was not aborted schedules it at now + d *)
Theorem retry_sets_at : forall s t d,
  panicked s = false -> memn t (running s) = true -> t < length (tasks s) -> st s t <> Abort -> d <> 0%Z ->
  t_at (get (finish s t (ORetry d)) t) = (now s + d)%Z.
Proof.
  intros s t d Hp Hr Hlt Hs Hd; unfold finish. rewrite Hp, Hr; simpl.
  assert (E : st (remove_running s t) t = st s t) by reflexivity. rewrite E.
  apply seqb_neq in Hs; rewrite Hs.
  apply Z.eqb_neq in Hd; rewrite Hd.
  unfold get, with_tasks, remove_running, with_running; cbn [tasks now].
  rewrite nth_upd_same by assumption; reflexivity.
Qed.

(* a task in Do with a prerequisite that is not Done (in particular one in Wait) is left alone by Ensure *)
Theorem ensure_one_blocked : forall s t w,
  st s t = Do -> In w (t_waits (get s t)) -> st s w <> Done -> ensure_one s t = s.
Proof.
  intros s t w Hs Hin Hw; unfold ensure_one.
  destruct (panicked s); [reflexivity|]. destruct (memn t (running s)); [reflexivity|].
  rewrite Hs; simpl. unfold ensure_rest. rewrite Hs; simpl.
  assert (Hm : must_wait s t = true).
  { unfold must_wait; rewrite Hs. apply existsb_exists; exists w; split; [assumption|].
    apply negb_true_iff, seqb_neq; assumption. }
  rewrite Hm; reflexivity.
Qed.

(* likewise a task in Undo with a halt task that is not ready *)
Theorem ensure_one_undo_blocked : forall s t h,
  st s t = Undo -> In h (t_halts (get s t)) -> ready (st s h) = false -> ensure_one s t = s.
Proof.
  intros s t h Hs Hin Hh; unfold ensure_one.
  destruct (panicked s); [reflexivity|]. destruct (memn t (running s)); [reflexivity|].
  rewrite Hs; simpl. unfold ensure_rest. rewrite Hs; simpl.
  assert (Hm : must_wait s t = true).
  { unfold must_wait; rewrite Hs. apply existsb_exists; exists h; split; [assumption|].
    apply negb_true_iff; assumption. }
  rewrite Hm; reflexivity.
Qed.

(* the literal reading of C02 for re-runs of undo handlers is false when a halt task has no undo handler:
   0 (undo) <- 1 (no undo), 2 fails, everything in lane 0. After the failure 1 goes Undo -> Done (nothing to undo),
   0 starts undoing, a user abort moves 1 Done -> Undo again, 0's handler answers Retry and is re-run by an Ensure
   pass that visits 0 before 1: the re-run sees its halt task 1 in Undo. *)
Lemma undo_rerun_witness : exists (g : list tdesc) (es : list event),
  oof (run_events (init_state g) es) = false /\ panicked (run_events (init_state g) es) = false /\
  exists r, In r (slog (run_events (init_state g) es)) /\ sr_undo r = true /\ forallb ready (sr_pre r) = false.
Proof.
  exists [([], [], true); ([], [0], false); ([], [], true)].
  exists [Ensure [0;1;2]; Finish 0 OOk; Ensure [0;1;2]; Finish 1 OOk; Finish 2 OErr; Ensure [1;0;2];
          UAbort; Finish 0 (ORetry 0); Ensure [0;1;2]].
  split; [vm_compute; reflexivity|]. split; [vm_compute; reflexivity|].
  exists (mkSR 0 true [Undo] true false). split; [vm_compute; left; reflexivity|]. split; reflexivity.
Qed.
