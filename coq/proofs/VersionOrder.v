(* C33 — unbounded transitivity of the model of strutil.VersionCompare (models/Version.v).
   Strategy: the per-position comparison of compareSubversion is strictly transitive on each of its three regimes
   (first position; later numeric position, where a missing fragment counts as 0; later string position), a zero result
   keeps the three operands in the same regime, and the loop is the lexicographic iteration of that comparison.
   Byte strings are restricted to real, non-NUL bytes (0 < c < 256), as in the property (the padding byte of cmpString is 0). *)
From Coq Require Import List NArith ZArith Bool Lia ZifyBool ZifyNat ZifyN.
Import ListNotations.
Require Import V.lib.Bytes V.gen.ChOrder V.models.Version V.proofs.VersionProofs.
Open Scope Z_scope.

Definition okb (c : N) : bool := (0 <? c)%N && (c <? 256)%N.
Definition ok (s : bytes) : bool := forallb okb s.

(* strict transitivity of three comparison results *)
Definition st (x y z : Z) : Prop :=
  (x <= 0 -> y <= 0 -> z <= 0 /\ (x < 0 \/ y < 0 -> z < 0)) /\
  (x >= 0 -> y >= 0 -> z >= 0 /\ (x > 0 \/ y > 0 -> z > 0)).

(* ------------------------------------------------------------------ facts about the regenerated chOrder table *)
Definition byte_fact (c : N) : bool :=
  if is_digit c then (ch_order c =? 0)
  else if (c =? 0)%N then (ch_order c =? -5)
  else negb (ch_order c =? 0) && negb (ch_order c =? -5).

Lemma byte_facts_all : forallb (fun n => byte_fact (N.of_nat n)) (seq 0 256) = true.
Proof. vm_compute. reflexivity. Qed.

Lemma byte_fact_ok : forall c, (c < 256)%N -> byte_fact c = true.
Proof.
  intros c Hc. pose proof byte_facts_all as H. rewrite forallb_forall in H.
  specialize (H (N.to_nat c)). rewrite N2Nat.id in H. apply H. apply in_seq. lia.
Qed.

Lemma order_pad : ch_order 0 = -5.
Proof. reflexivity. Qed.

Lemma order_digit : forall c, is_digit c = true -> ch_order c = 0.
Proof.
  intros c Hd. assert (Hc : (c < 256)%N). { unfold is_digit in Hd. lia. }
  pose proof (byte_fact_ok c Hc) as H. unfold byte_fact in H. rewrite Hd in H. lia.
Qed.

Lemma order_nondigit : forall c, okb c = true -> is_digit c = false -> ch_order c <> 0 /\ ch_order c <> -5.
Proof.
  intros c Hk Hd. unfold okb in Hk.
  assert (Hc : (c < 256)%N) by lia.
  pose proof (byte_fact_ok c Hc) as H. unfold byte_fact in H. rewrite Hd in H.
  destruct (N.eqb_spec c 0); [lia|]. lia.
Qed.

(* ------------------------------------------------------------------ cmpString is strictly transitive *)
Definition hd0 (l : bytes) : N := hd 0%N l.

Lemma cs_unfold : forall a b, cmp_string a b = cmp1 (hd0 a) (hd0 b) (cmp_string (tl a) (tl b)).
Proof.
  intros [|x a] [|y b]; reflexivity.
Qed.

Lemma cmp1_st : forall x y z k1 k2 k3, st k1 k2 k3 -> st (cmp1 x y k1) (cmp1 y z k2) (cmp1 x z k3).
Proof.
  intros x y z k1 k2 k3 H. unfold cmp1, st in *.
  destruct (Z.ltb_spec (ch_order x) (ch_order y)), (Z.gtb_spec (ch_order x) (ch_order y)),
           (Z.ltb_spec (ch_order y) (ch_order z)), (Z.gtb_spec (ch_order y) (ch_order z)),
           (Z.ltb_spec (ch_order x) (ch_order z)), (Z.gtb_spec (ch_order x) (ch_order z)); try lia.
Qed.

Lemma cs_st_n : forall n a b c, (length a <= n)%nat -> (length b <= n)%nat -> (length c <= n)%nat ->
  st (cmp_string a b) (cmp_string b c) (cmp_string a c).
Proof.
  induction n as [|n IH]; intros a b c Ha Hb Hc.
  - destruct a, b, c; cbn in *; try lia. unfold st; cbn; lia.
  - rewrite (cs_unfold a b), (cs_unfold b c), (cs_unfold a c).
    apply cmp1_st. apply IH; destruct a, b, c; cbn in *; lia.
Qed.

Lemma cs_st : forall a b c, st (cmp_string a b) (cmp_string b c) (cmp_string a c).
Proof.
  intros a b c. apply (cs_st_n (length a + length b + length c)); lia.
Qed.

(* the first position decides when the head orders differ *)
Definition hord (l : bytes) : Z := ch_order (hd0 l).

Lemma cs_head_lt : forall a b, hord a < hord b -> cmp_string a b = -1.
Proof.
  intros a b H. rewrite cs_unfold. unfold cmp1, hord in *.
  destruct (Z.ltb_spec (ch_order (hd0 a)) (ch_order (hd0 b))); [reflexivity|lia].
Qed.

Lemma cs_head_gt : forall a b, hord a > hord b -> cmp_string a b = 1.
Proof.
  intros a b H. rewrite cs_unfold. unfold cmp1, hord in *.
  destruct (Z.ltb_spec (ch_order (hd0 a)) (ch_order (hd0 b))); [lia|].
  destruct (Z.gtb_spec (ch_order (hd0 a)) (ch_order (hd0 b))); [reflexivity|lia].
Qed.

Lemma cs_le_head : forall a b, cmp_string a b <= 0 -> hord a <= hord b.
Proof.
  intros a b H. destruct (Z.le_gt_cases (hord a) (hord b)) as [|G]; [assumption|].
  rewrite (cs_head_gt a b) in H; lia.
Qed.

Lemma cs_ge_head : forall a b, cmp_string a b >= 0 -> hord a >= hord b.
Proof.
  intros a b H. destruct (Z.le_gt_cases (hord b) (hord a)) as [|G]; [lia|].
  rewrite (cs_head_lt a b) in H; lia.
Qed.

(* ------------------------------------------------------------------ cmpNumeric is strictly transitive *)
Lemma cbn_st : forall a b c, length a = length b -> length b = length c ->
  st (cmp_bytes_num a b) (cmp_bytes_num b c) (cmp_bytes_num a c).
Proof.
  induction a as [|x a IH]; intros [|y b] [|z c] H1 H2; try discriminate.
  - unfold st; cbn; lia.
  - cbn in H1, H2. cbn [cmp_bytes_num].
    specialize (IH b c ltac:(lia) ltac:(lia)). unfold st in *.
    destruct (N.ltb_spec y x), (N.ltb_spec x y), (N.ltb_spec z y), (N.ltb_spec y z),
             (N.ltb_spec z x), (N.ltb_spec x z); try lia.
Qed.

Lemma cn_st : forall a b c, st (cmp_numeric a b) (cmp_numeric b c) (cmp_numeric a c).
Proof.
  intros a b c. unfold cmp_numeric.
  set (ta := trim_zeroes a). set (tb := trim_zeroes b). set (tc := trim_zeroes c).
  pose proof (cbn_st ta tb tc) as Hs.
  destruct (Z.gtb_spec (Z.of_nat (length ta)) (Z.of_nat (length tb))),
           (Z.ltb_spec (Z.of_nat (length ta)) (Z.of_nat (length tb))),
           (Z.gtb_spec (Z.of_nat (length tb)) (Z.of_nat (length tc))),
           (Z.ltb_spec (Z.of_nat (length tb)) (Z.of_nat (length tc))),
           (Z.gtb_spec (Z.of_nat (length ta)) (Z.of_nat (length tc))),
           (Z.ltb_spec (Z.of_nat (length ta)) (Z.of_nat (length tc))); unfold st in *; try lia.
Qed.

(* a missing fragment at a later numeric position counts as the fragment 0 *)
Definition zf (a : bytes) : bytes := match a with [] => [48%N] | _ => a end.

Lemma cn_nil_zero_l : forall b, cmp_numeric [48%N] b = cmp_numeric [] b.
Proof. reflexivity. Qed.
Lemma cn_nil_zero_r : forall a, cmp_numeric a [48%N] = cmp_numeric a [].
Proof. intros. unfold cmp_numeric. reflexivity. Qed.

(* ------------------------------------------------------------------ fragments of ok strings *)
Inductive ftype := FE | FN | FS.

Definition ftyped (a : bytes) (an : bool) (t : ftype) : Prop :=
  match t with
  | FE => a = [] /\ an = false
  | FN => a <> [] /\ an = true /\ is_digit (hd0 a) = true
  | FS => a <> [] /\ an = false /\ is_digit (hd0 a) = false /\ okb (hd0 a) = true
  end.

Definition ph_num (s : bytes) : bool := match s with [] => true | c :: _ => is_digit c end.
Definition ph_str (s : bytes) : bool := match s with [] => true | c :: _ => negb (is_digit c) end.

Lemma span_spec : forall p l a b, span p l = (a, b) ->
  l = a ++ b /\ forallb p a = true /\ match b with [] => True | c :: _ => p c = false end.
Proof.
  induction l as [|x l IH]; intros a b H; cbn in H.
  - inversion H; subst. cbn. auto.
  - destruct (p x) eqn:Ex.
    + destruct (span p l) as [a' b'] eqn:Es. inversion H; subst.
      destruct (IH a' b eq_refl) as (E & F & G). split; [cbn; f_equal; exact E|]. split; [cbn; rewrite Ex; exact F|exact G].
    + inversion H; subst. cbn. rewrite Ex. auto.
Qed.

Lemma ok_app : forall a b, ok (a ++ b) = true -> ok a = true /\ ok b = true.
Proof. intros a b H. unfold ok in *. rewrite forallb_app in H. apply andb_prop in H. exact H. Qed.

Lemma next_frag_spec : forall s f r n, ok s = true -> next_frag s = (f, r, n) ->
  ok r = true /\
  ((s = [] /\ ftyped f n FE /\ r = []) \/
   (ftyped f n FN /\ ph_str r = true /\ ph_num s = true /\ s <> []) \/
   (ftyped f n FS /\ ph_num r = true /\ ph_str s = true /\ s <> [])).
Proof.
  intros s f r n Hok H. destruct s as [|c s'].
  - cbn in H. inversion H; subst. split; [reflexivity|]. left. cbn. auto.
  - unfold next_frag in H. destruct (is_digit c) eqn:Ed.
    + destruct (span is_digit (c :: s')) as [f' r'] eqn:Es. inversion H; subst f' r' n.
      pose proof (span_spec _ _ _ _ Es) as (E & F & G).
      assert (Hf : f <> []). { eapply span_hd; [exact Ed|exact Es]. }
      rewrite E in Hok. destruct (ok_app _ _ Hok) as [_ Hr]. split; [exact Hr|].
      right; left. split; [|split; [|split]].
      * cbn. split; [exact Hf|]. split; [reflexivity|]. destruct f as [|x f0]; [congruence|].
        cbn in E. inversion E; subst x. exact Ed.
      * destruct r as [|y r0]; [reflexivity|]. cbn. rewrite G. reflexivity.
      * cbn. exact Ed.
      * discriminate.
    + destruct (span (fun x => negb (is_digit x)) (c :: s')) as [f' r'] eqn:Es. inversion H; subst f' r' n.
      pose proof (span_spec _ _ _ _ Es) as (E & F & G).
      assert (Hf : f <> []). { eapply (span_hd (fun x => negb (is_digit x))); [cbn; rewrite Ed; reflexivity|exact Es]. }
      rewrite E in Hok. destruct (ok_app _ _ Hok) as [Hfk Hr]. split; [exact Hr|].
      right; right. split; [|split; [|split]].
      * cbn. split; [exact Hf|]. split; [reflexivity|]. destruct f as [|x f0]; [congruence|].
        cbn in E. inversion E; subst x. split; [exact Ed|]. cbn in Hfk. apply andb_prop in Hfk. apply Hfk.
      * destruct r as [|y r0]; [reflexivity|]. cbn. cbn in G. destruct (is_digit y); [reflexivity|discriminate].
      * cbn. rewrite Ed. reflexivity.
      * discriminate.
Qed.

Lemma hord_FE : forall a an, ftyped a an FE -> hord a = -5.
Proof. intros a an [H _]. subst. reflexivity. Qed.
Lemma hord_FN : forall a an, ftyped a an FN -> hord a = 0.
Proof. intros a an (_ & _ & H). unfold hord. apply order_digit. exact H. Qed.
Lemma hord_FS : forall a an, ftyped a an FS -> hord a <> 0 /\ hord a <> -5.
Proof. intros a an (_ & _ & H & K). unfold hord. apply order_nondigit; assumption. Qed.

(* ------------------------------------------------------------------ the per-position comparison *)
Definition pos_cmp (first : bool) (a : bytes) (an : bool) (b : bytes) (bn : bool) : Z :=
  if an && bn then cmp_numeric a b
  else if negb first && is_nil a && bn then cmp_numeric [48%N] b
  else if negb first && is_nil b && an then cmp_numeric a [48%N]
  else cmp_string a b.

Definition is_num (t : ftype) : bool := match t with FN => true | _ => false end.

Lemma ftyped_num : forall a an t, ftyped a an t -> an = is_num t.
Proof. intros a an [] H; cbn in *; tauto. Qed.

Lemma ftyped_nil : forall a an t, ftyped a an t -> is_nil a = match t with FE => true | _ => false end.
Proof. intros a an [] H; cbn in H; destruct H as [H _]; destruct a; cbn; congruence. Qed.

(* first position: numeric pairs by value, everything else by cmpString *)
Lemma pos_first_eq : forall a an b bn ta tb, ftyped a an ta -> ftyped b bn tb ->
  pos_cmp true a an b bn = if is_num ta && is_num tb then cmp_numeric a b else cmp_string a b.
Proof.
  intros a an b bn ta tb Ha Hb. unfold pos_cmp. rewrite (ftyped_num _ _ _ Ha), (ftyped_num _ _ _ Hb).
  cbn [negb andb]. reflexivity.
Qed.

Lemma mixed_hord : forall a an b bn ta tb, ftyped a an ta -> ftyped b bn tb ->
  is_num ta = true -> is_num tb = false -> hord a = 0 /\ hord b <> 0.
Proof.
  intros a an b bn ta tb Ha Hb Na Nb. destruct ta; try discriminate. split; [eapply hord_FN; eauto|].
  destruct tb; try discriminate.
  - rewrite (hord_FE _ _ Hb). lia.
  - apply (hord_FS _ _ Hb).
Qed.

Ltac heads := repeat match goal with
  | H : cmp_string _ _ <= 0 |- _ => apply cs_le_head in H
  | H : cmp_string _ _ >= 0 |- _ => apply cs_ge_head in H end.

Lemma pos_first_st : forall a an b bn c cn ta tb tc, ftyped a an ta -> ftyped b bn tb -> ftyped c cn tc ->
  st (pos_cmp true a an b bn) (pos_cmp true b bn c cn) (pos_cmp true a an c cn).
Proof.
  intros a an b bn c cn ta tb tc Ha Hb Hc.
  rewrite (pos_first_eq _ _ _ _ _ _ Ha Hb), (pos_first_eq _ _ _ _ _ _ Hb Hc), (pos_first_eq _ _ _ _ _ _ Ha Hc).
  destruct (is_num ta) eqn:Na, (is_num tb) eqn:Nb, (is_num tc) eqn:Nc; cbn [andb].
  - apply cn_st.
  - (* N N X *)
    destruct (mixed_hord _ _ _ _ _ _ Hb Hc Nb Nc) as [Hb0 Hc0].
    destruct (mixed_hord _ _ _ _ _ _ Ha Hc Na Nc) as [Ha0 _].
    split; intros Hx Hy; heads.
    + rewrite (cs_head_lt a c); lia.
    + rewrite (cs_head_gt a c); lia.
  - (* N X N *)
    destruct (mixed_hord _ _ _ _ _ _ Ha Hb Na Nb) as [Ha0 Hb0].
    destruct (mixed_hord _ _ _ _ _ _ Hc Hb Nc Nb) as [Hc0 _].
    split; intros Hx Hy; heads; lia.
  - (* N X X *)
    destruct (mixed_hord _ _ _ _ _ _ Ha Hb Na Nb) as [Ha0 Hb0].
    destruct (mixed_hord _ _ _ _ _ _ Ha Hc Na Nc) as [_ Hc0].
    split; intros Hx Hy; heads.
    + rewrite (cs_head_lt a c); lia.
    + rewrite (cs_head_gt a c); lia.
  - (* X N N *)
    destruct (mixed_hord _ _ _ _ _ _ Hb Ha Nb Na) as [Hb0 Ha0].
    destruct (mixed_hord _ _ _ _ _ _ Hc Ha Nc Na) as [Hc0 _].
    split; intros Hx Hy; heads.
    + rewrite (cs_head_lt a c); lia.
    + rewrite (cs_head_gt a c); lia.
  - (* X N X *)
    destruct (mixed_hord _ _ _ _ _ _ Hb Ha Nb Na) as [Hb0 Ha0].
    destruct (mixed_hord _ _ _ _ _ _ Hb Hc Nb Nc) as [_ Hc0].
    split; intros Hx Hy; heads.
    + rewrite (cs_head_lt a c); lia.
    + rewrite (cs_head_gt a c); lia.
  - (* X X N *)
    destruct (mixed_hord _ _ _ _ _ _ Hc Ha Nc Na) as [Hc0 Ha0].
    destruct (mixed_hord _ _ _ _ _ _ Hc Hb Nc Nb) as [_ Hb0].
    split; intros Hx Hy; heads.
    + rewrite (cs_head_lt a c); lia.
    + rewrite (cs_head_gt a c); lia.
  - apply cs_st.
Qed.

(* at the first position a zero result means both fragments have the same type *)
Lemma pos_first_zero : forall a an b bn ta tb, ftyped a an ta -> ftyped b bn tb ->
  pos_cmp true a an b bn = 0 -> ta = tb.
Proof.
  intros a an b bn ta tb Ha Hb H. rewrite (pos_first_eq _ _ _ _ _ _ Ha Hb) in H.
  assert (Hh : is_num ta && is_num tb = false -> hord a = hord b).
  { intros E. rewrite E in H. destruct (Z.lt_trichotomy (hord a) (hord b)) as [L|[L|L]]; [|exact L|].
    - rewrite (cs_head_lt _ _ L) in H. lia.
    - rewrite (cs_head_gt a b) in H; lia. }
  destruct ta, tb; try reflexivity; cbn [is_num andb] in Hh; specialize (Hh eq_refl); exfalso.
  - rewrite (hord_FE _ _ Ha), (hord_FN _ _ Hb) in Hh. lia.
  - rewrite (hord_FE _ _ Ha) in Hh. pose proof (hord_FS _ _ Hb). lia.
  - rewrite (hord_FN _ _ Ha), (hord_FE _ _ Hb) in Hh. lia.
  - rewrite (hord_FN _ _ Ha) in Hh. pose proof (hord_FS _ _ Hb). lia.
  - rewrite (hord_FE _ _ Hb) in Hh. pose proof (hord_FS _ _ Ha). lia.
  - rewrite (hord_FN _ _ Hb) in Hh. pose proof (hord_FS _ _ Ha). lia.
Qed.

(* later numeric position: every operand is a numeric fragment or missing, at most one of a pair missing *)
Lemma pos_num_eq : forall a an b bn ta tb, ftyped a an ta -> ftyped b bn tb -> ta <> FS -> tb <> FS ->
  (ta = FE -> tb = FE -> False) ->
  pos_cmp false a an b bn = cmp_numeric (zf a) (zf b).
Proof.
  intros a an b bn ta tb Ha Hb Sa Sb Hne. unfold pos_cmp.
  rewrite (ftyped_num _ _ _ Ha), (ftyped_num _ _ _ Hb), (ftyped_nil _ _ _ Ha), (ftyped_nil _ _ _ Hb).
  destruct ta, tb; try congruence; cbn [is_num andb negb]; try (exfalso; apply Hne; reflexivity).
  - destruct Ha as [Ea _]. subst a. destruct Hb as [Nb _]. destruct b; [congruence|]. reflexivity.
  - destruct Hb as [Eb _]. subst b. destruct Ha as [Na _]. destruct a; [congruence|]. reflexivity.
  - destruct Ha as [Na _]. destruct Hb as [Nb _]. destruct a, b; try congruence. reflexivity.
Qed.

(* later string position: every operand is a string fragment or missing *)
Lemma pos_str_eq : forall a an b bn ta tb, ftyped a an ta -> ftyped b bn tb -> ta <> FN -> tb <> FN ->
  pos_cmp false a an b bn = cmp_string a b.
Proof.
  intros a an b bn ta tb Ha Hb Sa Sb. unfold pos_cmp.
  rewrite (ftyped_num _ _ _ Ha), (ftyped_num _ _ _ Hb).
  destruct ta, tb; try congruence; cbn [is_num andb negb]; rewrite ?andb_false_r; reflexivity.
Qed.

(* ------------------------------------------------------------------ the loop *)
Lemma cmp_sub_step : forall f first va vb,
  cmp_sub (S f) first va vb =
  let '(a, va', an) := next_frag va in
  let '(b, vb', bn) := next_frag vb in
  if is_nil a && is_nil b then Some 0
  else let res := pos_cmp first a an b bn in
       if (res =? 0) then cmp_sub f false va' vb' else Some res.
Proof. reflexivity. Qed.

Lemma cmp_sub_nil_nil : forall f first, cmp_sub (S f) first [] [] = Some 0.
Proof. reflexivity. Qed.

Lemma step_typed : forall v a v' an, ok v = true -> next_frag v = (a, v', an) ->
  exists t, ftyped a an t /\ ok v' = true /\
    (t = FE -> v = [] /\ v' = []) /\
    (t = FN -> ph_str v' = true /\ ph_num v = true /\ v <> []) /\
    (t = FS -> ph_num v' = true /\ ph_str v = true /\ v <> []).
Proof.
  intros v a v' an K F. destruct (next_frag_spec _ _ _ _ K F) as (K' & [(E & T & R)|[(T & P & Q & N)|(T & P & Q & N)]]).
  - exists FE. split; [exact T|]. split; [exact K'|]. repeat split; try (intros; discriminate); intros; repeat split; auto.
  - exists FN. split; [exact T|]. split; [exact K'|]. repeat split; try (intros; discriminate); intros; repeat split; auto.
  - exists FS. split; [exact T|]. split; [exact K'|]. repeat split; try (intros; discriminate); intros; repeat split; auto.
Qed.

(* which regime three operands are in *)
Definition regime (first : bool) (va vb vc : bytes) : Prop :=
  first = true \/
  (first = false /\ ph_num va = true /\ ph_num vb = true /\ ph_num vc = true) \/
  (first = false /\ ph_str va = true /\ ph_str vb = true /\ ph_str vc = true).

Lemma ph_both : forall s, s <> [] -> ph_num s = true -> ph_str s = true -> False.
Proof. intros [|c s] H A B; [congruence|]. cbn in *. rewrite A in B. discriminate. Qed.

(* combining the position results with the results of the continued loop *)
Lemma combine_st : forall rab rbc rac (ox oy oz : option Z) x y z,
  st rab rbc rac ->
  (rab = 0 -> rbc = 0 -> rac = 0 -> forall x' y' z', ox = Some x' -> oy = Some y' -> oz = Some z' -> st x' y' z') ->
  (if rab =? 0 then ox else Some rab) = Some x ->
  (if rbc =? 0 then oy else Some rbc) = Some y ->
  (if rac =? 0 then oz else Some rac) = Some z ->
  st x y z.
Proof.
  intros rab rbc rac ox oy oz x y z S IH Hx Hy Hz.
  destruct (Z.eqb_spec rab 0) as [A|A], (Z.eqb_spec rbc 0) as [B|B], (Z.eqb_spec rac 0) as [C|C];
    try (inversion Hx; subst x); try (inversion Hy; subst y); try (inversion Hz; subst z);
    try (apply (IH A B C _ _ _ Hx Hy Hz)); unfold st in *; lia.
Qed.

Lemma st_0_l : forall y, st 0 y y.
Proof. intros. unfold st. lia. Qed.
Lemma st_0_r : forall x, st x 0 x.
Proof. intros. unfold st. lia. Qed.
Lemma st_opp : forall x, st x (- x) 0.
Proof. intros. unfold st. lia. Qed.

Lemma cmp_sub_st : forall f first va vb vc x y z,
  ok va = true -> ok vb = true -> ok vc = true -> regime first va vb vc ->
  cmp_sub f first va vb = Some x -> cmp_sub f first vb vc = Some y -> cmp_sub f first va vc = Some z ->
  st x y z.
Proof.
  induction f as [|f IH]; intros first va vb vc x y z Ka Kb Kc Hreg Hx Hy Hz; [discriminate|].
  destruct (next_frag va) as [[a va'] an] eqn:Fa.
  destruct (next_frag vb) as [[b vb'] bn] eqn:Fb.
  destruct (next_frag vc) as [[c vc'] cn] eqn:Fc.
  destruct (step_typed _ _ _ _ Ka Fa) as (ta & Ta & Ka' & EaE & EaN & EaS).
  destruct (step_typed _ _ _ _ Kb Fb) as (tb & Tb & Kb' & EbE & EbN & EbS).
  destruct (step_typed _ _ _ _ Kc Fc) as (tc & Tc & Kc' & EcE & EcN & EcS).
  (* two missing operands: the loop stops at once for that pair *)
  assert (Two : (ta = FE /\ tb = FE) \/ (tb = FE /\ tc = FE) \/ (ta = FE /\ tc = FE) \/
                ((ta = FE -> tb = FE -> False) /\ (tb = FE -> tc = FE -> False) /\ (ta = FE -> tc = FE -> False))).
  { destruct ta, tb, tc; try (left; split; reflexivity); try (right; left; split; reflexivity);
      try (right; right; left; split; reflexivity); right; right; right; repeat split; intros; discriminate. }
  destruct Two as [[A B]|[[A B]|[[A B]|(NEab & NEbc & NEac)]]].
  - destruct (EaE A) as [-> _]. destruct (EbE B) as [-> _].
    rewrite cmp_sub_nil_nil in Hx. inversion Hx; subst. rewrite Hy in Hz. inversion Hz; subst. apply st_0_l.
  - destruct (EbE A) as [-> _]. destruct (EcE B) as [-> _].
    rewrite cmp_sub_nil_nil in Hy. inversion Hy; subst. rewrite Hx in Hz. inversion Hz; subst. apply st_0_r.
  - destruct (EaE A) as [-> _]. destruct (EcE B) as [-> _].
    rewrite cmp_sub_nil_nil in Hz. inversion Hz; subst.
    apply cmp_sub_flip in Hx. rewrite Hx in Hy. inversion Hy; subst. apply st_opp.
  - rewrite cmp_sub_step in Hx, Hy, Hz. rewrite Fa, Fb in Hx. rewrite Fb, Fc in Hy. rewrite Fa, Fc in Hz.
    rewrite (ftyped_nil _ _ _ Ta), (ftyped_nil _ _ _ Tb) in Hx.
    rewrite (ftyped_nil _ _ _ Tb), (ftyped_nil _ _ _ Tc) in Hy.
    rewrite (ftyped_nil _ _ _ Ta), (ftyped_nil _ _ _ Tc) in Hz.
    assert (Nab : (match ta with FE => true | _ => false end) && (match tb with FE => true | _ => false end) = false)
      by (destruct ta, tb; try reflexivity; exfalso; apply NEab; reflexivity).
    assert (Nbc : (match tb with FE => true | _ => false end) && (match tc with FE => true | _ => false end) = false)
      by (destruct tb, tc; try reflexivity; exfalso; apply NEbc; reflexivity).
    assert (Nac : (match ta with FE => true | _ => false end) && (match tc with FE => true | _ => false end) = false)
      by (destruct ta, tc; try reflexivity; exfalso; apply NEac; reflexivity).
    rewrite Nab in Hx. rewrite Nbc in Hy. rewrite Nac in Hz. cbv zeta in Hx, Hy, Hz.
    destruct Hreg as [Hf|[(Hf & Pa & Pb & Pc)|(Hf & Pa & Pb & Pc)]]; subst first.
    + (* first position *)
      eapply combine_st; [apply (pos_first_st _ _ _ _ _ _ _ _ _ Ta Tb Tc)| |exact Hx|exact Hy|exact Hz].
      intros Zab Zbc _ x' y' z' Hx' Hy' Hz'.
      pose proof (pos_first_zero _ _ _ _ _ _ Ta Tb Zab) as E1.
      pose proof (pos_first_zero _ _ _ _ _ _ Tb Tc Zbc) as E2. subst tb tc.
      apply (IH false va' vb' vc' x' y' z' Ka' Kb' Kc'); try assumption.
      destruct ta.
      * exfalso. apply NEab; reflexivity.
      * right; right. repeat split; [apply (EaN eq_refl)|apply (EbN eq_refl)|apply (EcN eq_refl)].
      * right; left. repeat split; [apply (EaS eq_refl)|apply (EbS eq_refl)|apply (EcS eq_refl)].
    + (* later numeric position *)
      assert (Sa : ta <> FS) by (intros ->; destruct (EaS eq_refl) as (_ & Q & N); exact (ph_both _ N Pa Q)).
      assert (Sb : tb <> FS) by (intros ->; destruct (EbS eq_refl) as (_ & Q & N); exact (ph_both _ N Pb Q)).
      assert (Sc : tc <> FS) by (intros ->; destruct (EcS eq_refl) as (_ & Q & N); exact (ph_both _ N Pc Q)).
      rewrite (pos_num_eq _ _ _ _ _ _ Ta Tb Sa Sb NEab) in Hx.
      rewrite (pos_num_eq _ _ _ _ _ _ Tb Tc Sb Sc NEbc) in Hy.
      rewrite (pos_num_eq _ _ _ _ _ _ Ta Tc Sa Sc NEac) in Hz.
      eapply combine_st; [apply cn_st| |exact Hx|exact Hy|exact Hz].
      intros _ _ _ x' y' z' Hx' Hy' Hz'.
      apply (IH false va' vb' vc' x' y' z' Ka' Kb' Kc'); try assumption.
      right; right. split; [reflexivity|].
      assert (R : forall t v v', t <> FS -> (t = FE -> v = [] /\ v' = []) -> (t = FN -> ph_str v' = true /\ ph_num v = true /\ v <> []) -> ph_str v' = true).
      { intros t v v' NS E N. destruct t; [destruct (E eq_refl) as [_ ->]; reflexivity|apply (N eq_refl)|congruence]. }
      repeat split; [apply (R ta va va' Sa EaE EaN)|apply (R tb vb vb' Sb EbE EbN)|apply (R tc vc vc' Sc EcE EcN)].
    + (* later string position *)
      assert (Sa : ta <> FN) by (intros ->; destruct (EaN eq_refl) as (_ & Q & N); exact (ph_both _ N Q Pa)).
      assert (Sb : tb <> FN) by (intros ->; destruct (EbN eq_refl) as (_ & Q & N); exact (ph_both _ N Q Pb)).
      assert (Sc : tc <> FN) by (intros ->; destruct (EcN eq_refl) as (_ & Q & N); exact (ph_both _ N Q Pc)).
      rewrite (pos_str_eq _ _ _ _ _ _ Ta Tb Sa Sb) in Hx.
      rewrite (pos_str_eq _ _ _ _ _ _ Tb Tc Sb Sc) in Hy.
      rewrite (pos_str_eq _ _ _ _ _ _ Ta Tc Sa Sc) in Hz.
      eapply combine_st; [apply cs_st| |exact Hx|exact Hy|exact Hz].
      intros _ _ _ x' y' z' Hx' Hy' Hz'.
      apply (IH false va' vb' vc' x' y' z' Ka' Kb' Kc'); try assumption.
      right; left. split; [reflexivity|].
      assert (R : forall t v v', t <> FN -> (t = FE -> v = [] /\ v' = []) -> (t = FS -> ph_num v' = true /\ ph_str v = true /\ v <> []) -> ph_num v' = true).
      { intros t v v' NS E N. destruct t; [destruct (E eq_refl) as [_ ->]; reflexivity|congruence|apply (N eq_refl)]. }
      repeat split; [apply (R ta va va' Sa EaE EaS)|apply (R tb vb vb' Sb EbE EbS)|apply (R tc vc vc' Sc EcE EcS)].
Qed.

(* ------------------------------------------------------------------ fuel does not matter once it suffices *)
Lemma cmp_sub_mono : forall f first va vb r, cmp_sub f first va vb = Some r -> cmp_sub (S f) first va vb = Some r.
Proof.
  induction f as [|f IH]; intros first va vb r H; [discriminate|].
  rewrite cmp_sub_step in H. rewrite cmp_sub_step.
  destruct (next_frag va) as [[a va'] an]. destruct (next_frag vb) as [[b vb'] bn].
  destruct (is_nil a && is_nil b); [exact H|]. cbv zeta in *.
  destruct (pos_cmp first a an b bn =? 0); [apply IH; exact H|exact H].
Qed.

Lemma cmp_sub_mono_le : forall f g first va vb r, (f <= g)%nat -> cmp_sub f first va vb = Some r -> cmp_sub g first va vb = Some r.
Proof.
  intros f g first va vb r L H. induction L as [|g L IH]; [exact H|]. apply cmp_sub_mono. exact IH.
Qed.

Lemma compare_subversion_st : forall a b c x y z, ok a = true -> ok b = true -> ok c = true ->
  compare_subversion a b = Some x -> compare_subversion b c = Some y -> compare_subversion a c = Some z -> st x y z.
Proof.
  intros a b c x y z Ka Kb Kc Hx Hy Hz. unfold compare_subversion, sub_fuel in *.
  set (F := S (length a + length b + length c)).
  apply (cmp_sub_st F true a b c x y z Ka Kb Kc); [left; reflexivity| | |];
    eapply cmp_sub_mono_le; try eassumption; unfold F; lia.
Qed.

Lemma split_last_ok : forall c l m r, ok l = true -> split_last c l = Some (m, r) -> ok m = true /\ ok r = true.
Proof.
  induction l as [|x l IH]; intros m r K H; [discriminate|].
  cbn in H. cbn in K. apply andb_prop in K. destruct K as [Kx Kl].
  destruct (split_last c l) as [[m' r']|] eqn:E.
  - inversion H; subst. destruct (IH m' r Kl eq_refl) as [A B]. split; [cbn; rewrite Kx; exact A|exact B].
  - destruct (x =? c)%N; [|discriminate]. inversion H; subst. split; [reflexivity|exact Kl].
Qed.

Lemma split_rev_ok : forall v m r, ok v = true -> split_rev v = (m, r) -> ok m = true /\ ok r = true.
Proof.
  intros v m r K H. unfold split_rev in H. destruct (split_last 45 v) as [[m' r']|] eqn:E.
  - inversion H; subst. eapply split_last_ok; eauto.
  - inversion H; subst. split; [exact K|reflexivity].
Qed.

Lemma res_no_epoch : forall a b r, version_compare a b = Res r -> match_epoch a = false /\ match_epoch b = false.
Proof.
  intros a b r H. unfold version_compare in H.
  destruct (match_epoch a), (match_epoch b); cbn in H; try discriminate. auto.
Qed.

(* ------------------------------------------------------------------ the theorem *)
Theorem version_compare_trans : forall a b c x y,
  ok a = true -> ok b = true -> ok c = true ->
  version_compare a b = Res x -> version_compare b c = Res y ->
  exists z, version_compare a c = Res z /\ st x y z.
Proof.
  intros a b c x y Ka Kb Kc Hx Hy.
  destruct (res_no_epoch _ _ _ Hx) as [Ea Eb]. destruct (res_no_epoch _ _ _ Hy) as [_ Ec].
  destruct (version_compare a c) as [|z|] eqn:Hz.
  - apply invalid_only_epoch in Hz. destruct Hz; congruence.
  - exists z. split; [reflexivity|].
    unfold version_compare in Hx, Hy, Hz. rewrite Ea, Eb in Hx. rewrite Eb, Ec in Hy. rewrite Ea, Ec in Hz.
    cbn [orb] in Hx, Hy, Hz.
    destruct (split_rev a) as [ma ra] eqn:Sa. destruct (split_rev b) as [mb rb] eqn:Sb. destruct (split_rev c) as [mc rc] eqn:Sc.
    destruct (split_rev_ok _ _ _ Ka Sa) as [Kma Kra]. destruct (split_rev_ok _ _ _ Kb Sb) as [Kmb Krb].
    destruct (split_rev_ok _ _ _ Kc Sc) as [Kmc Krc].
    destruct (compare_subversion ma mb) as [x1|] eqn:X1; [|discriminate].
    destruct (compare_subversion mb mc) as [y1|] eqn:Y1; [|discriminate].
    destruct (compare_subversion ma mc) as [z1|] eqn:Z1; [|discriminate].
    pose proof (compare_subversion_st _ _ _ _ _ _ Kma Kmb Kmc X1 Y1 Z1) as S1.
    assert (S2 : forall x2 y2 z2, compare_subversion ra rb = Some x2 -> compare_subversion rb rc = Some y2 ->
                                  compare_subversion ra rc = Some z2 -> st x2 y2 z2).
    { intros. eapply (compare_subversion_st ra rb rc); eauto. }
    destruct (compare_subversion ra rb) as [x2|] eqn:X2; [|exfalso; eapply compare_subversion_total; eauto].
    destruct (compare_subversion rb rc) as [y2|] eqn:Y2; [|exfalso; eapply compare_subversion_total; eauto].
    destruct (compare_subversion ra rc) as [z2|] eqn:Z2; [|exfalso; eapply compare_subversion_total; eauto].
    specialize (S2 _ _ _ eq_refl eq_refl eq_refl).
    clear - S1 S2 Hx Hy Hz.
    destruct (Z.eqb_spec x1 0), (Z.eqb_spec y1 0), (Z.eqb_spec z1 0); cbn [negb] in *;
      inversion Hx; inversion Hy; inversion Hz; subst; unfold st in *; lia.
  - exfalso. eapply version_compare_total; eauto.
Qed.

(* the usual reading: <= is transitive, and strictly so when either step is strict *)
Corollary version_le_trans : forall a b c x y,
  ok a = true -> ok b = true -> ok c = true ->
  version_compare a b = Res x -> version_compare b c = Res y -> x <= 0 -> y <= 0 ->
  exists z, version_compare a c = Res z /\ z <= 0 /\ (x < 0 \/ y < 0 -> z < 0).
Proof.
  intros a b c x y Ka Kb Kc Hx Hy Lx Ly.
  destruct (version_compare_trans a b c x y Ka Kb Kc Hx Hy) as (z & Hz & [S _]).
  exists z. split; [exact Hz|]. apply S; assumption.
Qed.

(* equality (result 0) is a congruence for the comparison: equal versions compare alike against any third one *)
Corollary version_eq_congruence : forall a b c y,
  ok a = true -> ok b = true -> ok c = true ->
  version_compare a b = Res 0 -> version_compare b c = Res y -> version_compare a c = Res y.
Proof.
  intros a b c y Ka Kb Kc Hx Hy.
  destruct (version_compare_trans a b c 0 y Ka Kb Kc Hx Hy) as (z & Hz & [S1 S2]).
  rewrite Hz. f_equal.
  pose proof (version_compare_tri _ _ _ Hy) as Ty. pose proof (version_compare_tri _ _ _ Hz) as Tz.
  unfold tri in *. lia.
Qed.
