(* C36 - proofs about models/Quota.v *)
From Coq Require Import List ZArith NArith Bool Lia.
Import ListNotations.
Require Import V.models.Quota.
Open Scope Z_scope.

(* ---------------------------------------------------------------- induction on groups *)

Section GroupInd.
  Variable P : group -> Prop.
  Hypothesis H : forall i l ss, Forall P ss -> P (G i l ss).
  Fixpoint group_ind' (g : group) : P g :=
    match g with
    | G i l ss => H i l ss ((fix go (cs : list group) : Forall P cs :=
                              match cs with
                              | [] => Forall_nil P
                              | c :: r => Forall_cons c (group_ind' c) (go r)
                              end) ss)
    end.
End GroupInd.

(* ---------------------------------------------------------------- reservations as sums of contributions *)

Definition contrib (f : limits -> Z) (g : group) : Z := Z.max (f (lim g)) (resv f g).
Fixpoint sumc (f : limits -> Z) (ss : list group) : Z :=
  match ss with [] => 0 | c :: r => contrib f c + sumc f r end.

Lemma resv_eq : forall f i l ss, resv f (G i l ss) = sumc f ss.
Proof.
  intros f i l ss. simpl. induction ss as [|c r IH].
  - reflexivity.
  - simpl. unfold contrib. rewrite IH. reflexivity.
Qed.

Lemma fits_eq : forall f i l ss,
  fits f (G i l ss) = ((f l =? 0) || (sumc f ss <=? f l)) && forallb (fits f) ss.
Proof.
  intros f i l ss. change (fits f (G i l ss)) with
    (((f l =? 0) || (resv f (G i l ss) <=? f l)) &&
     (fix all (cs : list group) : bool := match cs with [] => true | c :: r => fits f c && all r end) ss).
  rewrite resv_eq. f_equal; try (induction ss as [|c r IH]; [reflexivity|simpl; rewrite IH; reflexivity]).
Qed.

(* every limit selected by f in the tree is non-negative *)
Fixpoint nn (f : limits -> Z) (g : group) : bool :=
  match g with G _ l ss => (0 <=? f l) && forallb (nn f) ss end.

Lemma sumc_nonneg : forall f ss, forallb (nn f) ss = true -> 0 <= sumc f ss.
Proof.
  intros f ss. induction ss as [|c r IH]; simpl; intro H; [lia|].
  apply andb_true_iff in H. destruct H as [Hc Hr]. specialize (IH Hr).
  destruct c as [i l cs]. simpl in Hc. apply andb_true_iff in Hc. destruct Hc as [Hl _].
  unfold contrib. simpl lim. lia.
Qed.

Lemma resv_nonneg : forall f g, nn f g = true -> 0 <= resv f g.
Proof. intros f [i l ss] H. rewrite resv_eq. simpl in H. apply andb_true_iff in H. apply sumc_nonneg. tauto. Qed.

(* ---------------------------------------------------------------- replacing one child *)

Lemma sumc_replace : forall f ss i c c', nth_error ss i = Some c ->
  sumc f (replace_nth ss i c') = sumc f ss + contrib f c' - contrib f c.
Proof.
  intros f ss. induction ss as [|x r IH]; intros i c c' H.
  - destruct i; discriminate.
  - destruct i as [|i]; simpl in *.
    + inversion H; subst. lia.
    + rewrite (IH _ _ c' H). lia.
Qed.

Lemma forallb_replace : forall (p : group -> bool) ss i c', forallb p ss = true -> p c' = true ->
  forallb p (replace_nth ss i c') = true.
Proof.
  intros p ss. induction ss as [|x r IH]; intros i c' H Hc; [reflexivity|].
  simpl in H. apply andb_true_iff in H. destruct H as [Hx Hr].
  destruct i as [|i]; simpl; [rewrite Hc, Hr|rewrite Hx, (IH _ _ Hr Hc)]; reflexivity.
Qed.

Lemma forallb_nth : forall (p : group -> bool) ss i c, forallb p ss = true -> nth_error ss i = Some c -> p c = true.
Proof.
  intros p ss. induction ss as [|x r IH]; intros i c H E; destruct i; simpl in *; try discriminate;
    apply andb_true_iff in H; destruct H as [Hx Hr].
  - inversion E; subst. exact Hx.
  - exact (IH _ _ Hr E).
Qed.

(* ---------------------------------------------------------------- the nearest limited ancestor along a path *)

(* nearest group on the path from g (included) to the target (excluded) that has the limit selected by f *)
Fixpoint nla (f : limits -> Z) (g : group) (p : list nat) : option group :=
  match p with
  | [] => None
  | i :: p' => match nth_error (subs g) i with
               | None => None
               | Some c => match nla f c p' with
                           | Some a => Some a
                           | None => if negb (f (lim g) =? 0) then Some g else None
                           end
               end
  end.

Fixpoint get (g : group) (p : list nat) : option group :=
  match p with
  | [] => Some g
  | i :: p' => match nth_error (subs g) i with None => None | Some c => get c p' end
  end.

Lemma walk_get : forall p inh g acc inh' t chain,
  walk inh g p acc = Some (inh', t, chain) -> get g p = Some t.
Proof.
  induction p as [|i p IH]; intros inh g acc inh' t chain H; simpl in *.
  - inversion H; subst. reflexivity.
  - destruct (nth_error (subs g) i) as [c|]; [|discriminate]. exact (IH _ _ _ _ _ _ H).
Qed.

Definition limited (f : limits -> Z) (a : anc) : bool := negb (f (lim (snd a)) =? 0).

Lemma walk_find : forall f p inh g acc inh' t chain,
  walk inh g p acc = Some (inh', t, chain) ->
  option_map snd (find (limited f) chain) =
  match nla f g p with Some a => Some a | None => option_map snd (find (limited f) acc) end.
Proof.
  intros f. induction p as [|i p IH]; intros inh g acc inh' t chain H; simpl in *.
  - inversion H; subst. reflexivity.
  - destruct (nth_error (subs g) i) as [c|]; [|discriminate].
    rewrite (IH _ _ _ _ _ _ H). destruct (nla f c p); [reflexivity|].
    simpl. unfold limited at 1. simpl. destruct (negb (f (lim g) =? 0)); reflexivity.
Qed.

(* a limited group on the path of a fitting tree holds its children *)
Lemma nla_fits : forall f p g a, fits f g = true -> nla f g p = Some a ->
  f (lim a) <> 0 /\ resv f a <= f (lim a).
Proof.
  intros f. induction p as [|i p IH]; intros g a Hf H; simpl in H; [discriminate|].
  destruct g as [gi l ss]. simpl in H.
  destruct (nth_error ss i) as [c|] eqn:E; [|discriminate].
  rewrite fits_eq in Hf. apply andb_true_iff in Hf. destruct Hf as [Hl Hs].
  destruct (nla f c p) as [a'|] eqn:En.
  - inversion H; subst. exact (IH _ _ (forallb_nth _ _ _ _ Hs E) En).
  - destruct (f l =? 0) eqn:Z0; simpl in H; [discriminate|]. inversion H; subst.
    rewrite resv_eq. simpl. simpl in Hl. apply Z.leb_le in Hl. apply Z.eqb_neq in Z0. split; assumption.
Qed.

(* ---------------------------------------------------------------- the framing lemma *)

(* Replace the group at path p by t' whose contribution differs by d. If the nearest limited ancestor (if any) has
   room for d, the tree still fits; the contribution of the whole tree moves by d exactly when no ancestor is limited. *)
Lemma modify_fits : forall f t' d p g t,
  fits f g = true -> nn f g = true -> get g p = Some t ->
  fits f t' = true -> nn f t' = true -> contrib f t' = contrib f t + d ->
  (forall a, nla f g p = Some a -> resv f a + d <= f (lim a)) ->
  let g' := modify g p (fun _ => t') in
  fits f g' = true /\ nn f g' = true /\
  contrib f g' = contrib f g + (match nla f g p with Some _ => 0 | None => d end).
Proof.
  intros f t' d. induction p as [|i p IH]; intros g t Hf Hn Hg Hft Hnt Hc Hroom; cbn [get nla modify] in *.
  - inversion Hg; subst. repeat split; solve [assumption | lia].
  - destruct g as [gi l ss]. cbn [subs lim gid] in *.
    destruct (nth_error ss i) as [c|] eqn:E; [|discriminate].
    cbn [nn] in Hn.
    pose proof Hf as Hf0. rewrite fits_eq in Hf. apply andb_true_iff in Hf. destruct Hf as [Hl Hs].
    apply andb_true_iff in Hn. destruct Hn as [Hl0 Hns]. apply Z.leb_le in Hl0.
    assert (Hfc : fits f c = true) by exact (forallb_nth _ _ _ _ Hs E).
    assert (Hnc : nn f c = true) by exact (forallb_nth _ _ _ _ Hns E).
    assert (Hroomc : forall a, nla f c p = Some a -> resv f a + d <= f (lim a)).
    { intros a Ha. apply Hroom. rewrite Ha. reflexivity. }
    destruct (IH c t Hfc Hnc Hg Hft Hnt Hc Hroomc) as [Hfc' [Hnc' Hcc']].
    set (c' := modify c p (fun _ => t')) in *.
    assert (Hsum : sumc f (replace_nth ss i c') = sumc f ss + contrib f c' - contrib f c) by exact (sumc_replace _ _ _ _ _ E).
    assert (Hnn' : forallb (nn f) (replace_nth ss i c') = true) by exact (forallb_replace _ _ _ _ Hns Hnc').
    assert (Hpos' : 0 <= sumc f (replace_nth ss i c')) by exact (sumc_nonneg _ _ Hnn').
    assert (Hpos : 0 <= sumc f ss) by exact (sumc_nonneg _ _ Hns).
    cbv zeta. rewrite fits_eq. cbn [nn]. unfold contrib. cbn [lim]. rewrite !resv_eq.
    rewrite (forallb_replace _ _ _ _ Hs Hfc'). rewrite Hnn'.
    assert (Hl0b : (0 <=? f l) = true) by (apply Z.leb_le; exact Hl0). rewrite Hl0b.
    destruct (nla f c p) as [a|] eqn:En.
    + (* limited ancestor further down: nothing changes here *)
      rewrite Hsum, Hcc'. replace (sumc f ss + (contrib f c + 0) - contrib f c) with (sumc f ss) by lia.
      rewrite Hl. repeat split; reflexivity || lia.
    + destruct (f l =? 0) eqn:Z0; simpl.
      * (* unlimited group: the change passes through *)
        apply Z.eqb_eq in Z0. repeat split; try reflexivity. rewrite Hsum, Hcc', Z0. lia.
      * (* this group is the nearest limited ancestor *)
        apply Z.eqb_neq in Z0. simpl in Hl. apply Z.leb_le in Hl.
        assert (Hr : sumc f ss + d <= f l).
        { specialize (Hroom (G gi l ss)). rewrite resv_eq in Hroom. simpl in Hroom. apply Hroom.
          destruct (f l =? 0) eqn:Z1; [apply Z.eqb_eq in Z1; contradiction|reflexivity]. }
        assert (Hle : sumc f (replace_nth ss i c') <= f l) by (rewrite Hsum, Hcc'; lia).
        repeat split; try reflexivity.
        -- apply andb_true_iff. split; [|reflexivity]. apply Z.leb_le. exact Hle.
        -- lia.
Qed.

(* ---------------------------------------------------------------- what the scalar validator guarantees *)

Lemma vs_known : forall f g chain v, validate_scalar f true g chain v = true ->
  resv f g <= v /\
  (v < f (lim g) \/
   forall x a, find (limited f) chain = Some (x, a) -> resv f a + v - Z.max (f (lim g)) (resv f g) <= f (lim a)).
Proof.
  intros f g chain v H. unfold validate_scalar in H. cbn [andb] in H.
  destruct (resv f g >? v) eqn:E1; [discriminate|].
  assert (resv f g <= v) by (rewrite Z.gtb_ltb in E1; apply Z.ltb_ge in E1; exact E1).
  split; [assumption|].
  destruct (v <? f (lim g)) eqn:E2; [left; apply Z.ltb_lt; exact E2|]. right.
  intros x a Hfind. change (fun a0 : anc => negb (f (lim (snd a0)) =? 0)) with (limited f) in H.
  rewrite Hfind in H. cbn [snd] in H. apply negb_true_iff in H. rewrite Z.gtb_ltb in H. apply Z.ltb_ge in H. lia.
Qed.

Lemma vs_new : forall f g chain v, validate_scalar f false g chain v = true ->
  forall x a, find (limited f) chain = Some (x, a) -> resv f a + v - f (lim g) <= f (lim a).
Proof.
  intros f g chain v H x a Hfind. unfold validate_scalar in H. cbn [andb] in H.
  change (fun a0 : anc => negb (f (lim (snd a0)) =? 0)) with (limited f) in H.
  rewrite Hfind in H. cbn [snd] in H. apply negb_true_iff in H. rewrite Z.gtb_ltb in H. apply Z.ltb_ge in H. lia.
Qed.

Lemma modify_const : forall p g t tf, get g p = Some t -> modify g p tf = modify g p (fun _ => tf t).
Proof.
  induction p as [|i p IH]; intros g t tf H; cbn [get modify] in *.
  - inversion H; subst. reflexivity.
  - destruct (nth_error (subs g) i) as [c|]; [|reflexivity]. rewrite (IH c t tf H). reflexivity.
Qed.

Lemma sumc_app : forall f a b, sumc f (a ++ b) = sumc f a + sumc f b.
Proof. intros f a b. induction a as [|x r IH]; simpl; [reflexivity|]. rewrite IH. lia. Qed.

Lemma find_of_nla : forall f chain a,
  option_map snd (find (limited f) chain) = Some a -> exists x, find (limited f) chain = Some (x, a).
Proof.
  intros f chain a H. destruct (find (limited f) chain) as [[x b]|]; [|discriminate].
  simpl in H. inversion H; subst. exists x. reflexivity.
Qed.

(* ---------------------------------------------------------------- one request preserves the fit (memory, threads) *)

Definition req_res (q : req) : res := match q with RNew _ r => r | RSub _ _ r => r | RUpd _ r => r end.

(* The section is generic in the limit f. okr restricts the requests considered and okg is a hereditary side condition
   on the groups (both trivial for memory and threads; used for the cpu quota, see below). *)
Section Scalar.
  Variable f : limits -> Z.
  Variable sel : res -> option Z.
  Variable okr : res -> Prop.
  Variable okg : group -> bool.
  Definition okanc (a : anc) : Prop := okg (snd a) = true.
  Hypothesis okg_sub : forall i l ss, okg (G i l ss) = true -> forallb okg ss = true.
  Hypothesis okg_fresh : forall id, okg (G id no_limits []) = true.
  Hypothesis okg_step : forall ncpu st q st', okr (req_res q) -> forallb okg st = true ->
    step ncpu st q = Some st' -> forallb okg st' = true.
  Hypothesis f_apply : forall l r, okr r -> f (apply_res l r) = match sel r with Some v => v | None => f l end.
  Hypothesis f_zero : f no_limits = 0.
  Hypothesis fit_sel : forall ncpu known inh g chain r, okr r -> okg g = true -> Forall okanc chain ->
    (known = false -> lim g = no_limits) ->
    validate_fit ncpu known inh g chain r = true ->
    match sel r with Some v => validate_scalar f known g chain v = true | None => True end.
  Hypothesis sub_nonneg : forall r, okr r -> validate_change no_limits r = true ->
    validate_limits (apply_res no_limits r) = true -> 0 <= f (apply_res no_limits r).

  Lemma walk_okg : forall p inh g acc inh' t chain, okg g = true -> Forall okanc acc ->
    walk inh g p acc = Some (inh', t, chain) -> okg t = true /\ Forall okanc chain.
  Proof.
    induction p as [|j p IH]; intros inh g acc inh' t chain Hg Ha W; cbn [walk] in W.
    - inversion W; subst. auto.
    - destruct g as [gi gl gss]. cbn [subs lim] in W. destruct (nth_error gss j) as [c|] eqn:E; [|discriminate].
      apply (IH _ _ _ _ _ _ (forallb_nth _ _ _ _ (okg_sub _ _ _ Hg) E)) in W; [exact W|].
      constructor; [exact Hg|exact Ha].
  Qed.

  Definition Inv (st : forest) : Prop := forallb (fits f) st = true /\ forallb (nn f) st = true.

  Lemma update_limits_inv : forall ncpu known inh g chain r l',
    update_limits ncpu known inh g chain r = Some l' ->
    l' = apply_res (lim g) r /\ validate_change (lim g) r = true /\ validate_fit ncpu known inh g chain r = true.
  Proof.
    intros ncpu known inh g chain r l' H. unfold update_limits in H.
    destruct (validate_change (lim g) r) eqn:E1; [|discriminate].
    destruct (validate_fit ncpu known inh g chain r) eqn:E2; [|discriminate].
    inversion H; subst. auto.
  Qed.

  Lemma forest_replace : forall st i root root', Inv st -> nth_error st i = Some root ->
    fits f root' = true -> nn f root' = true -> Inv (replace_nth st i root').
  Proof.
    intros st i root root' [H1 H2] E Hf Hn. split; apply forallb_replace; assumption.
  Qed.

  Lemma step_preserves : forall ncpu st q st', Inv st -> okr (req_res q) -> forallb okg st = true ->
    step ncpu st q = Some st' -> Inv st'.
  Proof.
    intros ncpu st q st' HI Hok Hokg H. destruct q as [id r | p id r | p r]; cbn [step] in H; cbn [req_res] in Hok.
    - (* NewGroup *)
      destruct (update_limits ncpu true [] (G id no_limits []) [] r) as [l'|] eqn:U; [|discriminate].
      destruct (validate_limits l'); [|discriminate]. inversion H; subst st'; clear H.
      apply update_limits_inv in U. destruct U as [El [Hvc Hvf]]. cbn [lim] in *.
      assert (Hv : 0 <= f l').
      { subst l'. rewrite (f_apply _ _ Hok), f_zero.
        pose proof (fit_sel _ _ _ _ _ _ Hok (okg_fresh id) (Forall_nil _) (fun _ => eq_refl) Hvf) as Hs.
        destruct (sel r) as [v|]; [|lia]. apply vs_known in Hs. destruct Hs as [Hs _].
        rewrite resv_eq in Hs. simpl in Hs. exact Hs. }
      destruct HI as [H1 H2]. split; rewrite forallb_app; [rewrite H1|rewrite H2]; cbn [forallb andb].
      + rewrite fits_eq. cbn [sumc forallb]. assert ((0 <=? f l') = true) by (apply Z.leb_le; exact Hv).
        rewrite H. rewrite orb_true_r. reflexivity.
      + cbn [nn forallb]. assert ((0 <=? f l') = true) by (apply Z.leb_le; exact Hv). rewrite H. reflexivity.
    - (* NewSubGroup *)
      destruct p as [|i p]; [discriminate|].
      destruct (nth_error st i) as [root|] eqn:Er; [|discriminate].
      destruct (walk [] root p []) as [[[pinh P] chain]|] eqn:W; [|discriminate].
      destruct (update_limits ncpu false (eff_set pinh (lim P)) (G id no_limits []) ((pinh, P) :: chain) r) as [l'|] eqn:U; [|discriminate].
      destruct (negb (N.eqb id (gid P)) && validate_limits l') eqn:V; [|discriminate].
      inversion H; subst st'; clear H.
      apply andb_true_iff in V. destruct V as [_ Vl].
      apply update_limits_inv in U. destruct U as [El [Hvc Hvf]]. cbn [lim] in *.
      assert (Hv : 0 <= f l') by (subst l'; apply sub_nonneg; [exact Hok|exact Hvc|exact Vl]).
      assert (HokW : okg P = true /\ Forall okanc chain)
        by exact (walk_okg _ _ _ _ _ _ _ (forallb_nth _ _ _ _ Hokg Er) (Forall_nil _) W).
      destruct HokW as [HokP Hokchain].
      pose proof (walk_get _ _ _ _ _ _ _ W) as Hget.
      pose proof (walk_find f _ _ _ _ _ _ _ W) as Hfind. cbn [find option_map] in Hfind.
      destruct HI as [H1 H2].
      assert (Hfr : fits f root = true) by exact (forallb_nth _ _ _ _ H1 Er).
      assert (Hnr : nn f root = true) by exact (forallb_nth _ _ _ _ H2 Er).
      set (n := G id l' []).
      assert (Hcn : contrib f n = f l').
      { unfold contrib, n. cbn [lim]. rewrite resv_eq. cbn [sumc]. lia. }
      assert (Hfn : fits f n = true).
      { unfold n. rewrite fits_eq. cbn [sumc forallb]. assert ((0 <=? f l') = true) by (apply Z.leb_le; exact Hv).
        rewrite H. rewrite orb_true_r. reflexivity. }
      assert (Hnn : nn f n = true).
      { unfold n. cbn [nn forallb]. assert ((0 <=? f l') = true) by (apply Z.leb_le; exact Hv). rewrite H. reflexivity. }
      rewrite (modify_const _ _ _ _ Hget).
      (* the parent as a group of the fitting tree *)
      assert (HP : fits f P = true /\ nn f P = true).
      { clear - Hfr Hnr Hget. revert root Hfr Hnr Hget. induction p as [|j p IH]; intros root Hfr Hnr Hget; cbn [get] in Hget.
        - inversion Hget; subst. auto.
        - destruct root as [ri rl rss]. cbn [subs] in Hget. destruct (nth_error rss j) as [c|] eqn:E; [|discriminate].
          rewrite fits_eq in Hfr. apply andb_true_iff in Hfr. destruct Hfr as [_ Hs].
          cbn [nn] in Hnr. apply andb_true_iff in Hnr. destruct Hnr as [_ Hns].
          exact (IH c (forallb_nth _ _ _ _ Hs E) (forallb_nth _ _ _ _ Hns E) Hget). }
      destruct HP as [HfP HnP]. destruct P as [pi pl pss]. cbn [gid lim subs] in *.
      pose proof HfP as HfP0. rewrite fits_eq in HfP. apply andb_true_iff in HfP. destruct HfP as [HlP HsP].
      pose proof HnP as HnP0. cbn [nn] in HnP. apply andb_true_iff in HnP. destruct HnP as [Hl0P HnsP].
      apply Z.leb_le in Hl0P. pose proof (sumc_nonneg _ _ HnsP) as HposP.
      set (P' := G pi pl (pss ++ [n])).
      assert (HnP' : nn f P' = true).
      { unfold P'. cbn [nn]. rewrite forallb_app, HnsP. cbn [forallb]. rewrite Hnn.
        assert ((0 <=? f pl) = true) by (apply Z.leb_le; exact Hl0P). rewrite H. reflexivity. }
      assert (Hsum' : sumc f (pss ++ [n]) = sumc f pss + f l').
      { rewrite sumc_app. cbn [sumc]. rewrite Hcn. lia. }
      (* the value the validator saw *)
      assert (Hval : f l' = 0 \/ validate_scalar f false (G id no_limits []) ((pinh, G pi pl pss) :: chain) (f l') = true).
      { subst l'. rewrite (f_apply _ _ Hok), f_zero.
        pose proof (fit_sel _ _ _ _ _ _ Hok (okg_fresh id) (Forall_cons (pinh, G pi pl pss) HokP Hokchain) (fun _ => eq_refl) Hvf) as Hs.
        destruct (sel r) as [v|]; [right; exact Hs|left; reflexivity]. }
      assert (Hmain : exists d, fits f P' = true /\ contrib f P' = contrib f (G pi pl pss) + d /\
                (forall a, nla f root p = Some a -> resv f a + d <= f (lim a))).
      { destruct Hval as [Hz|Hvs].
        - exists 0. unfold P'. rewrite fits_eq. unfold contrib. cbn [lim]. rewrite !resv_eq, Hsum', Hz.
          rewrite Z.add_0_r, HlP, forallb_app, HsP. cbn [forallb]. rewrite Hfn.
          split; [reflexivity|]. split; [lia|]. intros a Ha. destruct (nla_fits _ _ _ _ Hfr Ha). lia.
        - pose proof (vs_new _ _ _ _ Hvs) as Hroom. cbn [lim] in Hroom. rewrite f_zero in Hroom.
          cbn [find] in Hroom. unfold limited at 1 in Hroom. cbn [snd lim] in Hroom.
          destruct (f pl =? 0) eqn:Z0; cbn [negb] in Hroom.
          + (* unlimited parent: the new reservation passes upwards *)
            apply Z.eqb_eq in Z0. exists (f l'). unfold P'. rewrite fits_eq. unfold contrib. cbn [lim].
            rewrite !resv_eq, Hsum', Z0. cbn [Z.eqb orb]. rewrite forallb_app, HsP. cbn [forallb]. rewrite Hfn.
            split; [reflexivity|]. split; [lia|]. intros a Ha.
            rewrite Ha in Hfind.
            destruct (find_of_nla _ _ _ Hfind) as [x Hx]. specialize (Hroom x a Hx). lia.
          + (* the parent itself has the limit *)
            apply Z.eqb_neq in Z0. specialize (Hroom pinh (G pi pl pss) eq_refl). rewrite resv_eq in Hroom. cbn [lim] in Hroom.
            exists 0. unfold P'. rewrite fits_eq. unfold contrib. cbn [lim]. rewrite !resv_eq, Hsum'.
            assert (Hle : (sumc f pss + f l' <=? f pl) = true) by (apply Z.leb_le; lia).
            rewrite Hle, orb_true_r, forallb_app, HsP. cbn [forallb]. rewrite Hfn.
            split; [reflexivity|]. cbn [orb] in HlP.
            assert (sumc f pss <= f pl).
            { destruct (f pl =? 0) eqn:Z1; [apply Z.eqb_eq in Z1; contradiction|]. cbn [orb] in HlP. apply Z.leb_le in HlP. exact HlP. }
            split; [lia|]. intros a Ha. destruct (nla_fits _ _ _ _ Hfr Ha). lia. }
      destruct Hmain as [d [HfP' [HcP' Hroom]]].
      destruct (modify_fits f P' d p root (G pi pl pss) Hfr Hnr Hget HfP' HnP' HcP' Hroom) as [Hf' [Hn' _]].
      exact (forest_replace _ _ _ _ (conj H1 H2) Er Hf' Hn').
    - (* UpdateQuotaLimits *)
      destruct p as [|i p]; [discriminate|].
      destruct (nth_error st i) as [root|] eqn:Er; [|discriminate].
      destruct (walk [] root p []) as [[[inh t] chain]|] eqn:W; [|discriminate].
      destruct (update_limits ncpu true inh t chain r) as [l'|] eqn:U; [|discriminate].
      inversion H; subst st'; clear H.
      apply update_limits_inv in U. destruct U as [El [Hvc Hvf]].
      assert (HokW : okg t = true /\ Forall okanc chain)
        by exact (walk_okg _ _ _ _ _ _ _ (forallb_nth _ _ _ _ Hokg Er) (Forall_nil _) W).
      destruct HokW as [Hokt Hokchain].
      pose proof (walk_get _ _ _ _ _ _ _ W) as Hget.
      pose proof (walk_find f _ _ _ _ _ _ _ W) as Hfind. cbn [find option_map] in Hfind.
      destruct HI as [H1 H2].
      assert (Hfr : fits f root = true) by exact (forallb_nth _ _ _ _ H1 Er).
      assert (Hnr : nn f root = true) by exact (forallb_nth _ _ _ _ H2 Er).
      rewrite (modify_const _ _ _ _ Hget).
      assert (HT : fits f t = true /\ nn f t = true).
      { clear - Hfr Hnr Hget. revert root Hfr Hnr Hget. induction p as [|j p IH]; intros root Hfr Hnr Hget; cbn [get] in Hget.
        - inversion Hget; subst. auto.
        - destruct root as [ri rl rss]. cbn [subs] in Hget. destruct (nth_error rss j) as [c|] eqn:E; [|discriminate].
          rewrite fits_eq in Hfr. apply andb_true_iff in Hfr. destruct Hfr as [_ Hs].
          cbn [nn] in Hnr. apply andb_true_iff in Hnr. destruct Hnr as [_ Hns].
          exact (IH c (forallb_nth _ _ _ _ Hs E) (forallb_nth _ _ _ _ Hns E) Hget). }
      destruct HT as [Hft Hnt]. destruct t as [ti tl tss]. cbn [gid lim subs] in *.
      pose proof Hft as Hft0. rewrite fits_eq in Hft. apply andb_true_iff in Hft. destruct Hft as [Hlt Hst].
      pose proof Hnt as Hnt0. cbn [nn] in Hnt. apply andb_true_iff in Hnt. destruct Hnt as [Hl0t Hnst].
      apply Z.leb_le in Hl0t. pose proof (sumc_nonneg _ _ Hnst) as Hpost.
      set (t' := G ti l' tss).
      assert (Hmain : exists d, fits f t' = true /\ nn f t' = true /\ contrib f t' = contrib f (G ti tl tss) + d /\
                (forall a, nla f root p = Some a -> resv f a + d <= f (lim a))).
      { assert (Hl' : f l' = match sel r with Some v => v | None => f tl end) by (subst l'; apply f_apply; exact Hok).
        assert (Hkn : true = false -> lim (G ti tl tss) = no_limits) by (intro X; discriminate X).
        pose proof (fit_sel _ _ _ _ _ _ Hok Hokt Hokchain Hkn Hvf) as Hs.
        destruct (sel r) as [v|].
        - apply vs_known in Hs. destruct Hs as [Hrv Hpar]. rewrite resv_eq in Hrv, Hpar. cbn [lim] in Hpar.
          exists (v - Z.max (f tl) (sumc f tss)). unfold t'. rewrite fits_eq. cbn [nn]. unfold contrib. cbn [lim].
          rewrite !resv_eq, Hl', Hst, Hnst.
          assert (Hle : (sumc f tss <=? v) = true) by (apply Z.leb_le; exact Hrv).
          assert (H0v : (0 <=? v) = true) by (apply Z.leb_le; lia).
          rewrite Hle, H0v, orb_true_r. split; [reflexivity|]. split; [reflexivity|]. split; [lia|].
          intros a Ha. destruct (nla_fits _ _ _ _ Hfr Ha) as [_ Hfa].
          destruct Hpar as [Hlt'|Hpar]; [lia|].
          rewrite Ha in Hfind. destruct (find_of_nla _ _ _ Hfind) as [x Hx]. specialize (Hpar x a Hx). lia.
        - exists 0. unfold t'. rewrite fits_eq. cbn [nn]. unfold contrib. cbn [lim]. rewrite !resv_eq, Hl', Hst, Hnst, Hlt.
          assert (H0v : (0 <=? f tl) = true) by (apply Z.leb_le; lia). rewrite H0v.
          split; [reflexivity|]. split; [reflexivity|]. split; [lia|].
          intros a Ha. destruct (nla_fits _ _ _ _ Hfr Ha). lia. }
      destruct Hmain as [d [Hft' [Hnt' [Hct' Hroom]]]].
      destruct (modify_fits f t' d p root (G ti tl tss) Hfr Hnr Hget Hft' Hnt' Hct' Hroom) as [Hf' [Hn' _]].
      exact (forest_replace _ _ _ _ (conj H1 H2) Er Hf' Hn').
  Qed.

  Lemma run_preserves : forall ncpu qs st, Forall (fun q => okr (req_res q)) qs ->
    Inv st -> forallb okg st = true -> Inv (run ncpu st qs).
  Proof.
    intros ncpu qs. induction qs as [|q qs IH]; intros st Hqs HI Hg; cbn [run]; [exact HI|].
    inversion Hqs; subst.
    destruct (step ncpu st q) as [st'|] eqn:E.
    - apply IH; [assumption|exact (step_preserves _ _ _ _ HI H1 Hg E)|exact (okg_step _ _ _ _ H1 Hg E)].
    - apply IH; assumption.
  Qed.
End Scalar.

(* ---------------------------------------------------------------- memory and threads *)

Lemma apply_mem : forall l r, l_mem (apply_res l r) = match r_mem r with Some v => v | None => l_mem l end.
Proof. intros l r. unfold apply_res. destruct (r_cpu r) as [[c p]|]; reflexivity. Qed.
Lemma apply_thr : forall l r, l_thr (apply_res l r) = match r_thr r with Some v => v | None => l_thr l end.
Proof. intros l r. unfold apply_res. destruct (r_cpu r) as [[c p]|]; reflexivity. Qed.

Lemma fit_mem : forall ncpu known inh g chain r, validate_fit ncpu known inh g chain r = true ->
  match r_mem r with Some v => validate_scalar l_mem known g chain v = true | None => True end.
Proof.
  intros ncpu known inh g chain r H. unfold validate_fit in H.
  repeat (apply andb_true_iff in H; destruct H as [H ?]). destruct (r_mem r); [exact H|exact I].
Qed.
Lemma fit_thr : forall ncpu known inh g chain r, validate_fit ncpu known inh g chain r = true ->
  match r_thr r with Some v => validate_scalar l_thr known g chain v = true | None => True end.
Proof.
  intros ncpu known inh g chain r H. unfold validate_fit in H.
  repeat (apply andb_true_iff in H; destruct H as [H ?]). destruct (r_thr r); [assumption|exact I].
Qed.

Lemma sub_nonneg_mem : forall r, validate_change no_limits r = true ->
  validate_limits (apply_res no_limits r) = true -> 0 <= l_mem (apply_res no_limits r).
Proof.
  intros r H _. rewrite apply_mem. unfold validate_change in H.
  repeat (apply andb_true_iff in H; destruct H as [H ?]).
  destruct (r_mem r) as [m|]; [|simpl; lia].
  repeat (apply andb_true_iff in H; destruct H as [H ?]).
  match goal with X : negb (m <=? memory_limit_min) = true |- _ => apply negb_true_iff in X; apply Z.leb_gt in X;
    unfold memory_limit_min in X; lia end.
Qed.

Lemma sub_nonneg_thr : forall r, validate_change no_limits r = true ->
  validate_limits (apply_res no_limits r) = true -> 0 <= l_thr (apply_res no_limits r).
Proof.
  intros r _ H. unfold validate_limits in H. apply andb_true_iff in H. destruct H as [_ H].
  destruct (l_thr (apply_res no_limits r) =? 0) eqn:E; [apply Z.eqb_eq in E; lia|].
  apply negb_true_iff in H. apply Z.leb_gt in H. lia.
Qed.

Lemma all_true : forall (l : list group), forallb (fun _ => true) l = true.
Proof. induction l; simpl; auto. Qed.
Lemma all_true_forall : forall (qs : list req), Forall (fun q => (fun _ : res => True) (req_res q)) qs.
Proof. induction qs; constructor; auto. Qed.

Theorem fit_invariant_mem_threads : forall ncpu qs,
  inv_mem (run ncpu [] qs) = true /\ inv_thr (run ncpu [] qs) = true.
Proof.
  intros ncpu qs. split.
  - apply (run_preserves l_mem r_mem (fun _ => True) (fun _ => true)); try (split; reflexivity); try reflexivity; auto using all_true, all_true_forall.
    + intros l r _. apply apply_mem.
    + intros ncpu0 known inh g chain r _ _ _ _. apply fit_mem.
    + intros r _. apply sub_nonneg_mem.
  - apply (run_preserves l_thr r_thr (fun _ => True) (fun _ => true)); try (split; reflexivity); try reflexivity; auto using all_true, all_true_forall.
    + intros l r _. apply apply_thr.
    + intros ncpu0 known inh g chain r _ _ _ _. apply fit_thr.
    + intros r _. apply sub_nonneg_thr.
Qed.

(* what `fits` says, group by group *)
Inductive in_tree (x : group) : group -> Prop :=
  | in_here : in_tree x x
  | in_sub : forall i l ss c, In c ss -> in_tree x c -> in_tree x (G i l ss).

Lemma fits_spec : forall f g, fits f g = true ->
  forall x, in_tree x g -> f (lim x) <> 0 -> resv f x <= f (lim x).
Proof.
  intros f g. induction g as [i l ss IH] using group_ind'. intros Hf x Hin Hx.
  rewrite fits_eq in Hf. apply andb_true_iff in Hf. destruct Hf as [Hl Hs].
  inversion Hin; subst.
  - rewrite resv_eq. cbn [lim] in *. destruct (f l =? 0) eqn:Z0; [apply Z.eqb_eq in Z0; contradiction|].
    cbn [orb] in Hl. apply Z.leb_le in Hl. exact Hl.
  - rewrite Forall_forall in IH. rewrite forallb_forall in Hs.
    match goal with A : In ?c ss, B : in_tree x ?c |- _ => exact (IH c A (Hs c A) x B Hx) end.
Qed.

Theorem every_group_fits_mem_threads : forall ncpu qs root x,
  In root (run ncpu [] qs) -> in_tree x root ->
  (l_mem (lim x) <> 0 -> resv l_mem x <= l_mem (lim x)) /\
  (l_thr (lim x) <> 0 -> resv l_thr x <= l_thr (lim x)).
Proof.
  intros ncpu qs root x Hr Hx. destruct (fit_invariant_mem_threads ncpu qs) as [Hm Ht].
  unfold inv_mem, inv_thr in *. rewrite forallb_forall in Hm, Ht.
  split; intro H; [exact (fits_spec _ _ (Hm _ Hr) x Hx H)|exact (fits_spec _ _ (Ht _ Hr) x Hx H)].
Qed.

(* the reservation of a group is the sum over its sub-groups of max(limit, reservation) *)
Lemma resv_is_sum : forall f i l ss,
  resv f (G i l ss) = fold_right (fun c acc => Z.max (f (lim c)) (resv f c) + acc) 0 ss.
Proof. intros. rewrite resv_eq. induction ss as [|c r IH]; [reflexivity|]. simpl. rewrite IH. reflexivity. Qed.

(* ---------------------------------------------------------------- a refused request changes nothing *)

Lemma refused_unchanged : forall ncpu st q qs, step ncpu st q = None -> run ncpu st (q :: qs) = run ncpu st qs.
Proof. intros ncpu st q qs H. cbn [run]. rewrite H. reflexivity. Qed.

(* ---------------------------------------------------------------- the cpu fit is false: two witnesses *)

Definition cpu_witness_1 : list req :=
  [ RNew 1 (mkRes None (Some (2, 100)) (Some [0; 1]) None);
    RSub [0%nat] 2 (mkRes None (Some (0, 50)) None None);
    RUpd [0%nat] (mkRes None None (Some [0; 1; 2; 3; 4; 5; 6; 7]) None) ].

Definition cpu_witness_2 : list req :=
  [ RNew 1 (mkRes None (Some (2, 25)) None None);
    RSub [0%nat] 2 (mkRes None None (Some [0; 2; 4; 5]) None);
    RSub [0%nat; 0%nat] 3 (mkRes None (Some (4, 100)) None None) ].

Definition all_accepted (ncpu : Z) (qs : list req) : bool :=
  (fix go st qs := match qs with
                   | [] => true
                   | q :: r => match step ncpu st q with Some st' => go st' r | None => false end
                   end) [] qs.

Definition is_creation (q : req) : bool := match q with RUpd _ _ => false | _ => true end.

Lemma cpu_fit_refuted : exists ncpu qs, all_accepted ncpu qs = true /\ inv_cpu ncpu (run ncpu [] qs) = false.
Proof. exists 8, cpu_witness_1. split; vm_compute; reflexivity. Qed.

(* witness 2 was the defect repaired in /repo commit 731c638: its last request is now refused *)
Lemma set_only_ancestor_now_refused :
  step 8 (run 8 [] (firstn 2 cpu_witness_2)) (RSub [0%nat; 0%nat] 3 (mkRes None (Some (4, 100)) None None)) = None /\
  inv_cpu 8 (run 8 [] cpu_witness_2) = true.
Proof. split; vm_compute; reflexivity. Qed.

(* witness 3: the effective cpu set of no group changes, yet the fit breaks: a percentage-only request is sized by
   len(set) while the reservation it ends up with is capped at NumCPU *)
Definition s12 : list Z := [0; 1; 2; 3; 4; 5; 6; 7; 8; 9; 10; 11].
Definition cpu_witness_3 : list req :=
  [ RNew 1 (mkRes None (Some (12, 100)) (Some s12) None);
    RSub [0%nat] 2 (mkRes None (Some (4, 100)) None None);
    RSub [0%nat] 3 (mkRes None (Some (4, 100)) None None);
    RSub [0%nat] 4 (mkRes None (Some (2, 100)) None None);
    RUpd [0%nat] (mkRes None (Some (0, 100)) (Some s12) None) ].

Lemma cpu_fit_numcpu_cap_refuted : exists ncpu qs,
  all_accepted ncpu qs = true /\ inv_cpu ncpu (run ncpu [] qs) = false.
Proof. exists 8, cpu_witness_3. split; vm_compute; reflexivity. Qed.

(* ---------------------------------------------------------------- cpu sets are nested *)

Lemma sets_eq : forall inh i l ss,
  sets_nested inh (G i l ss) = (nilb inh || is_superset inh (l_set l)) && forallb (sets_nested (eff_set inh l)) ss.
Proof.
  intros. cbn [sets_nested]. f_equal; try (induction ss as [|c r IH]; [reflexivity|simpl; rewrite IH; reflexivity]).
Qed.

Definition own_or_resv (c : group) : list Z := if nilb (l_set (lim c)) then set_resv c else l_set (lim c).

Lemma set_resv_eq : forall i l ss, set_resv (G i l ss) = flat_map own_or_resv ss.
Proof. intros. cbn [set_resv]. induction ss as [|c r IH]; [reflexivity|]. simpl. rewrite IH. reflexivity. Qed.

Lemma contains_in : forall s e, contains s e = true <-> In e s.
Proof.
  intros s e. unfold contains. rewrite existsb_exists. split.
  - intros [x [Hx He]]. apply Z.eqb_eq in He. subst. exact Hx.
  - intro H. exists e. split; [exact H|apply Z.eqb_refl].
Qed.

Lemma superset_spec : forall a b, is_superset a b = true <-> (forall e, In e b -> In e a).
Proof.
  intros a b. unfold is_superset. rewrite forallb_forall. split; intros H e He.
  - apply contains_in. exact (H e He).
  - apply contains_in. exact (H e He).
Qed.

Lemma superset_trans : forall a b c, is_superset a b = true -> is_superset b c = true -> is_superset a c = true.
Proof. intros a b c H1 H2. rewrite superset_spec in *. auto. Qed.

Lemma superset_app : forall a x y, is_superset a (x ++ y) = is_superset a x && is_superset a y.
Proof. intros. unfold is_superset. apply forallb_app. Qed.

Lemma nilb_true : forall (l : list Z), nilb l = true -> l = [].
Proof. destruct l; [reflexivity|discriminate]. Qed.

(* the inherited set may be replaced by a larger one (or by none) *)
Lemma nested_mono : forall c A B, sets_nested A c = true -> nilb A = false ->
  nilb B || is_superset B A = true -> sets_nested B c = true.
Proof.
  induction c as [i l ss IH] using group_ind'. intros A B H HA HB.
  rewrite sets_eq in *. apply andb_true_iff in H. destruct H as [Ho Hs]. rewrite HA in Ho. cbn [orb] in Ho.
  apply andb_true_iff. split.
  - destruct (nilb B) eqn:NB; [reflexivity|]. cbn [orb] in *. exact (superset_trans _ _ _ HB Ho).
  - unfold eff_set in *. destruct (nilb (l_set l)) eqn:Nl; [|exact Hs].
    rewrite forallb_forall in *. rewrite Forall_forall in IH. intros x Hx. exact (IH x Hx A B (Hs x Hx) HA HB).
Qed.

(* a new own set that covers everything reserved below is fine for the sub-groups *)
Lemma nested_from_resv : forall c A B, sets_nested A c = true -> is_superset B (own_or_resv c) = true ->
  sets_nested B c = true.
Proof.
  induction c as [i l ss IH] using group_ind'. intros A B H HB.
  rewrite sets_eq in *. apply andb_true_iff in H. destruct H as [Ho Hs].
  unfold own_or_resv in HB. cbn [lim] in HB. unfold eff_set in *.
  destruct (nilb (l_set l)) eqn:Nl.
  - apply nilb_true in Nl. rewrite Nl. apply andb_true_iff. split.
    + unfold is_superset. cbn [forallb]. apply orb_true_r.
    + rewrite set_resv_eq in HB. rewrite forallb_forall in *. rewrite Forall_forall in IH. intros x Hx.
      apply (IH x Hx A B (Hs x Hx)). rewrite superset_spec in *. intros e He. apply HB. apply in_flat_map. exists x. auto.
  - apply andb_true_iff. split; [rewrite HB; apply orb_true_r|exact Hs].
Qed.

Lemma children_from_resv : forall i l ss A B, forallb (sets_nested A) ss = true ->
  is_superset B (set_resv (G i l ss)) = true -> forallb (sets_nested B) ss = true.
Proof.
  intros i l ss A B H HB. rewrite set_resv_eq in HB. rewrite forallb_forall in *. intros x Hx.
  apply (nested_from_resv x A B (H x Hx)). rewrite superset_spec in *. intros e He. apply HB. apply in_flat_map. exists x. auto.
Qed.

Definition hasset (a : anc) : bool := negb (nilb (l_set (lim (snd a)))).
Definition rel (inh : list Z) (acc : list anc) : Prop :=
  inh = match find hasset acc with Some a => l_set (lim (snd a)) | None => [] end.

Lemma walk_rel : forall p inh g acc inh' t chain, rel inh acc ->
  walk inh g p acc = Some (inh', t, chain) -> rel inh' chain.
Proof.
  induction p as [|j p IH]; intros inh g acc inh' t chain R H; cbn [walk] in H.
  - inversion H; subst. exact R.
  - destruct (nth_error (subs g) j) as [c|]; [|discriminate]. apply (IH _ _ _ _ _ _ (fun x => x) H) || idtac.
    refine (IH _ _ _ _ _ _ _ H). unfold rel in *. cbn [find]. unfold hasset at 1. cbn [snd]. unfold eff_set.
    destruct (nilb (l_set (lim g))); cbn [negb]; [exact R|reflexivity].
Qed.

Lemma modify_sets : forall t' p inh g acc inh_t t chain,
  sets_nested inh g = true -> walk inh g p acc = Some (inh_t, t, chain) -> sets_nested inh_t t' = true ->
  sets_nested inh (modify g p (fun _ => t')) = true.
Proof.
  intros t'. induction p as [|j p IH]; intros inh g acc inh_t t chain H W Ht; cbn [walk modify] in *.
  - inversion W; subst. exact Ht.
  - destruct g as [gi l ss]. cbn [subs lim gid] in *. destruct (nth_error ss j) as [c|] eqn:E; [|discriminate].
    rewrite sets_eq in *. apply andb_true_iff in H. destruct H as [Ho Hs]. rewrite Ho. cbn [andb].
    apply forallb_replace; [exact Hs|]. exact (IH _ _ _ _ _ _ (forallb_nth _ _ _ _ Hs E) W Ht).
Qed.

Lemma walk_sets : forall p inh g acc inh_t t chain,
  sets_nested inh g = true -> walk inh g p acc = Some (inh_t, t, chain) -> sets_nested inh_t t = true.
Proof.
  induction p as [|j p IH]; intros inh g acc inh_t t chain H W; cbn [walk] in *.
  - inversion W; subst. exact H.
  - destruct g as [gi l ss]. cbn [subs lim] in *. destruct (nth_error ss j) as [c|] eqn:E; [|discriminate].
    rewrite sets_eq in H. apply andb_true_iff in H. destruct H as [_ Hs].
    exact (IH _ _ _ _ _ _ (forallb_nth _ _ _ _ Hs E) W).
Qed.

Lemma apply_set : forall l r, l_set (apply_res l r) =
  match r_set r with Some s => s | None => match r_cpu r with Some _ => [] | None => l_set l end end.
Proof. intros l r. unfold apply_res. destruct (r_cpu r) as [[c p]|]; destruct (r_set r); reflexivity. Qed.

Lemma fit_set : forall ncpu known inh g chain r, validate_fit ncpu known inh g chain r = true ->
  match r_set r with Some s => if nilb s then True else validate_set known g chain s = true | None => True end.
Proof.
  intros ncpu known inh g chain r H. unfold validate_fit in H.
  repeat (apply andb_true_iff in H; destruct H as [H ?]).
  destruct (r_set r) as [s|]; [|exact I]. destruct (nilb s); [exact I|assumption].
Qed.

Lemma superset_nil : forall a, is_superset a [] = true. Proof. reflexivity. Qed.

Definition InvS (st : forest) : Prop := forallb (sets_nested []) st = true.

Lemma update_limits_inv_s : forall ncpu known inh g chain r l',
  update_limits ncpu known inh g chain r = Some l' ->
  l' = apply_res (lim g) r /\ validate_change (lim g) r = true /\ validate_fit ncpu known inh g chain r = true.
Proof.
  intros ncpu known inh g chain r l' H. unfold update_limits in H.
  destruct (validate_change (lim g) r) eqn:E1; [|discriminate].
  destruct (validate_fit ncpu known inh g chain r) eqn:E2; [|discriminate].
  inversion H; subst. auto.
Qed.

Lemma step_preserves_sets : forall ncpu st q st', InvS st -> step ncpu st q = Some st' -> InvS st'.
Proof.
  intros ncpu st q st' HI H. unfold InvS in *. destruct q as [id r | p id r | p r]; cbn [step] in H.
  - destruct (update_limits ncpu true [] (G id no_limits []) [] r) as [l'|]; [|discriminate].
    destruct (validate_limits l'); [|discriminate]. inversion H; subst st'.
    rewrite forallb_app, HI. cbn [forallb]. rewrite sets_eq. reflexivity.
  - destruct p as [|i p]; [discriminate|].
    destruct (nth_error st i) as [root|] eqn:Er; [|discriminate].
    destruct (walk [] root p []) as [[[pinh P] chain]|] eqn:W; [|discriminate].
    destruct (update_limits ncpu false (eff_set pinh (lim P)) (G id no_limits []) ((pinh, P) :: chain) r) as [l'|] eqn:U; [|discriminate].
    destruct (negb (N.eqb id (gid P)) && validate_limits l'); [|discriminate].
    inversion H; subst st'; clear H.
    apply update_limits_inv_s in U. destruct U as [El [_ Hvf]]. cbn [lim] in El.
    assert (Hroot : sets_nested [] root = true) by exact (forallb_nth _ _ _ _ HI Er).
    pose proof (walk_sets _ _ _ _ _ _ _ Hroot W) as HP.
    assert (R : rel pinh chain) by (apply (walk_rel _ _ _ _ _ _ _ (eq_refl : rel [] []) W)).
    rewrite (modify_const _ _ _ _ (walk_get _ _ _ _ _ _ _ W)).
    apply forallb_replace; [exact HI|]. apply (modify_sets _ _ _ _ _ _ _ _ Hroot W).
    destruct P as [pi pl pss]. cbn [gid lim subs] in *. rewrite sets_eq in *.
    apply andb_true_iff in HP. destruct HP as [Ho Hs]. rewrite Ho. cbn [andb].
    rewrite forallb_app, Hs. cbn [forallb andb]. rewrite sets_eq. cbn [forallb]. rewrite !andb_true_r.
    (* the new leaf's own set against what it inherits *)
    assert (Hset : l_set l' = match r_set r with Some s => s | None => [] end).
    { subst l'. rewrite apply_set. destruct (r_set r); [reflexivity|]. destruct (r_cpu r); reflexivity. }
    pose proof (fit_set _ _ _ _ _ _ Hvf) as Hs'.
    destruct (r_set r) as [s|]; rewrite Hset; [|apply orb_true_r].
    destruct (nilb s) eqn:Ns; [apply nilb_true in Ns; rewrite Ns; apply orb_true_r|].
    unfold validate_set in Hs'. cbn [andb] in Hs'.
    change (fun a : anc => negb (nilb (l_set (lim (snd a))))) with hasset in Hs'.
    cbn [find] in Hs'. unfold hasset at 1 in Hs'. cbn [snd lim] in Hs'. unfold eff_set.
    destruct (nilb (l_set pl)) eqn:Np; cbn [negb] in Hs'.
    + unfold rel in R. destruct (find hasset chain) as [a|]; rewrite R; [rewrite Hs'; apply orb_true_r|reflexivity].
    + cbn [snd lim] in Hs'. rewrite Hs'. apply orb_true_r.
  - destruct p as [|i p]; [discriminate|].
    destruct (nth_error st i) as [root|] eqn:Er; [|discriminate].
    destruct (walk [] root p []) as [[[inh t] chain]|] eqn:W; [|discriminate].
    destruct (update_limits ncpu true inh t chain r) as [l'|] eqn:U; [|discriminate].
    inversion H; subst st'; clear H.
    apply update_limits_inv_s in U. destruct U as [El [_ Hvf]].
    assert (Hroot : sets_nested [] root = true) by exact (forallb_nth _ _ _ _ HI Er).
    pose proof (walk_sets _ _ _ _ _ _ _ Hroot W) as HT.
    assert (R : rel inh chain) by (apply (walk_rel _ _ _ _ _ _ _ (eq_refl : rel [] []) W)).
    rewrite (modify_const _ _ _ _ (walk_get _ _ _ _ _ _ _ W)).
    apply forallb_replace; [exact HI|]. apply (modify_sets _ _ _ _ _ _ _ _ Hroot W).
    destruct t as [ti tl tss]. cbn [gid lim subs] in *. rewrite sets_eq in *.
    apply andb_true_iff in HT. destruct HT as [Ho Hs].
    assert (Hset : l_set l' = match r_set r with Some s => s | None => match r_cpu r with Some _ => [] | None => l_set tl end end)
      by (subst l'; apply apply_set).
    pose proof (fit_set _ _ _ _ _ _ Hvf) as Hs'.
    (* three possibilities for the new own set *)
    assert (Hcases : l_set l' = l_set tl \/ l_set l' = [] \/
                     (nilb (l_set l') = false /\ validate_set true (G ti tl tss) chain (l_set l') = true)).
    { rewrite Hset. destruct (r_set r) as [s|].
      - destruct (nilb s) eqn:Ns; [right; left; apply nilb_true; exact Ns|right; right; split; [first [exact Ns|reflexivity]|exact Hs']].
      - destruct (r_cpu r); [right; left; reflexivity|left; reflexivity]. }
    destruct Hcases as [Hsame|[Hnil|[Hne Hv]]].
    + unfold eff_set in *. rewrite Hsame. rewrite Ho, Hs. reflexivity.
    + unfold eff_set in *. rewrite Hnil. cbn [nilb is_superset forallb]. rewrite orb_true_r. cbn [andb].
      destruct (nilb (l_set tl)) eqn:Nt; [exact Hs|].
      rewrite forallb_forall in *. intros x Hx. exact (nested_mono x (l_set tl) inh (Hs x Hx) Nt Ho).
    + unfold validate_set in Hv. cbn [andb lim] in Hv.
      destruct (is_superset (l_set l') (set_resv (G ti tl tss))) eqn:Hres; cbn [negb] in Hv; [|discriminate].
      unfold eff_set at 1. rewrite Hne.
      apply andb_true_iff. split.
      * destruct (nilb inh) eqn:Ni; [reflexivity|]. cbn [orb] in *.
        destruct (is_superset (l_set tl) (l_set l')) eqn:Hshrink.
        -- exact (superset_trans _ _ _ Ho Hshrink).
        -- change (fun a : anc => negb (nilb (l_set (lim (snd a))))) with hasset in Hv.
           unfold rel in R. destruct (find hasset chain) as [a|]; [rewrite R; exact Hv|subst inh; discriminate].
      * exact (children_from_resv ti tl tss _ _ Hs Hres).
Qed.

Theorem cpuset_nesting_invariant : forall ncpu qs, inv_set (run ncpu [] qs) = true.
Proof.
  intros ncpu qs. unfold inv_set. change (InvS (run ncpu [] qs)).
  assert (G0 : forall st, InvS st -> InvS (run ncpu st qs)).
  { induction qs as [|q qs IH]; intros st HI; cbn [run]; [exact HI|].
    apply IH. destruct (step ncpu st q) as [st'|] eqn:E; [exact (step_preserves_sets _ _ _ _ HI E)|exact HI]. }
  apply G0. reflexivity.
Qed.

(* ---------------------------------------------------------------- the cpu fit without percentage-only quotas *)

Definition fcpu (l : limits) : Z := l_cnt l * l_pct l.
Definition selcpu (r : res) : option Z := match r_cpu r with Some (c, p) => Some (c * p) | None => None end.
(* every cpu quota requested has a count >= 1 and a percentage >= 1 *)
Definition okr_cpu (r : res) : Prop := match r_cpu r with Some (c, p) => 0 < c /\ 0 < p | None => True end.
(* a group has count and percentage both >= 1, or no cpu quota at all *)
Definition nc0 (l : limits) : bool :=
  ((0 <? l_cnt l) && (0 <? l_pct l)) || ((l_cnt l =? 0) && (l_pct l =? 0)).
Fixpoint okg_cpu (g : group) : bool := match g with G _ l ss => nc0 l && forallb okg_cpu ss end.

Lemma nc0_cases : forall l, nc0 l = true -> (0 < l_cnt l /\ 0 < l_pct l) \/ (l_cnt l = 0 /\ l_pct l = 0).
Proof.
  intros l H. unfold nc0 in H. apply orb_true_iff in H. destruct H as [H|H]; apply andb_true_iff in H; destruct H as [A B].
  - left. split; apply Z.ltb_lt; assumption.
  - right. split; apply Z.eqb_eq; assumption.
Qed.

Lemma alloc_nc0 : forall ncpu inh l, nc0 l = true -> cpu_alloc ncpu inh l = fcpu l.
Proof.
  intros ncpu inh l H. unfold cpu_alloc, fcpu. destruct (nc0_cases l H) as [[A B]|[A B]].
  - assert ((l_pct l =? 0) = false) by (apply Z.eqb_neq; lia). assert ((l_cnt l =? 0) = false) by (apply Z.eqb_neq; lia).
    rewrite H0, H1. reflexivity.
  - rewrite B. cbn [Z.eqb]. lia.
Qed.

Lemma okg_cpu_eq : forall i l ss, okg_cpu (G i l ss) = nc0 l && forallb okg_cpu ss.
Proof. reflexivity. Qed.

Lemma resv_nc0 : forall ncpu g, okg_cpu g = true -> forall inh, cpu_resv ncpu inh g = resv fcpu g.
Proof.
  intros ncpu. induction g as [i l ss IH] using group_ind'. intros H inh.
  rewrite okg_cpu_eq in H. apply andb_true_iff in H. destruct H as [_ Hs].
  rewrite resv_eq. cbn [cpu_resv]. generalize (eff_set inh l). intro e.
  induction ss as [|c r IHr]; [reflexivity|].
  inversion IH as [|? ? Hc1 Hr1]; subst. cbn [forallb] in Hs. apply andb_true_iff in Hs. destruct Hs as [Hc Hr].
  cbn [sumc]. rewrite (IHr Hr1 Hr). unfold contrib. rewrite (Hc1 Hc e).
  destruct c as [ci cl css]. cbn [lim]. rewrite okg_cpu_eq in Hc. apply andb_true_iff in Hc. destruct Hc as [Hn _].
  rewrite (alloc_nc0 _ _ _ Hn). reflexivity.
Qed.

Lemma fits_nc0 : forall ncpu g, okg_cpu g = true -> forall inh, cpu_fits_tree ncpu inh g = fits fcpu g.
Proof.
  intros ncpu. induction g as [i l ss IH] using group_ind'. intros H inh.
  pose proof H as H0. rewrite okg_cpu_eq in H. apply andb_true_iff in H. destruct H as [Hn Hs].
  rewrite fits_eq. cbn [cpu_fits_tree]. rewrite (resv_nc0 ncpu _ H0 inh), resv_eq, (alloc_nc0 _ _ _ Hn).
  f_equal. clear H0. generalize (eff_set inh l). intro e.
  induction ss as [|c r IHr]; [reflexivity|].
  inversion IH as [|? ? Hc1 Hr1]; subst. cbn [forallb] in Hs. apply andb_true_iff in Hs. destruct Hs as [Hc Hr].
  cbn [forallb]. rewrite (Hc1 Hc e). f_equal. apply IHr; assumption.
Qed.

Lemma nc0_apply : forall l r, okr_cpu r -> nc0 l = true -> nc0 (apply_res l r) = true.
Proof.
  intros l r Hr Hl. unfold okr_cpu in Hr. unfold apply_res, nc0 in *.
  destruct (r_cpu r) as [[c p]|]; destruct (r_set r); cbn [l_cnt l_pct]; try exact Hl;
    destruct Hr as [A B]; apply Z.ltb_lt in A; apply Z.ltb_lt in B; rewrite A, B; reflexivity.
Qed.

Lemma okg_get : forall p g t, okg_cpu g = true -> get g p = Some t -> okg_cpu t = true.
Proof.
  induction p as [|j p IH]; intros g t H Hg; cbn [get] in Hg.
  - inversion Hg; subst. exact H.
  - destruct g as [gi gl gss]. cbn [subs] in Hg. destruct (nth_error gss j) as [c|] eqn:E; [|discriminate].
    rewrite okg_cpu_eq in H. apply andb_true_iff in H. destruct H as [_ Hs].
    exact (IH _ _ (forallb_nth _ _ _ _ Hs E) Hg).
Qed.

Lemma okg_modify : forall t' p g t, okg_cpu g = true -> get g p = Some t -> okg_cpu t' = true ->
  okg_cpu (modify g p (fun _ => t')) = true.
Proof.
  intros t'. induction p as [|j p IH]; intros g t H Hg Ht; cbn [get modify] in *.
  - exact Ht.
  - destruct g as [gi gl gss]. cbn [subs lim gid] in *. destruct (nth_error gss j) as [c|] eqn:E; [|discriminate].
    rewrite okg_cpu_eq in *. apply andb_true_iff in H. destruct H as [Hn Hs]. rewrite Hn. cbn [andb].
    apply forallb_replace; [exact Hs|]. exact (IH _ _ (forallb_nth _ _ _ _ Hs E) Hg Ht).
Qed.

Lemma update_limits_eq : forall ncpu known inh g chain r l',
  update_limits ncpu known inh g chain r = Some l' -> l' = apply_res (lim g) r.
Proof.
  intros ncpu known inh g chain r l' H. unfold update_limits in H.
  destruct (validate_change (lim g) r && validate_fit ncpu known inh g chain r); [|discriminate]. inversion H. reflexivity.
Qed.

Lemma okg_cpu_step : forall ncpu st q st', okr_cpu (req_res q) -> forallb okg_cpu st = true ->
  step ncpu st q = Some st' -> forallb okg_cpu st' = true.
Proof.
  intros ncpu st q st' Hok Hg H. destruct q as [id r | p id r | p r]; cbn [step] in H; cbn [req_res] in Hok.
  - destruct (update_limits ncpu true [] (G id no_limits []) [] r) as [l'|] eqn:U; [|discriminate].
    destruct (validate_limits l'); [|discriminate]. inversion H; subst st'.
    apply update_limits_eq in U. cbn [lim] in U. subst l'.
    rewrite forallb_app, Hg. cbn [forallb]. rewrite okg_cpu_eq. rewrite (nc0_apply no_limits _ Hok (eq_refl : nc0 no_limits = true)). reflexivity.
  - destruct p as [|i p]; [discriminate|].
    destruct (nth_error st i) as [root|] eqn:Er; [|discriminate].
    destruct (walk [] root p []) as [[[pinh P] chain]|] eqn:W; [|discriminate].
    destruct (update_limits ncpu false (eff_set pinh (lim P)) (G id no_limits []) ((pinh, P) :: chain) r) as [l'|] eqn:U; [|discriminate].
    destruct (negb (N.eqb id (gid P)) && validate_limits l'); [|discriminate].
    inversion H; subst st'; clear H. apply update_limits_eq in U. cbn [lim] in U. subst l'.
    pose proof (walk_get _ _ _ _ _ _ _ W) as Hget.
    assert (Hr : okg_cpu root = true) by exact (forallb_nth _ _ _ _ Hg Er).
    pose proof (okg_get _ _ _ Hr Hget) as HP.
    rewrite (modify_const _ _ _ _ Hget). apply forallb_replace; [exact Hg|].
    apply (okg_modify _ _ _ _ Hr Hget). destruct P as [pi pl pss]. cbn [gid lim subs].
    rewrite okg_cpu_eq in *. apply andb_true_iff in HP. destruct HP as [Hn Hs]. rewrite Hn, forallb_app, Hs.
    cbn [forallb andb]. rewrite okg_cpu_eq. rewrite (nc0_apply no_limits _ Hok (eq_refl : nc0 no_limits = true)). reflexivity.
  - destruct p as [|i p]; [discriminate|].
    destruct (nth_error st i) as [root|] eqn:Er; [|discriminate].
    destruct (walk [] root p []) as [[[inh t] chain]|] eqn:W; [|discriminate].
    destruct (update_limits ncpu true inh t chain r) as [l'|] eqn:U; [|discriminate].
    inversion H; subst st'; clear H. apply update_limits_eq in U. subst l'.
    pose proof (walk_get _ _ _ _ _ _ _ W) as Hget.
    assert (Hr : okg_cpu root = true) by exact (forallb_nth _ _ _ _ Hg Er).
    pose proof (okg_get _ _ _ Hr Hget) as HT.
    rewrite (modify_const _ _ _ _ Hget). apply forallb_replace; [exact Hg|].
    apply (okg_modify _ _ _ _ Hr Hget). destruct t as [ti tl tss]. cbn [gid lim subs].
    rewrite okg_cpu_eq in *. apply andb_true_iff in HT. destruct HT as [Hn Hs].
    rewrite (nc0_apply _ _ Hok Hn), Hs. reflexivity.
Qed.

Lemma fcpu_apply : forall l r, okr_cpu r -> fcpu (apply_res l r) = match selcpu r with Some v => v | None => fcpu l end.
Proof.
  intros l r _. unfold fcpu, selcpu, apply_res. destruct (r_cpu r) as [[c p]|]; destruct (r_set r); reflexivity.
Qed.

(* the repaired parent loop implies the scalar parent check *)
Lemma parents_scalar : forall ncpu chain req ex, Forall (fun a : anc => okg_cpu (snd a) = true) chain ->
  cpu_parents ncpu chain req ex = true ->
  match find (limited fcpu) chain with
  | None => True
  | Some a => req <= fcpu (lim (snd a)) - (resv fcpu (snd a) - ex)
  end.
Proof.
  intros ncpu chain req ex F. induction F as [|[ainh a] rest Ha Hrest IH]; intro H; cbn [find cpu_parents] in *; [exact I|].
  cbn [snd] in Ha. unfold limited at 1. cbn [snd].
  destruct a as [ai al ass]. cbn [lim] in *. pose proof Ha as Ha0. rewrite okg_cpu_eq in Ha. apply andb_true_iff in Ha.
  destruct Ha as [Hn _]. rewrite (alloc_nc0 _ _ _ Hn) in H.
  destruct (fcpu al =? 0) eqn:Z0; cbn [negb] in *.
  - destruct (negb (nilb (l_set al)) && (req >? zlen (l_set al) * 100)); [discriminate|]. exact (IH H).
  - rewrite (resv_nc0 ncpu _ Ha0 ainh) in H. apply negb_true_iff in H. rewrite Z.gtb_ltb in H. apply Z.ltb_ge in H. exact H.
Qed.

Lemma fit_cpu : forall ncpu known inh g chain r, okr_cpu r -> okg_cpu g = true ->
  Forall (fun a : anc => okg_cpu (snd a) = true) chain -> (known = false -> lim g = no_limits) ->
  validate_fit ncpu known inh g chain r = true ->
  match selcpu r with Some v => validate_scalar fcpu known g chain v = true | None => True end.
Proof.
  intros ncpu known inh g chain r Hok Hg Hc Hkn H. unfold selcpu. unfold okr_cpu in Hok.
  unfold validate_fit in H. repeat (apply andb_true_iff in H; destruct H as [H ?]).
  destruct (r_cpu r) as [[c p]|]; [|exact I]. destruct Hok as [Hc0 Hp0].
  assert (Ep : (p =? 0) = false) by (apply Z.eqb_neq; lia).
  match goal with X : (if p =? 0 then true else _) = true |- _ => rewrite Ep in X; rename X into V end.
  unfold validate_cpu in V. assert (Ec : (c =? 0) = false) by (apply Z.eqb_neq; lia). rewrite Ec in V.
  destruct g as [gi gl gss]. cbn [lim] in *. pose proof Hg as Hg0. rewrite okg_cpu_eq in Hg. apply andb_true_iff in Hg.
  destruct Hg as [Hn _]. rewrite (alloc_nc0 _ _ _ Hn), (resv_nc0 ncpu _ Hg0 inh) in V.
  unfold validate_scalar. cbn [lim].
  destruct (known && (resv fcpu (G gi gl gss) >? c * p)); [discriminate|].
  destruct (known && (c * p <? fcpu gl)); [reflexivity|].
  pose proof (parents_scalar _ _ _ _ Hc V) as P.
  change (fun a : anc => negb (fcpu (lim (snd a)) =? 0)) with (limited fcpu).
  destruct (find (limited fcpu) chain) as [a|]; [|reflexivity].
  apply negb_true_iff. rewrite Z.gtb_ltb. apply Z.ltb_ge.
  destruct known; [exact P|]. rewrite (Hkn eq_refl). unfold fcpu at 3. cbn [no_limits l_cnt l_pct]. lia.
Qed.

Lemma sub_nonneg_cpu : forall r, okr_cpu r -> validate_change no_limits r = true ->
  validate_limits (apply_res no_limits r) = true -> 0 <= fcpu (apply_res no_limits r).
Proof.
  intros r Hok _ _. rewrite (fcpu_apply _ _ Hok). unfold selcpu, okr_cpu in *.
  destruct (r_cpu r) as [[c p]|]; [nia|reflexivity].
Qed.

Lemma run_okg_cpu : forall ncpu qs st, Forall (fun q => okr_cpu (req_res q)) qs ->
  forallb okg_cpu st = true -> forallb okg_cpu (run ncpu st qs) = true.
Proof.
  intros ncpu qs. induction qs as [|q qs IH]; intros st Hqs Hg; cbn [run]; [exact Hg|].
  inversion Hqs; subst. destruct (step ncpu st q) as [st'|] eqn:E.
  - apply IH; [assumption|exact (okg_cpu_step _ _ _ _ H1 Hg E)].
  - apply IH; assumption.
Qed.

Theorem cpu_fit_without_percentage_only : forall ncpu qs,
  Forall (fun q => okr_cpu (req_res q)) qs -> inv_cpu ncpu (run ncpu [] qs) = true.
Proof.
  intros ncpu qs Hqs.
  assert (HI : Inv fcpu (run ncpu [] qs)).
  { apply (run_preserves fcpu selcpu okr_cpu okg_cpu); try assumption; try reflexivity.
    - intros i l ss H. rewrite okg_cpu_eq in H. apply andb_true_iff in H. tauto.
    - exact okg_cpu_step.
    - exact fcpu_apply.
    - exact fit_cpu.
    - exact sub_nonneg_cpu.
    - split; reflexivity. }
  pose proof (run_okg_cpu ncpu qs [] Hqs eq_refl) as Hg.
  destruct HI as [Hf _]. unfold inv_cpu. rewrite forallb_forall in *. intros g Hin.
  rewrite (fits_nc0 ncpu g (Hg g Hin) []). exact (Hf g Hin).
Qed.

(* ---------------------------------------------------------------- cpu: the framing lemma with the inherited cpu set *)

Definition ccontrib (ncpu : Z) (inh : list Z) (g : group) : Z :=
  Z.max (cpu_alloc ncpu inh (lim g)) (cpu_resv ncpu inh g).
Fixpoint csum (ncpu : Z) (e : list Z) (ss : list group) : Z :=
  match ss with [] => 0 | c :: r => ccontrib ncpu e c + csum ncpu e r end.

Lemma cresv_eq : forall ncpu inh i l ss, cpu_resv ncpu inh (G i l ss) = csum ncpu (eff_set inh l) ss.
Proof.
  intros. cbn [cpu_resv]. generalize (eff_set inh l). intro e. induction ss as [|c r IH]; [reflexivity|].
  cbn [csum]. unfold ccontrib. rewrite IH. reflexivity.
Qed.

Lemma cfits_eq : forall ncpu inh i l ss, cpu_fits_tree ncpu inh (G i l ss) =
  ((cpu_alloc ncpu inh l =? 0) || (csum ncpu (eff_set inh l) ss <=? cpu_alloc ncpu inh l)) &&
  forallb (cpu_fits_tree ncpu (eff_set inh l)) ss.
Proof.
  intros. change (cpu_fits_tree ncpu inh (G i l ss)) with
    (((cpu_alloc ncpu inh l =? 0) || (cpu_resv ncpu inh (G i l ss) <=? cpu_alloc ncpu inh l)) &&
     (let e := eff_set inh l in
      (fix all (cs : list group) : bool := match cs with [] => true | c :: r => cpu_fits_tree ncpu e c && all r end) ss)).
  rewrite cresv_eq. cbv zeta. f_equal; try (generalize (eff_set inh l); intro e; induction ss as [|c r IH]; [reflexivity|simpl; rewrite IH; reflexivity]).
Qed.

(* counts and percentages are non-negative everywhere in the tree *)
Fixpoint cnn (g : group) : bool :=
  match g with G _ l ss => (0 <=? l_cnt l) && (0 <=? l_pct l) && forallb cnn ss end.

Lemma alloc_nonneg : forall ncpu inh l, 0 <= ncpu -> 0 <= l_cnt l -> 0 <= l_pct l -> 0 <= cpu_alloc ncpu inh l.
Proof.
  intros ncpu inh l Hn Hc Hp. unfold cpu_alloc. destruct (l_pct l =? 0); [lia|].
  destruct (negb (l_cnt l =? 0)); [nia|].
  assert (0 <= zlen (eff_set inh l)) by (unfold zlen; lia).
  destruct (negb (zlen (eff_set inh l) =? 0) && (zlen (eff_set inh l) <? ncpu)); nia.
Qed.

Lemma csum_nonneg : forall ncpu e ss, 0 <= ncpu -> forallb cnn ss = true -> 0 <= csum ncpu e ss.
Proof.
  intros ncpu e ss Hn. induction ss as [|c r IH]; cbn [csum forallb]; intro H; [lia|].
  apply andb_true_iff in H. destruct H as [Hc Hr]. specialize (IH Hr).
  destruct c as [ci cl css]. cbn [cnn] in Hc. apply andb_true_iff in Hc. destruct Hc as [Hc _].
  apply andb_true_iff in Hc. destruct Hc as [H1 H2]. apply Z.leb_le in H1. apply Z.leb_le in H2.
  pose proof (alloc_nonneg ncpu e cl Hn H1 H2). unfold ccontrib. cbn [lim]. lia.
Qed.

Lemma csum_replace : forall ncpu e ss i c c', nth_error ss i = Some c ->
  csum ncpu e (replace_nth ss i c') = csum ncpu e ss + ccontrib ncpu e c' - ccontrib ncpu e c.
Proof.
  intros ncpu e ss. induction ss as [|x r IH]; intros i c c' H.
  - destruct i; discriminate.
  - destruct i as [|i]; simpl in *.
    + inversion H; subst. lia.
    + rewrite (IH _ _ c' H). lia.
Qed.

(* the cpu set inherited by the group at path p, and the nearest ancestor on the path that has a cpu reservation *)
Fixpoint inh_at (inh : list Z) (g : group) (p : list nat) : list Z :=
  match p with
  | [] => inh
  | i :: p' => match nth_error (subs g) i with
               | None => inh
               | Some c => inh_at (eff_set inh (lim g)) c p'
               end
  end.

Fixpoint cnla (ncpu : Z) (inh : list Z) (g : group) (p : list nat) : option anc :=
  match p with
  | [] => None
  | i :: p' => match nth_error (subs g) i with
               | None => None
               | Some c => match cnla ncpu (eff_set inh (lim g)) c p' with
                           | Some a => Some a
                           | None => if negb (cpu_alloc ncpu inh (lim g) =? 0) then Some (inh, g) else None
                           end
               end
  end.

(* Replace the group at path p (which keeps inheriting the same cpu set, since no limit on the path changes) by t' whose
   effective contribution differs by d. If the nearest ancestor with a cpu reservation has room for d the tree still
   fits; the change is absorbed there, or passes through groups without a cpu reservation. *)
Lemma modify_cpu_fits : forall ncpu t' d, 0 <= ncpu -> forall p inh g t,
  cpu_fits_tree ncpu inh g = true -> cnn g = true -> get g p = Some t ->
  cpu_fits_tree ncpu (inh_at inh g p) t' = true -> cnn t' = true ->
  ccontrib ncpu (inh_at inh g p) t' = ccontrib ncpu (inh_at inh g p) t + d ->
  (forall ai a, cnla ncpu inh g p = Some (ai, a) -> cpu_resv ncpu ai a + d <= cpu_alloc ncpu ai (lim a)) ->
  let g' := modify g p (fun _ => t') in
  cpu_fits_tree ncpu inh g' = true /\ cnn g' = true /\
  ccontrib ncpu inh g' = ccontrib ncpu inh g + (match cnla ncpu inh g p with Some _ => 0 | None => d end).
Proof.
  intros ncpu t' d Hncpu. induction p as [|i p IH]; intros inh g t Hf Hn Hg Hft Hnt Hc Hroom;
    cbn [get cnla modify inh_at] in *.
  - inversion Hg; subst. repeat split; solve [assumption | lia].
  - destruct g as [gi l ss]. cbn [subs lim gid] in *.
    destruct (nth_error ss i) as [c|] eqn:E; [|discriminate].
    set (e := eff_set inh l) in *.
    rewrite cfits_eq in Hf. fold e in Hf. apply andb_true_iff in Hf. destruct Hf as [Hl Hs].
    cbn [cnn] in Hn. apply andb_true_iff in Hn. destruct Hn as [Hl0 Hns].
    apply andb_true_iff in Hl0. destruct Hl0 as [Hc0 Hp0].
    assert (Hal : 0 <= cpu_alloc ncpu inh l).
    { apply alloc_nonneg; [exact Hncpu|apply Z.leb_le; exact Hc0|apply Z.leb_le; exact Hp0]. }
    assert (Hfc : cpu_fits_tree ncpu e c = true) by exact (forallb_nth _ _ _ _ Hs E).
    assert (Hnc : cnn c = true) by exact (forallb_nth _ _ _ _ Hns E).
    assert (Hroomc : forall ai a, cnla ncpu e c p = Some (ai, a) -> cpu_resv ncpu ai a + d <= cpu_alloc ncpu ai (lim a)).
    { intros ai a Ha. apply Hroom. rewrite Ha. reflexivity. }
    destruct (IH e c t Hfc Hnc Hg Hft Hnt Hc Hroomc) as [Hfc' [Hnc' Hcc']].
    set (c' := modify c p (fun _ => t')) in *.
    assert (Hsum : csum ncpu e (replace_nth ss i c') = csum ncpu e ss + ccontrib ncpu e c' - ccontrib ncpu e c)
      by exact (csum_replace _ _ _ _ _ _ E).
    assert (Hnn' : forallb cnn (replace_nth ss i c') = true) by exact (forallb_replace _ _ _ _ Hns Hnc').
    assert (Hpos' : 0 <= csum ncpu e (replace_nth ss i c')) by exact (csum_nonneg _ _ _ Hncpu Hnn').
    assert (Hpos : 0 <= csum ncpu e ss) by exact (csum_nonneg _ _ _ Hncpu Hns).
    cbv zeta. rewrite cfits_eq. fold e. cbn [cnn]. unfold ccontrib at 1 2. cbn [lim]. rewrite !cresv_eq. fold e.
    rewrite (forallb_replace _ _ _ _ Hs Hfc'). rewrite Hnn', Hc0, Hp0.
    destruct (cnla ncpu e c p) as [a|] eqn:En.
    + rewrite Hsum, Hcc'. replace (csum ncpu e ss + (ccontrib ncpu e c + 0) - ccontrib ncpu e c) with (csum ncpu e ss) by lia.
      rewrite Hl. repeat split; reflexivity || lia.
    + destruct (cpu_alloc ncpu inh l =? 0) eqn:Z0; cbn [negb orb andb].
      * apply Z.eqb_eq in Z0. repeat split; try reflexivity. rewrite Hsum, Hcc', Z0. lia.
      * apply Z.eqb_neq in Z0. cbn [orb] in Hl. apply Z.leb_le in Hl.
        assert (Hr : csum ncpu e ss + d <= cpu_alloc ncpu inh l).
        { specialize (Hroom inh (G gi l ss)). rewrite cresv_eq in Hroom. fold e in Hroom. cbn [lim] in Hroom. apply Hroom.
          destruct (cpu_alloc ncpu inh l =? 0) eqn:Z1; [apply Z.eqb_eq in Z1; contradiction|reflexivity]. }
        assert (Hle : csum ncpu e (replace_nth ss i c') <= cpu_alloc ncpu inh l) by (rewrite Hsum, Hcc'; lia).
        repeat split; try reflexivity.
        -- apply andb_true_iff. split; [|reflexivity]. apply Z.leb_le. exact Hle.
        -- lia.
Qed.

(* an update that leaves the effective cpu set of the group unchanged leaves the reservations below it unchanged *)
Lemma same_effset_below : forall ncpu inh i l l' ss, eff_set inh l' = eff_set inh l ->
  cpu_resv ncpu inh (G i l' ss) = cpu_resv ncpu inh (G i l ss) /\
  forallb (cpu_fits_tree ncpu (eff_set inh l')) ss = forallb (cpu_fits_tree ncpu (eff_set inh l)) ss.
Proof. intros ncpu inh i l l' ss H. rewrite !cresv_eq, H. split; reflexivity. Qed.
