(* C36 - proofs about models/Quota.v *)
From Coq Require Import List ZArith NArith Bool Lia.
Import ListNotations.
Require Import V.models.Quota.
Open Scope Z_scope.

Lemma step_refused_unchanged : forall ncpu st q, step ncpu st q = None -> run ncpu st [q] = st.
Proof. intros ncpu st q H. simpl. rewrite H. reflexivity. Qed.
