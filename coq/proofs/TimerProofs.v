(* C16 — proofs about models/Timer.v *)
From Coq Require Import List ZArith Bool Lia ZifyBool.
Import ListNotations.
Require Import V.lib.Civil V.models.Timer.
Open Scope Z_scope.

(* ------------------------------------------------------------------ the bounded choice (timeutil.Next) *)
Lemma choose_fold_le : forall nexts w0,
  w_start (fold_left (fun w n => if w_start n <? w_start w then n else w) nexts w0) <= w_start w0.
Proof.
  induction nexts as [|n nexts IH]; intros w0; cbn [fold_left]; [lia|].
  destruct (w_start n <? w_start w0) eqn:E.
  - specialize (IH n). lia.
  - apply IH.
Qed.

Lemma choose_fold_min : forall nexts w0 n, In n nexts ->
  w_start (fold_left (fun w n => if w_start n <? w_start w then n else w) nexts w0) <= w_start n.
Proof.
  induction nexts as [|m nexts IH]; intros w0 n H; [contradiction|].
  cbn [fold_left]. destruct H as [->|H].
  - destruct (w_start n <? w_start w0) eqn:E.
    + apply choose_fold_le.
    + pose proof (choose_fold_le nexts w0). lia.
  - apply IH; assumption.
Qed.

Lemma choose_fold_in : forall nexts w0,
  let r := fold_left (fun w n => if w_start n <? w_start w then n else w) nexts w0 in r = w0 \/ In r nexts.
Proof.
  induction nexts as [|m nexts IH]; intros w0; cbn [fold_left]; [left; reflexivity|].
  destruct (w_start m <? w_start w0) eqn:E.
  - destruct (IH m) as [H|H]; [right; left; symmetry; exact H | right; right; exact H].
  - destruct (IH w0) as [H|H]; [left; exact H | right; right; exact H].
Qed.

(* MAIN (limit): whatever windows the schedules' Next functions return (ANY list), the chosen window starts no later
   than last + maxd and no later than any offered window; it is one of the offered windows or the fallback window at
   last + maxd; the non-random delay is never negative, is 0 when the chosen start is already past, and the
   instant now + delay is never after max(now, last + maxd). *)
Theorem limit_any_schedule : forall (nexts : list window) (last maxd now : Z),
  let w := choose nexts last maxd in
  w_start w <= last + maxd /\
  (forall n, In n nexts -> w_start w <= w_start n) /\
  (w = mkWin (last + maxd) (last + maxd + 3600) false \/ In w nexts) /\
  0 <= delay_base w now /\
  (w_start w < now -> delay_base w now = 0) /\
  now + delay_base w now <= Z.max now (last + maxd) /\
  (now <= w_start w -> now + delay_base w now = w_start w).
Proof.
  intros nexts last maxd now w. unfold w, choose.
  pose proof (choose_fold_le nexts (mkWin (last + maxd) (last + maxd + 3600) false)) as L. cbn [w_start] in L.
  split; [exact L|]. split; [intros n H; apply choose_fold_min; exact H|].
  split; [apply choose_fold_in|].
  unfold delay_base.
  destruct (w_start _ <? now) eqn:E; repeat split; try lia.
Qed.

(* ------------------------------------------------------------------ Schedule.Next returns a window of the schedule *)
Lemma pick_fold_spec : forall now last D tsp acc w,
  fold_left (pick now last D) tsp acc = Some w ->
  acc = Some w \/
  exists cs, In cs tsp /\ w = window_of cs D /\ now <= w_end w /\ (last < w_start w \/ w_end w < last).
Proof.
  induction tsp as [|cs tsp IH]; intros acc w H; cbn [fold_left] in H; [left; exact H|].
  apply IH in H as [H | (cs' & Hin & Hw & H1 & H2)].
  - unfold pick in H.
    destruct (w_end (window_of cs D) <? now) eqn:E1; [left; exact H|].
    destruct ((w_start (window_of cs D) <=? last) && (last <=? w_end (window_of cs D))) eqn:E2; [left; exact H|].
    assert (G : exists cs0, In cs0 (cs :: tsp) /\ window_of cs D = window_of cs0 D /\ now <= w_end (window_of cs D) /\
                (last < w_start (window_of cs D) \/ w_end (window_of cs D) < last)).
    { exists cs. split; [left; reflexivity|]. split; [reflexivity|]. split; lia. }
    destruct acc as [a|].
    + destruct (w_start (window_of cs D) <? w_start a); [|left; exact H].
      inversion H; subst w. right. destruct G as (c & A & B & C & E). exists c; auto.
    + inversion H; subst w. right. destruct G as (c & A & B & C & E). exists c; auto.
  - right. exists cs'. split; [right; exact Hin | auto].
Qed.

(* the window found on a day is the earliest eligible one of that day *)
Lemma pick_fold_min : forall now last D tsp acc w,
  fold_left (pick now last D) tsp acc = Some w ->
  (forall a, acc = Some a -> w_start w <= w_start a) /\
  (forall cs, In cs tsp -> now <= w_end (window_of cs D) ->
              (last < w_start (window_of cs D) \/ w_end (window_of cs D) < last) ->
              w_start w <= w_start (window_of cs D)).
Proof.
  induction tsp as [|cs tsp IH]; intros acc w H; cbn [fold_left] in H.
  - split; [intros a Ha; rewrite H in Ha; inversion Ha; lia | intros cs [] ].
  - destruct (IH _ _ H) as [A B]. split.
    + intros a Ha. subst acc. unfold pick in A.
      destruct (w_end (window_of cs D) <? now); [apply A; reflexivity|].
      destruct ((w_start (window_of cs D) <=? last) && (last <=? w_end (window_of cs D))); [apply A; reflexivity|].
      destruct (w_start (window_of cs D) <? w_start a) eqn:E; [specialize (A _ eq_refl); lia | apply A; reflexivity].
    + intros c [<-|Hc] H1 H2; [|apply B; assumption].
      unfold pick in A.
      destruct (w_end (window_of cs D) <? now) eqn:E1; [lia|].
      destruct ((w_start (window_of cs D) <=? last) && (last <=? w_end (window_of cs D))) eqn:E2; [lia|].
      destruct acc as [a|].
      * destruct (w_start (window_of cs D) <? w_start a) eqn:E; [apply A; reflexivity | specialize (A _ eq_refl); lia].
      * apply A; reflexivity.
Qed.

Lemma next_from_spec : forall fuel s tsp now last t w,
  next_from fuel s tsp now last t = Some w ->
  exists k, 0 <= k < Z.of_nat fuel /\
    let D := t / 86400 + k in
    week_ok s D = true /\
    (exists cs, In cs tsp /\ w = window_of cs D /\ now <= w_end w /\ (last < w_start w \/ w_end w < last)) /\
    (forall cs, In cs tsp -> now <= w_end (window_of cs D) ->
                (last < w_start (window_of cs D) \/ w_end (window_of cs D) < last) ->
                w_start w <= w_start (window_of cs D)).
Proof.
  induction fuel as [|f IH]; intros s tsp now last t w H; [discriminate|].
  cbn [next_from] in H.
  assert (Shift : forall w', next_from f s tsp now last (t + 86400) = Some w' ->
            exists k, 0 <= k < Z.of_nat (S f) /\
              let D := t / 86400 + k in week_ok s D = true /\
              (exists cs, In cs tsp /\ w' = window_of cs D /\ now <= w_end w' /\ (last < w_start w' \/ w_end w' < last)) /\
              (forall cs, In cs tsp -> now <= w_end (window_of cs D) ->
                (last < w_start (window_of cs D) \/ w_end (window_of cs D) < last) -> w_start w' <= w_start (window_of cs D))).
  { intros w' H'. apply IH in H' as (k & Hk & HD).
    replace ((t + 86400) / 86400) with (t / 86400 + 1) in HD by (rewrite <- (Z.div_add t 1 86400) by lia; f_equal; lia).
    exists (k + 1). split; [lia|]. cbv zeta in HD |- *. replace (t / 86400 + (k + 1)) with (t / 86400 + 1 + k) by lia. exact HD. }
  destruct (week_ok s (t / 86400)) eqn:W; cbn [negb] in H; [|apply Shift; exact H].
  destruct (fold_left (pick now last (t / 86400)) tsp None) as [w0|] eqn:F; [|apply Shift; exact H].
  destruct (w_end w0 <? now) eqn:E; [apply Shift; exact H|].
  inversion H; subst w0. exists 0. split; [lia|]. cbv zeta. rewrite Z.add_0_r. split; [exact W|]. split.
  - apply pick_fold_spec in F as [F|F]; [discriminate | exact F].
  - apply pick_fold_min in F as [_ F]. exact F.
Qed.

(* MAIN (in window): what Schedule.Next returns is the window of one of the schedule's flattened clock spans on a day,
   k days after the day of `last`, that the week spans accept; it does not end before now and does not contain last;
   and it is the earliest such window of that day. *)
Theorem next_in_window : forall (fuel : nat) (s : schedule) (last now : Z) (w : window),
  sched_next fuel s last now = Some w ->
  exists k cs, 0 <= k < Z.of_nat fuel /\ In cs (flattened s) /\
    let D := last / 86400 + k in
    w = window_of cs D /\ week_ok s D = true /\ now <= w_end w /\ (last < w_start w \/ w_end w < last) /\
    (forall cs', In cs' (flattened s) -> now <= w_end (window_of cs' D) ->
                 (last < w_start (window_of cs' D) \/ w_end (window_of cs' D) < last) ->
                 w_start w <= w_start (window_of cs' D)).
Proof.
  intros fuel s last now w H. unfold sched_next in H.
  apply next_from_spec in H as (k & Hk & W & (cs & Hin & Hw & H1 & H2) & Hmin).
  exists k, cs. cbv zeta. auto 10.
Qed.

(* ------------------------------------------------------------------ the window is accepted by Includes *)
Definition clock_in_day (c : clock) : Prop := 0 <= hour c <= 23 /\ 0 <= minute c <= 59.
Definition clock_nonneg (c : clock) : Prop := 0 <= hour c /\ 0 <= minute c.

Lemma window_start_day : forall cs D, clock_in_day (cs_start cs) -> w_start (window_of cs D) / 86400 = D.
Proof.
  intros cs D [H1 H2]. unfold window_of, clock_time; cbn [w_start].
  symmetry. apply (Z.div_unique _ 86400 D (hour (cs_start cs) * 3600 + minute (cs_start cs) * 60)); lia.
Qed.

Lemma window_ordered : forall cs D, clock_in_day (cs_start cs) -> clock_nonneg (cs_end cs) ->
  w_start (window_of cs D) <= w_end (window_of cs D).
Proof.
  intros cs D [H1 H2] [H3 H4]. unfold window_of, clock_time; cbn [w_start w_end].
  destruct (_ <? _) eqn:E; lia.
Qed.

(* MAIN (included): for a window of the schedule whose START CLOCK IS NOT 24:00 (start clock within the day), every
   instant t of the window that lies on the window's own calendar day is accepted by Includes; a single-instant window
   hh:mm is accepted for the minute [hh:mm, hh:mm+1min). *)
Theorem window_included : forall (s : schedule) (cs : clockspan) (D t : Z),
  In cs (flattened s) -> week_ok s D = true -> clock_in_day (cs_start cs) ->
  let w := window_of cs D in
  w_start w <= t -> (t < w_end w \/ (w_end w = w_start w /\ t < w_start w + 60)) -> t / 86400 = D ->
  sched_includes s t = true.
Proof.
  intros s cs D t Hin W Hc w H1 H2 HD. unfold sched_includes. rewrite HD, W. cbn [andb].
  apply existsb_exists. exists cs. split; [exact Hin|]. unfold span_includes. fold w.
  destruct (w_end w =? w_start w) eqn:E; lia.
Qed.

(* in particular the instant the window starts at — the time the next refresh is scheduled for *)
Theorem window_start_included : forall (s : schedule) (cs : clockspan) (D : Z),
  In cs (flattened s) -> week_ok s D = true -> clock_in_day (cs_start cs) -> clock_nonneg (cs_end cs) ->
  sched_includes s (w_start (window_of cs D)) = true.
Proof.
  intros s cs D Hin W Hc He.
  apply (window_included s cs D _ Hin W Hc); [lia | | apply window_start_day; exact Hc].
  pose proof (window_ordered cs D Hc He). lia.
Qed.

(* the two guards matter (both reproduced on the Go code by the driver on every run) *)
Definition ex_mon_2400 : schedule := mkSched [mkWS (mkWeek 1 0) (mkWeek 1 0)] [mkCS (mkClock 24 0) (mkClock 24 0) 0 false].
Definition ex_night : schedule := mkSched [] [mkCS (mkClock 23 0) (mkClock 1 0) 0 false].
Definition ex_last : Z := 1722859200.   (* Monday 2024-08-05 12:00 UTC *)

Lemma start_2400_counterexample : exists w,
  sched_next 400 ex_mon_2400 ex_last (ex_last + 60) = Some w /\ sched_includes ex_mon_2400 (w_start w) = false.
Proof. exists (mkWin 1722902400 1722902400 false); split; vm_compute; reflexivity. Qed.

Lemma midnight_tail_counterexample : exists w t,
  sched_next 400 ex_night ex_last (ex_last + 60) = Some w /\ w_start w <= t < w_end w /\ sched_includes ex_night t = false.
Proof. exists (mkWin 1722898800 1722906000 false), 1722905940. split; [vm_compute; reflexivity|]. split; [cbn [w_start w_end]; lia | vm_compute; reflexivity]. Qed.

(* what exactly goes wrong with a start clock of 24:00: Includes builds the span's window from the instant's own day, so
   it starts at the following midnight and can never contain the instant — such a span is dead for Includes, while
   Next does return its windows *)
Lemma span_2400_never_includes : forall (cs : clockspan) (D t : Z),
  hour (cs_start cs) = 24 -> 0 <= minute (cs_start cs) -> t / 86400 = D -> span_includes t D cs = false.
Proof.
  intros cs D t H M HD. unfold span_includes, window_of, clock_time; cbn [w_start w_end]. rewrite H.
  assert (t < 86400 * D + 86400).
  { pose proof (Z.mod_pos_bound t 86400 ltac:(lia)). pose proof (Z.div_mod t 86400 ltac:(lia)). rewrite HD in *. lia. }
  apply andb_false_iff; left. apply andb_false_iff; left. lia.
Qed.

Definition ex_2400_tail : schedule :=
  mkSched [] [mkCS (mkClock 0 0) (mkClock 0 0) 0 false; mkCS (mkClock 24 0) (mkClock 7 30) 0 false].
Lemma start_2400_tail_counterexample : exists w,
  sched_next 400 ex_2400_tail ex_last (ex_last + 60) = Some w /\
  sched_includes ex_2400_tail (w_start w) = true /\ sched_includes ex_2400_tail (w_end w - 60) = false.
Proof. exists (mkWin 1722902400 1722929400 false). split; [|split]; vm_compute; reflexivity. Qed.

(* non-vacuity of the guarded theorems *)
Lemma ex_default_timer : exists w,
  sched_next 400 (mkSched [] [mkCS (mkClock 0 0) (mkClock 24 0) 4 true]) ex_last (ex_last + 60) = Some w /\
  sched_includes (mkSched [] [mkCS (mkClock 0 0) (mkClock 24 0) 4 true]) (w_start w) = true.
Proof. exists (mkWin 1722880800 1722902400 true); split; vm_compute; reflexivity. Qed.
