(* C06 — proofs about models/AtomicWrite.v *)
From Coq Require Import List NArith Bool Lia ZifyBool ZifyN Arith PeanoNat Compare_dec.
Import ListNotations.
Require Import V.lib.Bytes V.gen.CommitOrder V.models.AtomicWrite.
Open Scope N_scope.

(* ------------------------------------------------------------------ names, lookups *)
Lemma name_eqb_eq : forall a b, name_eqb a b = true <-> a = b.
Proof.
  intros [a1 a2] [b1 b2]; unfold name_eqb; cbn [fst snd]. rewrite andb_true_iff, !N.eqb_eq.
  split; [intros [-> ->]; reflexivity | intros H; inversion H; auto].
Qed.
Lemma name_eqb_refl : forall a, name_eqb a a = true.
Proof. intros; apply name_eqb_eq; reflexivity. Qed.
Lemma name_eqb_neq : forall a b, name_eqb a b = false <-> a <> b.
Proof.
  intros a b; split.
  - intros H E. apply name_eqb_eq in E. congruence.
  - intros H. destruct (name_eqb a b) eqn:E; [apply name_eqb_eq in E; contradiction | reflexivity].
Qed.

(* the view of name t once a list of pending updates (oldest first) has been applied over default d *)
Definition lookup_pend (P : list dirent) (d : option ino) (t : name) : option ino :=
  fold_left (fun acc e => if name_eqb (fst e) t then snd e else acc) P d.

Lemma dlookup_rev_app : forall P D t, dlookup (rev P ++ D) t = lookup_pend P (dlookup D t) t.
Proof.
  induction P as [|[m v] P IH]; intros D t; cbn [rev]; [reflexivity|].
  rewrite <- app_assoc. cbn [app]. rewrite IH. reflexivity.
Qed.

Lemma lookup_pend_app : forall P Q d t, lookup_pend (P ++ Q) d t = lookup_pend Q (lookup_pend P d t) t.
Proof. intros; unfold lookup_pend; apply fold_left_app. Qed.

Lemma lookup_pend_cases : forall P d t,
  lookup_pend P d t = d \/ exists e, In e P /\ name_eqb (fst e) t = true /\ snd e = lookup_pend P d t.
Proof.
  induction P as [|e P IH]; intros d t; [left; reflexivity|].
  cbn [lookup_pend fold_left]. fold (lookup_pend P (if name_eqb (fst e) t then snd e else d) t).
  destruct (IH (if name_eqb (fst e) t then snd e else d) t) as [H | (e' & Hin & Hn & Hs)].
  - rewrite H. destruct (name_eqb (fst e) t) eqn:E; [right; exists e; cbn; auto | left; reflexivity].
  - right; exists e'; cbn; auto.
Qed.

Lemma lookup_pend_none : forall P d t,
  (forall e, In e P -> name_eqb (fst e) t = false) -> lookup_pend P d t = d.
Proof.
  induction P as [|e P IH]; intros d t H; [reflexivity|].
  cbn [lookup_pend fold_left]. rewrite (H e (or_introl eq_refl)). apply IH. intros; apply H; right; assumption.
Qed.

Lemma lookup_pend_filter : forall f P d t,
  (forall e, name_eqb (fst e) t = true -> f e = true) ->
  lookup_pend (filter f P) d t = lookup_pend P d t.
Proof.
  intros f; induction P as [|e P IH]; intros d t H; [reflexivity|].
  cbn [filter]. destruct (f e) eqn:Fe.
  - cbn [lookup_pend fold_left]. apply IH; assumption.
  - cbn [lookup_pend fold_left]. destruct (name_eqb (fst e) t) eqn:E.
    + rewrite (H e E) in Fe; discriminate.
    + apply IH; assumption.
Qed.

Lemma lookup_pend_filter_none : forall f P d t,
  (forall e, name_eqb (fst e) t = true -> f e = false) ->
  lookup_pend (filter f P) d t = d.
Proof.
  intros. apply lookup_pend_none. intros e Hin. apply filter_In in Hin as [_ Hf].
  destruct (name_eqb (fst e) t) eqn:E; [rewrite (H e E) in Hf; discriminate | reflexivity].
Qed.

Lemma kept_incl : forall k P e, In e (kept k P) -> In e P.
Proof.
  intros k P; revert k; induction P as [|x P IH]; intros k e H; [destruct k; cbn in H; contradiction|].
  destruct k as [|[|] k]; cbn in H; try contradiction.
  - destruct H as [->|H]; [left; reflexivity | right; eapply IH; eassumption].
  - right; eapply IH; eassumption.
Qed.

(* ------------------------------------------------------------------ invariant for atomicity *)
(* v is absent / an inode with no unsynced data whose content is one of the allowed contents *)
Definition good (s : st) (V : list (option bytes)) (v : option ino) : Prop :=
  match v with
  | None => In None V
  | Some i => exists c, ilookup (inodes s) i = Some (mkInode c []) /\ In (Some c) V
  end.

Definition fresh (s : st) : Prop := forall i nd, ilookup (inodes s) i = Some nd -> i < next s.

Definition Inv (t : name) (s : st) (V : list (option bytes)) : Prop :=
  good s V (dlookup (ddir s) t) /\
  (forall e, In e (pend s) -> name_eqb (fst e) t = true -> good s V (snd e)) /\
  fresh s.

(* initial states of the theorems: nothing pending, the target absent (old = None) or a fully synced file *)
Definition init_ok (t : name) (s : st) (old : option bytes) : Prop :=
  pend s = [] /\ good s [old] (dlookup (ddir s) t) /\ fresh s.

Lemma good_incl : forall s V V' v, good s V v -> incl V V' -> good s V' v.
Proof.
  intros s V V' [i|] H I; cbn in *; [destruct H as (c & H1 & H2); exists c; auto | auto].
Qed.

(* good is kept when the inodes it mentions are kept *)
Lemma good_same : forall s s' V v,
  good s V v ->
  (forall i c, v = Some i -> ilookup (inodes s) i = Some (mkInode c []) -> ilookup (inodes s') i = Some (mkInode c [])) ->
  good s' V v.
Proof.
  intros s s' V [i|] H K; cbn in *; [destruct H as (c & H1 & H2); exists c; split; auto | auto].
Qed.

Lemma published_ddir : forall t s i, dlookup (ddir s) t = Some i -> published t s i = true.
Proof. intros t s i H; unfold published; rewrite H, N.eqb_refl; apply orb_true_r. Qed.

Lemma published_pend : forall t s e i, In e (pend s) -> name_eqb (fst e) t = true -> snd e = Some i -> published t s i = true.
Proof.
  intros t s e i Hin Hn Hs; unfold published. apply orb_true_iff; left. apply existsb_exists.
  exists e; split; [assumption|]. unfold points_to. rewrite Hn, Hs, N.eqb_refl; reflexivity.
Qed.

Definition op_versions (t : name) (s : st) (o : op) : list (option bytes) :=
  match o with
  | Rename a b => if name_eqb b t then match dlookup (vdir s) a with Some i => [vread s i] | None => [] end else []
  | _ => []
  end.

Lemma versions_cons : forall t s o r, versions t s (o :: r) = op_versions t s o ++ versions t (step s o) r.
Proof. reflexivity. Qed.

Lemma fresh_new : forall s nd, fresh s ->
  fresh (mkSt (vdir s) (ddir s) (pend s) ((next s, nd) :: inodes s) (next s + 1)).
Proof.
  intros s nd F i nd' H; cbn in *. destruct (next s =? i) eqn:E; [apply N.eqb_eq in E; lia | apply F in H; lia].
Qed.

Lemma ilookup_new : forall s i nd c, fresh s -> ilookup (inodes s) i = Some c ->
  ilookup ((next s, nd) :: inodes s) i = Some c.
Proof.
  intros s i nd c F H; cbn. destruct (next s =? i) eqn:E; [apply N.eqb_eq in E; apply F in H; lia | assumption].
Qed.

Lemma in_app1 : forall (A : Type) (l : list A) (x y : A), In y (l ++ [x]) -> In y l \/ y = x.
Proof. intros A l x y H; apply in_app_or in H as [H|[H|[]]]; auto. Qed.

Lemma step_inv : forall t s V o,
  Inv t s V -> op_safe t s o = true -> Inv t (step s o) (V ++ op_versions t s o).
Proof.
  intros t s V o (Hd & Hp & Hf) Hs.
  assert (IV : incl V (V ++ op_versions t s o)) by (apply incl_appl, incl_refl).
  destruct o as [n | i data | i | | a b | d | n | n data]; cbn [op_safe] in Hs.
  - (* Creat *)
    apply negb_true_iff in Hs. cbn [step op_versions]. rewrite app_nil_r.
    split; [|split]; cbn [ddir pend inodes next].
    + eapply good_same; [exact Hd|]. intros i c _ H. apply ilookup_new; assumption.
    + intros e Hin Hn. apply in_app1 in Hin as [Hin | ->]; [|cbn in Hn; congruence].
      eapply good_same; [apply Hp; assumption|]. intros i c _ H. apply ilookup_new; assumption.
    + apply (fresh_new s (mkInode [] [])); assumption.
  - (* Write *)
    apply negb_true_iff in Hs. cbn [step op_versions]. rewrite app_nil_r.
    destruct (ilookup (inodes s) i) as [nd|] eqn:Ei; [|split; [|split]; assumption].
    unfold upd_inode; split; [|split]; cbn [ddir pend inodes next].
    + eapply good_same; [exact Hd|]. intros j c Hj H. cbn.
      destruct (i =? j) eqn:E; [|assumption]. apply N.eqb_eq in E; subst j.
      rewrite (published_ddir t s i Hj) in Hs; discriminate.
    + intros e Hin Hn. eapply good_same; [apply Hp; assumption|]. intros j c Hj H. cbn.
      destruct (i =? j) eqn:E; [|assumption]. apply N.eqb_eq in E; subst j.
      rewrite (published_pend t s e i Hin Hn Hj) in Hs; discriminate.
    + intros j nd' H; cbn in H. destruct (i =? j) eqn:E; [apply N.eqb_eq in E; subst j; eapply Hf; eassumption | eapply Hf; eassumption].
  - (* Fsync *)
    cbn [step op_versions]. rewrite app_nil_r.
    destruct (ilookup (inodes s) i) as [nd|] eqn:Ei; [|split; [|split]; assumption].
    assert (K : forall j c, ilookup (inodes s) j = Some (mkInode c []) ->
                ilookup ((i, mkInode (synced nd ++ unsynced nd) []) :: inodes s) j = Some (mkInode c [])).
    { intros j c H; cbn. destruct (i =? j) eqn:E; [|assumption]. apply N.eqb_eq in E; subst j.
      rewrite Ei in H; inversion H; subst nd; cbn. rewrite app_nil_r; reflexivity. }
    unfold upd_inode; split; [|split]; cbn [ddir pend inodes next].
    + eapply good_same; [exact Hd|]. intros j c _ H; apply K; assumption.
    + intros e Hin Hn. eapply good_same; [apply Hp; assumption|]. intros j c _ H; apply K; assumption.
    + intros j nd' H; cbn in H. destruct (i =? j) eqn:E; [apply N.eqb_eq in E; subst j; eapply Hf; eassumption | eapply Hf; eassumption].
  - (* Meta *)
    cbn [step op_versions]. rewrite app_nil_r. split; [|split]; assumption.
  - (* Rename *)
    apply andb_true_iff in Hs as [Ha Hb]. apply negb_true_iff in Ha.
    cbn [step op_versions].
    destruct (dlookup (vdir s) a) as [i|] eqn:Ea.
    2:{ destruct (name_eqb b t); rewrite app_nil_r; (split; [|split]); assumption. }
    cbn [op_versions] in IV. rewrite Ea in IV.
    split; [|split]; cbn [ddir pend inodes next].
    + eapply good_incl; [|exact IV]. exact Hd.
    + intros e Hin Hn. apply in_app_or in Hin as [Hin | [<- | [<- | []]]].
      * eapply good_incl; [|exact IV]. apply Hp; assumption.
      * cbn in Hn; congruence.
      * cbn in Hn. rewrite Hn in Hb |- *. cbn [snd good]. unfold clean in Hb.
        destruct (ilookup (inodes s) i) as [nd|] eqn:Ei; [|discriminate].
        destruct nd as [c u]; cbn in Hb. destruct u; [|discriminate].
        exists c; split; [cbn [inodes]; exact Ei|]. apply in_or_app; right. unfold vread; rewrite Ei; cbn. rewrite app_nil_r; left; reflexivity.
    + assumption.
  - (* FsyncDir *)
    cbn [step op_versions]. rewrite app_nil_r. split; [|split]; cbn [ddir pend inodes next].
    + rewrite dlookup_rev_app.
      destruct (lookup_pend_cases (filter (in_dir d) (pend s)) (dlookup (ddir s) t) t) as [H | (e & Hin & Hn & Hsn)].
      * rewrite H; exact Hd.
      * rewrite <- Hsn. apply filter_In in Hin as [Hin _]. apply Hp; assumption.
    + intros e Hin Hn. apply filter_In in Hin as [Hin _]. apply Hp; assumption.
    + assumption.
  - (* Unlink *)
    apply negb_true_iff in Hs. cbn [step op_versions]. rewrite app_nil_r.
    split; [|split]; cbn [ddir pend inodes next]; [assumption | | assumption].
    intros e Hin Hn. apply in_app1 in Hin as [Hin | ->]; [apply Hp; assumption | cbn in Hn; congruence].
  - (* Symlink *)
    apply negb_true_iff in Hs. cbn [step op_versions]. rewrite app_nil_r.
    split; [|split]; cbn [ddir pend inodes next].
    + eapply good_same; [exact Hd|]. intros i c _ H. apply ilookup_new; assumption.
    + intros e Hin Hn. apply in_app1 in Hin as [Hin | ->]; [|cbn in Hn; congruence].
      eapply good_same; [apply Hp; assumption|]. intros i c _ H. apply ilookup_new; assumption.
    + apply (fresh_new s (mkInode data [])); assumption.
Qed.

Lemma safe_from_app : forall t a s b, safe_from t s (a ++ b) = safe_from t s a && safe_from t (run s a) b.
Proof.
  intros t; induction a as [|o a IH]; intros s b; [reflexivity|].
  cbn [app safe_from run fold_left]. fold (run (step s o) a). rewrite IH, andb_assoc; reflexivity.
Qed.

Lemma versions_app : forall t a s b, versions t s (a ++ b) = versions t s a ++ versions t (run s a) b.
Proof.
  intros t; induction a as [|o a IH]; intros s b; [reflexivity|].
  cbn [app run fold_left]. fold (run (step s o) a). rewrite !versions_cons, IH, app_assoc; reflexivity.
Qed.

Lemma run_app : forall a b s, run s (a ++ b) = run (run s a) b.
Proof. intros; unfold run; apply fold_left_app. Qed.

Lemma run_inv : forall t p s V, Inv t s V -> safe_from t s p = true -> Inv t (run s p) (V ++ versions t s p).
Proof.
  intros t; induction p as [|o p IH]; intros s V HI HS.
  - cbn. rewrite app_nil_r; assumption.
  - cbn [safe_from] in HS. apply andb_true_iff in HS as [H1 H2].
    cbn [run fold_left]. fold (run (step s o) p). rewrite versions_cons, app_assoc.
    apply IH; [apply step_inv; assumption | assumption].
Qed.

Lemma inv_crash : forall t s V keep cut, Inv t s V -> In (crash_read s keep cut t) V.
Proof.
  intros t s V keep cut (Hd & Hp & _). unfold crash_read, crash_dir. rewrite dlookup_rev_app.
  assert (G : good s V (lookup_pend (kept keep (pend s)) (dlookup (ddir s) t) t)).
  { destruct (lookup_pend_cases (kept keep (pend s)) (dlookup (ddir s) t) t) as [H | (e & Hin & Hn & Hsn)].
    - rewrite H; exact Hd.
    - rewrite <- Hsn. apply Hp; [eapply kept_incl; eassumption | assumption]. }
  destruct (lookup_pend (kept keep (pend s)) (dlookup (ddir s) t) t) as [i|]; cbn in G; [|assumption].
  destruct G as (c & H1 & H2). rewrite H1. cbn. rewrite firstn_nil, app_nil_r. assumption.
Qed.

Lemma init_inv : forall t s old, init_ok t s old -> Inv t s [old].
Proof. intros t s old (Hp & Hd & Hf). split; [|split]; [assumption | rewrite Hp; intros e [] | assumption]. Qed.

(* MAIN 1: atomicity. For every trace that respects the discipline, at every point of the trace and for every crash
   scenario the target shows the complete old content or a complete content that was renamed onto it so far. *)
Theorem shape_safe : forall (t : name) (s0 : st) (old : option bytes) (tr : list op),
  init_ok t s0 old -> safe_from t s0 tr = true ->
  forall p q, tr = p ++ q ->
  forall keep cut, In (crash_read (run s0 p) keep cut t) (old :: versions t s0 p).
Proof.
  intros t s0 old tr HI HS p q -> keep cut. rewrite safe_from_app in HS. apply andb_true_iff in HS as [HS _].
  apply (inv_crash t (run s0 p) ([old] ++ versions t s0 p)). apply run_inv; [apply init_inv; assumption | assumption].
Qed.

(* ------------------------------------------------------------------ durability *)
Definition flushed_view (t : name) (s : st) : option ino := lookup_pend (pend s) (dlookup (ddir s) t) t.

(* if everything pending reached the disk, t would show a synced inode with content c *)
Definition PV (t : name) (s : st) (c : bytes) : Prop :=
  exists i, flushed_view t s = Some i /\ ilookup (inodes s) i = Some (mkInode c []).
(* no pending update concerns t *)
Definition QV (t : name) (s : st) : Prop := forall e, In e (pend s) -> name_eqb (fst e) t = false.

Lemma flushed_published : forall t s i, flushed_view t s = Some i -> published t s i = true.
Proof.
  intros t s i H; unfold flushed_view in H.
  destruct (lookup_pend_cases (pend s) (dlookup (ddir s) t) t) as [E | (e & Hin & Hn & Hsn)].
  - rewrite E in H. apply published_ddir; assumption.
  - rewrite H in Hsn. eapply published_pend; eassumption.
Qed.

Lemma flushed_snoc_other : forall t s e P', name_eqb (fst e) t = false ->
  lookup_pend (pend s ++ e :: P') (dlookup (ddir s) t) t = lookup_pend P' (flushed_view t s) t.
Proof. intros. rewrite lookup_pend_app. cbn [lookup_pend fold_left]. rewrite H. reflexivity. Qed.

Lemma in_dir_name : forall d e t, name_eqb (fst e) t = true -> in_dir d e = (fst t =? d).
Proof. intros d e t H; apply name_eqb_eq in H; unfold in_dir; rewrite H; reflexivity. Qed.

Lemma flushed_fsyncdir : forall t s d, flushed_view t (step s (FsyncDir d)) = flushed_view t s.
Proof.
  intros t s d; unfold flushed_view; cbn [step pend ddir]. rewrite dlookup_rev_app.
  destruct (fst t =? d) eqn:E.
  - rewrite lookup_pend_filter_none by (intros e H; rewrite (in_dir_name d e t H), E; reflexivity).
    apply lookup_pend_filter. intros e H; rewrite (in_dir_name d e t H), E; reflexivity.
  - rewrite (lookup_pend_filter_none (in_dir d)) by (intros e H; rewrite (in_dir_name d e t H), E; reflexivity).
    apply lookup_pend_filter. intros e H; rewrite (in_dir_name d e t H), E; reflexivity.
Qed.

Lemma pv_step : forall t s c o,
  PV t s c -> fresh s -> op_safe t s o = true -> is_rename_onto t o = false ->
  PV t (step s o) c /\ fresh (step s o) /\
  (QV t s -> QV t (step s o)) /\ (is_fsyncdir (fst t) o = true -> QV t (step s o)).
Proof.
  intros t s c o (i & Hv & Hi) Hf Hs Hr.
  destruct o as [n | j data | j | | a b | d | n | n data]; cbn [op_safe is_rename_onto is_fsyncdir] in *.
  - apply negb_true_iff in Hs. cbn [step]. split; [|split; [|split]].
    + exists i; unfold flushed_view; cbn [pend ddir inodes]. split.
      * rewrite flushed_snoc_other by exact Hs. exact Hv.
      * apply ilookup_new; assumption.
    + apply (fresh_new s (mkInode [] [])); assumption.
    + intros Q e Hin; cbn [pend] in Hin. apply in_app1 in Hin as [Hin | ->]; [apply Q; assumption | exact Hs].
    + discriminate.
  - apply negb_true_iff in Hs. cbn [step].
    destruct (ilookup (inodes s) j) as [nd|] eqn:Ej; [|split; [exists i; auto | split; [assumption | split; [auto | discriminate]]]].
    assert (i <> j) by (intros ->; rewrite (flushed_published t s j Hv) in Hs; discriminate).
    split; [|split; [|split]].
    + exists i; split; [exact Hv|]. cbn. destruct (j =? i) eqn:E; [apply N.eqb_eq in E; congruence | assumption].
    + intros k nd' H'; cbn in H'. destruct (j =? k) eqn:E; [apply N.eqb_eq in E; subst k; eapply Hf; eassumption | eapply Hf; eassumption].
    + auto.
    + discriminate.
  - cbn [step].
    destruct (ilookup (inodes s) j) as [nd|] eqn:Ej; [|split; [exists i; auto | split; [assumption | split; [auto | discriminate]]]].
    split; [|split; [|split]].
    + exists i; split; [exact Hv|]. cbn. destruct (j =? i) eqn:E; [|assumption].
      apply N.eqb_eq in E; subst j. rewrite Ej in Hi; inversion Hi; subst nd; cbn. rewrite app_nil_r; reflexivity.
    + intros k nd' H'; cbn in H'. destruct (j =? k) eqn:E; [apply N.eqb_eq in E; subst k; eapply Hf; eassumption | eapply Hf; eassumption].
    + auto.
    + discriminate.
  - cbn [step]. split; [exists i; auto | split; [assumption | split; [auto | discriminate]]].
  - apply andb_true_iff in Hs as [Ha _]. apply negb_true_iff in Ha. cbn [step].
    destruct (dlookup (vdir s) a) as [k|] eqn:Ea; [|split; [exists i; auto | split; [assumption | split; [auto | discriminate]]]].
    split; [|split; [|split]].
    + exists i; unfold flushed_view; cbn [pend ddir inodes]. split; [|assumption].
      rewrite flushed_snoc_other by exact Ha. cbn [lookup_pend fold_left fst snd]. rewrite Hr. exact Hv.
    + assumption.
    + intros Q e Hin; cbn [pend] in Hin. apply in_app_or in Hin as [Hin | [<- | [<- | []]]]; [apply Q; assumption | exact Ha | exact Hr].
    + discriminate.
  - split; [|split; [|split]].
    + exists i; split; [rewrite flushed_fsyncdir; exact Hv | exact Hi].
    + exact Hf.
    + intros Q e Hin; cbn [step pend] in Hin. apply filter_In in Hin as [Hin _]. apply Q; assumption.
    + intros E e Hin; cbn [step pend] in Hin. apply filter_In in Hin as [Hin Hn]. apply N.eqb_eq in E.
      destruct (name_eqb (fst e) t) eqn:En; [|reflexivity].
      rewrite (in_dir_name d e t En) in Hn. apply negb_true_iff in Hn. apply N.eqb_neq in Hn. congruence.
  - apply negb_true_iff in Hs. cbn [step]. split; [|split; [|split]].
    + exists i; unfold flushed_view; cbn [pend ddir inodes]. split; [|assumption].
      rewrite flushed_snoc_other by exact Hs. exact Hv.
    + assumption.
    + intros Q e Hin; cbn [pend] in Hin. apply in_app1 in Hin as [Hin | ->]; [apply Q; assumption | exact Hs].
    + discriminate.
  - apply negb_true_iff in Hs. cbn [step]. split; [|split; [|split]].
    + exists i; unfold flushed_view; cbn [pend ddir inodes]. split.
      * rewrite flushed_snoc_other by exact Hs. exact Hv.
      * apply ilookup_new; assumption.
    + apply (fresh_new s (mkInode data [])); assumption.
    + intros Q e Hin; cbn [pend] in Hin. apply in_app1 in Hin as [Hin | ->]; [apply Q; assumption | exact Hs].
    + discriminate.
Qed.

Lemma pv_run : forall t c q s,
  PV t s c -> fresh s -> safe_from t s q = true -> existsb (is_rename_onto t) q = false ->
  (QV t s \/ existsb (is_fsyncdir (fst t)) q = true) ->
  PV t (run s q) c /\ QV t (run s q).
Proof.
  intros t c; induction q as [|o q IH]; intros s HP HF HS HR HQ.
  - cbn in *. destruct HQ as [HQ|HQ]; [auto | discriminate].
  - cbn [safe_from existsb] in *. apply andb_true_iff in HS as [S1 S2]. apply orb_false_iff in HR as [R1 R2].
    destruct (pv_step t s c o HP HF S1 R1) as (P' & F' & Q1 & Q2).
    cbn [run fold_left]. fold (run (step s o) q). apply IH; try assumption.
    destruct HQ as [HQ|HQ]; [left; auto|]. apply orb_true_iff in HQ as [HQ|HQ]; [left; auto | right; assumption].
Qed.

Lemma settled_crash : forall t s c keep cut, PV t s c -> QV t s -> crash_read s keep cut t = Some c.
Proof.
  intros t s c keep cut (i & Hv & Hi) Q. unfold crash_read, crash_dir. rewrite dlookup_rev_app.
  rewrite lookup_pend_none by (intros e Hin; apply Q; eapply kept_incl; eassumption).
  unfold flushed_view in Hv. rewrite lookup_pend_none in Hv by exact Q. rewrite Hv, Hi. cbn.
  rewrite firstn_nil, app_nil_r; reflexivity.
Qed.

(* MAIN 2: durability. Once the directory of the target has been fsynced after the last rename onto the target, every
   crash scenario shows exactly the content that rename published. *)
Theorem success_is_durable : forall (t : name) (s0 : st) (old : option bytes) (p q : list op) (a : name) (i : ino),
  init_ok t s0 old ->
  safe_from t s0 (p ++ Rename a t :: q) = true ->
  dlookup (vdir (run s0 p)) a = Some i ->
  existsb (is_rename_onto t) q = false ->
  existsb (is_fsyncdir (fst t)) q = true ->
  forall keep cut, crash_read (run s0 (p ++ Rename a t :: q)) keep cut t = vread (run s0 p) i.
Proof.
  intros t s0 old p q a i HI HS Ha HR HD keep cut.
  rewrite safe_from_app in HS. apply andb_true_iff in HS as [S1 S2].
  pose proof (run_inv t p s0 [old] (init_inv t s0 old HI) S1) as (_ & _ & HF).
  cbn [safe_from] in S2. apply andb_true_iff in S2 as [S2 S3].
  rewrite run_app. cbn [run fold_left]. fold (run (step (run s0 p) (Rename a t)) q).
  set (s1 := run s0 p) in *.
  cbn [op_safe] in S2. apply andb_true_iff in S2 as [Sa Sb]. apply negb_true_iff in Sa.
  rewrite name_eqb_refl, Ha in Sb. unfold clean in Sb.
  destruct (ilookup (inodes s1) i) as [[c u]|] eqn:Ei; [|discriminate]. cbn in Sb. destruct u; [|discriminate].
  unfold vread; rewrite Ei; cbn [option_map synced unsynced]. rewrite app_nil_r.
  assert (P1 : PV t (step s1 (Rename a t)) c).
  { exists i. cbn [step]. rewrite Ha. unfold flushed_view; cbn [pend ddir inodes]. split; [|assumption].
    rewrite lookup_pend_app. cbn [lookup_pend fold_left fst snd]. rewrite Sa, name_eqb_refl. reflexivity. }
  assert (F1 : fresh (step s1 (Rename a t))) by (cbn [step]; rewrite Ha; exact HF).
  destruct (pv_run t c q _ P1 F1 S3 HR (or_intror HD)) as (P2 & Q2).
  apply settled_crash; assumption.
Qed.

(* ------------------------------------------------------------------ the enumeration used by the monitor is complete *)
Fixpoint norm (k : list bool) (n : nat) : list bool :=
  match n with
  | O => []
  | S m => match k with [] => false :: norm [] m | b :: r => b :: norm r m end
  end.

Lemma kept_nil : forall P, kept [] P = [].
Proof. destruct P; reflexivity. Qed.

Lemma kept_norm : forall P k, kept k P = kept (norm k (length P)) P.
Proof.
  induction P as [|e P IH]; intros k; [destruct k; reflexivity|].
  destruct k as [|[|] k]; cbn [length norm kept].
  - rewrite <- IH, kept_nil; reflexivity.
  - rewrite <- IH; reflexivity.
  - rewrite <- IH; reflexivity.
Qed.

Lemma norm_in : forall n k, In (norm k n) (all_keeps n).
Proof.
  induction n as [|n IH]; intros k; [left; reflexivity|].
  cbn [all_keeps]. apply in_flat_map.
  destruct k as [|b r]; cbn [norm].
  - exists (norm [] n); split; [apply IH | right; left; reflexivity].
  - exists (norm r n); split; [apply IH | destruct b; [left | right; left]; reflexivity].
Qed.

Lemma firstn_prefixes : forall (l : bytes) k, In (firstn k l) (prefixes l).
Proof.
  induction l as [|x l IH]; intros k.
  - rewrite firstn_nil; left; reflexivity.
  - destruct k; cbn [firstn prefixes]; [left; reflexivity | right; apply in_map; apply IH].
Qed.

Theorem crash_reads_complete : forall s keep cut n, In (crash_read s keep cut n) (crash_reads s n).
Proof.
  intros s keep cut n. unfold crash_reads. apply in_flat_map.
  exists (norm keep (length (pend s))); split; [apply norm_in|].
  unfold crash_read, crash_dir. rewrite <- kept_norm.
  destruct (dlookup (rev (kept keep (pend s)) ++ ddir s) n) as [i|]; [|left; reflexivity].
  destruct (ilookup (inodes s) i) as [nd|]; [|left; reflexivity].
  apply (in_map (fun p => Some (synced nd ++ p))). apply firstn_prefixes.
Qed.

(* hence: when the monitor's exhaustive check passes in a state, every crash scenario is fine *)
Lemma obytes_eqb_eq : forall a b, obytes_eqb a b = true -> a = b.
Proof.
  assert (B : forall x y, beq x y = true -> x = y).
  { induction x as [|a x IH]; destruct y as [|b y]; cbn; try discriminate; auto.
    intros H; apply andb_true_iff in H as [H1 H2]. apply N.eqb_eq in H1; subst. f_equal; auto. }
  intros [a|] [b|]; cbn; try discriminate; auto. intros H; f_equal; auto.
Qed.

Theorem crash_ok_sound : forall s t allowed, crash_ok s t allowed = true ->
  forall keep cut, In (crash_read s keep cut t) allowed.
Proof.
  intros s t allowed H keep cut. unfold crash_ok in H. rewrite forallb_forall in H.
  specialize (H _ (crash_reads_complete s keep cut t)). apply existsb_exists in H as (x & Hin & He).
  apply obytes_eqb_eq in He; subst; assumption.
Qed.

(* ------------------------------------------------------------------ AtomicFile.Commit as the source has it now *)
Lemma published_upd : forall t s j nd i, published t (upd_inode s j nd) i = published t s i.
Proof. reflexivity. Qed.

(* Commit of a temp file tmp (inode i, whatever has been written to it), with snapdUnsafeIO false:
   the operation list derived from the generated call order respects the discipline, publishes exactly the file's
   content, and ends with the directory fsync *)
Theorem commit_safe_shape : forall (t tmp : name) (s : st) (i : ino) (nd : inode) (ch mt : bool),
  name_eqb tmp t = false ->
  dlookup (vdir s) tmp = Some i ->
  ilookup (inodes s) i = Some nd ->
  let tr := commit_ops (mkCfg false ch mt) i tmp t in
  safe_from t s tr = true /\
  versions t s tr = [Some (synced nd ++ unsynced nd)] /\
  exists p, tr = p ++ [Rename tmp t; FsyncDir (fst t)] /\ dlookup (vdir (run s p)) tmp = Some i /\
            vread (run s p) i = Some (synced nd ++ unsynced nd).
Proof.
  intros t tmp s i nd ch mt Hn Hv Hi.
  assert (Hn' : tmp <> t) by (apply name_eqb_neq; assumption).
  destruct ch, mt; cbv [commit_ops commit_calls flat_map guard_on unsafe_io do_chown do_mtime negb fst snd commit_call_ops app];
    cbn [safe_from op_safe versions step andb]; rewrite ?Hi; unfold upd_inode; cbn [vdir inodes andb];
    rewrite ?Hn, ?name_eqb_refl, ?Hv; cbn [negb andb]; unfold clean; cbn [ilookup inodes]; rewrite ?N.eqb_refl; cbn [unsynced is_nil_b];
    (split; [reflexivity|]); (split; [unfold vread; cbn [ilookup inodes]; rewrite ?N.eqb_refl; cbn; rewrite ?app_nil_r; reflexivity|]).
  all: match goal with |- exists p, ?tr = _ /\ _ => exists (removelast (removelast tr)) end;
    cbn [removelast]; (split; [reflexivity|]); cbn [run fold_left step]; rewrite ?Hi; unfold upd_inode, vread;
    cbn [vdir inodes ilookup]; rewrite ?N.eqb_refl; cbn; rewrite ?app_nil_r; auto.
Qed.

(* ------------------------------------------------------------------ AtomicWriteChown / AtomicWriteFile / AtomicWrite *)
Lemma write_ops_eq : forall c i tmp t chunks,
  write_ops c i tmp t chunks = Creat tmp :: map (Write i) chunks ++ commit_ops c i tmp t.
Proof. intros; cbv [write_ops write_calls flat_map snd]. rewrite app_nil_r; reflexivity. Qed.

Lemma run_writes : forall i chunks s c u,
  ilookup (inodes s) i = Some (mkInode c u) ->
  let s' := run s (map (Write i) chunks) in
  vdir s' = vdir s /\ ddir s' = ddir s /\ pend s' = pend s /\ next s' = next s /\
  ilookup (inodes s') i = Some (mkInode c (u ++ concat chunks)).
Proof.
  intros i; induction chunks as [|d chunks IH]; intros s c u H; cbv zeta; cbn [map run fold_left concat].
  - rewrite app_nil_r; auto.
  - fold (run (step s (Write i d)) (map (Write i) chunks)).
    assert (St : step s (Write i d) = upd_inode s i (mkInode c (u ++ d))) by (cbn [step]; rewrite H; reflexivity).
    rewrite St.
    assert (H' : ilookup (inodes (upd_inode s i (mkInode c (u ++ d)))) i = Some (mkInode c (u ++ d))).
    { cbn. rewrite N.eqb_refl; reflexivity. }
    destruct (IH _ _ _ H') as (A & B & C & D & E).
    rewrite A, B, C, D, E, <- app_assoc. cbn. auto.
Qed.

Lemma published_write : forall t s i d j, published t (step s (Write i d)) j = published t s j.
Proof. intros; cbn [step]; destruct (ilookup (inodes s) i); reflexivity. Qed.

Lemma safe_writes : forall t i chunks s, published t s i = false -> safe_from t s (map (Write i) chunks) = true.
Proof.
  intros t i; induction chunks as [|d chunks IH]; intros s H; [reflexivity|].
  cbn [map safe_from op_safe]. rewrite H; cbn [negb andb]. apply IH. rewrite published_write; assumption.
Qed.

Lemma versions_writes : forall t i chunks s, versions t s (map (Write i) chunks) = [].
Proof. intros t i; induction chunks as [|d chunks IH]; intros s; [reflexivity | cbn [map versions app]; apply IH]. Qed.

(* MAIN 3: the operation list of AtomicWriteChown built from the generated call order, with snapdUnsafeIO false, for
   any chunks, any chown/mtime request and any temp name different from the target: it respects the discipline, at
   every crash point the target holds the complete old or the complete new content, and once it has returned only
   the new content. *)
Theorem atomic_write_safe : forall (t tmp : name) (s0 : st) (old : option bytes) (chunks : list bytes) (ch mt : bool),
  init_ok t s0 old -> name_eqb tmp t = false ->
  let tr := write_ops (mkCfg false ch mt) (next s0) tmp t chunks in
  safe_from t s0 tr = true /\
  versions t s0 tr = [Some (concat chunks)] /\
  (forall p q, tr = p ++ q -> forall keep cut, In (crash_read (run s0 p) keep cut t) [old; Some (concat chunks)]) /\
  (forall keep cut, crash_read (run s0 tr) keep cut t = Some (concat chunks)).
Proof.
  intros t tmp s0 old chunks ch mt HI Hn tr.
  pose proof HI as (Hp0 & Hd0 & Hf0).
  set (i := next s0) in *.
  set (s1 := step s0 (Creat tmp)).
  assert (E1 : ilookup (inodes s1) i = Some (mkInode [] [])) by (cbn; unfold i; rewrite N.eqb_refl; reflexivity).
  destruct (run_writes i chunks s1 [] [] E1) as (Av & Ad & Ap & An & Ai). cbn [app] in Ai.
  set (s2 := run s1 (map (Write i) chunks)) in *.
  assert (Hv2 : dlookup (vdir s2) tmp = Some i) by (rewrite Av; cbn; rewrite name_eqb_refl; reflexivity).
  destruct (commit_safe_shape t tmp s2 i _ ch mt Hn Hv2 Ai) as (C1 & C2 & pc & C3 & C4 & C5). cbn [synced unsynced app] in C2, C5.
  assert (Pub : published t s1 i = false).
  { unfold published; cbn [s1 step pend ddir]. rewrite Hp0; cbn [app existsb]. unfold points_to; cbn [fst snd]. rewrite Hn; cbn [andb orb].
    destruct (dlookup (ddir s0) t) as [j|] eqn:Ej; [|reflexivity]. cbn in Hd0. destruct Hd0 as (c & Hc & _).
    apply Hf0 in Hc. apply N.eqb_neq. unfold i; lia. }
  assert (TR : tr = Creat tmp :: map (Write i) chunks ++ commit_ops (mkCfg false ch mt) i tmp t) by apply write_ops_eq.
  assert (S : safe_from t s0 tr = true).
  { rewrite TR. cbn [safe_from op_safe]. rewrite Hn; cbn [negb andb]. fold s1. rewrite safe_from_app.
    rewrite safe_writes by exact Pub. exact C1. }
  assert (Vs : versions t s0 tr = [Some (concat chunks)]).
  { rewrite TR. rewrite versions_cons; cbn [op_versions app]. fold s1. rewrite versions_app, versions_writes. exact C2. }
  split; [exact S | split; [exact Vs | split]].
  - intros p q Hpq keep cut.
    pose proof (shape_safe t s0 old tr HI S p q Hpq keep cut) as H.
    destruct H as [H|H]; [left; exact H|]. right.
    assert (I : In (crash_read (run s0 p) keep cut t) (versions t s0 tr)) by (rewrite Hpq, versions_app; apply in_or_app; left; exact H).
    rewrite Vs in I. exact I.
  - intros keep cut.
    assert (TR2 : tr = (Creat tmp :: map (Write i) chunks ++ pc) ++ Rename tmp t :: [FsyncDir (fst t)]).
    { rewrite TR, C3. cbn [app]. rewrite <- app_assoc. reflexivity. }
    assert (R : run s0 (Creat tmp :: map (Write i) chunks ++ pc) = run s2 pc).
    { cbn [run fold_left]. fold s1. fold (run s1 (map (Write i) chunks ++ pc)). rewrite run_app. reflexivity. }
    rewrite TR2.
    rewrite (success_is_durable t s0 old (Creat tmp :: map (Write i) chunks ++ pc) [FsyncDir (fst t)] tmp i HI).
    + rewrite R. exact C5.
    + rewrite <- TR2. exact S.
    + rewrite R. exact C4.
    + reflexivity.
    + cbn. rewrite N.eqb_refl. reflexivity.
Qed.

(* the hypotheses are satisfiable, and without the file fsync (what snapdUnsafeIO = true would do) the same call
   order is NOT crash safe: a torn file can appear under the target name *)
Definition ex_t : name := (0, 0).
Definition ex_tmp : name := (0, 1).
Definition ex_s0 : st := init_st [(ex_t, [111; 108; 100])].
Definition ex_chunks : list bytes := [[110; 101]; [119; 33]].

Lemma ex_init_ok : init_ok ex_t ex_s0 (Some [111; 108; 100]).
Proof.
  split; [reflexivity | split].
  - cbn. exists [111; 108; 100]. split; [reflexivity | left; reflexivity].
  - intros i nd H. destruct i as [|q]; [cbv; reflexivity | cbn in H; discriminate].
Qed.

Theorem no_fsync_torn : exists p q keep cut,
  write_ops (mkCfg true false false) (next ex_s0) ex_tmp ex_t ex_chunks = p ++ q /\
  crash_read (run ex_s0 p) keep cut ex_t = Some [110].
Proof.
  exists [Creat ex_tmp; Write 1 [110; 101]; Write 1 [119; 33]; Meta; Rename ex_tmp ex_t], [].
  exists [false; false; true], (fun _ => 1%nat). split; vm_compute; reflexivity.
Qed.

(* AtomicRename (and so AtomicSymlink's second half) with snapdUnsafeIO false: renaming a fully synced file onto the
   target respects the discipline and is followed by the fsync of the target's directory *)
Theorem atomic_rename_safe : forall (t a : name) (s : st) (i : ino),
  name_eqb a t = false -> dlookup (vdir s) a = Some i -> clean s i = true ->
  let tr := rename_ops (mkCfg false false false) a t in
  safe_from t s tr = true /\
  exists q, tr = Rename a t :: q /\ existsb (is_fsyncdir (fst t)) q = true /\ existsb (is_rename_onto t) q = false.
Proof.
  intros t a s i Hn Ha Hc.
  cbv [rename_ops rename_calls flat_map guard_on unsafe_io negb fst snd app andb].
  destruct a as [a1 a2], t as [t1 t2]. cbn [fst snd] in *.
  destruct (a1 =? t1) eqn:E; cbn [negb app safe_from op_safe andb step]; rewrite ?Hn, ?name_eqb_refl, ?Ha, ?Hc; cbn [negb andb].
  - split; [reflexivity|]. eexists; split; [reflexivity|]. cbn [existsb is_fsyncdir is_rename_onto fst]. rewrite E. split; reflexivity.
  - split; [reflexivity|]. eexists; split; [reflexivity|]. cbn [existsb is_fsyncdir is_rename_onto fst]. rewrite N.eqb_refl, orb_true_r. split; reflexivity.
Qed.

(* facts the translator checked on the source just now (it exits non-zero when one fails) *)
Lemma source_shape_facts :
  checkpoint_is_atomic_write_file = true /\ write_file_is_write_chown = true /\ commit_is_commit = true /\
  tmp_is_target_plus_suffix_excl = true /\ unsafe_io_needs_test_binary = true.
Proof. repeat split. Qed.

(* ------------------------------------------------------------------ error exits of commit *)
Lemma commit_ops_f_all : forall c i tmp t k, (length (active_commit_calls c) <= k)%nat ->
  commit_ops_f c i tmp t k = commit_ops c i tmp t.
Proof.
  intros c i tmp t k H. unfold commit_ops_f. rewrite firstn_all2 by exact H.
  assert (E : Nat.ltb k (length (active_commit_calls c)) = false) by (apply Nat.ltb_ge; exact H).
  rewrite E, app_nil_r. unfold commit_ops, active_commit_calls.
  induction commit_calls as [|gc l IH]; [reflexivity|]. cbn [filter flat_map].
  destruct (guard_on c false (fst gc)); cbn [flat_map]; rewrite IH; reflexivity.
Qed.

(* Every error exit of commit (with snapdUnsafeIO false): whichever call fails, the operations performed up to there
   plus the caller's clean-up respect the discipline; nothing is published unless the rename itself had succeeded
   (only the final directory fsync can fail after it), in which case what is published is the complete content. *)
Theorem commit_error_exits : forall (t tmp : name) (s : st) (i : ino) (nd : inode) (ch mt : bool) (k : nat),
  name_eqb tmp t = false -> dlookup (vdir s) tmp = Some i -> ilookup (inodes s) i = Some nd ->
  let tr := commit_ops_f (mkCfg false ch mt) i tmp t k in
  safe_from t s tr = true /\
  (versions t s tr = [] \/ versions t s tr = [Some (synced nd ++ unsynced nd)]) /\
  (existsb (is_rename_onto t) tr = false -> versions t s tr = []).
Proof.
  intros t tmp s i nd ch mt k Hn Hv Hi tr.
  destruct (le_lt_dec (length (active_commit_calls (mkCfg false ch mt))) k) as [L|L].
  - unfold tr. rewrite (commit_ops_f_all _ i tmp t k L).
    destruct (commit_safe_shape t tmp s i nd ch mt Hn Hv Hi) as (A & B & p & C & _). cbv zeta in A, B, C.
    split; [exact A|]. split; [right; exact B|]. intros E. rewrite C in E.
    rewrite existsb_app in E. cbn [existsb is_rename_onto] in E. rewrite name_eqb_refl in E.
    rewrite orb_true_r in E. discriminate.
  - unfold tr. clear tr.
    destruct ch, mt; cbv [active_commit_calls commit_calls filter guard_on unsafe_io do_chown do_mtime negb fst snd length] in L;
      (assert (K : (k = 0 \/ k = 1 \/ k = 2 \/ k = 3 \/ k = 4 \/ k = 5 \/ k = 6)%nat) by lia);
      destruct K as [-> | [-> | [-> | [-> | [-> | [-> | ->]]]]]]; try (exfalso; lia);
      cbv [commit_ops_f active_commit_calls commit_calls filter firstn flat_map guard_on unsafe_io do_chown do_mtime negb fst snd
           commit_call_ops app length Nat.ltb Nat.leb existsb call_is_rename orb];
      cbn [safe_from op_safe versions step andb]; rewrite ?Hi; unfold upd_inode; cbn [vdir inodes andb pend ddir next];
      rewrite ?Hn, ?name_eqb_refl, ?Hv; cbn [negb andb dlookup]; rewrite ?Hn, ?name_eqb_refl, ?Hv; cbn [negb andb];
      unfold clean; cbn [ilookup inodes]; rewrite ?N.eqb_refl; cbn [unsynced is_nil_b andb];
      (split; [reflexivity|]);
      (split; [try (left; reflexivity); right; unfold vread; cbn [ilookup inodes]; rewrite ?N.eqb_refl; cbn; rewrite ?app_nil_r; reflexivity|]);
      cbn [existsb is_rename_onto orb app]; rewrite ?Hn, ?name_eqb_refl; cbn [orb]; intros E; try discriminate E; reflexivity.
Qed.

Lemma no_rename_in_writes : forall t i chunks, existsb (is_rename_onto t) (map (Write i) chunks) = false.
Proof. intros t i; induction chunks as [|d c IH]; [reflexivity | exact IH]. Qed.

(* AtomicWriteChown with any error exit of commit (k = number of commit calls that succeed before one fails): at every
   crash point the target holds the complete old or the complete new content, and if the rename was not reached the
   target is untouched: complete old content (or still absent) in every crash outcome. *)
Theorem atomic_write_error_exits : forall (t tmp : name) (s0 : st) (old : option bytes) (chunks : list bytes) (ch mt : bool) (k : nat),
  init_ok t s0 old -> name_eqb tmp t = false ->
  let tr := write_ops_f (mkCfg false ch mt) (next s0) tmp t chunks k in
  safe_from t s0 tr = true /\
  (forall p q, tr = p ++ q -> forall keep cut, In (crash_read (run s0 p) keep cut t) [old; Some (concat chunks)]) /\
  (existsb (is_rename_onto t) tr = false ->
   forall p q, tr = p ++ q -> forall keep cut, crash_read (run s0 p) keep cut t = old).
Proof.
  intros t tmp s0 old chunks ch mt k HI Hn tr.
  pose proof HI as (Hp0 & Hd0 & Hf0).
  set (i := next s0) in *.
  set (s1 := step s0 (Creat tmp)).
  assert (E1 : ilookup (inodes s1) i = Some (mkInode [] [])) by (cbn; unfold i; rewrite N.eqb_refl; reflexivity).
  destruct (run_writes i chunks s1 [] [] E1) as (Av & Ad & Ap & An & Ai). cbn [app] in Ai.
  set (s2 := run s1 (map (Write i) chunks)) in *.
  assert (Hv2 : dlookup (vdir s2) tmp = Some i) by (rewrite Av; cbn; rewrite name_eqb_refl; reflexivity).
  destruct (commit_error_exits t tmp s2 i _ ch mt k Hn Hv2 Ai) as (C1 & C2 & C3). cbv zeta in C1, C2, C3. cbn [synced unsynced app] in C2.
  assert (Pub : published t s1 i = false).
  { unfold published; cbn [s1 step pend ddir]. rewrite Hp0; cbn [app existsb]. unfold points_to; cbn [fst snd]. rewrite Hn; cbn [andb orb].
    destruct (dlookup (ddir s0) t) as [j|] eqn:Ej; [|reflexivity]. cbn in Hd0. destruct Hd0 as (c & Hc & _).
    apply Hf0 in Hc. apply N.eqb_neq. unfold i; lia. }
  assert (S : safe_from t s0 tr = true).
  { unfold tr, write_ops_f. cbn [safe_from op_safe]. rewrite Hn; cbn [negb andb]. fold s1. rewrite safe_from_app.
    rewrite safe_writes by exact Pub. exact C1. }
  assert (Vs : versions t s0 tr = versions t s2 (commit_ops_f (mkCfg false ch mt) i tmp t k)).
  { unfold tr, write_ops_f. rewrite versions_cons; cbn [op_versions app]. fold s1. rewrite versions_app, versions_writes. reflexivity. }
  assert (Sub : forall p q, tr = p ++ q -> forall keep cut,
            In (crash_read (run s0 p) keep cut t) (old :: versions t s0 tr)).
  { intros p q Hpq keep cut. pose proof (shape_safe t s0 old tr HI S p q Hpq keep cut) as H.
    destruct H as [H|H]; [left; exact H|right]. rewrite Hpq, versions_app. apply in_or_app; left; exact H. }
  split; [exact S | split].
  - intros p q Hpq keep cut. specialize (Sub p q Hpq keep cut). rewrite Vs in Sub.
    destruct C2 as [C2|C2]; rewrite C2 in Sub; cbn in Sub |- *; tauto.
  - intros NR p q Hpq keep cut. specialize (Sub p q Hpq keep cut). rewrite Vs in Sub.
    assert (NR' : existsb (is_rename_onto t) (commit_ops_f (mkCfg false ch mt) i tmp t k) = false).
    { unfold tr, write_ops_f in NR. cbn [existsb is_rename_onto] in NR. rewrite existsb_app, no_rename_in_writes in NR. exact NR. }
    rewrite (C3 NR') in Sub. destruct Sub as [H|[]]. symmetry; exact H.
Qed.
