(* C38 — proofs about models/Gadget.v. *)
From Coq Require Import List NArith ZArith Bool Lia ZifyBool ZifyN Sorting.Sorted.
Import ListNotations.
Require Import V.models.Gadget.
Open Scope N_scope.

Lemma add64_small : forall a b, a + b < W -> add64 a b = a + b.
Proof. intros a b H. unfold add64. apply N.mod_small. exact H. Qed.

(* a laid-out structure (start, size) ends below 2^64 *)
Definition fits (p : N * N) : Prop := fst p + snd p < W.
(* a ends where b starts, or earlier *)
Definition before (a b : N * N) : Prop := fst a + snd a <= fst b.

(* ------------------------------------------------------------------ quantities *)
Definition two63 : N := 9223372036854775808.

Lemma wrap_i64_range : forall z, (- 9223372036854775808 <= wrap_i64 z < 9223372036854775808)%Z.
Proof.
  intro z. unfold wrap_i64.
  pose proof (Z.mod_pos_bound (z + 9223372036854775808) 18446744073709551616 eq_refl). lia.
Qed.

Lemma wrap_i64_id : forall z, (- 9223372036854775808 <= z < 9223372036854775808)%Z -> wrap_i64 z = z.
Proof. intros z H. unfold wrap_i64. rewrite Z.mod_small by lia. lia. Qed.

Lemma parse_qty_bound : forall q n, parse_qty q = Some n -> n < two63.
Proof.
  intros q n H. unfold parse_qty in H.
  pose proof (wrap_i64_range (q_num q * unit_mult (q_unit q))) as R.
  destruct (wrap_i64 (q_num q * unit_mult (q_unit q)) <? 0)%Z eqn:E; [discriminate|].
  inversion H; subst; clear H. unfold two63. lia.
Qed.

Lemma parse_qty_exact : forall q, (0 <= qty_value q < 9223372036854775808)%Z ->
  parse_qty q = Some (Z.to_N (qty_value q)).
Proof.
  intros q H. unfold parse_qty, qty_value in *. rewrite wrap_i64_id by lia.
  destruct (q_num q * unit_mult (q_unit q) <? 0)%Z eqn:E; [lia | reflexivity].
Qed.

Lemma parse_qty_negative : forall q, (- 9223372036854775808 <= qty_value q < 0)%Z -> parse_qty q = None.
Proof.
  intros q H. unfold parse_qty, qty_value in *. rewrite wrap_i64_id by lia.
  destruct (q_num q * unit_mult (q_unit q) <? 0)%Z eqn:E; [reflexivity | lia].
Qed.

(* ------------------------------------------------------------------ validateCrossVolumeStructure => OnDiskStructsFromGadget is a chain *)
Lemma on_disk_chain : forall f vs l prev,
  validate_cross_from f vs prev l = true -> Forall fits (on_disk_from prev l) ->
  disjoint_incr (on_disk_from prev l) = true /\
  (forall p t, on_disk_from prev l = p :: t -> prev <= fst p).
Proof.
  intros f vs l. induction l as [|s r IH]; intros prev Hv Hf.
  - cbn. split; [reflexivity | intros p t H; discriminate].
  - cbn [validate_cross_from on_disk_from] in *.
    apply andb_prop in Hv. destruct Hv as [_ Hv].
    inversion Hf as [|x xs Hx Hxs]; subst; clear Hf. unfold fits in Hx. cbn [fst snd] in Hx.
    destruct (s_offset s) as [o|] eqn:Eo.
    + apply andb_prop in Hv. destruct Hv as [Hge Hv].
      rewrite (add64_small _ _ Hx) in *.
      destruct (IH _ Hv Hxs) as [Hd Hh].
      split.
      * cbn [disjoint_incr]. destruct (on_disk_from (o + s_size s) r) as [|[s2 z2] t] eqn:Er; [reflexivity|].
        specialize (Hh _ _ eq_refl). cbn [fst] in Hh. rewrite Hd.
        destruct (N.leb_spec (o + s_size s) s2); [reflexivity | lia].
      * intros p t H. inversion H; subst. cbn [fst]. lia.
    + rewrite (add64_small _ _ Hx) in *.
      destruct (IH _ Hv Hxs) as [Hd Hh].
      split.
      * cbn [disjoint_incr]. destruct (on_disk_from (prev + s_size s) r) as [|[s2 z2] t] eqn:Er; [reflexivity|].
        specialize (Hh _ _ eq_refl). cbn [fst] in Hh. rewrite Hd.
        destruct (N.leb_spec (prev + s_size s) s2); [reflexivity | lia].
      * intros p t H. inversion H; subst. cbn [fst]. lia.
Qed.

Lemma disjoint_incr_head : forall l a, disjoint_incr (a :: l) = true -> Forall (before a) l.
Proof.
  induction l as [|b t IH]; intros a H; [constructor|].
  destruct a as [s1 z1], b as [s2 z2].
  change (disjoint_incr ((s1, z1) :: (s2, z2) :: t)) with ((s1 + z1 <=? s2) && disjoint_incr ((s2, z2) :: t)) in H.
  apply andb_prop in H. destruct H as [H1 H2].
  assert (Hb : before (s1, z1) (s2, z2)) by (unfold before; cbn; lia).
  constructor; [exact Hb|].
  specialize (IH _ H2). eapply Forall_impl; [|exact IH].
  intros c Hc. unfold before in *. cbn [fst snd] in *. lia.
Qed.

Lemma disjoint_incr_tail : forall l a, disjoint_incr (a :: l) = true -> disjoint_incr l = true.
Proof.
  intros l a H. destruct a as [s1 z1]. destruct l as [|[s2 z2] t]; [reflexivity|].
  change (disjoint_incr ((s1, z1) :: (s2, z2) :: t)) with ((s1 + z1 <=? s2) && disjoint_incr ((s2, z2) :: t)) in H.
  apply andb_prop in H. tauto.
Qed.

Lemma disjoint_incr_sorted : forall l, disjoint_incr l = true -> StronglySorted before l.
Proof.
  induction l as [|a t IH]; intro H; [constructor|].
  constructor; [apply IH; eapply disjoint_incr_tail; eauto | apply disjoint_incr_head; exact H].
Qed.

Lemma sorted_disjoint_incr : forall l, StronglySorted before l -> disjoint_incr l = true.
Proof.
  induction l as [|[s1 z1] t IH]; intro H; [reflexivity|].
  inversion H as [|x xs Hs Hf]; subst. cbn [disjoint_incr]. destruct t as [|[s2 z2] t']; [reflexivity|].
  rewrite (IH Hs). inversion Hf as [|y ys Hb _]; subst. unfold before in Hb. cbn [fst snd] in Hb.
  destruct (N.leb_spec (s1 + z1) s2); [reflexivity | lia].
Qed.

Theorem validate_cross_disjoint : forall l,
  validate_cross l = true -> Forall fits (on_disk l) -> StronglySorted before (on_disk l).
Proof.
  intros l Hv Hf. apply disjoint_incr_sorted. unfold on_disk in *. destruct l as [|f r]; [reflexivity|].
  unfold validate_cross in Hv. exact (proj1 (on_disk_chain _ _ _ _ Hv Hf)).
Qed.

Lemma accept_parsed_valid : forall p l o, accept_parsed p l = Some o ->
  forallb (validate_struct p) o = true /\ validate_cross o = true.
Proof.
  intros p l o H. unfold accept_parsed in H.
  destruct (forallb (validate_struct p) (order_by_offset (set_implicit p (Some 0) l))
            && validate_cross (order_by_offset (set_implicit p (Some 0) l))) eqn:E; [|discriminate].
  inversion H; subst. apply andb_prop in E. exact E.
Qed.

Lemma accept_valid : forall v o, accept v = Some o ->
  forallb (validate_struct (rv_partial_size v)) o = true /\ validate_cross o = true.
Proof.
  intros v o H. unfold accept in H. destruct (parse_structs 0 (rv_structs v)); [|discriminate].
  eapply accept_parsed_valid; eauto.
Qed.

Theorem accepted_disjoint : forall v l,
  accept v = Some l -> Forall fits (on_disk l) -> StronglySorted before (on_disk l).
Proof. intros v l H. apply validate_cross_disjoint. exact (proj2 (accept_valid _ _ H)). Qed.

(* what on_disk is: one entry per structure, carrying its size, at its declared offset when it has one *)
Lemma on_disk_from_spec : forall l off,
  map snd (on_disk_from off l) = map s_size l /\
  Forall2 (fun s p => forall o, s_offset s = Some o -> fst p = o) l (on_disk_from off l).
Proof.
  induction l as [|s r IH]; intro off; cbn [on_disk_from map]; [split; [reflexivity | constructor]|].
  destruct (IH (add64 match s_offset s with Some o => o | None => off end (s_size s))) as [H1 H2].
  split; [cbn [snd]; f_equal; exact H1|]. constructor; [|exact H2].
  intros o Ho. rewrite Ho. reflexivity.
Qed.

(* starts are (weakly) increasing, strictly after a structure of non-zero size *)
Lemma sorted_starts : forall l, StronglySorted before l -> StronglySorted (fun a b => fst a <= fst b) l.
Proof.
  induction 1 as [|a l Hs IH Hf]; constructor; [exact IH|].
  eapply Forall_impl; [|exact Hf]. intros b Hb. unfold before in Hb. lia.
Qed.

(* an accepted MBR structure is laid out at offset 0 *)
Lemma mbr_at_zero_from : forall f vs l prev, validate_cross_from f vs prev l = true ->
  Forall2 (fun s p => s_mbr s = true -> fst p = 0) l (on_disk_from prev l).
Proof.
  intros f vs l. induction l as [|s r IH]; intros prev Hv; cbn [on_disk_from]; [constructor|].
  cbn [validate_cross_from] in Hv. apply andb_prop in Hv. destruct Hv as [Hm Hv].
  apply andb_prop in Hm. destruct Hm as [Hm _].
  constructor.
  - intro Hb. rewrite Hb in Hm. cbn in Hm. destruct (s_offset s) as [[|o]|]; try discriminate. reflexivity.
  - destruct (s_offset s) as [o|].
    + apply andb_prop in Hv. destruct Hv as [_ Hv]. apply IH. exact Hv.
    + apply IH. exact Hv.
Qed.

Theorem accepted_mbr_at_zero : forall v l, accept v = Some l ->
  Forall2 (fun s p => s_mbr s = true -> fst p = 0) l (on_disk l).
Proof.
  intros v l H. destruct (accept_valid _ _ H) as [_ Hc]. unfold on_disk. destruct l as [|f r]; [constructor|].
  unfold validate_cross in Hc. eapply mbr_at_zero_from; eauto.
Qed.

(* ------------------------------------------------------------------ content *)
Definition small_content (c : content) : Prop :=
  (forall o, c_offset c = Some o -> o < two63) /\ c_size c < two63 /\ (forall i, c_image c = Some i -> i < two63).
Definition small_struct (s : structure) : Prop := s_size s < two63 /\ Forall small_content (s_content s).

(* inside as a proposition *)
Definition within (st sz : N) (c : N * N) : Prop := st <= fst c /\ fst c + snd c <= st + sz.

Lemma place_content_inside : forall st ssize l prev placed,
  st + ssize < W -> ssize < two63 -> prev <= ssize -> Forall small_content l ->
  place_content st ssize prev l = Some placed -> Forall (within st ssize) placed.
Proof.
  intros st ssize l. induction l as [|c r IH]; intros prev placed Hfit Hss Hprev Hsm H.
  - cbn in H. inversion H. constructor.
  - cbn [place_content] in H. inversion Hsm as [|x xs Hc Hr]; subst.
    destruct Hc as [Ho [Hz Hi]].
    destruct (c_image c) as [img|] eqn:Ei; [|discriminate].
    specialize (Hi _ eq_refl).
    destruct (negb (c_size c =? 0) && (c_size c <? img)) eqn:E1; [discriminate|].
    set (start := match c_offset c with Some o => o | None => prev end) in *.
    set (actual := if c_size c =? 0 then img else c_size c) in *.
    assert (Hstart : start < W).
    { unfold start. destruct (c_offset c) as [o|]; [specialize (Ho _ eq_refl)|]; unfold two63, W in *; lia. }
    assert (Hact : actual < two63) by (unfold actual; destruct (c_size c =? 0); assumption).
    assert (Hstart2 : start <= two63).
    { unfold start. destruct (c_offset c) as [o|]; [specialize (Ho _ eq_refl)|]; unfold two63 in *; lia. }
    assert (Hsum : start + actual < W) by (unfold two63, W in *; lia).
    rewrite (add64_small _ _ Hsum) in H.
    destruct (ssize <? start + actual) eqn:E2; [discriminate|].
    destruct (place_content st ssize (start + actual) r) as [t|] eqn:E3; [|discriminate].
    inversion H; subst; clear H.
    assert (Hle : start + actual <= ssize) by lia.
    constructor.
    + unfold within. cbn [fst snd]. rewrite add64_small by lia. lia.
    + eapply IH; eauto.
Qed.

Lemma insert_c_forall : forall (P : N * N -> Prop) x l, P x -> Forall P l -> Forall P (insert_c x l).
Proof.
  intros P x l Hx. induction l as [|y r IH]; intro H; cbn [insert_c]; [constructor; auto|].
  inversion H; subst. destruct (fst x <? fst y); constructor; auto.
Qed.

Lemma sort_c_forall_acc : forall (P : N * N -> Prop) l acc, Forall P l -> Forall P acc ->
  Forall P (fold_left (fun a x => insert_c x a) l acc).
Proof.
  intros P l. induction l as [|x r IH]; intros acc Hl Ha; cbn [fold_left]; [exact Ha|].
  inversion Hl; subst. apply IH; [assumption | apply insert_c_forall; assumption].
Qed.

Lemma sort_c_forall : forall (P : N * N -> Prop) l, Forall P l -> Forall P (sort_c l).
Proof. intros P l H. unfold sort_c. apply sort_c_forall_acc; [exact H | constructor]. Qed.

Lemma no_overlap_chain : forall st sz l prev,
  st + sz < W -> Forall (within st sz) l -> no_overlap_from prev l = true ->
  disjoint_incr l = true /\ (forall p t, l = p :: t -> prev <= fst p).
Proof.
  intros st sz l. induction l as [|[cs z] r IH]; intros prev Hfit Hw H.
  - split; [reflexivity | intros; discriminate].
  - cbn [no_overlap_from] in H. apply andb_prop in H. destruct H as [H1 H2].
    inversion Hw as [|x xs Hx Hxs]; subst. unfold within in Hx. cbn [fst snd] in Hx.
    rewrite add64_small in H2 by lia.
    destruct (IH _ Hfit Hxs H2) as [Hd Hh].
    split.
    + cbn [disjoint_incr]. destruct r as [|[s2 z2] t]; [reflexivity|].
      specialize (Hh _ _ eq_refl). cbn [fst] in Hh. rewrite Hd.
      destruct (N.leb_spec (cs + z) s2); [reflexivity | lia].
    + intros p t E. inversion E; subst. cbn [fst]. lia.
Qed.

Theorem layout_content_inside : forall st s cs,
  layout_content st s = Some cs -> st + s_size s < W -> small_struct s ->
  Forall (within st (s_size s)) cs /\ StronglySorted before cs.
Proof.
  intros st s cs H Hfit [Hss Hsm]. unfold layout_content in H.
  destruct (s_fs s); [inversion H; split; constructor|].
  destruct (s_content s) as [|c0 cr] eqn:Ec; [inversion H; split; constructor|].
  destruct (place_content st (s_size s) 0 (c0 :: cr)) as [placed|] eqn:Ep; [|discriminate].
  destruct (no_overlap_from st (sort_c placed)) eqn:En; [|discriminate].
  inversion H; subst; clear H.
  assert (Hin : Forall (within st (s_size s)) (sort_c placed)).
  { apply sort_c_forall. eapply place_content_inside; eauto. lia. }
  split; [exact Hin|].
  apply disjoint_incr_sorted. exact (proj1 (no_overlap_chain _ _ _ _ Hfit Hin En)).
Qed.

(* the whole volume: LayoutVolume succeeded *)
Theorem layout_all_inside : forall l d lay,
  layout_all l d = Some lay -> Forall fits d -> map snd d = map s_size l -> Forall small_struct l ->
  Forall2 (fun p cs => Forall (within (fst p) (snd p)) cs /\ StronglySorted before cs) d lay.
Proof.
  induction l as [|s r IH]; intros d lay H Hf Hm Hs.
  - destruct d; [|discriminate]. cbn in H. inversion H. constructor.
  - destruct d as [|[st sz] dr]; [discriminate|]. cbn [layout_all] in H.
    destruct (layout_content st s) as [c|] eqn:E1; [|discriminate].
    destruct (layout_all r dr) as [cs|] eqn:E2; [|discriminate].
    inversion H; subst; clear H. cbn [map snd] in Hm. inversion Hm as [[Hsz Hrest]].
    inversion Hf as [|x xs Hx Hxs]; subst. inversion Hs as [|y ys Hy Hys]; subst.
    unfold fits in Hx. cbn [fst snd] in *.
    constructor; [|eapply IH; eauto].
    eapply layout_content_inside; eauto.
Qed.

(* ------------------------------------------------------------------ whatever the yaml parser accepts is small *)
Lemma parse_optp_small : forall o r, parse_optp o = Some r -> forall x, r = Some x -> x < two63.
Proof.
  intros o r H x Hx. subst. destruct o as [q|]; cbn in H; [|discriminate].
  destruct (parse_qty q) eqn:E; cbn in H; [|discriminate]. inversion H; subst. eapply parse_qty_bound; eauto.
Qed.

Lemma parse_opt0_small : forall o n, parse_opt0 o = Some n -> n < two63.
Proof.
  intros o n H. destruct o as [q|]; cbn in H; [eapply parse_qty_bound; eauto|]. inversion H. reflexivity.
Qed.

Definition image_small (r : raw_content) : Prop := forall i, rc_image r = Some i -> i < two63.

Lemma parse_content_small : forall r c, image_small r -> parse_content r = Some c -> small_content c.
Proof.
  intros r c Hi H. unfold parse_content in H.
  destruct (parse_optp (rc_offset r)) as [o|] eqn:E1; [|discriminate].
  destruct (parse_opt0 (rc_size r)) as [z|] eqn:E2; [|discriminate].
  inversion H; subst; clear H. unfold small_content. cbn.
  split; [intros x Hx; eapply parse_optp_small; eauto|]. split; [eapply parse_opt0_small; eauto | exact Hi].
Qed.

Lemma parse_all_content_small : forall l cs, Forall image_small l -> parse_all parse_content l = Some cs ->
  Forall small_content cs.
Proof.
  induction l as [|r t IH]; intros cs Hi H; cbn in H.
  - inversion H. constructor.
  - inversion Hi; subst.
    destruct (parse_content r) as [c|] eqn:E1; [|discriminate].
    destruct (parse_all parse_content t) as [ct|] eqn:E2; [|discriminate].
    inversion H; subst. constructor; [eapply parse_content_small; eauto | apply IH; auto].
Qed.

Definition raw_images_small (r : raw_struct) : Prop := Forall image_small (rs_content r).

Lemma parse_struct_small : forall i r s, raw_images_small r -> parse_struct i r = Some s -> small_struct s.
Proof.
  intros i r s Hi H. unfold parse_struct in H.
  destruct (parse_optp (rs_offset r)); [|discriminate].
  destruct (parse_opt0 (rs_size r)) as [sz|] eqn:E2; [|discriminate].
  destruct (parse_opt0 (rs_min r)); [|discriminate].
  destruct (parse_ow (rs_ow r)); [|discriminate].
  destruct (parse_all parse_content (rs_content r)) as [cs|] eqn:E5; [|discriminate].
  inversion H; subst; clear H. split; cbn; [eapply parse_opt0_small; eauto | eapply parse_all_content_small; eauto].
Qed.

Lemma parse_structs_small : forall l i ss, Forall raw_images_small l -> parse_structs i l = Some ss ->
  Forall small_struct ss.
Proof.
  induction l as [|r t IH]; intros i ss Hi H; cbn in H.
  - inversion H. constructor.
  - inversion Hi; subst.
    destruct (parse_struct i r) as [s|] eqn:E1; [|discriminate].
    destruct (parse_structs (i + 1) t) as [st|] eqn:E2; [|discriminate].
    inversion H; subst. constructor; [eapply parse_struct_small; eauto | eapply IH; eauto].
Qed.

(* set_implicit and order_by_offset keep sizes and contents *)
Lemma set_implicit_small : forall p l prev, Forall small_struct l -> Forall small_struct (set_implicit p prev l).
Proof.
  intros p l. induction l as [|s r IH]; intros prev H; cbn [set_implicit]; [constructor|].
  inversion H as [|x xs Hx Hxs]; subst. constructor; [|apply IH; exact Hxs].
  destruct (s_min s =? 0); exact Hx.
Qed.

Lemma group_forall : forall (P : structure -> Prop) l, Forall P l -> Forall (Forall P) (group l).
Proof.
  intros P l. induction l as [|s r IH]; intro H; cbn [group]; [constructor|].
  inversion H as [|x xs Hx Hxs]; subst. specialize (IH Hxs).
  destruct (group r) as [|b bs]; [repeat constructor; exact Hx|].
  inversion IH as [|y ys Hb Hbs]; subst.
  destruct b as [|h t]; [constructor; [repeat constructor; exact Hx | exact Hbs]|].
  destruct (no_offset h); repeat (constructor; auto).
Qed.

Lemma insert_block_forall : forall (P : list structure -> Prop) x l, P x -> Forall P l -> Forall P (insert_block x l).
Proof.
  intros P x l Hx. induction l as [|y r IH]; intro H; cbn [insert_block]; [constructor; auto|].
  inversion H; subst. destruct (block_key x <? block_key y); constructor; auto.
Qed.

Lemma sort_blocks_forall_acc : forall (P : list structure -> Prop) l acc, Forall P l -> Forall P acc ->
  Forall P (fold_left (fun a b => insert_block b a) l acc).
Proof.
  intros P l. induction l as [|x r IH]; intros acc Hl Ha; cbn [fold_left]; [exact Ha|].
  inversion Hl; subst. apply IH; [assumption | apply insert_block_forall; assumption].
Qed.

Lemma concat_forall : forall (P : structure -> Prop) ll, Forall (Forall P) ll -> Forall P (concat ll).
Proof.
  intros P ll. induction ll as [|l r IH]; intro H; cbn [concat]; [constructor|].
  inversion H; subst. apply Forall_app. split; auto.
Qed.

Lemma order_by_offset_forall : forall (P : structure -> Prop) l, Forall P l -> Forall P (order_by_offset l).
Proof.
  intros P l H. unfold order_by_offset, sort_blocks. apply concat_forall.
  apply sort_blocks_forall_acc; [apply group_forall; exact H | constructor].
Qed.

Lemma accept_small : forall v l, Forall raw_images_small (rv_structs v) -> accept v = Some l -> Forall small_struct l.
Proof.
  intros v l Hi H. unfold accept in H.
  destruct (parse_structs 0 (rv_structs v)) as [ss|] eqn:E; [|discriminate].
  unfold accept_parsed in H.
  destruct (forallb (validate_struct (rv_partial_size v)) (order_by_offset (set_implicit (rv_partial_size v) (Some 0) ss))
            && validate_cross (order_by_offset (set_implicit (rv_partial_size v) (Some 0) ss))); [|discriminate].
  inversion H; subst. apply order_by_offset_forall. apply set_implicit_small. eapply parse_structs_small; eauto.
Qed.

(* the content part of the property for a whole accepted gadget.yaml volume *)
Theorem accepted_content_inside : forall v l lay,
  Forall raw_images_small (rv_structs v) -> accept v = Some l -> Forall fits (on_disk l) ->
  layout_all l (on_disk l) = Some lay ->
  Forall2 (fun p cs => Forall (within (fst p) (snd p)) cs /\ StronglySorted before cs) (on_disk l) lay.
Proof.
  intros v l lay Hi Ha Hf Hl. eapply layout_all_inside; eauto.
  - unfold on_disk. exact (proj1 (on_disk_from_spec l 0)).
  - eapply accept_small; eauto.
Qed.

(* ------------------------------------------------------------------ the wrap: witnesses *)
Definition xg : Z := 8589934591%Z.    (* 8589934591G = 2^63 - 2^30 is the largest G quantity the parser accepts *)

Definition wrap_witness : raw_volume :=
  RV false [ RS (Some (Q xg UG)) (Some (Q xg UG)) (Some (Q 1 UM)) false true None [];
             RS None (Some (Q 4 UG)) None false true None [];
             RS (Some (Q 8796093021185 UM)) (Some (Q 1 UM)) None false true None [] ].

Lemma wrap_witness_accepted_overlapping :
  exists l, accept wrap_witness = Some l /\ disjoint_incr (on_disk l) = false /\
    exists a b, In a (on_disk l) /\ In b (on_disk l) /\ fst a < fst b /\ fst b + snd b < fst a + snd a.
Proof.
  eexists. split; [vm_compute; reflexivity|]. split; [vm_compute; reflexivity|].
  exists (9223372035781033984, 9223372035781033984), (9223372035782082560, 1048576).
  vm_compute. repeat split; auto.
Qed.

(* the int64 product of number and unit wraps: 17179869185G is read as 1G, 17179869184G as 0 *)
Lemma parse_wrap_witness :
  parse_qty (Q 17179869185 UG) = Some 1073741824 /\ parse_qty (Q 17179869184 UG) = Some 0 /\
  parse_qty (Q (-17179869183) UG) = Some 1073741824.
Proof. vm_compute. auto. Qed.

(* ------------------------------------------------------------------ any actual sizes up to the declared ones
   On a real disk a structure with min-size < size may have any size in between (EnsureVolumeCompatibility accepts
   [min-size, size]; install creates with the full size), and a structure without an offset of its own then starts at the
   actual end of its predecessor. on_disk_sized: the layout for a choice zs of actual sizes (spec level, unbounded sums). *)
Fixpoint on_disk_sized_from (off : N) (l : list structure) (zs : list N) : list (N * N) :=
  match l, zs with
  | s :: r, z :: zr => let st := match s_offset s with Some o => o | None => off end in
                       (st, z) :: on_disk_sized_from (st + z) r zr
  | _, _ => []
  end.
Definition on_disk_sized (l : list structure) (zs : list N) : list (N * N) := on_disk_sized_from 0 l zs.

Lemma on_disk_sized_chain : forall f vs l prev zs off,
  validate_cross_from f vs prev l = true -> Forall fits (on_disk_from prev l) ->
  Forall2 (fun s z => z <= s_size s) l zs -> off <= prev ->
  disjoint_incr (on_disk_sized_from off l zs) = true /\
  (forall p t, on_disk_sized_from off l zs = p :: t -> off <= fst p).
Proof.
  intros f vs l. induction l as [|s r IH]; intros prev zs off Hv Hf Hz Hoff.
  - cbn. split; [reflexivity | intros p t H; discriminate].
  - inversion Hz as [|s' z l' zr Hzs Hzr]; subst.
    cbn [validate_cross_from on_disk_from on_disk_sized_from] in *.
    apply andb_prop in Hv. destruct Hv as [_ Hv].
    inversion Hf as [|x xs Hx Hxs]; subst; clear Hf. unfold fits in Hx. cbn [fst snd] in Hx.
    destruct (s_offset s) as [o|] eqn:Eo.
    + apply andb_prop in Hv. destruct Hv as [Hge Hv].
      rewrite (add64_small _ _ Hx) in *.
      assert (Hle : o + z <= o + s_size s) by lia.
      destruct (IH _ _ _ Hv Hxs Hzr Hle) as [Hd Hh].
      split.
      * cbn [disjoint_incr]. destruct (on_disk_sized_from (o + z) r zr) as [|[s2 z2] t] eqn:Er; [reflexivity|].
        specialize (Hh _ _ eq_refl). cbn [fst] in Hh. rewrite Hd.
        destruct (N.leb_spec (o + z) s2); [reflexivity | lia].
      * intros p t H. inversion H; subst. cbn [fst]. lia.
    + rewrite (add64_small _ _ Hx) in *.
      assert (Hle : off + z <= prev + s_size s) by lia.
      destruct (IH _ _ _ Hv Hxs Hzr Hle) as [Hd Hh].
      split.
      * cbn [disjoint_incr]. destruct (on_disk_sized_from (off + z) r zr) as [|[s2 z2] t] eqn:Er; [reflexivity|].
        specialize (Hh _ _ eq_refl). cbn [fst] in Hh. rewrite Hd.
        destruct (N.leb_spec (off + z) s2); [reflexivity | lia].
      * intros p t H. inversion H; subst. cbn [fst]. lia.
Qed.

Theorem accepted_disjoint_any_sizes : forall (v : raw_volume) (l : list structure) (zs : list N),
  accept v = Some l -> Forall fits (on_disk l) -> Forall2 (fun s z => z <= s_size s) l zs ->
  StronglySorted before (on_disk_sized l zs).
Proof.
  intros v l zs H Hf Hz. apply disjoint_incr_sorted. destruct (accept_valid _ _ H) as [_ Hc].
  unfold on_disk_sized, on_disk in *. destruct l as [|f r]; [reflexivity|].
  unfold validate_cross in Hc.
  exact (proj1 (on_disk_sized_chain _ _ _ _ _ 0 Hc Hf Hz (N.le_refl 0))).
Qed.

(* ------------------------------------------------------------------ inside the volume; offset-write inside *)
(* the end of the volume as laid out: the end of its last structure *)
Definition layout_end (d : list (N * N)) : N := let p := last d (0, 0) in fst p + snd p.

Lemma sorted_inside_volume : forall d, StronglySorted before d -> Forall (fun p => fst p + snd p <= layout_end d) d.
Proof.
  induction d as [|a l IH]; intro H; [constructor|].
  inversion H as [|x xs Hs Hf]; subst. specialize (IH Hs).
  destruct l as [|b l'].
  - constructor; [unfold layout_end; cbn; lia | constructor].
  - assert (E : layout_end (a :: b :: l') = layout_end (b :: l')) by reflexivity.
    rewrite E. constructor; [|exact IH].
    assert (Hin : In (last (b :: l') (0, 0)) (b :: l')).
    { clear. revert b. induction l' as [|c r IHr]; intro b; [left; reflexivity|].
      right. exact (IHr c). }
    rewrite Forall_forall in Hf. specialize (Hf _ Hin). unfold before in Hf. unfold layout_end. lia.
Qed.

Theorem accepted_inside_volume : forall (v : raw_volume) (l : list structure),
  accept v = Some l -> Forall fits (on_disk l) ->
  Forall (fun p => fst p + snd p <= layout_end (on_disk l)) (on_disk l) /\ layout_end (on_disk l) < W \/ on_disk l = [].
Proof.
  intros v l H Hf. destruct (on_disk l) as [|a d] eqn:E; [right; reflexivity|]. left.
  split; [rewrite <- E; apply sorted_inside_volume; eapply accepted_disjoint; eauto; rewrite E; exact Hf|].
  assert (Hin : In (last (a :: d) (0, 0)) (a :: d)).
  { clear. revert a. induction d as [|c r IHr]; intro a; [left; reflexivity|]. right. exact (IHr c). }
  rewrite Forall_forall in Hf. specialize (Hf _ Hin). exact Hf.
Qed.

(* every offset-write of an accepted volume passed validateOffsetWrite against the first structure and the volume min size *)
Lemma validate_cross_ow : forall f vs l prev, validate_cross_from f vs prev l = true ->
  Forall (fun s => validate_ow s f vs = true) l.
Proof.
  intros f vs l. induction l as [|s r IH]; intros prev H; [constructor|].
  cbn [validate_cross_from] in H. apply andb_prop in H. destruct H as [H1 H2].
  apply andb_prop in H1. destruct H1 as [_ How].
  constructor; [exact How|].
  destruct (s_offset s) as [o|].
  - apply andb_prop in H2. destruct H2 as [_ H2]. eapply IH; eauto.
  - eapply IH; eauto.
Qed.

(* spelled out: a pointer of 4 bytes written at off lies inside the min-size of the first structure, which is at offset 0
   (relative form, naming the first structure), or inside the minimal volume (absolute form) *)
Definition ow_inside (first : structure) (vol_size : N) (s : structure) : Prop :=
  match s_ow s with
  | None => True
  | Some (Some rel, off) => rel = s_idx first /\ s_offset first = Some 0 /\ (off + 4) mod W <= s_min first
  | Some (None, off) => (off + 4) mod W <= vol_size
  end.

Theorem accepted_offset_write_inside : forall (v : raw_volume) (l : list structure) (first : structure) (r : list structure),
  accept v = Some l -> l = first :: r -> Forall (ow_inside first (vol_min_size l)) l.
Proof.
  intros v l first r H E. destruct (accept_valid _ _ H) as [_ Hc]. subst l.
  unfold validate_cross in Hc. pose proof (validate_cross_ow _ _ _ _ Hc) as Hall.
  eapply Forall_impl; [|exact Hall]. intros s Hs. unfold validate_ow in Hs. unfold ow_inside.
  destruct (s_ow s) as [[[rel|] off]|]; [| |exact I].
  - apply andb_prop in Hs. destruct Hs as [Hs H3]. apply andb_prop in Hs. destruct Hs as [H1 H2].
    split; [lia|]. split; [destruct (s_offset first) as [[|o]|]; try discriminate; reflexivity|].
    unfold add64, lba48 in H3. lia.
  - unfold add64, lba48 in Hs. lia.
Qed.

(* ------------------------------------------------------------------ statements as used by props/C38.v *)
Lemma accepted_disjoint_increasing : forall (v : raw_volume) (l : list structure),
  accept v = Some l -> Forall fits (on_disk l) ->
  StronglySorted before (on_disk l) /\ StronglySorted (fun a b => fst a <= fst b) (on_disk l).
Proof. intros v l H F. split; [|apply sorted_starts]; exact (accepted_disjoint v l H F). Qed.

Lemma layout_is_of_the_structures : forall (v : raw_volume) (l : list structure),
  accept v = Some l ->
  map snd (on_disk l) = map s_size l /\
  Forall2 (fun s p => forall o, s_offset s = Some o -> fst p = o) l (on_disk l) /\
  Forall2 (fun s p => s_mbr s = true -> fst p = 0) l (on_disk l).
Proof.
  intros v l H. split; [exact (proj1 (on_disk_from_spec l 0))|].
  split; [exact (proj2 (on_disk_from_spec l 0)) | exact (accepted_mbr_at_zero v l H)].
Qed.

Lemma quantity_parser : forall q : qty,
  (forall n, parse_qty q = Some n -> n < two63) /\
  ((0 <= qty_value q < 9223372036854775808)%Z -> parse_qty q = Some (Z.to_N (qty_value q))) /\
  ((- 9223372036854775808 <= qty_value q < 0)%Z -> parse_qty q = None).
Proof.
  intro q. split; [intros n H; exact (parse_qty_bound q n H)|].
  split; [exact (parse_qty_exact q) | exact (parse_qty_negative q)].
Qed.

Lemma wrap_refuted : exists (v : raw_volume) (l : list structure),
  accept v = Some l /\ disjoint_incr (on_disk l) = false /\
  exists a b, In a (on_disk l) /\ In b (on_disk l) /\ fst a < fst b /\ fst b + snd b < fst a + snd a.
Proof. exists wrap_witness. exact wrap_witness_accepted_overlapping. Qed.

Lemma parse_wrap_refuted : exists q : qty, exists n : N,
  (0 <= q_num q)%Z /\ parse_qty q = Some n /\ Z.of_N n <> qty_value q.
Proof. exists (Q 17179869185 UG), 1073741824. split; [discriminate|]. split; [exact (proj1 parse_wrap_witness)|]. discriminate. Qed.

Lemma accepted_inside_volume' : forall (v : raw_volume) (l : list structure),
  accept v = Some l -> Forall fits (on_disk l) ->
  Forall (fun p => fst p + snd p <= layout_end (on_disk l)) (on_disk l) /\ (on_disk l <> [] -> layout_end (on_disk l) < W).
Proof.
  intros v l H Hf. destruct (accepted_inside_volume v l H Hf) as [[A B]|E].
  - split; [exact A | intros _; exact B].
  - rewrite E. split; [constructor | intro C; contradiction].
Qed.
