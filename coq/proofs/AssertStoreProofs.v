(* C19 - proofs about the assertion store model (models/AssertStore.v). *)
From Coq Require Import List NArith ZArith Bool Lia ZifyBool ZifyN.
Import ListNotations.
Require Import V.lib.Bytes V.models.AssertStore.
Open Scope N_scope.

Lemma beq_true_iff : forall a b, beq a b = true <-> a = b.
Proof.
  induction a as [|x a IH]; destruct b as [|y b]; cbn; split; intro H; try congruence; try reflexivity.
  - apply andb_true_iff in H. destruct H as [H1 H2]. apply N.eqb_eq in H1. apply IH in H2. congruence.
  - inversion H; subst. rewrite N.eqb_refl. cbn. apply IH. reflexivity.
Qed.

Lemma key_eqb_true_iff : forall a b, key_eqb a b = true <-> a = b.
Proof.
  induction a as [|x a IH]; destruct b as [|y b]; cbn; split; intro H; try congruence; try reflexivity.
  - apply andb_true_iff in H. destruct H as [H1 H2]. apply beq_true_iff in H1. apply IH in H2. congruence.
  - inversion H; subst. apply andb_true_iff. split; [apply beq_true_iff; reflexivity|apply IH; reflexivity].
Qed.

Lemma same_key_iff : forall t k x, same_key t k x = true <-> a_typ x = t /\ a_key x = k.
Proof.
  intros t k x. unfold same_key. rewrite andb_true_iff, N.eqb_eq, key_eqb_true_iff. tauto.
Qed.

Lemma same_key_self : forall a, same_key (a_typ a) (a_key a) a = true.
Proof. intro a. apply same_key_iff. split; reflexivity. Qed.

(* ------------------------------------------------------------------ best *)
Lemma best_in : forall l b, best l = Some b -> In b l.
Proof.
  induction l as [|x r IH]; intros b H; cbn in H; [discriminate|].
  destruct (best r) as [b0|] eqn:E.
  - destruct (a_rev x <? a_rev b0); inversion H; subst; [right; apply IH; reflexivity|left; reflexivity].
  - inversion H; subst. left; reflexivity.
Qed.

Lemma best_max : forall l b, best l = Some b -> forall x, In x l -> a_rev x <= a_rev b.
Proof.
  induction l as [|y r IH]; intros b H x Hx; cbn in H; [contradiction|].
  destruct (best r) as [b0|] eqn:E.
  - specialize (IH b0 eq_refl). destruct (a_rev y <? a_rev b0) eqn:L; inversion H; subst.
    + destruct Hx as [->|Hx]; [lia|apply IH; exact Hx].
    + destruct Hx as [->|Hx]; [lia|]. specialize (IH x Hx). lia.
  - inversion H; subst. destruct Hx as [->|Hx]; [lia|].
    destruct r; [contradiction|]. cbn in E. destruct (best r); [destruct (a_rev a <? a_rev a0)|]; discriminate.
Qed.

Lemma best_none : forall l, best l = None -> l = [].
Proof.
  intros [|x r] H; [reflexivity|]. cbn in H. destruct (best r) as [b|]; [destruct (a_rev x <? a_rev b)|]; discriminate.
Qed.

Lemma best_cons_higher : forall a l, (forall x, In x l -> a_rev x < a_rev a) -> best (a :: l) = Some a.
Proof.
  intros a l H. cbn. destruct (best l) as [b|] eqn:E; [|reflexivity].
  pose proof (H b (best_in _ _ E)) as Hb. destruct (a_rev a <? a_rev b) eqn:L; [lia|reflexivity].
Qed.

(* ------------------------------------------------------------------ put *)
Definition sel (t : N) (k : list bytes) (m : N) (x : asn) : bool := same_key t k x && (a_fmt x <=? m).

Lemma cur_unfold : forall s t k m, cur s t k m = best (filter (sel t k m) s).
Proof. reflexivity. Qed.

Lemma filter_filter_drop : forall (p q : asn -> bool) s,
  (forall x, p x = true -> q x = true) -> filter p (filter q s) = filter p s.
Proof.
  intros p q. induction s as [|x s IH]; intro H; cbn; [reflexivity|].
  destruct (q x) eqn:Q; cbn.
  - destruct (p x); rewrite IH by exact H; reflexivity.
  - destruct (p x) eqn:P; [rewrite (H x P) in Q; discriminate|]. apply IH. exact H.
Qed.

(* an add that is refused leaves the store as it was, and there was a current assertion at least as new *)
Theorem put_refused : forall s a s',
  put s a = (s', RevErr) ->
  s' = s /\ exists c, cur s (a_typ a) (a_key a) (max_supp (a_typ a)) = Some c /\ a_rev a <= a_rev c.
Proof.
  intros s a s' H. unfold put in H. destruct (cur s (a_typ a) (a_key a) (max_supp (a_typ a))) as [c|] eqn:E.
  - destruct (a_rev a <=? a_rev c) eqn:L; inversion H; subst. split; [reflexivity|]. exists c. split; [reflexivity|lia].
  - inversion H.
Qed.

Lemma put_result : forall s a s' r, put s a = (s', r) -> r = Accepted \/ r = RevErr.
Proof.
  intros s a s' r H. unfold put in H. destruct (cur s (a_typ a) (a_key a) (max_supp (a_typ a))) as [c|].
  - destruct (a_rev a <=? a_rev c); inversion H; auto.
  - inversion H; auto.
Qed.

(* an accepted add becomes the current assertion of its key, and it is newer than everything stored under the key *)
Theorem put_accepted : forall s a s',
  put s a = (s', Accepted) -> a_fmt a <= max_supp (a_typ a) ->
  s' = insert a s /\ cur s' (a_typ a) (a_key a) (max_supp (a_typ a)) = Some a /\
  (forall c, cur s (a_typ a) (a_key a) (max_supp (a_typ a)) = Some c -> a_rev c < a_rev a).
Proof.
  intros s a s' H Hf. unfold put in H.
  assert (Hins : s' = insert a s /\ forall c, cur s (a_typ a) (a_key a) (max_supp (a_typ a)) = Some c -> a_rev c < a_rev a).
  { destruct (cur s (a_typ a) (a_key a) (max_supp (a_typ a))) as [c|] eqn:E.
    - destruct (a_rev a <=? a_rev c) eqn:L; inversion H; subst. split; [reflexivity|]. intros c0 Hc. inversion Hc; subst. lia.
    - inversion H; subst. split; [reflexivity|]. intros c0 Hc. discriminate. }
  destruct Hins as [-> Hlt]. split; [reflexivity|]. split; [|exact Hlt].
  rewrite cur_unfold. unfold insert. cbn [filter]. unfold sel at 1. rewrite same_key_self. cbn [andb].
  replace (a_fmt a <=? max_supp (a_typ a)) with true by lia.
  apply best_cons_higher. intros x Hx. apply filter_In in Hx. destruct Hx as [Hx Hsel].
  apply filter_In in Hx. destruct Hx as [Hx _].
  destruct (cur s (a_typ a) (a_key a) (max_supp (a_typ a))) as [c|] eqn:E.
  - rewrite cur_unfold in E. pose proof (best_max _ _ E x) as Hm.
    assert (In x (filter (sel (a_typ a) (a_key a) (max_supp (a_typ a))) s)) by (apply filter_In; split; assumption).
    specialize (Hm H0). specialize (Hlt c eq_refl). lia.
  - rewrite cur_unfold in E. apply best_none in E.
    assert (In x (filter (sel (a_typ a) (a_key a) (max_supp (a_typ a))) s)) by (apply filter_In; split; assumption).
    rewrite E in H0. contradiction.
Qed.

(* other primary keys are not affected by an insertion *)
Lemma insert_other_key : forall s a t k m,
  same_key t k a = false -> cur (insert a s) t k m = cur s t k m.
Proof.
  intros s a t k m H. rewrite !cur_unfold. unfold insert. cbn [filter]. unfold sel at 1. rewrite H. cbn [andb].
  f_equal. apply filter_filter_drop. intros x Hx. unfold sel in Hx. apply andb_true_iff in Hx. destruct Hx as [Hx _].
  apply negb_true_iff. unfold same_slot. destruct (same_key (a_typ a) (a_key a) x) eqn:E; [|reflexivity].
  apply same_key_iff in E. apply same_key_iff in Hx. destruct E as [E1 E2]. destruct Hx as [H1 H2].
  assert (same_key t k a = true) by (apply same_key_iff; split; congruence). congruence.
Qed.

(* ------------------------------------------------------------------ histories of adds *)
Definition add_step (st : store * list asn) (a : asn) : store * list asn :=
  let '(s, acc) := st in
  match put s a with
  | (s', Accepted) => (s', acc ++ [a])
  | (s', _) => (s', acc)
  end.

Definition adds_run (l : list asn) : store * list asn := fold_left add_step l ([], []).

Definition supported (l : list asn) : Prop := forall a, In a l -> a_fmt a <= max_supp (a_typ a).

(* what the store returns for a key is the accepted add with the highest revision, or nothing if none was accepted *)
Definition highest_inv (s : store) (acc : list asn) : Prop :=
  forall t k,
    match cur s t k (max_supp t) with
    | Some c => In c acc /\ same_key t k c = true /\ forall a, In a acc -> same_key t k a = true -> a_rev a <= a_rev c
    | None => forall a, In a acc -> same_key t k a = false
    end.

Lemma highest_step : forall s acc a,
  highest_inv s acc -> a_fmt a <= max_supp (a_typ a) ->
  highest_inv (fst (add_step (s, acc) a)) (snd (add_step (s, acc) a)).
Proof.
  intros s acc a Inv Hf. unfold add_step. destruct (put s a) as [s' r] eqn:E.
  destruct (put_result _ _ _ _ E) as [-> | ->].
  - destruct (put_accepted _ _ _ E Hf) as [-> [Hcur Hlt]]. cbn [fst snd]. intros t k.
    destruct (same_key t k a) eqn:Ek.
    + apply same_key_iff in Ek. destruct Ek as [<- <-]. rewrite Hcur. split; [apply in_or_app; right; left; reflexivity|].
      split; [apply same_key_self|]. intros a' Ha' Hk'. apply in_app_or in Ha'. destruct Ha' as [Ha'|[<-|[]]]; [|lia].
      specialize (Inv (a_typ a) (a_key a)). destruct (cur s (a_typ a) (a_key a) (max_supp (a_typ a))) as [c|] eqn:Ec.
      * destruct Inv as [_ [_ Inv]]. specialize (Inv a' Ha' Hk'). specialize (Hlt c eq_refl). lia.
      * specialize (Inv a' Ha'). congruence.
    + rewrite (insert_other_key s a t k (max_supp t) Ek). specialize (Inv t k).
      destruct (cur s t k (max_supp t)) as [c|].
      * destruct Inv as [Hin [Hk Hmax]]. split; [apply in_or_app; left; exact Hin|]. split; [exact Hk|].
        intros a' Ha' Hk'. apply in_app_or in Ha'. destruct Ha' as [Ha'|[<-|[]]]; [apply Hmax; assumption|congruence].
      * intros a' Ha'. apply in_app_or in Ha'. destruct Ha' as [Ha'|[<-|[]]]; [apply Inv; exact Ha'|exact Ek].
  - destruct (put_refused _ _ _ E) as [-> _]. cbn [fst snd]. exact Inv.
Qed.

Lemma highest_run : forall l s acc, highest_inv s acc -> supported l ->
  highest_inv (fst (fold_left add_step l (s, acc))) (snd (fold_left add_step l (s, acc))).
Proof.
  induction l as [|a l IH]; intros s acc Inv Hs; cbn [fold_left]; [exact Inv|].
  pose proof (highest_step s acc a Inv (Hs a (or_introl eq_refl))) as Hst.
  destruct (add_step (s, acc) a) as [s1 acc1]. apply IH; [exact Hst|]. intros x Hx. apply Hs. right. exact Hx.
Qed.

Theorem highest_added : forall l, supported l ->
  forall t k,
    match get (fst (adds_run l)) t k (max_supp t) with
    | Some c => In c (snd (adds_run l)) /\ same_key t k c = true /\
                forall a, In a (snd (adds_run l)) -> same_key t k a = true -> a_rev a <= a_rev c
    | None => forall a, In a (snd (adds_run l)) -> same_key t k a = false
    end.
Proof.
  intros l Hs. unfold adds_run.
  apply (highest_run l [] [] (fun t k a H => match H with end) Hs).
Qed.

(* the accepted adds are adds of the history *)
Lemma accepted_sub : forall l s acc, (forall a, In a acc -> In a (acc ++ l)) ->
  forall a, In a (snd (fold_left add_step l (s, acc))) -> In a (acc ++ l).
Proof.
  induction l as [|x l IH]; intros s acc _ a H; cbn [fold_left] in H.
  - rewrite app_nil_r. exact H.
  - unfold add_step at 2 in H. destruct (put s x) as [s' r]. destruct r.
    + apply (IH s' (acc ++ [x])) in H; [rewrite <- app_assoc in H; exact H|]. intros y Hy. apply in_or_app. left. exact Hy.
    + apply (IH s' acc) in H; [|intros y Hy; apply in_or_app; left; exact Hy].
      apply in_app_or in H. apply in_or_app. destruct H; [left; assumption|right; right; assumption].
    + apply (IH s' acc) in H; [|intros y Hy; apply in_or_app; left; exact Hy].
      apply in_app_or in H. apply in_or_app. destruct H; [left; assumption|right; right; assumption].
    + apply (IH s' acc) in H; [|intros y Hy; apply in_or_app; left; exact Hy].
      apply in_app_or in H. apply in_or_app. destruct H; [left; assumption|right; right; assumption].
Qed.

(* ------------------------------------------------------------------ database layer *)
Theorem db_clash_refused : forall d a,
  a_fmt a <= max_supp (a_typ a) ->
  in_keys (a_typ a) (a_key a) (d_trusted d) || in_keys (a_typ a) (a_key a) (d_predefined d) = true ->
  db_add d a = (d, Clash).
Proof.
  intros d a Hf Hc. unfold db_add. replace (max_supp (a_typ a) <? a_fmt a) with false by lia. rewrite Hc. reflexivity.
Qed.

Theorem db_unsupported_refused : forall d a, max_supp (a_typ a) < a_fmt a -> db_add d a = (d, Unsupported).
Proof. intros d a H. unfold db_add. replace (max_supp (a_typ a) <? a_fmt a) with true by lia. reflexivity. Qed.

Theorem db_refused_changes_nothing : forall d a d' r, db_add d a = (d', r) -> r <> Accepted -> d' = d.
Proof.
  intros d a d' r H Hr. unfold db_add in H.
  destruct (max_supp (a_typ a) <? a_fmt a); [inversion H; reflexivity|].
  destruct (in_keys (a_typ a) (a_key a) (d_trusted d) || in_keys (a_typ a) (a_key a) (d_predefined d)); [inversion H; reflexivity|].
  destruct (put (d_bs d) a) as [s' r'] eqn:E. inversion H; subst.
  destruct (put_result _ _ _ _ E) as [-> | ->]; [congruence|].
  destruct (put_refused _ _ _ E) as [-> _]. destruct d; reflexivity.
Qed.

(* ------------------------------------------------------------------ sequence lookup *)
Lemma pick_min : forall l r, pick (fun x b => a_seq x <? a_seq b) l = Some r ->
  In r l /\ forall x, In x l -> a_seq r <= a_seq x.
Proof.
  induction l as [|y l IH]; intros r H; cbn in H; [discriminate|].
  destruct (pick (fun x b => a_seq x <? a_seq b) l) as [b|] eqn:E.
  - destruct (IH b eq_refl) as [Hin Hmin]. destruct (a_seq y <? a_seq b) eqn:L; inversion H; subst.
    + split; [left; reflexivity|]. intros x [->|Hx]; [lia|]. specialize (Hmin x Hx). lia.
    + split; [right; exact Hin|]. intros x [->|Hx]; [lia|apply Hmin; exact Hx].
  - inversion H; subst. split; [left; reflexivity|]. intros x [->|Hx]; [lia|].
    destruct l; [contradiction|]. cbn in E.
    destruct (pick (fun x b => a_seq x <? a_seq b) l); [destruct (a_seq a <? a_seq a0)|]; discriminate.
Qed.

Lemma pick_max : forall l r, pick (fun x b => a_seq b <? a_seq x) l = Some r ->
  In r l /\ forall x, In x l -> a_seq x <= a_seq r.
Proof.
  induction l as [|y l IH]; intros r H; cbn in H; [discriminate|].
  destruct (pick (fun x b => a_seq b <? a_seq x) l) as [b|] eqn:E.
  - destruct (IH b eq_refl) as [Hin Hmax]. destruct (a_seq b <? a_seq y) eqn:L; inversion H; subst.
    + split; [left; reflexivity|]. intros x [->|Hx]; [lia|]. specialize (Hmax x Hx). lia.
    + split; [right; exact Hin|]. intros x [->|Hx]; [lia|apply Hmax; exact Hx].
  - inversion H; subst. split; [left; reflexivity|]. intros x [->|Hx]; [lia|].
    destruct l; [contradiction|]. cbn in E.
    destruct (pick (fun x b => a_seq b <? a_seq x) l); [destruct (a_seq a0 <? a_seq a)|]; discriminate.
Qed.

Definition members (s : store) (t : N) (prefix : list bytes) (maxf : N) : list asn :=
  currents s t maxf (fun x => key_eqb (prefix_of (a_key x)) prefix).

(* the sequence lookup returns a current member of the sequence: the one with the smallest sequence number above
   [after], or the one with the largest sequence number for after = -1 *)
Theorem sequence_lookup : forall s t prefix after maxf r,
  seq_after s t prefix after maxf = Some r ->
  In r (members s t prefix maxf) /\
  if (after =? -1)%Z then forall x, In x (members s t prefix maxf) -> a_seq x <= a_seq r
  else (after < Z.of_N (a_seq r))%Z /\
       forall x, In x (members s t prefix maxf) -> (after < Z.of_N (a_seq x))%Z -> a_seq r <= a_seq x.
Proof.
  intros s t prefix after maxf r H. unfold seq_after in H. fold (members s t prefix maxf) in H.
  destruct (after =? -1)%Z.
  - apply pick_max in H. exact H.
  - apply pick_min in H. destruct H as [Hin Hmin]. apply filter_In in Hin. destruct Hin as [Hin Haf].
    split; [exact Hin|]. split; [lia|]. intros x Hx Hxa. apply Hmin. apply filter_In. split; [exact Hx|lia].
Qed.

Theorem accepted_from_history : forall l a, In a (snd (adds_run l)) -> In a l.
Proof.
  intros l a H. unfold adds_run in H. apply (accepted_sub l [] []) in H; [exact H|]. intros x [].
Qed.

(* ------------------------------------------------------------------ search *)
Lemma insert_tag_in : forall x l y, In y (insert_tag x l) <-> y = x \/ In y l.
Proof.
  intros x. induction l as [|z r IH]; intro y; cbn [insert_tag].
  - cbn. split; [intros [H|[]]; left; congruence|intros [H|[]]; left; congruence].
  - destruct (x <? z) eqn:L.
    + cbn. split; [intros [H|H]; [left; congruence|right; exact H]|intros [H|H]; [left; congruence|right; exact H]].
    + destruct (x =? z) eqn:E.
      * apply N.eqb_eq in E. subst z. cbn. split; [intro H; right; exact H|intros [H|H]; [left; congruence|exact H]].
      * cbn [In]. rewrite IH. split; [intros [H|[H|H]]; auto|intros [H|[H|H]]; auto].
Qed.

Lemma tags_of_in : forall l y, In y (tags_of l) <-> exists a, In a l /\ a_tag a = y.
Proof.
  induction l as [|a l IH]; intro y; cbn.
  - split; [contradiction|intros [a [[] _]]].
  - unfold tags_of in *. cbn. rewrite insert_tag_in. rewrite IH. split.
    + intros [->|[b [Hb Ht]]]; [exists a; auto|exists b; auto].
    + intros [b [[<-|Hb] Ht]]; [left; auto|right; exists b; auto].
Qed.

Lemma currents_in : forall s t maxf p c, In c (currents s t maxf p) <->
  exists x, In x s /\ a_typ x = t /\ p x = true /\ cur s t (a_key x) maxf = Some c.
Proof.
  intros s t maxf p c. unfold currents. rewrite in_flat_map. split.
  - intros [x [Hx Hc]]. destruct ((a_typ x =? t) && p x) eqn:E; [|contradiction].
    apply andb_true_iff in E. destruct E as [E1 E2]. apply N.eqb_eq in E1.
    destruct (cur s t (a_key x) maxf) as [c0|] eqn:Ec; [|contradiction]. destruct Hc as [<-|[]]. exists x. auto.
  - intros [x [Hx [Ht [Hp Hc]]]]. exists x. split; [exact Hx|]. rewrite Ht, N.eqb_refl, Hp, Hc. left. reflexivity.
Qed.

Lemma cur_key : forall s t k m c, cur s t k m = Some c -> In c s /\ a_typ c = t /\ a_key c = k /\ a_fmt c <= m.
Proof.
  intros s t k m c H. rewrite cur_unfold in H. apply best_in in H. apply filter_In in H. destruct H as [Hin Hs].
  unfold sel in Hs. apply andb_true_iff in Hs. destruct Hs as [Hk Hf]. apply same_key_iff in Hk. destruct Hk. repeat split; auto. lia.
Qed.

(* Search is sound: everything it returns is the current assertion of a stored key that matches the given headers *)
Theorem search_sound : forall s t hint m tg, In tg (search s t hint m) ->
  exists c, a_tag c = tg /\ In c s /\ a_typ c = t /\ hint_match hint (a_key c) = true /\ cur s t (a_key c) m = Some c.
Proof.
  intros s t hint m tg H. unfold search in H. apply tags_of_in in H. destruct H as [c [Hc Ht]].
  apply currents_in in Hc. destruct Hc as [x [Hx [Htx [Hp Hcur]]]].
  destruct (cur_key _ _ _ _ _ Hcur) as [Hin [Hty [Hk _]]]. exists c. rewrite Hk. auto.
Qed.

(* ... and complete: every stored key that matches the given headers and has a current assertion is returned *)
Theorem search_complete : forall s t hint m x c,
  In x s -> a_typ x = t -> hint_match hint (a_key x) = true -> cur s t (a_key x) m = Some c ->
  In (a_tag c) (search s t hint m).
Proof.
  intros s t hint m x c Hx Ht Hh Hc. unfold search. apply tags_of_in. exists c. split; [|reflexivity].
  apply currents_in. exists x. auto.
Qed.

(* with all primary-key headers given (none empty) a search is a get *)
Lemma hint_match_full : forall k k', forallb (fun c => negb (is_nil_b c)) k = true -> hint_match k k' = key_eqb k k'.
Proof.
  induction k as [|h k IH]; intros k' H; destruct k' as [|x k']; cbn in *; try reflexivity.
  apply andb_true_iff in H. destruct H as [H1 H2]. apply negb_true_iff in H1. rewrite H1. cbn. rewrite (IH k' H2). reflexivity.
Qed.

Theorem search_after_put : forall s a s',
  put s a = (s', Accepted) -> a_fmt a <= max_supp (a_typ a) ->
  forallb (fun c => negb (is_nil_b c)) (a_key a) = true ->
  search s' (a_typ a) (a_key a) (max_supp (a_typ a)) = [a_tag a].
Proof.
  intros s a s' H Hf Hne. destruct (put_accepted _ _ _ H Hf) as [-> [Hcur _]].
  assert (Hall : forall c, In c (currents (insert a s) (a_typ a) (max_supp (a_typ a)) (fun x => hint_match (a_key a) (a_key x))) -> c = a).
  { intros c Hc. apply currents_in in Hc. destruct Hc as [x [_ [_ [Hp Hc]]]]. rewrite (hint_match_full _ _ Hne) in Hp.
    apply key_eqb_true_iff in Hp. rewrite <- Hp in Hc. rewrite Hcur in Hc. congruence. }
  assert (Hin : In a (currents (insert a s) (a_typ a) (max_supp (a_typ a)) (fun x => hint_match (a_key a) (a_key x)))).
  { apply currents_in. exists a. split; [left; reflexivity|]. split; [reflexivity|]. split; [|exact Hcur].
    rewrite (hint_match_full _ _ Hne). apply key_eqb_true_iff. reflexivity. }
  unfold search. revert Hall Hin. generalize (currents (insert a s) (a_typ a) (max_supp (a_typ a)) (fun x => hint_match (a_key a) (a_key x))).
  induction l as [|c l IH]; intros Hall Hin; [contradiction|].
  assert (c = a) by (apply Hall; left; reflexivity). subst c. unfold tags_of in *. cbn [fold_right].
  destruct l as [|c2 l2]; [reflexivity|].
  rewrite IH; [|intros c Hc; apply Hall; right; exact Hc|left; apply Hall; right; left; reflexivity].
  cbn. rewrite N.ltb_irrefl, N.eqb_refl. reflexivity.
Qed.

(* the file-name view of Search gives the same result for EVERY injective escape function *)
Lemma pat_match_injective : forall esc, (forall a b, esc a = esc b -> a = b) ->
  forall hint k, pat_match esc hint k = hint_match hint k.
Proof.
  intros esc Hinj. induction hint as [|h hint IH]; intros k; destruct k as [|x k]; cbn; try reflexivity.
  rewrite IH. f_equal. f_equal. destruct (beq h x) eqn:E.
  - apply beq_true_iff in E. subst. apply beq_true_iff. reflexivity.
  - destruct (beq (esc h) (esc x)) eqn:E2; [|reflexivity]. apply beq_true_iff in E2. apply Hinj in E2. subst.
    assert (beq x x = true) by (apply beq_true_iff; reflexivity). congruence.
Qed.

Lemma currents_ext : forall s t m p q, (forall x, p x = q x) -> currents s t m p = currents s t m q.
Proof.
  intros s t m p q H. unfold currents. generalize s at 2 4. induction s0 as [|x r IH]; [reflexivity|].
  cbn. rewrite H, IH. reflexivity.
Qed.

Theorem search_esc_injective : forall esc, (forall a b, esc a = esc b -> a = b) ->
  forall s t hint m, search_esc esc s t hint m = search s t hint m.
Proof.
  intros esc Hinj s t hint m. unfold search_esc, search. f_equal. apply currents_ext. intro x. apply pat_match_injective. exact Hinj.
Qed.

(* path cleaning: keys without "." and ".." components keep their path; with them two keys can share one *)
Lemma clean_from : forall k acc, forallb (fun c => negb (is_dot c)) k = true ->
  fold_left (fun acc c => if beq c DOT then acc else if beq c DOTDOT then removelast acc else acc ++ [c]) k acc = acc ++ k.
Proof.
  induction k as [|c k IH]; intros acc H; cbn [fold_left]; [rewrite app_nil_r; reflexivity|].
  cbn in H. apply andb_true_iff in H. destruct H as [H1 H2]. apply negb_true_iff in H1. unfold is_dot in H1.
  apply orb_false_iff in H1. destruct H1 as [Ha Hb]. rewrite Ha, Hb. rewrite (IH _ H2). rewrite <- app_assoc. reflexivity.
Qed.

Theorem clean_dot_free : forall k, forallb (fun c => negb (is_dot c)) k = true -> clean_path k = k.
Proof. intros k H. unfold clean_path. rewrite (clean_from k [] H). reflexivity. Qed.

(* ------------------------------------------------------------------ the repaired escape of the filesystem backstore *)
Lemma unhex_hex : forall d, unhex (hex_digit d) = d.
Proof. intro d. unfold unhex, hex_digit. destruct (d <? 10) eqn:E; [destruct (48 + d <? 58) eqn:E2|destruct (55 + d <? 58) eqn:E2]; lia. Qed.

Lemma unreserved_plain : forall c, unreserved c = true -> (c =? 43) = false /\ (c =? 37) = false /\ (c =? 47) = false.
Proof. intros c H. unfold unreserved, is_alpha, is_lower, is_upper, is_digit in H. lia. Qed.

Theorem unescape_query_escape : forall s, unescape (query_escape s) = s.
Proof.
  induction s as [|c r IH]; [reflexivity|]. cbn [query_escape]. destruct (unreserved c) eqn:U.
  - destruct (unreserved_plain c U) as [H1 [H2 _]]. cbn [unescape]. rewrite H1, H2, IH. reflexivity.
  - destruct (c =? 32) eqn:E.
    + apply N.eqb_eq in E. subst c. cbn [unescape]. rewrite N.eqb_refl, IH. reflexivity.
    + cbn [unescape]. change (37 =? 43) with false. change (37 =? 37) with true. cbn iota. rewrite !unhex_hex, IH.
      f_equal. pose proof (N.div_mod c 16 ltac:(lia)). lia.
Qed.

Theorem unescape_escape_comp : forall s, unescape (escape_comp s) = s.
Proof.
  intro s. unfold escape_comp. pose proof (unescape_query_escape s) as H.
  destruct (beq (query_escape s) [46]) eqn:E1.
  - apply beq_true_iff in E1. rewrite E1 in H. rewrite <- H. reflexivity.
  - destruct (beq (query_escape s) [46; 46]) eqn:E2; [|exact H].
    apply beq_true_iff in E2. rewrite E2 in H. rewrite <- H. reflexivity.
Qed.

Theorem escape_comp_injective : forall a b, escape_comp a = escape_comp b -> a = b.
Proof. intros a b H. rewrite <- (unescape_escape_comp a), <- (unescape_escape_comp b), H. reflexivity. Qed.

Lemma hex_digit_no_slash : forall d, (hex_digit d =? 47) = false.
Proof. intro d. unfold hex_digit. destruct (d <? 10); lia. Qed.

Lemma query_escape_no_slash : forall s, existsb (fun c => c =? 47) (query_escape s) = false.
Proof.
  induction s as [|c r IH]; [reflexivity|]. cbn [query_escape]. destruct (unreserved c) eqn:U.
  - destruct (unreserved_plain c U) as [_ [_ H3]]. cbn [existsb]. rewrite H3, IH. reflexivity.
  - destruct (c =? 32); cbn [existsb]; rewrite ?hex_digit_no_slash, IH; reflexivity.
Qed.

(* the name of the directory is never "." or "..", is not empty unless the value is, and contains no path separator *)
Theorem escape_comp_safe : forall s,
  is_dot (escape_comp s) = false /\ existsb (fun c => c =? 47) (escape_comp s) = false /\ (escape_comp s = [] -> s = []).
Proof.
  intro s. unfold escape_comp. destruct (beq (query_escape s) [46]) eqn:E1; [repeat split; try reflexivity; discriminate|].
  destruct (beq (query_escape s) [46; 46]) eqn:E2; [repeat split; try reflexivity; discriminate|].
  split; [unfold is_dot, DOT, DOTDOT; rewrite E1, E2; reflexivity|]. split; [apply query_escape_no_slash|].
  intro H. rewrite <- (unescape_query_escape s), H. reflexivity.
Qed.

Theorem escaped_path_kept : forall k, clean_path (map escape_comp k) = map escape_comp k.
Proof.
  intro k. apply clean_dot_free. apply forallb_forall. intros x Hx. apply in_map_iff in Hx. destruct Hx as [y [<- _]].
  destruct (escape_comp_safe y) as [H _]. rewrite H. reflexivity.
Qed.

(* distinct primary keys, distinct files *)
Theorem distinct_keys_distinct_files : forall k1 k2,
  clean_path (map escape_comp k1) = clean_path (map escape_comp k2) -> k1 = k2.
Proof.
  intros k1 k2 H. rewrite !escaped_path_kept in H. revert k2 H.
  induction k1 as [|a k1 IH]; intros [|b k2] H; cbn in H; try discriminate; [reflexivity|].
  inversion H as [[Ha Hk]]. apply escape_comp_injective in Ha. subst. f_equal. apply IH. exact Hk.
Qed.

Theorem search_repaired_escape : forall s t hint m, search_esc escape_comp s t hint m = search s t hint m.
Proof. apply search_esc_injective. exact escape_comp_injective. Qed.
