(* Proofs about models/TaskEngine.v, part 3 (C03): over every history in which user aborts hit unready changes only the engine never panics,
   the ready flag equals `every task is ready`, and running handlers belong to unready tasks. Stdlib only. *)
From Coq Require Import List NArith ZArith Bool Arith Lia.
Import ListNotations.
Require Import V.models.TaskEngine V.proofs.TaskEngineProofs V.proofs.TaskEngineStatus.

Definition unr (x : status) : bool := match x with Doing | Undoing | Abort => true | _ => false end.

Lemma unr_unready : forall x, unr x = true -> ready x = false.
Proof. destruct x; simpl; intros; congruence. Qed.

Definition stl (l : list task) (t : nat) : status := t_st (nth t l dummy).

(* ------------------------------------------------------------------ all_ready / others_ready under updates *)
Lemma all_ready_split : forall l t, t < length l -> all_ready l = ready (stl l t) && others_ready l t.
Proof.
  induction l as [|a l IH]; intros t H; simpl in H; [lia|].
  destruct t; unfold stl; simpl.
  - reflexivity.
  - rewrite (IH t) by lia. unfold stl. rewrite !andb_assoc. f_equal. apply andb_comm.
Qed.

Lemma others_ready_upd : forall l t f, others_ready (upd l t f) t = others_ready l t.
Proof. induction l as [|a l IH]; intros [|t] f; simpl; auto. rewrite IH; reflexivity. Qed.

Lemma stl_upd_same : forall l t nw, t < length l -> stl (upd l t (fun tk => set_st tk nw)) t = nw.
Proof. intros; unfold stl; rewrite nth_upd_same by assumption; reflexivity. Qed.

Lemma stl_upd_other : forall l t u f, t <> u -> stl (upd l t f) u = stl l u.
Proof. intros; unfold stl; rewrite nth_upd_other by assumption; reflexivity. Qed.

Lemma all_ready_upd : forall l t nw, t < length l ->
  all_ready (upd l t (fun tk => set_st tk nw)) = ready nw && others_ready l t.
Proof.
  intros. rewrite (all_ready_split _ t) by (rewrite upd_length; assumption).
  rewrite stl_upd_same by assumption. rewrite others_ready_upd. reflexivity.
Qed.

Lemma others_ready_false : forall l t t0, t0 <> t -> t0 < length l -> ready (stl l t0) = false -> others_ready l t = false.
Proof.
  induction l as [|a l IH]; intros t t0 Hn Hlt Hr; simpl in Hlt; [lia|].
  destruct t, t0; unfold stl in *; simpl in *; try congruence.
  - (* t = 0, t0 = S _ *)
    apply not_true_is_false; intros F. rewrite forallb_forall in F.
    assert (In (nth t0 l dummy) l) by (apply nth_In; lia).
    rewrite (F _ H) in Hr; discriminate.
  - rewrite Hr; reflexivity.
  - rewrite (IH t t0); [apply andb_false_r | congruence | lia | assumption].
Qed.

Lemma all_ready_false : forall l t0, t0 < length l -> ready (stl l t0) = false -> all_ready l = false.
Proof. intros. rewrite (all_ready_split l t0) by assumption. rewrite H0; reflexivity. Qed.

Lemma stl_out : forall l t, length l <= t -> stl l t = Hold.
Proof. intros; unfold stl; rewrite nth_overflow by assumption; reflexivity. Qed.

Lemma in_range : forall l t, stl l t <> Hold -> t < length l.
Proof. intros l t H. destruct (Nat.lt_ge_cases t (length l)); [assumption|]. rewrite stl_out in H by assumption. congruence. Qed.

(* status-irrelevant updates *)
Lemma map_st_upd_irrel : forall l t f, (forall tk, t_st (f tk) = t_st tk) -> map t_st (upd l t f) = map t_st l.
Proof. induction l as [|a l IH]; intros [|t] f H; simpl; auto; rewrite ?H, ?IH; auto. Qed.

Lemma all_ready_map : forall l, all_ready l = forallb ready (map t_st l).
Proof. induction l; simpl; auto. rewrite IHl; reflexivity. Qed.

Lemma stl_map : forall l t, stl l t = nth t (map t_st l) Hold.
Proof. intros; unfold stl. change Hold with (t_st dummy). rewrite map_nth. reflexivity. Qed.

(* ------------------------------------------------------------------ the invariant *)
Record inv (s : state) : Prop := mkInv {
  i_np : panicked s = false;
  i_rd : cready s = all_ready (tasks s);
  i_run : forall t, In t (running s) -> unr (st s t) = true
}.

(* one write whose source status is unready *)
Lemma write_unready_src : forall s t nw,
  panicked s = false -> cready s = all_ready (tasks s) -> ready (st s t) = false ->
  let s' := change_st s t nw in
  panicked s' = false /\ cready s' = all_ready (tasks s') /\ running s' = running s /\ length (tasks s') = length (tasks s)
  /\ st s' t = nw /\ (forall u, u <> t -> st s' u = st s u).
Proof.
  intros s t nw Hp Hc Hsrc. unfold change_st.
  assert (Hlt : t < length (tasks s)).
  { apply in_range. unfold st, get in Hsrc. unfold stl. intros E. rewrite E in Hsrc. discriminate. }
  destruct (seqb (st s t) nw) eqn:Eq.
  - apply seqb_eq in Eq. cbv zeta. repeat split; auto.
  - set (s1 := with_tasks s (upd (tasks s) t (fun tk => set_st tk nw))).
    assert (T1 : tasks s1 = upd (tasks s) t (fun tk => set_st tk nw)) by reflexivity.
    assert (A0 : all_ready (tasks s) = false).
    { apply all_ready_false with t; [assumption | exact Hsrc]. }
    assert (A1 : all_ready (tasks s1) = ready nw && others_ready (tasks s) t).
    { rewrite T1. apply all_ready_upd; assumption. }
    assert (S1 : st s1 t = nw) by (unfold st, get; rewrite T1; apply stl_upd_same; assumption).
    assert (S2 : forall u, u <> t -> st s1 u = st s u).
    { intros u Hu; unfold st, get; rewrite T1. apply (stl_upd_other (tasks s) t u); congruence. }
    assert (L1 : length (tasks s1) = length (tasks s)) by (rewrite T1; apply upd_length).
    rewrite Hsrc. cbv zeta. fold s1.
    destruct (ready nw) eqn:Ern; simpl Bool.eqb.
    + rewrite T1, others_ready_upd.
      destruct (others_ready (tasks s) t) eqn:Eo.
      * assert (Cf : cready s1 = false) by (change (cready s1) with (cready s); rewrite Hc; exact A0).
        rewrite Cf. simpl andb. cbv iota.
        repeat split; auto; simpl; rewrite A1; reflexivity.
      * repeat split; auto. change (cready s1) with (cready s). rewrite A1, Hc, A0. reflexivity.
    + repeat split; auto. change (cready s1) with (cready s). rewrite A1, Hc, A0. reflexivity.
Qed.

Lemma set_status_unready_src : forall s t nw,
  panicked s = false -> cready s = all_ready (tasks s) -> ready (st s t) = false ->
  let s' := set_status s t nw in
  panicked s' = false /\ cready s' = all_ready (tasks s') /\ running s' = running s /\ length (tasks s') = length (tasks s)
  /\ (st s' t = nw \/ (nw = Done /\ st s t = Abort /\ st s' t = Abort)) /\ (forall u, u <> t -> st s' u = st s u).
Proof.
  intros s t nw Hp Hc Hsrc. unfold set_status. rewrite Hp.
  destruct (seqb nw Done && seqb (st s t) Abort) eqn:E.
  - apply andb_true_iff in E; destruct E as [E1 E2]. apply seqb_eq in E1, E2. cbv zeta. repeat split; auto.
  - destruct (write_unready_src s t nw Hp Hc Hsrc) as (A & B & C & D & F & G). cbv zeta. repeat split; auto.
Qed.

(* inv is preserved by a write on a task that is not running, from an unready source, to any target *)
Lemma inv_set_status : forall s t nw,
  inv s -> ready (st s t) = false -> ~ In t (running s) -> inv (set_status s t nw).
Proof.
  intros s t nw [Hp Hc Hr] Hsrc Hnr.
  destruct (set_status_unready_src s t nw Hp Hc Hsrc) as (A & B & C & D & F & G).
  constructor; auto. intros u Hu. rewrite C in Hu. rewrite G; [auto|]. intros ->; contradiction.
Qed.

Lemma inv_try_undo : forall s t, inv s -> st s t = Abort -> ~ In t (running s) -> inv (try_undo s t).
Proof. intros s t H Hs Hn. unfold try_undo. des_if; apply inv_set_status; auto; rewrite Hs; reflexivity. Qed.

Lemma try_undo_result : forall s t, inv s -> st s t = Abort ->
  (st (try_undo s t) t = Hold \/ st (try_undo s t) t = Undo) /\ running (try_undo s t) = running s.
Proof.
  intros s t [Hp Hc Hr] Hs. unfold try_undo.
  assert (Hsrc : ready (st s t) = false) by (rewrite Hs; reflexivity).
  des_if.
  - destruct (set_status_unready_src s t Hold Hp Hc Hsrc) as (_ & _ & C & _ & [F|[F _]] & _); [auto | discriminate].
  - destruct (set_status_unready_src s t Undo Hp Hc Hsrc) as (_ & _ & C & _ & [F|[F _]] & _); [auto | discriminate].
Qed.

(* status-irrelevant task update keeps inv *)
Lemma inv_irrel : forall s t f, (forall tk, t_st (f tk) = t_st tk) -> inv s -> inv (with_tasks s (upd (tasks s) t f)).
Proof.
  intros s t f Hf [Hp Hc Hr].
  assert (M : map t_st (upd (tasks s) t f) = map t_st (tasks s)) by (apply map_st_upd_irrel; assumption).
  constructor; cbn [panicked cready running tasks with_tasks]; auto.
  - rewrite Hc, !all_ready_map, M. reflexivity.
  - intros u Hu. specialize (Hr u Hu). unfold st, get in *. cbn [tasks with_tasks].
    change (t_st (nth u (upd (tasks s) t f) dummy)) with (stl (upd (tasks s) t f) u).
    rewrite stl_map, M, <- stl_map. exact Hr.
Qed.

Lemma st_irrel : forall s t f u, (forall tk, t_st (f tk) = t_st tk) -> st (with_tasks s (upd (tasks s) t f)) u = st s u.
Proof.
  intros. unfold st, get; cbn [tasks with_tasks].
  change (stl (upd (tasks s) t f) u = stl (tasks s) u). rewrite !stl_map, map_st_upd_irrel by assumption. reflexivity.
Qed.

Lemma inv_ensure_rest : forall s t, inv s -> ~ In t (running s) -> st s t <> Abort -> inv (ensure_rest s t).
Proof.
  intros s t H Hn Hna. unfold ensure_rest.
  destruct (ready (st s t)) eqn:Er; [assumption|].
  destruct (seqb (st s t) Wait) eqn:Ew; [assumption|].
  destruct (must_wait s t); [assumption|].
  des_if; [apply inv_set_status; assumption|].
  des_if; [assumption|].
  (* run *)
  unfold run.
  set (s1 := match t_st (get s t) with Do => set_status s t Doing | Undo => set_status s t Undoing | _ => s end).
  assert (H1 : inv s1 /\ running s1 = running s /\ unr (st s1 t) = true).
  { destruct H as [Hp Hc Hr]. unfold s1. change (t_st (get s t)) with (st s t).
    apply seqb_neq in Ew.
    destruct (st s t) eqn:Es; try discriminate Er; try congruence.
    - destruct (set_status_unready_src s t Doing Hp Hc) as (A & B & C & D & [F|[F _]] & G); [rewrite Es; reflexivity | | discriminate].
      split; [|split; [assumption | rewrite F; reflexivity]].
      constructor; auto. intros u Hu. rewrite C in Hu. rewrite G; [auto | intros ->; contradiction].
    - split; [constructor; auto | split; [reflexivity | rewrite Es; reflexivity]].
    - destruct (set_status_unready_src s t Undoing Hp Hc) as (A & B & C & D & [F|[F _]] & G); [rewrite Es; reflexivity | | discriminate].
      split; [|split; [assumption | rewrite F; reflexivity]].
      constructor; auto. intros u Hu. rewrite C in Hu. rewrite G; [auto | intros ->; contradiction].
    - split; [constructor; auto | split; [reflexivity | rewrite Es; reflexivity]]. }
  destruct H1 as (I1 & R1 & U1).
  pose proof (inv_irrel s1 t (fun tk => set_at tk 0) (fun _ => eq_refl) I1) as I2.
  set (s2 := with_tasks s1 (upd (tasks s1) t (fun tk => set_at tk 0))) in *.
  destruct I2 as [Hp2 Hc2 Hr2].
  constructor; cbn [panicked cready running tasks with_slog with_running]; auto.
  intros u [<-|Hu].
  - change (unr (st s2 t) = true). unfold s2. rewrite st_irrel by reflexivity. exact U1.
  - apply Hr2. exact Hu.
Qed.

Lemma inv_ensure_one : forall s t, inv s -> inv (ensure_one s t).
Proof.
  intros s t H. unfold ensure_one.
  destruct (panicked s); [assumption|].
  destruct (memn t (running s)) eqn:Em; [assumption|].
  assert (Hn : ~ In t (running s)) by (intros F; apply memn_In in F; congruence).
  destruct (seqb (st s t) Abort) eqn:Ea.
  - apply seqb_eq in Ea. destruct (try_undo_result s t H Ea) as [R1 R2].
    apply inv_ensure_rest; [apply inv_try_undo; assumption | rewrite R2; assumption |].
    destruct R1 as [R1|R1]; rewrite R1; discriminate.
  - apply seqb_neq in Ea. apply inv_ensure_rest; assumption.
Qed.

Lemma inv_ensure_pass : forall order s, inv s -> inv (ensure_pass s order).
Proof. unfold ensure_pass; induction order; simpl; intros; auto using inv_ensure_one. Qed.

(* ------------------------------------------------------------------ an abort (Abort / AbortLanes, repaired code):
   the quiet rewrite leaves the flags alone and keeps unready-running statuses unready-running; readiness is then
   evaluated once on the final statuses *)
Definition qrel (s s' : state) : Prop :=
  panicked s' = panicked s /\ cready s' = cready s /\ running s' = running s /\
  length (tasks s') = length (tasks s) /\ (forall u, unr (st s u) = true -> unr (st s' u) = true).

Lemma qrel_refl : forall s, qrel s s.
Proof. intros; repeat split; auto. Qed.

Lemma unr_abort_write : forall s t u, unr (st s u) = true -> unr (st (abort_write s t) u) = true.
Proof.
  intros s t u Hu. unfold abort_write, eff_status.
  assert (Q : forall nw, (u = t -> unr nw = true) -> unr (st (set_status_quiet s t nw) u) = true).
  { intros nw Hn. destruct (st_set_status_quiet s t nw u) as [A|[A B]]; [rewrite A; assumption | rewrite B; auto]. }
  destruct (Nat.eq_dec u t) as [->|Hn].
  - unfold st in Hu. destruct (t_st (get s t)) eqn:Es; try discriminate Hu; simpl seqb; cbv iota;
      try (unfold st; rewrite Es; reflexivity).
    apply Q; reflexivity.
  - destruct (if seqb (t_st (get s t)) Wait then t_waited (get s t) else t_st (get s t)); try assumption;
      apply Q; intros; congruence.
Qed.

Lemma fields_set_status_quiet : forall s t nw,
  panicked (set_status_quiet s t nw) = panicked s /\ cready (set_status_quiet s t nw) = cready s /\
  running (set_status_quiet s t nw) = running s /\ length (tasks (set_status_quiet s t nw)) = length (tasks s).
Proof.
  intros; unfold set_status_quiet, with_tasks; des_if; cbn [panicked cready running tasks]; repeat split; auto.
  apply upd_length.
Qed.

Lemma fields_abort_write : forall s t,
  panicked (abort_write s t) = panicked s /\ cready (abort_write s t) = cready s /\
  running (abort_write s t) = running s /\ length (tasks (abort_write s t)) = length (tasks s).
Proof. intros; unfold abort_write; destruct (eff_status (get s t)); auto using fields_set_status_quiet. Qed.

Lemma qrel_abort_write : forall s s' t, qrel s s' -> qrel s (abort_write s' t).
Proof.
  intros s s' t (A & B & C & D & E). destruct (fields_abort_write s' t) as (A' & B' & C' & D').
  unfold qrel. rewrite A', B', C', D'. repeat split; auto. intros u Hu. apply unr_abort_write; auto.
Qed.

Lemma qrel_oof : forall s s', qrel s s' -> qrel s (with_oof s' true).
Proof. intros s s' (A & B & C & D & E). repeat split; auto. Qed.

Lemma qrel_abort_lanes : forall d kill al seen s, qrel s (abort_lanes d kill al seen s).
Proof. intros. apply (abort_lanes_P (qrel s)); auto using qrel_abort_write, qrel_oof, qrel_refl. Qed.

Lemma qrel_abort_tasks : forall d wl al seen s, qrel s (abort_tasks d wl al seen s).
Proof. intros. apply (abort_tasks_P (qrel s)); auto using qrel_abort_write, qrel_oof, qrel_refl. Qed.

Lemma running_ready_detect : forall s, running (ready_detect s) = running s.
Proof. intros; unfold ready_detect, with_cready, with_panicked; repeat des_if; reflexivity. Qed.

(* an abort applied to a change that is not flagged ready keeps the invariant: no panic, and the change is flagged
   ready afterwards exactly when every task is ready *)
Lemma inv_detect : forall s s', inv s -> cready s = false -> qrel s s' -> inv (ready_detect s').
Proof.
  intros s s' [Hp Hc Hr] Hf (A & B & C & D & E).
  assert (R' : forall t, In t (running s') -> unr (st s' t) = true) by (intros t Ht; rewrite C in Ht; auto).
  unfold ready_detect. rewrite B, Hf.
  destruct (all_ready (tasks s')) eqn:Ea.
  - constructor; cbn [panicked cready running tasks with_cready]; auto. rewrite A; assumption.
  - constructor; auto; [rewrite A; assumption | rewrite B, Hf, Ea; reflexivity].
Qed.

Lemma inv_abort_change : forall s, inv s -> cready s = false -> inv (abort_change s).
Proof. intros s H Hf. unfold abort_change. eapply inv_detect; eauto using qrel_abort_tasks. Qed.

Lemma inv_finish : forall s t o, inv s -> inv (finish s t o).
Proof.
  intros s t o H. unfold finish.
  destruct (panicked s) eqn:Ep; [assumption|].
  destruct (memn t (running s)) eqn:Em; simpl negb; cbv iota; [|assumption].
  apply memn_In in Em.
  pose proof H as [Hp Hc Hr].
  pose proof (Hr t Em) as Ut.
  set (s0 := remove_running s t).
  assert (I0 : inv s0).
  { constructor; auto. intros u Hu. unfold s0, remove_running, with_running in Hu; cbn [running] in Hu.
    apply filter_In in Hu. apply Hr. tauto. }
  assert (N0 : ~ In t (running s0)).
  { unfold s0, remove_running, with_running; cbn [running]. intros F. apply filter_In in F. destruct F as [_ F].
    rewrite Nat.eqb_refl in F. discriminate. }
  assert (Src : ready (st s0 t) = false) by (apply unr_unready; exact Ut).
  destruct o.
  - change (st s0 t) with (st s t). destruct (st s t); try discriminate Ut; apply inv_set_status; auto.
  - (* error path: AbortLanes on the task's lanes, then Error *)
    assert (Hlt : t < length (tasks s0)).
    { apply in_range. change (stl (tasks s0) t) with (st s t). intros E. rewrite E in Ut. discriminate. }
    assert (Cf : cready s0 = false).
    { destruct I0 as [_ Hc0 _]. rewrite Hc0. apply all_ready_false with t; [assumption | exact Src]. }
    unfold abort_lanes_top.
    set (s1 := abort_lanes (depth_fuel s0) (lanes_of (get s0 t)) [] [] s0).
    pose proof (qrel_abort_lanes (depth_fuel s0) (lanes_of (get s0 t)) [] [] s0) as Q. fold s1 in Q.
    pose proof (inv_detect s0 s1 I0 Cf Q) as I1.
    destruct Q as (_ & _ & C & _ & E).
    apply inv_set_status; auto.
    + rewrite st_ready_detect. apply unr_unready. apply E. exact Ut.
    + rewrite running_ready_detect, C. exact N0.
  - destruct (seqb (st s0 t) Abort) eqn:Ea.
    + apply seqb_eq in Ea. apply inv_try_undo; assumption.
    + des_if; [assumption|]. apply inv_irrel; [reflexivity | assumption].
  - destruct (seqb (st s0 t) Abort) eqn:Ea.
    + apply seqb_eq in Ea. apply inv_try_undo; assumption.
    + unfold set_to_wait. destruct I0 as [Hp0 Hc0 Hr0]. rewrite Hp0, Ea.
      pose proof (inv_irrel s0 t (fun tk => set_waited tk (if undone then Undone else Done)) (fun _ => eq_refl)
                            (mkInv s0 Hp0 Hc0 Hr0)) as I2.
      set (s2 := with_tasks s0 (upd (tasks s0) t (fun tk => set_waited tk (if undone then Undone else Done)))) in *.
      assert (E2 : st s2 t = st s0 t) by (unfold s2; apply st_irrel; reflexivity).
      destruct I2 as [Hp2 Hc2 Hr2].
      destruct (write_unready_src s2 t Wait Hp2 Hc2) as (A & B & C & D & F & G); [rewrite E2; exact Src|].
      constructor; auto. intros u Hu. rewrite C in Hu. rewrite G; [auto|]. intros ->. apply N0. exact Hu.
Qed.

Lemma inv_resolve : forall s t, inv s -> inv (resolve_wait s t).
Proof.
  intros s t H. unfold resolve_wait. destruct (seqb (st s t) Wait) eqn:E; [|assumption].
  apply seqb_eq in E. apply inv_set_status; auto.
  - rewrite E; reflexivity.
  - intros F. destruct H as [_ _ Hr]. specialize (Hr t F). rewrite E in Hr. discriminate.
Qed.

Definition no_uabort (e : event) : Prop := match e with UAbort => False | _ => True end.

(* user aborts are issued on changes that are not (yet) reported ready, as daemon.abortChange and Prune do *)
Fixpoint guarded (s : state) (es : list event) : Prop :=
  match es with
  | [] => True
  | e :: r => (e = UAbort -> cready s = false) /\ guarded (step s e) r
  end.

Lemma inv_step : forall s e, (e = UAbort -> cready s = false) -> inv s -> inv (step s e).
Proof.
  intros s e He H. destruct e; simpl in *.
  - apply inv_ensure_pass; assumption.
  - apply inv_finish; assumption.
  - destruct (panicked s); [assumption|]. apply inv_abort_change; auto.
  - destruct H as [Hp Hc Hr]. constructor; auto.
  - des_if; [assumption|]. apply inv_resolve; assumption.
Qed.

Lemma inv_run_events : forall es s, guarded s es -> inv s -> inv (run_events s es).
Proof.
  unfold run_events. induction es; simpl; intros s Hg H; [assumption|].
  destruct Hg as [Hg1 Hg2]. apply IHes; [assumption | apply inv_step; assumption].
Qed.

Lemma guarded_no_uabort : forall es s, Forall no_uabort es -> guarded s es.
Proof.
  induction es; simpl; intros s H; [exact I|]. inversion H; subst. split; [|auto].
  intros ->. contradiction.
Qed.

Lemma guarded_app : forall es es' s, guarded s es -> guarded (run_events s es) es' -> guarded s (es ++ es').
Proof.
  unfold run_events. induction es; simpl; intros es' s H H'; [assumption|].
  destruct H as [H1 H2]. split; auto.
Qed.

Lemma all_ready_init : forall g, g <> [] -> all_ready (init_tasks g) = false.
Proof.
  intros g Hg. unfold init_tasks. destruct g as [|a g']; [congruence|].
  simpl length. rewrite <- cons_seq. simpl map. destruct a as [[ln ws] u]. reflexivity.
Qed.

Lemma inv_init : forall g, g <> [] -> inv (init_state g).
Proof.
  intros g Hg. constructor; simpl; auto.
  symmetry; apply all_ready_init; assumption.
Qed.

(* C03: in every history in which user aborts are issued on unready changes only, the engine never panics
   (detectChangeReady's internal check and the one of deferReadyDetection are unreachable), the change is flagged
   ready exactly when every task is ready, and only unready tasks have a running handler *)
Theorem ready_consistent : forall (g : list tdesc) (es : list event),
  g <> [] -> guarded (init_state g) es ->
  let s := run_events (init_state g) es in
  panicked s = false /\ cready s = all_ready (tasks s) /\ (forall t, In t (running s) -> ready (st s t) = false).
Proof.
  intros g es Hg Hf. destruct (inv_run_events es (init_state g) Hf (inv_init g Hg)) as [A B C].
  cbv zeta. repeat split; auto. intros t Ht. apply unr_unready. auto.
Qed.

(* a user abort of an unready change, at any point of any such history: no panic, and afterwards the change is
   flagged ready exactly when every task is ready (in particular it is never flagged ready while a task is unready) *)
Theorem abort_unready_safe : forall (g : list tdesc) (es : list event),
  g <> [] -> guarded (init_state g) es ->
  let s := run_events (init_state g) es in
  cready s = false ->
  panicked (step s UAbort) = false /\ cready (step s UAbort) = all_ready (tasks (step s UAbort)).
Proof.
  intros g es Hg Hf s Hc.
  pose proof (inv_run_events es (init_state g) Hf (inv_init g Hg)) as H. fold s in H.
  pose proof (inv_step s UAbort (fun _ => Hc) H) as K. destruct K as [A B C]. split; assumption.
Qed.

(* ... and once the change is ready nothing moves any more *)
Theorem ready_is_final : forall (g : list tdesc) (es es' : list event),
  g <> [] -> guarded (init_state g) es ->
  let s := run_events (init_state g) es in
  guarded s es' -> cready s = true ->
  let s' := run_events s es' in
  cready s' = true /\ all_ready (tasks s') = true /\ ready (change_status (tasks s')) = true /\ panicked s' = false.
Proof.
  intros g es es' Hg Hf s Hf' Hc s'.
  assert (E : s' = run_events (init_state g) (es ++ es')) by (unfold s', s, run_events; rewrite fold_left_app; reflexivity).
  assert (Hall : guarded (init_state g) (es ++ es')) by (apply guarded_app; assumption).
  destruct (ready_consistent g (es ++ es') Hg Hall) as (A & B & _). rewrite <- E in A, B.
  assert (C : cready s' = true) by (apply cready_run_events; exact Hc).
  assert (D : all_ready (tasks s') = true) by (rewrite <- B; exact C).
  repeat split; auto.
  destruct (tasks s') as [|a l'] eqn:Et; [reflexivity|].
  rewrite change_status_ready; [exact D | discriminate].
Qed.
