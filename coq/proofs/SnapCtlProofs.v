(* C25 -- proofs about models/SnapCtl.v over gen/NonRootAllowed.v *)
From Coq Require Import List NArith ZArith Bool String Lia ZifyBool ZifyN.
Import ListNotations.
Require Import V.lib.Bytes V.gen.NonRootAllowed V.models.SnapCtl.
Open Scope N_scope.

Lemma sbeq_true_iff : forall a b, beq a b = true <-> a = b.
Proof.
  induction a as [|x a IH]; destruct b as [|y b]; cbn; split; intro H; try congruence; try reflexivity.
  - apply andb_true_iff in H. destruct H as [H1 H2]. apply N.eqb_eq in H1. apply IH in H2. congruence.
  - inversion H; subst. rewrite N.eqb_refl. cbn. apply IH. reflexivity.
Qed.

Lemma smem_In : forall x l, mem x l = true <-> In x l.
Proof.
  induction l as [|y l IH]; cbn; split; intro H; try discriminate; try contradiction.
  - apply orb_true_iff in H. destruct H as [H|H]; [left; symmetry; apply sbeq_true_iff; exact H | right; apply IH; exact H].
  - apply orb_true_iff. destruct H as [H|H]; [left; subst; apply sbeq_true_iff; reflexivity | right; apply IH; exact H].
Qed.

(* the loop of the gate and the independent description of `a help token before any --` agree *)
Lemma scan_help_spec : forall args, scan_help args = help_before_dd args.
Proof.
  unfold help_before_dd. induction args as [|a r IH]; cbn [scan_help before_dd existsb]; [reflexivity|].
  destruct (is_help a) eqn:H.
  - destruct (is_dd a) eqn:D.
    + (* a token cannot be both -h/--help and -- *)
      unfold is_help, is_dd in *. apply orb_true_iff in H. apply sbeq_true_iff in D. subst a.
      destruct H as [H|H]; vm_compute in H; discriminate.
    + cbn [existsb]. rewrite H. reflexivity.
  - destruct (is_dd a); [reflexivity|]. cbn [existsb]. rewrite H. cbn [orb]. exact IH.
Qed.

(* computed on the generated lists *)
Lemma allowed_subset_spec : forallb (fun a => mem a spec_allowed) non_root_allowed = true.
Proof. vm_compute. reflexivity. Qed.
Lemma spec_subset_allowed : forallb (fun a => mem a non_root_allowed) spec_allowed = true.
Proof. vm_compute. reflexivity. Qed.
Lemma allowed_are_registered : forallb (fun a => mem a registered_commands) non_root_allowed = true.
Proof. vm_compute. reflexivity. Qed.
Lemma registered_are_plain : forallb (fun n => negb (argument_is_option n) && negb (is_dd n) && negb (is_help n)) registered_commands = true.
Proof. vm_compute. reflexivity. Qed.

(* what may execute is the first token, a registered name, with no help token in play, and the gate said yes *)
Lemma may_exec_inv : forall args uid n, run args uid = MayExec n ->
  exists r, args = n :: r /\ In n registered_commands /\ is_allowed_to_run uid args = true /\ help_before_dd args = false.
Proof.
  unfold run. intros [|a r] uid n H; [discriminate|].
  destruct (is_allowed_to_run uid (a :: r)) eqn:G; cbn [negb] in H; [|discriminate].
  destruct (scan_help (a :: r)) eqn:S; [discriminate|].
  destruct (argument_is_option a || is_dd a); [discriminate|].
  destruct (mem a registered_commands) eqn:M; [|discriminate].
  inversion H; subst. exists r. rewrite <- scan_help_spec. apply smem_In in M. auto.
Qed.

(* MAIN: for every argument vector and every uid other than 0, a command whose Execute may run is one of the six
   read-only commands of the statement *)
Theorem gate : forall args uid n, uid <> 0 -> run args uid = MayExec n -> In n spec_allowed.
Proof.
  intros args uid n Hu H. destruct (may_exec_inv _ _ _ H) as (r & -> & _ & G & Hh).
  unfold is_allowed_to_run in G. replace (uid =? 0) with false in G by lia.
  destruct (mem n non_root_allowed) eqn:M.
  - apply smem_In in M. pose proof allowed_subset_spec as S. rewrite forallb_forall in S. apply smem_In. apply S. exact M.
  - rewrite scan_help_spec in G. congruence.
Qed.

(* help never executes a command, whoever asks *)
Theorem help_never_executes : forall args uid, help_before_dd args = true -> forall n, run args uid <> MayExec n.
Proof.
  intros args uid Hh n H. destruct (may_exec_inv _ _ _ H) as (r & _ & _ & _ & Hn). congruence.
Qed.

(* ... and is always let through the gate: the answer is help or a parse error, not Forbidden *)
Theorem help_is_never_forbidden : forall args uid, help_before_dd args = true -> run args uid = NoExec.
Proof.
  intros [|a r] uid Hh; [cbn in Hh; discriminate|].
  unfold run. rewrite <- scan_help_spec in Hh.
  assert (G : is_allowed_to_run uid (a :: r) = true).
  { unfold is_allowed_to_run. destruct (uid =? 0); [reflexivity|]. destruct (mem a non_root_allowed); [reflexivity|exact Hh]. }
  rewrite G, Hh. reflexivity.
Qed.

(* root is never refused, and reaches every registered command *)
Theorem root_never_forbidden : forall args, run args 0 <> Forbidden.
Proof.
  intros [|a r] H; [discriminate|]. unfold run in H. cbn [is_allowed_to_run N.eqb negb] in H.
  destruct (scan_help (a :: r)); [discriminate|]. destruct (argument_is_option a || is_dd a); [discriminate|].
  destruct (mem a registered_commands); discriminate.
Qed.

Theorem root_all : forall n rest, In n registered_commands -> help_before_dd (n :: rest) = false ->
  run (n :: rest) 0 = MayExec n.
Proof.
  intros n rest Hin Hh. unfold run. cbn [is_allowed_to_run N.eqb negb]. rewrite scan_help_spec, Hh.
  pose proof registered_are_plain as P. rewrite forallb_forall in P. specialize (P n Hin).
  apply andb_true_iff in P. destruct P as [P _]. apply andb_true_iff in P. destruct P as [P1 P2].
  apply negb_true_iff in P1. apply negb_true_iff in P2. rewrite P1, P2. cbn [orb].
  apply smem_In in Hin. rewrite Hin. reflexivity.
Qed.

(* a non-root caller reaches each of the six commands, and is refused (not parsed) for anything else without help *)
Theorem nonroot_allowed_reach : forall n rest uid, In n spec_allowed -> help_before_dd (n :: rest) = false ->
  run (n :: rest) uid = MayExec n.
Proof.
  intros n rest uid Hin Hh.
  pose proof spec_subset_allowed as S. rewrite forallb_forall in S. specialize (S n Hin).
  pose proof allowed_are_registered as R. rewrite forallb_forall in R. pose proof (R n (proj1 (smem_In _ _) S)) as Rn.
  pose proof registered_are_plain as P. rewrite forallb_forall in P. specialize (P n (proj1 (smem_In _ _) Rn)).
  apply andb_true_iff in P. destruct P as [P _]. apply andb_true_iff in P. destruct P as [P1 P2].
  apply negb_true_iff in P1. apply negb_true_iff in P2.
  unfold run. unfold is_allowed_to_run. rewrite S. destruct (uid =? 0); cbn [negb];
    rewrite scan_help_spec, Hh, P1, P2; cbn [orb]; rewrite Rn; reflexivity.
Qed.

Theorem nonroot_other_forbidden : forall a rest uid, uid <> 0 -> ~ In a spec_allowed ->
  help_before_dd (a :: rest) = false -> run (a :: rest) uid = Forbidden.
Proof.
  intros a rest uid Hu Hn Hh. unfold run, is_allowed_to_run. replace (uid =? 0) with false by lia.
  destruct (mem a non_root_allowed) eqn:M.
  - exfalso. apply Hn. apply smem_In in M. pose proof allowed_subset_spec as S. rewrite forallb_forall in S.
    apply smem_In. apply S. exact M.
  - rewrite scan_help_spec, Hh. reflexivity.
Qed.
