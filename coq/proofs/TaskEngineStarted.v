(* Proofs about models/TaskEngine.v, part 11 (C01): only started work is undone. A task whose status is neither Do nor
   Hold has had its do handler started; hence every start of an undo handler is preceded, in the start log, by a start
   of the do handler of the same task. Stdlib only. *)
From Coq Require Import List NArith ZArith Bool Arith Lia.
Import ListNotations.
Require Import V.models.TaskEngine V.proofs.TaskEngineProofs V.proofs.TaskEngineStatus V.proofs.TaskEngineReady
               V.proofs.TaskEngineDoing.

Definition started_in (lg : list start_rec) (t : nat) : Prop :=
  exists r, In r lg /\ sr_t r = t /\ sr_undo r = false.
Definition sinv (s : state) : Prop :=
  forall t, st s t <> Do -> st s t <> Hold -> started_in (slog s) t.
(* the log is most recent first: every undo start has a do start of the same task further down *)
Definition undo_after_do (lg : list start_rec) : Prop :=
  forall pre r post, lg = pre ++ r :: post -> sr_undo r = true -> started_in post (sr_t r).

Definition fresh_src (x nw : status) : Prop := (x <> Do /\ x <> Hold) \/ nw = Do \/ nw = Hold.

Lemma sinv_write : forall s s' t nw,
  sinv s -> slog s' = slog s ->
  (forall u, st s' u = st s u \/ (u = t /\ st s' u = nw)) -> fresh_src (st s t) nw -> sinv s'.
Proof.
  intros s s' t nw S L W F u H1 H2. rewrite L.
  destruct (W u) as [E|[-> E]].
  - rewrite E in *. apply S; assumption.
  - rewrite E in *. destruct F as [[A B]|[A|A]]; [apply S; assumption | congruence | congruence].
Qed.

Lemma sinv_set_status : forall s t nw, sinv s -> fresh_src (st s t) nw -> sinv (set_status s t nw).
Proof. intros. eapply sinv_write; eauto; [apply slog_set_status | intros u; apply st_set_status]. Qed.
Lemma sinv_set_status_quiet : forall s t nw, sinv s -> fresh_src (st s t) nw -> sinv (set_status_quiet s t nw).
Proof. intros. eapply sinv_write; eauto; [apply slog_set_status_quiet | intros u; apply st_set_status_quiet]. Qed.
Lemma sinv_change_st : forall s t nw, sinv s -> fresh_src (st s t) nw -> sinv (change_st s t nw).
Proof. intros. eapply sinv_write; eauto; [apply slog_change_st | intros u; apply st_change_st]. Qed.

Lemma sinv_irrel : forall s t f, (forall tk, t_st (f tk) = t_st tk) -> sinv s -> sinv (with_tasks s (upd (tasks s) t f)).
Proof. intros s t f Hf S u H1 H2. rewrite st_irrel in H1, H2 by assumption. apply S; assumption. Qed.

Lemma sinv_abort_write : forall s t, sinv s -> sinv (abort_write s t).
Proof.
  intros s t S. unfold abort_write, eff_status.
  destruct (seqb (t_st (get s t)) Wait) eqn:Ew.
  - apply seqb_eq in Ew. assert (F : forall nw, fresh_src (st s t) nw) by (intros; left; unfold st; rewrite Ew; split; discriminate).
    destruct (t_waited (get s t)); auto using sinv_set_status_quiet.
  - destruct (t_st (get s t)) eqn:Es; try assumption; apply sinv_set_status_quiet; auto; unfold st; rewrite Es.
    + right; right; reflexivity.
    + left; split; discriminate.
    + left; split; discriminate.
Qed.

Lemma sinv_oof : forall s, sinv s -> sinv (with_oof s true).
Proof. intros s S. exact S. Qed.
Lemma sinv_ready_detect : forall s, sinv s -> sinv (ready_detect s).
Proof. intros s S u H1 H2. rewrite slog_ready_detect. rewrite st_ready_detect in H1, H2. apply S; assumption. Qed.
Lemma sinv_abort_lanes : forall d kill al seen s, sinv s -> sinv (abort_lanes d kill al seen s).
Proof. intros. apply (abort_lanes_P sinv); auto using sinv_abort_write, sinv_oof. Qed.
Lemma sinv_abort_tasks : forall d wl al seen s, sinv s -> sinv (abort_tasks d wl al seen s).
Proof. intros. apply (abort_tasks_P sinv); auto using sinv_abort_write, sinv_oof. Qed.

Lemma started_mono : forall lg r t, started_in lg t -> started_in (r :: lg) t.
Proof. intros lg r t (x & A & B & C). exists x. split; [right; assumption | auto]. Qed.

Lemma uad_cons : forall lg r, undo_after_do lg -> (sr_undo r = true -> started_in lg (sr_t r)) -> undo_after_do (r :: lg).
Proof.
  intros lg r U H pre x post E Hx. destruct pre as [|p pre]; simpl in E.
  - injection E as -> ->. auto.
  - injection E as -> E. eapply U; eauto.
Qed.

(* TaskRunner.run *)
Lemma sinv_run : forall s t, sinv s -> undo_after_do (slog s) -> sinv (run s t) /\ undo_after_do (slog (run s t)).
Proof.
  intros s t S U. unfold run.
  set (s1 := match t_st (get s t) with Do => set_status s t Doing | Undo => set_status s t Undoing | _ => s end).
  assert (L1 : slog s1 = slog s) by (unfold s1; destruct (t_st (get s t)); auto using slog_set_status).
  assert (S1 : forall u, u <> t -> st s1 u = st s u).
  { intros u N. unfold s1. destruct (t_st (get s t)); try reflexivity;
      match goal with |- st (set_status s t ?nw) u = _ => destruct (st_set_status s t nw u) as [A|[A _]]; [exact A | contradiction] end. }
  set (undo := match t_st (get s t) with Undo | Undoing => true | _ => false end).
  assert (Hs : undo = true -> started_in (slog s) t).
  { intros Hu. apply S; unfold st; unfold undo in Hu; destruct (t_st (get s t)); try discriminate Hu; discriminate. }
  cbn [slog tasks with_slog with_running with_tasks].
  split.
  - intros u H1 H2. cbn [slog with_slog] . rewrite L1.
    change (st (with_tasks s1 (upd (tasks s1) t (fun tk => set_at tk 0))) u <> Do) in H1.
    change (st (with_tasks s1 (upd (tasks s1) t (fun tk => set_at tk 0))) u <> Hold) in H2.
    rewrite st_irrel in H1, H2 by reflexivity.
    destruct (Nat.eq_dec u t) as [->|N].
    + destruct undo eqn:Eu.
      * apply started_mono. auto.
      * eexists. split; [left; reflexivity|]. cbn [sr_t sr_undo]. split; reflexivity.
    + rewrite (S1 u N) in H1, H2. apply started_mono. apply S; assumption.
  - rewrite L1. apply uad_cons; [assumption|]. cbn [sr_undo sr_t]. exact Hs.
Qed.

Lemma sinv_try_undo : forall s t, sinv s -> st s t = Abort -> sinv (try_undo s t).
Proof. intros s t S E. unfold try_undo. des_if; apply sinv_set_status; auto; left; rewrite E; split; discriminate. Qed.

Definition both (s : state) : Prop := sinv s /\ undo_after_do (slog s).

Lemma both_ensure_rest : forall s t, both s -> both (ensure_rest s t).
Proof.
  intros s t [S U]. unfold ensure_rest. repeat des_if; try (split; assumption).
  - apply andb_true_iff in Heqb2. destruct Heqb2 as [E _]. apply seqb_eq in E.
    split; [apply sinv_set_status; auto; left; rewrite E; split; discriminate | rewrite slog_set_status; assumption].
  - apply sinv_run; assumption.
Qed.

Lemma both_ensure_one : forall s t, both s -> both (ensure_one s t).
Proof.
  intros s t B. unfold ensure_one. destruct (panicked s); [assumption|]. destruct (memn t (running s)); [assumption|].
  destruct (seqb (st s t) Abort) eqn:Ea; [|apply both_ensure_rest; assumption].
  apply seqb_eq in Ea. apply both_ensure_rest. destruct B as [S U].
  split; [apply sinv_try_undo; assumption | rewrite slog_try_undo; assumption].
Qed.

Lemma both_ensure_pass : forall order s, both s -> both (ensure_pass s order).
Proof. unfold ensure_pass; induction order; simpl; intros; auto using both_ensure_one. Qed.

Lemma unr_fresh : forall x nw, unr x = true -> fresh_src x nw.
Proof. intros x nw H. left. destruct x; try discriminate H; split; discriminate. Qed.

Lemma both_finish : forall s t o, inv s -> both s -> both (finish s t o).
Proof.
  intros s t o I [S U]. split; [|rewrite slog_finish; assumption].
  unfold finish. pose proof I as [Hp Hc Hr]. rewrite Hp.
  destruct (memn t (running s)) eqn:Em; simpl negb; cbv iota; [|assumption].
  apply memn_In in Em. pose proof (Hr t Em) as Ut.
  set (s0 := remove_running s t). assert (S0 : sinv s0) by exact S.
  assert (U0 : unr (st s0 t) = true) by exact Ut.
  destruct o.
  - destruct (st s0 t) eqn:Es; try assumption; apply sinv_set_status; auto; apply unr_fresh; rewrite Es; exact U0 || reflexivity.
  - apply sinv_set_status.
    + apply sinv_ready_detect. unfold abort_lanes_top. apply sinv_abort_lanes. assumption.
    + apply unr_fresh. unfold abort_lanes_top. rewrite st_ready_detect.
      destruct (qrel_abort_lanes (depth_fuel s0) (lanes_of (get s0 t)) [] [] s0) as (_ & _ & _ & _ & E). apply E. exact U0.
  - destruct (seqb (st s0 t) Abort) eqn:Ea.
    + apply seqb_eq in Ea. apply sinv_try_undo; assumption.
    + des_if; [assumption|]. apply sinv_irrel; [reflexivity | assumption].
  - destruct (seqb (st s0 t) Abort) eqn:Ea.
    + apply seqb_eq in Ea. apply sinv_try_undo; assumption.
    + unfold set_to_wait. change (panicked s0) with (panicked s). rewrite Hp, Ea.
      apply sinv_change_st.
      * apply sinv_irrel; [reflexivity | assumption].
      * apply unr_fresh. rewrite st_irrel by reflexivity. exact U0.
Qed.

Lemma both_step : forall s e, inv s -> both s -> both (step s e).
Proof.
  intros s e I B. destruct e; simpl.
  - apply both_ensure_pass; assumption.
  - apply both_finish; assumption.
  - destruct (panicked s); [assumption|]. destruct B as [S U]. unfold abort_change. split.
    + apply sinv_ready_detect, sinv_abort_tasks. assumption.
    + rewrite slog_ready_detect, slog_abort_tasks. assumption.
  - exact B.
  - destruct (panicked s); [assumption|]. destruct B as [S U]. unfold resolve_wait.
    destruct (seqb (st s t) Wait) eqn:E; [|split; assumption]. apply seqb_eq in E.
    split; [apply sinv_set_status; auto; left; rewrite E; split; discriminate | rewrite slog_set_status; assumption].
Qed.

Lemma both_run_events : forall es s, guarded s es -> inv s -> both s -> both (run_events s es).
Proof.
  unfold run_events. induction es; simpl; intros s Hg I B; [assumption|].
  destruct Hg as [G1 G2]. apply IHes; [assumption | apply inv_step; assumption | apply both_step; assumption].
Qed.

Lemma both_init : forall g, both (init_state g).
Proof.
  intros g. split.
  - intros t H1 H2. exfalso. unfold st, get in H1, H2. cbn [tasks init_state] in H1, H2.
    destruct (Nat.lt_ge_cases t (length g)) as [L|L].
    + rewrite init_nth in H1 by assumption. destruct (nth t g ([], [], false)) as [[a b] c]. apply H1. reflexivity.
    + rewrite nth_overflow in H2 by (unfold init_tasks; rewrite map_length, seq_length; assumption). apply H2. reflexivity.
  - intros pre r post E. destruct pre; discriminate E.
Qed.

(* C01: only started work is undone *)
Theorem undo_only_of_started : forall (g : list tdesc) (es : list event),
  g <> [] -> guarded (init_state g) es ->
  let s := run_events (init_state g) es in
  (forall t, st s t <> Do -> st s t <> Hold -> started_in (slog s) t) /\ undo_after_do (slog s).
Proof. intros g es Hg Hgd. apply both_run_events; [assumption | apply inv_init; assumption | apply both_init]. Qed.

(* non-vacuity: the same history; the log holds, most recent first, undo 0, do 1, do 0 *)
Lemma started_example :
  let g := [([], [], true); ([], [0], true)] in
  let es := [Ensure [0;1]; Finish 0 OOk; Ensure [0;1]; Finish 1 OErr; Ensure [0;1]] in
  guarded (init_state g) es /\
  map (fun r => (sr_t r, sr_undo r)) (slog (run_events (init_state g) es)) = [(0, true); (1, false); (0, false)].
Proof. cbv zeta. split; [vm_compute; repeat split; intros; discriminate | vm_compute; reflexivity]. Qed.
