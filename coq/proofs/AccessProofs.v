(* C26 -- proofs about models/Access.v over the generated endpoint table gen/Endpoints.v *)
From Coq Require Import List NArith ZArith Bool String Lia ZifyBool ZifyNat ZifyN.
Import ListNotations.
Require Import V.lib.Bytes V.lib.Dec V.proofs.DecProofs V.gen.Endpoints V.models.Access.
Open Scope N_scope.

(* ================================================================================================ byte-string lemmas *)

Lemma abeq_true_iff : forall a b, beq a b = true <-> a = b.
Proof.
  induction a as [|x a IH]; destruct b as [|y b]; cbn; split; intro H; try congruence; try reflexivity.
  - apply andb_true_iff in H. destruct H as [H1 H2]. apply N.eqb_eq in H1. apply IH in H2. congruence.
  - inversion H; subst. rewrite N.eqb_refl. cbn. apply IH. reflexivity.
Qed.

Lemma abeq_refl : forall a, beq a a = true.
Proof. intro a. apply abeq_true_iff. reflexivity. Qed.

Lemma mem_In : forall x l, mem x l = true <-> In x l.
Proof.
  induction l as [|y l IH]; cbn; split; intro H; try discriminate; try contradiction.
  - apply orb_true_iff in H. destruct H as [H|H]; [left; symmetry; apply abeq_true_iff; exact H | right; apply IH; exact H].
  - apply orb_true_iff. destruct H as [H|H]; [left; subst; apply abeq_refl | right; apply IH; exact H].
Qed.

Lemma strip_prefix_some : forall p l r, strip_prefix p l = Some r -> l = p ++ r.
Proof.
  induction p as [|x p IH]; intros l r H; cbn in *.
  - congruence.
  - destruct l as [|y l]; [discriminate|]. destruct (x =? y) eqn:E; [|discriminate].
    apply N.eqb_eq in E. subst y. cbn. f_equal. apply IH. exact H.
Qed.

Lemma strip_prefix_app : forall p r, strip_prefix p (p ++ r) = Some r.
Proof. induction p as [|x p IH]; intro r; cbn; [reflexivity|]. rewrite N.eqb_refl. apply IH. Qed.

Lemma span_spec : forall p l a b, span p l = (a, b) ->
  l = a ++ b /\ forallb p a = true /\ match b with [] => True | c :: _ => p c = false end.
Proof.
  induction l as [|x l IH]; intros a b H; cbn in H.
  - inversion H; subst. cbn. auto.
  - destruct (p x) eqn:E.
    + destruct (span p l) as [a' b'] eqn:S. inversion H; subst. destruct (IH a' b eq_refl) as (H1 & H2 & H3).
      cbn. rewrite E, H2. subst l. auto.
    + inversion H; subst. cbn. auto.
Qed.

Lemma span_app : forall p a c r, forallb p a = true -> p c = false -> span p (a ++ c :: r) = (a, c :: r).
Proof.
  induction a as [|x a IH]; intros c r Ha Hc; cbn in *.
  - rewrite Hc. reflexivity.
  - apply andb_true_iff in Ha. destruct Ha as [Hx Ha]. rewrite Hx. rewrite (IH c r Ha Hc). reflexivity.
Qed.

Lemma digit_not_semi : forall c, is_digit c = true -> not_semi c = true.
Proof. intros c H. unfold is_digit, not_semi, semi in *. lia. Qed.

Lemma not_semi_false : forall c, not_semi c = false -> c = semi.
Proof. intros c H. unfold not_semi in H. apply negb_false_iff in H. apply N.eqb_eq in H. exact H. Qed.

(* ================================================================================================ the credential string *)

(* the language of raddrRegexp, declaratively: s = pid=<digits>;uid=<digits>;socket=<no ;>;[iface=<no ;>;] *)
Definition digits (d : bytes) : Prop := d <> [] /\ forallb is_digit d = true.

Definition iface_tail (ifs : option bytes) : bytes :=
  match ifs with None => [] | Some g => bs "iface=" ++ g ++ [semi] end.

Definition cred_string (s pd ud sock : bytes) (ifs : option bytes) : Prop :=
  digits pd /\ digits ud /\ forallb not_semi sock = true /\
  match ifs with None => True | Some g => forallb not_semi g = true end /\
  s = bs "pid=" ++ pd ++ bs ";uid=" ++ ud ++ bs ";socket=" ++ sock ++ semi :: iface_tail ifs.

Lemma nil_b_false : forall (l : bytes), is_nil_b l = false -> l <> [].
Proof. intros [|x l] H; [discriminate|congruence]. Qed.

Lemma match_raddr_sound : forall s ra, match_raddr s = Some ra ->
  cred_string s (ra_pid ra) (ra_uid ra) (ra_socket ra) (ra_iface ra).
Proof.
  unfold match_raddr. intros s ra H.
  destruct (strip_prefix (bs "pid=") s) as [r1|] eqn:E1; [|discriminate].
  destruct (span is_digit r1) as [pid r2] eqn:S1.
  destruct (is_nil_b pid) eqn:N1; [discriminate|].
  destruct (strip_prefix (bs ";uid=") r2) as [r3|] eqn:E2; [|discriminate].
  destruct (span is_digit r3) as [uid r4] eqn:S2.
  destruct (is_nil_b uid) eqn:N2; [discriminate|].
  destruct (strip_prefix (bs ";socket=") r4) as [r5|] eqn:E3; [|discriminate].
  destruct (span not_semi r5) as [sock r6] eqn:S3.
  destruct r6 as [|c r7]; [discriminate|].
  apply strip_prefix_some in E1, E2, E3.
  apply span_spec in S1, S2, S3.
  destruct S1 as (S1a & S1b & _). destruct S2 as (S2a & S2b & _). destruct S3 as (S3a & S3b & S3c).
  apply not_semi_false in S3c. subst c.
  apply nil_b_false in N1, N2.
  destruct r7 as [|c2 r7'].
  - inversion H; subst; cbn [ra_pid ra_uid ra_socket ra_iface].
    unfold cred_string, digits, iface_tail. repeat split; auto.
  - destruct (strip_prefix (bs "iface=") (c2 :: r7')) as [r8|] eqn:E4; [|discriminate].
    destruct (span not_semi r8) as [ifs r9] eqn:S4.
    destruct r9 as [|c3 [|c4 r10]]; try discriminate.
    apply strip_prefix_some in E4. apply span_spec in S4. destruct S4 as (S4a & S4b & S4c).
    apply not_semi_false in S4c. subst c3.
    inversion H; subst; cbn [ra_pid ra_uid ra_socket ra_iface].
    unfold cred_string, digits, iface_tail. repeat split; auto.
    rewrite E4. reflexivity.
Qed.

Lemma forallb_digit_head : forall d, digits d -> exists c r, d = c :: r.
Proof. intros [|c r] [H _]; [congruence|eauto]. Qed.

Lemma match_raddr_complete : forall s pd ud sock ifs, cred_string s pd ud sock ifs ->
  match_raddr s = Some (mkRaddr pd ud sock ifs).
Proof.
  intros s pd ud sock ifs (Hp & Hu & Hs & Hi & ->).
  unfold match_raddr. rewrite strip_prefix_app.
  change (bs ";uid=") with (semi :: bs "uid=") at 1. cbn [app].
  rewrite (span_app is_digit pd semi _ (proj2 Hp) eq_refl).
  destruct Hp as [Hp0 Hp1]. destruct pd as [|p0 pd]; [congruence|]. cbn [is_nil_b].
  change (semi :: bs "uid=" ++ ud ++ bs ";socket=" ++ sock ++ semi :: iface_tail ifs)
    with (bs ";uid=" ++ ud ++ bs ";socket=" ++ sock ++ semi :: iface_tail ifs).
  rewrite strip_prefix_app.
  change (bs ";socket=") with (semi :: bs "socket=") at 1. cbn [app].
  rewrite (span_app is_digit ud semi _ (proj2 Hu) eq_refl).
  destruct Hu as [Hu0 Hu1]. destruct ud as [|u0 ud]; [congruence|]. cbn [is_nil_b].
  change (semi :: bs "socket=" ++ sock ++ semi :: iface_tail ifs)
    with (bs ";socket=" ++ sock ++ semi :: iface_tail ifs).
  rewrite strip_prefix_app.
  rewrite (span_app not_semi sock semi _ Hs eq_refl).
  destruct ifs as [g|]; cbn [iface_tail].
  - change (bs "iface=") with (105 :: bs "face=") at 1. cbn [app].
    change (105 :: bs "face=" ++ g ++ [semi]) with (bs "iface=" ++ g ++ [semi]).
    rewrite strip_prefix_app.
    rewrite (span_app not_semi g semi [] Hi eq_refl). reflexivity.
  - reflexivity.
Qed.

(* ================================================================================================ peer credentials *)

(* the request carries the peer credentials u: its RemoteAddr is a credential string whose pid and uid fields are decimal
   spellings of u's pid (a real process id: 0 < pid < 2^31) and uid (anything but nobody = 2^32-1) and whose socket
   field is u's socket. Independent of the model's parser. *)
Definition peer (x : ctx) (u : ucred) : Prop :=
  exists pd ud ifs, cred_string (x_remote x) pd ud (u_socket u) ifs /\
    undec pd = Some (u_pid u) /\ undec ud = Some (u_uid u) /\
    0 < u_pid u < 2147483648 /\ u_uid u < 4294967295.

Lemma get_with_ifaces_some : forall s u l, ucrednet_get_with_interfaces s = Some (u, l) ->
  exists pd ud ifs, cred_string s pd ud (u_socket u) ifs /\
    undec pd = Some (u_pid u) /\ undec ud = Some (u_uid u) /\
    0 < u_pid u < 2147483648 /\ u_uid u < 4294967295 /\
    l = match ifs with Some g => split_amp g | None => [] end.
Proof.
  unfold ucrednet_get_with_interfaces. intros s u l H.
  destruct (match_raddr s) as [ra|] eqn:M; [|discriminate].
  apply match_raddr_sound in M.
  destruct ((parse_pid (ra_pid ra) =? ucrednet_no_process) || (parse_uid (ra_uid ra) =? ucrednet_nobody)) eqn:E; [discriminate|].
  inversion H; subst; clear H. cbn [u_pid u_uid u_socket].
  apply orb_false_iff in E. destruct E as [E1 E2].
  apply N.eqb_neq in E1. apply N.eqb_neq in E2.
  unfold parse_pid, ucrednet_no_process in *. unfold parse_uid, ucrednet_nobody in *.
  exists (ra_pid ra), (ra_uid ra), (ra_iface ra).
  destruct (undec (ra_pid ra)) as [n|] eqn:U1; [|congruence].
  destruct (undec (ra_uid ra)) as [k|] eqn:U2; [|congruence].
  destruct (n <? 2147483648) eqn:L1; [|congruence].
  destruct (k <? 4294967296) eqn:L2; [|congruence].
  split; [exact M|]. split; [reflexivity|]. split; [reflexivity|].
  split; [lia|]. split; [lia|reflexivity].
Qed.

Lemma get_some_peer : forall x u, ucrednet_get (x_remote x) = Some u -> peer x u.
Proof.
  unfold ucrednet_get. intros x u H.
  destruct (ucrednet_get_with_interfaces (x_remote x)) as [[u' l]|] eqn:G; [|discriminate].
  inversion H; subst. apply get_with_ifaces_some in G.
  destruct G as (pd & ud & ifs & G1 & G2 & G3 & G4 & G5 & _). exists pd, ud, ifs. auto.
Qed.

Lemma peer_get_with_ifaces : forall s u pd ud ifs,
  cred_string s pd ud (u_socket u) ifs -> undec pd = Some (u_pid u) -> undec ud = Some (u_uid u) ->
  0 < u_pid u < 2147483648 -> u_uid u < 4294967295 ->
  ucrednet_get_with_interfaces s = Some (u, match ifs with Some g => split_amp g | None => [] end).
Proof.
  intros s u pd ud ifs C U1 U2 R1 R2.
  unfold ucrednet_get_with_interfaces. rewrite (match_raddr_complete _ _ _ _ _ C).
  cbn [ra_pid ra_uid ra_socket ra_iface]. unfold parse_pid, parse_uid. rewrite U1, U2.
  replace (u_pid u <? 2147483648) with true by lia. replace (u_uid u <? 4294967296) with true by lia.
  unfold ucrednet_no_process, ucrednet_nobody.
  replace (u_pid u =? 0) with false by lia. replace (u_uid u =? 4294967295) with false by lia.
  cbn [orb]. destruct u; reflexivity.
Qed.

Lemma peer_get : forall x u, peer x u -> ucrednet_get (x_remote x) = Some u.
Proof.
  intros x u (pd & ud & ifs & C & U1 & U2 & R1 & R2). unfold ucrednet_get.
  rewrite (peer_get_with_ifaces _ _ _ _ _ C U1 U2 R1 R2). reflexivity.
Qed.

(* a request carries at most one set of peer credentials *)
Lemma peer_unique : forall x u v, peer x u -> peer x v -> u = v.
Proof. intros x u v Hu Hv. apply peer_get in Hu. apply peer_get in Hv. congruence. Qed.

(* ================================================================================================ the access levels *)

(* the calling snap (by cgroup) has an active connection whose plug side is the snap and whose interface is listed *)
Definition connected (x : ctx) (names : list bytes) : Prop :=
  exists sn c, x_snap_of_pid x = Some sn /\ In c (x_conns x) /\ c_plug_snap c = sn /\ In (c_iface c) names /\
               c_undesired c = false /\ c_hotplug_gone c = false.

(* root, or a logged-in user, or polkit said yes for the action of the level *)
Definition authenticated (x : ctx) (u : ucred) (k : bytes) : Prop :=
  x_user x = true \/ u_uid u = 0 \/ (k <> [] /\ x_polkit x k = PkYes).

(* what each declared level demands of the peer: the independent specification *)
Definition level_ok (p : access) (x : ctx) (u : ucred) : Prop :=
  match p with
  | ANil => False
  | AOpen => u_socket u = snapd_socket
  | AAuth k => u_socket u = snapd_socket /\ authenticated x u k
  | ARoot => u_socket u = snapd_socket /\ u_uid u = 0
  | ASnap => u_socket u = snap_socket
  | AIfaceOpen names => u_socket u = snapd_socket \/ (u_socket u = snap_socket /\ connected x names)
  | AIfaceAuth names k =>
      (u_socket u = snapd_socket \/ (u_socket u = snap_socket /\ connected x names)) /\ authenticated x u k
  end.

Definition allowed (p : access) (x : ctx) : Prop := exists u, peer x u /\ level_ok p x u.

Lemma require_snapd_none : forall uc, require_snapd_socket uc = None -> exists u, uc = Some u /\ u_socket u = snapd_socket.
Proof.
  intros [u|] H; unfold require_snapd_socket in H; [|discriminate]. destruct (beq (u_socket u) snapd_socket) eqn:E; [|discriminate].
  apply abeq_true_iff in E. eauto.
Qed.

Lemma auth_tail_none : forall x u k, auth_tail x u k = None -> authenticated x u k.
Proof.
  unfold auth_tail, authenticated, check_polkit_action. intros x u k H.
  destruct (x_user x); [auto|]. destruct (u_uid u =? 0) eqn:E; [apply N.eqb_eq in E; auto|].
  destruct (is_nil_b k) eqn:N; cbn [negb] in H; [discriminate|].
  destruct (x_polkit x k) eqn:P; try discriminate. right. right. split; [apply nil_b_false; exact N|reflexivity].
Qed.

Lemma matching_conns_connected : forall x sn names,
  x_snap_of_pid x = Some sn -> matching_conns x sn names <> [] -> connected x names.
Proof.
  intros x sn names Hs Hm. unfold matching_conns in Hm.
  destruct (filter _ (x_conns x)) as [|c r] eqn:F; [cbn in Hm; congruence|].
  assert (Hin : In c (filter (fun c => conn_active c && mem (c_iface c) names && beq (c_plug_snap c) sn) (x_conns x)))
    by (rewrite F; left; reflexivity).
  apply filter_In in Hin. destruct Hin as [Hin Hc].
  apply andb_true_iff in Hc. destruct Hc as [Hc H3]. apply andb_true_iff in Hc. destruct Hc as [H1 H2].
  unfold conn_active in H1. apply negb_true_iff in H1. apply orb_false_iff in H1. destruct H1 as [H1a H1b].
  apply mem_In in H2. apply abeq_true_iff in H3.
  exists sn, c. auto 10.
Qed.

Lemma is_nil_b_map_false : forall (l : list bytes), is_nil_b l = false -> l <> [].
Proof. intros [|a l] H; [discriminate|congruence]. Qed.

Lemma require_iface_none : forall x r uc names r',
  require_interface_api_access x r uc names = (None, r') ->
  exists u, uc = Some u /\ (u_socket u = snapd_socket \/ (u_socket u = snap_socket /\ connected x names)).
Proof.
  unfold require_interface_api_access. intros x r [u|] names r' H; [|discriminate].
  exists u. split; [reflexivity|].
  destruct (beq (u_socket u) snapd_socket) eqn:E1; [apply abeq_true_iff in E1; auto|].
  destruct (beq (u_socket u) snap_socket) eqn:E2; [|discriminate].
  apply abeq_true_iff in E2.
  destruct (x_snap_of_pid x) as [sn|] eqn:S; [|discriminate].
  destruct (is_nil_b (matching_conns x sn names)) eqn:N; [discriminate|].
  right. split; [exact E2|]. eapply matching_conns_connected; [exact S|]. apply is_nil_b_map_false. exact N.
Qed.

(* each checker lets a request through only if the peer satisfies the specification of its level *)
Lemma check_access_none : forall a x r uc r', check_access a x r uc = (None, r') ->
  exists u, uc = Some u /\ level_ok a x u.
Proof.
  intros a x r uc r' H. destruct a as [| |k| | |names|names k]; cbn [check_access level_ok] in *.
  - discriminate.
  - inversion H. apply require_snapd_none in H1. destruct H1 as (u & -> & Hs). eauto.
  - destruct (require_snapd_socket uc) eqn:R; [discriminate|]. apply require_snapd_none in R.
    destruct R as (u & -> & Hs). inversion H. apply auth_tail_none in H1. eauto.
  - destruct (require_snapd_socket uc) eqn:R; [discriminate|]. apply require_snapd_none in R.
    destruct R as (u & -> & Hs). inversion H. destruct (u_uid u =? 0) eqn:E; [|discriminate].
    apply N.eqb_eq in E. eauto.
  - destruct uc as [u|]; [|discriminate]. inversion H. destruct (beq (u_socket u) snap_socket) eqn:E; [|discriminate].
    apply abeq_true_iff in E. eauto.
  - apply require_iface_none in H. exact H.
  - destruct (require_interface_api_access x r uc names) as [[d|] r''] eqn:R; [discriminate|].
    apply require_iface_none in R. destruct R as (u & -> & Hs). inversion H. apply auth_tail_none in H1. eauto.
Qed.

(* ================================================================================================ dispatch *)

(* MAIN, for ANY endpoint record: the handler runs only if the verb is registered, the daemon is not degraded (or the
   verb is GET), and the request carries peer credentials that satisfy the level declared for the verb *)
Theorem served_implies_declared : forall e m x,
  fst (serve e m x) = Handler ->
  registered e m = true /\ allowed (declared e m) x /\ (x_degraded x = true -> m = GET).
Proof.
  unfold serve. intros e m x H.
  destruct (x_degraded x && negb (is_get m)) eqn:D; [discriminate|].
  destruct (registered e m) eqn:R; cbn [negb] in H; [|discriminate].
  split; [reflexivity|]. split.
  - destruct (declared e m) eqn:A; try discriminate;
      match type of H with context [check_access ?a x (x_remote x) ?uc] =>
        destruct (check_access a x (x_remote x) uc) as [[d|] r'] eqn:C; [discriminate|];
        apply check_access_none in C; destruct C as (u & G & L); apply get_some_peer in G; exists u; split; assumption
      end.
  - intro Dg. rewrite Dg in D. cbn in D. destruct m; cbn in D; try discriminate. reflexivity.
Qed.

(* a request without (parsable) peer credentials never reaches a handler, whatever the endpoint *)
Theorem no_creds_never : forall e m x, (forall u, ~ peer x u) -> fst (serve e m x) <> Handler.
Proof.
  intros e m x Hn H. apply served_implies_declared in H. destruct H as (_ & (u & Hp & _) & _). exact (Hn u Hp).
Qed.

(* requests arriving on the snap socket are served only by snapAccess endpoints, or by interface-gated ones when the
   calling snap has an active connection of a listed interface *)
Theorem snap_socket_only_gated : forall e m x u,
  fst (serve e m x) = Handler -> peer x u -> u_socket u = snap_socket ->
  declared e m = ASnap \/
  exists names, (declared e m = AIfaceOpen names \/ exists k, declared e m = AIfaceAuth names k /\ authenticated x u k)
                /\ connected x names.
Proof.
  intros e m x u H Hp Hs. apply served_implies_declared in H. destruct H as (_ & (v & Hv & L) & _).
  assert (v = u) by (eapply peer_unique; eassumption). subst v.
  assert (Hne : u_socket u <> snapd_socket) by (rewrite Hs; vm_compute; discriminate).
  destruct (declared e m) as [| |k| | |names|names k]; cbn [level_ok] in L.
  - contradiction.
  - contradiction.
  - destruct L; contradiction.
  - destruct L; contradiction.
  - left. reflexivity.
  - right. exists names. destruct L as [L|[_ L]]; [contradiction|]. split; [left; reflexivity|exact L].
  - right. exists names. destruct L as [[L|[_ L]] A]; [contradiction|]. split; [right; exists k; auto|exact L].
Qed.

(* ================================================================================================ policy order *)

Lemma subset_In : forall l1 l2 x, subset l1 l2 = true -> In x l1 -> In x l2.
Proof.
  unfold subset. intros l1 l2 x H Hin. rewrite forallb_forall in H. apply mem_In. apply H. exact Hin.
Qed.

Lemma connected_mono : forall x n1 n2, subset n1 n2 = true -> connected x n1 -> connected x n2.
Proof.
  intros x n1 n2 S (sn & c & H1 & H2 & H3 & H4 & H5 & H6). exists sn, c. repeat split; auto.
  eapply subset_In; eassumption.
Qed.

Lemma authenticated_mono : forall x u k1 k2, pk_le k1 k2 = true -> authenticated x u k1 -> authenticated x u k2.
Proof.
  unfold pk_le, authenticated. intros x u k1 k2 H [A|[A|[A1 A2]]]; auto.
  apply orb_true_iff in H. destruct H as [H|H].
  - destruct k1; [congruence|discriminate].
  - apply abeq_true_iff in H. subst. auto.
Qed.

Lemma root_authenticated : forall x u k, u_uid u = 0 -> authenticated x u k.
Proof. unfold authenticated. auto. Qed.

(* acc_le is sound: a level at least as strict as p admits only peers that p admits *)
Theorem acc_le_sound : forall a p x u, acc_le a p = true -> level_ok a x u -> level_ok p x u.
Proof.
  intros a p x u H L.
  destruct a as [| |k1| | |n1|n1 k1]; destruct p as [| |k2| | |n2|n2 k2]; cbn [acc_le] in H; try discriminate;
    cbn [level_ok] in *.
  - exact L.
  - left. exact L.
  - destruct L; assumption.
  - destruct L as [L A]. split; [exact L|]. eapply authenticated_mono; eassumption.
  - left. destruct L; assumption.
  - destruct L as [L A]. split; [left; exact L|]. eapply authenticated_mono; eassumption.
  - destruct L; assumption.
  - destruct L as [L A]. split; [exact L|]. apply root_authenticated. exact A.
  - exact L.
  - left. destruct L; assumption.
  - destruct L as [L A]. split; [left; exact L|]. apply root_authenticated. exact A.
  - exact L.
  - destruct L as [L|[L C]]; [left; exact L|right; split; [exact L|eapply connected_mono; eassumption]].
  - destruct L as [[L|[L C]] A]; [left; exact L|right; split; [exact L|eapply connected_mono; eassumption]].
  - apply andb_true_iff in H. destruct H as [H1 H2]. destruct L as [[L|[L C]] A]; split;
      try (eapply authenticated_mono; eassumption);
      [left; exact L|right; split; [exact L|eapply connected_mono; eassumption]].
Qed.

(* ================================================================================================ the generated table *)

(* computed on gen/Endpoints.v as regenerated from the source: every registered verb of every endpoint has a checker,
   its path is classified by the policy, and the declared level is at least as strict as the policy's *)
Lemma table_ok_api : table_ok api = true.
Proof. vm_compute. reflexivity. Qed.

Lemma endpoint_ok_verb : forall e m, endpoint_ok e = true -> registered e m = true ->
  exists p, policy_for (ep_path e) m = Some p /\ acc_le (declared e m) p = true.
Proof.
  unfold endpoint_ok. intros e m H R. rewrite forallb_forall in H.
  assert (Hin : In m [GET; PUT; POST]) by (destruct m; cbn; auto 6; cbn in R; discriminate).
  specialize (H m Hin). rewrite R in H. cbn [negb orb] in H.
  destruct (policy_for (ep_path e) m) as [p|]; [|discriminate]. eauto.
Qed.

(* MAIN over the actual table: for every endpoint registered in daemon/api.go, every verb and every request context,
   the handler runs only if the request carries peer credentials satisfying the level the policy demands for that
   path and verb *)
Theorem served_implies_policy : forall e, In e api -> forall m x,
  fst (serve e m x) = Handler ->
  exists p, policy_for (ep_path e) m = Some p /\ allowed p x.
Proof.
  intros e Hin m x H. apply served_implies_declared in H. destruct H as (R & (u & Hp & L) & _).
  pose proof table_ok_api as T. unfold table_ok in T. rewrite forallb_forall in T. specialize (T e Hin).
  destruct (endpoint_ok_verb e m T R) as (p & P1 & P2).
  exists p. split; [exact P1|]. exists u. split; [exact Hp|]. eapply acc_le_sound; eassumption.
Qed.

(* no registered verb of the table has a nil checker: ServeHTTP never calls CheckAccess on a nil interface *)
Theorem table_no_nil_checker : forall e, In e api -> forall m x, fst (serve e m x) <> NilChecker.
Proof.
  intros e Hin m x H. unfold serve in H.
  destruct (x_degraded x && negb (is_get m)); [discriminate|].
  destruct (registered e m) eqn:R; cbn [negb] in H; [|discriminate].
  pose proof table_ok_api as T. unfold table_ok in T. rewrite forallb_forall in T. specialize (T e Hin).
  destruct (endpoint_ok_verb e m T R) as (p & P1 & P2).
  destruct (declared e m) eqn:A; try (cbn in P2; discriminate);
    match type of H with context [check_access ?a x (x_remote x) ?uc] =>
      destruct (check_access a x (x_remote x) uc) as [[d|] r']; discriminate end.
Qed.

(* root-only endpoints of the table are reached only by uid 0 on the main socket *)
Theorem root_only : forall e, In e api -> forall m x,
  policy_for (ep_path e) m = Some ARoot -> fst (serve e m x) = Handler ->
  exists u, peer x u /\ u_socket u = snapd_socket /\ u_uid u = 0.
Proof.
  intros e Hin m x P H. destruct (served_implies_policy e Hin m x H) as (p & P1 & (u & Hp & L)).
  rewrite P in P1. inversion P1; subst p. cbn in L. exists u. tauto.
Qed.

(* ================================================================================================ credential round trip *)

Lemma digits_dec : forall n, digits (dec n).
Proof. intro n. split; [apply dec_nonempty|apply dec_digits]. Qed.

(* what the listener prints for a real peer reads back exactly, with no interfaces attached *)
Theorem ucred_roundtrip : forall u,
  0 < u_pid u < 2147483648 -> u_uid u < 4294967295 -> forallb not_semi (u_socket u) = true ->
  ucrednet_get_with_interfaces (print_ucred u) = Some (u, []).
Proof.
  intros u Hp Hu Hs.
  apply (peer_get_with_ifaces (print_ucred u) u (dec (u_pid u)) (dec (u_uid u)) None); auto using undec_dec.
  unfold cred_string. repeat split; auto using digits_dec; try apply digits_dec.
Qed.

(* the nil receiver's string carries no credentials *)
Lemma nil_ucred_no_creds : ucrednet_get_with_interfaces print_nil_ucred = None.
Proof. vm_compute. reflexivity. Qed.

Lemma forallb_app_true : forall (p : N -> bool) a b, forallb p a = true -> forallb p b = true -> forallb p (a ++ b) = true.
Proof. intros. rewrite forallb_app. rewrite H, H0. reflexivity. Qed.

Lemma split_amp_forall : forall p g, forallb p g = true -> Forall (fun f => forallb p f = true) (split_amp g).
Proof.
  induction g as [|c g IH]; intro H; cbn [split_amp].
  - constructor; [reflexivity|constructor].
  - cbn [forallb] in H. apply andb_true_iff in H. destruct H as [Hc Hg]. specialize (IH Hg).
    destruct (c =? amp).
    + constructor; [reflexivity|exact IH].
    + destruct (split_amp g) as [|f fs]; [constructor; [cbn; rewrite Hc; reflexivity|constructor]|].
      inversion IH; subst. constructor; [cbn [forallb]; rewrite Hc; assumption|assumption].
Qed.

Lemma join_amp_forall : forall p l, p amp = true -> Forall (fun f => forallb p f = true) l -> forallb p (join_amp l) = true.
Proof.
  intros p l Ha. induction l as [|x l IH]; intro H; [reflexivity|].
  inversion H; subst. destruct l as [|y l]; [cbn [join_amp]; assumption|].
  change (join_amp (x :: y :: l)) with (x ++ amp :: join_amp (y :: l)).
  apply forallb_app_true; [assumption|]. cbn [forallb]. rewrite Ha. cbn [andb]. apply IH. assumption.
Qed.

(* attaching an interface never changes the credentials a later parse finds *)
Theorem attach_preserves_creds : forall s u l i,
  ucrednet_get_with_interfaces s = Some (u, l) -> forallb not_semi i = true ->
  exists l', ucrednet_get_with_interfaces (ucrednet_attach_interface s i) = Some (u, l') /\
             (l = [] -> l' = split_amp i) /\ (In i l -> l' = l).
Proof.
  intros s u l i G Hi. apply get_with_ifaces_some in G.
  destruct G as (pd & ud & ifs & C & U1 & U2 & R1 & R2 & ->).
  unfold ucrednet_attach_interface. rewrite (match_raddr_complete _ _ _ _ _ C). cbn [ra_iface].
  destruct C as (Dp & Du & Hs & Hg & E).
  destruct ifs as [g|].
  - destruct (mem i (split_amp g)) eqn:Mm.
    + exists (split_amp g). split; [|split; [|reflexivity]].
      * apply (peer_get_with_ifaces s u pd ud (Some g)); auto. unfold cred_string. auto.
      * intro Hn. destruct g; cbn in Hn; [discriminate|]. destruct (n =? amp); [discriminate|].
        destruct (split_amp g); discriminate.
    + exists (split_amp (join_amp (split_amp g ++ [i]))). split; [|split].
      * apply (peer_get_with_ifaces _ u pd ud (Some (join_amp (split_amp g ++ [i])))); auto.
        unfold cred_string, raddr_prefix. cbn [ra_pid ra_uid ra_socket iface_tail].
        repeat split; auto; try apply Dp; try apply Du.
        -- apply join_amp_forall; [reflexivity|]. apply Forall_app. split; [apply split_amp_forall; exact Hg|].
           constructor; [exact Hi|constructor].
        -- rewrite <- !app_assoc. reflexivity.
      * intro Hn. destruct g; cbn in Hn; [discriminate|]. destruct (n =? amp); [discriminate|].
        destruct (split_amp g); discriminate.
      * intro Hin. apply mem_In in Hin. congruence.
  - exists (split_amp i). split; [|split; [reflexivity|intros []]].
    apply (peer_get_with_ifaces _ u pd ud (Some i)); auto.
    unfold cred_string. repeat split; auto; try apply Dp; try apply Du.
    rewrite E. cbn [iface_tail]. rewrite <- !app_assoc. cbn [app]. reflexivity.
Qed.

(* attaching to what the listener printed: the same peer plus exactly the attached interface *)
Theorem attach_roundtrip : forall u i,
  0 < u_pid u < 2147483648 -> u_uid u < 4294967295 -> forallb not_semi (u_socket u) = true ->
  forallb not_semi i = true ->
  ucrednet_get_with_interfaces (ucrednet_attach_interface (print_ucred u) i) = Some (u, split_amp i).
Proof.
  intros u i Hp Hu Hs Hi.
  destruct (attach_preserves_creds _ u [] i (ucred_roundtrip u Hp Hu Hs) Hi) as (l' & G & L & _).
  rewrite G, (L eq_refl). reflexivity.
Qed.

Lemma fold_attach_preserves : forall found s u l,
  ucrednet_get_with_interfaces s = Some (u, l) -> Forall (fun i => forallb not_semi i = true) found ->
  exists l', ucrednet_get_with_interfaces (fold_left ucrednet_attach_interface found s) = Some (u, l').
Proof.
  induction found as [|i found IH]; intros s u l G F; cbn [fold_left].
  - eauto.
  - inversion F; subst. destruct (attach_preserves_creds s u l i G H1) as (l' & G' & _). eapply IH; eassumption.
Qed.

(* interface names of a level contain no ; (so that attaching them keeps the credential string well formed) *)
Definition names_clean (a : access) : bool :=
  match a with
  | AIfaceOpen n | AIfaceAuth n _ => forallb (fun i => forallb not_semi i) n
  | _ => true
  end.

Lemma matching_conns_clean : forall x sn names, forallb (fun i => forallb not_semi i) names = true ->
  Forall (fun i => forallb not_semi i = true) (matching_conns x sn names).
Proof.
  intros x sn names H. unfold matching_conns. apply Forall_forall. intros i Hin.
  apply in_map_iff in Hin. destruct Hin as (c & <- & Hc). apply filter_In in Hc. destruct Hc as [_ Hc].
  apply andb_true_iff in Hc. destruct Hc as [Hc _]. apply andb_true_iff in Hc. destruct Hc as [_ Hm].
  apply mem_In in Hm. rewrite forallb_forall in H. apply H. exact Hm.
Qed.

Lemma require_iface_keeps : forall x uc names d r' u l,
  forallb (fun i => forallb not_semi i) names = true ->
  ucrednet_get_with_interfaces (x_remote x) = Some (u, l) ->
  require_interface_api_access x (x_remote x) uc names = (d, r') ->
  exists l', ucrednet_get_with_interfaces r' = Some (u, l').
Proof.
  unfold require_interface_api_access. intros x uc names d r' u l Hc G H.
  destruct uc as [v|]; [|inversion H; subst; eauto].
  destruct (beq (u_socket v) snapd_socket); [inversion H; subst; eauto|].
  destruct (beq (u_socket v) snap_socket); [|inversion H; subst; eauto].
  destruct (x_snap_of_pid x) as [sn|]; [|inversion H; subst; eauto].
  inversion H; subst. eapply fold_attach_preserves; [exact G|]. apply matching_conns_clean. exact Hc.
Qed.

(* the handler finds the peer's own credentials in r.RemoteAddr, whatever was attached on the way *)
Theorem served_keeps_creds : forall e m x r',
  names_clean (declared e m) = true -> serve e m x = (Handler, r') ->
  ucrednet_get r' = ucrednet_get (x_remote x) /\ ucrednet_get r' <> None.
Proof.
  intros e m x r' Hc H.
  assert (Hs : fst (serve e m x) = Handler) by (rewrite H; reflexivity).
  apply served_implies_declared in Hs. destruct Hs as (_ & (u & Hp & _) & _).
  pose proof (peer_get x u Hp) as G. unfold ucrednet_get in G.
  destruct (ucrednet_get_with_interfaces (x_remote x)) as [[u' l]|] eqn:GW; [|discriminate]. inversion G; subst u'.
  assert (K : exists l', ucrednet_get_with_interfaces r' = Some (u, l')).
  { unfold serve in H.
    destruct (x_degraded x && negb (is_get m)); [discriminate|].
    destruct (registered e m); cbn [negb] in H; [|discriminate].
    destruct (declared e m) as [| |k| | |names|names k] eqn:A; cbn [check_access names_clean] in *; try discriminate.
    - destruct (require_snapd_socket (ucrednet_get (x_remote x))); inversion H; subst; eauto.
    - destruct (require_snapd_socket (ucrednet_get (x_remote x))); [inversion H|].
      destruct (ucrednet_get (x_remote x)); [|inversion H]. destruct (auth_tail x u0 k); inversion H; subst; eauto.
    - destruct (require_snapd_socket (ucrednet_get (x_remote x))); [inversion H|].
      destruct (ucrednet_get (x_remote x)); [|inversion H]. destruct (u_uid u0 =? 0); inversion H; subst; eauto.
    - destruct (ucrednet_get (x_remote x)); [|inversion H]. destruct (beq (u_socket u0) snap_socket); inversion H; subst; eauto.
    - destruct (require_interface_api_access x (x_remote x) (ucrednet_get (x_remote x)) names) as [[d|] r''] eqn:R;
        inversion H; subst. eapply require_iface_keeps; eassumption.
    - destruct (require_interface_api_access x (x_remote x) (ucrednet_get (x_remote x)) names) as [[d|] r''] eqn:R;
        [inversion H|].
      pose proof (require_iface_keeps _ _ _ _ _ _ _ Hc GW R) as K.
      destruct (ucrednet_get (x_remote x)); [|inversion H]. destruct (auth_tail x u0 k); inversion H; subst; exact K. }
  destruct K as (l' & K). unfold ucrednet_get at 1 3. rewrite K. unfold ucrednet_get. rewrite GW. split; [reflexivity|discriminate].
Qed.

Lemma table_names_clean : forallb (fun e => names_clean (ep_read e) && names_clean (ep_write e)) api = true.
Proof. vm_compute. reflexivity. Qed.

Theorem served_keeps_creds_api : forall e, In e api -> forall m x r',
  serve e m x = (Handler, r') -> ucrednet_get r' = ucrednet_get (x_remote x) /\ ucrednet_get r' <> None.
Proof.
  intros e Hin m x r' H. apply (served_keeps_creds e m x r'); [|exact H].
  pose proof table_names_clean as T. rewrite forallb_forall in T. specialize (T e Hin).
  apply andb_true_iff in T. destruct T as [T1 T2]. destruct m; cbn [declared names_clean]; auto.
Qed.

(* the same with the connection spelled out: the PLUG side of an active connection of a listed interface is EXACTLY the
   calling instance (byte-for-byte the name cgroupSnapNameFromPid returned: another instance of the same snap, or the
   slot side of a connection, does not count) *)
Theorem snap_socket_exact_instance : forall e m x u sn,
  fst (serve e m x) = Handler -> peer x u -> u_socket u = snap_socket -> declared e m <> ASnap ->
  x_snap_of_pid x = Some sn ->
  exists names c,
    (declared e m = AIfaceOpen names \/ exists k, declared e m = AIfaceAuth names k) /\
    In c (x_conns x) /\ c_plug_snap c = sn /\ In (c_iface c) names /\
    c_undesired c = false /\ c_hotplug_gone c = false.
Proof.
  intros e m x u sn H Hp Hs Hn Hsn.
  destruct (snap_socket_only_gated e m x u H Hp Hs) as [A|(names & D & (sn' & c & S & C1 & C2 & C3 & C4 & C5))]; [contradiction|].
  rewrite Hsn in S. inversion S; subst sn'. exists names, c. split.
  - destruct D as [D|(k & D & _)]; [left; exact D|right; exists k; exact D].
  - auto.
Qed.

(* and without a name for the calling process there is no snap-socket access to gated endpoints at all *)
Theorem snap_socket_needs_snap_name : forall e m x u,
  fst (serve e m x) = Handler -> peer x u -> u_socket u = snap_socket -> declared e m <> ASnap ->
  x_snap_of_pid x <> None.
Proof.
  intros e m x u H Hp Hs Hn Hnone.
  destruct (snap_socket_only_gated e m x u H Hp Hs) as [A|(names & _ & (sn' & c & S & _))]; [contradiction|congruence].
Qed.

(* ================================================================================================ attach: the full statement *)

Definition not_amp (c : N) : bool := negb (c =? amp).

Lemma split_amp_nonempty : forall g, split_amp g <> [].
Proof.
  induction g as [|c g IH]; cbn [split_amp]; [discriminate|].
  destruct (c =? amp); [discriminate|]. destruct (split_amp g); discriminate.
Qed.

Lemma split_amp_plain : forall x, forallb not_amp x = true -> split_amp x = [x].
Proof.
  induction x as [|c x IH]; intro H; [reflexivity|].
  cbn [forallb] in H. apply andb_true_iff in H. destruct H as [Hc Hx].
  cbn [split_amp]. unfold not_amp in Hc. apply negb_true_iff in Hc. rewrite Hc. rewrite (IH Hx). reflexivity.
Qed.

Lemma split_amp_app : forall a b, split_amp (a ++ amp :: b) = split_amp a ++ split_amp b.
Proof.
  induction a as [|c a IH]; intro b.
  - cbn [app split_amp]. rewrite N.eqb_refl. reflexivity.
  - cbn [app split_amp]. destruct (c =? amp).
    + rewrite IH. reflexivity.
    + rewrite IH. pose proof (split_amp_nonempty a) as Hn. destruct (split_amp a) as [|f fs]; [congruence|]. reflexivity.
Qed.

Lemma split_amp_fields_plain : forall g, Forall (fun f => forallb not_amp f = true) (split_amp g).
Proof.
  induction g as [|c g IH]; cbn [split_amp].
  - constructor; [reflexivity|constructor].
  - destruct (c =? amp) eqn:E.
    + constructor; [reflexivity|exact IH].
    + pose proof (split_amp_nonempty g) as Hn. destruct (split_amp g) as [|f fs]; [congruence|].
      inversion IH; subst. constructor; [|assumption].
      cbn [forallb]. unfold not_amp at 1. rewrite E. cbn. assumption.
Qed.

Lemma join_amp_snoc : forall l i, l <> [] -> join_amp (l ++ [i]) = join_amp l ++ amp :: i.
Proof.
  induction l as [|x l IH]; intros i Hn; [congruence|].
  destruct l as [|y l].
  - reflexivity.
  - change ((x :: y :: l) ++ [i]) with (x :: (y :: l) ++ [i]).
    change (join_amp (x :: (y :: l) ++ [i])) with (x ++ amp :: join_amp ((y :: l) ++ [i])).
    rewrite IH by discriminate.
    change (join_amp (x :: y :: l)) with (x ++ amp :: join_amp (y :: l)).
    rewrite <- app_assoc. reflexivity.
Qed.

Lemma split_join_plain : forall l, l <> [] -> Forall (fun f => forallb not_amp f = true) l -> split_amp (join_amp l) = l.
Proof.
  induction l as [|x l IH]; intros Hn F; [congruence|].
  inversion F; subst. destruct l as [|y l].
  - cbn [join_amp]. apply split_amp_plain. assumption.
  - change (join_amp (x :: y :: l)) with (x ++ amp :: join_amp (y :: l)).
    rewrite split_amp_app. rewrite split_amp_plain by assumption. rewrite IH by (discriminate || assumption). reflexivity.
Qed.

Lemma split_join_snoc : forall g i, split_amp (join_amp (split_amp g ++ [i])) = split_amp g ++ split_amp i.
Proof.
  intros g i. rewrite join_amp_snoc by apply split_amp_nonempty.
  rewrite split_amp_app. rewrite split_join_plain; [reflexivity|apply split_amp_nonempty|apply split_amp_fields_plain].
Qed.

(* FULL: attaching i (any bytes without ;) to ANY accepted address -- fresh, or already carrying any attachment string --
   keeps pid, uid and socket, and the interface list read back afterwards is the old one if i was already in it, else the
   old one followed by the &-separated fields of i *)
Theorem attach_full : forall s u l i,
  ucrednet_get_with_interfaces s = Some (u, l) -> forallb not_semi i = true ->
  ucrednet_get_with_interfaces (ucrednet_attach_interface s i) = Some (u, if mem i l then l else l ++ split_amp i).
Proof.
  intros s u l i G Hi. apply get_with_ifaces_some in G.
  destruct G as (pd & ud & ifs & C & U1 & U2 & R1 & R2 & ->).
  unfold ucrednet_attach_interface. rewrite (match_raddr_complete _ _ _ _ _ C). cbn [ra_iface].
  destruct C as (Dp & Du & Hs & Hg & E).
  destruct ifs as [g|].
  - destruct (mem i (split_amp g)) eqn:Mm.
    + apply (peer_get_with_ifaces s u pd ud (Some g)); auto. unfold cred_string. auto.
    + rewrite <- split_join_snoc.
      apply (peer_get_with_ifaces _ u pd ud (Some (join_amp (split_amp g ++ [i])))); auto.
      unfold cred_string, raddr_prefix. cbn [ra_pid ra_uid ra_socket iface_tail].
      repeat split; auto; try apply Dp; try apply Du.
      * apply join_amp_forall; [reflexivity|]. apply Forall_app. split; [apply split_amp_forall; exact Hg|].
        constructor; [exact Hi|constructor].
      * rewrite <- !app_assoc. reflexivity.
  - cbn [mem app].
    apply (peer_get_with_ifaces _ u pd ud (Some i)); auto.
    unfold cred_string. repeat split; auto; try apply Dp; try apply Du.
    rewrite E. cbn [iface_tail]. rewrite <- !app_assoc. cbn [app]. reflexivity.
Qed.

(* for a proper interface name (no ; and no &) the list simply grows by that name, once *)
Corollary attach_full_plain : forall s u l i,
  ucrednet_get_with_interfaces s = Some (u, l) -> forallb not_semi i = true -> forallb not_amp i = true ->
  ucrednet_get_with_interfaces (ucrednet_attach_interface s i) = Some (u, if mem i l then l else l ++ [i]).
Proof.
  intros s u l i G Hs Ha. rewrite (attach_full s u l i G Hs). rewrite (split_amp_plain i Ha). reflexivity.
Qed.

Lemma mem_app_r : forall x l, mem x (l ++ [x]) = true.
Proof. intros x l. apply mem_In. apply in_or_app. right. left. reflexivity. Qed.

(* attaching the same proper name twice changes nothing the second time (string level) *)
Theorem attach_idempotent : forall s u l i,
  ucrednet_get_with_interfaces s = Some (u, l) -> forallb not_semi i = true -> forallb not_amp i = true ->
  ucrednet_attach_interface (ucrednet_attach_interface s i) i = ucrednet_attach_interface s i.
Proof.
  intros s u l i G Hs Ha.
  pose proof (attach_full_plain s u l i G Hs Ha) as G'.
  set (s' := ucrednet_attach_interface s i) in *.
  assert (Hm : mem i (if mem i l then l else l ++ [i]) = true).
  { destruct (mem i l) eqn:M; [exact M|apply mem_app_r]. }
  apply get_with_ifaces_some in G'. destruct G' as (pd & ud & ifs & C & _ & _ & _ & _ & L).
  unfold ucrednet_attach_interface at 1. rewrite (match_raddr_complete _ _ _ _ _ C). cbn [ra_iface].
  destruct ifs as [g|].
  - rewrite <- L. rewrite Hm. reflexivity.
  - rewrite L in Hm. cbn in Hm. discriminate.
Qed.

(* ---- why the guards are there: the unguarded statements are false of the faithful model (replayed on the code) ---- *)

Definition wit_u (sock : bytes) : ucred := mkUcred 42 1000 sock.

(* a socket path containing ;iface=y; reads back as ANOTHER socket with a forged attachment *)
Lemma roundtrip_semicolon_socket_refuted :
  ucrednet_get_with_interfaces (print_ucred (wit_u (bs "x;iface=y"))) = Some (wit_u (bs "x"), [bs "y"]).
Proof. vm_compute. reflexivity. Qed.

(* ... and one containing a bare ; reads back as no credentials at all *)
Lemma roundtrip_semicolon_socket_lost : ucrednet_get_with_interfaces (print_ucred (wit_u (bs "a;b"))) = None.
Proof. vm_compute. reflexivity. Qed.

(* an interface string containing & comes back as two interfaces, and attaching it again doubles them *)
Lemma attach_amp_refuted :
  ucrednet_get_with_interfaces (ucrednet_attach_interface (print_ucred (wit_u snap_socket)) (bs "a&b"))
    = Some (wit_u snap_socket, [bs "a"; bs "b"]) /\
  ucrednet_get_with_interfaces (ucrednet_attach_interface (ucrednet_attach_interface (print_ucred (wit_u snap_socket)) (bs "a&b")) (bs "a&b"))
    = Some (wit_u snap_socket, [bs "a"; bs "b"; bs "a"; bs "b"]).
Proof. split; vm_compute; reflexivity. Qed.

(* an interface string containing ; destroys the credentials (the address no longer parses: every checker then denies) *)
Lemma attach_semicolon_refuted :
  ucrednet_get_with_interfaces (ucrednet_attach_interface (print_ucred (wit_u snap_socket)) (bs "a;iface=b")) = None.
Proof. vm_compute. reflexivity. Qed.

(* ================================================================================================ the decision is EXACTLY the level *)

Lemma auth_tail_complete : forall x u k, authenticated x u k -> auth_tail x u k = None.
Proof.
  unfold authenticated, auth_tail, check_polkit_action. intros x u k [A|[A|[A1 A2]]].
  - rewrite A. reflexivity.
  - destruct (x_user x); [reflexivity|]. rewrite A. reflexivity.
  - destruct (x_user x); [reflexivity|]. destruct (u_uid u =? 0); [reflexivity|].
    destruct k; [congruence|]. cbn [is_nil_b negb]. rewrite A2. reflexivity.
Qed.

Lemma connected_matching : forall x names sn, x_snap_of_pid x = Some sn -> connected x names ->
  matching_conns x sn names <> [].
Proof.
  intros x names sn Hs (sn' & c & S & Hin & Hp & Hi & Hu & Hg). rewrite Hs in S. injection S as S'. rewrite <- S' in Hp.
  unfold matching_conns. intro E.
  assert (Hf : In c (filter (fun c => conn_active c && mem (c_iface c) names && beq (c_plug_snap c) sn) (x_conns x))).
  { apply filter_In. split; [exact Hin|]. unfold conn_active. rewrite Hu, Hg. cbn [orb negb andb].
    rewrite (proj2 (mem_In _ _) Hi). rewrite Hp. rewrite abeq_refl. reflexivity. }
  destruct (filter _ (x_conns x)); [contradiction|]. cbn in E. discriminate.
Qed.

Lemma snapd_not_snap : beq snap_socket snapd_socket = false.
Proof. vm_compute. reflexivity. Qed.

Lemma require_iface_complete : forall x r u names,
  (u_socket u = snapd_socket \/ (u_socket u = snap_socket /\ connected x names)) ->
  exists r', require_interface_api_access x r (Some u) names = (None, r').
Proof.
  unfold require_interface_api_access. intros x r u names [H|[H C]].
  - rewrite H, abeq_refl. eauto.
  - rewrite H. rewrite snapd_not_snap, abeq_refl.
    destruct C as (sn & c & S & Rest). rewrite S.
    pose proof (connected_matching x names sn S (ex_intro _ sn (ex_intro _ c (conj S Rest)))) as Hn.
    destruct (matching_conns x sn names) eqn:M; [congruence|]. cbn [is_nil_b]. eauto.
Qed.

Lemma check_access_complete : forall a x r u, level_ok a x u -> exists r', check_access a x r (Some u) = (None, r').
Proof.
  intros a x r u L. destruct a as [| |k| | |names|names k]; cbn [level_ok check_access require_snapd_socket] in *.
  - contradiction.
  - rewrite L, abeq_refl. eauto.
  - destruct L as [L A]. rewrite L, abeq_refl. rewrite (auth_tail_complete _ _ _ A). eauto.
  - destruct L as [L A]. rewrite L, abeq_refl. rewrite A. cbn. eauto.
  - rewrite L, abeq_refl. eauto.
  - apply require_iface_complete. exact L.
  - destruct L as [L A]. destruct (require_iface_complete x r u names L) as (r' & R). rewrite R.
    rewrite (auth_tail_complete _ _ _ A). eauto.
Qed.

(* MAIN, both directions, for ANY endpoint record: the handler runs EXACTLY when the verb is registered, the daemon is
   not degraded (or the verb is GET) and the request carries peer credentials satisfying the level declared for the verb *)
Theorem decision_is_declared_level : forall e m x,
  fst (serve e m x) = Handler <->
  (registered e m = true /\ allowed (declared e m) x /\ (x_degraded x = true -> m = GET)).
Proof.
  intros e m x. split; [apply served_implies_declared|].
  intros (R & (u & Hp & L) & D). unfold serve.
  assert (Dg : x_degraded x && negb (is_get m) = false).
  { destruct (x_degraded x); [|reflexivity]. rewrite (D eq_refl). reflexivity. }
  rewrite Dg, R. cbn [negb]. rewrite (peer_get x u Hp).
  destruct (check_access_complete (declared e m) x (x_remote x) u L) as (r' & C).
  destruct (declared e m) eqn:A; [cbn in L; contradiction| | | | | |]; rewrite C; reflexivity.
Qed.

(* ================================================================================================ writes from the snap socket *)

Fixpoint lb_eqb (a b : list bytes) : bool :=
  match a, b with
  | [], [] => true
  | x :: a', y :: b' => beq x y && lb_eqb a' b'
  | _, _ => false
  end.

Lemma lb_eqb_eq : forall a b, lb_eqb a b = true -> a = b.
Proof.
  induction a as [|x a IH]; destruct b as [|y b]; cbn; intro H; try discriminate; [reflexivity|].
  apply andb_true_iff in H. destruct H as [H1 H2]. apply abeq_true_iff in H1. rewrite (IH _ H2), H1. reflexivity.
Qed.

(* computed on the generated table: the only write levels that admit the snap socket are snapAccess on /v2/snapctl and
   interfaceAuthenticatedAccess{snap-themes-control, manage} on /v2/accessories/themes *)
Definition snap_write_ok (e : endpoint) : bool :=
  negb (ep_put e || ep_post e) ||
  match ep_write e with
  | ASnap => beq (ep_path e) (bs "/v2/snapctl")
  | AIfaceAuth n k => beq (ep_path e) (bs "/v2/accessories/themes") && lb_eqb n [if_themes] && beq k pk_manage
  | AIfaceOpen _ => false
  | _ => true
  end.

Lemma table_snap_writes : forallb snap_write_ok api = true.
Proof. vm_compute. reflexivity. Qed.

(* on the actual table: a PUT/POST arriving on the snap socket reaches a handler only at /v2/snapctl, or at
   /v2/accessories/themes when the calling instance has snap-themes-control actively connected AND is root / logged in /
   granted io.snapcraft.snapd.manage by polkit *)
Theorem snap_socket_writes : forall e, In e api -> forall m x u,
  m <> GET -> fst (serve e m x) = Handler -> peer x u -> u_socket u = snap_socket ->
  ep_path e = bs "/v2/snapctl" \/
  (ep_path e = bs "/v2/accessories/themes" /\ connected x [if_themes] /\ authenticated x u pk_manage).
Proof.
  intros e Hin m x u Hm H Hp Hs.
  pose proof table_snap_writes as T. rewrite forallb_forall in T. specialize (T e Hin). unfold snap_write_ok in T.
  pose proof (served_implies_declared e m x H) as (R & _ & _).
  assert (Dw : declared e m = ep_write e) by (destruct m; try reflexivity; [congruence|cbn in R; discriminate]).
  assert (Rw : ep_put e || ep_post e = true).
  { destruct m; cbn [registered] in R; try congruence; rewrite R; [reflexivity|apply orb_true_r]. }
  rewrite Rw in T. cbn [negb orb] in T.
  destruct (snap_socket_only_gated e m x u H Hp Hs) as [A|(names & D & C)].
  - rewrite Dw in A. rewrite A in T. left. apply abeq_true_iff. exact T.
  - rewrite Dw in D. destruct D as [D|(k & D & Au)].
    + rewrite D in T. discriminate.
    + rewrite D in T. apply andb_true_iff in T. destruct T as [T T3]. apply andb_true_iff in T. destruct T as [T1 T2].
      apply abeq_true_iff in T1. apply lb_eqb_eq in T2. apply abeq_true_iff in T3. subst names k. right. auto.
Qed.

(* ================================================================================================ what the handler finds attached *)

Definition plain_name (i : bytes) : bool := forallb not_semi i && forallb not_amp i.

Definition names_plain (a : access) : bool :=
  match a with
  | AIfaceOpen n | AIfaceAuth n _ => forallb plain_name n
  | _ => true
  end.

Lemma fold_attach_ifaces : forall found s u l,
  ucrednet_get_with_interfaces s = Some (u, l) -> Forall (fun i => plain_name i = true) found ->
  exists l', ucrednet_get_with_interfaces (fold_left ucrednet_attach_interface found s) = Some (u, l') /\
             forall i, In i l' -> In i l \/ In i found.
Proof.
  induction found as [|j found IH]; intros s u l G F; cbn [fold_left].
  - exists l. auto.
  - inversion F; subst. unfold plain_name in H1. apply andb_true_iff in H1. destruct H1 as [Hs Ha].
    pose proof (attach_full_plain s u l j G Hs Ha) as G1.
    destruct (IH _ u _ G1 H2) as (l' & G' & Hin). exists l'. split; [exact G'|].
    intros i Hi. destruct (Hin i Hi) as [H|H]; [|right; right; exact H].
    destruct (mem j l); [left; exact H|]. apply in_app_or in H. destruct H as [H|[H|[]]]; [left; exact H|right; left; exact H].
Qed.

Lemma matching_conn_connected : forall x sn names i,
  x_snap_of_pid x = Some sn -> In i (matching_conns x sn names) -> connected x [i] /\ In i names.
Proof.
  intros x sn names i Hs Hin. unfold matching_conns in Hin. apply in_map_iff in Hin. destruct Hin as (c & <- & Hc).
  apply filter_In in Hc. destruct Hc as [Hin Hc].
  apply andb_true_iff in Hc. destruct Hc as [Hc H3]. apply andb_true_iff in Hc. destruct Hc as [H1 H2].
  unfold conn_active in H1. apply negb_true_iff in H1. apply orb_false_iff in H1. destruct H1 as [H1a H1b].
  apply mem_In in H2. apply abeq_true_iff in H3. split; [|exact H2].
  exists sn, c. repeat split; auto. left. reflexivity.
Qed.

Lemma matching_conns_plain : forall x sn names, forallb plain_name names = true ->
  Forall (fun i => plain_name i = true) (matching_conns x sn names).
Proof.
  intros x sn names H. apply Forall_forall. intros i Hin. unfold matching_conns in Hin.
  apply in_map_iff in Hin. destruct Hin as (c & <- & Hc). apply filter_In in Hc. destruct Hc as [_ Hc].
  apply andb_true_iff in Hc. destruct Hc as [Hc _]. apply andb_true_iff in Hc. destruct Hc as [_ Hm].
  apply mem_In in Hm. rewrite forallb_forall in H. apply H. exact Hm.
Qed.

Lemma require_iface_attached : forall x u uc names d r',
  forallb plain_name names = true ->
  ucrednet_get_with_interfaces (x_remote x) = Some (u, []) ->
  require_interface_api_access x (x_remote x) uc names = (d, r') ->
  exists l', ucrednet_get_with_interfaces r' = Some (u, l') /\ forall i, In i l' -> connected x [i].
Proof.
  unfold require_interface_api_access. intros x u uc names d r' Hc G H.
  assert (Triv : exists l', ucrednet_get_with_interfaces (x_remote x) = Some (u, l') /\ forall i, In i l' -> connected x [i])
    by (exists []; split; [exact G|intros i []]).
  destruct uc as [v|]; [|inversion H; subst; exact Triv].
  destruct (beq (u_socket v) snapd_socket); [inversion H; subst; exact Triv|].
  destruct (beq (u_socket v) snap_socket); [|inversion H; subst; exact Triv].
  destruct (x_snap_of_pid x) as [sn|] eqn:S; [|inversion H; subst; exact Triv].
  inversion H; subst.
  destruct (fold_attach_ifaces _ _ u [] G (matching_conns_plain x sn names Hc)) as (l' & G' & Hin).
  exists l'. split; [exact G'|]. intros i Hi. destruct (Hin i Hi) as [[]|Hm].
  apply (matching_conn_connected x sn names i S Hm).
Qed.

(* when the address is what the listener printed for a real peer, every interface the handler finds attached to
   r.RemoteAddr is one the calling instance has actively connected (plug side, exact instance) *)
Theorem served_ifaces_are_connected : forall e m x r' u,
  names_plain (declared e m) = true ->
  x_remote x = print_ucred u -> 0 < u_pid u < 2147483648 -> u_uid u < 4294967295 -> forallb not_semi (u_socket u) = true ->
  serve e m x = (Handler, r') ->
  exists l', ucrednet_get_with_interfaces r' = Some (u, l') /\ forall i, In i l' -> connected x [i].
Proof.
  intros e m x r' u Hc Hx Hp Hu Hs H.
  pose proof (ucred_roundtrip u Hp Hu Hs) as G. rewrite <- Hx in G.
  assert (Triv : exists l', ucrednet_get_with_interfaces (x_remote x) = Some (u, l') /\ forall i, In i l' -> connected x [i])
    by (exists []; split; [exact G|intros i []]).
  unfold serve in H.
  destruct (x_degraded x && negb (is_get m)); [discriminate|].
  destruct (registered e m); cbn [negb] in H; [|discriminate].
  destruct (declared e m) as [| |k| | |names|names k] eqn:A; cbn [check_access names_plain] in *; try discriminate.
  - destruct (require_snapd_socket (ucrednet_get (x_remote x))); inversion H; subst; exact Triv.
  - destruct (require_snapd_socket (ucrednet_get (x_remote x))); [inversion H|].
    destruct (ucrednet_get (x_remote x)); [|inversion H]. destruct (auth_tail x u0 k); inversion H; subst; exact Triv.
  - destruct (require_snapd_socket (ucrednet_get (x_remote x))); [inversion H|].
    destruct (ucrednet_get (x_remote x)); [|inversion H]. destruct (u_uid u0 =? 0); inversion H; subst; exact Triv.
  - destruct (ucrednet_get (x_remote x)); [|inversion H]. destruct (beq (u_socket u0) snap_socket); inversion H; subst; exact Triv.
  - destruct (require_interface_api_access x (x_remote x) (ucrednet_get (x_remote x)) names) as [[d|] r''] eqn:R;
      inversion H; subst. eapply require_iface_attached; eassumption.
  - destruct (require_interface_api_access x (x_remote x) (ucrednet_get (x_remote x)) names) as [[d|] r''] eqn:R;
      [inversion H|].
    pose proof (require_iface_attached _ _ _ _ _ _ Hc G R) as K.
    destruct (ucrednet_get (x_remote x)); [|inversion H]. destruct (auth_tail x u0 k); inversion H; subst; exact K.
Qed.

Lemma table_names_plain : forallb (fun e => names_plain (ep_read e) && names_plain (ep_write e)) api = true.
Proof. vm_compute. reflexivity. Qed.

(* computed: the generated noticeReadInterfaces lists, for each type, only interfaces the hand-written table lists *)
Lemma notice_table_within_spec :
  forallb (fun p => subset (snd p) (lookup_ifaces spec_notice_ifaces (fst p))) notice_read_interfaces = true.
Proof. vm_compute. reflexivity. Qed.

Lemma lookup_ifaces_in : forall tbl t i, In i (lookup_ifaces tbl t) -> exists v, In (t, v) tbl /\ In i v.
Proof.
  induction tbl as [|[k v] tbl IH]; intros t i H; cbn [lookup_ifaces] in H; [contradiction|].
  destruct (beq k t) eqn:E.
  - apply abeq_true_iff in E. subst k. exists v. split; [left; reflexivity|exact H].
  - destruct (IH t i H) as (v' & H1 & H2). exists v'. split; [right; exact H1|exact H2].
Qed.

(* END TO END, over the actual table: a snap reaching any endpoint over snapd-snap.socket (address as printed by the
   listener) gets noticeTypesViewableBySnap = true for a set of types only if, for EVERY requested type, the calling
   instance has an active plug-side connection of an interface that the hand-written table lists for that type *)
Theorem notices_types_need_connection : forall e, In e api -> forall m x r' u types t,
  x_remote x = print_ucred u -> 0 < u_pid u < 2147483648 -> u_uid u < 4294967295 -> u_socket u = snap_socket ->
  serve e m x = (Handler, r') ->
  notice_types_viewable types r' = true -> In t types ->
  exists i, In i (lookup_ifaces spec_notice_ifaces t) /\ connected x [i].
Proof.
  intros e Hin m x r' u types t Hx Hp Hu Hs H V Ht.
  assert (Hc : names_plain (declared e m) = true).
  { pose proof table_names_plain as T. rewrite forallb_forall in T. specialize (T e Hin).
    apply andb_true_iff in T. destruct T as [T1 T2]. destruct m; cbn [declared names_plain]; auto. }
  assert (Hsock : forallb not_semi (u_socket u) = true) by (rewrite Hs; vm_compute; reflexivity).
  destruct (served_ifaces_are_connected e m x r' u Hc Hx Hp Hu Hsock H) as (l' & G & Hconn).
  unfold notice_types_viewable in V. rewrite G in V. rewrite Hs in V. rewrite snapd_not_snap in V.
  destruct (is_nil_b types); [discriminate|].
  rewrite forallb_forall in V. specialize (V t Ht). apply existsb_exists in V. destruct V as (i & Hi & Hm).
  apply mem_In in Hm. destruct (lookup_ifaces_in _ _ _ Hm) as (v & Hv & Hiv).
  pose proof notice_table_within_spec as T. rewrite forallb_forall in T. specialize (T (t, v) Hv). cbn [fst snd] in T.
  exists i. split; [eapply subset_In; eassumption|apply Hconn; exact Hi].
Qed.

(* ================================================================================================ snapctl: whose uid *)

(* on the actual table: when /v2/snapctl's handler runs, the request came from a real peer on snapd-snap.socket and the
   uid runSnapctl hands to ctlcmd.Run (C25's gate) is that peer's uid *)
Theorem snapctl_uid_is_peer : forall e, In e api -> ep_path e = bs "/v2/snapctl" -> forall x r',
  serve e POST x = (Handler, r') ->
  exists u, peer x u /\ u_socket u = snap_socket /\ ucrednet_get r' = Some u /\ snapctl_uid r' = u_uid u.
Proof.
  intros e Hin Hpath x r' H.
  assert (Hs : fst (serve e POST x) = Handler) by (rewrite H; reflexivity).
  destruct (served_implies_policy e Hin POST x Hs) as (p & P & (u & Hp & L)).
  rewrite Hpath in P. vm_compute in P. inversion P; subst p. cbn [level_ok] in L.
  destruct (served_keeps_creds_api e Hin POST x r' H) as (K & _).
  exists u. split; [exact Hp|]. split; [exact L|]. rewrite (peer_get x u Hp) in K. split; [exact K|].
  unfold snapctl_uid. rewrite K. reflexivity.
Qed.
