(* Proofs about models/TaskEngine.v, part 7 (C01): a whole Ensure pass is monotone, so a pass that contains a firing
   iteration changes the state. Progress measure: every task's position along
   Do < Doing < Abort < Undo < Undoing < {Done, Hold, Undone, Error, Wait}  plus the number of tombs. Stdlib only. *)
From Coq Require Import List NArith ZArith Bool Arith Lia.
Import ListNotations.
Require Import V.models.TaskEngine V.proofs.TaskEngineProofs V.proofs.TaskEngineStatus V.proofs.TaskEngineReady
               V.proofs.TaskEngineDoing V.proofs.TaskEngineFuel V.proofs.TaskEngineLive.

Definition rank (x : status) : nat :=
  match x with Do => 0 | Doing => 1 | Abort => 2 | Undo => 3 | Undoing => 4 | _ => 5 end.

Definition rsum (l : list task) : nat := list_sum (map (fun tk => rank (t_st tk)) l).
Definition pm (s : state) : nat := rsum (tasks s) + length (running s).

Lemma rsum_upd_st : forall l t nw, t < length l ->
  rsum (upd l t (fun tk => set_st tk nw)) + rank (t_st (nth t l dummy)) = rsum l + rank nw.
Proof.
  unfold rsum. induction l as [|a l IH]; intros t nw H; simpl in H; [lia|].
  destruct t; simpl.
  - lia.
  - specialize (IH t nw). assert (t < length l) by lia. specialize (IH H0). lia.
Qed.

Lemma rsum_upd_irrel : forall l t f, (forall tk, t_st (f tk) = t_st tk) -> rsum (upd l t f) = rsum l.
Proof.
  unfold rsum. induction l as [|a l IH]; intros [|t] f H; simpl; auto; rewrite ?H, ?(IH t f H); reflexivity.
Qed.

(* a status write along the order never lowers the measure; an effective one raises it *)
Lemma pm_set_status_ge : forall s t nw, rank (st s t) <= rank nw -> pm s <= pm (set_status s t nw).
Proof.
  intros s t nw H. unfold pm. rewrite running_set_status.
  destruct (tasks_set_status s t nw) as [E|W]; [rewrite E; lia|].
  unfold wrote in W. rewrite W.
  destruct (Nat.lt_ge_cases t (length (tasks s))) as [L|L].
  - pose proof (rsum_upd_st (tasks s) t nw L) as R. unfold st, get in H. lia.
  - rewrite upd_out by assumption. lia.
Qed.

Lemma wrote_eff : forall s t nw,
  panicked s = false -> st s t <> nw -> (nw = Done -> st s t <> Abort) -> wrote s (set_status s t nw) t nw.
Proof.
  intros s t nw Hp Hn Hd. unfold set_status. rewrite Hp.
  assert (E : seqb nw Done && seqb (st s t) Abort = false).
  { destruct (seqb nw Done) eqn:E1; [|reflexivity]. apply seqb_eq in E1. apply seqb_neq in Hd; [|assumption].
    rewrite Hd. reflexivity. }
  rewrite E. unfold change_st. apply seqb_neq in Hn. rewrite Hn.
  unfold wrote, with_panicked, with_cready, with_tasks. repeat des_if; reflexivity.
Qed.

Lemma pm_set_status_gt : forall s t nw,
  panicked s = false -> t < length (tasks s) -> rank (st s t) < rank nw -> (nw = Done -> st s t <> Abort) ->
  pm s < pm (set_status s t nw).
Proof.
  intros s t nw Hp L H Hd. unfold pm. rewrite running_set_status.
  assert (Hn : st s t <> nw) by (intros E; rewrite E in H; lia).
  pose proof (wrote_eff s t nw Hp Hn Hd) as W. unfold wrote in W. rewrite W.
  pose proof (rsum_upd_st (tasks s) t nw L) as R. unfold st, get in H. lia.
Qed.

Lemma pm_run : forall s t, (st s t = Do \/ st s t = Doing \/ st s t = Undo \/ st s t = Undoing \/ True) -> pm s < pm (run s t).
Proof.
  intros s t _. unfold run.
  set (s1 := match t_st (get s t) with Do => set_status s t Doing | Undo => set_status s t Undoing | _ => s end).
  assert (G : pm s <= pm s1).
  { unfold s1. change (t_st (get s t)) with (st s t). destruct (st s t) eqn:E; try lia;
      apply pm_set_status_ge; rewrite E; simpl; lia. }
  unfold pm in *. cbn [tasks running with_slog with_running with_tasks length].
  rewrite rsum_upd_irrel by reflexivity. lia.
Qed.

Lemma pm_ensure_rest : forall s t,
  pm s <= pm (ensure_rest s t) /\ (ensure_rest s t = s \/ pm s < pm (ensure_rest s t)).
Proof.
  intros s t. unfold ensure_rest.
  destruct (ready (st s t)); [split; [lia | left; reflexivity]|].
  destruct (seqb (st s t) Wait); [split; [lia | left; reflexivity]|].
  destruct (must_wait s t); [split; [lia | left; reflexivity]|].
  destruct (seqb (st s t) Undo && negb (t_undo (get s t))) eqn:Eu.
  - apply andb_true_iff in Eu. destruct Eu as [Eu _]. apply seqb_eq in Eu.
    destruct (panicked s) eqn:Ep.
    + assert (E : set_status s t Done = s) by (unfold set_status; rewrite Ep; reflexivity).
      rewrite E. split; [lia | left; reflexivity].
    + assert (L : t < length (tasks s)) by (apply in_range_st; rewrite Eu; discriminate).
      assert (G : pm s < pm (set_status s t Done)).
      { apply pm_set_status_gt; auto; rewrite Eu; [simpl; lia | discriminate]. }
      split; [lia | right; assumption].
  - destruct (negb (gate_open s t)); [split; [lia | left; reflexivity]|].
    pose proof (pm_run s t (or_intror (or_intror (or_intror (or_intror I))))) as G. split; [lia | right; assumption].
Qed.

Lemma pm_ensure_one : forall s t,
  pm s <= pm (ensure_one s t) /\ (ensure_one s t = s \/ pm s < pm (ensure_one s t)).
Proof.
  intros s t. unfold ensure_one.
  destruct (panicked s) eqn:Ep; [split; [lia | left; reflexivity]|].
  destruct (memn t (running s)); [split; [lia | left; reflexivity]|].
  destruct (seqb (st s t) Abort) eqn:Ea; [|apply pm_ensure_rest].
  apply seqb_eq in Ea.
  assert (L : t < length (tasks s)) by (apply in_range_st; rewrite Ea; discriminate).
  assert (G : pm s < pm (try_undo s t)).
  { unfold try_undo. des_if; apply pm_set_status_gt; auto; rewrite Ea; simpl; try lia; discriminate. }
  destruct (pm_ensure_rest (try_undo s t) t) as [G2 _]. split; [lia | right; lia].
Qed.

Lemma pm_ensure_pass : forall order s, pm s <= pm (ensure_pass s order).
Proof.
  unfold ensure_pass. induction order; simpl; intros s; [lia|].
  destruct (pm_ensure_one s a) as [G _]. specialize (IHorder (ensure_one s a)). lia.
Qed.

Lemma fires_changes : forall s t, fires s t -> ~ In t (running s) -> ensure_one s t <> s.
Proof. intros s t [F|F] Hn E; rewrite E in F; [congruence | contradiction]. Qed.

(* a pass that visits a task for which the loop body fires raises the measure: later iterations cannot undo the
   status write or the handler start of an earlier one *)
Theorem pass_progress : forall order s t,
  fires s t -> ~ In t (running s) -> In t order -> pm s < pm (ensure_pass s order).
Proof.
  induction order as [|a r IH]; intros s t F Hn Hin; [destruct Hin|].
  change (ensure_pass s (a :: r)) with (ensure_pass (ensure_one s a) r).
  destruct (pm_ensure_one s a) as [G [E|G2]].
  - rewrite E. destruct Hin as [->|Hin]; [exfalso; eapply fires_changes; eauto|]. eapply IH; eauto.
  - pose proof (pm_ensure_pass r (ensure_one s a)). lia.
Qed.

(* C01 no-deadlock for a whole pass: in the situation of no_deadlock, a pass over any order that contains every task
   of the change changes the state (it strictly raises the progress measure) unless every task is ready *)
Theorem no_deadlock_pass : forall (g : list tdesc) (rk : nat -> nat) (es : list event) (order : list nat),
  g <> [] -> closed g -> (forall t w, In w (waits_g g t) -> rk w < rk t) ->
  tame (init_state g) es ->
  let s := run_events (init_state g) es in
  running s = [] -> (forall t, st s t <> Wait) -> (forall t, gate_open s t = true) ->
  (forall t, t < length (tasks s) -> In t order) ->
  all_ready (tasks s) = true \/ (pm s < pm (ensure_pass s order) /\ ensure_pass s order <> s).
Proof.
  intros g rk es order Hg Hc Hrk Ht s Hr Hnw Hgate Hall.
  destruct (no_deadlock_total g rk es Hg Hc Hrk Ht Hr Hnw Hgate) as [A|(t & L & F)]; [left; assumption | right].
  fold s in L, F.
  assert (P : pm s < pm (ensure_pass s order)).
  { apply pass_progress with t; auto. rewrite Hr. intros []. }
  split; [assumption|]. intros E. rewrite E in P. lia.
Qed.
