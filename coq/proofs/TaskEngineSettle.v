(* Proofs about models/TaskEngine.v, part 14 (C03 / C01): settling. With handlers that return (ok or error), no task
   waiting for a reboot and no delayed retry, repeated rounds  Ensure ; finish every running handler  reach a state
   in which every task is ready within a bound that depends only on the number of tasks. Stdlib only. *)
From Coq Require Import List NArith ZArith Bool Arith Lia.
Import ListNotations.
Require Import V.models.TaskEngine V.proofs.TaskEngineProofs V.proofs.TaskEngineStatus V.proofs.TaskEngineReady
               V.proofs.TaskEngineDoing V.proofs.TaskEngineFuel V.proofs.TaskEngineLive V.proofs.TaskEnginePass
               V.proofs.TaskEngineErr V.proofs.TaskEngineSettled.

(* the events of a round: Ensure, and handlers that return nil or an error *)
Definition okev (e : event) : Prop :=
  match e with Ensure _ => True | Finish _ OOk => True | Finish _ OErr => True | _ => False end.

(* ------------------------------------------------------------------ no task enters Wait *)
Lemma amap_to_wait : forall a, abort_map_ok a Wait = true -> a = Wait.
Proof. destruct a; simpl; intros H; try discriminate; reflexivity. Qed.

Lemma wait_origin_ensure_one : forall s t u, inv s -> st (ensure_one s t) u = Wait -> st s u = Wait.
Proof.
  intros s t u I H. unfold ensure_one in H.
  destruct (panicked s) eqn:Ep; [assumption|]. destruct (memn t (running s)) eqn:Em; [assumption|].
  destruct (Nat.eq_dec u t) as [->|N].
  - destruct (seqb (st s t) Abort) eqn:Ea.
    + apply seqb_eq in Ea. destruct (try_undo_result s t I Ea) as [R _].
      destruct (st_ensure_rest (try_undo s t) t) as [A|[A|[A|A]]]; rewrite A in H; try discriminate H.
      destruct R as [R|R]; rewrite R in H; discriminate H.
    + destruct (st_ensure_rest s t) as [A|[A|[A|A]]]; rewrite A in H; try discriminate H. assumption.
  - destruct (seqb (st s t) Abort).
    + rewrite st_ensure_rest_other, st_try_undo_other in H by assumption. assumption.
    + rewrite st_ensure_rest_other in H by assumption. assumption.
Qed.

Lemma wait_origin_ensure_pass : forall order s u, inv s -> st (ensure_pass s order) u = Wait -> st s u = Wait.
Proof.
  unfold ensure_pass. induction order; simpl; intros s u I H; [assumption|].
  apply (wait_origin_ensure_one s a u I). apply IHorder; [apply inv_ensure_one; assumption | assumption].
Qed.

Lemma wait_origin_finish : forall s t o u,
  inv s -> (o = OOk \/ o = OErr) -> st (finish s t o) u = Wait -> st s u = Wait.
Proof.
  intros s t o u I Ho H. unfold finish in H. pose proof I as [Hp Hc Hr]. rewrite Hp in H.
  destruct (memn t (running s)) eqn:Em; simpl negb in H; cbv iota in H; [|assumption].
  apply memn_In in Em. pose proof (Hr t Em) as Ut.
  set (s0 := remove_running s t) in *.
  assert (S0 : forall x, st s0 x = st s x) by reflexivity.
  destruct Ho as [-> | ->].
  - rewrite S0 in H. destruct (st s t) eqn:Es; try discriminate Ut;
      match type of H with st (set_status ?y t ?nw) u = Wait =>
        destruct (st_set_status y t nw u) as [A|[A B]]; [rewrite A, S0 in H; assumption | rewrite B in H; discriminate H] end.
  - match type of H with st (set_status ?y t ?nw) u = Wait =>
      destruct (st_set_status y t nw u) as [A|[A B]]; [rewrite A in H | rewrite B in H; discriminate H] end.
    unfold abort_lanes_top in H. rewrite st_ready_detect in H.
    pose proof (abort_lanes_mapping (depth_fuel s0) (lanes_of (get s0 t)) [] [] s0 u) as M. rewrite H in M.
    apply amap_to_wait in M. rewrite <- (S0 u). exact M.
Qed.

Lemma wait_origin_step : forall s e u, inv s -> okev e -> st (step s e) u = Wait -> st s u = Wait.
Proof.
  intros s e u I He H. destruct e; simpl in *; try contradiction.
  - eapply wait_origin_ensure_pass; eauto.
  - destruct o; try contradiction; (eapply wait_origin_finish; [exact I | | exact H]; auto).
Qed.

(* ------------------------------------------------------------------ no task gets scheduled *)
Definition at0 (s : state) : Prop := forall t, t_at (get s t) = 0%Z.

Lemma at0_tasks_upd : forall s t f, (forall tk, t_at (f tk) = t_at tk \/ t_at (f tk) = 0%Z) -> at0 s ->
  at0 (with_tasks s (upd (tasks s) t f)).
Proof.
  intros s t f Hf A u. unfold get; cbn [tasks with_tasks].
  destruct (Nat.eq_dec t u) as [->|N].
  - destruct (Nat.lt_ge_cases u (length (tasks s))) as [L|L].
    + rewrite nth_upd_same by assumption. destruct (Hf (nth u (tasks s) dummy)) as [E|E]; rewrite E; [apply A | reflexivity].
    + rewrite upd_out by assumption. apply A.
  - rewrite nth_upd_other by assumption. apply A.
Qed.

Lemma at0_set_status : forall s t nw, at0 s -> at0 (set_status s t nw).
Proof. intros s t nw A u. rewrite at_set_status. apply A. Qed.
Lemma at0_try_undo : forall s t, at0 s -> at0 (try_undo s t).
Proof. intros s t A u. rewrite at_try_undo. apply A. Qed.
Lemma at0_set_status_quiet : forall s t nw, at0 s -> at0 (set_status_quiet s t nw).
Proof. intros s t nw A. unfold set_status_quiet. des_if; [assumption|]. apply at0_tasks_upd; auto. Qed.
Lemma at0_abort_write : forall s t, at0 s -> at0 (abort_write s t).
Proof. intros s t A. unfold abort_write. destruct (eff_status (get s t)); auto using at0_set_status_quiet. Qed.
Lemma at0_abort_lanes : forall d kill al seen s, at0 s -> at0 (abort_lanes d kill al seen s).
Proof. intros. apply (abort_lanes_P at0); auto using at0_abort_write. Qed.
Lemma at0_ready_detect : forall s, at0 s -> at0 (ready_detect s).
Proof. intros s A u. unfold ready_detect, with_cready, with_panicked; repeat des_if; apply A. Qed.
Lemma at0_run : forall s t, at0 s -> at0 (run s t).
Proof.
  intros s t A. unfold run.
  set (s1 := match t_st (get s t) with Do => set_status s t Doing | Undo => set_status s t Undoing | _ => s end).
  assert (A1 : at0 s1) by (unfold s1; destruct (t_st (get s t)); auto using at0_set_status).
  intros u. change (t_at (get (with_tasks s1 (upd (tasks s1) t (fun tk => set_at tk 0))) u) = 0%Z).
  apply at0_tasks_upd; auto.
Qed.
Lemma at0_ensure_rest : forall s t, at0 s -> at0 (ensure_rest s t).
Proof. intros s t A. unfold ensure_rest. repeat des_if; auto using at0_set_status, at0_run. Qed.
Lemma at0_ensure_one : forall s t, at0 s -> at0 (ensure_one s t).
Proof. intros s t A. unfold ensure_one. repeat des_if; auto using at0_ensure_rest, at0_try_undo. Qed.
Lemma at0_ensure_pass : forall order s, at0 s -> at0 (ensure_pass s order).
Proof. unfold ensure_pass. induction order; simpl; intros; auto using at0_ensure_one. Qed.
Lemma at0_finish : forall s t o, (o = OOk \/ o = OErr) -> at0 s -> at0 (finish s t o).
Proof.
  intros s t o Ho A. unfold finish. destruct (panicked s); [assumption|]. destruct (negb (memn t (running s))); [assumption|].
  assert (A0 : at0 (remove_running s t)) by exact A.
  destruct Ho as [-> | ->].
  - destruct (st (remove_running s t) t); auto using at0_set_status.
  - apply at0_set_status. unfold abort_lanes_top. apply at0_ready_detect, at0_abort_lanes. assumption.
Qed.
Lemma at0_step : forall s e, okev e -> at0 s -> at0 (step s e).
Proof.
  intros s e He A. destruct e; simpl in *; try contradiction.
  - apply at0_ensure_pass; assumption.
  - destruct o; try contradiction; apply at0_finish; auto.
Qed.
Lemma at0_gate : forall s t, at0 s -> gate_open s t = true.
Proof. intros s t A. unfold gate_open. rewrite (A t). reflexivity. Qed.

(* ------------------------------------------------------------------ the bundle carried through rounds *)
Record okst (rk : nat -> nat) (s : state) : Prop := mkOk {
  ok_inv : inv s; ok_sym : sym s; ok_rsym : rsym s; ok_kgood : kgood s; ok_oof : oof s = false;
  ok_rk : forall t w, In w (wts s t) -> rk w < rk t;
  ok_nowait : forall t, st s t <> Wait; ok_at : at0 s
}.

Lemma okst_step : forall rk s e, okev e -> okst rk s -> okst rk (step s e).
Proof.
  intros rk s e He [I Sy Rs K O Rk Nw A].
  assert (Fr : shapes (step s e) = shapes s) by apply frame_step.
  assert (Ga : e = UAbort -> cready s = false) by (intros ->; contradiction).
  assert (Wa : forall t, e = Finish t (OWait true) -> st s t <> Doing) by (intros t ->; contradiction).
  constructor.
  - apply inv_step; assumption.
  - eapply sym_shapes; eauto.
  - eapply rsym_shapes; eauto.
  - destruct (kfull_step s e I Sy Wa (or_intror K)) as [F|G]; [rewrite oof_step in F; congruence | assumption].
  - rewrite oof_step; assumption.
  - intros t w Hw. rewrite (wts_frame s (step s e) t Fr) in Hw. auto.
  - intros t F. apply (Nw t). eapply wait_origin_step; eauto.
  - apply at0_step; assumption.
Qed.

Lemma okst_run_events : forall rk es s, Forall okev es -> okst rk s -> okst rk (run_events s es).
Proof.
  unfold run_events. induction es; simpl; intros s F H; [assumption|]. inversion F; subst.
  apply IHes; [assumption | apply okst_step; assumption].
Qed.

(* ------------------------------------------------------------------ finishing every running handler *)
Definition fin (oc : nat -> bool) (t : nat) : event := Finish t (if oc t then OErr else OOk).
Definition finish_all (s : state) (oc : nat -> bool) : state := run_events s (map (fin oc) (running s)).
Definition round (s : state) (order : list nat) (oc : nat -> bool) : state :=
  finish_all (ensure_pass s order) oc.

Lemma fin_okev : forall oc t, okev (fin oc t).
Proof. intros; unfold fin; destruct (oc t); exact I. Qed.
Lemma fin_all_okev : forall oc L, Forall okev (map (fin oc) L).
Proof. induction L; simpl; constructor; auto using fin_okev. Qed.

Lemma filter_notin_id : forall t l, ~ In t l -> filter (fun x => negb (Nat.eqb x t)) l = l.
Proof.
  induction l as [|a l IH]; simpl; intros H; [reflexivity|].
  destruct (Nat.eqb a t) eqn:E; [apply Nat.eqb_eq in E; subst; exfalso; apply H; left; reflexivity|].
  simpl. rewrite IH; auto.
Qed.

Lemma running_finish : forall s t o, inv s -> (o = OOk \/ o = OErr) ->
  running (finish s t o) = filter (fun x => negb (Nat.eqb x t)) (running s).
Proof.
  intros s t o I Ho. unfold finish. rewrite (i_np s I).
  destruct (memn t (running s)) eqn:Em; simpl negb; cbv iota.
  - destruct Ho as [-> | ->].
    + destruct (st (remove_running s t) t); rewrite ?running_set_status; reflexivity.
    + rewrite running_set_status. unfold abort_lanes_top. rewrite running_ready_detect.
      destruct (qrel_abort_lanes (depth_fuel (remove_running s t)) (lanes_of (get (remove_running s t) t)) [] []
                                 (remove_running s t)) as (_ & _ & R & _). rewrite R. reflexivity.
  - symmetry. apply filter_notin_id. intros F. apply memn_In in F. congruence.
Qed.

Lemma step_fin : forall s oc t, step s (fin oc t) = finish s t (if oc t then OErr else OOk).
Proof. reflexivity. Qed.

Lemma inv_fin : forall s oc t, inv s -> inv (step s (fin oc t)).
Proof. intros. rewrite step_fin. apply inv_finish. assumption. Qed.

Lemma running_finish_list : forall oc L s, inv s ->
  running (run_events s (map (fin oc) L)) = filter (fun x => negb (memn x L)) (running s).
Proof.
  unfold run_events. induction L as [|a L IH]; intros s I; cbn [map fold_left].
  - induction (running s) as [|x r IHr]; simpl; [reflexivity | f_equal; exact IHr].
  - rewrite (IH _ (inv_fin s oc a I)). rewrite step_fin, running_finish by (auto; destruct (oc a); auto).
    induction (running s) as [|x r IHr]; simpl; [reflexivity|].
    destruct (Nat.eqb x a) eqn:E; simpl; [exact IHr|]. destruct (memn x L); simpl; [exact IHr | rewrite IHr; reflexivity].
Qed.

Lemma finish_all_no_tomb : forall s oc, inv s -> running (finish_all s oc) = [].
Proof.
  intros s oc I. unfold finish_all. rewrite running_finish_list by assumption.
  assert (H : forall l l', (forall x, In x l' -> In x l) -> filter (fun x => negb (memn x l)) l' = []).
  { induction l' as [|x r IH]; simpl; intros Hs; [reflexivity|].
    assert (E : memn x l = true) by (apply memn_In, Hs; left; reflexivity). rewrite E. simpl. apply IH. intros y Hy. apply Hs. right; assumption. }
  apply H. auto.
Qed.

(* ------------------------------------------------------------------ the potential *)
Definition ec (s : state) : nat := length (filter (fun u => seqb (st s u) Error) (seq 0 (length (tasks s)))).

Lemma len_step : forall s e, length (tasks (step s e)) = length (tasks s).
Proof. intros. rewrite !len_shapes. f_equal. apply frame_step. Qed.

Lemma filter_length_mono : forall (A : Type) (p p' : A -> bool) (l : list A),
  (forall x, p x = true -> p' x = true) -> length (filter p l) <= length (filter p' l).
Proof.
  induction l as [|a l IH]; simpl; intros H; [lia|]. specialize (IH H).
  destruct (p a) eqn:E; [rewrite (H a E); simpl; lia|]. destruct (p' a); simpl; lia.
Qed.

Lemma ec_step_ge : forall s e, inv s -> ec s <= ec (step s e).
Proof.
  intros s e I. unfold ec. rewrite len_step. apply filter_length_mono.
  intros u H. apply seqb_eq in H. apply seqb_eq. apply error_final_step; assumption.
Qed.

Lemma ec_finish_err : forall s t, inv s -> In t (running s) -> ec s < ec (finish s t OErr).
Proof.
  intros s t I Hin. unfold ec. change (finish s t OErr) with (step s (Finish t OErr)). rewrite len_step.
  pose proof (i_run s I t Hin) as Ut.
  apply filter_length_lt with t.
  - intros u H. apply seqb_eq in H. apply seqb_eq. apply error_final_step; assumption.
  - apply in_seq. assert (t < length (tasks s)) by (apply in_range_st; intros E; rewrite E in Ut; discriminate). lia.
  - simpl step. destruct (finish_err_sets_error s t I Hin) as [E _]. rewrite E. reflexivity.
  - destruct (st s t); try discriminate Ut; reflexivity.
Qed.

Lemma rsum_bound : forall l, rsum l <= 5 * length l.
Proof.
  unfold rsum. induction l as [|a l IH]; simpl; [lia|]. destruct (t_st a); simpl; lia.
Qed.

Definition rs (s : state) : nat := rsum (tasks s).

Lemma rs_set_status_ge : forall s t nw, rank (st s t) <= rank nw -> rs s <= rs (set_status s t nw).
Proof.
  intros s t nw H. pose proof (pm_set_status_ge s t nw H) as P. unfold pm in P. rewrite running_set_status in P.
  unfold rs. lia.
Qed.

Lemma rs_run_ge : forall s t, rs s <= rs (run s t).
Proof.
  intros s t. unfold run.
  set (s1 := match t_st (get s t) with Do => set_status s t Doing | Undo => set_status s t Undoing | _ => s end).
  assert (G : rs s <= rs s1).
  { unfold s1. change (t_st (get s t)) with (st s t). destruct (st s t) eqn:E; try lia;
      apply rs_set_status_ge; rewrite E; simpl; lia. }
  unfold rs in *. cbn [tasks with_slog with_running with_tasks]. rewrite rsum_upd_irrel by reflexivity. assumption.
Qed.

Lemma rs_ensure_rest_ge : forall s t, rs s <= rs (ensure_rest s t).
Proof.
  intros s t. unfold ensure_rest. repeat des_if; try lia; [|apply rs_run_ge].
  apply andb_true_iff in Heqb2. destruct Heqb2 as [E _]. apply seqb_eq in E.
  apply rs_set_status_ge. rewrite E. simpl. lia.
Qed.

Lemma rs_ensure_one_ge : forall s t, rs s <= rs (ensure_one s t).
Proof.
  intros s t. unfold ensure_one. destruct (panicked s); [lia|]. destruct (memn t (running s)); [lia|].
  destruct (seqb (st s t) Abort) eqn:Ea; [|apply rs_ensure_rest_ge].
  apply seqb_eq in Ea. pose proof (rs_ensure_rest_ge (try_undo s t) t).
  assert (rs s <= rs (try_undo s t)); [|lia].
  unfold try_undo. des_if; apply rs_set_status_ge; rewrite Ea; simpl; lia.
Qed.

Lemma rs_ensure_pass_ge : forall order s, rs s <= rs (ensure_pass s order).
Proof.
  unfold ensure_pass. induction order; simpl; intros s; [lia|].
  pose proof (rs_ensure_one_ge s a). specialize (IHorder (ensure_one s a)). lia.
Qed.

Lemma rs_finish_ok : forall s t, inv s -> In t (running s) -> rs s < rs (finish s t OOk).
Proof.
  intros s t I Hin. unfold finish. rewrite (i_np s I).
  assert (Em : memn t (running s) = true) by (apply memn_In; assumption). rewrite Em. simpl negb. cbv iota.
  pose proof (i_run s I t Hin) as Ut.
  set (s0 := remove_running s t).
  assert (L : t < length (tasks s0)) by (apply in_range_st; intros E; change (st s0 t) with (st s t) in E; rewrite E in Ut; discriminate).
  assert (G : forall nw, rank (st s0 t) < rank nw -> (nw = Done -> st s0 t <> Abort) -> rs s < rs (set_status s0 t nw)).
  { intros nw Hr Hd. pose proof (pm_set_status_gt s0 t nw (i_np s I) L Hr Hd) as P. unfold pm in P.
    rewrite running_set_status in P. unfold rs. change (tasks s0) with (tasks s) in P. lia. }
  change (st s0 t) with (st s t) in *. destruct (st s t) eqn:Es; try discriminate Ut.
  - apply G; [simpl; lia | discriminate].
  - apply G; [simpl; lia | discriminate].
  - apply G; [simpl; lia | discriminate].
Qed.

(* finishing a list of handlers: the error count never drops; if one of them was running, either an error was
   added or the rank sum went up *)
Lemma finish_list_potential : forall oc L s, inv s ->
  let s' := run_events s (map (fin oc) L) in
  ec s <= ec s' /\
  (ec s < ec s' \/ (rs s <= rs s' /\ ((exists t, In t L /\ In t (running s)) -> rs s < rs s'))).
Proof.
  unfold run_events. induction L as [|a L IH]; intros s I; cbn [map fold_left].
  - split; [lia|]. right. split; [lia|]. intros (t & [] & _).
  - pose proof (inv_fin s oc a I) as I1. destruct (IH _ I1) as (E1 & D1).
    pose proof (ec_step_ge s (fin oc a) I) as E0.
    split; [lia|].
    destruct (in_dec Nat.eq_dec a (running s)) as [Hin|Hnin].
    + rewrite step_fin in *. destruct (oc a).
      * left. pose proof (ec_finish_err s a I Hin). lia.
      * pose proof (rs_finish_ok s a I Hin) as R. destruct D1 as [D|[D _]]; [left; lia | right; split; [lia | intros _; lia]].
    + assert (Same : step s (fin oc a) = s).
      { rewrite step_fin. unfold finish. rewrite (i_np s I).
        assert (memn a (running s) = false) by (destruct (memn a (running s)) eqn:E; [apply memn_In in E; contradiction | reflexivity]).
        rewrite H. reflexivity. }
      rewrite Same in *. destruct D1 as [D|[D1 D2]]; [left; assumption|]. right. split; [assumption|].
      intros (t & [<-|Ht] & Hr); [contradiction|]. apply D2. exists t. split; assumption.
Qed.

Definition pot (s : state) : nat := ec s * (5 * length (tasks s) + 1) + rs s.

Lemma ec_bound : forall s, ec s <= length (tasks s).
Proof. intros. unfold ec. pose proof (filter_length_le _ (fun u => seqb (st s u) Error) (seq 0 (length (tasks s)))). rewrite seq_length in H. assumption. Qed.

Lemma pot_bound : forall s, pot s <= length (tasks s) * (5 * length (tasks s) + 1) + 5 * length (tasks s).
Proof.
  intros s. unfold pot, rs. pose proof (ec_bound s). pose proof (rsum_bound (tasks s)).
  pose proof (Nat.mul_le_mono_r _ _ (5 * length (tasks s) + 1) H). lia.
Qed.

Lemma pot_up : forall n e r e' r', r <= 5 * n -> r' <= 5 * n ->
  (e < e' \/ (e <= e' /\ r < r')) -> e * (5 * n + 1) + r < e' * (5 * n + 1) + r'.
Proof.
  intros n e r e' r' Hr Hr' [H|[H1 H2]].
  - pose proof (Nat.mul_le_mono_r (S e) e' (5 * n + 1) H). simpl in H0. lia.
  - pose proof (Nat.mul_le_mono_r e e' (5 * n + 1) H1). lia.
Qed.

Lemma len_run_events : forall es s, length (tasks (run_events s es)) = length (tasks s).
Proof. unfold run_events. induction es; simpl; intros; [reflexivity|]. rewrite IHes. apply len_step. Qed.

Lemma ensure_pass_as_step : forall s order, ensure_pass s order = step s (Ensure order).
Proof. reflexivity. Qed.

(* one round from a tomb-free state that is not settled strictly raises the potential *)
Lemma round_progress : forall rk s order oc,
  okst rk s -> running s = [] -> all_ready (tasks s) = false ->
  (forall t, t < length (tasks s) -> In t order) ->
  pot s < pot (round s order oc).
Proof.
  intros rk s order oc [I Sy Rs K O Rk Nw A] Hr Hna Hall.
  destruct (stuck_free s rk I K Rs Rk Hr Nw (fun t => at0_gate s t A) Hna) as (t & Lt & F).
  assert (P : pm s < pm (ensure_pass s order)).
  { apply pass_progress with t; auto. rewrite Hr. intros []. }
  set (s1 := ensure_pass s order) in *.
  assert (I1 : inv s1) by (unfold s1; rewrite ensure_pass_as_step; apply inv_step; [intros F'; discriminate F' | assumption]).
  assert (L1 : length (tasks s1) = length (tasks s)) by (unfold s1; rewrite ensure_pass_as_step; apply len_step).
  assert (E1 : ec s <= ec s1) by (unfold s1; rewrite ensure_pass_as_step; apply ec_step_ge; assumption).
  assert (R1 : rs s <= rs s1) by apply rs_ensure_pass_ge.
  unfold pm in P. rewrite Hr in P. simpl in P. fold (rs s) in P. fold (rs s1) in P.
  unfold round. fold s1. unfold finish_all.
  destruct (finish_list_potential oc (running s1) s1 I1) as (E2 & D).
  set (s2 := run_events s1 (map (fin oc) (running s1))) in *.
  assert (L2 : length (tasks s2) = length (tasks s)) by (unfold s2; rewrite len_run_events; assumption).
  unfold pot. rewrite L2.
  apply pot_up.
  - unfold rs. apply rsum_bound.
  - unfold rs. rewrite <- L2. apply rsum_bound.
  - destruct D as [D|[D1 D2]]; [left; lia|].
    destruct (running s1) as [|a r] eqn:Er.
    + right. split; [lia|]. simpl in P. lia.
    + assert (rs s1 < rs s2) by (apply D2; exists a; split; left; reflexivity). right. split; lia.
Qed.

(* ------------------------------------------------------------------ iterating rounds *)
Lemma okst_round : forall rk s order oc, okst rk s -> okst rk (round s order oc) /\ running (round s order oc) = [] /\
  length (tasks (round s order oc)) = length (tasks s).
Proof.
  intros rk s order oc H. unfold round.
  assert (H1 : okst rk (ensure_pass s order)) by (rewrite ensure_pass_as_step; apply okst_step; [exact I | assumption]).
  split; [|split].
  - unfold finish_all. apply okst_run_events; [apply fin_all_okev | assumption].
  - apply finish_all_no_tomb. apply (ok_inv rk _ H1).
  - unfold finish_all. rewrite len_run_events, ensure_pass_as_step. apply len_step.
Qed.

Lemma ensure_one_ready : forall s t, ready (st s t) = true -> ensure_one s t = s.
Proof.
  intros s t H. unfold ensure_one. destruct (panicked s); [reflexivity|]. destruct (memn t (running s)); [reflexivity|].
  assert (E : seqb (st s t) Abort = false) by (destruct (st s t); try discriminate H; reflexivity).
  rewrite E. unfold ensure_rest. rewrite H. reflexivity.
Qed.

Lemma ensure_pass_ready : forall order s, all_ready (tasks s) = true -> ensure_pass s order = s.
Proof.
  unfold ensure_pass. induction order; simpl; intros s A; [reflexivity|].
  rewrite (ensure_one_ready s a (all_ready_st s a A)). apply IHorder. assumption.
Qed.

Lemma round_ready : forall s order oc, all_ready (tasks s) = true -> running s = [] -> round s order oc = s.
Proof. intros s order oc A R. unfold round. rewrite (ensure_pass_ready order s A). unfold finish_all. rewrite R. reflexivity. Qed.

Fixpoint iter_rounds (rl : list (list nat * (nat -> bool))) (s : state) : state :=
  match rl with
  | [] => s
  | (o, oc) :: r => iter_rounds r (round s o oc)
  end.

Lemma iter_ready : forall rl s, all_ready (tasks s) = true -> running s = [] -> iter_rounds rl s = s.
Proof.
  induction rl as [|p r IH]; intros s A R; [reflexivity|]. destruct p as [o oc]. simpl.
  rewrite (round_ready s o oc A R). apply IH; assumption.
Qed.

Definition settle_bound (n : nat) : nat := n * (5 * n + 1) + 5 * n + 1.

Lemma iter_settles : forall rk k rl s,
  okst rk s -> running s = [] ->
  length (tasks s) * (5 * length (tasks s) + 1) + 5 * length (tasks s) - pot s < k -> k <= length rl ->
  (forall r, In r rl -> forall t, t < length (tasks s) -> In t (fst r)) ->
  all_ready (tasks (iter_rounds rl s)) = true /\ running (iter_rounds rl s) = [] /\ okst rk (iter_rounds rl s).
Proof.
  induction k; intros rl s H R Hk Hl Hcov; [lia|].
  destruct (all_ready (tasks s)) eqn:A.
  { rewrite (iter_ready rl s A R). auto. }
  destruct rl as [|[o oc] r]; [simpl in Hl; lia|]. simpl iter_rounds.
  destruct (okst_round rk s o oc H) as (H' & R' & L').
  pose proof (round_progress rk s o oc H R A (Hcov (o, oc) (or_introl eq_refl))) as P.
  pose proof (pot_bound (round s o oc)) as B. rewrite L' in B.
  apply IHk; auto.
  - rewrite L'. lia.
  - simpl in Hl. lia.
  - intros x Hx t Ht. rewrite L' in Ht. apply (Hcov x (or_intror Hx) t Ht).
Qed.

(* C03_settles: every tame history on a non-empty closed graph with acyclic wait edges that leaves no task in Wait and
   no task scheduled for later can be continued to a settled state: finish the running handlers (each returns nil or
   an error, as the oracle oc0 says), then run rounds  Ensure (any order visiting every task) ; finish every running
   handler (oracle of the round);  after settle_bound n = n(5n+1)+5n+1 rounds - whatever the orders and the
   oracles - every task is ready, no handler runs, the change is flagged ready, and it reports Error iff some task is
   in Error. *)
Theorem settles : forall (g : list tdesc) (rk : nat -> nat) (es : list event),
  g <> [] -> closed g -> (forall t w, In w (waits_g g t) -> rk w < rk t) ->
  tame (init_state g) es ->
  let s0 := run_events (init_state g) es in
  (forall t, st s0 t <> Wait) -> (forall t, t_at (get s0 t) = 0%Z) ->
  forall (oc0 : nat -> bool) (rl : list (list nat * (nat -> bool))),
  settle_bound (length g) <= length rl ->
  (forall r, In r rl -> forall t, t < length g -> In t (fst r)) ->
  let sF := iter_rounds rl (finish_all s0 oc0) in
  all_ready (tasks sF) = true /\ running sF = [] /\ cready sF = true /\
  (change_status (tasks sF) = Error <-> has_status (tasks sF) Error = true).
Proof.
  intros g rk es Hg Hc Hrk Ht s0 Hnw Hat oc0 rl Hlen Hcov sF.
  assert (Fr : shapes s0 = shapes (init_state g)) by apply shapes_run_events.
  assert (I0 : inv s0) by (apply inv_run_events; [apply tame_guarded; assumption | apply inv_init; assumption]).
  assert (K0 : kgood s0).
  { destruct (kfull_run_events es (init_state g) Ht (inv_init g Hg) (sym_init g) (or_intror (kgood_init g Hc))) as [O|K];
      [pose proof (oof_never g es); congruence | assumption]. }
  assert (Len : length (tasks s0) = length g).
  { rewrite len_shapes, Fr, <- len_shapes. cbn [tasks init_state]. unfold init_tasks. rewrite map_length, seq_length. reflexivity. }
  assert (O0 : okst rk s0).
  { constructor; auto.
    - eapply sym_shapes; [exact Fr | apply sym_init].
    - eapply rsym_shapes; [exact Fr | apply rsym_init].
    - apply oof_never.
    - intros t w Hw. rewrite (wts_frame (init_state g) s0 t Fr) in Hw.
      destruct (get_init g t) as (_ & _ & E & _). rewrite E in Hw. exact (Hrk t w Hw). }
  set (s1 := finish_all s0 oc0).
  assert (O1 : okst rk s1) by (unfold s1, finish_all; apply okst_run_events; [apply fin_all_okev | assumption]).
  assert (R1 : running s1 = []) by (apply finish_all_no_tomb; assumption).
  assert (L1 : length (tasks s1) = length g) by (unfold s1, finish_all; rewrite len_run_events; assumption).
  destruct (iter_settles rk (settle_bound (length g)) rl s1 O1 R1) as (A & R & O); auto.
  - rewrite L1. unfold settle_bound. lia.
  - intros r Hr t Htl. rewrite L1 in Htl. apply (Hcov r Hr t Htl).
  - fold sF in A, R, O. split; [assumption|]. split; [assumption|]. split.
    + rewrite (i_rd sF (ok_inv rk sF O)). assumption.
    + apply settled_error_iff. assumption.
Qed.

(* non-vacuity: the chain 0 <- 1 <- 2, everything still to do; task 1 fails: after the bound every task is ready *)
Lemma settles_example :
  let g := [([], [], true); ([], [0], true); ([], [1], true)] in
  let rl := repeat ([0; 1; 2], fun t => Nat.eqb t 1) (settle_bound 3) in
  map t_st (tasks (iter_rounds rl (finish_all (init_state g) (fun _ => false)))) = [Undone; Error; Hold].
Proof. vm_compute. reflexivity. Qed.
