(* Proofs about models/SnapSeq.v — part 5: completed refresh (C11 invariant, C12 bound), after-GC theorem for any target. *)
From Coq Require Import List NArith ZArith Bool Arith Lia Sorting.Sorted.
Import ListNotations.
Require Import V.models.SnapSeq V.proofs.SnapSeqProofs V.proofs.SnapSeqProofs2 V.proofs.SnapSeqProofs3 V.proofs.SnapSeqProofs4.
Open Scope N_scope.

(* C10 after garbage collection for ANY refresh (new or already kept revision), retain >= 2 *)
Theorem failed_after_gc_any : forall s o j retain inuse,
  wf s -> okind o = ORefresh -> accepts o s = true -> (2 <= retain)%Z -> cfg_guard o s ->
  forget (run_change o (S j) (tasks_for o s retain inuse) s)
  = forget (minus (map snd (filter is_discard (firstn j (tasks_for o s retain inuse)))) s).
Proof.
  intros s o j retain inuse W K AC R CG.
  destruct (in_dec N.eq_dec (orev o) (seq s)) as [I|I].
  - pose proof AC as AC'. unfold accepts in AC'. rewrite K in AC'. bool_hyps.
    destruct W as [W1 W2 W3 W4 W5 W6 W7 W8] eqn:WE.
    assert (NE : seq s <> []) by (intros E; rewrite E in I; destruct I).
    destruct (last_index (cur s) (seq s)) as [ci|] eqn:LI; [|apply last_index_none in LI; exfalso; apply LI; auto].
    destruct (gc_kept_keeps s (orev o) retain inuse ci W1 I) as [G1 G2]; auto; [lia|].
    apply failed_after_gc_kept; auto.
  - apply failed_after_gc; auto.
Qed.

(* ------------------------------------------------------------------------------------------------ wf of the pieces *)

Lemma sorted_fl : forall D l, sorted l -> sorted (fl D l).
Proof.
  unfold sorted, fl. induction l as [|z r IH]; simpl; intros S; [constructor|].
  inversion S as [|? ? S' F]; subst.
  destruct (negb (mem z D)); simpl; auto. constructor; auto.
  rewrite Forall_forall in *. intros y Hy. apply filter_In in Hy. apply F. tauto.
Qed.

Lemma wf_minus : forall D X, wf X -> seq X <> [] -> ~ In (cur X) D -> wf (minus D X).
Proof.
  intros D X [W1 W2 W3 W4 W5 W6 W7 W8] NE NC.
  assert (Ic : In (cur X) (fl D (seq X))) by (apply In_fl; auto).
  constructor; simpl; auto.
  - unfold fl. apply NoDup_filter. exact W1.
  - intros E. rewrite E in Ic. destruct Ic.
  - intros x Hx. apply In_fl in Hx. apply In_fl. split; [apply W4; tauto|tauto].
  - apply sorted_fl. exact W5.
  - apply sorted_fl. exact W6.
  - intros x. rewrite !In_fl, W7. tauto.
Qed.

Lemma wf_configure : forall o X, wf X -> seq X <> [] -> wf (do_configure o X).
Proof.
  intros o X [W1 W2 W3 W4 W5 W6 W7 W8] NE. unfold do_configure. destruct (ohookcfg o =? 0); constructor; simpl; auto; tauto.
Qed.

(* the state right after link-snap of a refresh (unlink-current and, for a new revision, mount-snap before it) *)
Definition linked (o : op) (s : st) : st :=
  fst (do_link o (do_unlink_current (if mem (orev o) (seq s) then s else do_mount (orev o) s))).

Lemma wf_linked : forall o s, wf s -> okind o = ORefresh -> accepts o s = true ->
  wf (linked o s) /\ cur (linked o s) = orev o /\ In (cur s) (seq (linked o s)) /\ In (orev o) (seq (linked o s)) /\
  (mem (orev o) (seq s) = false -> seq (linked o s) = seq s ++ [orev o]) /\
  (length (seq (linked o s)) = if mem (orev o) (seq s) then length (seq s) else S (length (seq s))).
Proof.
  intros o s [W1 W2 W3 W4 W5 W6 W7 W8] K AC.
  assert (NR : is_revert o = false) by (unfold is_revert; rewrite K; reflexivity).
  unfold accepts in AC. rewrite K in AC. bool_hyps.
  unfold installed in *. destruct (seq s) as [|x0 l0] eqn:SQ0; [discriminate|]. rewrite <- SQ0 in *.
  assert (NE : seq s <> []) by (rewrite SQ0; discriminate). specialize (W2 NE).
  unfold linked. destruct (mem (orev o) (seq s)) eqn:M.
  - apply mem_In in M.
    destruct (last_index (orev o) (seq s)) as [i|] eqn:LI; [|apply last_index_none in LI; tauto].
    destruct (last_index_split _ _ _ W1 LI) as (a & b & SQ & LA & _ & _).
    unfold do_unlink_current. rewrite norm_id by (simpl; exact NE).
    unfold do_link. rewrite NR. simpl. rewrite LI. rewrite SQ0. rewrite <- SQ0. simpl.
    assert (R1 : remove_at i (seq s) ++ [orev o] = (a ++ b) ++ [orev o]) by (rewrite SQ, <- LA, remove_at_app; reflexivity).
    rewrite R1.
    assert (P : forall x, In x ((a ++ b) ++ [orev o]) <-> In x (seq s)).
    { intros x. rewrite SQ, !in_app_iff. simpl. tauto. }
    assert (ND : NoDup ((a ++ b) ++ [orev o])).
    { rewrite SQ in W1. apply NoDup_app_last; [eapply NoDup_remove_1; eauto|eapply NoDup_remove_2; eauto]. }
    split; [|repeat split; auto; try (apply P; auto); try discriminate].
    + constructor; simpl; auto.
      * intros _. apply P. exact M.
      * intros E. destruct (a ++ b); discriminate.
      * intros x Hx. apply In_rem in Hx. apply P. apply W4. tauto.
      * apply sorted_rem. exact W5.
      * intros x. rewrite W7. symmetry. apply P.
    + rewrite SQ, !app_length. simpl. lia.
  - apply mem_false in M.
    assert (LI : last_index (orev o) (seq s) = None) by (apply last_index_none; exact M).
    unfold do_unlink_current. rewrite norm_id by (simpl; exact NE).
    unfold do_link. rewrite NR. simpl. rewrite LI. rewrite SQ0. rewrite <- SQ0. simpl.
    split; [|repeat split; auto; try (apply in_or_app; auto); try (apply in_or_app; right; left; reflexivity)].
    + constructor; simpl; auto.
      * apply NoDup_app_last; auto.
      * intros _. apply in_or_app. right. left. reflexivity.
      * intros E. destruct (seq s); discriminate.
      * intros x Hx. apply In_rem in Hx. apply in_or_app. left. apply W4. tauto.
      * apply sorted_rem. exact W5.
      * apply sorted_ins. exact W6.
      * intros x. rewrite In_ins, in_app_iff, W7. simpl. intuition.
    + right. left. reflexivity.
    + rewrite app_length. simpl. lia.
Qed.

(* ------------------------------------------------------------------------------------------------ completed refresh *)

Lemma run_ok_app : forall o a b X, run_ok o (a ++ b) X = run_ok o b (run_ok o a X).
Proof. intros. unfold run_ok. apply fold_left_app. Qed.

Lemma run_ok_pre : forall o s, installed s = true -> run_ok o (ess_pre o s) s = linked o s.
Proof.
  intros o s I. unfold ess_pre, linked. rewrite I. destruct (mem (orev o) (seq s)); unfold run_ok; cbn [app fold_left];
    unfold do_task; cbn [fst snd]; match goal with |- context [do_link o ?X] => destruct (do_link o X) end; reflexivity.
Qed.

(* a completed refresh: link the target, drop the garbage-collected revisions, run the configure hook *)
Theorem refresh_runs : forall s o retain inuse,
  wf s -> okind o = ORefresh -> accepts o s = true -> (2 <= retain)%Z ->
  run_change o 0 (tasks_for o s retain inuse) s
  = do_configure o (minus (gc_revs s (orev o) retain inuse) (linked o s)) /\
  ~ In (orev o) (gc_revs s (orev o) retain inuse) /\ ~ In (cur s) (gc_revs s (orev o) retain inuse).
Proof.
  intros s o retain inuse W K AC R.
  assert (NR : is_revert o = false) by (unfold is_revert; rewrite K; reflexivity).
  pose proof AC as AC'. unfold accepts in AC'. rewrite K in AC'. bool_hyps.
  match goal with H : installed s = true |- _ => rename H into INST end.
  destruct (wf_linked o s W K AC) as (WL & CL & IcL & IrL & _ & _).
  destruct W as [W1 W2 W3 W4 W5 W6 W7 W8].
  assert (NE : seq s <> []) by (unfold installed in INST; destruct (seq s); [discriminate|discriminate]).
  destruct (last_index (cur s) (seq s)) as [ci|] eqn:LI; [|apply last_index_none in LI; exfalso; apply LI; auto].
  assert (G : ~ In (orev o) (gc_revs s (orev o) retain inuse) /\ ~ In (cur s) (gc_revs s (orev o) retain inuse)).
  { destruct (in_dec N.eq_dec (orev o) (seq s)) as [I|I].
    - apply (gc_kept_keeps s (orev o) retain inuse ci); auto. lia.
    - apply (gc_new_keeps_current s (orev o) retain inuse ci); auto. }
  split; [|exact G]. destruct G as [G1 G2].
  rewrite run_change_ok. unfold tasks_for. rewrite K. rewrite install_tasks_ess. rewrite INST, NR. cbn [negb andb].
  rewrite !run_ok_app. rewrite run_ok_pre by exact INST.
  rewrite (discards_run o _ (linked o s) (cur s) (orev o)); auto;
    try (unfold run_ok; cbn; reflexivity); try (intros Q; congruence).
Qed.

Theorem refresh_wf : forall s o retain inuse,
  wf s -> okind o = ORefresh -> accepts o s = true -> (2 <= retain)%Z ->
  wf (run_change o 0 (tasks_for o s retain inuse) s).
Proof.
  intros s o retain inuse W K AC R.
  destruct (refresh_runs s o retain inuse W K AC R) as (E & G1 & G2). rewrite E.
  destruct (wf_linked o s W K AC) as (WL & CL & IcL & IrL & _ & _).
  assert (NE : seq (linked o s) <> []) by (intros Z; rewrite Z in IrL; destruct IrL).
  apply wf_configure.
  - apply wf_minus; auto; try (rewrite CL; exact G1).
  - unfold minus. cbn [seq]. intros Z. assert (I : In (orev o) (fl (gc_revs s (orev o) retain inuse) (seq (linked o s)))) by (apply In_fl; auto).
    rewrite Z in I. destruct I.
Qed.

(* C12: the kept revisions after a completed refresh *)
Theorem refresh_kept_after : forall s o retain inuse,
  wf s -> okind o = ORefresh -> accepts o s = true -> (2 <= retain)%Z ->
  seq (run_change o 0 (tasks_for o s retain inuse) s) = fl (gc_revs s (orev o) retain inuse) (seq (linked o s)) /\
  cur (run_change o 0 (tasks_for o s retain inuse) s) = orev o /\
  In (orev o) (seq (run_change o 0 (tasks_for o s retain inuse) s)).
Proof.
  intros s o retain inuse W K AC R.
  destruct (refresh_runs s o retain inuse W K AC R) as (E & G1 & G2). rewrite E.
  destruct (wf_linked o s W K AC) as (WL & CL & IcL & IrL & _ & _).
  unfold do_configure, minus. destruct (ohookcfg o =? 0); cbn [seq cur]; repeat split; auto; apply In_fl; auto.
Qed.

(* refresh to an already kept revision never leaves more kept revisions than before *)
Theorem refresh_kept_bound : forall s o retain inuse,
  wf s -> okind o = ORefresh -> accepts o s = true -> (2 <= retain)%Z -> In (orev o) (seq s) ->
  (length (seq (run_change o 0 (tasks_for o s retain inuse) s)) <= length (seq s))%nat.
Proof.
  intros s o retain inuse W K AC R I.
  destruct (refresh_kept_after s o retain inuse W K AC R) as (E & _ & _). rewrite E.
  destruct (wf_linked o s W K AC) as (_ & _ & _ & _ & _ & L).
  apply mem_In in I. rewrite I in L. rewrite <- L. apply length_fl_le.
Qed.

(* ------------------------------------------------------------------------------------------------ C12: the count *)

Lemma NoDup_app_disjoint : forall (a b : list N) x, NoDup (a ++ b) -> In x a -> ~ In x b.
Proof.
  induction a as [|y a IH]; intros b x ND I; [destruct I|]. simpl in ND. inversion ND; subst.
  destruct I as [<-|I]; [intros J; apply H1; apply in_or_app; right; exact J|apply IH; auto].
Qed.

Lemma NoDup_app_tail : forall (a b : list N), NoDup (a ++ b) -> NoDup b.
Proof. induction a as [|y a IH]; intros b ND; [exact ND|]. simpl in ND. inversion ND; subst. apply IH. assumption. Qed.

Lemma fl_all_in : forall D (a : list N), incl a D -> fl D a = [].
Proof.
  intros D a I. unfold fl. induction a as [|x a IH]; [reflexivity|]. cbn.
  assert (M : mem x D = true) by (apply mem_In; apply I; left; reflexivity). rewrite M. cbn.
  apply IH. intros y Hy. apply I. right. exact Hy.
Qed.

Lemma fl_none_in : forall D (a : list N), (forall x, In x a -> ~ In x D) -> fl D a = a.
Proof. intros D a H. unfold fl. apply filter_all. intros x Hx. apply negb_true_iff, mem_false. apply H. exact Hx. Qed.

Lemma skipn_skipn_N : forall (a b : nat) (l : list N), skipn a (skipn b l) = skipn (b + a) l.
Proof.
  intros a b. induction b as [|b IH]; intros l; [reflexivity|]. destruct l as [|x l]; [destruct a; reflexivity|]. simpl. apply IH.
Qed.

(* refresh to a not-yet-kept revision, none of the candidates in use: at most retain revisions are kept afterwards *)
Theorem refresh_new_bound : forall s o retain inuse ci,
  wf s -> okind o = ORefresh -> accepts o s = true -> (2 <= retain)%Z -> ~ In (orev o) (seq s) ->
  last_index (cur s) (seq s) = Some ci ->
  (forall r, In r (firstn (Z.to_nat (Z.of_nat ci + 2 - retain)) (seq s)) -> inuse r = false) ->
  (Z.of_nat (length (seq (run_change o 0 (tasks_for o s retain inuse) s))) <= retain)%Z.
Proof.
  intros s o retain inuse ci W K AC R NI LI NU.
  destruct (refresh_kept_after s o retain inuse W K AC R) as (E & _ & _). rewrite E.
  destruct (wf_linked o s W K AC) as (_ & _ & _ & _ & SL & _).
  rewrite (SL (proj2 (mem_false _ _) NI)).
  rewrite (gc_new_revision s (orev o) retain inuse ci NI LI).
  set (n := Z.to_nat (Z.of_nat ci + 2 - retain)) in *.
  rewrite (filter_all (fun r => negb (inuse r)) (firstn n (seq s))) by (intros x Hx; rewrite (NU x Hx); reflexivity).
  destruct W as [W1 _ _ _ _ _ _ _].
  pose proof (last_index_lt _ _ _ LI) as LL.
  assert (Ln : (n <= ci)%nat) by (unfold n; lia).
  set (A := firstn n (seq s)). set (B := skipn (S ci) (seq s)).
  set (M := firstn (S ci - n) (skipn n (seq s))).
  assert (SQ : seq s = A ++ M ++ B).
  { unfold A, M, B. rewrite <- (firstn_skipn n (seq s)) at 1. f_equal.
    rewrite <- (firstn_skipn (S ci - n) (skipn n (seq s))) at 1. f_equal.
    rewrite skipn_skipn_N. f_equal. lia. }
  assert (LM : length M = (S ci - n)%nat).
  { unfold M. rewrite firstn_length, skipn_length. lia. }
  set (D := B ++ A).
  assert (FA : fl D A = []) by (apply fl_all_in; intros x Hx; unfold D; apply in_or_app; right; exact Hx).
  assert (FB : fl D B = []) by (apply fl_all_in; intros x Hx; unfold D; apply in_or_app; left; exact Hx).
  assert (FM : fl D M = M).
  { apply fl_none_in. intros x Hx I. unfold D in I. apply in_app_iff in I. rewrite SQ in W1. destruct I as [I|I].
    - apply NoDup_app_tail in W1. revert I. apply (NoDup_app_disjoint M B x W1 Hx).
    - assert (J : In x (M ++ B)) by (apply in_or_app; left; exact Hx).
      revert J. apply (NoDup_app_disjoint A (M ++ B) x W1 I). }
  assert (FR : fl D [orev o] = [orev o]).
  { apply fl_none_in. intros x [<-|[]] I. apply NI. unfold D in I. apply in_app_iff in I.
    destruct I as [I|I]; [eapply In_skipn; exact I|eapply In_firstn; exact I]. }
  rewrite SQ at 1. rewrite !fl_app. fold D. rewrite FA, FB, FM, FR. cbn [app]. rewrite app_nil_r, app_length, LM.
  cbn [length]. clear -Ln R. subst n. lia.
Qed.
