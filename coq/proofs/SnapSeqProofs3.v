(* Proofs about models/SnapSeq.v — part 3: C10 after garbage collection.  A refresh to a not-yet-kept revision that fails at
   ANY task (also after discard-snap tasks completed) is undone to the state before minus exactly the discarded revisions. *)
From Coq Require Import List NArith ZArith Bool Arith Lia Sorting.Sorted.
Import ListNotations.
Require Import V.models.SnapSeq V.proofs.SnapSeqProofs V.proofs.SnapSeqProofs2.
Open Scope N_scope.

(* l without the revisions in D, order kept *)
Definition fl (D l : list N) : list N := filter (fun y => negb (mem y D)) l.
Definition rcdel (D : list N) (m : list (N * N)) : list (N * N) := filter (fun kv => negb (mem (fst kv) D)) m.

(* the state with the revisions D gone: from the kept list, the RevertStatus keys, the mounted set (and their saved configs) *)
Definition minus (D : list N) (s : st) : st :=
  mkSt (fl D (seq s)) (cur s) (active s) (chan s) (devmode s) (jailmode s) (classic s) (trymode s) (ignoreval s) (cohort s)
       (lastref s) (inhib s) (fl D (nb s)) (cfg s) (rcdel D (revcfg s)) (fl D (mounted s)) (link s).

Lemma fl_nil : forall l, fl [] l = l.
Proof. intros. unfold fl. apply filter_all. intros; reflexivity. Qed.
Lemma rcdel_nil : forall m, rcdel [] m = m.
Proof. unfold rcdel. induction m as [|y r IH]; [reflexivity|]. cbn. f_equal. exact IH. Qed.

Lemma fl_rem : forall d D l, fl D (rem d l) = fl (d :: D) l.
Proof.
  unfold fl, rem. induction l as [|y r IH]; simpl; [reflexivity|].
  destruct (y =? d) eqn:Q; simpl; [exact IH|]. destruct (mem y D); simpl; rewrite IH; reflexivity.
Qed.
Lemma rcdel_del : forall d D m, rcdel D (rc_del d m) = rcdel (d :: D) m.
Proof.
  unfold rcdel, rc_del. induction m as [|[k v] r IH]; simpl; [reflexivity|].
  destruct (k =? d) eqn:Q; simpl; [exact IH|]. destruct (mem k D); simpl; rewrite IH; reflexivity.
Qed.

Lemma In_fl : forall D x l, In x (fl D l) <-> In x l /\ ~ In x D.
Proof. intros. unfold fl. rewrite filter_In, negb_true_iff, mem_false. tauto. Qed.

(* discard-snap tasks in a row, on a state that keeps two distinct revisions p and q (q current) none of which is discarded *)
Lemma discards_run : forall o D X p q,
  p <> q -> In p (seq X) -> In q (seq X) -> cur X = q -> ~ In p D -> ~ In q D ->
  run_ok o (map (fun r => (KDiscard, r)) D) X = minus D X.
Proof.
  induction D as [|d D IH]; intros X p q PQ Ip Iq C Np Nq.
  - unfold run_ok, minus. simpl. rewrite !fl_nil, rcdel_nil. destruct X; reflexivity.
  - unfold run_ok in *. cbn [map fold_left]. unfold do_task at 2. cbn [fst snd].
    assert (dp : d <> p) by (intros ->; apply Np; left; reflexivity).
    assert (dq : d <> q) by (intros ->; apply Nq; left; reflexivity).
    assert (E : do_discard d X = mkSt (rem d (seq X)) (cur X) (active X) (chan X) (devmode X) (jailmode X) (classic X)
                  (trymode X) (ignoreval X) (cohort X) (lastref X) (inhib X) (rem d (nb X)) (cfg X) (rc_del d (revcfg X))
                  (rem d (mounted X)) (link X)).
    { unfold do_discard.
      assert (Ip' : In p (rem d (seq X))) by (apply In_rem; auto).
      destruct (seq X) as [|a [|b l]] eqn:SQ.
      - destruct Ip.
      - exfalso. destruct Ip as [<-|[]]. destruct Iq as [<-|[]]. congruence.
      - rewrite <- SQ in *. destruct (cur X =? d) eqn:Q; [apply N.eqb_eq in Q; congruence|].
        destruct (rem d (seq X)) as [|u v] eqn:R; [destruct Ip'|]. unfold norm. simpl. reflexivity. }
    rewrite E. rewrite (IH _ p q); simpl; auto.
    + unfold minus. simpl. rewrite !fl_rem, rcdel_del. reflexivity.
    + apply In_rem; auto.
    + apply In_rem; auto.
    + intros I; apply Np; right; exact I.
    + intros I; apply Nq; right; exact I.
Qed.

Lemma run_fail_no_undo : forall o c ts X,
  (forall t, In t ts -> fst t = KDiscard \/ fst t = KConfigure) -> run_fail o c ts X = run_ok o ts X.
Proof.
  induction ts as [|[k r] ts IH]; intros X H; [reflexivity|].
  assert (K : k = KDiscard \/ k = KConfigure) by (apply (H (k, r)); left; reflexivity).
  assert (IH' : forall Y, run_fail o c ts Y = run_ok o ts Y) by (intros Y; apply IH; intros t Ht; apply H; right; exact Ht).
  unfold run_ok in *. cbn [run_fail fold_left].
  destruct K as [-> | ->]; unfold do_task, undo_task; cbn [fst snd]; apply IH'.
Qed.

Lemma nb_filter : forall D sq nbs, incl nbs sq -> filter (fun x => mem x (fl D sq)) nbs = fl D nbs.
Proof.
  intros D sq nbs I. unfold fl at 2. apply filter_ext_in. intros x Hx.
  destruct (mem x D) eqn:M; simpl.
  - apply mem_false. intros H. apply In_fl in H. apply mem_In in M. tauto.
  - apply mem_In. apply In_fl. split; [apply I; exact Hx|apply mem_false; exact M].
Qed.

Lemma rc_get_rcdel : forall k D m, ~ In k D -> rc_get k (rcdel D m) = rc_get k m.
Proof.
  intros k D m N. unfold rcdel. induction m as [|[a v] r IH]; [reflexivity|]. cbn.
  destruct (mem a D) eqn:M; cbn.
  - rewrite IH. destruct (a =? k) eqn:Q; [|reflexivity]. apply N.eqb_eq in Q. subst. apply mem_In in M. tauto.
  - rewrite IH. reflexivity.
Qed.

Lemma rem_fl_comm : forall r D l, rem r (fl D l) = fl D (rem r l).
Proof.
  unfold rem, fl. induction l as [|y t IH]; [reflexivity|]. cbn.
  destruct (mem y D) eqn:M; destruct (y =? r) eqn:Q; cbn; rewrite ?M, ?Q; cbn; rewrite IH; reflexivity.
Qed.

Lemma fl_app_last : forall D l r, ~ In r D -> fl D (l ++ [r]) = fl D l ++ [r].
Proof.
  intros D l r N. unfold fl. rewrite filter_app. cbn. apply mem_false in N. rewrite N. reflexivity.
Qed.

(* the essential tasks of a refresh to a new revision, with the discards D completed (and possibly the configure hook),
   done and undone *)
Lemma after_gc_core : forall s o c D (h : bool),
  wf s -> okind o = ORefresh -> accepts o s = true -> ~ In (orev o) (seq s) ->
  ~ In (cur s) D -> ~ In (orev o) D -> cfg_guard o s ->
  forget (run_fail o c (([(KMount, orev o); (KUnlinkCurrent, orev o); (KLink, orev o)] : list task)
                        ++ map (fun r => (KDiscard, r)) D ++ (if h then [(KConfigure, orev o)] else [])) s)
  = forget (minus D s).
Proof.
  intros s o c D h W K AC NI NcD NrD CG.
  assert (NR : is_revert o = false) by (unfold is_revert; rewrite K; reflexivity).
  unfold accepts in AC. rewrite K in AC. bool_hyps.
  destruct W as [W1 W2 W3 W4 W5 W6 W7 W8].
  unfold installed in *. destruct (seq s) as [|x0 l0] eqn:SQ; [discriminate|]. rewrite <- SQ in *.
  assert (NE : seq s <> []) by (rewrite SQ; discriminate).
  specialize (W2 NE).
  match goal with H : active s = true |- _ => rename H into ACT end.
  assert (CR : cur s <> orev o) by (intros E; apply NI; rewrite <- E; exact W2).
  cbn [app run_fail]. unfold do_task at 1. cbn [fst snd]. unfold do_task at 1. cbn [fst snd].
  unfold do_task at 1. cbn [fst snd].
  set (s2 := do_unlink_current (do_mount (orev o) s)).
  destruct (do_link o s2) as [X' d] eqn:DL.
  rewrite run_fail_no_undo.
  2:{ intros t Ht. apply in_app_iff in Ht. destruct Ht as [Ht|Ht].
      - apply in_map_iff in Ht. destruct Ht as (x & <- & _). left; reflexivity.
      - destruct h; [destruct Ht as [<-|[]]; right; reflexivity|destruct Ht]. }
  unfold run_ok. rewrite fold_left_app. fold (run_ok o (map (fun r => (KDiscard, r)) D) X').
  (* the state after link-snap *)
  assert (LI : last_index (orev o) (seq s) = None) by (apply last_index_none; exact NI).
  unfold s2, do_unlink_current in DL. rewrite norm_id in DL by (simpl; exact NE).
  unfold do_link in DL. rewrite NR in DL. simpl in DL. rewrite LI, SQ in DL. rewrite <- SQ in DL.
  injection DL as <- <-.
  match goal with |- context [fold_left ?f (map ?g D) ?X] =>
    assert (DR : fold_left f (map g D) X = minus D X)
      by (apply (discards_run o D X (cur s) (orev o)); simpl; auto;
          try (apply in_or_app; left; exact W2); try (apply in_or_app; right; left; reflexivity))
  end.
  unfold task in *. rewrite DR.
  unfold minus. simpl. rewrite fl_app_last by exact NrD.
  rewrite (rem_notin (orev o) (nb s)) by (intros I; apply NI; apply W4; exact I).
  assert (Ic : In (cur s) (fl D (seq s))) by (apply In_fl; auto).
  (* the configure hook, then undo of link-snap *)
  assert (U : forall cf,
    forget (undo_mount (orev o) (undo_unlink_current (undo_link o
      (mkLD (chan s) (ignoreval s) (trymode s) (devmode s) (jailmode s) (classic s) (cur s) None (inhib s) (lastref s)
            (cohort s) [] (Some (nb s)))
      (mkSt (fl D (seq s) ++ [orev o]) (orev o) true (if ochan o =? 0 then chan s else ochan o) (odev o) (ojail o)
            (oclassic o) (otry o) (oignore o) (ocohort o) (onow o) 0 (fl D (nb s)) cf
            (rcdel D (save_rev_cfg (cur s) (cfg s) (revcfg s))) (fl D (ins (orev o) (mounted s))) (orev o)))))
    = mkSt (fl D (seq s)) (cur s) true (chan s) (devmode s) (jailmode s) (classic s) (trymode s) (ignoreval s) (cohort s)
           (lastref s) (inhib s) (fl D (nb s))
           (restore_rev_cfg (cur s) cf (rcdel D (save_rev_cfg (cur s) (cfg s) (revcfg s)))) [] (fl D (mounted s)) (cur s)).
  { intros cf. unfold undo_link. cbn [cur seq old_cand]. rewrite last_index_app_last.
    cbn [old_cur old_rs revcfg nb cfg].
    replace (remove_at (length (fl D (seq s))) (fl D (seq s) ++ [orev o])) with (fl D (seq s))
      by (rewrite remove_at_app, app_nil_r; reflexivity).
    rewrite (nb_filter D (seq s) (nb s) W4).
    destruct (fl D (seq s)) as [|u v] eqn:F; [destruct Ic|]. rewrite <- F in *.
    unfold norm, undo_unlink_current, set_active_link, undo_mount, forget. cbn. rewrite F. cbn. rewrite <- F.
    f_equal. change (rem (orev o) (fl D (ins (orev o) (mounted s))) = fl D (mounted s)).
    rewrite rem_fl_comm, rem_ins; auto. intros I. apply NI. apply W7. exact I. }
  assert (G : forall cf, (cf = cfg s \/ (ohookcfg o <> 0 /\ cf = ohookcfg o)) ->
              restore_rev_cfg (cur s) cf (rcdel D (save_rev_cfg (cur s) (cfg s) (revcfg s))) = cfg s).
  { intros cf Hcf. unfold restore_rev_cfg. rewrite rc_get_rcdel by exact NcD.
    destruct CG as [C|[C|(C1 & C2 & _)]]; [|congruence|].
    - unfold save_rev_cfg. destruct (cfg s =? 0) eqn:Z; [apply N.eqb_eq in Z; congruence|]. rewrite rc_get_set_same. reflexivity.
    - unfold save_rev_cfg. destruct (cfg s =? 0) eqn:Z.
      + rewrite C2. destruct Hcf as [->|[Hk _]]; [reflexivity|congruence].
      + rewrite rc_get_set_same. reflexivity. }
  assert (FIN : forall cf, (cf = cfg s \/ (ohookcfg o <> 0 /\ cf = ohookcfg o)) ->
     mkSt (fl D (seq s)) (cur s) true (chan s) (devmode s) (jailmode s) (classic s) (trymode s) (ignoreval s) (cohort s)
           (lastref s) (inhib s) (fl D (nb s))
           (restore_rev_cfg (cur s) cf (rcdel D (save_rev_cfg (cur s) (cfg s) (revcfg s)))) [] (fl D (mounted s)) (cur s)
     = forget (mkSt (fl D (seq s)) (cur s) (active s) (chan s) (devmode s) (jailmode s) (classic s) (trymode s) (ignoreval s)
                    (cohort s) (lastref s) (inhib s) (fl D (nb s)) (cfg s) (rcdel D (revcfg s)) (fl D (mounted s)) (link s))).
  { intros cf Hcf. rewrite (G cf Hcf). unfold forget. cbn. rewrite W8, ACT. reflexivity. }
  unfold undo_task. cbn [fst snd].
  destruct h; cbn [fold_left].
  - unfold do_task. cbn [fst snd]. unfold do_configure. cbn [ohookcfg cfg]. destruct (ohookcfg o =? 0) eqn:HK.
    + rewrite U. apply FIN. left; reflexivity.
    + cbn. rewrite U. apply FIN. right. apply N.eqb_neq in HK. auto.
  - rewrite U. apply FIN. left; reflexivity.
Qed.

Lemma filter_discard_ess : forall l : list task, filter is_discard (filter essential l) = filter is_discard l.
Proof.
  induction l as [|[k r] l IH]; [reflexivity|]. cbn [filter].
  destruct (essential (k, r)) eqn:E; cbn [filter].
  - destruct (is_discard (k, r)); rewrite IH; reflexivity.
  - assert (Z : is_discard (k, r) = false) by (destruct k; try discriminate E; reflexivity).
    rewrite Z. exact IH.
Qed.

Lemma discards_of_map : forall D : list N,
  map snd (filter is_discard (map (fun r => (KDiscard, r) : task) D)) = D.
Proof. induction D as [|d D IH]; [reflexivity|]. simpl. f_equal. exact IH. Qed.

Lemma forget_minus_nil : forall s, forget (minus [] s) = forget s.
Proof. intros s. unfold minus, forget. simpl. rewrite !fl_nil. reflexivity. Qed.

(* C10 after garbage collection: a refresh to a not-yet-kept revision failing at ANY position j is undone to the state
   before minus exactly the revisions whose discard-snap completed among the first j tasks: their kept entries, mounts
   and RevertStatus marks are gone, the order of the others, current, active, channel, flags, times, configuration and
   the link are as before *)
Theorem failed_after_gc : forall s o j retain inuse,
  wf s -> okind o = ORefresh -> accepts o s = true -> ~ In (orev o) (seq s) -> (2 <= retain)%Z -> cfg_guard o s ->
  forget (run_change o (S j) (tasks_for o s retain inuse) s)
  = forget (minus (map snd (filter is_discard (firstn j (tasks_for o s retain inuse)))) s).
Proof.
  intros s o j retain inuse W K AC NI R2 CG.
  rewrite run_change_fail, run_fail_strip.
  assert (T : tasks_for o s retain inuse = install_tasks o s retain inuse) by (unfold tasks_for; rewrite K; reflexivity).
  rewrite T. rewrite <- (filter_discard_ess (firstn j (install_tasks o s retain inuse))).
  destruct (filter_firstn essential j (install_tasks o s retain inuse)) as [j1 E1]. rewrite E1.
  rewrite install_tasks_ess.
  assert (NR : is_revert o = false) by (unfold is_revert; rewrite K; reflexivity).
  pose proof AC as AC'. unfold accepts in AC'. rewrite K in AC'. bool_hyps.
  match goal with H : installed s = true |- _ => rename H into INST end.
  assert (M : mem (orev o) (seq s) = false) by (apply mem_false; exact NI).
  unfold ess_pre. rewrite M, INST, NR. cbn [negb andb app].
  set (gc := gc_revs s (orev o) retain inuse).
  set (E := [(KMount, orev o); (KUnlinkCurrent, orev o); (KLink, orev o)] : list task).
  set (c := existsb _ _).
  change ((KMount, orev o) :: (KUnlinkCurrent, orev o) :: (KLink, orev o)
          :: map (fun r : N => (KDiscard, r)) gc ++ [(KConfigure, orev o)])
    with (E ++ map (fun r : N => (KDiscard, r)) gc ++ [(KConfigure, orev o)]).
  destruct (le_lt_dec j1 3) as [L|L].
  - (* the failure comes before any discard *)
    assert (P : firstn j1 (E ++ map (fun r => (KDiscard, r)) gc ++ [(KConfigure, orev o)]) = firstn j1 E).
    { rewrite firstn_app. replace (j1 - length E)%nat with O by (unfold E; simpl; lia). simpl. apply app_nil_r. }
    unfold task in *. rewrite P.
    assert (D0 : map snd (filter is_discard (firstn j1 E)) = []).
    { unfold E. destruct j1 as [|[|[|[|j1]]]]; reflexivity. }
    unfold task in *. rewrite D0, forget_minus_nil.
    assert (P2 : firstn j1 E = firstn j1 (ess_pre o s ++ [(KConfigure, orev o)])).
    { unfold ess_pre. rewrite M, INST. cbn [app]. unfold E. destruct j1 as [|[|[|[|j1]]]]; try reflexivity; lia. }
    unfold task in *. rewrite P2. apply core_restores; auto. right; left; exact K.
  - (* the essential tasks and some discards (and possibly the configure hook) completed *)
    assert (P : firstn j1 (E ++ map (fun r => (KDiscard, r)) gc ++ [(KConfigure, orev o)])
                = E ++ firstn (j1 - 3) (map (fun r => (KDiscard, r)) gc ++ [(KConfigure, orev o)])).
    { rewrite firstn_app. rewrite firstn_all2 by (unfold E; simpl; lia). reflexivity. }
    set (m := (j1 - 3)%nat) in *.
    assert (Q : firstn m (map (fun r => (KDiscard, r) : task) gc ++ [(KConfigure, orev o)])
                = map (fun r => (KDiscard, r) : task) (firstn m gc)
                  ++ (if (length gc <? m)%nat then [(KConfigure, orev o)] else [])).
    { rewrite firstn_app, firstn_map, map_length. destruct (length gc <? m)%nat eqn:LT.
      - apply Nat.ltb_lt in LT. f_equal. destruct (m - length gc)%nat eqn:Z; [lia|cbn; rewrite firstn_nil; reflexivity].
      - apply Nat.ltb_ge in LT. replace (m - length gc)%nat with O by lia. reflexivity. }
    unfold task in *. rewrite P, Q.
    assert (DD : map snd (filter is_discard (E ++ map (fun r : N => (KDiscard, r)) (firstn m gc)
                   ++ (if (length gc <? m)%nat then [(KConfigure, orev o)] else []))) = firstn m gc).
    { rewrite !filter_app, !map_app. unfold E at 1. cbn [filter is_discard fst kind_eqb map app].
      pose proof (discards_of_map (firstn m gc)) as DM. unfold task in *. rewrite DM.
      destruct (length gc <? m)%nat; cbn; rewrite app_nil_r; reflexivity. }
    unfold task in *. rewrite DD.
    destruct W as [W1 W2 W3 W4 W5 W6 W7 W8].
    assert (LI : exists ci, last_index (cur s) (seq s) = Some ci).
    { destruct (last_index (cur s) (seq s)) eqn:E2; eauto. apply last_index_none in E2. exfalso. apply E2. apply W2.
      unfold installed in INST. destruct (seq s); [discriminate|discriminate]. }
    destruct LI as [ci LI].
    destruct (gc_new_keeps_current s (orev o) retain inuse ci W1 NI LI R2) as [G1 G2].
    apply after_gc_core; auto.
    + constructor; auto.
    + intros I. apply G2. eapply In_firstn; exact I.
    + intros I. apply G1. eapply In_firstn; exact I.
Qed.

(* ------------------------------------------------------------------------------------------------ refresh to a KEPT revision *)

Lemma fl_app : forall D a b, fl D (a ++ b) = fl D a ++ fl D b.
Proof. intros. unfold fl. apply filter_app. Qed.

Lemma fl_cons_keep : forall D r b, ~ In r D -> fl D (r :: b) = r :: fl D b.
Proof. intros D r b N. unfold fl. cbn. apply mem_false in N. rewrite N. reflexivity. Qed.

Lemma count_filter_zero : forall x (l : list N), ~ In x l -> length (filter (fun y : N => N.eqb y x) l) = O.
Proof.
  induction l as [|y r IH]; intros H; [reflexivity|]. cbn.
  destruct (y =? x) eqn:Q; [apply N.eqb_eq in Q; subst; exfalso; apply H; left; reflexivity|].
  apply IH. intros I. apply H. right. exact I.
Qed.

Lemma fl_cons : forall D x (a : list N), fl D (x :: a) = if mem x D then fl D a else x :: fl D a.
Proof. intros. unfold fl. cbn. destruct (mem x D); reflexivity. Qed.

(* countMissingRevs after discards: of the revisions a that preceded the candidate, those in D are missing *)
Lemma count_found_fl : forall D a l, NoDup l -> incl a l -> NoDup a ->
  count_found a (fl D l) = length (fl D a).
Proof.
  intros D a l NDl. induction a as [|x a IH]; intros I NDa; [reflexivity|].
  inversion NDa; subst. unfold count_found in *. cbn [fold_right].
  rewrite IH; auto; [|intros y Hy; apply I; right; exact Hy].
  assert (NDf : NoDup (fl D l)) by (unfold fl; apply NoDup_filter; exact NDl).
  rewrite (fl_cons D x a). destruct (mem x D) eqn:M.
  - rewrite count_filter_zero; [reflexivity|]. intros H. apply In_fl in H. apply mem_In in M. tauto.
  - rewrite count_one; auto. apply In_fl. split; [apply I; left; reflexivity|apply mem_false; exact M].
Qed.

Lemma length_fl_le : forall D (a : list N), (length (fl D a) <= length a)%nat.
Proof.
  intros D a. unfold fl. induction a as [|x a IH]; [apply Nat.le_refl|]. cbn.
  destruct (negb (mem x D)); cbn; lia.
Qed.

(* the sequence part of undoLinkSnap after the discards D: the candidate goes back in front of the survivors of b *)
Lemma seq_undo_kept_after_gc : forall D (a b : list N) r, NoDup (a ++ r :: b) -> ~ In r D ->
  let l' := fl D ((a ++ b) ++ [r]) in
  last_index r l' = Some (length (fl D (a ++ b))) /\
  firstn (length a - count_missing a l') l' ++ nth (length (fl D (a ++ b))) l' 0 :: skipn (length a - count_missing a l') (removelast l')
  = fl D (a ++ r :: b).
Proof.
  intros D a b r ND NrD l'.
  assert (E : l' = fl D (a ++ b) ++ [r]) by (unfold l'; apply fl_app_last; exact NrD).
  rewrite E. split; [apply last_index_app_last|].
  assert (NDab : NoDup ((a ++ b) ++ [r])).
  { apply NoDup_app_last; [eapply NoDup_remove_1; eauto|eapply NoDup_remove_2; eauto]. }
  assert (NDa : NoDup a).
  { clear -ND. induction a as [|x a IH]; [constructor|]. inversion ND; subst. constructor; [|apply IH; assumption].
    intros I. apply H1. apply in_or_app. left. exact I. }
  assert (CM : count_missing a (fl D (a ++ b) ++ [r]) = (length a - length (fl D a))%nat).
  { unfold count_missing. rewrite <- E. unfold l'. rewrite count_found_fl; auto.
    intros x Hx. rewrite !in_app_iff. auto. }
  rewrite CM. pose proof (length_fl_le D a) as LE.
  replace (length a - (length a - length (fl D a)))%nat with (length (fl D a)) by lia.
  rewrite removelast_last, nth_app_exact.
  rewrite fl_app, <- app_assoc, firstn_app_exact, skipn_app_exact.
  rewrite fl_app, fl_cons_keep by exact NrD. reflexivity.
Qed.

Lemma after_gc_core_kept : forall s o c D (h : bool),
  wf s -> okind o = ORefresh -> accepts o s = true -> In (orev o) (seq s) ->
  ~ In (cur s) D -> ~ In (orev o) D -> cfg_guard o s ->
  forget (run_fail o c (([(KUnlinkCurrent, orev o); (KLink, orev o)] : list task)
                        ++ map (fun r => (KDiscard, r)) D ++ (if h then [(KConfigure, orev o)] else [])) s)
  = forget (minus D s).
Proof.
  intros s o c D h W K AC IN NcD NrD CG.
  assert (NR : is_revert o = false) by (unfold is_revert; rewrite K; reflexivity).
  unfold accepts in AC. rewrite K in AC. bool_hyps.
  destruct W as [W1 W2 W3 W4 W5 W6 W7 W8].
  unfold installed in *. destruct (seq s) as [|x0 l0] eqn:SQ0; [discriminate|]. rewrite <- SQ0 in *.
  assert (NE : seq s <> []) by (rewrite SQ0; discriminate).
  specialize (W2 NE).
  match goal with H : active s = true |- _ => rename H into ACT end.
  match goal with H : orev o <> cur s |- _ => rename H into RC end.
  destruct (last_index (orev o) (seq s)) as [i|] eqn:LI; [|apply last_index_none in LI; tauto].
  destruct (last_index_split _ _ _ W1 LI) as (a & b & SQ & LA & _ & _).
  assert (ND' : NoDup (a ++ orev o :: b)) by (rewrite <- SQ; exact W1).
  destruct (seq_undo_kept_after_gc D a b (orev o) ND' NrD) as [L1 L2].
  assert (Icab : In (cur s) (a ++ b)).
  { rewrite SQ in W2. apply in_app_iff in W2. apply in_or_app. destruct W2 as [I|[I|I]]; [left; exact I|congruence|right; exact I]. }
  cbn [app run_fail]. unfold do_task at 1. cbn [fst snd]. unfold do_task at 1. cbn [fst snd].
  set (s2 := do_unlink_current s).
  destruct (do_link o s2) as [X' d] eqn:DL.
  rewrite run_fail_no_undo.
  2:{ intros t Ht. apply in_app_iff in Ht. destruct Ht as [Ht|Ht].
      - apply in_map_iff in Ht. destruct Ht as (x & <- & _). left; reflexivity.
      - destruct h; [destruct Ht as [<-|[]]; right; reflexivity|destruct Ht]. }
  unfold run_ok. rewrite fold_left_app.
  unfold s2, do_unlink_current in DL. rewrite norm_id in DL by (simpl; exact NE).
  unfold do_link in DL. rewrite NR in DL. simpl in DL. rewrite LI, SQ0 in DL. rewrite <- SQ0 in DL.
  injection DL as <- <-.
  assert (R1 : remove_at i (seq s) ++ [orev o] = (a ++ b) ++ [orev o]) by (rewrite SQ, <- LA, remove_at_app; reflexivity).
  assert (R2 : firstn i (seq s) = a) by (rewrite SQ, <- LA; apply firstn_app_exact).
  rewrite R1, R2.
  match goal with |- context [fold_left ?f (map ?g D) ?X] =>
    assert (DR : fold_left f (map g D) X = minus D X)
      by (apply (discards_run o D X (cur s) (orev o)); simpl; auto;
          try (apply in_or_app; left; exact Icab); try (apply in_or_app; right; left; reflexivity))
  end.
  unfold task in *. rewrite DR.
  unfold minus. simpl.
  rewrite <- rem_fl_comm.
  assert (Ic : In (cur s) (fl D (seq s))) by (apply In_fl; auto).
  assert (U : forall cf nbx,
    forget (undo_unlink_current (undo_link o
      (mkLD (chan s) (ignoreval s) (trymode s) (devmode s) (jailmode s) (classic s) (cur s) (Some i) (inhib s) (lastref s)
            (cohort s) a (Some (nb s)))
      (mkSt (fl D ((a ++ b) ++ [orev o])) (orev o) true (if ochan o =? 0 then chan s else ochan o) (odev o) (ojail o)
            (oclassic o) (otry o) (oignore o) (ocohort o) (onow o) 0 nbx cf
            (rcdel D (save_rev_cfg (cur s) (cfg s) (revcfg s))) (fl D (mounted s)) (orev o))))
    = mkSt (fl D (seq s)) (cur s) true (chan s) (devmode s) (jailmode s) (classic s) (trymode s) (ignoreval s) (cohort s)
           (lastref s) (inhib s) (fl D (nb s))
           (restore_rev_cfg (cur s) cf (rcdel D (save_rev_cfg (cur s) (cfg s) (revcfg s)))) [] (fl D (mounted s)) (cur s)).
  { intros cf nbx. unfold undo_link. cbn [cur seq old_cand old_before]. rewrite L1. rewrite NR.
    cbn [old_cur old_rs revcfg nb cfg]. rewrite <- LA. rewrite L2. rewrite <- SQ.
    rewrite (nb_filter D (seq s) (nb s) W4).
    destruct (fl D (seq s)) as [|u v] eqn:F; [destruct Ic|]. rewrite <- F in *.
    unfold norm, undo_unlink_current, set_active_link, forget. cbn. rewrite F. cbn. rewrite <- F. reflexivity. }
  assert (G : forall cf, (cf = cfg s \/ (ohookcfg o <> 0 /\ cf = ohookcfg o)) ->
              restore_rev_cfg (cur s) cf (rcdel D (save_rev_cfg (cur s) (cfg s) (revcfg s))) = cfg s).
  { intros cf Hcf. unfold restore_rev_cfg. rewrite rc_get_rcdel by exact NcD.
    destruct CG as [C|[C|(C1 & C2 & _)]]; [|congruence|].
    - unfold save_rev_cfg. destruct (cfg s =? 0) eqn:Z; [apply N.eqb_eq in Z; congruence|]. rewrite rc_get_set_same. reflexivity.
    - unfold save_rev_cfg. destruct (cfg s =? 0) eqn:Z.
      + rewrite C2. destruct Hcf as [->|[Hk _]]; [reflexivity|congruence].
      + rewrite rc_get_set_same. reflexivity. }
  assert (FIN : forall cf, (cf = cfg s \/ (ohookcfg o <> 0 /\ cf = ohookcfg o)) ->
     mkSt (fl D (seq s)) (cur s) true (chan s) (devmode s) (jailmode s) (classic s) (trymode s) (ignoreval s) (cohort s)
           (lastref s) (inhib s) (fl D (nb s))
           (restore_rev_cfg (cur s) cf (rcdel D (save_rev_cfg (cur s) (cfg s) (revcfg s)))) [] (fl D (mounted s)) (cur s)
     = forget (mkSt (fl D (seq s)) (cur s) (active s) (chan s) (devmode s) (jailmode s) (classic s) (trymode s) (ignoreval s)
                    (cohort s) (lastref s) (inhib s) (fl D (nb s)) (cfg s) (rcdel D (revcfg s)) (fl D (mounted s)) (link s))).
  { intros cf Hcf. rewrite (G cf Hcf). unfold forget. cbn. rewrite W8, ACT. reflexivity. }
  unfold undo_task. cbn [fst snd].
  destruct h; cbn [fold_left].
  - unfold do_task. cbn [fst snd]. unfold do_configure. cbn [ohookcfg cfg]. destruct (ohookcfg o =? 0) eqn:HK.
    + rewrite U. apply FIN. left; reflexivity.
    + cbn. rewrite U. apply FIN. right. apply N.eqb_neq in HK. auto.
  - rewrite U. apply FIN. left; reflexivity.
Qed.

(* C10 after garbage collection, refresh to an ALREADY KEPT revision (undoLinkSnap's countMissingRevs with a non-zero count):
   same conclusion, given that the garbage collection picks neither the target nor the current revision *)
Theorem failed_after_gc_kept : forall s o j retain inuse,
  wf s -> okind o = ORefresh -> accepts o s = true -> In (orev o) (seq s) -> cfg_guard o s ->
  ~ In (orev o) (gc_revs s (orev o) retain inuse) -> ~ In (cur s) (gc_revs s (orev o) retain inuse) ->
  forget (run_change o (S j) (tasks_for o s retain inuse) s)
  = forget (minus (map snd (filter is_discard (firstn j (tasks_for o s retain inuse)))) s).
Proof.
  intros s o j retain inuse W K AC IN CG G1 G2.
  rewrite run_change_fail, run_fail_strip.
  assert (T : tasks_for o s retain inuse = install_tasks o s retain inuse) by (unfold tasks_for; rewrite K; reflexivity).
  rewrite T. rewrite <- (filter_discard_ess (firstn j (install_tasks o s retain inuse))).
  destruct (filter_firstn essential j (install_tasks o s retain inuse)) as [j1 E1]. rewrite E1.
  rewrite install_tasks_ess.
  assert (NR : is_revert o = false) by (unfold is_revert; rewrite K; reflexivity).
  pose proof AC as AC'. unfold accepts in AC'. rewrite K in AC'. bool_hyps.
  match goal with H : installed s = true |- _ => rename H into INST end.
  assert (M : mem (orev o) (seq s) = true) by (apply mem_In; exact IN).
  unfold ess_pre. rewrite M, INST, NR. cbn [negb andb app].
  set (gc := gc_revs s (orev o) retain inuse) in *.
  set (E := [(KUnlinkCurrent, orev o); (KLink, orev o)] : list task).
  set (c := existsb _ _).
  change ((KUnlinkCurrent, orev o) :: (KLink, orev o)
          :: map (fun r : N => (KDiscard, r)) gc ++ [(KConfigure, orev o)])
    with (E ++ map (fun r : N => (KDiscard, r)) gc ++ [(KConfigure, orev o)]).
  destruct (le_lt_dec j1 2) as [L|L].
  - assert (P : firstn j1 (E ++ map (fun r => (KDiscard, r)) gc ++ [(KConfigure, orev o)]) = firstn j1 E).
    { rewrite firstn_app. replace (j1 - length E)%nat with O by (unfold E; simpl; lia). simpl. apply app_nil_r. }
    unfold task in *. rewrite P.
    assert (D0 : map snd (filter is_discard (firstn j1 E)) = []).
    { unfold E. destruct j1 as [|[|[|j1]]]; reflexivity. }
    unfold task in *. rewrite D0, forget_minus_nil.
    assert (P2 : firstn j1 E = firstn j1 (ess_pre o s ++ [(KConfigure, orev o)])).
    { unfold ess_pre. rewrite M, INST. cbn [app]. unfold E. destruct j1 as [|[|[|j1]]]; try reflexivity; lia. }
    unfold task in *. rewrite P2. apply core_restores; auto. right; left; exact K.
  - assert (P : firstn j1 (E ++ map (fun r => (KDiscard, r)) gc ++ [(KConfigure, orev o)])
                = E ++ firstn (j1 - 2) (map (fun r => (KDiscard, r)) gc ++ [(KConfigure, orev o)])).
    { rewrite firstn_app. rewrite firstn_all2 by (unfold E; simpl; lia). reflexivity. }
    set (m := (j1 - 2)%nat) in *.
    assert (Q : firstn m (map (fun r => (KDiscard, r) : task) gc ++ [(KConfigure, orev o)])
                = map (fun r => (KDiscard, r) : task) (firstn m gc)
                  ++ (if (length gc <? m)%nat then [(KConfigure, orev o)] else [])).
    { rewrite firstn_app, firstn_map, map_length. destruct (length gc <? m)%nat eqn:LT.
      - apply Nat.ltb_lt in LT. f_equal. destruct (m - length gc)%nat eqn:Z; [lia|cbn; rewrite firstn_nil; reflexivity].
      - apply Nat.ltb_ge in LT. replace (m - length gc)%nat with O by lia. reflexivity. }
    unfold task in *. rewrite P, Q.
    assert (DD : map snd (filter is_discard (E ++ map (fun r : N => (KDiscard, r)) (firstn m gc)
                   ++ (if (length gc <? m)%nat then [(KConfigure, orev o)] else []))) = firstn m gc).
    { rewrite !filter_app, !map_app. unfold E at 1. cbn [filter is_discard fst kind_eqb map app].
      pose proof (discards_of_map (firstn m gc)) as DM. unfold task in *. rewrite DM.
      destruct (length gc <? m)%nat; cbn; rewrite app_nil_r; reflexivity. }
    unfold task in *. rewrite DD.
    apply after_gc_core_kept; auto.
    + intros I. apply G2. eapply In_firstn; exact I.
    + intros I. apply G1. eapply In_firstn; exact I.
Qed.
