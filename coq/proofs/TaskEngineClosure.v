(* Proofs about models/TaskEngine.v, part 12 (C01): an abort touches nothing outside the closure R of the aborted lanes
   under lane membership and halt edges (the upper half of the closure sandwich): tasks in independent lanes that do
   not wait, even transitively, on anything aborted keep their statuses. Stdlib only. *)
From Coq Require Import List NArith ZArith Bool Arith Lia.
Import ListNotations.
Require Import V.models.TaskEngine V.proofs.TaskEngineProofs V.proofs.TaskEngineStatus V.proofs.TaskEngineReady
               V.proofs.TaskEngineDoing V.proofs.TaskEngineFuel V.proofs.TaskEngineLive.

(* R: tasks with a lane in the aborted-lane set LR; halt tasks of members; LR: the killed lanes and every lane of a member *)
Inductive inR (s : state) (L0 : list nat) : nat -> Prop :=
| R_lane : forall t x, t < length (tasks s) -> In x (lanes_of (get s t)) -> laneR s L0 x -> inR s L0 t
| R_halt : forall t h, inR s L0 t -> In h (t_halts (get s t)) -> inR s L0 h
with laneR (s : state) (L0 : list nat) : nat -> Prop :=
| L_kill : forall x, In x L0 -> laneR s L0 x
| L_mem : forall t x, inR s L0 t -> In x (lanes_of (get s t)) -> laneR s L0 x.

Definition same_graph (s s0 : state) : Prop :=
  shapes s0 = shapes s /\ map t_lanes (tasks s0) = map t_lanes (tasks s).

Lemma sg_refl : forall s, same_graph s s.
Proof. split; reflexivity. Qed.

Lemma sg_lanes : forall s s0 t, same_graph s s0 -> lanes_of (get s0 t) = lanes_of (get s t).
Proof.
  intros s s0 t [_ E]. unfold lanes_of, get.
  assert (X : forall l, t_lanes (nth t l dummy) = nth t (map t_lanes l) []).
  { intros l. change (@nil nat) with (t_lanes dummy). rewrite map_nth. reflexivity. }
  rewrite !X, E. reflexivity.
Qed.
Lemma sg_halts : forall s s0 t, same_graph s s0 -> t_halts (get s0 t) = t_halts (get s t).
Proof. intros s s0 t [E _]. change (hts s0 t = hts s t). rewrite !hts_shapes, E. reflexivity. Qed.
Lemma sg_len : forall s s0, same_graph s s0 -> length (tasks s0) = length (tasks s).
Proof. intros s s0 [E _]. rewrite !len_shapes, E. reflexivity. Qed.

Lemma sg_abort_write : forall s s0 t, same_graph s s0 -> same_graph s (abort_write s0 t).
Proof.
  intros s s0 t [A B]. split.
  - rewrite shapes_abort_write. assumption.
  - rewrite lanes_abort_write. assumption.
Qed.

(* what abortLanes selects has a lane in the kill list *)
Lemma scan_tasks_conv : forall kill l i lt hl hd j,
  In j (fst (fst (scan_tasks kill l i lt hl hd))) ->
  In j lt \/ (i <= j /\ j < i + length l /\ existsb (fun x => memn x kill) (lanes_of (nth (j - i) l dummy)) = true).
Proof.
  induction l as [|tk l IH]; intros i lt hl hd j H.
  - simpl in H. left. apply in_rev. assumption.
  - simpl scan_tasks in H.
    pose proof (scan_lanes_hit kill (lanes_of tk) (is_live tk) hl hd) as Hh.
    destruct (scan_lanes kill (lanes_of tk) (is_live tk) hl hd) as [[hit hl'] hd']; cbn [fst snd] in *.
    destruct (IH (S i) (if hit then i :: lt else lt) hl' hd' j H) as [A|(A & B & C)].
    + destruct hit; [destruct A as [<-|A]|]; auto.
      right. split; [lia|]. split; [simpl; lia|]. rewrite Nat.sub_diag. simpl. rewrite <- Hh. reflexivity.
    + right. split; [lia|]. split; [simpl; lia|].
      replace (j - i) with (S (j - S i)) by lia. simpl. exact C.
Qed.

Lemma select_has_lane : forall l kill t,
  In t (select_abort l kill) -> t < length l /\ exists x, In x (lanes_of (nth t l dummy)) /\ In x kill.
Proof.
  intros l kill t H. unfold select_abort in H.
  pose proof (scan_tasks_conv kill l 0 [] [] [] t) as C.
  destruct (scan_tasks kill l 0 [] [] []) as [[LT HL] HD]; cbn [fst snd] in *.
  apply filter_In in H. destruct H as [H _].
  destruct (C H) as [[]|(A & B & E)]. rewrite Nat.sub_0_r in E.
  split; [lia|]. apply existsb_exists in E. destruct E as (x & Hx & Hm). exists x. split; [assumption | apply memn_In; assumption].
Qed.

Lemma extra_lanes_sub : forall tk al x, In x (extra_lanes tk al) -> In x (lanes_of tk).
Proof.
  intros tk al x H. unfold extra_lanes in H. apply in_flat_map in H. destruct H as (y & Hy & Hx).
  destruct (memn y al); [destruct Hx | assumption].
Qed.

Section Closure.
  Variable s : state.
  Variable L0 : list nat.

  Lemma abort_loop_outside : forall f wl al seen s0 lanes,
    same_graph s s0 -> (forall t, In t wl -> inR s L0 t) -> (forall x, In x lanes -> laneR s L0 x) ->
    same_graph s (fst (fst (abort_loop f wl al seen s0 lanes))) /\
    (forall u, ~ inR s L0 u -> st (fst (fst (abort_loop f wl al seen s0 lanes))) u = st s0 u) /\
    (forall x, In x (snd (abort_loop f wl al seen s0 lanes)) -> laneR s L0 x).
  Proof.
    induction f; intros wl al seen s0 lanes G Hw Hl.
    - simpl. destruct wl; simpl; auto.
    - destruct wl as [|t rest]; [simpl; auto|].
      rewrite abort_loop_S. destruct (memn t seen).
      + apply IHf; auto. intros x Hx. apply Hw. right; assumption.
      + assert (Rt : inR s L0 t) by (apply Hw; left; reflexivity).
        destruct (IHf (rest ++ filter (fun h => negb (memn h (t :: seen))) (t_halts (get s0 t))) al (t :: seen)
                      (abort_write s0 t) (lanes ++ extra_lanes (get s0 t) al)) as (A & B & C).
        * apply sg_abort_write; assumption.
        * intros x Hx. apply in_app_or in Hx. destruct Hx as [Hx|Hx]; [apply Hw; right; assumption|].
          apply filter_In in Hx. destruct Hx as [Hx _]. rewrite (sg_halts s s0 t G) in Hx. eapply R_halt; eauto.
        * intros x Hx. apply in_app_or in Hx. destruct Hx as [Hx|Hx]; [auto|].
          apply extra_lanes_sub in Hx. rewrite (sg_lanes s s0 t G) in Hx. eapply L_mem; eauto.
        * split; [assumption|]. split; [|assumption].
          intros u Hu. rewrite (B u Hu).
          destruct (abort_write_lv s0 t) as (_ & A2 & _). apply A2. intros ->. contradiction.
  Qed.

  Lemma abort_lanes_outside : forall d kill al seen s0,
    same_graph s s0 -> (forall x, In x kill -> laneR s L0 x) ->
    forall u, ~ inR s L0 u -> st (abort_lanes d kill al seen s0) u = st s0 u.
  Proof.
    induction d; intros kill al seen s0 G Hk u Hu; [reflexivity|].
    rewrite abort_lanes_S. destruct (select_abort (tasks s0) kill) eqn:Es; [reflexivity|]. rewrite <- Es.
    assert (Hsel : forall t, In t (select_abort (tasks s0) kill) -> inR s L0 t).
    { intros t Ht. destruct (select_has_lane (tasks s0) kill t Ht) as (L & x & Hx & Hin).
      change (nth t (tasks s0) dummy) with (get s0 t) in Hx. rewrite (sg_lanes s s0 t G) in Hx.
      rewrite (sg_len s s0 G) in L. eapply R_lane; eauto. }
    destruct (abort_loop_outside (loop_fuel s0 (select_abort (tasks s0) kill)) (select_abort (tasks s0) kill)
                                 (kill ++ al) seen s0 [] G Hsel (fun x F => match F with end)) as (A & B & C).
    destruct (abort_loop _ _ _ _ _ _) as [[s1 seen1] lanes]; cbn [fst snd abort_cont] in *.
    destruct lanes as [|l0 lanes]; [apply B; assumption|].
    rewrite (IHd (l0 :: lanes) (kill ++ al) seen1 s1 A C u Hu). apply B. assumption.
  Qed.

  (* Change.AbortLanes: nothing outside R changes *)
  Theorem abort_lanes_top_outside : forall u, ~ inR s L0 u -> st (abort_lanes_top s L0) u = st s u.
  Proof.
    intros u Hu. unfold abort_lanes_top. rewrite st_ready_detect.
    apply abort_lanes_outside; auto using sg_refl. intros x Hx. apply L_kill. assumption.
  Qed.
End Closure.

(* the error path of the task runner: tasks outside the closure of the failed task's lanes keep their statuses -
   independent healthy lanes are left alone *)
Theorem finish_err_outside : forall s t u,
  panicked s = false -> memn t (running s) = true -> u <> t ->
  ~ inR (remove_running s t) (lanes_of (get s t)) u -> st (finish s t OErr) u = st s u.
Proof.
  intros s t u Hp Hr Hn Hu. unfold finish. rewrite Hp, Hr. simpl negb. cbv iota.
  match goal with |- st (set_status ?y t Error) u = _ =>
    destruct (st_set_status y t Error u) as [A|[A _]]; [rewrite A | contradiction] end.
  change (get (remove_running s t) t) with (get s t).
  rewrite (abort_lanes_top_outside (remove_running s t) (lanes_of (get s t)) u Hu). reflexivity.
Qed.

(* non-vacuity: two tasks in lanes 1 and 2; aborting lane 1 leaves task 1 (lane 2) outside R *)
Scheme inR_mind := Minimality for inR Sort Prop
  with laneR_mind := Minimality for laneR Sort Prop.

Lemma outside_example :
  let s := init_state [([1], [], true); ([2], [], true)] in
  ~ inR s [1] 1 /\ inR s [1] 0.
Proof.
  cbv zeta. set (s := init_state [([1], [], true); ([2], [], true)]). split.
  - assert (H : forall t, inR s [1] t -> t = 0).
    { apply (inR_mind s [1] (fun t => t = 0) (fun x => x = 1)).
      - intros t x L Hx _ ->. destruct t as [|[|t]]; [reflexivity | | simpl in L; lia].
        simpl in Hx. destruct Hx as [Hx|[]]. discriminate Hx.
      - intros t h _ -> Hh. simpl in Hh. destruct Hh.
      - intros x [<-|[]]. reflexivity.
      - intros t x _ -> Hx. simpl in Hx. destruct Hx as [<-|[]]. reflexivity. }
    intros F. specialize (H 1 F). discriminate H.
  - apply (R_lane s [1] 0 1); [simpl; lia | simpl; left; reflexivity | apply L_kill; left; reflexivity].
Qed.
