(* C16, manager level — proofs about models/AutoRefresh.v *)
From Coq Require Import List ZArith Bool Lia ZifyBool.
Import ListNotations.
Require Import V.lib.Bytes V.gen.RefreshConsts V.models.Timer V.models.TimerText V.models.AutoRefresh V.proofs.TimerProofs.
Open Scope Z_scope.

(* the schedules a remembered timer string stands for *)
Definition sched_of_str (str : bytes) : list schedule :=
  match parse_schedule str with Some l => l | None => default_sched end.

Lemma effective_sched : forall conf sch str, effective conf = Some (sch, str) -> sch = sched_of_str str.
Proof.
  intros conf sch str H. unfold effective in H.
  destruct (beq conf managed_str); [discriminate|].
  assert (D : default_sched = sched_of_str default_str).
  { unfold sched_of_str, default_sched. destruct (parse_schedule default_str); reflexivity. }
  destruct (is_nil_b conf); [inversion H; subst; exact D|].
  destruct (parse_schedule conf) as [l|] eqn:E; inversion H; subst; [|exact D].
  unfold sched_of_str. rewrite E. reflexivity.
Qed.

(* a pending nextRefresh was computed by timeutil.Next under the timer string the manager remembers *)
Definition Inv (st : mstate) : Prop :=
  forall P, m_next st = Some P ->
  exists pl, m_plan st = Some pl /\ p_str pl = m_last_sched st /\
             plan_time (sched_of_str (p_str pl)) (p_last pl) (p_now pl) (p_rand pl) = Some P.

Lemma beq_eq : forall a b : bytes, beq a b = true -> a = b.
Proof.
  induction a as [|x a IH]; destruct b as [|y b]; cbn; try discriminate; auto.
  intros H. apply andb_true_iff in H as [H1 H2]. apply N.eqb_eq in H1. subst. f_equal. auto.
Qed.

(* what one Ensure guarantees *)
Lemma ensure_spec : forall conf now r st st' att,
  Inv st -> ensure conf now r st = Some (st', att) ->
  Inv st' /\
  (forall P, m_next st' = Some P ->
     exists sch str pl, effective conf = Some (sch, str) /\ m_plan st' = Some pl /\ p_str pl = str /\
                        plan_time sch (p_last pl) (p_now pl) (p_rand pl) = Some P) /\
  (att = true ->
     exists sch str l0 now0 r0 P, effective conf = Some (sch, str) /\
                                  plan_time sch l0 now0 r0 = Some P /\ P <= now /\ m_next st' = None /\ m_last st' = Some now).
Proof.
  intros conf now r st st' att I H. unfold ensure in H.
  destruct (effective conf) as [[sch str]|] eqn:E.
  2:{ inversion H; subst. split; [intros P HP; discriminate|]. split; [intros P HP; discriminate | discriminate]. }
  pose proof (effective_sched conf sch str E) as ES.
  set (keep := match m_next st with Some _ => beq (m_last_sched st) str | None => false end) in *.
  (* the (time, plan) pair Ensure works with is planned under str *)
  assert (G : forall p pl', match (if keep then m_next st else None) with
                            | Some p0 => Some (p0, if keep then m_plan st else None)
                            | None => match plan_time sch (m_last st) now r with
                                      | Some p0 => Some (p0, Some (mkPlan str (m_last st) now r))
                                      | None => None end
                            end = Some (p, pl') ->
              exists pl, pl' = Some pl /\ p_str pl = str /\ plan_time sch (p_last pl) (p_now pl) (p_rand pl) = Some p).
  { intros p pl' K. destruct keep eqn:EK.
    - unfold keep in EK. destruct (m_next st) as [p0|] eqn:EN; [|discriminate]. apply beq_eq in EK.
      inversion K; subst p0 pl'. destruct (I p EN) as (pl & A & B & C). exists pl. rewrite B, EK in *. subst sch. auto.
    - destruct (plan_time sch (m_last st) now r) as [p0|] eqn:EP; [|discriminate].
      inversion K; subst. eexists; split; [reflexivity|]. cbn. auto. }
  destruct (match (if keep then m_next st else None) with
            | Some p0 => Some (p0, if keep then m_plan st else None)
            | None => match plan_time sch (m_last st) now r with
                      | Some p0 => Some (p0, Some (mkPlan str (m_last st) now r))
                      | None => None end
            end) as [[p pl']|] eqn:K; [|discriminate].
  destruct (G p pl' eq_refl) as (pl & -> & HS & HP).
  assert (KeepCase : forall a, Inv (mkM (m_last st) (Some p) str a (Some pl)) /\
            (forall P, m_next (mkM (m_last st) (Some p) str a (Some pl)) = Some P ->
               exists sch0 str0 pl0, Some (sch, str) = Some (sch0, str0) /\ m_plan (mkM (m_last st) (Some p) str a (Some pl)) = Some pl0 /\
                                     p_str pl0 = str0 /\ plan_time sch0 (p_last pl0) (p_now pl0) (p_rand pl0) = Some P)).
  { intros a. split.
    - intros P HPn; cbn in HPn; inversion HPn; subst P. exists pl. cbn. rewrite HS. subst sch. auto.
    - intros P HPn; cbn in HPn; inversion HPn; subst P. exists sch, str, pl. cbn. auto. }
  destruct (p <=? now) eqn:Due.
  - destruct (match m_attempt st with Some a => now <? a + refresh_retry_delay_s | None => false end).
    + inversion H; subst st' att. destruct (KeepCase (m_attempt st)) as [A B]. split; [exact A|]. split; [exact B | discriminate].
    + inversion H; subst st' att. split; [intros P HPn; discriminate|]. split; [intros P HPn; discriminate|].
      intros _. exists sch, str, (p_last pl), (p_now pl), (p_rand pl), p. repeat split; auto. lia.
  - inversion H; subst st' att. destruct (KeepCase (m_attempt st)) as [A B]. split; [exact A|]. split; [exact B | discriminate].
Qed.

Lemma hstep_inv : forall h e h', Inv (fst h) -> hstep h e = Some h' -> Inv (fst h').
Proof.
  intros [st conf] e h' I H. destruct e as [c | l | now r]; cbn in H.
  - inversion H; subst; exact I.
  - inversion H; subst. intros P HP. exact (I P HP).
  - destruct (ensure conf now r st) as [[st' a]|] eqn:E; [|discriminate]. inversion H; subst.
    apply (ensure_spec conf now r st st' a I E).
Qed.

Lemma hrun_inv : forall evs h h', Inv (fst h) -> hrun h evs = Some h' -> Inv (fst h').
Proof.
  induction evs as [|e evs IH]; intros h h' I H; cbn in H; [inversion H; subst; exact I|].
  destruct (hstep h e) as [h1|] eqn:E; [|discriminate]. eapply IH; [eapply hstep_inv; eassumption | exact H].
Qed.

Lemma init_inv : Inv init_m.
Proof. intros P H; discriminate. Qed.

(* MAIN: for EVERY history of timer changes, last-refresh changes and Ensure calls (any clock values), at every Ensure:
   a refresh time that stays planned was computed by timeutil.Next under the timer configured NOW (a plan made under
   an earlier timer does not survive), and an attempt is launched only when such a time under the current timer is due. *)
Theorem attempt_in_current_timer_window :
  forall (conf0 : bytes) (evs : list ev) (st : mstate) (conf : bytes) (now r : Z) (st' : mstate) (att : bool),
  hrun (init_m, conf0) evs = Some (st, conf) ->
  ensure conf now r st = Some (st', att) ->
  (forall P, m_next st' = Some P ->
     exists sch str pl, effective conf = Some (sch, str) /\ m_plan st' = Some pl /\ p_str pl = str /\
                        plan_time sch (p_last pl) (p_now pl) (p_rand pl) = Some P) /\
  (att = true ->
     exists sch str l0 now0 r0 P, effective conf = Some (sch, str) /\
                                  plan_time sch l0 now0 r0 = Some P /\ P <= now /\ m_next st' = None /\ m_last st' = Some now).
Proof.
  intros conf0 evs st conf now r st' att HR HE.
  pose proof (hrun_inv evs (init_m, conf0) (st, conf) init_inv HR) as I. cbn [fst] in I.
  destruct (ensure_spec conf now r st st' att I HE) as (_ & A & B). split; assumption.
Qed.

(* what a planned time is: with a previous refresh at l, the window w chosen by timeutil.Next among the windows the
   schedules' Next offer and the fallback at l + maxPostponement; w starts no later than that limit; the time is now if w
   has already started, else w's start plus the random spread (only for spread windows) *)
Theorem planned_time_spec : forall (sch : list schedule) (l now r P : Z),
  plan_time sch (Some l) now r = Some P ->
  exists w, top_window sch l now max_postponement_s = Some w /\
    w_start w <= l + max_postponement_s /\
    (w = mkWin (l + max_postponement_s) (l + max_postponement_s + 3600) false \/
     exists s, In s sch /\ sched_next fuel_days s l now = Some w) /\
    (w_start w < now -> P = now) /\
    (now <= w_start w -> P = w_start w + (if w_spread w then r else 0)).
Proof.
  intros sch l now r P H. unfold plan_time in H.
  destruct (top_window sch l now max_postponement_s) as [w|] eqn:T; [|discriminate].
  exists w. split; [reflexivity|]. unfold top_window in T.
  destruct (existsb _ _); [discriminate|]. inversion T as [T'].
  set (nexts := flat_map (fun o : option window => match o with Some w0 => [w0] | None => [] end)
                         (map (fun s => sched_next fuel_days s l now) sch)) in *.
  destruct (limit_any_schedule nexts l max_postponement_s now) as (L1 & _ & L3 & _ & _ & _ & _).
  cbv zeta in L1, L3. rewrite T' in L1, L3. rewrite ?T'. split; [exact L1|]. split.
  - destruct L3 as [L3|L3]; [left; exact L3 | right].
    unfold nexts in L3. apply in_flat_map in L3 as (o & Ho & Hw). apply in_map_iff in Ho as (s & Hs & Hin).
    destruct o as [w0|]; [|contradiction]. destruct Hw as [->|[]]. exists s. split; [exact Hin | exact Hs].
  - inversion H as [HP]. unfold delay_base. split; intros C.
    + assert (E : (w_start w <? now) = true) by lia. rewrite E. lia.
    + assert (E : (w_start w <? now) = false) by lia. rewrite E. destruct (w_spread w); lia.
Qed.

(* the generated constants the model uses, and the shape facts of the source *)
Lemma refresh_consts_facts :
  max_postponement_s = 95 * 86400 /\ next_calls_pass_max_postponement = true /\
  ensure_resets_on_timer_change = true /\ last_schedule_assigned_only_there = true /\
  parse_schedule default_str = Some default_sched /\ default_sched <> [].
Proof. repeat split; try reflexivity. vm_compute. discriminate. Qed.
