(* C15 — proofs about models/Holds.v. All theorems are over arbitrary histories (induction over the list of
   operations) and arbitrary snap sets; nothing here is computed over samples except the explicit witnesses. *)
From Coq Require Import List NArith ZArith Bool Lia ZifyBool ZifyN.
Import ListNotations.
Require Import V.gen.HoldConsts V.models.Holds.
Open Scope Z_scope.

(* ------------------------------------------------------------------ the generated constants are the ones of the property *)
Lemma mp_val : mp = ninety_days.
Proof. reflexivity. Qed.
Lemma other_val : max_other_hold_duration = forty_eight_h.
Proof. reflexivity. Qed.
Lemma max_duration_val : max_duration = max_int64.
Proof. reflexivity. Qed.
Lemma call_sites_default : gating_call_sites_pass_zero_duration = true.
Proof. reflexivity. Qed.

(* ------------------------------------------------------------------ saturating subtraction *)
Lemma clamp_pos : forall z, 0 < clamp64 z -> 0 < z /\ clamp64 z <= z.
Proof. intros z; unfold clamp64, min_int64, max_int64; lia. Qed.
Lemma clamp_nonpos : forall z, clamp64 z <= 0 <-> z <= 0.
Proof. intros z; unfold clamp64, min_int64, max_int64; lia. Qed.
Lemma clamp_nonzero : forall z, z <> 0 -> clamp64 z <> 0.
Proof. intros z; unfold clamp64, min_int64, max_int64; lia. Qed.

Lemma left_pos : forall now lr first maxdur mpv,
  0 < hold_duration_left now lr first maxdur mpv ->
  now + hold_duration_left now lr first maxdur mpv <= first + maxdur /\
  now + hold_duration_left now lr first maxdur mpv <= lr + mpv.
Proof.
  intros now lr first maxdur mpv. unfold hold_duration_left, time_sub.
  destruct (clamp64 (first + maxdur - now) <? clamp64 (lr + mpv - now)) eqn:E; intros H.
  - pose proof (clamp_pos _ H). assert (0 < clamp64 (lr + mpv - now)) by lia.
    pose proof (clamp_pos _ H1). lia.
  - pose proof (clamp_pos _ H). assert (0 < clamp64 (first + maxdur - now)) by lia.
    pose proof (clamp_pos _ H1). lia.
Qed.

Lemma left_nonpos : forall now lr first maxdur mpv,
  first + maxdur <= now \/ lr + mpv <= now -> hold_duration_left now lr first maxdur mpv <= 0.
Proof.
  intros now lr first maxdur mpv H. unfold hold_duration_left, time_sub.
  pose proof (clamp_nonpos (first + maxdur - now)). pose proof (clamp_nonpos (lr + mpv - now)).
  destruct (clamp64 (first + maxdur - now) <? clamp64 (lr + mpv - now)) eqn:E; lia.
Qed.

(* ------------------------------------------------------------------ the loop of HoldRefresh *)
Definition first_of (now : Z) (gt : gating) (s g : N) : Z :=
  match gt s g with Some h => h_first h | None => now end.

Lemma gset_same : forall gt s g o, gset gt s g o s g = o.
Proof. intros. unfold gset. rewrite !N.eqb_refl. reflexivity. Qed.
Lemma gset_other : forall gt s g o s' g', (s' <> s \/ g' <> g) -> gset gt s g o s' g' = gt s' g'.
Proof.
  intros. unfold gset. destruct (s' =? s)%N eqn:E1; destruct (g' =? g)%N eqn:E2; try reflexivity.
  apply N.eqb_eq in E1. apply N.eqb_eq in E2. tauto.
Qed.

Lemma mem_In : forall x l, mem x l = true <-> In x l.
Proof.
  intros x l. unfold mem. rewrite existsb_exists. split.
  - intros [y [Hy E]]. apply N.eqb_eq in E. subst. exact Hy.
  - intros H. exists x. split; [exact H | apply N.eqb_refl].
Qed.

(* one iteration touches at most the key (s, g) *)
Lemma hold_one_other : forall now lr level g a s s' g',
  (s' <> s \/ g' <> g) -> a_gt (hold_one now lr level g a s) s' g' = a_gt a s' g'.
Proof.
  intros. unfold hold_one.
  destruct (g =? system)%N; cbn [a_gt]; [apply gset_other; assumption|].
  destruct (_ <=? 0); cbn [a_gt]; [reflexivity|].
  destruct (negb _ && _); cbn [a_gt]; [reflexivity|].
  apply gset_other; assumption.
Qed.

Lemma hold_loop_other : forall now lr level g snaps a s' g',
  (g' <> g \/ ~ In s' snaps) -> a_gt (hold_loop now lr level g snaps a) s' g' = a_gt a s' g'.
Proof.
  intros now lr level g snaps. unfold hold_loop.
  induction snaps as [|x r IH]; intros a s' g' H; cbn [fold_left]; [reflexivity|].
  rewrite IH.
  - apply hold_one_other. destruct H as [H|H]; [right; exact H | left; intros ->; apply H; left; reflexivity].
  - destruct H as [H|H]; [left; exact H | right; intros Hin; apply H; right; exact Hin].
Qed.

(* an iteration never changes first-held: the first-held of a new entry is the current time *)
Lemma hold_one_first : forall now lr level g a s s' g',
  first_of now (a_gt (hold_one now lr level g a s)) s' g' = first_of now (a_gt a) s' g'.
Proof.
  intros. unfold first_of at 1.
  destruct (N.eq_dec s' s) as [->|Hs]; [destruct (N.eq_dec g' g) as [->|Hg]|].
  - unfold hold_one.
    destruct (g =? system)%N; cbn [a_gt]; [rewrite gset_same; reflexivity|].
    destruct (_ <=? 0); cbn [a_gt]; [reflexivity|].
    destruct (negb _ && _); cbn [a_gt]; [reflexivity|].
    rewrite gset_same. reflexivity.
  - rewrite hold_one_other by (right; exact Hg). reflexivity.
  - rewrite hold_one_other by (left; exact Hs). reflexivity.
Qed.

Lemma hold_loop_first : forall now lr level g snaps a s' g',
  first_of now (a_gt (hold_loop now lr level g snaps a)) s' g' = first_of now (a_gt a) s' g'.
Proof.
  intros now lr level g snaps. unfold hold_loop.
  induction snaps as [|x r IH]; intros; cbn [fold_left]; [reflexivity|].
  rewrite IH. apply hold_one_first.
Qed.

Lemma hold_one_dur : forall now lr level g a s, g <> system -> a_dur (hold_one now lr level g a s) = a_dur a.
Proof.
  intros. unfold hold_one. destruct (g =? system)%N eqn:E; [apply N.eqb_eq in E; contradiction|].
  destruct (_ <=? 0); [reflexivity|]. destruct (negb _ && _); reflexivity.
Qed.

Lemma hold_one_err_sticky : forall now lr level g a s, a_err a = true -> a_err (hold_one now lr level g a s) = true.
Proof.
  intros. unfold hold_one. destruct (g =? system)%N; cbn [a_err]; [assumption|].
  destruct (_ <=? 0); cbn [a_err]; [reflexivity|]. destruct (negb _ && _); cbn [a_err]; [reflexivity|assumption].
Qed.

Lemma hold_loop_err_sticky : forall now lr level g snaps a, a_err a = true -> a_err (hold_loop now lr level g snaps a) = true.
Proof.
  intros now lr level g snaps. unfold hold_loop. induction snaps as [|x r IH]; intros; cbn [fold_left]; [assumption|].
  apply IH. apply hold_one_err_sticky. assumption.
Qed.

(* ------------------------------------------------------------------ the invariant *)
(* dflt = true: the history so far only contains default-duration requests by gating snaps *)
Definition entry_inv (dflt : bool) (lr : N -> Z) (now : Z) (s g : N) (h : hold) : Prop :=
  h_first h <= now /\
  (g <> system -> h_until h <= lr s + ninety_days) /\
  (dflt = true -> g <> system -> g <> s -> h_until h <= h_first h + forty_eight_h).

Definition gating_inv (dflt : bool) (lr : N -> Z) (now : Z) (gt : gating) : Prop :=
  forall s g h, gt s g = Some h -> entry_inv dflt lr now s g h.

Definition inv (dflt : bool) (st : state) : Prop :=
  (forall s, st_lastref st s <= st_now st) /\ gating_inv dflt (st_lastref st) (st_now st) (st_gating st).

Lemma hold_one_inv : forall dflt now lr level g a s,
  gating_inv dflt lr now (a_gt a) ->
  (dflt = true -> g <> system -> a_dur a = 0) ->
  gating_inv dflt lr now (a_gt (hold_one now lr level g a s)).
Proof.
  intros dflt now lr level g a s Hinv Hd s' g' h Hget.
  destruct (N.eq_dec s' s) as [->|Hs]; [destruct (N.eq_dec g' g) as [->|Hg]|].
  2: { rewrite hold_one_other in Hget by (right; exact Hg). apply Hinv; exact Hget. }
  2: { rewrite hold_one_other in Hget by (left; exact Hs). apply Hinv; exact Hget. }
  assert (Hf : first_of now (a_gt a) s g <= now).
  { unfold first_of. destruct (a_gt a s g) as [h0|] eqn:E; [apply (Hinv _ _ _ E) | lia]. }
  unfold hold_one in Hget. fold (first_of now (a_gt a) s g) in Hget.
  destruct (g =? system)%N eqn:Eg.
  - apply N.eqb_eq in Eg. cbn [a_gt] in Hget. rewrite gset_same in Hget. injection Hget as <-.
    unfold entry_inv; cbn [h_first h_until]. repeat split; try assumption; intros; contradiction.
  - apply N.eqb_neq in Eg.
    remember (hold_duration_left now (lr s) (first_of now (a_gt a) s g) (max_allowed g s mp) mp) as left eqn:El.
    destruct (left <=? 0) eqn:E0; cbn [a_gt] in Hget; [apply Hinv; exact Hget|].
    destruct (negb (a_dur a =? 0) && (max_allowed g s mp <? a_dur a)) eqn:E1; cbn [a_gt] in Hget; [apply Hinv; exact Hget|].
    rewrite gset_same in Hget. injection Hget as <-.
    assert (Hl : 0 < left) by lia.
    rewrite El in Hl. apply left_pos in Hl. rewrite <- El in Hl. destruct Hl as [Hl1 Hl2].
    unfold entry_inv; cbn [h_first h_until]. split; [exact Hf|]. split.
    + intros _. rewrite <- mp_val. destruct (a_dur a =? 0) eqn:Ed; destruct (now + _ <? _) eqn:E2; lia.
    + intros Hdf _ Hgs. rewrite (Hd Hdf Eg). cbn [Z.eqb].
      unfold max_allowed in Hl1. destruct (s =? g)%N eqn:Esg; [apply N.eqb_eq in Esg; congruence|].
      rewrite other_val in Hl1. destruct (now + _ <? _) eqn:E2; lia.
Qed.

Lemma hold_loop_inv : forall dflt now lr level g snaps a,
  gating_inv dflt lr now (a_gt a) ->
  (dflt = true -> g <> system -> a_dur a = 0) ->
  gating_inv dflt lr now (a_gt (hold_loop now lr level g snaps a)).
Proof.
  intros dflt now lr level g snaps. unfold hold_loop.
  induction snaps as [|x r IH]; intros a Hinv Hd; cbn [fold_left]; [exact Hinv|].
  apply IH; [apply hold_one_inv; assumption|].
  intros Hdf Hg. rewrite hold_one_dur by exact Hg. apply Hd; assumption.
Qed.

Lemma sub_gating_inv : forall dflt lr now gt gt',
  (forall s g h, gt' s g = Some h -> gt s g = Some h) -> gating_inv dflt lr now gt -> gating_inv dflt lr now gt'.
Proof. intros dflt lr now gt gt' Hsub Hinv s g h H. apply Hinv. apply Hsub. exact H. Qed.

Lemma drop_holder_sub : forall gt g snaps s g' h, drop_holder gt g snaps s g' = Some h -> gt s g' = Some h.
Proof. intros gt g snaps s g' h. unfold drop_holder. destruct (_ && _); [discriminate | auto]. Qed.
Lemma proceed_sub : forall gt g snaps s g' h, proceed gt g snaps s g' = Some h -> gt s g' = Some h.
Proof. intros gt g snaps s g' h. unfold proceed. destruct (_ && _); [discriminate | auto]. Qed.
Lemma reset_sub : forall gt s0 s g' h, reset gt s0 s g' = Some h -> gt s g' = Some h.
Proof. intros gt s0 s g' h. unfold reset. destruct (_ && _); [discriminate | auto]. Qed.

Lemma reset_many_sub : forall snaps gt s g' h, fold_left reset snaps gt s g' = Some h -> gt s g' = Some h.
Proof.
  induction snaps as [|x r IH]; intros gt s g' h H; cbn [fold_left] in H; [exact H|].
  apply IH in H. eapply reset_sub; exact H.
Qed.

Lemma hold_refresh_inv : forall dflt st level g dur snaps,
  inv dflt st -> (dflt = true -> g <> system -> dur = 0) ->
  gating_inv dflt (st_lastref st) (st_now st) (fst (hold_refresh st level g dur snaps)).
Proof.
  intros dflt st level g dur snaps [_ Hinv] Hd. unfold hold_refresh.
  set (a := hold_loop _ _ _ _ _ _).
  assert (Ha : gating_inv dflt (st_lastref st) (st_now st) (a_gt a)) by (apply hold_loop_inv; assumption).
  destruct (a_err a); cbn [fst]; [|exact Ha].
  eapply sub_gating_inv; [apply drop_holder_sub | exact Ha].
Qed.

Lemma step_inv : forall dflt st o, (dflt = true -> default_duration o = true) -> inv dflt st -> inv dflt (step st o).
Proof.
  intros dflt st o Hdd Hinv. pose proof Hinv as [Hlr Hg].
  destruct o as [hg hsn hsc hf | level g dur snaps | level t snaps | g snaps | s | rs | rq rs | au cs rs | cs sl | av | qs qy | gh | s | d]; unfold step.
  - exact Hinv.
  - split; [exact Hlr|]. cbn [st_gating st_lastref st_now]. apply hold_refresh_inv; [exact Hinv|].
    intros Hdf Hgs. specialize (Hdd Hdf). cbn [default_duration] in Hdd.
    destruct (g =? system)%N eqn:E; [apply N.eqb_eq in E; contradiction | cbn [orb] in Hdd; lia].
  - split; [exact Hlr|]. cbn [st_gating st_lastref st_now]. apply hold_refresh_inv; [exact Hinv|].
    intros _ Hgs. contradiction.
  - split; [exact Hlr|]. cbn [st_gating st_lastref st_now]. eapply sub_gating_inv; [apply proceed_sub | exact Hg].
  - split; [exact Hlr|]. cbn [st_gating st_lastref st_now]. eapply sub_gating_inv; [apply reset_sub | exact Hg].
  - split; [exact Hlr|]. cbn [st_gating st_lastref st_now]. eapply sub_gating_inv; [apply reset_many_sub | exact Hg].
  - split; [exact Hlr|]. cbn [st_gating st_lastref st_now]. eapply sub_gating_inv; [apply reset_many_sub | exact Hg].
  - split; [exact Hlr|]. cbn [st_gating st_lastref st_now]. eapply sub_gating_inv; [apply reset_many_sub | exact Hg].
  - exact Hinv.
  - exact Hinv.
  - exact Hinv.
  - exact Hinv.
  - split; cbn [st_gating st_lastref st_now].
    + intros x. destruct (x =? s)%N; [lia | apply Hlr].
    + intros s' g h Hget. destruct (Hg _ _ _ Hget) as [H1 [H2 H3]]. split; [exact H1|]. split; [|exact H3].
      intros Hgs. specialize (H2 Hgs). specialize (Hlr s'). destruct (s' =? s)%N; lia.
  - split; cbn [st_gating st_lastref st_now].
    + intros x. specialize (Hlr x). lia.
    + intros s' g h Hget. destruct (Hg _ _ _ Hget) as [H1 [H2 H3]]. split; [lia|]. split; assumption.
Qed.

Lemma run_inv : forall dflt ops st,
  (dflt = true -> forallb default_duration ops = true) -> inv dflt st -> inv dflt (run st ops).
Proof.
  intros dflt ops. unfold run. induction ops as [|o r IH]; intros st Hdd Hinv; cbn [fold_left]; [exact Hinv|].
  apply IH.
  - intros Hdf. specialize (Hdd Hdf). cbn [forallb] in Hdd. apply andb_prop in Hdd. tauto.
  - apply step_inv; [|exact Hinv]. intros Hdf. specialize (Hdd Hdf). cbn [forallb] in Hdd. apply andb_prop in Hdd. tauto.
Qed.

Lemma init_inv : forall dflt lr0 now0, (forall s, lr0 s <= now0) -> inv dflt (init_state lr0 now0).
Proof. intros. split; [assumption|]. intros s g h H0. discriminate. Qed.

(* ------------------------------------------------------------------ episodes: first-held is the start of the episode *)
Lemma hold_refresh_first : forall st level g dur snaps s g' h,
  fst (hold_refresh st level g dur snaps) s g' = Some h -> h_first h = first_of (st_now st) (st_gating st) s g'.
Proof.
  intros st level g dur snaps s g' h. unfold hold_refresh.
  set (a0 := mkAcc (st_gating st) dur 0 false). set (a := hold_loop _ _ _ _ _ _).
  assert (Hf : first_of (st_now st) (a_gt a) s g' = first_of (st_now st) (st_gating st) s g')
    by (unfold a; rewrite hold_loop_first; reflexivity).
  intros H. assert (Ha : a_gt a s g' = Some h).
  { destruct (a_err a); cbn [fst] in H; [apply drop_holder_sub in H|]; exact H. }
  rewrite <- Hf. unfold first_of. rewrite Ha. reflexivity.
Qed.

Lemma step_first : forall st o s g h,
  st_gating (step st o) s g = Some h -> h_first h = first_of (st_now st) (st_gating st) s g.
Proof.
  intros st o s g h. destruct o as [hg hsn hsc hf | level g0 dur snaps | level t snaps | g0 snaps | s0 | rs | rq rs | au cs rs | cs sl | av | qs qy | gh | s0 | d]; unfold step;
    cbn [st_gating]; intros H.
  - unfold first_of. rewrite H. reflexivity.
  - eapply hold_refresh_first; exact H.
  - eapply hold_refresh_first; exact H.
  - apply proceed_sub in H. unfold first_of. rewrite H. reflexivity.
  - apply reset_sub in H. unfold first_of. rewrite H. reflexivity.
  - apply reset_many_sub in H. unfold first_of. rewrite H. reflexivity.
  - apply reset_many_sub in H. unfold first_of. rewrite H. reflexivity.
  - apply reset_many_sub in H. unfold first_of. rewrite H. reflexivity.
  - unfold first_of. rewrite H. reflexivity.
  - unfold first_of. rewrite H. reflexivity.
  - unfold first_of. rewrite H. reflexivity.
  - unfold first_of. rewrite H. reflexivity.
  - unfold first_of. rewrite H. reflexivity.
  - unfold first_of. rewrite H. reflexivity.
Qed.

Definition ep_ok (st : state) (ep : episodes) : Prop :=
  forall s g, ep s g = option_map h_first (st_gating st s g).

Lemma ep_step_ok : forall st o ep, ep_ok st ep -> ep_ok (step st o) (ep_step st (step st o) ep).
Proof.
  intros st o ep Hok s g. unfold ep_step.
  destruct (st_gating (step st o) s g) as [h|] eqn:E; [|reflexivity]. cbn [option_map].
  apply step_first in E. rewrite E. unfold first_of. rewrite (Hok s g).
  destruct (st_gating st s g); reflexivity.
Qed.

Lemma run_ep_spec : forall ops st ep,
  fst (run_ep st ep ops) = run st ops /\ (ep_ok st ep -> ep_ok (fst (run_ep st ep ops)) (snd (run_ep st ep ops))).
Proof.
  induction ops as [|o r IH]; intros st ep; cbn [run_ep run fold_left fst snd]; [tauto|].
  destruct (IH (step st o) (ep_step st (step st o) ep)) as [H1 H2]. split; [exact H1|].
  intros Hok. apply H2. apply ep_step_ok. exact Hok.
Qed.

Definition h_ns : Z := 3600000000000.

(* ------------------------------------------------------------------ the theorems *)

(* 48 hours: in every history of default-duration requests, whenever HeldSnaps reports a hold of s by another snap g, the
   current time is at most 48 h after the start of the current episode of that hold *)
Theorem other_48h : forall lr0 now0 ops st ep,
  (forall s, lr0 s <= now0) -> forallb default_duration ops = true ->
  run_ep (init_state lr0 now0) no_episodes ops = (st, ep) ->
  forall level s g, g <> system -> g <> s -> effective st level s g = true ->
  exists t0, ep s g = Some t0 /\ st_now st <= t0 + forty_eight_h.
Proof.
  intros lr0 now0 ops st ep Hlr Hdd Hrun level s g Hg Hgs Heff.
  destruct (run_ep_spec ops (init_state lr0 now0) no_episodes) as [Hst Hep].
  rewrite Hrun in Hst, Hep. cbn [fst snd] in Hst, Hep.
  assert (Hok : ep_ok st ep) by (apply Hep; intros s' g'; reflexivity).
  assert (Hinv : inv true st) by (rewrite Hst; apply run_inv; [intros _; exact Hdd | apply init_inv; exact Hlr]).
  unfold effective in Heff. destruct (st_gating st s g) as [h|] eqn:E; [|discriminate].
  exists (h_first h). split; [rewrite (Hok s g), E; reflexivity|].
  destruct Hinv as [_ Hgi]. destruct (Hgi _ _ _ E) as [_ [_ H3]]. specialize (H3 eq_refl Hg Hgs).
  apply andb_prop in Heff. destruct Heff as [_ Hu]. lia.
Qed.

(* 90 days: in every history (explicit durations included), no hold by a gating snap is reported later than 90 days
   after the last refresh of the held snap *)
Theorem any_90d : forall lr0 now0 ops,
  (forall s, lr0 s <= now0) ->
  let st := run (init_state lr0 now0) ops in
  forall level s g, g <> system -> effective st level s g = true ->
  st_now st <= st_lastref st s + ninety_days.
Proof.
  intros lr0 now0 ops Hlr st level s g Hg Heff.
  assert (Hinv : inv false st) by (apply run_inv; [discriminate | apply init_inv; exact Hlr]).
  unfold effective in Heff. destruct (st_gating st s g) as [h|] eqn:E; [|discriminate].
  destruct Hinv as [_ Hgi]. destruct (Hgi _ _ _ E) as [_ [H2 _]]. specialize (H2 Hg).
  apply andb_prop in Heff. destruct Heff as [_ Hu]. lia.
Qed.

(* not reported after expiry, and in particular not after either bound *)
Theorem not_reported_after_expiry : forall st level s g h,
  st_gating st s g = Some h -> h_until h < st_now st -> effective st level s g = false.
Proof. intros st level s g h E Hlt. unfold effective. rewrite E. lia. Qed.

Theorem not_reported_after_bound : forall lr0 now0 ops st ep,
  (forall s, lr0 s <= now0) -> forallb default_duration ops = true ->
  run_ep (init_state lr0 now0) no_episodes ops = (st, ep) ->
  forall level s g t0, g <> system -> ep s g = Some t0 ->
  (g <> s /\ t0 + forty_eight_h < st_now st) \/ st_lastref st s + ninety_days < st_now st ->
  effective st level s g = false.
Proof.
  intros lr0 now0 ops st ep Hlr Hdd Hrun level s g t0 Hg Hep Hb.
  destruct (effective st level s g) eqn:Heff; [exfalso | reflexivity].
  destruct Hb as [[Hgs Hb] | Hb].
  - destruct (other_48h _ _ _ _ _ Hlr Hdd Hrun level s g Hg Hgs Heff) as [t1 [H1 H2]]. rewrite Hep in H1. injection H1 as <-. lia.
  - pose proof (run_ep_spec ops (init_state lr0 now0) no_episodes) as [Hst _]. rewrite Hrun in Hst. cbn [fst] in Hst.
    pose proof (any_90d lr0 now0 ops Hlr level s g Hg) as H. cbv zeta in H. rewrite <- Hst in H. specialize (H Heff). lia.
Qed.

(* refused at the bound: the request fails and none of the requested holds of that gating snap remains *)
Lemma hold_loop_err_at_bound : forall now lr level g snaps a s,
  g <> system -> In s snaps ->
  (first_of now (a_gt a) s g + max_allowed g s mp <= now \/ lr s + mp <= now) ->
  a_err (hold_loop now lr level g snaps a) = true.
Proof.
  intros now lr level g snaps. induction snaps as [|x r IH]; intros a s Hg Hin Hb; [contradiction|].
  change (hold_loop now lr level g (x :: r) a) with (hold_loop now lr level g r (hold_one now lr level g a x)).
  destruct (N.eq_dec x s) as [->|Hx].
  - apply hold_loop_err_sticky. unfold hold_one.
    destruct (g =? system)%N eqn:E; [apply N.eqb_eq in E; contradiction|].
    fold (first_of now (a_gt a) s g).
    pose proof (left_nonpos now (lr s) (first_of now (a_gt a) s g) (max_allowed g s mp) mp Hb) as Hl.
    destruct (_ <=? 0) eqn:E0; [reflexivity | lia].
  - destruct Hin as [->|Hin]; [contradiction|].
    apply (IH _ s Hg Hin). rewrite hold_one_first. exact Hb.
Qed.

Theorem refused_at_bound : forall st level g dur snaps s,
  g <> system -> In s snaps -> at_bound st g s ->
  op_result st (Hold level g dur snaps) = None /\
  forall s', In s' snaps -> st_gating (step st (Hold level g dur snaps)) s' g = None.
Proof.
  intros st level g dur snaps s Hg Hin Hb.
  assert (Herr : a_err (hold_loop (st_now st) (st_lastref st) level g snaps (mkAcc (st_gating st) dur 0 false)) = true).
  { apply (hold_loop_err_at_bound _ _ _ _ _ _ s Hg Hin). cbn [a_gt]. rewrite mp_val.
    destruct Hb as [Hb | [h [E Hb]]]; [right; exact Hb|]. left. unfold first_of. rewrite E.
    unfold max_allowed. rewrite other_val. exact Hb. }
  unfold op_result, step, hold_refresh. rewrite Herr. cbn [fst snd st_gating]. split; [reflexivity|].
  intros s' Hin'. unfold drop_holder. rewrite N.eqb_refl. apply mem_In in Hin'. rewrite Hin'. reflexivity.
Qed.

(* system holds *)
Definition norm_dur (d : Z) : Z := if d =? 0 then max_duration else d.
Lemma norm_idem : forall d, norm_dur (norm_dur d) = norm_dur d.
Proof. intros d. unfold norm_dur. destruct (d =? 0) eqn:E; [reflexivity | rewrite E; reflexivity]. Qed.

Lemma sys_hold_one : forall now lr level a s,
  a_dur (hold_one now lr level system a s) = norm_dur (a_dur a) /\
  a_err (hold_one now lr level system a s) = a_err a /\
  exists f, a_gt (hold_one now lr level system a s) s system = Some (mkHold f (now + norm_dur (a_dur a)) level).
Proof.
  intros. unfold hold_one. cbn [N.eqb system a_dur a_err a_gt]. fold (norm_dur (a_dur a)).
  split; [reflexivity|]. split; [reflexivity|]. rewrite gset_same. eexists. reflexivity.
Qed.

Lemma sys_loop_err : forall now lr level snaps a, a_err (hold_loop now lr level system snaps a) = a_err a.
Proof.
  intros now lr level snaps. induction snaps as [|y r IH]; intros b; [reflexivity|].
  change (hold_loop now lr level system (y :: r) b) with (hold_loop now lr level system r (hold_one now lr level system b y)).
  rewrite IH. destruct (sys_hold_one now lr level b y) as [_ [He _]]. exact He.
Qed.

Lemma sys_hold_loop : forall now lr level snaps a s, In s snaps ->
  a_err (hold_loop now lr level system snaps a) = a_err a /\
  exists f, a_gt (hold_loop now lr level system snaps a) s system = Some (mkHold f (now + norm_dur (a_dur a)) level).
Proof.
  intros now lr level snaps a s Hin. split; [apply sys_loop_err|]. revert a s Hin.
  induction snaps as [|x r IH]; intros a s Hin; [contradiction|].
  change (hold_loop now lr level system (x :: r) a) with (hold_loop now lr level system r (hold_one now lr level system a x)).
  destruct (sys_hold_one now lr level a x) as [Hd [He [f Hf]]].
  destruct (in_dec N.eq_dec s r) as [Hr|Hr].
  - destruct (IH (hold_one now lr level system a x) s Hr) as [f' Hf'].
    rewrite Hd, norm_idem in Hf'. exists f'; exact Hf'.
  - destruct Hin as [->|Hin]; [|contradiction].
    exists f. rewrite hold_loop_other by (right; exact Hr). exact Hf.
Qed.

Lemma step_sys_untouched : forall st o s, sys_untouched s o = true ->
  st_gating (step st o) s system = st_gating st s system.
Proof.
  intros st o s H. destruct o as [hg hsn hsc hf | level g dur snaps | level t snaps | g snaps | s0 | rs | rq rs | au cs rs | cs sl | av | qs qy | gh | s0 | d]; unfold step; cbn [st_gating];
    try reflexivity; cbn [sys_untouched] in H.
  - assert (Hc : system <> g \/ ~ In s snaps).
    { apply orb_prop in H. destruct H as [H|H]; [left; intros <-; discriminate | right; rewrite <- mem_In; destruct (mem s snaps); [discriminate | discriminate]]. }
    unfold hold_refresh. set (a := hold_loop _ _ _ _ _ _).
    assert (Ha : a_gt a s system = st_gating st s system) by (unfold a; rewrite hold_loop_other by exact Hc; reflexivity).
    destruct (a_err a); cbn [fst]; [|exact Ha]. unfold drop_holder.
    destruct Hc as [Hc|Hc].
    + destruct (system =? g)%N eqn:E; [apply N.eqb_eq in E; contradiction | exact Ha].
    + rewrite <- mem_In in Hc. destruct (mem s snaps); [contradiction Hc; reflexivity|]. rewrite andb_false_r. exact Ha.
  - assert (Hc : ~ In s snaps) by (rewrite <- mem_In; destruct (mem s snaps); [discriminate | discriminate]).
    unfold hold_refresh. set (a := hold_loop _ _ _ _ _ _).
    assert (Ha : a_gt a s system = st_gating st s system) by (unfold a; rewrite hold_loop_other by (right; exact Hc); reflexivity).
    destruct (a_err a); cbn [fst]; [|exact Ha]. unfold drop_holder.
    rewrite <- mem_In in Hc. destruct (mem s snaps); [contradiction Hc; reflexivity|]. rewrite andb_false_r. exact Ha.
  - unfold proceed. apply orb_prop in H. destruct H as [H|H].
    + destruct (system =? g)%N eqn:E; [apply N.eqb_eq in E; subst g; discriminate | reflexivity].
    + destruct snaps as [|x r]; [discriminate|]. destruct (mem s (x :: r)); [discriminate|]. rewrite andb_false_r. reflexivity.
  - unfold reset. cbn [N.eqb system negb]. rewrite andb_false_r. reflexivity.
  - clear H. generalize (st_gating st). induction rs as [|x r IH]; intros gt; cbn [fold_left]; [reflexivity|].
    rewrite IH. unfold reset. cbn [N.eqb system negb]. rewrite andb_false_r. reflexivity.
  - clear H. generalize (st_gating st). induction rs as [|x r IH]; intros gt; cbn [fold_left]; [reflexivity|].
    rewrite IH. unfold reset. cbn [N.eqb system negb]. rewrite andb_false_r. reflexivity.
  - clear H. generalize (st_gating st). induction rs as [|x r IH]; intros gt; cbn [fold_left]; [reflexivity|].
    rewrite IH. unfold reset. cbn [N.eqb system negb]. rewrite andb_false_r. reflexivity.
Qed.

(* a refused refresh request changes nothing, an accepted one only removes hold records of gating snaps *)
Theorem refused_refresh_changes_nothing : forall st snaps, step st (RefreshRefused snaps []) = st.
Proof. intros [gt lr now] snaps. reflexivity. Qed.

Theorem refused_refresh_only_removes : forall st snaps done s g h,
  st_gating (step st (RefreshRefused snaps done)) s g = Some h -> st_gating st s g = Some h.
Proof. intros st snaps done s g h H. cbn [step st_gating] in H. eapply reset_many_sub; exact H. Qed.

(* the statement `a refused refresh request leaves every hold record alone` is false of the faithful model for requests
   naming several snaps: snap 1 holds snap 2 for the default time; one hour later a request to refresh snaps 1 and 2 is
   refused because snap 1 has running apps, after snap 2 had been prepared; the record of the hold is gone, snap 1 holds
   again, and 48 h after the first hold snap 2 is still reported as held *)
Definition refused_many_witness : list op :=
  [Hold 0 1 0 [2%N]; Tick (Z.to_N h_ns); RefreshRefused [1%N; 2%N] [2%N]; Hold 0 1 0 [2%N]; Tick (Z.to_N (47 * h_ns + 1))].
Lemma refused_many_witness_spec :
  forallb default_duration refused_many_witness = true /\
  st_gating (run (init_state (fun _ => - h_ns) 0) (firstn 3 refused_many_witness)) 2%N 1%N = None /\
  let st := run (init_state (fun _ => - h_ns) 0) refused_many_witness in
  effective st 0 2 1 = true /\ 0 + forty_eight_h < st_now st.
Proof. vm_compute. repeat split; reflexivity. Qed.

Theorem accepted_refresh_only_removes : forall st snaps s g h,
  st_gating (step st (RefreshAccepted snaps)) s g = Some h -> st_gating st s g = Some h.
Proof. intros st snaps s g h H. cbn [step st_gating] in H. eapply reset_many_sub; exact H. Qed.

Lemma run_sys_untouched : forall ops st s, forallb (sys_untouched s) ops = true ->
  st_gating (run st ops) s system = st_gating st s system.
Proof.
  unfold run. induction ops as [|o r IH]; intros st s H; cbn [fold_left]; [reflexivity|].
  cbn [forallb] in H. apply andb_prop in H. destruct H as [H1 H2].
  rewrite IH by exact H2. apply step_sys_untouched. exact H1.
Qed.

(* a hold set by the administrator is reported at the levels it covers exactly until the requested time, whatever
   gating snaps, refreshes and the clock do in between *)
Theorem system_hold : forall st level t snaps s ops,
  In s snaps -> forallb (sys_untouched s) ops = true ->
  let st2 := run (step st (SysHold level t snaps)) ops in
  forall lvl, effective st2 lvl s system = (lvl <=? level)%N && (st_now st2 <=? sys_until (st_now st) t).
Proof.
  intros st level t snaps s ops Hin Hops st2 lvl.
  destruct (sys_hold_loop (st_now st) (st_lastref st) level snaps
              (mkAcc (st_gating st) (sys_duration (st_now st) t) 0 false) s Hin) as [He [f Hf]].
  cbn [a_err a_dur] in He, Hf.
  assert (Hu : st_now st + norm_dur (sys_duration (st_now st) t) = sys_until (st_now st) t).
  { unfold sys_until, sys_duration, norm_dur. destruct t as [u|].
    - unfold time_sub. destruct (clamp64 (u - st_now st) =? 0) eqn:E; [reflexivity|]. rewrite E. reflexivity.
    - cbn [Z.eqb]. rewrite max_duration_val. reflexivity. }
  rewrite Hu in Hf.
  assert (H1 : st_gating (step st (SysHold level t snaps)) s system = Some (mkHold f (sys_until (st_now st) t) level)).
  { unfold step. cbn [st_gating]. unfold hold_refresh. rewrite He. cbn [fst]. exact Hf. }
  unfold effective, st2. rewrite run_sys_untouched by exact Hops. rewrite H1.
  cbn [h_level h_until]. change (system =? system)%N with true. cbn [negb andb].
  generalize (st_now (run (step st (SysHold level t snaps)) ops)). intros now2.
  destruct (level <? lvl)%N eqn:E1; destruct (lvl <=? level)%N eqn:E2; try lia;
    cbn [negb andb]; destruct (_ <? _) eqn:E3; destruct (_ <=? _) eqn:E4; try reflexivity; lia.
Qed.

(* within the range of a Go duration the end is the requested time itself, unless it is the current instant *)
Lemma sys_until_exact : forall now u, min_int64 <= u - now <= max_int64 -> u <> now -> sys_until now (Some u) = u.
Proof.
  intros now u H Hne. unfold sys_until, clamp64 in *.
  destruct (Z.max min_int64 (Z.min max_int64 (u - now)) =? 0) eqn:E; lia.
Qed.
Lemma sys_until_now : forall now, sys_until now (Some now) = now - 1.
Proof. intros now. unfold sys_until. replace (now - now) with 0 by lia. reflexivity. Qed.

(* the statement of the property: at every instant after the request, the hold is reported iff the requested time has
   not passed; also at the instant of the request itself unless the requested time is that very instant *)
Theorem system_hold_until_requested_time : forall st level u snaps s ops,
  In s snaps -> min_int64 <= u - st_now st <= max_int64 -> forallb (sys_untouched s) ops = true ->
  let st2 := run (step st (SysHold level (Some u) snaps)) ops in
  u <> st_now st \/ st_now st < st_now st2 ->
  forall lvl, effective st2 lvl s system = (lvl <=? level)%N && (st_now st2 <=? u).
Proof.
  intros st level u snaps s ops Hin Hr Hops st2 Hc lvl.
  pose proof (system_hold st level (Some u) snaps s ops Hin Hops lvl) as H. cbv zeta in H. fold st2 in H. rewrite H.
  destruct (Z.eq_dec u (st_now st)) as [->|Hne].
  - destruct Hc as [Hc|Hc]; [contradiction|]. rewrite sys_until_now. f_equal. lia.
  - rewrite sys_until_exact by assumption. reflexivity.
Qed.

(* ------------------------------------------------------------------ which snaps a refresh of all snaps goes on with *)
Theorem refresh_targets_spec : forall st level holders cands s,
  In s (refresh_targets st level holders cands) <->
  In s cands /\ forall g, In g holders -> effective st level s g = false.
Proof.
  intros st level holders cands s. unfold refresh_targets. rewrite filter_In, negb_true_iff. unfold held_by_any. split.
  - intros [Hc He]. split; [exact Hc|]. intros g Hg. destruct (effective st level s g) eqn:E; [|reflexivity].
    assert (existsb (fun g0 => effective st level s g0) holders = true) by (apply existsb_exists; exists g; split; assumption).
    congruence.
  - intros [Hc Hall]. split; [exact Hc|]. destruct (existsb _ holders) eqn:E; [|reflexivity].
    apply existsb_exists in E. destruct E as [g [Hg He]]. rewrite (Hall g Hg) in He. discriminate.
Qed.

(* a snap with a hold that has not ended is not refreshed by a refresh of all snaps at a level the hold covers *)
Theorem held_not_refreshed : forall st level holders cands s g h,
  st_gating st s g = Some h -> In g holders -> (level <= h_level h)%N -> st_now st <= h_until h ->
  (g = system \/ st_now st <= st_lastref st s + max_postponement) ->
  ~ In s (refresh_targets st level holders cands).
Proof.
  intros st level holders cands s g h Hg Hin Hl Hu Hp Ht. apply refresh_targets_spec in Ht. destruct Ht as [_ Hall].
  specialize (Hall g Hin). unfold effective in Hall. rewrite Hg in Hall.
  destruct Hp as [->|Hp]; [cbn [N.eqb system negb andb] in Hall; lia|].
  destruct (g =? system)%N; cbn [negb andb] in Hall; lia.
Qed.

(* a hold for auto-refreshes only does not keep the snap out of a general refresh of all snaps *)
Theorem auto_level_hold_ignored_by_general_refresh : forall st s g h,
  st_gating st s g = Some h -> h_level h = 0%N -> effective st 1 s g = false.
Proof. intros st s g h Hg Hl. unfold effective. rewrite Hg, Hl. reflexivity. Qed.

(* over every history: a candidate that an auto-refresh leaves out is either held by the administrator or within 90 days
   of its last refresh (and, C15_other_48h, within 48 h of the start of the episode of every other snap holding it) *)
Theorem auto_refresh_excluded_bound : forall lr0 now0 ops holders cands s,
  (forall x, lr0 x <= now0) ->
  let st := run (init_state lr0 now0) ops in
  In s cands -> ~ In s (refresh_targets st 0 holders cands) ->
  effective st 0 s system = true \/ st_now st <= st_lastref st s + ninety_days.
Proof.
  intros lr0 now0 ops holders cands s Hlr st Hc Hn.
  assert (He : exists g, In g holders /\ effective st 0 s g = true).
  { destruct (existsb (fun g => effective st 0 s g) holders) eqn:E.
    - apply existsb_exists in E. exact E.
    - exfalso. apply Hn. apply refresh_targets_spec. split; [exact Hc|]. intros g Hg.
      destruct (effective st 0 s g) eqn:E2; [|reflexivity].
      assert (existsb (fun g0 => effective st 0 s g0) holders = true) by (apply existsb_exists; exists g; split; assumption).
      congruence. }
  destruct He as [g [_ Hg]]. destruct (N.eq_dec g system) as [->|Hne]; [left; exact Hg|].
  right. exact (any_90d lr0 now0 ops Hlr 0%N s g Hne Hg).
Qed.

(* ------------------------------------------------------------------ the system-wide hold (core refresh.hold) *)
Theorem all_held_blocks_auto_refresh : forall v st holders cands,
  all_held v (st_now st) = true -> auto_refresh_targets v st holders cands = [].
Proof. intros v st holders cands H. unfold auto_refresh_targets. rewrite H. reflexivity. Qed.

Theorem all_held_spec : forall now,
  all_held None now = false /\ all_held (Some None) now = true /\ forall t, all_held (Some (Some t)) now = (now <? t).
Proof. intros. repeat split. Qed.

(* nothing but setting the option changes it: after `forever` every later auto-refresh is blocked *)
Lemma allhold_after_untouched : forall ops v,
  (forall o, In o ops -> forall w, o <> SetAllHold w) -> allhold_after v ops = v.
Proof.
  unfold allhold_after. induction ops as [|o r IH]; intros v H; cbn [fold_left]; [reflexivity|].
  rewrite IH; [|intros o' Hin; apply H; right; exact Hin].
  destruct o; cbn [allhold_step]; try reflexivity. exfalso. eapply (H _ (or_introl eq_refl)). reflexivity.
Qed.

Theorem forever_blocks_every_later_auto_refresh : forall ops v st holders cands,
  (forall o, In o ops -> forall w, o <> SetAllHold w) ->
  auto_refresh_targets (allhold_after v (SetAllHold (Some None) :: ops)) (hrun st (SetAllHold (Some None) :: ops)) holders cands = [].
Proof.
  intros ops v st holders cands H. apply all_held_blocks_auto_refresh.
  unfold allhold_after. cbn [fold_left allhold_step]. fold (allhold_after (Some None) ops).
  rewrite (allhold_after_untouched ops (Some None) H). reflexivity.
Qed.

(* a snap is left out of a scheduled auto-refresh when the system-wide hold is in force or one of its holds is
   (C15_held_not_refreshed extended); when neither, it goes on *)
Theorem auto_refresh_targets_spec : forall v st holders cands s,
  In s (auto_refresh_targets v st holders cands) <->
  all_held v (st_now st) = false /\ In s cands /\ forall g, In g holders -> effective st 0 s g = false.
Proof.
  intros v st holders cands s. unfold auto_refresh_targets. destruct (all_held v (st_now st)).
  - split; [intros [] | intros [H _]; discriminate].
  - rewrite refresh_targets_spec. tauto.
Qed.

(* the code as it is: a refresh of all snaps asked by the user, and a refresh of named snaps, do not look at the
   system-wide hold at all (refresh_targets does not mention it); SnapHolds reports system for every snap under it *)
Theorem snap_holds_under_all_hold : forall v st s, all_held v (st_now st) = true -> snap_holds_system v st s = true.
Proof. intros v st s H. unfold snap_holds_system. rewrite H. apply orb_true_r. Qed.

(* ------------------------------------------------------------------ hook runs *)
Lemma run_app : forall l1 l2 st, run st (l1 ++ l2) = run (run st l1) l2.
Proof. intros. unfold run. apply fold_left_app. Qed.

(* a history with hook runs is the primitive history obtained by expanding every hook run *)
Theorem hrun_expand : forall ops st, hrun st ops = run st (expand_all ops).
Proof.
  unfold hrun, expand_all. induction ops as [|o r IH]; intros st; cbn [fold_left flat_map]; [reflexivity|].
  rewrite run_app, IH. reflexivity.
Qed.

(* a hook run only issues default-duration requests of its gating snap *)
Lemma hook_ops_default : forall g snaps script fails, forallb default_duration (hook_ops g snaps script fails) = true.
Proof.
  intros. unfold hook_ops. rewrite forallb_app. apply andb_true_intro. split.
  - induction script as [|c r IH]; [reflexivity|]. cbn [flat_map]. rewrite forallb_app, IH.
    destruct c; cbn; [rewrite orb_true_r|]; reflexivity.
  - destruct (last_action script) as [[|]|]; destruct fails; cbn; try rewrite orb_true_r; reflexivity.
Qed.

Theorem expand_default : forall ops, forallb default_duration ops = true -> forallb default_duration (expand_all ops) = true.
Proof.
  unfold expand_all. induction ops as [|o r IH]; intros H; [reflexivity|].
  cbn [forallb] in H. apply andb_prop in H. destruct H as [H1 H2].
  cbn [flat_map]. rewrite forallb_app, (IH H2), andb_true_r.
  destruct o; try (cbn [expand forallb]; rewrite H1; reflexivity). apply hook_ops_default.
Qed.

(* what a hook run amounts to. A hook that asked for --hold (granted or refused) does nothing more, whether it then
   exits 0 or fails: in particular a refused --hold followed by a failing hook does not hold again. A hook that says
   nothing holds with the defaults when it fails and proceeds when it succeeds. *)
Theorem hook_hold_is_one_hold : forall st g snaps fails,
  hstep st (Hook g snaps [CmdHold] fails) = step st (Hold 0 g 0 snaps).
Proof. reflexivity. Qed.
Theorem hook_silent_failing_holds : forall st g snaps, hstep st (Hook g snaps [] true) = step st (Hold 0 g 0 snaps).
Proof. reflexivity. Qed.
Theorem hook_silent_ok_proceeds : forall st g snaps, hstep st (Hook g snaps [] false) = step st (Proceed g []).
Proof. reflexivity. Qed.

(* a hook run with one --hold never restarts an episode: a record that is there before and after keeps its first-held *)
Theorem hook_hold_keeps_episode : forall st g snaps fails s g' h h',
  st_gating st s g' = Some h -> st_gating (hstep st (Hook g snaps [CmdHold] fails)) s g' = Some h' -> h_first h' = h_first h.
Proof.
  intros st g snaps fails s g' h h' H H'. rewrite hook_hold_is_one_hold in H'.
  apply step_first in H'. rewrite H'. unfold first_of. rewrite H. reflexivity.
Qed.

(* the 48 h theorem over histories with hook runs: episodes are those of the expanded primitive history *)
Theorem other_48h_hooks : forall lr0 now0 ops st ep,
  (forall s, lr0 s <= now0) -> forallb default_duration ops = true ->
  run_ep (init_state lr0 now0) no_episodes (expand_all ops) = (st, ep) ->
  st = hrun (init_state lr0 now0) ops /\
  forall level s g, g <> system -> g <> s -> effective st level s g = true ->
  exists t0, ep s g = Some t0 /\ st_now st <= t0 + forty_eight_h.
Proof.
  intros lr0 now0 ops st ep Hlr Hdd Hrun. split.
  - rewrite hrun_expand. pose proof (run_ep_spec (expand_all ops) (init_state lr0 now0) no_episodes) as [H _].
    rewrite Hrun in H. exact H.
  - eapply other_48h; [exact Hlr | apply expand_default; exact Hdd | exact Hrun].
Qed.

(* the code as it is lets a hook start a new episode by itself: --hold refused at the bound (records deleted), then a
   second --hold in the same run; or --hold refused, --proceed, exit non-zero (the fallback holds). *)
Definition rehold_script_witness : list op :=
  [Hook 1 [2%N] [CmdHold] false; Tick (Z.to_N (48 * h_ns)); Hook 1 [2%N] [CmdHold; CmdHold] false; Tick (Z.to_N h_ns)].
Definition rehold_fallback_witness : list op :=
  [Hook 1 [2%N] [CmdHold] false; Tick (Z.to_N (48 * h_ns)); Hook 1 [2%N] [CmdHold; CmdProceed] true; Tick (Z.to_N h_ns)].
Lemma rehold_witnesses :
  (let st := hrun (init_state (fun _ => - h_ns) 0) rehold_script_witness in
   effective st 0 2 1 = true /\ 0 + forty_eight_h < st_now st) /\
  (let st := hrun (init_state (fun _ => - h_ns) 0) rehold_fallback_witness in
   effective st 0 2 1 = true /\ 0 + forty_eight_h < st_now st).
Proof. vm_compute. repeat split; reflexivity. Qed.

(* ------------------------------------------------------------------ witnesses *)
(* explicit durations are not bounded by 48 h per episode: hold for the default, ask again for 47 h after 47 h *)
Definition explicit_witness : list op :=
  [Hold 0 1 0 [2%N]; Tick (Z.to_N (47 * h_ns)); Hold 0 1 (47 * h_ns) [2%N]; Tick (Z.to_N (2 * h_ns))].

Lemma explicit_duration_witness :
  let '(st, ep) := run_ep (init_state (fun _ => - h_ns) 0) no_episodes explicit_witness in
  effective st 0 2 1 = true /\ ep 2%N 1%N = Some 0 /\ forty_eight_h < st_now st.
Proof. vm_compute. repeat split; reflexivity. Qed.

(* regression witness of a repaired defect: a system hold until exactly the current instant used to last forever; it
   now is expired at once *)
Lemma system_hold_until_now_expires :
  let st0 := init_state (fun _ => - h_ns) 0 in
  effective (run st0 [SysHold 0 (Some (st_now st0)) [1%N]]) 0 1 system = false /\
  effective (run st0 [SysHold 0 (Some (st_now st0)) [1%N]; Tick 1]) 0 1 system = false.
Proof. vm_compute. split; reflexivity. Qed.

(* non-vacuity: a default-duration history in which another snap's hold is reported, then refused at the bound *)
Definition default_witness : list op := [Hold 0 1 0 [1%N; 2%N]; Tick (Z.to_N (47 * h_ns))].
Lemma default_witness_effective :
  forallb default_duration default_witness = true /\
  effective (run (init_state (fun _ => - h_ns) 0) default_witness) 0 2 1 = true.
Proof. vm_compute. split; reflexivity. Qed.
Lemma default_witness_refused :
  op_result (run (init_state (fun _ => - h_ns) 0) (default_witness ++ [Tick (Z.to_N h_ns)])) (Hold 0 1 0 [1%N; 2%N]) = None.
Proof. vm_compute. reflexivity. Qed.
