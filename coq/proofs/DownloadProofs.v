(* C31 -- proofs about models/Download.v (store/store_download.go). All theorems are for EVERY server script,
   retry budget and pre-existing partial file, by induction on the retry budget. *)
From Coq Require Import List NArith Bool Arith Lia ZifyBool ZifyNat ZifyN.
Import ListNotations.
Require Import V.lib.Bytes V.models.Download.
Open Scope N_scope.

(* ---------------------------------------------------------------- lists *)

Lemma beq_true_iff : forall a b : bytes, beq a b = true <-> a = b.
Proof.
  induction a as [|x a IH]; destruct b as [|y b]; cbn [beq]; split; intro H; try reflexivity; try discriminate.
  - apply andb_true_iff in H. destruct H as [H1 H2]. apply N.eqb_eq in H1. apply IH in H2. now subst.
  - inversion H; subst. apply andb_true_iff. split; [apply N.eqb_refl | now apply IH].
Qed.

Lemma beq_refl : forall a, beq a a = true.
Proof. intro a. now apply beq_true_iff. Qed.

Lemma write_at_length : forall f pos data, (pos <= length f)%nat ->
  length (write_at f pos data) = Nat.max (length f) (pos + length data).
Proof.
  intros f pos data H. unfold write_at. rewrite !app_length, firstn_length, skipn_length. lia.
Qed.

Lemma write_at_firstn : forall f pos data, (pos <= length f)%nat ->
  firstn (pos + length data) (write_at f pos data) = firstn pos f ++ data.
Proof.
  intros f pos data H. unfold write_at.
  assert (L : length (firstn pos f) = pos) by (rewrite firstn_length; lia).
  rewrite firstn_app, L.
  replace (pos + length data - pos)%nat with (length data) by lia.
  rewrite firstn_all2 by lia.
  rewrite firstn_app, Nat.sub_diag, firstn_O, app_nil_r.
  now rewrite firstn_all.
Qed.

Lemma write_at_end : forall f data, write_at f (length f) data = f ++ data.
Proof.
  intros f data. unfold write_at. rewrite firstn_all, skipn_all2 by lia. now rewrite app_nil_r.
Qed.

Lemma delivered_length : forall c p, (length (delivered c p) <= length p)%nat.
Proof. intros [|n|n] p; cbn [delivered]; try rewrite firstn_length; lia. Qed.

Lemma next_beh_not_redirect : forall s b rest, next_beh s = (b, rest) -> b <> Redirect.
Proof.
  induction s as [|x s IH]; intros b rest H; cbn [next_beh] in H.
  - inversion H; discriminate.
  - destruct x; try (inversion H; discriminate). now apply IH in H.
Qed.

(* ---------------------------------------------------------------- one attempt, unfolded once *)

(* dl_loop written with the `continue` as an explicit continuation, to do the case analysis once *)
Definition attempt (trunc : bool) (k : option (list beh -> bytes -> nat -> nat -> derr * bytes * nat * list beh))
  (script : list beh) (expected f : bytes) (pos resume : nat) : derr * bytes * nat * list beh :=
  let ranged := (0 <? resume)%nat in
  let h0 := if ranged then f else [] in
  let pos0 := if ranged then length f else pos in
  if ranged && negb (length f =? resume)%nat then (EOther, f, pos0, script) else
  let (b, rest) := next_beh script in
  match b with
  | Redirect => (EOther, f, pos0, rest)
  | Garbage => (EOther, f, pos0, rest)
  | Drop => match k with Some k => k rest f pos0 resume | None => (EOther, f, pos0, rest) end
  | Resp status hr body c =>
      let honoured := ranged && hr in
      let st := if honoured then 206 else status in
      let payload := if honoured then skipn resume body else body in
      let reset := ranged && negb (st =? 206) in
      let f1 := if reset && trunc then [] else f in
      let h1 := if reset then [] else h0 in
      let pos1 := if reset then O else pos0 in
      let resume1 := if reset then O else resume in
      if (500 <=? st) && is_some k then
        match k with Some k => k rest f1 pos1 resume1 | None => (EOther, f1, pos1, rest) end
      else if negb (status_ok st) then (EOther, f1, pos1, rest)
      else
        let data := delivered c payload in
        let f2 := write_at f1 pos1 data in
        let pos2 := (pos1 + length data)%nat in
        let h2 := h1 ++ data in
        match c with
        | Full => if beq h2 expected then (ENone, f2, pos2, rest) else (EHash, f2, pos2, rest)
        | BadChunk _ => (EOther, f2, pos2, rest)
        | EarlyClose _ =>
            match k with Some k => k rest f2 (length f2) (length f2) | None => (EOther, f2, pos2, rest) end
        end
  end.

Lemma dl_loop_unfold : forall trunc r script expected f pos resume,
  dl_loop trunc r script expected f pos resume =
  attempt trunc (match r with
                 | O => None
                 | S r' => Some (fun s f p q => dl_loop trunc r' s expected f p q)
                 end) script expected f pos resume.
Proof.
  intros trunc r script expected f pos resume. destruct r; cbn [dl_loop attempt is_some Nat.eqb negb];
  rewrite ?andb_true_r, ?andb_false_r; reflexivity.
Qed.

(* A generic rule: a predicate on (file, pos, resume) states that every step of an attempt preserves, and a
   postcondition that every exit establishes, hold of the whole loop. *)
Section Invariant.
  Variable trunc : bool.
  Variable expected : bytes.
  Variable Pre : list beh -> bytes -> nat -> nat -> Prop.       (* script f pos resume *)
  Variable Post : derr -> bytes -> nat -> list beh -> Prop.     (* err f' pos' rest *)

  Hypothesis step : forall k script f pos resume,
    Pre script f pos resume ->
    (forall kk, k = Some kk -> forall s f1 p1 r1 e f' p' rest, Pre s f1 p1 r1 -> kk s f1 p1 r1 = (e, f', p', rest) -> Post e f' p' rest) ->
    forall e f' p' rest, attempt trunc k script expected f pos resume = (e, f', p', rest) -> Post e f' p' rest.

  Lemma dl_loop_rule : forall r script f pos resume e f' p' rest,
    Pre script f pos resume ->
    dl_loop trunc r script expected f pos resume = (e, f', p', rest) -> Post e f' p' rest.
  Proof.
    induction r as [|r IH]; intros script f pos resume e f' p' rest HP H; rewrite dl_loop_unfold in H.
    - eapply step; [exact HP | | exact H]. intros kk Hk. discriminate.
    - eapply step; [exact HP | | exact H]. intros kk Hk. inversion Hk; subst kk.
      intros s f1 p1 r1 e0 f0 p0 rest0 HP1 H1. eapply IH; eauto.
  Qed.
End Invariant.

(* the case analysis of one attempt, shared by the three invariants below *)
Ltac attempt_cases H :=
  unfold attempt in H;
  repeat match type of H with
         | context [let (_, _) := next_beh ?s in _] =>
             let b := fresh "b" in let rest := fresh "rest" in let E := fresh "Enb" in
             destruct (next_beh s) as [b rest] eqn:E
         | (if ?c then _ else _) = _ => let E := fresh "Ec" in destruct c eqn:E
         | (match ?x with Drop => _ | _ => _ end) = _ => destruct x
         | (match ?x with Full => _ | _ => _ end) = _ => destruct x
         | (match ?x with Some _ => _ | None => _ end) = _ => destruct x
         end.

Ltac abstract_data H :=
  match type of H with
  | context [delivered ?c ?p] =>
      let Hl := fresh "Hdl" in
      pose proof (delivered_length c p) as Hl;
      remember (delivered c p) as data eqn:Hd; clear Hd
  end.

(* ---------------------------------------------------------------- invariant 1: the running hash is the hash of file[0..pos) *)

Definition pre1 (_ : list beh) (f : bytes) (pos resume : nat) : Prop :=
  (pos <= length f)%nat /\ (resume = 0%nat -> pos = 0%nat).

Definition post1 (expected : bytes) (e : derr) (f' : bytes) (p' : nat) (_ : list beh) : Prop :=
  (p' <= length f')%nat /\ (e = ENone -> firstn p' f' = expected).

Lemma max_le_l : forall a b, (a <= Nat.max a b)%nat. Proof. lia. Qed.

Lemma step1 : forall trunc expected k script f pos resume,
  pre1 script f pos resume ->
  (forall kk, k = Some kk -> forall s f1 p1 r1 e f' p' rest, pre1 s f1 p1 r1 -> kk s f1 p1 r1 = (e, f', p', rest) -> post1 expected e f' p' rest) ->
  forall e f' p' rest, attempt trunc k script expected f pos resume = (e, f', p', rest) -> post1 expected e f' p' rest.
Proof.
  intros trunc expected k script f pos resume [Hle H0] Hk e f' p' rest H.
  unfold post1, pre1 in *. unfold attempt in H. cbv zeta in H.
  destruct ((0 <? resume)%nat) eqn:Erg; cbn [andb] in H.
  - (* a Range request: hash seeded with the whole file, position at its end *)
    destruct (negb (length f =? resume)%nat) eqn:Elen.
    { inversion H; subst. split; [lia | discriminate]. }
    destruct (next_beh script) as [b rest0] eqn:Enb.
    destruct b as [| | |status hr body c].
    + destruct k as [kk|]; [eapply (Hk kk eq_refl); [|exact H]; split; lia | inversion H; subst; split; [lia|discriminate]].
    + inversion H; subst; split; [lia|discriminate].
    + inversion H; subst; split; [lia|discriminate].
    + set (st := if hr then 206 else status) in *.
      destruct (negb (st =? 206)) eqn:Erst; cbn [andb] in H.
      * (* server ignored Range: position and hash reset *)
        set (f1 := if trunc then [] else f) in *.
        destruct ((500 <=? st) && is_some k) eqn:E5.
        { destruct k as [kk|]; [eapply (Hk kk eq_refl); [|exact H]; split; lia | inversion H; subst; split; [lia|discriminate]]. }
        destruct (negb (status_ok st)) eqn:Eok.
        { inversion H; subst; split; [lia|discriminate]. }
        abstract_data H.
        cbn [Nat.add app] in H.
        assert (L : (length data <= length (write_at f1 0 data))%nat)
          by (rewrite write_at_length by lia; lia).
        assert (Fp : firstn (length data) (write_at f1 0 data) = data)
          by (apply (write_at_firstn f1 0 data); lia).
        destruct c as [|n|n].
        -- destruct (beq data expected) eqn:Eh; inversion H; subst; split; try exact L; try discriminate.
           intros _. rewrite Fp. now apply beq_true_iff.
        -- destruct k as [kk|]; [eapply (Hk kk eq_refl); [|exact H]; split; lia | inversion H; subst; split; [exact L|discriminate]].
        -- inversion H; subst; split; [exact L|discriminate].
      * destruct ((500 <=? st) && is_some k) eqn:E5.
        { destruct k as [kk|]; [eapply (Hk kk eq_refl); [|exact H]; split; lia | inversion H; subst; split; [lia|discriminate]]. }
        destruct (negb (status_ok st)) eqn:Eok.
        { inversion H; subst; split; [lia|discriminate]. }
        abstract_data H.
        assert (L : (length f + length data <= length (write_at f (length f) data))%nat)
          by (rewrite write_at_length by lia; lia).
        assert (Fp : firstn (length f + length data) (write_at f (length f) data) = f ++ data)
          by (rewrite write_at_firstn by lia; now rewrite firstn_all).
        destruct c as [|n|n].
        -- destruct (beq (f ++ data) expected) eqn:Eh; inversion H; subst; split; try exact L; try discriminate.
           intros _. rewrite Fp. now apply beq_true_iff.
        -- destruct k as [kk|]; [eapply (Hk kk eq_refl); [|exact H]; split; lia | inversion H; subst; split; [exact L|discriminate]].
        -- inversion H; subst; split; [exact L|discriminate].
  - (* no Range: resume = 0, so pos = 0 and the hash starts empty *)
    assert (resume = 0%nat) by (apply Nat.ltb_ge in Erg; lia). specialize (H0 H1). subst pos.
    destruct (next_beh script) as [b rest0] eqn:Enb.
    destruct b as [| | |status hr body c].
    + destruct k as [kk|]; [eapply (Hk kk eq_refl); [|exact H]; split; lia | inversion H; subst; split; [lia|discriminate]].
    + inversion H; subst; split; [lia|discriminate].
    + inversion H; subst; split; [lia|discriminate].
    + cbn [andb] in H.
      destruct ((500 <=? status) && is_some k) eqn:E5.
      { destruct k as [kk|]; [eapply (Hk kk eq_refl); [|exact H]; split; lia | inversion H; subst; split; [lia|discriminate]]. }
      destruct (negb (status_ok status)) eqn:Eok.
      { inversion H; subst; split; [lia|discriminate]. }
      abstract_data H.
      cbn [Nat.add app] in H.
      assert (L : (length data <= length (write_at f 0 data))%nat)
        by (rewrite write_at_length by lia; lia).
      assert (Fp : firstn (length data) (write_at f 0 data) = data)
        by (apply (write_at_firstn f 0 data); lia).
      destruct c as [|n|n].
      -- destruct (beq data expected) eqn:Eh; inversion H; subst; split; try exact L; try discriminate.
         intros _. rewrite Fp. now apply beq_true_iff.
      -- destruct k as [kk|]; [eapply (Hk kk eq_refl); [|exact H]; split; lia | inversion H; subst; split; [exact L|discriminate]].
      -- inversion H; subst; split; [exact L|discriminate].
Qed.

Theorem hash_tracks_file : forall trunc r script expected f pos resume e f' p' rest,
  (pos <= length f)%nat -> (resume = 0%nat -> pos = 0%nat) ->
  dl_loop trunc r script expected f pos resume = (e, f', p', rest) ->
  (p' <= length f')%nat /\ (e = ENone -> firstn p' f' = expected).
Proof.
  intros trunc r script expected f pos resume e f' p' rest Hle H0 H.
  eapply (dl_loop_rule trunc expected pre1 (post1 expected)); [ | split; eassumption | exact H].
  intros; eapply step1; eauto.
Qed.

(* ---------------------------------------------------------------- invariant 2: under the guard the file never outgrows the declared size *)

Lemma next_beh_within : forall sz s b rest, forallb (beh_within sz) s = true -> next_beh s = (b, rest) ->
  beh_within sz b = true /\ forallb (beh_within sz) rest = true.
Proof.
  induction s as [|x s IH]; intros b rest HF H; cbn [next_beh] in H.
  - inversion H; subst. now split.
  - cbn [forallb] in HF. apply andb_true_iff in HF. destruct HF as [Hx Hs].
    destruct x; try (inversion H; subst; now split). now apply IH.
Qed.

Definition pre2 (sz : nat) (script : list beh) (f : bytes) (pos resume : nat) : Prop :=
  forallb (beh_within sz) script = true /\ (length f <= sz)%nat /\ (pos <= length f)%nat /\ (resume = 0%nat -> pos = 0%nat).

Definition post2 (sz : nat) (_ : derr) (f' : bytes) (_ : nat) (rest : list beh) : Prop :=
  (length f' <= sz)%nat /\ forallb (beh_within sz) rest = true.

Lemma step2 : forall sz expected k script f pos resume,
  pre2 sz script f pos resume ->
  (forall kk, k = Some kk -> forall s f1 p1 r1 e f' p' rest, pre2 sz s f1 p1 r1 -> kk s f1 p1 r1 = (e, f', p', rest) -> post2 sz e f' p' rest) ->
  forall e f' p' rest, attempt false k script expected f pos resume = (e, f', p', rest) -> post2 sz e f' p' rest.
Proof.
  intros sz expected k script f pos resume (HF & Hsz & Hle & H0) Hk e f' p' rest H.
  unfold post2, pre2 in *. unfold attempt in H. cbv zeta in H.
  destruct (next_beh script) as [b rest0] eqn:Enb.
  destruct (next_beh_within _ _ _ _ HF Enb) as [Hb Hrest].
  destruct ((0 <? resume)%nat) eqn:Erg; cbn [andb] in H.
  - destruct (negb (length f =? resume)%nat) eqn:Elen.
    { inversion H; subst; (split; [lia|assumption]). }
    assert (Er : resume = length f) by lia.
    destruct b as [| | |status hr body c].
    + destruct k as [kk|]; [eapply (Hk kk eq_refl); [|exact H]; repeat split; try assumption; lia | inversion H; subst; (split; [lia|assumption])].
    + inversion H; subst; (split; [lia|assumption]).
    + inversion H; subst; (split; [lia|assumption]).
    + cbn [beh_within] in Hb. apply andb_true_iff in Hb. destruct Hb as [Hbody H206].
      assert (Hsk : (length (skipn resume body) <= sz - length f)%nat) by (rewrite skipn_length; lia).
      destruct hr.
      * (* range honoured: 206, appended at the end *)
        cbn [N.eqb Pos.eqb negb andb] in H.
        destruct ((500 <=? 206) && is_some k) eqn:E5; [cbn in E5; discriminate|].
        cbn [status_ok N.eqb Pos.eqb orb negb] in H.
        abstract_data H.
        assert (L : (length (write_at f (length f) data) <= sz)%nat) by (rewrite write_at_length by lia; lia).
        destruct c as [|n|n].
        -- destruct (beq (f ++ data) expected); inversion H; subst; (split; [exact L|assumption]).
        -- destruct k as [kk|]; [eapply (Hk kk eq_refl); [|exact H]; repeat split; try assumption; lia | inversion H; subst; (split; [exact L|assumption])].
        -- inversion H; subst; (split; [exact L|assumption]).
      * cbn [orb] in H206.
        rewrite H206 in H. cbn [andb] in H.
        destruct ((500 <=? status) && is_some k) eqn:E5.
        { destruct k as [kk|]; [eapply (Hk kk eq_refl); [|exact H]; repeat split; try assumption; lia | inversion H; subst; (split; [lia|assumption])]. }
        destruct (negb (status_ok status)) eqn:Eok.
        { inversion H; subst; (split; [lia|assumption]). }
        abstract_data H. cbn [Nat.add app] in H.
        assert (L : (length (write_at f 0 data) <= sz)%nat) by (rewrite write_at_length by lia; lia).
        destruct c as [|n|n].
        -- destruct (beq data expected); inversion H; subst; (split; [exact L|assumption]).
        -- destruct k as [kk|]; [eapply (Hk kk eq_refl); [|exact H]; repeat split; try assumption; lia | inversion H; subst; (split; [exact L|assumption])].
        -- inversion H; subst; (split; [exact L|assumption]).
  - assert (resume = 0%nat) by (apply Nat.ltb_ge in Erg; lia). specialize (H0 H1). subst pos.
    destruct b as [| | |status hr body c].
    + destruct k as [kk|]; [eapply (Hk kk eq_refl); [|exact H]; repeat split; try assumption; lia | inversion H; subst; (split; [lia|assumption])].
    + inversion H; subst; (split; [lia|assumption]).
    + inversion H; subst; (split; [lia|assumption]).
    + cbn [beh_within] in Hb. apply andb_true_iff in Hb. destruct Hb as [Hbody H206].
      destruct ((500 <=? status) && is_some k) eqn:E5.
      { destruct k as [kk|]; [eapply (Hk kk eq_refl); [|exact H]; repeat split; try assumption; lia | inversion H; subst; (split; [lia|assumption])]. }
      destruct (negb (status_ok status)) eqn:Eok.
      { inversion H; subst; (split; [lia|assumption]). }
      abstract_data H. cbn [Nat.add app] in H.
      assert (L : (length (write_at f 0 data) <= sz)%nat) by (rewrite write_at_length by lia; lia).
      destruct c as [|n|n].
      -- destruct (beq data expected); inversion H; subst; (split; [exact L|assumption]).
      -- destruct k as [kk|]; [eapply (Hk kk eq_refl); [|exact H]; repeat split; try assumption; lia | inversion H; subst; (split; [exact L|assumption])].
      -- inversion H; subst; (split; [exact L|assumption]).
Qed.

Lemma file_within_size : forall sz r script expected f pos resume e f' p' rest,
  forallb (beh_within sz) script = true -> (length f <= sz)%nat -> (pos <= length f)%nat ->
  (resume = 0%nat -> pos = 0%nat) ->
  dl_loop false r script expected f pos resume = (e, f', p', rest) ->
  (length f' <= sz)%nat /\ forallb (beh_within sz) rest = true.
Proof.
  intros sz r script expected f pos resume e f' p' rest HF Hsz Hle H0 H.
  change (post2 sz e f' p' rest).
  eapply (dl_loop_rule false expected (pre2 sz) (post2 sz)); [ | | exact H].
  - intros; eapply step2; eauto.
  - unfold pre2; repeat split; assumption.
Qed.

(* ---------------------------------------------------------------- invariant 3: with truncation on reset every write is an append *)

Definition pre3 (_ : list beh) (f : bytes) (pos _ : nat) : Prop := pos = length f.
Definition post3 (_ : derr) (f' : bytes) (p' : nat) (_ : list beh) : Prop := p' = length f'.

Lemma step3 : forall expected k script f pos resume,
  pre3 script f pos resume ->
  (forall kk, k = Some kk -> forall s f1 p1 r1 e f' p' rest, pre3 s f1 p1 r1 -> kk s f1 p1 r1 = (e, f', p', rest) -> post3 e f' p' rest) ->
  forall e f' p' rest, attempt true k script expected f pos resume = (e, f', p', rest) -> post3 e f' p' rest.
Proof.
  intros expected k script f pos resume Hp Hk e f' p' rest H.
  unfold post3, pre3 in *. subst pos. unfold attempt in H. cbv zeta in H.
  assert (P0 : (if (0 <? resume)%nat then length f else length f) = length f) by (destruct (0 <? resume)%nat; reflexivity).
  rewrite !P0 in H. clear P0.
  destruct ((0 <? resume)%nat && negb (length f =? resume)%nat).
  { inversion H; subst; reflexivity. }
  destruct (next_beh script) as [b rest0] eqn:Enb.
  destruct b as [| | |status hr body c].
  - destruct k as [kk|]; [eapply (Hk kk eq_refl); [|exact H]; reflexivity | inversion H; subst; reflexivity].
  - inversion H; subst; reflexivity.
  - inversion H; subst; reflexivity.
  - rewrite andb_true_r in H.
    destruct ((0 <? resume)%nat && negb ((if (0 <? resume)%nat && hr then 206 else status) =? 206)) eqn:Erst.
    + (* reset with truncation: empty file, position 0 *)
      destruct ((500 <=? (if (0 <? resume)%nat && hr then 206 else status)) && is_some k).
      { destruct k as [kk|]; [eapply (Hk kk eq_refl); [|exact H]; reflexivity | inversion H; subst; reflexivity]. }
      destruct (negb (status_ok (if (0 <? resume)%nat && hr then 206 else status))).
      { inversion H; subst; reflexivity. }
      abstract_data H. cbn [Nat.add app] in H.
      assert (L : length data = length (write_at [] 0 data)) by (unfold write_at; cbn [firstn Nat.add app]; rewrite skipn_nil, app_nil_r; reflexivity).
      destruct c as [|n|n].
      * destruct (beq data expected); inversion H; subst; exact L.
      * destruct k as [kk|]; [eapply (Hk kk eq_refl); [|exact H]; reflexivity | inversion H; subst; exact L].
      * inversion H; subst; exact L.
    + destruct ((500 <=? (if (0 <? resume)%nat && hr then 206 else status)) && is_some k).
      { destruct k as [kk|]; [eapply (Hk kk eq_refl); [|exact H]; reflexivity | inversion H; subst; reflexivity]. }
      destruct (negb (status_ok (if (0 <? resume)%nat && hr then 206 else status))).
      { inversion H; subst; reflexivity. }
      abstract_data H.
      assert (L : (length f + length data)%nat = length (write_at f (length f) data))
        by (rewrite write_at_end, app_length; reflexivity).
      destruct c as [|n|n].
      * match type of H with (if ?c then _ else _) = _ => destruct c end; inversion H; subst; exact L.
      * destruct k as [kk|]; [eapply (Hk kk eq_refl); [|exact H]; reflexivity | inversion H; subst; exact L].
      * inversion H; subst; exact L.
Qed.

Lemma fixed_appends_only : forall r script expected f resume e f' p' rest,
  dl_loop true r script expected f (length f) resume = (e, f', p', rest) -> p' = length f'.
Proof.
  intros r script expected f resume e f' p' rest H.
  change (post3 e f' p' rest).
  eapply (dl_loop_rule true expected pre3 post3); [ | | exact H].
  - intros; eapply step3; eauto.
  - reflexivity.
Qed.

(* the unused part of the script is a part of the script *)
Lemma rest_within : forall sz trunc r script expected f pos resume e f' p' rest,
  forallb (beh_within sz) script = true ->
  dl_loop trunc r script expected f pos resume = (e, f', p', rest) -> forallb (beh_within sz) rest = true.
Proof.
  intros sz trunc r script expected f pos resume e f' p' rest HF H.
  eapply (dl_loop_rule trunc expected (fun s _ _ _ => forallb (beh_within sz) s = true)
            (fun _ _ _ rest => forallb (beh_within sz) rest = true)); [ | exact HF | exact H].
  clear. intros k script f pos resume HF Hk e f' p' rest H.
  unfold attempt in H; cbv zeta in H.
  destruct (next_beh script) as [b rest0] eqn:Enb.
  destruct (next_beh_within _ _ _ _ HF Enb) as [_ Hrest].
  repeat match type of H with
         | (if ?c then _ else _) = _ => destruct c
         | (match ?x with Drop => _ | _ => _ end) = _ => destruct x
         | (match ?x with Full => _ | _ => _ end) = _ => destruct x
         | (match ?x with Some _ => _ | None => _ end) = _ => destruct x eqn:?
         end;
  try (inversion H; subst; assumption);
  try (eapply Hk; [reflexivity | exact Hrest | exact H]).
Qed.

(* ---------------------------------------------------------------- Store.Download *)

Lemma firstn_whole : forall (p : nat) (f e : bytes), firstn p f = e -> (length f <= length e)%nat -> f = e.
Proof.
  intros p f e H Hl. assert (L : length (firstn p f) = length e) by now rewrite H.
  rewrite firstn_length in L. rewrite <- H. symmetry. apply firstn_all2. lia.
Qed.

(* where the file that is renamed to the target comes from: one of the three places that can report `no error` *)
Inductive source (trunc : bool) (size : N) (expected partial : bytes) (attempts : nat) (script : list beh) (f : bytes) : Prop :=
| SrcFirst : forall p rest,
    (size =? 0) || (N.of_nat (length partial) <? size) = true ->
    dl_loop trunc (pred attempts) script expected partial (length partial) (length partial) = (ENone, f, p, rest) ->
    source trunc size expected partial attempts script f
| SrcComplete :
    (size =? 0) || (N.of_nat (length partial) <? size) = false -> partial = expected -> f = partial ->
    source trunc size expected partial attempts script f
| SrcRetry : forall s p rest,
    (forall sz, forallb (beh_within sz) script = true -> (0 < size) -> size = N.of_nat sz -> forallb (beh_within sz) s = true) ->
    dl_loop trunc (pred attempts) s expected [] 0 0 = (ENone, f, p, rest) ->
    source trunc size expected partial attempts script f.

Lemma download_gen_spec : forall trunc size expected partial leave attempts script,
  let o := download_gen trunc size expected partial leave attempts script in
  (o_err o = ENone /\ exists f, o_target o = Some f /\ source trunc size expected partial attempts script f) \/
  (o_err o <> ENone /\ o_target o = None).
Proof.
  intros trunc size expected partial leave attempts script. cbv zeta. unfold download_gen.
  destruct ((size =? 0) || (N.of_nat (length partial) <? size)) eqn:Ebr.
  - destruct (dl_loop trunc (pred attempts) script expected partial (length partial) (length partial))
      as [[[e1 f1] p1] rest1] eqn:E1.
    destruct e1.
    + left. cbn. split; [reflexivity|]. exists f1. split; [reflexivity|]. eapply SrcFirst; eauto.
    + destruct (dl_loop trunc (pred attempts) rest1 expected [] 0 0) as [[[e2 f2] p2] rest2] eqn:E2.
      destruct e2.
      * left. cbn. split; [reflexivity|]. exists f2. split; [reflexivity|]. eapply SrcRetry; [|exact E2].
        intros sz HF Hpos Hsz.
        eapply rest_within; [exact HF | exact E1].
      * right. cbn. split; [discriminate|reflexivity].
      * right. cbn. split; [discriminate|reflexivity].
    + right. cbn. split; [discriminate|reflexivity].
  - destruct (beq partial expected) eqn:Eb.
    + left. cbn. split; [reflexivity|]. exists partial. split; [reflexivity|]. apply SrcComplete; auto. now apply beq_true_iff.
    + destruct (dl_loop trunc (pred attempts) script expected [] 0 0) as [[[e2 f2] p2] rest2] eqn:E2.
      destruct e2.
      * left. cbn. split; [reflexivity|]. exists f2. split; [reflexivity|]. eapply SrcRetry; [|exact E2]. auto.
      * right. cbn. split; [discriminate|reflexivity].
      * right. cbn. split; [discriminate|reflexivity].
Qed.

(* on any failure no target exists; a target exists only with a nil error *)
Theorem failure_leaves_no_target : forall trunc size expected partial leave attempts script,
  let o := download_gen trunc size expected partial leave attempts script in
  o_target o = None <-> o_err o <> ENone.
Proof.
  intros trunc size expected partial leave attempts script. cbv zeta.
  destruct (download_gen_spec trunc size expected partial leave attempts script) as [[He (f & Ht & _)] | [He Ht]];
    rewrite ?Ht; split; intro H; congruence.
Qed.

Lemma source_prefix : forall trunc size expected partial attempts script f,
  source trunc size expected partial attempts script f -> exists p, (p <= length f)%nat /\ firstn p f = expected.
Proof.
  intros trunc size expected partial attempts script f [p rest _ H | _ Hp Hf | s p rest _ H].
  - exists p. destruct (hash_tracks_file _ _ _ _ _ _ _ _ _ _ _ (le_n _) (fun e => e) H) as [Hle Hh]. split; auto.
  - exists (length f). subst. split; [lia | apply firstn_all].
  - exists p. destruct (hash_tracks_file _ _ _ _ _ _ _ _ _ _ _ (le_n _) (fun e => e) H) as [Hle Hh]. split; auto.
Qed.

(* HISTORICAL (code before commit adc145b): on success the target starts with the expected content *)
Theorem before_fix_success_has_expected_prefix : forall size expected partial leave attempts script,
  o_err (download_before_fix size expected partial leave attempts script) = ENone ->
  exists tail, o_target (download_before_fix size expected partial leave attempts script) = Some (expected ++ tail).
Proof.
  intros size expected partial leave attempts script He. unfold download_before_fix in *.
  destruct (download_gen_spec false size expected partial leave attempts script) as [[_ (f & Ht & Hs)] | [Hne _]];
    [|contradiction].
  destruct (source_prefix _ _ _ _ _ _ _ Hs) as (p & Hle & Hp).
  exists (skipn p f). rewrite Ht. f_equal. rewrite <- Hp. symmetry. apply firstn_skipn.
Qed.

(* HISTORICAL (code before commit adc145b): the full statement held when the server never sends more than the
   declared size and says 206 only when it honours the range *)
Theorem before_fix_guarded : forall size expected partial leave attempts script,
  0 < size -> N.of_nat (length expected) = size ->
  forallb (beh_within (length expected)) script = true ->
  o_err (download_before_fix size expected partial leave attempts script) = ENone ->
  o_target (download_before_fix size expected partial leave attempts script) = Some expected.
Proof.
  intros size expected partial leave attempts script Hpos Hsz HF He. unfold download_before_fix in *.
  destruct (download_gen_spec false size expected partial leave attempts script) as [[_ (f & Ht & Hs)] | [Hne _]];
    [|contradiction].
  rewrite Ht. f_equal.
  destruct (source_prefix _ _ _ _ _ _ _ Hs) as (p & Hle & Hp).
  destruct Hs as [p1 rest Hbr H | _ Hpe Hf | s p1 rest Hs H].
  - apply (firstn_whole p); [exact Hp|].
    assert (Hl : (length partial <= length expected)%nat) by lia.
    eapply (file_within_size (length expected)); [exact HF | exact Hl | reflexivity | | exact H]. auto.
  - congruence.
  - apply (firstn_whole p); [exact Hp|].
    eapply (file_within_size (length expected)); [apply (Hs _ HF Hpos); lia | | | | exact H]; cbn; auto; lia.
Qed.

(* THE MAIN THEOREM: the full statement, no guard, for the code as it is since commit adc145b (the file is truncated
   when the server ignored Range) *)
Theorem target_only_if_match : forall size expected partial leave attempts script,
  o_err (download size expected partial leave attempts script) = ENone ->
  o_target (download size expected partial leave attempts script) = Some expected.
Proof.
  intros size expected partial leave attempts script He. unfold download in *.
  destruct (download_gen_spec true size expected partial leave attempts script) as [[_ (f & Ht & Hs)] | [Hne _]];
    [|contradiction].
  rewrite Ht. f_equal.
  destruct Hs as [p1 rest Hbr H | _ Hpe Hf | s p1 rest Hs H].
  - destruct (hash_tracks_file _ _ _ _ _ _ _ _ _ _ _ (le_n _) (fun e => e) H) as [_ Hh].
    apply fixed_appends_only in H. subst p1. rewrite firstn_all in Hh. auto.
  - congruence.
  - destruct (hash_tracks_file _ _ _ _ _ _ _ _ _ _ _ (le_n _) (fun e => e) H) as [_ Hh].
    apply (fixed_appends_only _ _ _ []) in H. subst p1. rewrite firstn_all in Hh. auto.
Qed.

(* ---------------------------------------------------------------- HISTORICAL: the full statement was false of the code before adc145b *)

(* size 4 declared and consistent; empty partial; response 1: eight wrong bytes, then the connection is lost;
   response 2: the server ignores Range and sends the right content: success, target = abcdXXXX *)
Definition refute_script : list beh :=
  [Resp 200 true [88;88;88;88;88;88;88;88] (EarlyClose 8); Resp 200 false [97;98;99;100] Full].

Lemma stale_tail_witness :
  o_err (download_before_fix 4 [97;98;99;100] [] false 3 refute_script) = ENone /\
  o_target (download_before_fix 4 [97;98;99;100] [] false 3 refute_script) = Some [97;98;99;100;88;88;88;88].
Proof. vm_compute. split; reflexivity. Qed.

Theorem before_fix_refuted : exists size expected partial leave attempts script,
  0 < size /\ N.of_nat (length expected) = size /\
  o_err (download_before_fix size expected partial leave attempts script) = ENone /\
  o_target (download_before_fix size expected partial leave attempts script) <> Some expected.
Proof.
  exists 4, [97;98;99;100], [], false, 3%nat, refute_script.
  destruct stale_tail_witness as [He Ht]. rewrite Ht.
  repeat split; try reflexivity; try exact He. vm_compute. discriminate.
Qed.

(* why the guarded theorem needs 0 < size: with an undeclared size (0) even a server that stays within the guard
   (honest content, merely ignoring Range) leaves the stale tail of an over-long partial file *)
Theorem before_fix_unknown_size_refuted : exists expected partial leave attempts script,
  forallb (beh_within (length expected)) script = true /\
  o_err (download_before_fix 0 expected partial leave attempts script) = ENone /\
  o_target (download_before_fix 0 expected partial leave attempts script) <> Some expected.
Proof.
  exists [97;98;99;100], [88;88;88;88;88;88;88;88], false, 3%nat, [Resp 200 false [97;98;99;100] Full].
  vm_compute. repeat split; discriminate.
Qed.

(* ---------------------------------------------------------------- consequences of the main theorem *)

(* an accepted file has the size of the content whose digest was declared (= the declared size when that is consistent) *)
Theorem accepted_size_matches : forall size expected partial leave attempts script t,
  o_err (download size expected partial leave attempts script) = ENone ->
  o_target (download size expected partial leave attempts script) = Some t ->
  t = expected /\ length t = length expected /\ (N.of_nat (length expected) = size -> N.of_nat (length t) = size).
Proof.
  intros size expected partial leave attempts script t He Ht.
  rewrite (target_only_if_match _ _ _ _ _ _ He) in Ht. inversion Ht; subst. auto.
Qed.

(* ---------------------------------------------------------------- the download cache *)

Definition cache_ok (expected : bytes) (cache : option bytes) : Prop := cache = None \/ cache = Some expected.

Definition outcome_ok (expected : bytes) (o : outcome) : Prop :=
  (o_err o = ENone -> o_target o = Some expected) /\ (o_err o <> ENone -> o_target o = None).

Lemma download_c_ok : forall cache size expected attempts k,
  cache_ok expected cache -> k_pre k = None ->
  outcome_ok expected (fst (download_c cache size expected attempts k)) /\
  cache_ok expected (snd (download_c cache size expected attempts k)).
Proof.
  intros cache size expected attempts k Hc Hp. unfold download_c. rewrite Hp.
  destruct Hc as [-> | ->].
  - destruct (o_err (download size expected (opt_bytes (k_partial k)) (k_leave k) attempts (k_script k))) eqn:E;
      cbn [fst snd].
    + pose proof (target_only_if_match _ _ _ _ _ _ E) as Ht. rewrite Ht. split; [|right; reflexivity].
      split; [intros _; exact Ht | intro H; rewrite E in H; contradiction].
    + split; [|left; reflexivity]. split; cbn [o_err o_target]; [discriminate | reflexivity].
    + split; [|left; reflexivity]. split; cbn [o_err o_target]; [discriminate | reflexivity].
  - cbn [fst snd]. split; [|right; reflexivity]. split; cbn [o_err o_target]; [reflexivity | intro H; contradiction].
Qed.

(* any number of calls on one Store, cache on, starting from a cache that holds nothing or the right content, target
   paths free: every call that succeeds -- by download or by cache hit -- leaves exactly the expected content at its
   target, every call that fails leaves none; the cache never holds anything else *)
Theorem cache_sequence_only_if_match : forall ks cache size expected attempts,
  cache_ok expected cache -> Forall (fun k => k_pre k = None) ks ->
  Forall (outcome_ok expected) (fst (download_seq cache size expected attempts ks)) /\
  cache_ok expected (snd (download_seq cache size expected attempts ks)).
Proof.
  induction ks as [|k r IH]; intros cache size expected attempts Hc Hp; cbn [download_seq].
  - split; [constructor | exact Hc].
  - inversion Hp; subst.
    destruct (download_c_ok cache size expected attempts k Hc H1) as [Ho Hc'].
    destruct (download_c cache size expected attempts k) as [o cache'].
    destruct (IH cache' size expected attempts Hc' H2) as [Hos Hc''].
    destruct (download_seq cache' size expected attempts r) as [os cache''].
    cbn [fst snd] in *. split; [constructor; assumption | exact Hc''].
Qed.

(* the two guards are needed: a cache hit verifies nothing. (1) a file already at the target path + a cache entry:
   success, the file stays (EEXIST counts as a hit); (2) a cache file that was modified: success with that content.
   Both confirmed on the real code; both outside the property's quantifier. *)
Theorem cache_hit_verifies_nothing : exists expected garbage size attempts,
  garbage <> expected /\
  (let o := fst (download_c (Some expected) size expected attempts
                   {| k_pre := Some garbage; k_partial := None; k_leave := false; k_script := [] |}) in
   o_err o = ENone /\ o_target o = Some garbage) /\
  (let o := fst (download_c (Some garbage) size expected attempts
                   {| k_pre := None; k_partial := None; k_leave := false; k_script := [] |}) in
   o_err o = ENone /\ o_target o = Some garbage).
Proof.
  exists [97;98;99;100], [88], 4, 3%nat. split; [discriminate|]. split; vm_compute; split; reflexivity.
Qed.

(* ---------------------------------------------------------------- deltas *)

(* delta download, xdelta3 as an arbitrary oracle, fallback to the full download: the same two halves of the property *)
Theorem delta_target_only_if_match : forall size expected partial leave attempts d script,
  outcome_ok expected (download_delta size expected partial leave attempts d script).
Proof.
  intros size expected partial leave attempts d script.
  assert (Hfull : forall p s, outcome_ok expected (download size expected (opt_bytes p) leave attempts s)).
  { intros p s. split; [apply target_only_if_match | apply (failure_leaves_no_target true)]. }
  assert (Hacc : forall f, beq f expected = true ->
            outcome_ok expected {| o_err := ENone; o_target := Some f; o_partial := None |}).
  { intros f Hf. apply beq_true_iff in Hf. subst. split; cbn; [reflexivity | intro H; contradiction]. }
  unfold download_delta.
  destruct (negb (d_format_ok d)); [apply Hfull|].
  destruct (dl_loop true (pred attempts) script (d_content d) [] 0 0) as [[[e f] p] rest].
  destruct e; try apply Hfull.
  destruct (negb (d_from_present d)); [apply Hfull|].
  destruct (d_x d) as [|out|]; [apply Hfull | |].
  - destruct (beq out expected) eqn:E; [now apply Hacc | apply Hfull].
  - destruct partial as [p0|]; [|apply Hfull].
    destruct (beq p0 expected) eqn:E; [now apply Hacc | apply Hfull].
Qed.
