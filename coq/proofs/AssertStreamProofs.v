(* C20 - the stream round trip: Decoder.Decode called repeatedly on what one Encoder wrote returns exactly the
   assertions, in order, then EOF (models/AssertCodec.v: stream_all, encode_stream).  Builds on AssertCodecProofs. *)
From Coq Require Import List NArith ZArith Bool Arith Lia ZifyBool ZifyNat ZifyN.
Import ListNotations.
Require Import V.lib.Bytes V.lib.Dec V.models.AssertCodec V.proofs.AssertCodecProofs.
Open Scope N_scope.
Transparent read_until read_exact ru_fuel.


(* ------------------------------------------------------------------ readUntil finds the first blank line *)
Definition de (s : bytes) : option nat :=
  match cut_first_nlnl s with Some (a, _) => Some (length a + 2)%nat | None => None end.

Lemma de_delim_end : forall s, delim_end s = option_map N.of_nat (de s).
Proof. intro s. unfold delim_end, de, lenN. destruct (cut_first_nlnl s) as [[a b]|]; cbn; [f_equal; lia|reflexivity]. Qed.

Lemma de_cons : forall c r, de (c :: r) = if has_prefix NLNL (c :: r) then Some 2%nat else option_map S (de r).
Proof.
  intros c r. unfold de. cbn [cut_first_nlnl]. destruct (has_prefix NLNL (c :: r)); [reflexivity|].
  destruct (cut_first_nlnl r) as [[a b]|]; reflexivity.
Qed.

Lemma has_prefix_nlnl_firstn2 : forall c r n, (1 <= n)%nat -> has_prefix NLNL (c :: firstn n r) = has_prefix NLNL (c :: r).
Proof. intros c r n H. destruct n; [lia|]. apply has_prefix_nlnl_firstn. Qed.

Lemma de_firstn : forall s n, de (firstn n s) = match de s with Some e => if (e <=? n)%nat then Some e else None | None => None end.
Proof.
  induction s as [|c r IH]; intro n.
  - rewrite firstn_nil. reflexivity.
  - destruct n as [|n].
    + cbn [firstn]. destruct (de (c :: r)) as [e|] eqn:E; [|reflexivity].
      assert (2 <= e)%nat by (unfold de in E; destruct (cut_first_nlnl (c :: r)) as [[a b]|]; inversion E; lia).
      destruct (Nat.leb_spec e 0); [lia|reflexivity].
    + destruct n as [|n].
      * assert (H1 : de (firstn 1 (c :: r)) = None).
        { cbn [firstn]. unfold de. cbn [cut_first_nlnl has_prefix NLNL]. rewrite andb_false_r. reflexivity. }
        rewrite H1. destruct (de (c :: r)) as [e|] eqn:E; [|reflexivity].
        assert (2 <= e)%nat by (unfold de in E; destruct (cut_first_nlnl (c :: r)) as [[a b]|]; inversion E; lia).
        destruct (Nat.leb_spec e 1); [lia|reflexivity].
      * change (firstn (S (S n)) (c :: r)) with (c :: firstn (S n) r). rewrite !de_cons.
        rewrite has_prefix_nlnl_firstn. destruct (has_prefix NLNL (c :: r)); [reflexivity|].
        rewrite IH. destruct (de r) as [e|]; [|reflexivity]. cbn [option_map].
        destruct (Nat.leb_spec e (S n)); destruct (Nat.leb_spec (S e) (S (S n))); try lia; reflexivity.
Qed.

Lemma de_le_length : forall s e, de s = Some e -> (e <= length s)%nat.
Proof.
  induction s as [|c r IH]; intros e H; [discriminate|]. rewrite de_cons in H.
  destruct (has_prefix NLNL (c :: r)) eqn:P.
  - inversion H; subst. destruct r as [|x r']; [cbn in P; rewrite andb_false_r in P; discriminate|]. cbn. lia.
  - destruct (de r) as [e'|] eqn:E; [|discriminate]. inversion H; subst. specialize (IH e' eq_refl). cbn. lia.
Qed.

Lemma delim_end_takeN : forall s k e, delim_end s = Some e -> delim_end (takeN k s) = if e <=? k then Some e else None.
Proof.
  intros s k e H. rewrite de_delim_end in *. rewrite takeN_firstn, de_firstn. destruct (de s) as [e0|]; [|discriminate].
  cbn in H. inversion H; subst. destruct (Nat.leb_spec e0 (N.to_nat k)); destruct (N.leb_spec (N.of_nat e0) k); try lia; reflexivity.
Qed.

Lemma delim_end_takeN_none : forall s k, delim_end s = None -> delim_end (takeN k s) = None.
Proof. intros s k H. rewrite de_delim_end in *. rewrite takeN_firstn, de_firstn. destruct (de s); [discriminate|reflexivity]. Qed.

Lemma delim_end_le : forall s e, delim_end s = Some e -> e <= lenN s.
Proof.
  intros s e H. rewrite de_delim_end in H. destruct (de s) as [e0|] eqn:E; [|discriminate]. inversion H; subst.
  apply de_le_length in E. unfold lenN. lia.
Qed.

Lemma takeN_all : forall n s, lenN s <= n -> takeN n s = s.
Proof. intros n s H. rewrite takeN_firstn. apply firstn_all2. unfold lenN in H. lia. Qed.

Theorem read_until_finds : forall fuel size maxSize d e,
  delim_end (d_rem d) = Some e -> ru_ok fuel size maxSize e = true ->
  exists ef, read_until fuel size maxSize d = (RFound (takeN e (d_rem d)), mkD (dropN e (d_rem d)) ef).
Proof.
  induction fuel as [|f IH]; intros size maxSize d e He Hok; [discriminate|].
  cbn [read_until]. unfold peek. destruct (lenN (d_rem d) <? size) eqn:Eshort.
  - rewrite He. eexists. reflexivity.
  - rewrite (delim_end_takeN _ size _ He). destruct (e <=? size) eqn:Ele.
    + rewrite takeN_takeN by lia. eexists. reflexivity.
    + pose proof (delim_end_le _ _ He) as Hle.
      assert (Hlen : lenN (takeN size (d_rem d)) = size).
      { unfold lenN, takeN. rewrite firstn_length. unfold lenN in *. lia. }
      replace (lenN (takeN size (d_rem d)) =? lenN (d_rem d)) with false by (symmetry; apply N.eqb_neq; lia).
      rewrite andb_false_r. cbn [ru_ok] in Hok. rewrite Ele in Hok. cbn [orb] in Hok.
      apply andb_true_iff in Hok. destruct Hok as [Hm Hok]. apply negb_true_iff in Hm. rewrite Hm.
      apply (IH (size * 2) maxSize d e He Hok).
Qed.

Theorem read_until_eof : forall fuel size maxSize d,
  delim_end (d_rem d) = None -> ru_ok fuel size maxSize (lenN (d_rem d) + 1) = true ->
  exists ef, read_until fuel size maxSize d = (REof (d_rem d), mkD [] ef).
Proof.
  induction fuel as [|f IH]; intros size maxSize d He Hok; [discriminate|].
  cbn [read_until]. unfold peek. destruct (lenN (d_rem d) <? size) eqn:Eshort.
  - rewrite He. cbn [d_rem d_eof]. rewrite N.eqb_refl. cbn [andb]. eexists. reflexivity.
  - rewrite (delim_end_takeN_none _ size He).
    destruct (d_eof d && (lenN (takeN size (d_rem d)) =? lenN (d_rem d))) eqn:Ec.
    + apply andb_true_iff in Ec. destruct Ec as [_ Ec]. apply N.eqb_eq in Ec.
      assert (Hs : lenN (d_rem d) <= size).
      { unfold lenN, takeN in Ec. rewrite firstn_length in Ec. unfold lenN in *. lia. }
      rewrite (takeN_all _ _ Hs). eexists. reflexivity.
    + cbn [ru_ok] in Hok. replace (lenN (d_rem d) + 1 <=? size) with false in Hok by lia. cbn [orb] in Hok.
      apply andb_true_iff in Hok. destruct Hok as [Hm Hok]. apply negb_true_iff in Hm. rewrite Hm.
      apply (IH (size * 2) maxSize d He Hok).
Qed.


Lemma ru_ok_mono : forall fuel size maxSize n n', n' <= n -> ru_ok fuel size maxSize n = true -> ru_ok fuel size maxSize n' = true.
Proof.
  induction fuel as [|f IH]; intros size maxSize n n' Hle H; [discriminate|]. cbn [ru_ok] in *.
  apply orb_true_iff in H. apply orb_true_iff. destruct H as [H|H]; [left; lia|]. right.
  apply andb_true_iff in H. destruct H as [H1 H2]. rewrite H1. cbn. eapply IH; eassumption.
Qed.

Lemma takeN_app_exact : forall a b : bytes, takeN (lenN a) (a ++ b) = a.
Proof. intros a b. rewrite takeN_firstn. unfold lenN. rewrite Nat2N.id. apply firstn_app_exact. Qed.

Lemma dropN_app_exact : forall a b : bytes, dropN (lenN a) (a ++ b) = b.
Proof.
  intros a b. unfold dropN, lenN. rewrite app_length.
  replace (N.to_nat (N.min (N.of_nat (length a)) (N.of_nat (length a + length b)))) with (length a) by lia.
  rewrite skipn_app, Nat.sub_diag, skipn_all. reflexivity.
Qed.

Lemma found_app : forall fuel size maxSize p X ef,
  cut_first_nlnl p = None -> last p 0 <> NL -> ru_ok fuel size maxSize (lenN p + 2) = true ->
  exists ef1, read_until fuel size maxSize (mkD (p ++ NLNL ++ X) ef) = (RFound (p ++ NLNL), mkD X ef1).
Proof.
  intros fuel size maxSize p X ef Hc Hl Hok.
  assert (He : delim_end (d_rem (mkD (p ++ NLNL ++ X) ef)) = Some (lenN p + 2)).
  { cbn [d_rem]. unfold delim_end. rewrite (cut_first_app_sep p X Hc Hl). reflexivity. }
  destruct (read_until_finds fuel size maxSize _ _ He Hok) as [ef1 H]. exists ef1. rewrite H. cbn [d_rem].
  replace (lenN p + 2) with (lenN (p ++ NLNL)) by (unfold lenN; rewrite app_length; cbn; lia).
  replace (p ++ NLNL ++ X) with ((p ++ NLNL) ++ X) by (rewrite <- app_assoc; reflexivity).
  rewrite takeN_app_exact, dropN_app_exact. reflexivity.
Qed.

Lemma cut_first_app_nl : forall s, cut_first_nlnl s = None -> last s 0 <> NL -> cut_first_nlnl (s ++ [NL]) = None.
Proof.
  induction s as [|c r IH]; intros H Hl; [reflexivity|].
  apply cut_first_cons_none in H. destruct H as [Hp Hc].
  change ((c :: r) ++ [NL]) with (c :: (r ++ [NL])). cbn [cut_first_nlnl].
  assert (Hp' : has_prefix NLNL (c :: r ++ [NL]) = false).
  { destruct r as [|x r']; [|exact Hp]. cbn in Hl. cbn [app has_prefix NLNL].
    destruct (NL =? c) eqn:E; [apply N.eqb_eq in E; congruence|reflexivity]. }
  rewrite Hp'. rewrite IH; [reflexivity|exact Hc|]. destruct r as [|x r']; [cbn; unfold NL; lia|exact Hl].
Qed.

Lemma eof_app : forall fuel size maxSize s ef,
  cut_first_nlnl s = None -> last s 0 <> NL -> ru_ok fuel size maxSize (lenN s + 2) = true ->
  exists ef1, read_until fuel size maxSize (mkD (s ++ [NL]) ef) = (REof (s ++ [NL]), mkD [] ef1).
Proof.
  intros fuel size maxSize s ef Hc Hl Hok.
  assert (He : delim_end (d_rem (mkD (s ++ [NL]) ef)) = None).
  { cbn [d_rem]. unfold delim_end. rewrite (cut_first_app_nl s Hc Hl). reflexivity. }
  apply (read_until_eof fuel size maxSize _ He). cbn [d_rem].
  replace (lenN (s ++ [NL]) + 1) with (lenN s + 2) by (unfold lenN; rewrite app_length; cbn; lia). exact Hok.
Qed.

Lemma read_exact_app : forall (a b : bytes) ef, exists ef1, read_exact (lenN a) (mkD (a ++ b) ef) = (Some a, mkD b ef1).
Proof.
  intros a b ef. unfold read_exact, peek. cbn [d_rem d_eof].
  destruct (lenN (a ++ b) <? lenN a) eqn:E.
  - unfold lenN in E. rewrite app_length in E. assert (length b = 0)%nat by lia. destruct b; [|discriminate].
    rewrite app_nil_r in *. cbn [d_rem d_eof]. rewrite N.eqb_refl. exists true. f_equal. f_equal.
    unfold dropN. replace (N.to_nat (N.min (lenN a) (lenN a))) with (length a) by (unfold lenN; lia). apply skipn_all.
  - rewrite takeN_app_exact. rewrite N.eqb_refl. exists ef. cbn [d_rem d_eof]. rewrite dropN_app_exact. reflexivity.
Qed.

Lemma last_app_nl : forall s : bytes, last (s ++ [NL]) 0 = NL.
Proof. induction s as [|c s IH]; [reflexivity|]. cbn [app]. destruct (s ++ [NL]) eqn:E; [destruct s; discriminate|]. cbn [last]. exact IH. Qed.

Lemma has_suffix_nlnl_app : forall s : bytes, has_suffix_nlnl (s ++ NLNL) = true.
Proof. intro s. unfold has_suffix_nlnl. rewrite rev_app_distr. reflexivity. Qed.

Lemma has_suffix_nlnl_single : forall s : bytes, last s 0 <> NL -> has_suffix_nlnl (s ++ [NL]) = false.
Proof.
  intros s H. unfold has_suffix_nlnl. rewrite rev_app_distr. cbn [rev app]. destruct (rev s) as [|x r] eqn:E; [reflexivity|].
  assert (s = rev r ++ [x]) by (rewrite <- (rev_involutive s), E; reflexivity). subst s.
  assert (last (rev r ++ [x]) 0 = x) by (clear; induction (rev r) as [|c l IH]; [reflexivity|cbn [app]; destruct (l ++ [x]) eqn:E; [destruct l; discriminate|]; cbn [last]; exact IH]).
  rewrite H0 in H. cbn [has_prefix NLNL]. rewrite N.eqb_refl. cbn [andb].
  destruct (NL =? x) eqn:E2; [apply N.eqb_eq in E2; congruence|reflexivity].
Qed.

Lemma removelast_app_nlnl : forall s : bytes, removelast (s ++ NLNL) = s ++ [NL].
Proof. intro s. change NLNL with ([NL] ++ [NL]). rewrite app_assoc. apply removelast_last. Qed.

Lemma head_facts : forall it, wf_item it ->
  cut_first_nlnl (i_head it) = None /\ last (i_head it) 0 <> NL /\ parse_headers (i_head it) = Ok (i_h it).
Proof.
  intros it [Hn [Hne [Hl [Hu _]]]]. unfold i_head in *.
  assert (Hok : Forall line_ok (format_headers (i_h it))).
  { apply format_headers_lines_ok; [|exact Hl]. unfold norm_headers in Hn. apply andb_true_iff in Hn. tauto. }
  assert (Hfne : format_headers (i_h it) <> []).
  { destruct (i_h it) as [|[k v] h']; [congruence|]. unfold norm_headers in Hn. cbn in Hn.
    apply andb_true_iff in Hn. destruct Hn as [Hn _]. apply andb_true_iff in Hn. destruct Hn as [Hn _].
    apply andb_true_iff in Hn. destruct Hn as [_ Hv].
    destruct (format_head v (k ++ [COLON]) 0 Hv) as [x [tl Hf]]. unfold format_headers. cbn [flat_map fst snd].
    rewrite Hf. discriminate. }
  destruct (join_lines_ok _ Hfne Hok) as [Hc [_ Hlast]]. split; [exact Hc|]. split; [exact Hlast|].
  apply roundtrip_bytes; assumption.
Qed.

Definition tail_of (more : option bytes) : bytes := match more with Some rest => NL :: rest | None => [] end.
Definition rest_of (more : option bytes) : bytes := match more with Some rest => rest | None => [] end.

(* the signature part of the stream: either the stream ends after it, or a blank line and [rest] follow *)
Lemma sig_read : forall lim it ef (more : option bytes),
  wf_item it -> lim_ok lim it ->
  exists ef1,
    read_until ru_fuel (l_buf lim) (l_sig lim)
      (mkD (i_sig it ++ tail_of more) ef)
    = (match more with Some _ => RFound (i_s it ++ NLNL) | None => REof (i_sig it) end, mkD (rest_of more) ef1).
Proof.
  intros lim it ef more [_ [_ [_ [_ [_ [Hc [Hl _]]]]]]] [_ [_ Hok]]. unfold i_sig, tail_of, rest_of. destruct more as [rest|].
  - replace ((i_s it ++ [NL]) ++ NL :: rest) with (i_s it ++ NLNL ++ rest) by (rewrite <- app_assoc; reflexivity).
    apply found_app; assumption.
  - rewrite app_nil_r. apply eof_app; assumption.
Qed.

Lemma sig_norm : forall it (more : option bytes), wf_item it ->
  (let b := match more with Some _ => i_s it ++ NLNL | None => i_sig it end in
   if has_suffix_nlnl b then removelast b else b) = i_sig it.
Proof.
  intros it more [_ [_ [_ [_ [_ [_ [Hl _]]]]]]]. destruct more; cbn zeta.
  - rewrite has_suffix_nlnl_app, removelast_app_nlnl. reflexivity.
  - unfold i_sig. rewrite (has_suffix_nlnl_single _ Hl). reflexivity.
Qed.



Lemma firstn_head_sep : forall head : bytes, firstn (length (head ++ NLNL) - 2) (head ++ NLNL) = head.
Proof.
  intro head. rewrite app_length. cbn [length NLNL]. replace (length head + 2 - 2)%nat with (length head) by lia.
  apply firstn_app_exact.
Qed.

Lemma sig_not_blank : forall it (more : option bytes), wf_item it ->
  beq (match more with Some _ => i_s it ++ NLNL | None => i_sig it end) NLNL = false.
Proof.
  intros it more [_ [_ [_ [_ [_ [_ [Hl Hne]]]]]]]. destruct (beq _ NLNL) eqn:E; [|reflexivity]. exfalso.
  apply beq_true_iff in E. destruct more.
  - apply (f_equal (@length N)) in E. rewrite app_length in E. cbn in E. destruct (i_s it); [congruence|cbn in E; lia].
  - unfold i_sig in E. change NLNL with ([NL] ++ [NL]) in E. apply app_inj_tail in E. destruct E as [E _].
    rewrite E in Hl. cbn in Hl. congruence.
Qed.

Theorem stream_step : forall lim it ef (more : option bytes),
  wf_item it -> lim_ok lim it ->
  exists ef', stream_decode lim (mkD (written it ++ tail_of more) ef) = (SOk (i_parts it), mkD (rest_of more) ef').
Proof.
  intros lim it ef more Hwf Hlim.
  destruct (head_facts it Hwf) as [Hhc [Hhl Hparse]].
  pose proof Hwf as [_ [_ [_ [_ [Hbl _]]]]]. pose proof Hlim as [Hokh [Hbody Hoks]].
  unfold stream_decode, written, i_content, content_of.
  destruct (i_body it) as [|b0 body'] eqn:Eb.
  - (* no body *)
    cbn [is_nil_b]. rewrite <- !app_assoc.
    destruct (found_app ru_fuel (l_buf lim) (l_headers lim) (i_head it) (i_sig it ++ tail_of more) ef Hhc Hhl Hokh) as [ef1 H1].
    rewrite H1. rewrite firstn_head_sep, Hparse, Hbl. cbn [lenN length N.of_nat Z.of_N].
    replace (0 <? 0)%Z with false by reflexivity.
    replace (Z.of_N (l_body lim) <? 0)%Z with false by lia.
    replace (Z.of_N (lenN (i_head it ++ NLNL)) + 0 <? 0)%Z with false by lia.
    cbv beta iota zeta.
    destruct (sig_read lim it ef1 more Hwf Hlim) as [ef2 H2]. rewrite H2. cbv beta iota zeta.
    pose proof (sig_not_blank it more Hwf) as Hnb. pose proof (sig_norm it more Hwf) as Hsn. cbn zeta in Hsn.
    exists ef2. destruct more as [rest|]; cbn [rest_of]; rewrite Hnb, Hsn; unfold i_parts, i_content, content_of; rewrite Eb; reflexivity.
  - (* with a body *)
    cbn [is_nil_b]. rewrite <- !app_assoc.
    destruct (found_app ru_fuel (l_buf lim) (l_headers lim) (i_head it) ((b0 :: body') ++ NLNL ++ i_sig it ++ tail_of more) ef Hhc Hhl Hokh) as [ef1 H1].
    rewrite H1. rewrite firstn_head_sep, Hparse, Hbl.
    set (body := b0 :: body') in *.
    assert (Hpos : (0 <? Z.of_N (lenN body))%Z = true) by (unfold lenN, body; cbn [length]; lia).
    replace (Z.of_N (lenN body) <? 0)%Z with false by lia.
    replace (Z.of_N (l_body lim) <? Z.of_N (lenN body))%Z with false by lia.
    replace (Z.of_N (lenN (i_head it ++ NLNL)) + Z.of_N (lenN body) <? 0)%Z with false by lia.
    rewrite Hpos. rewrite N2Z.id. cbv beta iota zeta.
    destruct (read_exact_app body (NLNL ++ i_sig it ++ tail_of more) ef1) as [ef2 H2]. rewrite H2. cbv beta iota zeta.
    assert (Hok2 : ru_ok ru_fuel (l_buf lim) (l_sig lim) (lenN (@nil N) + 2) = true).
    { eapply ru_ok_mono; [|exact Hoks]. unfold lenN. cbn. lia. }
    destruct (found_app ru_fuel (l_buf lim) (l_sig lim) [] (i_sig it ++ tail_of more) ef2 eq_refl ltac:(cbn; unfold NL; lia) Hok2) as [ef3 H3].
    cbn [app] in H3. cbn [app]. rewrite H3. cbv beta iota zeta.
    assert (Hb : beq NLNL NLNL = true) by reflexivity. rewrite Hb.
    destruct (sig_read lim it ef3 more Hwf Hlim) as [ef4 H4]. rewrite H4. cbv beta iota zeta.
    pose proof (sig_norm it more Hwf) as Hsn. cbn zeta in Hsn.
    exists ef4. destruct more as [rest|]; cbn [rest_of]; rewrite Hsn; unfold i_parts, i_content, content_of; rewrite Eb; cbn [is_nil_b];
      rewrite <- app_assoc; reflexivity.
Qed.


Lemma stream_of_cons : forall it r,
  stream_of (it :: r) = written it ++ tail_of (match r with [] => None | _ => Some (stream_of r) end).
Proof. intros it [|it2 r]; cbn [stream_of tail_of]; [rewrite app_nil_r|]; reflexivity. Qed.

Lemma stream_empty : forall lim ef, 1 <= l_buf lim -> fst (stream_decode lim (mkD [] ef)) = SEof.
Proof.
  intros lim ef H. unfold stream_decode, ru_fuel. cbn [read_until]. unfold peek. cbn [d_rem d_eof lenN length N.of_nat].
  replace (0 <? l_buf lim) with true by lia. cbn. reflexivity.
Qed.

(* Decoder.Decode called repeatedly on what the Encoder wrote returns exactly the assertions, in order, then EOF *)
Theorem stream_roundtrip_items : forall lim l ef,
  1 <= l_buf lim -> Forall wf_item l -> Forall (lim_ok lim) l ->
  stream_all lim (mkD (stream_of l) ef) (repeat true (S (length l))) = map (fun it => SOk (i_parts it)) l ++ [SEof].
Proof.
  intros lim l. induction l as [|it r IH]; intros ef Hb Hwf Hlim.
  - cbn [stream_of length repeat stream_all map app]. pose proof (stream_empty lim ef Hb) as He.
    destruct (stream_decode lim (mkD [] ef)) as [x d1]. cbn [fst] in He. subst x. reflexivity.
  - inversion Hwf as [|? ? Hw Hwf']; subst. inversion Hlim as [|? ? Hl Hlim']; subst.
    rewrite stream_of_cons. cbn [length repeat stream_all].
    destruct (stream_step lim it ef (match r with [] => None | _ => Some (stream_of r) end) Hw Hl) as [ef' Hs].
    rewrite Hs. cbn [map app]. f_equal.
    replace (rest_of match r with [] => None | _ :: _ => Some (stream_of r) end) with (stream_of r) by (destruct r; reflexivity).
    apply (IH ef' Hb Hwf' Hlim').
Qed.

Lemma last_app_ne : forall (a b : bytes) d, b <> [] -> last (a ++ b) d = last b d.
Proof.
  induction a as [|c a IH]; intros b d H; [reflexivity|]. cbn [app]. destruct (a ++ b) eqn:E.
  - apply app_eq_nil in E. tauto.
  - rewrite <- E. cbn [last]. rewrite E. rewrite <- E. apply IH. exact H.
Qed.

Lemma enc_item_closed : forall t it, wf_item it ->
  enc_item t it ++ (if last (enc_item t it) 0 =? NL then [] else [NL]) = written it.
Proof.
  intros t it [_ [_ [_ [_ [_ [_ [Hl Hne]]]]]]]. destruct t; unfold enc_item.
  - rewrite app_assoc. rewrite (last_app_ne _ (i_s it) 0 Hne).
    replace (last (i_s it) 0 =? NL) with false by (symmetry; apply N.eqb_neq; exact Hl).
    unfold written, i_sig. rewrite <- !app_assoc. reflexivity.
  - unfold written, i_sig. rewrite !app_assoc. rewrite last_app_nl. rewrite N.eqb_refl. apply app_nil_r.
Qed.

Lemma encode_stream_from_items : forall l next, Forall (fun x => wf_item (snd x)) l ->
  encode_stream_from next (enc_items l) = match l with [] => [] | _ => next ++ stream_of (map snd l) end.
Proof.
  induction l as [|[t it] r IH]; intros next H; [reflexivity|].
  inversion H as [|? ? Hw Hr]; subst. cbn [snd] in Hw.
  cbn [enc_items map fst snd encode_stream_from]. fold (enc_items r). rewrite (IH [NL] Hr).
  rewrite (app_assoc (enc_item t it)). rewrite (enc_item_closed t it Hw).
  destruct r as [|x r']; [cbn [map stream_of]; rewrite app_nil_r; reflexivity|].
  cbn [map]. destruct (map snd r') eqn:E; cbn [stream_of app]; rewrite <- ?app_assoc; reflexivity.
Qed.

Theorem stream_roundtrip : forall lim (l : list (bool * item)) ef,
  1 <= l_buf lim -> Forall (fun x => wf_item (snd x)) l -> Forall (fun x => lim_ok lim (snd x)) l ->
  stream_all lim (mkD (encode_stream (enc_items l)) ef) (repeat true (S (length l)))
  = map (fun x => SOk (i_parts (snd x))) l ++ [SEof].
Proof.
  intros lim l ef Hb Hwf Hlim. unfold encode_stream. rewrite (encode_stream_from_items l [] Hwf).
  assert (Hgen : stream_all lim (mkD (stream_of (map snd l)) ef) (repeat true (S (length (map snd l))))
                 = map (fun it => SOk (i_parts it)) (map snd l) ++ [SEof]).
  { apply stream_roundtrip_items; [exact Hb| |]; apply Forall_map; assumption. }
  rewrite map_length, map_map in Hgen. destruct l as [|x l']; exact Hgen.
Qed.

(* the production limits: header text up to 128 KiB - 2, body up to 2 MiB, signature text up to 128 KiB - 2 *)
Lemma ru_ok_S : forall f size maxSize n,
  ru_ok (S f) size maxSize n = (n <=? size) || (negb (maxSize <? size * 2) && ru_ok f (size * 2) maxSize n).
Proof. reflexivity. Qed.

Lemma ru_ok_default : forall n, n <= 131072 -> ru_ok ru_fuel 4096 131072 n = true.
Proof.
  intros n H. unfold ru_fuel.
  rewrite ru_ok_S. destruct (n <=? 4096) eqn:E1; [reflexivity|]. cbn [orb]. change (131072 <? 4096 * 2) with false. cbn [negb andb]. change (4096 * 2) with 8192.
  rewrite ru_ok_S. destruct (n <=? 8192) eqn:E2; [reflexivity|]. cbn [orb]. change (131072 <? 8192 * 2) with false. cbn [negb andb]. change (8192 * 2) with 16384.
  rewrite ru_ok_S. destruct (n <=? 16384) eqn:E3; [reflexivity|]. cbn [orb]. change (131072 <? 16384 * 2) with false. cbn [negb andb]. change (16384 * 2) with 32768.
  rewrite ru_ok_S. destruct (n <=? 32768) eqn:E4; [reflexivity|]. cbn [orb]. change (131072 <? 32768 * 2) with false. cbn [negb andb]. change (32768 * 2) with 65536.
  rewrite ru_ok_S. destruct (n <=? 65536) eqn:E5; [reflexivity|]. cbn [orb]. change (131072 <? 65536 * 2) with false. cbn [negb andb]. change (65536 * 2) with 131072.
  rewrite ru_ok_S. replace (n <=? 131072) with true by lia. reflexivity.
Qed.

Theorem lim_ok_default : forall it,
  lenN (i_head it) + 2 <= 131072 -> lenN (i_body it) <= 2097152 -> lenN (i_s it) + 2 <= 131072 -> lim_ok default_limits it.
Proof.
  intros it H1 H2 H3. unfold lim_ok, default_limits. cbn [l_buf l_headers l_body l_sig].
  split; [apply ru_ok_default; exact H1|]. split; [exact H2|apply ru_ok_default; exact H3].
Qed.
