(* C28 (planning part): proofs about models/MountNS.v. *)
From Coq Require Import List NArith ZArith Bool Lia ZifyBool ZifyN Permutation.
Import ListNotations.
Require Import V.lib.Bytes V.models.MountEntry V.models.MountNS.
Open Scope N_scope.

(* ------------------------------------------------------------------ boolean equalities are equalities *)

Lemma beq_eq : forall a b, beq a b = true <-> a = b.
Proof.
  induction a as [|x a IH]; destruct b as [|y b]; cbn [beq]; split; intro H; try congruence; try discriminate.
  - apply andb_true_iff in H as [H1 H2]. apply N.eqb_eq in H1. apply IH in H2. congruence.
  - inversion H; subst. rewrite N.eqb_refl. cbn. apply IH. reflexivity.
Qed.

Lemma beq_refl : forall a, beq a a = true.
Proof. intro a. apply beq_eq. reflexivity. Qed.

Lemma opts_eqb_eq : forall a b, opts_eqb a b = true <-> a = b.
Proof.
  induction a as [|x a IH]; destruct b as [|y b]; cbn [opts_eqb]; split; intro H; try congruence; try discriminate.
  - apply andb_true_iff in H as [H1 H2]. apply beq_eq in H1. apply IH in H2. congruence.
  - inversion H; subst. rewrite beq_refl. cbn. apply IH. reflexivity.
Qed.

Lemma entry_eqb_eq : forall a b, entry_eqb a b = true <-> a = b.
Proof.
  intros [n1 d1 t1 o1 f1 p1] [n2 d2 t2 o2 f2 p2]. unfold entry_eqb. cbn [e_name e_dir e_type e_opts e_freq e_pass].
  split; intro H.
  - apply andb_true_iff in H as [H H6]. apply andb_true_iff in H as [H H5]. apply andb_true_iff in H as [H H4].
    apply andb_true_iff in H as [H H3]. apply andb_true_iff in H as [H1 H2].
    apply beq_eq in H1. apply beq_eq in H2. apply beq_eq in H3. apply opts_eqb_eq in H4.
    apply Z.eqb_eq in H5. apply Z.eqb_eq in H6. congruence.
  - inversion H; subst. rewrite !beq_refl, !Z.eqb_refl.
    assert (opts_eqb o2 o2 = true) as -> by (apply opts_eqb_eq; reflexivity). reflexivity.
Qed.

Lemma id_eqb_eq : forall a b, id_eqb a b = true <-> a = b.
Proof.
  intros [a1 a2] [b1 b2]. unfold id_eqb. cbn [fst snd]. rewrite andb_true_iff, !beq_eq. split; [intros [-> ->]; reflexivity | intro H; inversion H; auto].
Qed.

Lemma id_mem_In : forall i l, id_mem i l = true <-> In i l.
Proof.
  intros i l. unfold id_mem. rewrite existsb_exists. split.
  - intros (x & Hx & E). apply id_eqb_eq in E. subst. exact Hx.
  - intro H. exists i. split; [exact H | apply id_eqb_eq; reflexivity].
Qed.

(* ------------------------------------------------------------------ insertion sort: a permutation *)

Section SortPerm.
  Context {A : Type} (lt : A -> A -> bool).

  Lemma ins_rev_perm : forall x racc, Permutation (ins_rev lt x racc) (x :: racc).
  Proof.
    induction racc as [|y r IH]; cbn [ins_rev]; [apply Permutation_refl|].
    destruct (lt x y); [|apply Permutation_refl].
    eapply Permutation_trans; [apply perm_skip, IH | apply perm_swap].
  Qed.

  Lemma fold_ins_perm : forall l racc, Permutation (fold_left (fun racc x => ins_rev lt x racc) l racc) (l ++ racc).
  Proof.
    induction l as [|x l IH]; intro racc; cbn [fold_left app]; [apply Permutation_refl|].
    eapply Permutation_trans; [apply IH|].
    eapply Permutation_trans; [apply Permutation_app_head, ins_rev_perm|].
    apply Permutation_sym, Permutation_middle.
  Qed.

  Lemma isort_perm : forall l, Permutation (isort lt l) l.
  Proof.
    intro l. unfold isort. eapply Permutation_trans; [apply Permutation_sym, Permutation_rev|].
    eapply Permutation_trans; [apply fold_ins_perm|]. rewrite app_nil_r. apply Permutation_refl.
  Qed.

  Lemma isort_In : forall l x, In x (isort lt l) <-> In x l.
  Proof. intros l x. split; apply Permutation_in; [apply isort_perm | apply Permutation_sym, isort_perm]. Qed.
End SortPerm.

(* ------------------------------------------------------------------ the shape of the change list *)

Definition precedes {A : Type} (a b : A) (l : list A) : Prop := exists l1 l2 l3, l = l1 ++ a :: l2 ++ b :: l3.

Lemma precedes_map : forall {A B} (f : A -> B) a b l, precedes a b l -> precedes (f a) (f b) (map f l).
Proof.
  intros A B f a b l (l1 & l2 & l3 & ->). exists (map f l1), (map f l2), (map f l3).
  rewrite map_app. cbn [map]. rewrite map_app. reflexivity.
Qed.

Lemma precedes_app_l : forall {A} (a b : A) l r, precedes a b l -> precedes a b (l ++ r).
Proof.
  intros A a b l r (l1 & l2 & l3 & ->). exists l1, l2, (l3 ++ r).
  repeat rewrite <- app_assoc. cbn [app]. repeat rewrite <- app_assoc. reflexivity.
Qed.

Lemma precedes_app_r : forall {A} (a b : A) l r, precedes a b r -> precedes a b (l ++ r).
Proof.
  intros A a b l r (l1 & l2 & l3 & ->). exists (l ++ l1), l2, l3. rewrite <- !app_assoc. reflexivity.
Qed.

Lemma precedes_split : forall {A} (a b : A) l r, In a l -> In b r -> precedes a b (l ++ r).
Proof.
  intros A a b l r Ha Hb. apply in_split in Ha as (l1 & l2 & ->). apply in_split in Hb as (r1 & r2 & ->).
  exists l1, (l2 ++ r1), r2. repeat rewrite <- app_assoc. cbn [app]. repeat rewrite <- app_assoc. reflexivity.
Qed.

Lemma precedes_rev : forall {A} (a b : A) l, precedes a b l -> precedes b a (rev l).
Proof.
  intros A a b l (l1 & l2 & l3 & ->). exists (rev l3), (rev l2), (rev l1).
  rewrite rev_app_distr. cbn [rev]. rewrite rev_app_distr. cbn [rev]. rewrite <- !app_assoc. cbn [app]. reflexivity.
Qed.

Lemma precedes_filter : forall {A} (p : A -> bool) (a b : A) l,
  precedes a b l -> p a = true -> p b = true -> precedes a b (filter p l).
Proof.
  intros A p a b l (l1 & l2 & l3 & ->) Ha Hb. exists (filter p l1), (filter p l2), (filter p l3).
  rewrite filter_app. cbn [filter]. rewrite Ha. rewrite filter_app. cbn [filter]. rewrite Hb. reflexivity.
Qed.

Lemma filter_rev' : forall {A} (p : A -> bool) l, filter p (rev l) = rev (filter p l).
Proof.
  intros A p l. induction l as [|x l IH]; [reflexivity|]. cbn [rev filter]. rewrite filter_app, IH. cbn [filter].
  destruct (p x); [reflexivity | rewrite app_nil_r; reflexivity].
Qed.

Definition is_unmount (c : change) : bool := action_eqb (fst c) Unmount.

(* the change list is: one Keep or Unmount per current entry, in reverse profile order, then only Mounts *)
Lemma needed_changes_shape : forall fs current desired,
  exists mounts,
    needed_changes fs current desired =
      unmount_part (reuse_of current desired) (map clean_entry current) ++ map (fun e => (Mount, e)) mounts.
Proof. intros. eexists. reflexivity. Qed.

Lemma unmounts_of_mounts : forall ms, unmounts_of (map (fun e => (Mount, e)) ms) = [].
Proof. induction ms as [|m ms IH]; [reflexivity|]. unfold unmounts_of in *. cbn. exact IH. Qed.

Lemma unmounts_of_app : forall a b, unmounts_of (a ++ b) = unmounts_of a ++ unmounts_of b.
Proof. intros. unfold unmounts_of. rewrite filter_app, map_app. reflexivity. Qed.

Lemma unmounts_of_part : forall reuse l,
  unmounts_of (map (fun e => if id_mem (id_of e) reuse then (Keep, e) else (Unmount, detach_form e)) l) =
  map detach_form (filter (fun e => negb (id_mem (id_of e) reuse)) l).
Proof.
  intros reuse l. induction l as [|e l IH]; [reflexivity|].
  unfold unmounts_of in *. cbn [map filter]. destruct (id_mem (id_of e) reuse); cbn; [exact IH | rewrite IH; reflexivity].
Qed.

(* the Unmount changes are exactly the not reused current entries (in their unmount form), in the exact reverse
   of the order of the current profile *)
Theorem unmounts_reverse_profile : forall fs current desired,
  unmounts_of (needed_changes fs current desired) =
  map detach_form (rev (filter (fun e => negb (id_mem (id_of e) (reuse_of current desired))) (map clean_entry current))).
Proof.
  intros. unfold needed_changes. rewrite unmounts_of_app, unmounts_of_mounts, app_nil_r.
  unfold unmount_part. rewrite unmounts_of_part. rewrite filter_rev'. reflexivity.
Qed.

(* hence: of two unmounted entries, the one later in the current profile is unmounted first *)
Theorem unmount_later_first : forall fs current desired p c,
  let reuse := reuse_of current desired in
  precedes p c (map clean_entry current) ->
  id_mem (id_of p) reuse = false -> id_mem (id_of c) reuse = false ->
  precedes (detach_form c) (detach_form p) (unmounts_of (needed_changes fs current desired)).
Proof.
  intros fs current desired p c reuse H Hp Hc. rewrite unmounts_reverse_profile.
  apply precedes_map, precedes_rev, precedes_filter; [exact H | | ]; fold reuse; [rewrite Hp | rewrite Hc]; reflexivity.
Qed.

(* ------------------------------------------------------------------ unchanged entries are kept *)

(* the scan marks every reusable entry that is not beneath a not reusable one *)
Lemma reuse_scan_marks : forall des ids l skip c,
  In c l -> reusable des ids c = true ->
  (forall p, In p l -> reusable des ids p = false -> beneath c p = false) ->
  (skip = [] \/ has_prefix skip (e_dir c) = false) ->
  In (id_of c) (reuse_scan des ids skip l).
Proof.
  induction l as [|x l IH]; intros skip c Hin Hr Hb Hs; [destruct Hin|].
  cbn [reuse_scan]. destruct Hin as [-> | Hin].
  - assert (negb (is_nil_b skip) && has_prefix skip (e_dir c) = false) as ->.
    { destruct Hs as [-> | ->]; [reflexivity | apply andb_false_r]. }
    rewrite Hr. left. reflexivity.
  - destruct (negb (is_nil_b skip) && has_prefix skip (e_dir x)) eqn:E1.
    + apply IH; auto. intros p Hp. apply Hb. right. exact Hp.
    + destruct (reusable des ids x) eqn:E2.
      * right. apply IH; auto. intros p Hp. apply Hb. right. exact Hp.
      * apply IH; auto.
        -- intros p Hp. apply Hb. right. exact Hp.
        -- right. apply (Hb x); [left; reflexivity | exact E2].
Qed.

(* every current entry that is reusable (identical to the desired entry for its mount point, or a helper that is
   still needed) and does not lie beneath a current entry that is not, is kept: the change list has Keep for it *)
Theorem unchanged_kept : forall fs current desired c,
  let cur := map clean_entry current in
  let des := isort less_origin (map clean_entry desired) in
  let ids := map x_entry_id des in
  In c cur -> reusable des ids c = true ->
  (forall p, In p cur -> reusable des ids p = false -> beneath c p = false) ->
  In (Keep, c) (needed_changes fs current desired).
Proof.
  intros fs current desired c cur des ids Hin Hr Hb.
  unfold needed_changes. apply in_or_app. left. unfold unmount_part.
  apply in_map_iff. exists c. split; [|apply in_rev; rewrite rev_involutive; exact Hin].
  assert (id_mem (id_of c) (reuse_of current desired) = true) as ->; [|reflexivity].
  apply id_mem_In. unfold reuse_of. fold cur des ids.
  apply reuse_scan_marks; auto.
  - apply isort_In. exact Hin.
  - intros p Hp. apply Hb. apply (isort_In less_overname cur p). exact Hp.
Qed.

(* identical to a desired entry implies reusable, when the desired mount points are pairwise different *)
Lemma find_some_first : forall (p : entry -> bool) l x, NoDup (map e_dir l) -> In x l ->
  (forall y, In y l -> p y = true -> e_dir y = e_dir x) -> p x = true -> find p l = Some x.
Proof.
  induction l as [|y l IH]; intros x ND Hin Hp Hx; [destruct Hin|].
  cbn [find]. cbn [map] in ND. inversion ND as [|? ? Hn ND']; subst.
  destruct Hin as [-> | Hin]; [rewrite Hx; reflexivity|].
  destruct (p y) eqn:E.
  - exfalso. apply Hn. rewrite (Hp y (or_introl eq_refl) E). apply in_map. exact Hin.
  - apply IH; auto. intros z Hz. apply Hp. right. exact Hz.
Qed.

Lemma desired_lookup_found : forall des d, NoDup (map e_dir des) -> In d des -> desired_lookup des (e_dir d) = Some d.
Proof.
  intros des d ND Hin. unfold desired_lookup. apply find_some_first.
  - rewrite map_rev. apply NoDup_rev. exact ND.
  - apply in_rev. rewrite rev_involutive. exact Hin.
  - intros y _ Hy. apply beq_eq in Hy. exact Hy.
  - apply beq_refl.
Qed.

Lemma identical_reusable : forall des ids c, NoDup (map e_dir des) -> In c des -> reusable des ids c = true.
Proof.
  intros des ids c ND Hin. unfold reusable. rewrite (desired_lookup_found des c ND Hin).
  assert (entry_eqb c c = true) as -> by (apply entry_eqb_eq; reflexivity). apply orb_true_r.
Qed.

(* ------------------------------------------------------------------ what is present after the update *)

Lemma NoDup_map_inj : forall {A B} (f : A -> B) l a b, NoDup (map f l) -> In a l -> In b l -> f a = f b -> a = b.
Proof.
  intros A B f l a b. induction l as [|x l IH]; intros ND Ha Hb E; [destruct Ha|].
  cbn [map] in ND. inversion ND as [|? ? Hn ND']; subst.
  destruct Ha as [-> | Ha]; destruct Hb as [-> | Hb]; auto.
  - exfalso. apply Hn. rewrite E. apply in_map. exact Hb.
  - exfalso. apply Hn. rewrite <- E. apply in_map. exact Ha.
Qed.

Lemma reuse_scan_sound : forall des ids l skip i,
  In i (reuse_scan des ids skip l) -> exists c, In c l /\ id_of c = i /\ reusable des ids c = true.
Proof.
  induction l as [|x l IH]; intros skip i H; [destruct H|].
  cbn [reuse_scan] in H.
  destruct (negb (is_nil_b skip) && has_prefix skip (e_dir x)).
  - destruct (IH _ _ H) as (c & Hc & E & R). exists c. auto with datatypes.
  - destruct (reusable des ids x) eqn:E2.
    + destruct H as [<- | H]; [exists x; auto with datatypes|].
      destruct (IH _ _ H) as (c & Hc & E & R). exists c. auto with datatypes.
    + destruct (IH _ _ H) as (c & Hc & E & R). exists c. auto with datatypes.
Qed.

Lemma mem_In : forall x l, mem x l = true <-> In x l.
Proof.
  intros x l. unfold mem. rewrite existsb_exists. split.
  - intros (y & Hy & E). apply beq_eq in E. subst. exact Hy.
  - intro H. exists x. split; [exact H | apply beq_refl].
Qed.

Lemma nodup_b_In : forall l x, In x (nodup_b l) <-> In x l.
Proof.
  induction l as [|y l IH]; intro x; [reflexivity|]. cbn [nodup_b].
  destruct (mem y l) eqn:E.
  - rewrite IH. split; [auto with datatypes|]. intros [-> | H]; [apply mem_In; exact E | exact H].
  - cbn [In]. rewrite IH. reflexivity.
Qed.

(* the mount list is a rearrangement of the not reused desired entries: nothing is lost, nothing is invented *)
Lemma mount_order_In : forall fs dnr x, In x (mount_order fs dnr) <-> In x dnr.
Proof.
  intros fs dnr x. unfold mount_order. rewrite in_app_iff, isort_In, filter_In, in_concat.
  split.
  - intros [[H _] | (l & Hl & Hx)]; [exact H|].
    apply in_map_iff in Hl as (d & <- & Hd). apply isort_In in Hx. apply filter_In in Hx as [Hx _].
    apply filter_In in Hx as [Hx _]. exact Hx.
  - intro H. destruct (is_overname x || exists_as fs x) eqn:E; [left; auto|].
    right. exists (isort less_origin (filter (fun e => beq (mimic_dir fs e) (mimic_dir fs x))
                    (filter (fun e => negb (is_overname e) && negb (exists_as fs e)) dnr))).
    assert (In x (filter (fun e => negb (is_overname e) && negb (exists_as fs e)) dnr)) as Hm.
    { apply filter_In. split; [exact H|]. apply orb_false_iff in E as [-> ->]. reflexivity. }
    split.
    + apply in_map_iff. exists (mimic_dir fs x). split; [reflexivity|].
      apply isort_In, nodup_b_In, in_map. exact Hm.
    + apply isort_In, filter_In. split; [exact Hm | apply beq_refl].
Qed.

Lemma keep_in_part : forall reuse cur (x : entry),
  In (Keep, x) (unmount_part reuse cur) <-> In x cur /\ id_mem (id_of x) reuse = true.
Proof.
  intros reuse cur x. unfold unmount_part. rewrite in_map_iff. split.
  - intros (e & E & He). apply in_rev in He. destruct (id_mem (id_of e) reuse) eqn:M; inversion E; subst. auto.
  - intros [H M]. exists x. rewrite M. split; [reflexivity | apply in_rev; rewrite rev_involutive; exact H].
Qed.

Lemma mount_not_in_part : forall reuse cur (x : entry), ~ In (Mount, x) (unmount_part reuse cur).
Proof.
  intros reuse cur x H. unfold unmount_part in H. apply in_map_iff in H as (e & E & _).
  destruct (id_mem (id_of e) reuse); discriminate.
Qed.

Lemma keep_not_in_mounts : forall ms (x : entry), ~ In (Keep, x) (map (fun e : entry => (Mount, e)) ms).
Proof. intros ms x H. apply in_map_iff in H as (e & E & _). discriminate. Qed.

Section Present.
  Variables (fs : fsor) (current desired : list entry).
  Let cur := map clean_entry current.
  Let des := isort less_origin (map clean_entry desired).
  Let ids := map x_entry_id des.
  Let nc := needed_changes fs current desired.

  (* distinct desired mount points *)
  Hypothesis H1 : NoDup (map e_dir des).

  Lemma reusable_cases : forall c, reusable des ids c = true -> is_helper ids c = true \/ In c des.
  Proof.
    intros c R. unfold reusable in R. apply orb_true_iff in R as [R | R].
    - left. exact R.
    - right. destruct (desired_lookup des (e_dir c)) as [d|] eqn:L; [|discriminate].
      apply entry_eqb_eq in R. subst d. unfold desired_lookup in L. apply find_some in L as [L _].
      apply in_rev. exact L.
  Qed.

  (* every desired entry is there afterwards: mounted now, or kept from before. Needs: no different helper entry
     of the current profile occupies its (dir, type) *)
  Theorem desired_present : forall d, In d des ->
    (forall c, In c cur -> is_helper ids c = true -> id_of c = id_of d -> c = d) ->
    In (Mount, d) nc \/ In (Keep, d) nc.
  Proof.
    intros d Hd H3. unfold nc, needed_changes. fold cur des.
    destruct (id_mem (id_of d) (reuse_of current desired)) eqn:M.
    - right. apply in_or_app. left. apply keep_in_part. split; [|exact M].
      apply id_mem_In in M. unfold reuse_of in M. fold cur des ids in M.
      apply reuse_scan_sound in M as (c & Hc & E & R). apply isort_In in Hc.
      assert (c = d) as ->; [|exact Hc].
      destruct (reusable_cases c R) as [Hh | Hin]; [apply H3; auto|].
      apply (NoDup_map_inj e_dir des); auto. unfold id_of in E. congruence.
    - left. apply in_or_app. right. apply in_map. apply mount_order_In. apply filter_In. rewrite M. auto.
  Qed.

  (* nothing else is mounted *)
  Theorem mounted_are_desired : forall x, In (Mount, x) nc -> In x des.
  Proof.
    intros x H. unfold nc, needed_changes in H. apply in_app_or in H as [H | H].
    - exfalso. eapply mount_not_in_part. exact H.
    - apply in_map_iff in H as (e & E & He). inversion E; subst. apply mount_order_In in He.
      apply filter_In in He as [He _]. exact He.
  Qed.

  (* what is kept was there before and is a desired entry or a helper whose needed-by entry is still desired.
     Needs: distinct (dir, type) in the current profile *)
  Theorem kept_are_wanted : NoDup (map id_of cur) ->
    forall x, In (Keep, x) nc -> In x cur /\ (In x des \/ is_helper ids x = true).
  Proof.
    intros H2 x H. unfold nc, needed_changes in H. apply in_app_or in H as [H | H];
      [|exfalso; eapply keep_not_in_mounts; exact H].
    apply keep_in_part in H as [Hx M]. split; [exact Hx|].
    apply id_mem_In in M. unfold reuse_of in M.
    apply reuse_scan_sound in M as (c & Hc & E & R). apply isort_In in Hc.
    assert (c = x) as -> by (apply (NoDup_map_inj id_of cur); auto).
    destruct (reusable_cases x R); auto.
  Qed.
End Present.

(* ------------------------------------------------------------------ the order of the mounts *)

Lemma blt_prefix : forall a r, r <> [] -> blt a (a ++ r) = true.
Proof.
  induction a as [|x a IH]; intros r Hr; cbn [app blt].
  - destruct r; [congruence | reflexivity].
  - rewrite N.ltb_irrefl. apply IH. exact Hr.
Qed.

Lemma has_prefix_split : forall p l, has_prefix p l = true -> exists r, l = p ++ r.
Proof.
  induction p as [|x p IH]; intros l H; [exists l; reflexivity|].
  destruct l as [|y l]; [discriminate|]. cbn [has_prefix] in H. apply andb_true_iff in H as [E H].
  apply N.eqb_eq in E. subst y. destruct (IH l H) as (r & ->). exists r. reflexivity.
Qed.

Lemma with_slash_skip : forall d, with_slash d = skip_prefix_of d.
Proof.
  intro d. unfold with_slash, skip_prefix_of, has_suffix_slash.
  destruct (rev d) as [|c r] eqn:E; [reflexivity|].
  destruct (c =? slash) eqn:C; [|reflexivity].
  apply N.eqb_eq in C. subst c.
  assert (d = rev r ++ [slash]) as -> by (rewrite <- (rev_involutive d), E; reflexivity).
  rewrite removelast_last. reflexivity.
Qed.

(* the lexicographic lemma behind the trailing slash trick: an entry beneath another one (its directory starts with
   the other directory plus a slash) sorts strictly after it by directory-with-slash, unless the two keys coincide *)
Theorem beneath_dir_lt : forall c p,
  beneath c p = true -> with_slash (e_dir p) <> with_slash (e_dir c) -> dir_lt p c = true.
Proof.
  intros c p B Hne. unfold beneath in B. unfold dir_lt. rewrite <- with_slash_skip in B.
  apply has_prefix_split in B as (r & E).
  set (P := with_slash (e_dir p)) in *.
  unfold with_slash at 1. rewrite E.
  destruct (has_suffix_slash (P ++ r)) eqn:S.
  - destruct r as [|x r]; [|apply blt_prefix; discriminate].
    exfalso. apply Hne. unfold with_slash at 1. rewrite E, S. rewrite app_nil_r. reflexivity.
  - rewrite <- app_assoc. apply blt_prefix. destruct r; discriminate.
Qed.

(* entries that can be mounted where they are (or come from an overname) are all mounted before the entries
   that first need a writable mimic *)
Theorem independent_before_mimic : forall fs current desired m1 m2,
  In (Mount, m1) (needed_changes fs current desired) -> In (Mount, m2) (needed_changes fs current desired) ->
  is_overname m1 || exists_as fs m1 = true -> is_overname m2 || exists_as fs m2 = false ->
  precedes (Mount, m1) (Mount, m2) (needed_changes fs current desired).
Proof.
  intros fs current desired m1 m2 I1 I2 E1 E2. unfold needed_changes in *.
  apply in_app_or in I1 as [I1 | I1]; [exfalso; eapply mount_not_in_part; exact I1|].
  apply in_app_or in I2 as [I2 | I2]; [exfalso; eapply mount_not_in_part; exact I2|].
  apply precedes_app_r.
  apply in_map_iff in I1 as (a & Ea & Ia). inversion Ea; subst a.
  apply in_map_iff in I2 as (b & Eb & Ib). inversion Eb; subst b.
  apply (precedes_map (fun e => (Mount, e))).
  unfold mount_order in *. apply in_app_or in Ia as [Ia | Ia]; apply in_app_or in Ib as [Ib | Ib].
  - apply isort_In, filter_In in Ib as [_ Ib]. congruence.
  - apply precedes_split; assumption.
  - exfalso. apply in_concat in Ia as (l & Hl & Hx). apply in_map_iff in Hl as (d & <- & _).
    apply isort_In, filter_In in Hx as [Hx _]. apply filter_In in Hx as [_ Hx].
    apply orb_true_iff in E1. apply andb_true_iff in Hx as [X1 X2]. destruct E1 as [E1 | E1]; rewrite E1 in *; discriminate.
  - exfalso. apply in_concat in Ia as (l & Hl & Hx). apply in_map_iff in Hl as (d & <- & _).
    apply isort_In, filter_In in Hx as [Hx _]. apply filter_In in Hx as [_ Hx].
    apply orb_true_iff in E1. apply andb_true_iff in Hx as [X1 X2]. destruct E1 as [E1 | E1]; rewrite E1 in *; discriminate.
Qed.

(* ------------------------------------------------------------------ insertion sort: sorted; the mount order *)

Section Sorted.
  Context {A : Type} (lt : A -> A -> bool).
  Hypothesis asym : forall a b, lt a b = true -> lt b a = false.
  Hypothesis negtrans : forall a b c, lt a b = false -> lt b c = false -> lt a c = false.

  (* descending: nothing is less than anything after it *)
  Fixpoint desc (l : list A) : Prop :=
    match l with [] => True | y :: r => Forall (fun z => lt y z = false) r /\ desc r end.

  Lemma ins_rev_desc : forall x racc, desc racc -> desc (ins_rev lt x racc).
  Proof.
    induction racc as [|y r IH]; intros D; cbn [ins_rev]; [cbn; auto|].
    destruct D as [F D]. destruct (lt x y) eqn:E.
    - cbn [desc]. split; [|apply IH; exact D].
      eapply Permutation_Forall; [apply Permutation_sym, ins_rev_perm|].
      constructor; [apply asym; exact E | exact F].
    - cbn [desc]. split; [|split; assumption].
      constructor; [exact E|]. rewrite Forall_forall in *. intros z Hz. eapply negtrans; [exact E | apply F; exact Hz].
  Qed.

  Lemma fold_ins_desc : forall l racc, desc racc -> desc (fold_left (fun racc x => ins_rev lt x racc) l racc).
  Proof. induction l as [|x l IH]; intros racc D; cbn [fold_left]; [exact D | apply IH, ins_rev_desc, D]. Qed.

  Lemma desc_precedes : forall l a b, desc l -> precedes a b l -> lt a b = false.
  Proof.
    induction l as [|y r IH]; intros a b D (l1 & l2 & l3 & E).
    - destruct l1; discriminate.
    - destruct D as [F D]. destruct l1 as [|z l1]; cbn [app] in E; inversion E; subst.
      + rewrite Forall_forall in F. apply F. apply in_or_app. right. left. reflexivity.
      + apply IH; [exact D|]. exists l1, l2, l3. reflexivity.
  Qed.

  Lemma in_two : forall (l : list A) a b, In a l -> In b l -> a = b \/ precedes a b l \/ precedes b a l.
  Proof.
    induction l as [|y r IH]; intros a b Ha Hb; [destruct Ha|].
    destruct Ha as [-> | Ha]; destruct Hb as [-> | Hb].
    - left. reflexivity.
    - right. left. apply in_split in Hb as (r1 & r2 & ->). exists [], r1, r2. reflexivity.
    - right. right. apply in_split in Ha as (r1 & r2 & ->). exists [], r1, r2. reflexivity.
    - destruct (IH a b Ha Hb) as [E | [(l1 & l2 & l3 & ->) | (l1 & l2 & l3 & ->)]]; [left; exact E | right; left | right; right];
        exists (y :: l1), l2, l3; reflexivity.
  Qed.

  (* in the sorted list, a strictly smaller element comes first *)
  Theorem isort_precedes : forall l a b, In a l -> In b l -> lt a b = true -> precedes a b (isort lt l).
  Proof.
    intros l a b Ha Hb E.
    assert (D : desc (fold_left (fun racc x => ins_rev lt x racc) l [])) by (apply fold_ins_desc; exact I).
    destruct (in_two (isort lt l) a b) as [<- | [P | P]]; try (apply isort_In; assumption).
    - rewrite (asym _ _ E) in E. discriminate.
    - exact P.
    - exfalso. unfold isort in P. apply precedes_rev in P. rewrite rev_involutive in P.
      rewrite (desc_precedes _ _ _ D P) in E. discriminate.
  Qed.
End Sorted.

(* ---- byOriginAndMountPoint.Less is rank, then key *)
Lemma blt_irrefl : forall a, blt a a = false.
Proof. induction a as [|x a IH]; [reflexivity|]. cbn [blt]. rewrite N.ltb_irrefl. exact IH. Qed.

Lemma blt_asym : forall a b, blt a b = true -> blt b a = false.
Proof.
  induction a as [|x a IH]; intros [|y b] H; cbn [blt] in *; try discriminate; try reflexivity.
  destruct (x <? y) eqn:E1.
  - assert (y <? x = false) as -> by lia. replace (x <? y) with true. reflexivity.
  - destruct (y <? x) eqn:E2; [discriminate|]. apply IH. exact H.
Qed.

Lemma blt_negtrans : forall a b c, blt a b = false -> blt b c = false -> blt a c = false.
Proof.
  induction a as [|x a IH]; intros [|y b] [|z c] H1 H2; cbn [blt] in *; try discriminate; try reflexivity.
  destruct (x <? y) eqn:E1; [discriminate|].
  destruct (y <? z) eqn:E2; [discriminate|].
  destruct (y <? x) eqn:E3.
  - assert (x <? z = false) as -> by lia. assert (z <? x = true) as -> by lia. reflexivity.
  - destruct (z <? y) eqn:E4.
    + assert (x <? z = false) as -> by lia. assert (z <? x = true) as -> by lia. reflexivity.
    + assert (x <? z = false) as -> by lia. assert (z <? x = false) as -> by lia. eapply IH; eassumption.
Qed.

Definition rank (e : entry) : N := if is_overname e then 0 else if is_layout e then 2 else 1.

Lemma overname_not_layout : forall e, is_overname e = true -> is_layout e = false.
Proof.
  intros e H. unfold is_overname, is_layout in *. apply beq_eq in H. rewrite H. reflexivity.
Qed.

Lemma less_origin_rank : forall a b,
  less_origin a b = (rank a <? rank b) || ((rank a =? rank b) && dir_lt a b).
Proof.
  intros a b. unfold less_origin, rank.
  destruct (beq (x_origin a) (x_origin b)) eqn:E; cbn [negb].
  - apply beq_eq in E. unfold is_overname, is_layout. rewrite E.
    destruct (beq (x_origin b) s_overname); [reflexivity|]. destruct (beq (x_origin b) s_layout); reflexivity.
  - destruct (is_overname a) eqn:Oa.
    + destruct (is_overname b) eqn:Ob.
      * exfalso. unfold is_overname in *. apply beq_eq in Oa, Ob. rewrite Oa, Ob, beq_refl in E. discriminate.
      * destruct (is_layout b); reflexivity.
    + destruct (is_overname b) eqn:Ob; [destruct (is_layout a); reflexivity|].
      destruct (is_layout a) eqn:La.
      * destruct (is_layout b) eqn:Lb; [|reflexivity].
        exfalso. unfold is_layout in *. apply beq_eq in La, Lb. rewrite La, Lb, beq_refl in E. discriminate.
      * destruct (is_layout b); reflexivity.
Qed.

Lemma less_origin_asym : forall a b, less_origin a b = true -> less_origin b a = false.
Proof.
  intros a b. rewrite !less_origin_rank. unfold dir_lt. intro H.
  destruct (rank a <? rank b) eqn:E1.
  - assert (rank b <? rank a = false) as -> by lia. assert (rank b =? rank a = false) as -> by lia. reflexivity.
  - cbn [orb] in H. apply andb_true_iff in H as [H1 H2].
    assert (rank b <? rank a = false) as -> by lia. rewrite (blt_asym _ _ H2). apply andb_false_r.
Qed.

Lemma less_origin_negtrans : forall a b c, less_origin a b = false -> less_origin b c = false -> less_origin a c = false.
Proof.
  intros a b c. rewrite !less_origin_rank. unfold dir_lt. intros H1 H2.
  apply orb_false_iff in H1 as [A1 A2]. apply orb_false_iff in H2 as [B1 B2].
  apply orb_false_iff. split; [lia|].
  destruct (rank a =? rank c) eqn:E; [|reflexivity]. cbn [andb].
  assert (rank a =? rank b = true) as Eab by lia. assert (rank b =? rank c = true) as Ebc by lia.
  rewrite Eab in A2. rewrite Ebc in B2. cbn [andb] in *. eapply blt_negtrans; eassumption.
Qed.

Lemma precedes_concat_in : forall {A} (gs : list (list A)) g a b, In g gs -> precedes a b g -> precedes a b (concat gs).
Proof.
  intros A gs g a b Hg P. apply in_split in Hg as (g1 & g2 & ->).
  rewrite concat_app. cbn [concat]. apply precedes_app_r, precedes_app_l. exact P.
Qed.

Lemma precedes_concat_groups : forall {A} (gs : list (list A)) g1 g2 a b,
  precedes g1 g2 gs -> In a g1 -> In b g2 -> precedes a b (concat gs).
Proof.
  intros A gs g1 g2 a b (l1 & l2 & l3 & ->) Ha Hb.
  rewrite concat_app. cbn [concat]. apply precedes_app_r.
  rewrite concat_app. cbn [concat].
  apply precedes_split; [exact Ha|]. apply in_or_app. right. apply in_or_app. left. exact Hb.
Qed.

Lemma same_origin_less : forall m1 m2, x_origin m1 = x_origin m2 -> dir_lt m1 m2 = true -> less_origin m1 m2 = true.
Proof.
  intros m1 m2 E D. rewrite less_origin_rank. unfold rank, is_overname, is_layout. rewrite E, D.
  rewrite N.eqb_refl. apply orb_true_r.
Qed.

(* among the mounts, an entry comes before every entry of the same origin beneath it; hypotheses: the two sort keys
   differ (distinct cleaned mount points), existing targets are closed under containment for this pair, and the
   mimic roots of the pair are equal or ordered like the directories (true for an oracle closed under ancestors) *)
Theorem mount_parent_first : forall fs current desired m1 m2,
  let nc := needed_changes fs current desired in
  In (Mount, m1) nc -> In (Mount, m2) nc ->
  x_origin m1 = x_origin m2 -> beneath m2 m1 = true -> with_slash (e_dir m1) <> with_slash (e_dir m2) ->
  (is_overname m2 || exists_as fs m2 = true -> is_overname m1 || exists_as fs m1 = true) ->
  (mimic_dir fs m1 = mimic_dir fs m2 \/ blt (mimic_dir fs m1) (mimic_dir fs m2) = true) ->
  precedes (Mount, m1) (Mount, m2) nc.
Proof.
  intros fs current desired m1 m2 nc I1 I2 EO B Hne Hcl Hm.
  assert (L : less_origin m1 m2 = true) by (apply same_origin_less; [exact EO | apply beneath_dir_lt; assumption]).
  destruct (is_overname m2 || exists_as fs m2) eqn:X2; [|destruct (is_overname m1 || exists_as fs m1) eqn:X1].
  3: { (* both need a mimic *)
    unfold nc, needed_changes in *.
    apply in_app_or in I1 as [I1 | I1]; [exfalso; eapply mount_not_in_part; exact I1|].
    apply in_app_or in I2 as [I2 | I2]; [exfalso; eapply mount_not_in_part; exact I2|].
    apply precedes_app_r.
    apply in_map_iff in I1 as (a & Ea & Ia). inversion Ea; subst a.
    apply in_map_iff in I2 as (b & Eb & Ib). inversion Eb; subst b.
    apply (precedes_map (fun e => (Mount, e))).
    apply mount_order_In in Ia. apply mount_order_In in Ib.
    unfold mount_order. apply precedes_app_r.
    set (dnr := filter (fun e => negb (id_mem (id_of e) (reuse_of current desired))) (isort less_origin (map clean_entry desired))) in *.
    set (mimics := filter (fun e => negb (is_overname e) && negb (exists_as fs e)) dnr).
    assert (M1 : In m1 mimics) by (apply filter_In; split; [exact Ia|]; apply orb_false_iff in X1 as [-> ->]; reflexivity).
    assert (M2 : In m2 mimics) by (apply filter_In; split; [exact Ib|]; apply orb_false_iff in X2 as [-> ->]; reflexivity).
    set (G := fun d => isort less_origin (filter (fun e => beq (mimic_dir fs e) d) mimics)).
    set (mdirs := isort blt (nodup_b (map (mimic_dir fs) mimics))).
    assert (D1 : In (mimic_dir fs m1) mdirs) by (apply isort_In, nodup_b_In, in_map; exact M1).
    assert (D2 : In (mimic_dir fs m2) mdirs) by (apply isort_In, nodup_b_In, in_map; exact M2).
    assert (G1 : In m1 (G (mimic_dir fs m1))) by (apply isort_In, filter_In; split; [exact M1 | apply beq_refl]).
    assert (G2 : In m2 (G (mimic_dir fs m2))) by (apply isort_In, filter_In; split; [exact M2 | apply beq_refl]).
    change (precedes m1 m2 (concat (map G mdirs))).
    destruct Hm as [Hm | Hm].
    - apply (precedes_concat_in _ (G (mimic_dir fs m1))); [apply in_map; exact D1|].
      apply isort_precedes; [apply less_origin_asym | apply less_origin_negtrans | | | exact L].
      + apply filter_In; split; [exact M1 | apply beq_refl].
      + apply filter_In; split; [exact M2 | rewrite Hm; apply beq_refl].
    - apply (precedes_concat_groups _ (G (mimic_dir fs m1)) (G (mimic_dir fs m2))); [|exact G1 | exact G2].
      apply precedes_map. apply isort_precedes; [apply blt_asym | apply blt_negtrans | | | exact Hm].
      + apply nodup_b_In, in_map; exact M1.
      + apply nodup_b_In, in_map; exact M2. }
  - (* m2 can be mounted in place, hence m1 too: both in the sorted independent part *)
    specialize (Hcl eq_refl).
    unfold nc, needed_changes in *.
    apply in_app_or in I1 as [I1 | I1]; [exfalso; eapply mount_not_in_part; exact I1|].
    apply in_app_or in I2 as [I2 | I2]; [exfalso; eapply mount_not_in_part; exact I2|].
    apply precedes_app_r.
    apply in_map_iff in I1 as (a & Ea & Ia). inversion Ea; subst a.
    apply in_map_iff in I2 as (b & Eb & Ib). inversion Eb; subst b.
    apply (precedes_map (fun e => (Mount, e))).
    apply mount_order_In in Ia. apply mount_order_In in Ib.
    unfold mount_order. apply precedes_app_l.
    apply isort_precedes; [apply less_origin_asym | apply less_origin_negtrans | | | exact L];
      apply filter_In; split; assumption.
  - apply independent_before_mimic; assumption.
Qed.

(* ------------------------------------------------------------------ applying the change list; the result profile *)

Lemma detach_form_id : forall e, id_of (detach_form e) = id_of e.
Proof. intro e. unfold detach_form. destruct (_ && _); reflexivity. Qed.

Lemma remove_first_here : forall (p : entry -> bool) l e K,
  (forall x, In x l -> p x = false) -> p e = true -> remove_first p (l ++ e :: K) = Some (l ++ K).
Proof.
  induction l as [|y l IH]; intros e K Hl He; cbn [app remove_first].
  - rewrite He. reflexivity.
  - rewrite (Hl y (or_introl eq_refl)). rewrite IH; auto. intros x Hx. apply Hl. right. exact Hx.
Qed.

Lemma entry_eqb_refl : forall e, entry_eqb e e = true.
Proof. intro e. apply entry_eqb_eq. reflexivity. Qed.

Lemma unmount_part_snoc : forall reuse l e,
  unmount_part reuse (l ++ [e]) =
  (if id_mem (id_of e) reuse then (Keep, e) else (Unmount, detach_form e)) :: unmount_part reuse l.
Proof. intros. unfold unmount_part. rewrite rev_app_distr. reflexivity. Qed.

(* the Keep / Unmount part applies to the table step by step and leaves exactly the reused entries, in place *)
Lemma apply_unmount_part : forall reuse l K rest, NoDup (map id_of l) ->
  apply_changes (l ++ K) (unmount_part reuse l ++ rest) =
  apply_changes (filter (fun e => id_mem (id_of e) reuse) l ++ K) rest.
Proof.
  intros reuse l. induction l as [|e l IH] using rev_ind; intros K rest ND; [reflexivity|].
  rewrite unmount_part_snoc. rewrite map_app in ND. cbn [map] in ND.
  assert (ND' : NoDup (map id_of l)) by (apply NoDup_remove_1 in ND; rewrite app_nil_r in ND; exact ND).
  assert (Hne : forall x, In x l -> id_of x <> id_of e).
  { intros x Hx E. apply NoDup_remove_2 in ND. rewrite app_nil_r in ND. apply ND. rewrite <- E. apply in_map. exact Hx. }
  rewrite filter_app. cbn [filter]. rewrite <- !app_assoc. cbn [app apply_changes].
  destruct (id_mem (id_of e) reuse) eqn:M.
  - cbn [apply_change fst snd].
    assert (existsb (entry_eqb e) (l ++ e :: K) = true) as ->.
    { apply existsb_exists. exists e. split; [apply in_or_app; right; left; reflexivity | apply entry_eqb_refl]. }
    rewrite (IH (e :: K) rest ND'). cbn [app]. reflexivity.
  - cbn [apply_change fst snd].
    rewrite remove_first_here.
    + rewrite (IH K rest ND'). reflexivity.
    + intros x Hx. destruct (entry_eqb (detach_form x) (detach_form e)) eqn:E; [|reflexivity].
      apply entry_eqb_eq in E. exfalso. apply (Hne x Hx). rewrite <- (detach_form_id x), <- (detach_form_id e), E. reflexivity.
    + apply entry_eqb_refl.
Qed.

Lemma apply_mounts : forall ms tbl, apply_changes tbl (map (fun e => (Mount, e)) ms) = Some (tbl ++ ms).
Proof.
  induction ms as [|m ms IH]; intro tbl; cbn [map apply_changes]; [rewrite app_nil_r; reflexivity|].
  cbn [apply_change fst snd]. rewrite IH. rewrite <- app_assoc. reflexivity.
Qed.

Theorem apply_needed_changes : forall fs current desired,
  let cur := map clean_entry current in
  let des := isort less_origin (map clean_entry desired) in
  let reuse := reuse_of current desired in
  NoDup (map id_of cur) ->
  apply_changes cur (needed_changes fs current desired) =
  Some (filter (fun e => id_mem (id_of e) reuse) cur ++
        mount_order fs (filter (fun e => negb (id_mem (id_of e) reuse)) des)).
Proof.
  intros fs current desired cur des reuse ND. unfold needed_changes. fold cur des reuse.
  rewrite <- (app_nil_r cur) at 1. rewrite apply_unmount_part by exact ND. rewrite app_nil_r. apply apply_mounts.
Qed.

(* --- the mount list is a permutation of the not reused desired entries --- *)

Lemma filter_partition_perm : forall {A} (p : A -> bool) l, Permutation l (filter p l ++ filter (fun x => negb (p x)) l).
Proof.
  intros A p l. induction l as [|x l IH]; [apply Permutation_refl|]. cbn [filter].
  destruct (p x); cbn [negb app]; [apply perm_skip, IH|].
  eapply Permutation_trans; [apply perm_skip, IH | apply Permutation_middle].
Qed.

Lemma filter_disjoint_or : forall {A} (p q : A -> bool) l, (forall x, In x l -> p x = true -> q x = false) ->
  Permutation (filter p l ++ filter q l) (filter (fun x => p x || q x) l).
Proof.
  intros A p q l. induction l as [|x l IH]; intros H; [apply Permutation_refl|]. cbn [filter].
  assert (IH' := IH (fun y Hy => H y (or_intror Hy))).
  destruct (p x) eqn:P.
  - rewrite (H x (or_introl eq_refl) P). cbn [orb app]. apply perm_skip, IH'.
  - cbn [orb]. destruct (q x); [|exact IH'].
    eapply Permutation_trans; [apply Permutation_sym, Permutation_middle | apply perm_skip, IH'].
Qed.

Lemma filter_ext_in' : forall {A} (p q : A -> bool) l, (forall x, In x l -> p x = q x) -> filter p l = filter q l.
Proof.
  intros A p q l. induction l as [|x l IH]; intros H; [reflexivity|]. cbn [filter].
  rewrite (H x (or_introl eq_refl)), IH; [reflexivity|]. intros y Hy. apply H. right. exact Hy.
Qed.

Lemma group_concat_perm : forall (key : entry -> bytes) l keys, NoDup keys ->
  Permutation (concat (map (fun d => filter (fun e => beq (key e) d) l) keys)) (filter (fun e => mem (key e) keys) l).
Proof.
  intros key l keys. induction keys as [|k ks IH]; intros ND.
  - cbn. induction l; [constructor | exact IHl].
  - inversion ND as [|? ? Hk ND']; subst. cbn [map concat].
    eapply Permutation_trans; [apply Permutation_app_head, (IH ND')|].
    eapply Permutation_trans; [apply filter_disjoint_or|].
    + intros x _ E. apply beq_eq in E. destruct (mem (key x) ks) eqn:M; [|reflexivity].
      apply mem_In in M. rewrite E in M. contradiction.
    + apply Permutation_refl.
Qed.

Lemma nodup_b_NoDup : forall l, NoDup (nodup_b l).
Proof.
  induction l as [|x l IH]; [constructor|]. cbn [nodup_b]. destruct (mem x l) eqn:M; [exact IH|].
  constructor; [|exact IH]. intro H. apply (proj1 (nodup_b_In l x)) in H. apply (proj2 (mem_In x l)) in H. congruence.
Qed.

Lemma filter_all : forall {A} (p : A -> bool) l, (forall x, In x l -> p x = true) -> filter p l = l.
Proof.
  intros A p l. induction l as [|x l IH]; intros H; [reflexivity|]. cbn [filter].
  rewrite (H x (or_introl eq_refl)), IH; [reflexivity|]. intros y Hy. apply H. right. exact Hy.
Qed.

Lemma concat_perm : forall {A} (f g : bytes -> list A) keys, (forall d, Permutation (f d) (g d)) ->
  Permutation (concat (map f keys)) (concat (map g keys)).
Proof.
  intros A f g keys H. induction keys as [|k ks IH]; [constructor|]. cbn [map concat].
  apply Permutation_app; [apply H | exact IH].
Qed.

Theorem mount_order_perm : forall fs dnr, Permutation (mount_order fs dnr) dnr.
Proof.
  intros fs dnr. unfold mount_order.
  set (ind := filter (fun e => is_overname e || exists_as fs e) dnr).
  set (mimics := filter (fun e => negb (is_overname e) && negb (exists_as fs e)) dnr).
  set (mdirs := isort blt (nodup_b (map (mimic_dir fs) mimics))).
  eapply Permutation_trans; [|apply Permutation_sym, (filter_partition_perm (fun e => is_overname e || exists_as fs e))].
  apply Permutation_app; [apply isort_perm|].
  assert (filter (fun x => negb (is_overname x || exists_as fs x)) dnr = mimics) as ->.
  { apply filter_ext_in'. intros x _. apply negb_orb. }
  eapply Permutation_trans; [apply concat_perm; intro d; apply isort_perm|].
  eapply Permutation_trans; [apply group_concat_perm|].
  - apply (Permutation_NoDup (l := nodup_b (map (mimic_dir fs) mimics))); [apply Permutation_sym, isort_perm | apply nodup_b_NoDup].
  - rewrite filter_all; [apply Permutation_refl|]. intros x Hx. apply mem_In. apply isort_In, nodup_b_In, in_map. exact Hx.
Qed.

(* --- the result profile --- *)

Lemma existsb_entry_In : forall x l, existsb (entry_eqb x) l = true <-> In x l.
Proof.
  intros x l. rewrite existsb_exists. split.
  - intros (y & Hy & E). apply entry_eqb_eq in E. subst. exact Hy.
  - intro H. exists x. split; [exact H | apply entry_eqb_refl].
Qed.

Lemma NoDup_of_map : forall {A B} (f : A -> B) l, NoDup (map f l) -> NoDup l.
Proof.
  intros A B f l. induction l as [|x l IH]; intros H; [constructor|]. cbn [map] in H. inversion H; subst.
  constructor; [|apply IH; assumption]. intro Hx. apply H2. apply in_map. exact Hx.
Qed.

Lemma NoDup_filter' : forall {A} (p : A -> bool) l, NoDup l -> NoDup (filter p l).
Proof.
  intros A p l. induction l as [|x l IH]; intros H; [constructor|]. inversion H; subst. cbn [filter].
  destruct (p x); [|apply IH; assumption]. constructor; [|apply IH; assumption].
  intro Hx. apply filter_In in Hx as [Hx _]. contradiction.
Qed.

(* Applying the computed changes to the current mount table succeeds, and the table afterwards is, as a multiset, the
   desired entries plus kept entries of the current profile that are not desired, each of which is a helper whose
   needed-by entry is still desired (or the rootfs). Hypotheses: distinct desired mount points, distinct (dir, type) in
   the current profile, and no desired entry on the (dir, type) of a different helper of the current profile. *)
Theorem result_profile : forall fs current desired,
  let cur := map clean_entry current in
  let des := isort less_origin (map clean_entry desired) in
  let ids := map x_entry_id des in
  NoDup (map e_dir des) -> NoDup (map id_of cur) ->
  (forall d c, In d des -> In c cur -> is_helper ids c = true -> id_of c = id_of d -> c = d) ->
  exists tbl extra,
    apply_changes cur (needed_changes fs current desired) = Some tbl /\
    Permutation tbl (des ++ extra) /\
    (forall x, In x extra -> In x cur /\ is_helper ids x = true /\ In (Keep, x) (needed_changes fs current desired)).
Proof.
  intros fs current desired cur des ids H1 H2 H3.
  set (reuse := reuse_of current desired).
  set (K := filter (fun e => id_mem (id_of e) reuse) cur).
  set (dnr := filter (fun e => negb (id_mem (id_of e) reuse)) des).
  set (extra := filter (fun c => negb (existsb (entry_eqb c) des)) K).
  exists (K ++ mount_order fs dnr), extra. split; [apply apply_needed_changes; exact H2|].
  assert (Kkeep : forall x, In x K -> In (Keep, x) (needed_changes fs current desired)).
  { intros x Hx. apply filter_In in Hx as [Hx M]. unfold needed_changes. apply in_or_app. left.
    apply keep_in_part. split; [exact Hx | exact M]. }
  split.
  - (* K = (K in des) + extra ; (K in des) = reused desired ; mounts = not reused desired *)
    eapply Permutation_trans; [apply Permutation_app; [apply (filter_partition_perm (fun c => existsb (entry_eqb c) des)) | apply mount_order_perm]|].
    fold extra.
    assert (P : Permutation (filter (fun c => existsb (entry_eqb c) des) K) (filter (fun e => id_mem (id_of e) reuse) des)).
    { apply NoDup_Permutation.
      - apply NoDup_filter', NoDup_filter', (NoDup_of_map id_of). exact H2.
      - apply NoDup_filter', (NoDup_of_map e_dir). exact H1.
      - intro x. rewrite !filter_In. split.
        + intros [Hk Hd]. apply existsb_entry_In in Hd. apply filter_In in Hk as [_ M]. auto.
        + intros [Hd M]. split; [|apply existsb_entry_In; exact Hd].
          destruct (desired_present fs current desired H1 x Hd) as [Hm | Hk].
          * intros c Hc Hh E. apply (H3 x c); assumption.
          * exfalso. unfold needed_changes in Hm. apply in_app_or in Hm as [Hm | Hm]; [eapply mount_not_in_part; exact Hm|].
            apply in_map_iff in Hm as (e & E & He). inversion E; subst e. apply mount_order_In in He.
            apply filter_In in He as [_ He]. fold reuse in He. rewrite M in He. discriminate.
          * unfold needed_changes in Hk. apply in_app_or in Hk as [Hk | Hk]; [|exfalso; eapply keep_not_in_mounts; exact Hk].
            apply keep_in_part in Hk as [Hc M']. apply filter_In. split; [exact Hc | exact M]. }
    eapply Permutation_trans; [apply Permutation_app_tail, Permutation_app_tail, P|].
    eapply Permutation_trans; [|apply Permutation_app_tail, Permutation_sym, (filter_partition_perm (fun e => id_mem (id_of e) reuse) des)].
    fold dnr. rewrite <- !app_assoc. apply Permutation_app_head. apply Permutation_app_comm.
  - intros x Hx. apply filter_In in Hx as [Hk Hnd]. specialize (Kkeep x Hk).
    destruct (kept_are_wanted fs current desired H2 x Kkeep) as [Hc [Hd | Hh]]; [|auto].
    apply existsb_entry_In in Hd. fold des in Hd. rewrite Hd in Hnd. discriminate.
Qed.

(* the hypothesis about helpers is needed: a desired tmpfs on the directory of a still-needed writable mimic is
   neither mounted nor kept *)
(* ------------------------------------------------------------------ nothing beneath an unmounted entry is kept *)

Lemma isort_sorted_pair : forall {A} (lt : A -> A -> bool),
  (forall a b, lt a b = true -> lt b a = false) ->
  (forall a b c, lt a b = false -> lt b c = false -> lt a c = false) ->
  forall l a b, precedes a b (isort lt l) -> lt b a = false.
Proof.
  intros A lt asym negtrans l a b H. unfold isort in H. apply precedes_rev in H. rewrite rev_involutive in H.
  eapply desc_precedes; [exact (fold_ins_desc lt asym negtrans l [] I) | exact H].
Qed.

Definition rk (e : entry) : N := if is_overname e then 0 else 1.

Lemma less_overname_rank : forall a b,
  less_overname a b = (rk a <? rk b) || ((rk a =? rk b) && dir_lt a b).
Proof.
  intros a b. unfold less_overname, rk.
  destruct (beq (x_origin a) (x_origin b)) eqn:E; cbn [negb].
  - apply beq_eq in E. unfold is_overname. rewrite E. destruct (beq (x_origin b) s_overname); reflexivity.
  - destruct (is_overname a) eqn:Oa.
    + destruct (is_overname b) eqn:Ob; [|reflexivity].
      exfalso. unfold is_overname in *. apply beq_eq in Oa, Ob. rewrite Oa, Ob, beq_refl in E. discriminate.
    + destruct (is_overname b); reflexivity.
Qed.

Lemma less_overname_asym : forall a b, less_overname a b = true -> less_overname b a = false.
Proof.
  intros a b. rewrite !less_overname_rank. unfold dir_lt. intro H.
  destruct (rk a <? rk b) eqn:E1.
  - assert (rk b <? rk a = false) as -> by lia. assert (rk b =? rk a = false) as -> by lia. reflexivity.
  - cbn [orb] in H. apply andb_true_iff in H as [H1 H2].
    assert (rk b <? rk a = false) as -> by lia. rewrite (blt_asym _ _ H2). apply andb_false_r.
Qed.

Lemma less_overname_negtrans : forall a b c, less_overname a b = false -> less_overname b c = false -> less_overname a c = false.
Proof.
  intros a b c. rewrite !less_overname_rank. unfold dir_lt. intros H1 H2.
  apply orb_false_iff in H1 as [A1 A2]. apply orb_false_iff in H2 as [B1 B2].
  apply orb_false_iff. split; [lia|].
  destruct (rk a =? rk c) eqn:E; [|reflexivity]. cbn [andb].
  assert (rk a =? rk b = true) as Eab by lia. assert (rk b =? rk c = true) as Ebc by lia.
  rewrite Eab in A2. rewrite Ebc in B2. cbn [andb] in *. eapply blt_negtrans; eassumption.
Qed.

(* what lies between a string and an extension of it, in the lexicographic order, starts with that string *)
Lemma blt_interval_prefix : forall P x r, blt x P = false -> blt (P ++ r) x = false -> has_prefix P x = true.
Proof.
  induction P as [|a P IH]; intros x r H1 H2; [reflexivity|].
  destruct x as [|b x]; [discriminate|]. cbn [app blt has_prefix] in *.
  destruct (b <? a) eqn:E1; [discriminate|]. destruct (a <? b) eqn:E2; [discriminate|].
  assert (a =? b = true) as -> by lia. cbn [andb]. eapply IH; eassumption.
Qed.

Lemma has_prefix_app : forall a r, has_prefix a (a ++ r) = true.
Proof. induction a as [|x a IH]; intro r; [reflexivity|]. cbn [app has_prefix]. rewrite N.eqb_refl. apply IH. Qed.

Lemma has_prefix_trans : forall a b c, has_prefix a b = true -> has_prefix b c = true -> has_prefix a c = true.
Proof.
  intros a b c H1 H2. apply has_prefix_split in H1 as (r1 & ->). apply has_prefix_split in H2 as (r2 & ->).
  rewrite <- app_assoc. apply has_prefix_app.
Qed.

Lemma with_slash_shape : forall d, exists X, with_slash d = X ++ [slash] /\ (d = X \/ d = X ++ [slash]).
Proof.
  intro d. unfold with_slash, has_suffix_slash. destruct (rev d) as [|c r] eqn:E.
  - exists d. auto.
  - destruct (c =? slash) eqn:C.
    + apply N.eqb_eq in C. subst c. exists (rev r).
      assert (d = rev r ++ [slash]) as -> by (rewrite <- (rev_involutive d), E; reflexivity). auto.
    + exists d. auto.
Qed.

Lemma dir_prefix_of_key : forall d, has_prefix d (with_slash d) = true.
Proof.
  intro d. destruct (with_slash_shape d) as (X & -> & [-> | ->]); [apply has_prefix_app|].
  rewrite <- (app_nil_r (X ++ [slash])) at 2. apply has_prefix_app.
Qed.

(* a key that starts with another key and differs from it belongs to a directory beneath the other one *)
Lemma key_prefix_beneath : forall P d, (exists P', P = P' ++ [slash]) -> has_prefix P (with_slash d) = true -> P <> with_slash d ->
  has_prefix P d = true.
Proof.
  intros P d (P' & EP) H Hne. destruct (with_slash_shape d) as (X & E & [-> | ->]).
  - rewrite E in *. apply has_prefix_split in H as (r & Hr).
    destruct (exists_last (l := r)) as (r' & z & ->).
    { intro; subst r. rewrite app_nil_r in Hr. congruence. }
    rewrite app_assoc in Hr. apply app_inj_tail in Hr as [-> _]. apply has_prefix_app.
  - rewrite E in H. exact H.
Qed.

Fixpoint skip_after (des : list entry) (ids : list bytes) (skip : bytes) (l : list entry) : bytes :=
  match l with
  | [] => skip
  | c :: r =>
      if negb (is_nil_b skip) && has_prefix skip (e_dir c) then skip_after des ids skip r
      else if reusable des ids c then skip_after des ids [] r
      else skip_after des ids (skip_prefix_of (e_dir c)) r
  end.

Lemma reuse_scan_app : forall des ids a b skip,
  reuse_scan des ids skip (a ++ b) = reuse_scan des ids skip a ++ reuse_scan des ids (skip_after des ids skip a) b.
Proof.
  induction a as [|x a IH]; intros b skip; [reflexivity|]. cbn [app reuse_scan skip_after].
  destruct (negb (is_nil_b skip) && has_prefix skip (e_dir x)); [apply IH|].
  destruct (reusable des ids x); [cbn [app]; rewrite IH; reflexivity | apply IH].
Qed.

Lemma scan_ids : forall des ids l skip i, In i (reuse_scan des ids skip l) -> In i (map id_of l).
Proof. intros des ids l skip i H. apply reuse_scan_sound in H as (c & Hc & <- & _). apply in_map. exact Hc. Qed.

Lemma scan_skip_run : forall des ids l2 rest skip, is_nil_b skip = false ->
  (forall x, In x l2 -> has_prefix skip (e_dir x) = true) ->
  reuse_scan des ids skip (l2 ++ rest) = reuse_scan des ids skip rest.
Proof.
  induction l2 as [|x l2 IH]; intros rest skip Hs H; [reflexivity|]. cbn [app reuse_scan].
  rewrite Hs, (H x (or_introl eq_refl)). cbn [negb andb]. apply IH; [exact Hs|]. intros y Hy. apply H. right. exact Hy.
Qed.

Lemma skip_prefix_nonnil : forall d, is_nil_b (skip_prefix_of d) = false.
Proof. intro d. unfold skip_prefix_of. destruct (if has_suffix_slash d then removelast d else d); reflexivity. Qed.

Lemma NoDup_app_disjoint : forall {A} (a b : list A) x, NoDup (a ++ b) -> In x a -> In x b -> False.
Proof.
  intros A a b x. induction a as [|y a IH]; intros ND Ha Hb; [destruct Ha|]. cbn [app] in ND. inversion ND; subst.
  destruct Ha as [-> | Ha]; [apply H1; apply in_or_app; right; exact Hb | apply IH; assumption].
Qed.

Lemma NoDup_app_r' : forall {A} (a b : list A), NoDup (a ++ b) -> NoDup b.
Proof. intros A a b. induction a as [|x a IH]; intro H; [exact H|]. cbn [app] in H. inversion H; subst. apply IH. assumption. Qed.

(* the scan: if everything between p and c, and c itself, lies beneath p, and p is not marked, then c is not marked *)
Lemma scan_no_mark_beneath : forall des ids l1 p l2 c l3 skip0,
  NoDup (map id_of (l1 ++ p :: l2 ++ c :: l3)) ->
  (forall x, In x l2 -> has_prefix (skip_prefix_of (e_dir p)) (e_dir x) = true) ->
  has_prefix (skip_prefix_of (e_dir p)) (e_dir c) = true ->
  ~ In (id_of p) (reuse_scan des ids skip0 (l1 ++ p :: l2 ++ c :: l3)) ->
  ~ In (id_of c) (reuse_scan des ids skip0 (l1 ++ p :: l2 ++ c :: l3)).
Proof.
  intros des ids l1 p l2 c l3 skip0 ND H2 Hc Hp Hin.
  rewrite reuse_scan_app in Hp, Hin. set (s1 := skip_after des ids skip0 l1) in *.
  rewrite map_app in ND.
  assert (Hlater : forall l, In (id_of c) (map id_of l) -> (forall y, In y l -> In y l3) -> False).
  { intros l Hl Hsub. apply in_map_iff in Hl as (y & Ey & Hy).
    (* id_of c occurs at c and again at y in l3 *)
    apply NoDup_app_r' in ND. cbn [map] in ND. inversion ND as [|? ? _ ND2]; subst.
    rewrite map_app in ND2. apply NoDup_app_r' in ND2. cbn [map] in ND2. inversion ND2 as [|? ? Hn _]; subst.
    apply Hn. rewrite <- Ey. apply in_map. apply Hsub. exact Hy. }
  apply in_app_or in Hin as [Hin | Hin].
  - apply scan_ids in Hin. eapply (NoDup_app_disjoint _ _ (id_of c) ND); [exact Hin|].
    cbn [map]. right. rewrite map_app. apply in_or_app. right. left. reflexivity.
  - cbn [reuse_scan] in Hin, Hp.
    destruct (negb (is_nil_b s1) && has_prefix s1 (e_dir p)) eqn:E1.
    + apply andb_true_iff in E1 as [N1 P1]. apply negb_true_iff in N1.
      assert (T : forall d, has_prefix (skip_prefix_of (e_dir p)) d = true -> has_prefix s1 d = true).
      { intros d Hd. eapply has_prefix_trans; [|exact Hd]. eapply has_prefix_trans; [exact P1|].
        rewrite <- with_slash_skip. apply dir_prefix_of_key. }
      rewrite scan_skip_run in Hin by (auto). cbn [reuse_scan] in Hin. rewrite N1, (T _ Hc) in Hin. cbn [negb andb] in Hin.
      apply scan_ids in Hin. apply (Hlater l3 Hin). auto.
    + destruct (reusable des ids p) eqn:R.
      * apply Hp. apply in_or_app. right. left. reflexivity.
      * rewrite scan_skip_run in Hin by (auto using skip_prefix_nonnil). cbn [reuse_scan] in Hin.
        rewrite skip_prefix_nonnil, Hc in Hin. cbn [negb andb] in Hin.
        apply scan_ids in Hin. apply (Hlater l3 Hin). auto.
Qed.

Lemma NoDup_map_comp : forall {A B C} (f : A -> B) (h : B -> C) l, NoDup (map (fun x => h (f x)) l) -> NoDup (map f l).
Proof.
  intros A B C f h l. induction l as [|x l IH]; intros H; [constructor|]. cbn [map] in *. inversion H; subst.
  constructor; [|apply IH; assumption]. intro Hx. apply H2. apply in_map_iff in Hx as (y & E & Hy).
  apply in_map_iff. exists y. split; [rewrite E; reflexivity | exact Hy].
Qed.

(* If an entry of the current profile is not kept (it is unmounted), then no entry beneath it is kept either, provided
   the two are on the same side of the overname boundary (the current entries are scanned overname-first) and no two
   current entries share a sort key. *)
Theorem no_keep_beneath_unmounted : forall fs current desired p c,
  let cur := map clean_entry current in
  NoDup (map sort_key cur) -> In p cur -> In c cur ->
  is_overname p = is_overname c -> beneath c p = true -> sort_key p <> sort_key c ->
  ~ In (Keep, p) (needed_changes fs current desired) ->
  ~ In (Keep, c) (needed_changes fs current desired).
Proof.
  intros fs current desired p c cur NDk Hp Hc Hcls B Hne Hnk Hk.
  assert (Mp : ~ In (id_of p) (reuse_of current desired)).
  { intro M. apply Hnk. unfold needed_changes. apply in_or_app. left. apply keep_in_part. split; [exact Hp | apply id_mem_In; exact M]. }
  assert (Mc : In (id_of c) (reuse_of current desired)).
  { unfold needed_changes in Hk. apply in_app_or in Hk as [Hk | Hk]; [|exfalso; eapply keep_not_in_mounts; exact Hk].
    apply keep_in_part in Hk as [_ M]. apply id_mem_In. exact M. }
  unfold reuse_of in Mp, Mc. fold cur in Mp, Mc.
  set (des := isort less_origin (map clean_entry desired)) in *. set (ids := map x_entry_id des) in *.
  set (sorted := isort less_overname cur) in *.
  assert (L : less_overname p c = true).
  { rewrite less_overname_rank. unfold rk. rewrite Hcls, N.eqb_refl. rewrite (beneath_dir_lt c p B Hne). apply orb_true_r. }
  destruct (isort_precedes less_overname less_overname_asym less_overname_negtrans cur p c Hp Hc L) as (l1 & l2 & l3 & ES).
  fold sorted in ES.
  assert (NDs : NoDup (map sort_key sorted)).
  { eapply Permutation_NoDup; [apply Permutation_map, Permutation_sym, isort_perm | exact NDk]. }
  rewrite ES in Mp, Mc, NDs.
  revert Mc. apply scan_no_mark_beneath; [| | exact B | exact Mp].
  - apply (NoDup_map_comp id_of (fun i => with_slash (fst i))). exact NDs.
  - intros x Hx. apply in_split in Hx as (m1 & m2 & ->).
    assert (P1 : precedes p x sorted) by (exists l1, m1, (m2 ++ c :: l3); rewrite ES; repeat rewrite <- app_assoc; cbn [app]; repeat rewrite <- app_assoc; reflexivity).
    assert (P2 : precedes x c sorted).
    { exists (l1 ++ p :: m1), m2, l3. rewrite ES. repeat rewrite <- app_assoc. cbn [app]. repeat rewrite <- app_assoc. reflexivity. }
    apply (isort_sorted_pair less_overname less_overname_asym less_overname_negtrans) in P1, P2.
    rewrite less_overname_rank in P1, P2. apply orb_false_iff in P1 as [A1 A2]. apply orb_false_iff in P2 as [B1 B2].
    assert (Erk : rk p = rk c) by (unfold rk; rewrite Hcls; reflexivity).
    assert (rk x =? rk p = true) as E1 by lia. assert (rk c =? rk x = true) as E2 by lia.
    rewrite E1 in A2. rewrite E2 in B2. cbn [andb] in A2, B2. unfold dir_lt in A2, B2.
    apply has_prefix_split in B as (r & EB).
    assert (Kc : exists r', with_slash (e_dir c) = with_slash (e_dir p) ++ r').
    { rewrite <- with_slash_skip in EB. unfold with_slash at 1. rewrite EB.
      destruct (has_suffix_slash (with_slash (e_dir p) ++ r)); [exists r; reflexivity | exists (r ++ [slash]); rewrite app_assoc; reflexivity]. }
    destruct Kc as (r' & Kc). rewrite Kc in B2.
    pose proof (blt_interval_prefix _ _ _ A2 B2) as Pk.
    rewrite <- with_slash_skip. apply key_prefix_beneath; [| exact Pk |].
    + destruct (with_slash_shape (e_dir p)) as (X & E & _). exists X. exact E.
    + (* keys of p and x differ: they sit at different places of a list without duplicate keys *)
      intro Ek. rewrite map_app in NDs. cbn [map] in NDs. apply NoDup_remove_2 in NDs. apply NDs.
      apply in_or_app. right. rewrite !map_app. apply in_or_app. left. apply in_or_app. right. left.
      unfold sort_key. symmetry. exact Ek.
Qed.

From Coq Require Import String.

Lemma result_profile_shadowed_refuted :
  exists fs current desired d,
    NoDup (map e_dir (isort less_origin (map clean_entry desired))) /\
    NoDup (map id_of (map clean_entry current)) /\
    In d (isort less_origin (map clean_entry desired)) /\
    ~ In (Mount, d) (needed_changes fs current desired) /\ ~ In (Keep, d) (needed_changes fs current desired).
Proof.
  set (mimic := mkEntry (bs "tmpfs"%string) (bs "/a"%string) (bs "tmpfs"%string) [bs "x-snapd.synthetic"%string; bs "x-snapd.needed-by=/a/b"%string; bs "mode=0755"%string] 0 0).
  set (ab := mkEntry (bs "/s/src"%string) (bs "/a/b"%string) (bs "none"%string) [bs "bind"%string; bs "x-snapd.origin=layout"%string] 0 0).
  set (ta := mkEntry (bs "tmpfs"%string) (bs "/a"%string) (bs "tmpfs"%string) [bs "mode=0755"%string; bs "x-snapd.origin=layout"%string] 0 0).
  exists (mkFs [bs "/"%string; bs "/a"%string; bs "/a/b"%string] [] []), [mimic; ab], [ta; ab], ta.
  assert (E : needed_changes (mkFs [bs "/"%string; bs "/a"%string; bs "/a/b"%string] [] []) [mimic; ab] [ta; ab] = [(Keep, ab); (Keep, mimic)]) by (vm_compute; reflexivity).
  rewrite E.
  assert (D : isort less_origin (map clean_entry [ta; ab]) = [ta; ab]) by (vm_compute; reflexivity).
  rewrite D.
  repeat split.
  - cbn. repeat constructor; cbn; intuition discriminate.
  - cbn. repeat constructor; cbn; intuition discriminate.
  - left. reflexivity.
  - cbn. intuition discriminate.
  - cbn. intros [H | [H | []]]; inversion H.
Qed.

(* across the overname boundary the statement is false: the overname entry /a/b is scanned before its parent /a *)
Lemma no_keep_beneath_unmounted_overname_refuted :
  exists fs current desired p c,
    NoDup (map sort_key (map clean_entry current)) /\ In p (map clean_entry current) /\ In c (map clean_entry current) /\
    beneath c p = true /\ sort_key p <> sort_key c /\
    ~ In (Keep, p) (needed_changes fs current desired) /\ In (Keep, c) (needed_changes fs current desired).
Proof.
  set (a := mkEntry (bs "/s/src"%string) (bs "/a"%string) (bs "none"%string) [bs "bind"%string] 0 0).
  set (a' := mkEntry (bs "/s/src"%string) (bs "/a"%string) (bs "none"%string) [bs "bind"%string; bs "noatime"%string] 0 0).
  set (ab := mkEntry (bs "/s/src"%string) (bs "/a/b"%string) (bs "none"%string) [bs "bind"%string; bs "x-snapd.origin=overname"%string] 0 0).
  set (fs := mkFs [bs "/"%string; bs "/a"%string; bs "/a/b"%string] [] []).
  exists fs, [a; ab], [a'; ab], a, ab.
  assert (E : needed_changes fs [a; ab] [a'; ab] =
              [(Keep, ab); (Unmount, set_opts a [bs "bind"%string; bs "x-snapd.detach"%string]); (Mount, a')]) by (vm_compute; reflexivity).
  rewrite E. repeat split.
  - cbn. repeat constructor; cbn; intuition discriminate.
  - left. reflexivity.
  - right. left. reflexivity.
  - vm_compute. discriminate.
  - cbn. intros [H | [H | [H | []]]]; inversion H.
  - left. reflexivity.
Qed.

(* ------------------------------------------------------------------ what is recorded; the order over histories *)

Lemma recorded_app : forall a b, recorded (a ++ b) = recorded a ++ recorded b.
Proof. intros. unfold recorded. rewrite filter_app, map_app. reflexivity. Qed.

Lemma recorded_mounts : forall ms, recorded (map (fun e : entry => (Mount, e)) ms) = ms.
Proof. induction ms as [|m ms IH]; [reflexivity|]. unfold recorded in *. cbn. rewrite IH. reflexivity. Qed.

Lemma recorded_part : forall reuse l,
  recorded (map (fun e => if id_mem (id_of e) reuse then (Keep, e) else (Unmount, detach_form e)) l) =
  filter (fun e => id_mem (id_of e) reuse) l.
Proof.
  intros reuse l. induction l as [|e l IH]; [reflexivity|]. unfold recorded in *. cbn [map filter].
  destruct (id_mem (id_of e) reuse); cbn; [rewrite IH; reflexivity | exact IH].
Qed.

(* if every change is performed, the profile saved by executeMountProfileUpdate is: the kept entries IN REVERSE of their
   order in the current profile, then the mounted entries in mount order *)
Theorem recorded_needed_changes : forall fs current desired,
  let cur := map clean_entry current in
  let des := isort less_origin (map clean_entry desired) in
  let reuse := reuse_of current desired in
  recorded (needed_changes fs current desired) =
  rev (filter (fun e => id_mem (id_of e) reuse) cur) ++
  mount_order fs (filter (fun e => negb (id_mem (id_of e) reuse)) des).
Proof.
  intros. unfold needed_changes. rewrite recorded_app, recorded_mounts. unfold unmount_part.
  rewrite recorded_part, filter_rev'. reflexivity.
Qed.

(* over a history the unmount order sentence fails: mount /a and /a/b, keep both (saved reversed), remove both:
   /a is unmounted before /a/b, which was mounted beneath it after it *)
Lemma unmount_order_history_refuted :
  exists fs a ab,
    let c1 := recorded (needed_changes fs [] [a; ab]) in
    let c2 := recorded (needed_changes fs c1 [a; ab]) in
    beneath ab a = true /\ c1 = [a; ab] /\ c2 = [ab; a] /\
    unmounts_of (needed_changes fs c2 []) = [detach_form a; detach_form ab].
Proof.
  exists (mkFs [bs "/"%string; bs "/a"%string; bs "/a/b"%string] [] []),
         (mkEntry (bs "/s/src"%string) (bs "/a"%string) (bs "none"%string) [bs "bind"%string] 0 0),
         (mkEntry (bs "/s/src"%string) (bs "/a/b"%string) (bs "none"%string) [bs "bind"%string] 0 0).
  vm_compute. repeat split; reflexivity.
Qed.

(* the mimic-root hypothesis of mount_parent_first is needed only when both entries need a mimic: if the child's target
   exists in the form needed (or it is an overname entry) and existing targets are closed under containment, the parent
   comes first without it *)
Theorem mount_parent_first_existing : forall fs current desired m1 m2,
  let nc := needed_changes fs current desired in
  In (Mount, m1) nc -> In (Mount, m2) nc ->
  x_origin m1 = x_origin m2 -> beneath m2 m1 = true -> with_slash (e_dir m1) <> with_slash (e_dir m2) ->
  is_overname m2 || exists_as fs m2 = true -> is_overname m1 || exists_as fs m1 = true ->
  precedes (Mount, m1) (Mount, m2) nc.
Proof.
  intros fs current desired m1 m2 nc I1 I2 EO B Hne X2 X1.
  assert (L : less_origin m1 m2 = true) by (apply same_origin_less; [exact EO | apply beneath_dir_lt; assumption]).
  unfold nc, needed_changes in *.
  apply in_app_or in I1 as [I1 | I1]; [exfalso; eapply mount_not_in_part; exact I1|].
  apply in_app_or in I2 as [I2 | I2]; [exfalso; eapply mount_not_in_part; exact I2|].
  apply precedes_app_r.
  apply in_map_iff in I1 as (a & Ea & Ia). inversion Ea; subst a.
  apply in_map_iff in I2 as (b & Eb & Ib). inversion Eb; subst b.
  apply (precedes_map (fun e => (Mount, e))).
  apply mount_order_In in Ia. apply mount_order_In in Ib.
  unfold mount_order. apply precedes_app_l.
  apply isort_precedes; [apply less_origin_asym | apply less_origin_negtrans | | | exact L];
    apply filter_In; split; assumption.
Qed.
