(* C33 — proofs about models/Version.v *)
From Coq Require Import List NArith ZArith Bool Lia.
Import ListNotations.
Require Import V.lib.Bytes V.gen.ChOrder V.models.Version.
Open Scope N_scope.

Lemma epoch_rejected_l : forall a b, match_epoch a = true -> version_compare a b = Invalid.
Proof. intros a b H. unfold version_compare. rewrite H. reflexivity. Qed.

Lemma epoch_rejected_r : forall a b, match_epoch b = true -> version_compare a b = Invalid.
Proof. intros a b H. unfold version_compare. rewrite H, orb_true_r. reflexivity. Qed.

Lemma epoch_rejected : forall a b, match_epoch a = true \/ match_epoch b = true -> version_compare a b = Invalid.
Proof. intros a b [H|H]; [apply epoch_rejected_l | apply epoch_rejected_r]; exact H. Qed.

Lemma invalid_only_epoch : forall a b, version_compare a b = Invalid -> match_epoch a = true \/ match_epoch b = true.
Proof.
  intros a b. unfold version_compare.
  destruct (match_epoch a) eqn:Ea; [intros _; now left|].
  destruct (match_epoch b) eqn:Eb; [intros _; now right|]. cbn [orb].
  destruct (split_rev a), (split_rev b).
  destruct (compare_subversion _ _); [|discriminate].
  destruct (negb _); [discriminate|]. destruct (compare_subversion _ _); discriminate.
Qed.

(* ---------- fragments consume input ---------- *)
Lemma span_length : forall p l a b, span p l = (a, b) -> (length a + length b = length l)%nat.
Proof.
  induction l as [|x r IH]; intros a b H; cbn [span] in H.
  - inversion H; reflexivity.
  - destruct (p x).
    + destruct (span p r) as [a' b'] eqn:E. inversion H; subst. cbn [length]. specialize (IH _ _ eq_refl). lia.
    + inversion H; subst. reflexivity.
Qed.

Lemma span_hd : forall p x r a b, p x = true -> span p (x :: r) = (a, b) -> a <> [].
Proof.
  intros p x r a b Hp H. cbn [span] in H. rewrite Hp in H. destruct (span p r). inversion H. discriminate.
Qed.

Lemma next_frag_length : forall s f r n, next_frag s = (f, r, n) -> (length f + length r = length s)%nat.
Proof.
  intros s f r n H. unfold next_frag in H. destruct s as [|c s'].
  - inversion H; reflexivity.
  - destruct (is_digit c).
    + destruct (span is_digit (c :: s')) as [f' r'] eqn:E. inversion H; subst. eapply span_length; eauto.
    + destruct (span _ (c :: s')) as [f' r'] eqn:E. inversion H; subst. eapply span_length; eauto.
Qed.

Lemma next_frag_nonempty : forall c s f r n, next_frag (c :: s) = (f, r, n) -> f <> [].
Proof.
  intros c s f r n H. unfold next_frag in H. destruct (is_digit c) eqn:D.
  - destruct (span is_digit (c :: s)) as [f' r'] eqn:E. inversion H; subst. eapply span_hd; eauto.
  - destruct (span _ (c :: s)) as [f' r'] eqn:E. inversion H; subst.
    eapply (span_hd (fun x => negb (is_digit x))); eauto. cbn. rewrite D. reflexivity.
Qed.

Lemma next_frag_nil_frag : forall s f r n, next_frag s = (f, r, n) -> f = [] -> s = [] /\ n = false /\ r = [].
Proof.
  intros s f r n H Hf. destruct s as [|c s'].
  - cbn in H. inversion H. auto.
  - exfalso. eapply next_frag_nonempty; eauto.
Qed.

Lemma is_nil_true : forall l, is_nil l = true <-> l = [].
Proof. destruct l; cbn; split; congruence. Qed.

(* ---------- totality: the fuel given by sub_fuel is always enough ---------- *)
Lemma cmp_sub_total : forall fuel first va vb,
  (length va + length vb < fuel)%nat -> cmp_sub fuel first va vb <> None.
Proof.
  induction fuel as [|f IH]; intros first va vb Hl; [lia|].
  cbn [cmp_sub].
  destruct (next_frag va) as [[a va'] an] eqn:Ea.
  destruct (next_frag vb) as [[b vb'] bn] eqn:Eb.
  destruct (is_nil a && is_nil b) eqn:En; [discriminate|].
  match goal with |- (if ?c then _ else _) <> None => destruct c end; [|discriminate].
  apply IH.
  pose proof (next_frag_length _ _ _ _ Ea). pose proof (next_frag_length _ _ _ _ Eb).
  assert (length a + length b > 0)%nat.
  { destruct a, b; cbn in En; try discriminate; cbn [length]; lia. }
  lia.
Qed.

Lemma compare_subversion_total : forall va vb, compare_subversion va vb <> None.
Proof. intros. unfold compare_subversion, sub_fuel. apply cmp_sub_total. lia. Qed.

Lemma version_compare_total : forall a b, version_compare a b <> OutOfFuel.
Proof.
  intros a b. unfold version_compare. destruct (match_epoch a || match_epoch b); [discriminate|].
  destruct (split_rev a) as [ma ra], (split_rev b) as [mb rb].
  destruct (compare_subversion ma mb) eqn:E1; [|exfalso; eapply compare_subversion_total; eauto].
  destruct (negb _); [discriminate|].
  destruct (compare_subversion ra rb) eqn:E2; [discriminate|exfalso; eapply compare_subversion_total; eauto].
Qed.

(* ---------- sign flip ---------- *)
Lemma cmp1_flip : forall x y k, cmp1 y x (- k) = (- cmp1 x y k)%Z.
Proof.
  intros. unfold cmp1.
  destruct (Z.ltb_spec (ch_order x) (ch_order y)), (Z.ltb_spec (ch_order y) (ch_order x));
  destruct (Z.gtb_spec (ch_order x) (ch_order y)), (Z.gtb_spec (ch_order y) (ch_order x)); try lia; reflexivity.
Qed.

Lemma cmp_string_nil_l : forall b, cmp_string [] b = (- cmp_string b [])%Z.
Proof.
  induction b as [|y b IH]; [reflexivity|].
  change (cmp_string [] (y :: b)) with (cmp1 0 y (cmp_string [] b)).
  rewrite IH. change (cmp_string (y :: b) []) with (cmp1 y 0 (cmp_string b [])). apply cmp1_flip.
Qed.

Lemma cmp_string_flip : forall a b, cmp_string b a = (- cmp_string a b)%Z.
Proof.
  induction a as [|x a IH]; intros b.
  - rewrite cmp_string_nil_l. lia.
  - destruct b as [|y b].
    + rewrite cmp_string_nil_l. reflexivity.
    + cbn [cmp_string]. rewrite IH. apply cmp1_flip.
Qed.

Lemma cmp_bytes_num_flip : forall a b, length a = length b -> cmp_bytes_num b a = (- cmp_bytes_num a b)%Z.
Proof.
  induction a as [|x a IH]; intros [|y b] Hl; try discriminate; [reflexivity|].
  cbn [cmp_bytes_num].
  destruct (N.ltb_spec y x), (N.ltb_spec x y); try lia; try reflexivity.
  apply IH. cbn in Hl. lia.
Qed.

Lemma cmp_numeric_flip : forall a b, cmp_numeric b a = (- cmp_numeric a b)%Z.
Proof.
  intros. unfold cmp_numeric.
  destruct (Z.gtb_spec (Z.of_nat (length (trim_zeroes a))) (Z.of_nat (length (trim_zeroes b)))),
           (Z.gtb_spec (Z.of_nat (length (trim_zeroes b))) (Z.of_nat (length (trim_zeroes a))));
  destruct (Z.ltb_spec (Z.of_nat (length (trim_zeroes a))) (Z.of_nat (length (trim_zeroes b)))),
           (Z.ltb_spec (Z.of_nat (length (trim_zeroes b))) (Z.of_nat (length (trim_zeroes a)))); try lia; try reflexivity.
  apply cmp_bytes_num_flip. lia.
Qed.

Lemma zeqb_opp : forall r, (- r =? 0)%Z = (r =? 0)%Z.
Proof. intros. destruct (Z.eqb_spec r 0), (Z.eqb_spec (- r) 0); lia || reflexivity. Qed.

Lemma cmp_sub_flip : forall fuel first va vb r,
  cmp_sub fuel first va vb = Some r -> cmp_sub fuel first vb va = Some (- r)%Z.
Proof.
  induction fuel as [|f IH]; intros first va vb r H; [discriminate|].
  cbn [cmp_sub] in *.
  destruct (next_frag va) as [[a va'] an] eqn:Ea.
  destruct (next_frag vb) as [[b vb'] bn] eqn:Eb.
  rewrite (andb_comm (is_nil b) (is_nil a)).
  destruct (is_nil a && is_nil b) eqn:En.
  - inversion H; reflexivity.
  - set (res := if an && bn then cmp_numeric a b
          else if negb first && is_nil a && bn then cmp_numeric [48] b
          else if negb first && is_nil b && an then cmp_numeric a [48]
          else cmp_string a b) in *.
    assert (Hres : (if bn && an then cmp_numeric b a
          else if negb first && is_nil b && an then cmp_numeric [48] a
          else if negb first && is_nil a && bn then cmp_numeric b [48]
          else cmp_string b a) = (- res)%Z).
    { subst res. rewrite (andb_comm bn an). destruct (an && bn); [apply cmp_numeric_flip|].
      destruct (negb first && is_nil a && bn) eqn:C1, (negb first && is_nil b && an) eqn:C2.
      - (* both empty opposite numeric: impossible since an -> a nonempty *)
        exfalso. apply andb_prop in C1. destruct C1 as [C1 _]. apply andb_prop in C1. destruct C1 as [_ C1].
        apply is_nil_true in C1.
        destruct (next_frag_nil_frag _ _ _ _ Ea C1) as (_ & Hn & _). subst an. rewrite andb_false_r in C2. discriminate.
      - apply cmp_numeric_flip.
      - apply cmp_numeric_flip.
      - apply cmp_string_flip. }
    rewrite Hres.
    destruct (Z.eqb_spec res 0) as [E|E].
    + rewrite E. cbn. apply IH. exact H.
    + destruct (Z.eqb_spec (- res) 0); [lia|]. inversion H; reflexivity.
Qed.

Lemma version_compare_flip : forall a b r, version_compare a b = Res r -> version_compare b a = Res (- r)%Z.
Proof.
  intros a b r. unfold version_compare. rewrite (orb_comm (match_epoch b)).
  destruct (match_epoch a || match_epoch b); [discriminate|].
  destruct (split_rev a) as [ma ra], (split_rev b) as [mb rb].
  unfold compare_subversion, sub_fuel.
  rewrite (Nat.add_comm (length mb)), (Nat.add_comm (length rb)).
  destruct (cmp_sub _ true ma mb) as [r1|] eqn:E1; [|discriminate].
  rewrite (cmp_sub_flip _ _ _ _ _ E1).
  rewrite zeqb_opp.
  destruct (r1 =? 0)%Z; cbn [negb].
  - destruct (cmp_sub _ true ra rb) as [r2|] eqn:E2; [|discriminate].
    rewrite (cmp_sub_flip _ _ _ _ _ E2). intros H; inversion H; reflexivity.
  - intros H; inversion H; reflexivity.
Qed.

(* ---------- reflexivity (from totality and the sign flip) ---------- *)
Lemma version_compare_refl : forall a, match_epoch a = false -> version_compare a a = Res 0%Z.
Proof.
  intros a He. destruct (version_compare a a) as [|r|] eqn:E.
  - apply invalid_only_epoch in E. destruct E; congruence.
  - pose proof (version_compare_flip _ _ _ E) as F. rewrite E in F. inversion F. f_equal. lia.
  - exfalso. eapply version_compare_total; eauto.
Qed.

(* ---------- results are -1, 0 or +1 ---------- *)
Definition tri (z : Z) : Prop := (z = -1 \/ z = 0 \/ z = 1)%Z.

Lemma cmp1_tri : forall x y k, tri k -> tri (cmp1 x y k).
Proof. intros. unfold cmp1, tri in *. destruct (_ <? _)%Z; [lia|]. destruct (_ >? _)%Z; lia. Qed.

Lemma cmp_string_tri : forall a b, tri (cmp_string a b).
Proof.
  assert (G : forall b, tri (cmp_string [] b)).
  { induction b as [|y b IH]; [right; left; reflexivity|].
    change (cmp_string [] (y :: b)) with (cmp1 0 y (cmp_string [] b)). apply cmp1_tri, IH. }
  induction a as [|x a IH]; intros b; [apply G|].
  destruct b as [|y b]; cbn [cmp_string]; apply cmp1_tri, IH.
Qed.

Lemma cmp_bytes_num_tri : forall a b, tri (cmp_bytes_num a b).
Proof.
  induction a as [|x a IH]; intros [|y b]; cbn [cmp_bytes_num]; try (right; left; reflexivity).
  destruct (y <? x); [right; right; reflexivity|]. destruct (x <? y); [left; reflexivity|apply IH].
Qed.

Lemma cmp_numeric_tri : forall a b, tri (cmp_numeric a b).
Proof.
  intros. unfold cmp_numeric. destruct (_ >? _)%Z; [right; right; reflexivity|].
  destruct (_ <? _)%Z; [left; reflexivity|apply cmp_bytes_num_tri].
Qed.

Lemma cmp_sub_tri : forall fuel first va vb r, cmp_sub fuel first va vb = Some r -> tri r.
Proof.
  induction fuel as [|f IH]; intros first va vb r H; [discriminate|].
  cbn [cmp_sub] in H.
  destruct (next_frag va) as [[a va'] an]. destruct (next_frag vb) as [[b vb'] bn].
  destruct (is_nil a && is_nil b); [inversion H; right; left; reflexivity|].
  match type of H with (if (?res =? 0)%Z then _ else _) = _ =>
    assert (T : tri res) by
      (destruct (an && bn); [apply cmp_numeric_tri|];
       destruct (negb first && is_nil a && bn); [apply cmp_numeric_tri|];
       destruct (negb first && is_nil b && an); [apply cmp_numeric_tri|apply cmp_string_tri]);
    destruct (res =? 0)%Z; [eapply IH; eauto|inversion H; subst; exact T]
  end.
Qed.

Lemma version_compare_tri : forall a b r, version_compare a b = Res r -> tri r.
Proof.
  intros a b r. unfold version_compare. destruct (_ || _); [discriminate|].
  destruct (split_rev a) as [ma ra], (split_rev b) as [mb rb].
  destruct (compare_subversion ma mb) as [r1|] eqn:E1; [|discriminate].
  destruct (negb _).
  - intros H; inversion H; subst. eapply cmp_sub_tri; eauto.
  - destruct (compare_subversion ra rb) as [r2|] eqn:E2; [|discriminate].
    intros H; inversion H; subst. eapply cmp_sub_tri; eauto.
Qed.

(* ---------- transitivity on a complete finite domain (a proof by computation, bound stated) ---------- *)
Fixpoint all_strings (alpha : bytes) (n : nat) : list bytes :=
  match n with
  | O => [[]]
  | S k => [] :: flat_map (fun s => map (fun c => c :: s) alpha) (all_strings alpha k)
  end.

Definition le_res (r : result) : bool := match r with Res z => (z <=? 0)%Z | _ => false end.
Definition lt_res (r : result) : bool := match r with Res z => (z <? 0)%Z | _ => false end.

Definition trans_ok (a b c : bytes) : bool :=
  (negb (le_res (version_compare a b) && le_res (version_compare b c)) || le_res (version_compare a c)) &&
  (negb (le_res (version_compare a b) && le_res (version_compare b c) &&
         (lt_res (version_compare a b) || lt_res (version_compare b c))) || lt_res (version_compare a c)).

(* alphabet: 0 a . ~ - *)
Definition small_alpha : bytes := [48; 97; 46; 126; 45].
Definition small_domain : list bytes := all_strings small_alpha 2.

Lemma transitive_small_domain_b :
  forallb (fun a => forallb (fun b => forallb (fun c => trans_ok a b c) small_domain) small_domain) small_domain = true.
Proof. vm_compute. reflexivity. Qed.

Lemma transitive_small_domain : forall a b c,
  In a small_domain -> In b small_domain -> In c small_domain -> trans_ok a b c = true.
Proof.
  intros a b c Ha Hb Hc. pose proof transitive_small_domain_b as H.
  rewrite forallb_forall in H. specialize (H a Ha). rewrite forallb_forall in H. specialize (H b Hb).
  rewrite forallb_forall in H. exact (H c Hc).
Qed.

Lemma version_compare_antisym : forall (a b : bytes) (x y : Z),
  version_compare a b = Res x -> version_compare b a = Res y -> (x <= 0)%Z -> (y <= 0)%Z -> x = 0%Z /\ y = 0%Z.
Proof.
  intros a b x y Hab Hba Hx Hy. apply version_compare_flip in Hab. rewrite Hab in Hba. inversion Hba. lia.
Qed.

(* ---------- agreement with the dpkg reference on a complete finite domain ---------- *)
Definition debian_ok (a b : bytes) : bool :=
  negb (debian_wf a && debian_wf b) ||
  match version_compare a b, dpkg_compare a b with
  | Res x, Some d => (x =? d)%Z
  | _, _ => false
  end.

Definition debian_domain : list bytes := all_strings small_alpha 3.

Lemma debian_small_domain_b :
  forallb (fun a => forallb (fun b => debian_ok a b) debian_domain) debian_domain = true.
Proof. vm_compute. reflexivity. Qed.

Lemma debian_small_domain : forall a b, In a debian_domain -> In b debian_domain -> debian_ok a b = true.
Proof.
  intros a b Ha Hb. pose proof debian_small_domain_b as H.
  rewrite forallb_forall in H. specialize (H a Ha). rewrite forallb_forall in H. exact (H b Hb).
Qed.
