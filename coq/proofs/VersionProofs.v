(* C33 — proofs about models/Version.v *)
From Coq Require Import List NArith ZArith Bool Lia.
Import ListNotations.
Require Import V.lib.Bytes V.gen.ChOrder V.models.Version.
Open Scope N_scope.

Lemma epoch_rejected_l : forall a b, match_epoch a = true -> version_compare a b = Invalid.
Proof. intros a b H. unfold version_compare. rewrite H. reflexivity. Qed.

Lemma epoch_rejected_r : forall a b, match_epoch b = true -> version_compare a b = Invalid.
Proof. intros a b H. unfold version_compare. rewrite H, orb_true_r. reflexivity. Qed.

Lemma epoch_rejected : forall a b, match_epoch a = true \/ match_epoch b = true -> version_compare a b = Invalid.
Proof. intros a b [H|H]; [apply epoch_rejected_l | apply epoch_rejected_r]; exact H. Qed.

Lemma invalid_only_epoch : forall a b, version_compare a b = Invalid -> match_epoch a = true \/ match_epoch b = true.
Proof.
  intros a b. unfold version_compare.
  destruct (match_epoch a) eqn:Ea; [intros _; now left|].
  destruct (match_epoch b) eqn:Eb; [intros _; now right|]. cbn [orb].
  destruct (split_rev a), (split_rev b).
  destruct (compare_subversion _ _); [|discriminate].
  destruct (negb _); [discriminate|]. destruct (compare_subversion _ _); discriminate.
Qed.
