(* Proofs about models/SnapSeq.v — part 4: doInstall's garbage collection for a refresh to an ALREADY KEPT revision
   (the loop that drops the target from the candidates), used by C12, C10 (after-GC, kept target) and C11. *)
From Coq Require Import List NArith ZArith Bool Arith Lia Sorting.Sorted.
Import ListNotations.
Require Import V.models.SnapSeq V.proofs.SnapSeqProofs V.proofs.SnapSeqProofs2.
Open Scope N_scope.

Lemma drop_target_nohit : forall fuel i target l ci,
  (forall k, (i <= k < ci)%nat -> nth k l 0 <> target) -> drop_target fuel i target l ci = (l, ci).
Proof.
  induction fuel as [|f IH]; intros i target l ci H; simpl; [reflexivity|].
  destruct (i <? ci)%nat eqn:L; [|reflexivity]. apply Nat.ltb_lt in L.
  destruct (nth i l 0 =? target) eqn:Q.
  - apply N.eqb_eq in Q. exfalso. apply (H i); [lia|exact Q].
  - apply IH. intros k Hk. apply H. lia.
Qed.

Lemma drop_target_hit : forall fuel i t a b ci,
  ~ In t a -> ~ In t b -> (i <= length a)%nat -> (length a < ci)%nat -> (ci < length (a ++ t :: b))%nat ->
  (length a - i < fuel)%nat ->
  drop_target fuel i t (a ++ t :: b) ci = (a ++ b, pred ci).
Proof.
  induction fuel as [|f IH]; intros i t a b ci Na Nb Li Lc Ll Lf; [lia|]. simpl.
  assert (L : (i <? ci)%nat = true) by (apply Nat.ltb_lt; lia). rewrite L.
  destruct (Nat.eq_dec i (length a)) as [E|E].
  - subst i. rewrite nth_app_exact, N.eqb_refl. rewrite remove_at_app.
    apply drop_target_nohit. intros k Hk Q. rewrite app_length in Ll. simpl in Ll.
    assert (I : In t (a ++ b)). { rewrite <- Q. apply nth_In. rewrite app_length. lia. }
    apply in_app_iff in I. tauto.
  - assert (Q : (nth i (a ++ t :: b) 0 =? t) = false).
    { apply N.eqb_neq. rewrite app_nth1 by lia. intros Q. apply Na. rewrite <- Q. apply nth_In. lia. }
    rewrite Q. apply IH; auto; lia.
Qed.

Lemma app_split_later : forall (a a' : list N) t c b b',
  a ++ t :: b = a' ++ c :: b' -> (length a < length a')%nat ->
  exists b1, a' = a ++ t :: b1 /\ b = b1 ++ c :: b'.
Proof.
  induction a as [|x a IH]; intros a' t c b b' E L.
  - destruct a' as [|y a']; [simpl in L; lia|]. simpl in E. injection E as <- E. exists a'. split; [reflexivity|exact E].
  - destruct a' as [|y a']; [simpl in L; lia|]. simpl in E. injection E as <- E.
    destruct (IH a' t c b b' E) as (b1 & -> & ->); [simpl in L; lia|]. exists b1. split; reflexivity.
Qed.

Lemma firstn_notin : forall (x y : list N) c n, ~ In c x -> (n <= length x)%nat -> ~ In c (firstn n (x ++ c :: y)).
Proof.
  intros x y c n N L I. rewrite firstn_app in I. replace (n - length x)%nat with O in I by lia.
  simpl in I. rewrite app_nil_r in I. apply N. eapply In_firstn; exact I.
Qed.

Lemma skipn_after : forall (x y : list N) c, skipn (S (length x)) (x ++ c :: y) = y.
Proof.
  intros. replace (S (length x)) with (length (x ++ [c])) by (rewrite app_length; simpl; lia).
  replace (x ++ c :: y) with ((x ++ [c]) ++ y) by (rewrite <- app_assoc; reflexivity). apply skipn_app_exact.
Qed.

(* the garbage-collected revisions of a refresh to a kept revision t, current at index ci *)
Theorem gc_kept_target_before : forall s t retain inuse a b ci,
  NoDup (seq s) -> seq s = a ++ t :: b -> last_index (cur s) (seq s) = Some ci -> (length a < ci)%nat ->
  gc_revs s t retain inuse
  = skipn (S ci) (seq s) ++ filter (fun r => negb (inuse r)) (firstn (Z.to_nat (Z.of_nat ci - retain)) (a ++ b)).
Proof.
  intros s t retain inuse a b ci ND SQ LI L. unfold gc_revs. rewrite LI.
  assert (Nt : ~ In t a /\ ~ In t b).
  { rewrite SQ in ND. split; intros I; apply NoDup_remove_2 in ND; apply ND; apply in_or_app; auto. }
  assert (M : mem t (seq s) = true) by (apply mem_In; rewrite SQ; apply in_or_app; right; left; reflexivity).
  rewrite M. pose proof (last_index_lt _ _ _ LI) as LL.
  replace (drop_target (length (seq s)) 0 t (seq s) ci) with (a ++ b, pred ci).
  2:{ symmetry. rewrite SQ in *. apply drop_target_hit; try tauto; try lia. }
  f_equal.
  - apply filter_all. intros x Hx. apply negb_true_iff, N.eqb_neq. intros ->.
    destruct (last_index_split _ _ _ ND LI) as (a' & b' & SQ' & LA' & _ & _).
    rewrite SQ', <- LA', skipn_after in Hx.
    rewrite SQ in SQ'. destruct (app_split_later a a' t (cur s) b b' SQ') as (b1 & -> & ->); [lia|].
    destruct Nt as [_ Nt]. apply Nt. apply in_or_app. right. right. exact Hx.
  - do 3 f_equal. lia.
Qed.

Theorem gc_kept_target_after : forall s t retain inuse a b ci,
  NoDup (seq s) -> seq s = a ++ t :: b -> last_index (cur s) (seq s) = Some ci -> (ci < length a)%nat ->
  gc_revs s t retain inuse
  = filter (fun r => negb (r =? t)) (skipn (S ci) (seq s))
    ++ filter (fun r => negb (inuse r)) (firstn (Z.to_nat (Z.of_nat ci - retain + 1)) (seq s)).
Proof.
  intros s t retain inuse a b ci ND SQ LI L. unfold gc_revs. rewrite LI.
  assert (M : mem t (seq s) = true) by (apply mem_In; rewrite SQ; apply in_or_app; right; left; reflexivity).
  rewrite M. rewrite drop_target_nohit; [reflexivity|].
  intros k Hk Q. rewrite SQ in Q. rewrite app_nth1 in Q by lia.
  rewrite SQ in ND. apply NoDup_remove_2 in ND. apply ND. apply in_or_app. left. rewrite <- Q. apply nth_In. lia.
Qed.

(* neither the target nor the current revision is ever garbage-collected (retain >= 1), nor a revision in use *)
Theorem gc_kept_keeps : forall s t retain inuse ci,
  NoDup (seq s) -> In t (seq s) -> t <> cur s -> last_index (cur s) (seq s) = Some ci -> (1 <= retain)%Z ->
  ~ In t (gc_revs s t retain inuse) /\ ~ In (cur s) (gc_revs s t retain inuse).
Proof.
  intros s t retain inuse ci ND IN TC LI R.
  destruct (last_index t (seq s)) as [ti|] eqn:LT; [|apply last_index_none in LT; tauto].
  destruct (last_index_split _ _ _ ND LT) as (a & b & SQ & LA & Na & Nb).
  destruct (last_index_split _ _ _ ND LI) as (a' & b' & SQ' & LA' & Na' & Nb').
  assert (NE : length a <> ci).
  { intros E. apply TC. rewrite SQ in SQ'. rewrite <- LA' in E.
    assert (X : nth (length a) (a ++ t :: b) 0 = nth (length a') (a' ++ cur s :: b') 0) by (rewrite SQ', E; reflexivity).
    rewrite !nth_app_exact in X. exact X. }
  destruct (lt_dec (length a) ci) as [L|L].
  - rewrite (gc_kept_target_before s t retain inuse a b ci); auto.
    pose proof SQ' as SQc. rewrite SQ in SQ'.
    destruct (app_split_later a a' t (cur s) b b' SQ') as (b1 & E1 & E2); [lia|].
    split; rewrite in_app_iff; intros [H|H].
    + rewrite SQc, <- LA', skipn_after in H. rewrite E2 in Nb. apply Nb. apply in_or_app. right. right. exact H.
    + apply filter_In in H. destruct H as [H _]. apply In_firstn in H. apply in_app_iff in H. tauto.
    + rewrite SQc, <- LA', skipn_after in H. tauto.
    + apply filter_In in H. destruct H as [H _]. rewrite E2 in H.
      replace (a ++ b1 ++ cur s :: b') with ((a ++ b1) ++ cur s :: b') in H by (rewrite <- app_assoc; reflexivity).
      revert H. apply firstn_notin.
      * intros I. apply Na'. rewrite E1. apply in_app_iff in I. apply in_or_app. destruct I as [I|I]; [left; exact I|right; right; exact I].
      * rewrite app_length. rewrite E1, app_length in LA'. simpl in LA'. lia.
  - assert (L' : (ci < length a)%nat) by lia.
    rewrite (gc_kept_target_after s t retain inuse a b ci); auto.
    split; rewrite in_app_iff; intros [H|H].
    + apply filter_In in H. destruct H as [_ H]. rewrite N.eqb_refl in H. discriminate.
    + apply filter_In in H. destruct H as [H _]. rewrite SQ in H. revert H. apply firstn_notin; [exact Na|lia].
    + apply filter_In in H. destruct H as [H _]. rewrite SQ', <- LA', skipn_after in H. tauto.
    + apply filter_In in H. destruct H as [H _]. rewrite SQ' in H. revert H. apply firstn_notin; [exact Na'|lia].
Qed.
