(* C37 — proofs about models/Patterns.v. *)
From Coq Require Import List NArith ZArith Bool Lia ZifyBool ZifyNat ZifyN Permutation Arith.
Import ListNotations.
Require Import V.lib.Bytes V.models.Patterns.
Open Scope N_scope.

(* ------------------------------------------------------------------ induction over render trees *)
Section NodeInd.
  Variable P : node -> Prop.
  Hypothesis HLit : forall s, P (Lit s).
  Hypothesis HSeq : forall l, Forall P l -> P (Seq l).
  Hypothesis HAlt : forall l, Forall P l -> P (Alt l).
  Fixpoint node_ind' (n : node) : P n :=
    match n with
    | Lit s => HLit s
    | Seq l => HSeq l ((fix go (l : list node) : Forall P l :=
                          match l with [] => Forall_nil P | x :: r => Forall_cons x (node_ind' x) (go r) end) l)
    | Alt l => HAlt l ((fix go (l : list node) : Forall P l :=
                          match l with [] => Forall_nil P | x :: r => Forall_cons x (node_ind' x) (go r) end) l)
    end.
End NodeInd.

(* ------------------------------------------------------------------ the count equals the enumeration *)
Lemma length_flat_map_const : forall {A B} (f : A -> list B) (l : list A) (k : nat),
  (forall a, length (f a) = k) -> length (flat_map f l) = (length l * k)%nat.
Proof.
  intros A B f l k H. induction l as [|a r IH]; cbn [flat_map length]; [reflexivity|].
  rewrite app_length, H, IH. lia.
Qed.

Theorem count_is_length : forall t : node, N.of_nat (length (expand t)) = num_variants t.
Proof.
  induction t as [s | l IH | l IH] using node_ind'.
  - reflexivity.
  - cbn [expand num_variants]. induction l as [|x r IHr]; [reflexivity|].
    inversion IH as [|y ys Hx Hr]; subst. specialize (IHr Hr).
    rewrite (length_flat_map_const _ _ (length ((fix go (l : list node) : list bytes :=
                match l with [] => [[]] | x :: r => flat_map (fun a => map (app a) (go r)) (expand x) end) r))).
    + rewrite Nat2N.inj_mul. f_equal; [exact Hx | exact IHr].
    + intro a. apply map_length.
  - cbn [expand num_variants]. induction l as [|x r IHr]; [reflexivity|].
    inversion IH as [|y ys Hx Hr]; subst. specialize (IHr Hr).
    rewrite app_length, Nat2N.inj_add. f_equal; [exact Hx | exact IHr].
Qed.

(* ------------------------------------------------------------------ Go's int count saturates at math.MaxInt *)
(* what the saturating count knows about the mathematical count n: it is exact, or it is MaxInt *)
Definition sat_of (r : Z) (n : N) : Prop := (0 <= r <= max_int)%Z /\ (r = max_int \/ r = Z.of_N n).

Lemma div_max_lt : forall v, (2 <= v)%Z -> (max_int / v < max_int)%Z.
Proof. intros v H. apply Z.div_lt; unfold max_int; lia. Qed.

Lemma mul_div_le_max : forall a v, (0 < v)%Z -> (a <= max_int / v)%Z -> (a * v <= max_int)%Z.
Proof.
  intros a v Hv H. pose proof (Z.mul_div_le max_int v Hv) as M.
  assert (a * v <= (max_int / v) * v)%Z by (apply Z.mul_le_mono_nonneg_r; lia). lia.
Qed.

Lemma seq_loop_sat : forall (l : list node),
  Forall (fun x => sat_of (num_variants64 x) (num_variants x)) l ->
  forall acc tacc, sat_of acc tacc ->
  sat_of ((fix go (l : list node) (num : Z) : Z :=
             match l with
             | [] => num
             | x :: r => let v := num_variants64 x in
                         if negb (v =? 0)%Z && (max_int / v <? num)%Z then max_int else go r (num * v)%Z
             end) l acc)
         (tacc * (fix go (l : list node) : N := match l with [] => 1 | x :: r => num_variants x * go r end) l).
Proof.
  induction l as [|x r IH]; intros HF acc tacc Hacc.
  - rewrite N.mul_1_r. exact Hacc.
  - inversion HF as [|y ys Hx Hr]; subst. cbv zeta.
    destruct (negb (num_variants64 x =? 0)%Z && (max_int / num_variants64 x <? acc)%Z) eqn:E.
    + unfold sat_of, max_int. split; [lia | left; reflexivity].
    + rewrite N.mul_assoc. apply (IH Hr). clear IH Hr HF.
      destruct Hx as [[Hv0 Hv1] Hv], Hacc as [[Ha0 Ha1] Ha].
      set (v := num_variants64 x) in *.
      destruct (Z.eq_dec v 0) as [Hz|Hz].
      * (* v = 0: exact, the product is 0 *)
        rewrite Hz, Z.mul_0_r. destruct Hv as [Hv|Hv]; [unfold max_int in *; lia|].
        assert (num_variants x = 0) by lia. rewrite H, N.mul_0_r. unfold sat_of, max_int. split; [lia | right; reflexivity].
      * assert (Hvpos : (0 < v)%Z) by lia.
        assert (Hle : (acc <= max_int / v)%Z).
        { apply andb_false_iff in E. destruct E as [E|E]; [apply negb_false_iff in E; lia | lia]. }
        pose proof (mul_div_le_max _ _ Hvpos Hle) as Hprod.
        split; [split; [apply Z.mul_nonneg_nonneg; lia | exact Hprod]|].
        destruct Ha as [Ha|Ha]; destruct Hv as [Hv|Hv].
        -- (* both MaxInt: then acc <= MaxInt/MaxInt = 1, impossible *)
           exfalso. rewrite Hv in Hle. replace (max_int / max_int)%Z with 1%Z in Hle by reflexivity. unfold max_int in *. lia.
        -- (* acc = MaxInt, v exact: v must be 1 *)
           destruct (Z_lt_le_dec v 2) as [Hs|Hs].
           ++ assert (v = 1)%Z by lia. left. rewrite H, Z.mul_1_r. exact Ha.
           ++ exfalso. pose proof (div_max_lt _ Hs). lia.
        -- (* v = MaxInt, acc exact: acc <= 1 *)
           rewrite Hv in Hle. replace (max_int / max_int)%Z with 1%Z in Hle by reflexivity.
           destruct (Z.eq_dec acc 0) as [H0|H0].
           ++ right. rewrite H0 in *. assert (tacc = 0) by lia. subst tacc. reflexivity.
           ++ assert (acc = 1)%Z by lia. left. rewrite H, Z.mul_1_l. exact Hv.
        -- right. rewrite Ha, Hv. lia.
Qed.

Lemma alt_loop_sat : forall (l : list node),
  Forall (fun x => sat_of (num_variants64 x) (num_variants x)) l ->
  forall acc tacc, sat_of acc tacc ->
  sat_of ((fix go (l : list node) (num : Z) : Z :=
             match l with
             | [] => num
             | x :: r => let v := num_variants64 x in
                         if (max_int - v <? num)%Z then max_int else go r (num + v)%Z
             end) l acc)
         (tacc + (fix go (l : list node) : N := match l with [] => 0 | x :: r => num_variants x + go r end) l).
Proof.
  induction l as [|x r IH]; intros HF acc tacc Hacc.
  - rewrite N.add_0_r. exact Hacc.
  - inversion HF as [|y ys Hx Hr]; subst. cbv zeta.
    destruct (max_int - num_variants64 x <? acc)%Z eqn:E.
    + unfold sat_of, max_int. split; [lia | left; reflexivity].
    + rewrite N.add_assoc. apply (IH Hr). clear IH Hr HF.
      destruct Hx as [[Hv0 Hv1] Hv], Hacc as [[Ha0 Ha1] Ha].
      set (v := num_variants64 x) in *.
      split; [lia|].
      destruct Ha as [Ha|Ha]; destruct Hv as [Hv|Hv].
      * exfalso. unfold max_int in *. lia.
      * assert (v = 0)%Z by lia. left. lia.
      * assert (acc = 0)%Z by lia. left. lia.
      * right. lia.
Qed.

Theorem count64_saturates : forall t : node, sat_of (num_variants64 t) (num_variants t).
Proof.
  induction t as [s | l IH | l IH] using node_ind'.
  - unfold sat_of, max_int. cbn. split; [lia | right; reflexivity].
  - cbn [num_variants64 num_variants].
    pose proof (seq_loop_sat l IH 1%Z 1) as H. rewrite N.mul_1_l in H. apply H.
    unfold sat_of, max_int. split; [lia | right; reflexivity].
  - cbn [num_variants64 num_variants].
    pose proof (alt_loop_sat l IH 0%Z 0) as H. rewrite N.add_0_l in H. apply H.
    unfold sat_of, max_int. split; [lia | right; reflexivity].
Qed.

Lemma parse_pattern_count : forall p t, parse_pattern p = Some t -> (num_variants64 t <= 1000)%Z.
Proof.
  intros p t H. unfold parse_pattern in H.
  destruct (scan p) as [ts|]; [|discriminate].
  destruct (parse_go ts [] []) as [t'|]; [|discriminate].
  destruct (Z.of_N max_expanded <? num_variants64 t')%Z eqn:E; [discriminate|].
  inversion H; subst. unfold max_expanded in E. lia.
Qed.

(* a reported count below MaxInt is the number of expansions, for every tree *)
Lemma count64_exact : forall t, (num_variants64 t < max_int)%Z -> num_variants64 t = Z.of_nat (length (expand t)).
Proof.
  intros t H. destruct (count64_saturates t) as [_ [E|E]]; [lia|].
  rewrite E, <- (count_is_length t). lia.
Qed.

Theorem accepted_within_limit : forall p t, parse_pattern p = Some t ->
  num_variants64 t = Z.of_nat (length (expand t)) /\ (length (expand t) <= 1000)%nat.
Proof.
  intros p t H. pose proof (parse_pattern_count _ _ H) as Hc.
  assert (E : num_variants64 t = Z.of_nat (length (expand t))) by (apply count64_exact; unfold max_int; lia).
  split; [exact E | lia].
Qed.

(* rendering keeps the number of variants *)
Lemma all_some_length : forall {A} (l : list (option A)) r, all_some l = Some r -> length r = length l.
Proof.
  induction l as [|[x|] t IH]; intros r H; cbn in H; [inversion H; reflexivity| |discriminate].
  destruct (all_some t) as [r'|]; cbn in H; [|discriminate]. inversion H; subst. cbn. f_equal. apply IH. reflexivity.
Qed.

Theorem render_all_length : forall t rs, render_all t = Some rs -> length rs = length (expand t).
Proof. intros t rs H. unfold render_all in H. rewrite (all_some_length _ _ H). apply map_length. Qed.

(* the 64-group pattern (2^64 expansions): its count saturates, so it is rejected (it was accepted with a reported count of 0
   before /repo commit 1160e46) *)
Fixpoint repeat_bytes (n : nat) (s : bytes) : bytes := match n with O => [] | S k => s ++ repeat_bytes k s end.
Definition overflow_pattern : bytes := cSLASH :: repeat_bytes 64 [cOPEN; 97; cCOMMA; 98; cCLOSE].

Lemma overflow_pattern_rejected :
  parse_pattern overflow_pattern = None /\
  exists ts t, scan overflow_pattern = Some ts /\ parse_go ts [] [] = Some t /\
               num_variants64 t = max_int /\ num_variants t = 18446744073709551616.
Proof.
  split; [vm_compute; reflexivity|]. eexists. eexists.
  split; [vm_compute; reflexivity|]. split; [vm_compute; reflexivity|]. split; vm_compute; reflexivity.
Qed.

(* ------------------------------------------------------------------ invalid patterns are rejected *)
(* no unescaped [ or ] and no trailing backslash, written independently of the scanner *)
Fixpoint lexically_ok_fuel (f : nat) (s : bytes) : bool :=
  match f with
  | O => true
  | S f' => match s with
            | [] => true
            | c :: r => if c =? cBSL then match r with [] => false | _ :: r2 => lexically_ok_fuel f' r2 end
                        else if (c =? cLBR) || (c =? cRBR) then false
                        else lexically_ok_fuel f' r
            end
  end.
Definition lexically_ok (s : bytes) : bool := lexically_ok_fuel (S (length s)) s.

Lemma scan_go_ok : forall f s cur acc ts, (length s < f)%nat -> scan_go s cur acc = Some ts -> lexically_ok_fuel f s = true.
Proof.
  induction f as [|f IH]; intros s cur acc ts Hl H; [lia|].
  destruct s as [|c r]; [reflexivity|]. cbn [scan_go] in H. cbn [lexically_ok_fuel]. cbn [length] in Hl.
  destruct (c =? cOPEN) eqn:E1.
  { assert (c =? cBSL = false) by (unfold cOPEN, cBSL in *; lia). assert ((c =? cLBR) || (c =? cRBR) = false) by (unfold cOPEN, cLBR, cRBR in *; lia).
    rewrite H0, H1. eapply IH; [|exact H]. lia. }
  destruct (c =? cCLOSE) eqn:E2.
  { assert (c =? cBSL = false) by (unfold cCLOSE, cBSL in *; lia). assert ((c =? cLBR) || (c =? cRBR) = false) by (unfold cCLOSE, cLBR, cRBR in *; lia).
    rewrite H0, H1. eapply IH; [|exact H]. lia. }
  destruct (c =? cCOMMA) eqn:E3.
  { assert (c =? cBSL = false) by (unfold cCOMMA, cBSL in *; lia). assert ((c =? cLBR) || (c =? cRBR) = false) by (unfold cCOMMA, cLBR, cRBR in *; lia).
    rewrite H0, H1. eapply IH; [|exact H]. lia. }
  destruct (c =? cBSL) eqn:E4.
  { destruct r as [|c2 r2]; [discriminate|]. eapply IH; [|exact H]. cbn [length] in Hl. lia. }
  destruct ((c =? cLBR) || (c =? cRBR)) eqn:E5; [discriminate|].
  eapply IH; [|exact H]. lia.
Qed.

(* brace balance of a token list, written independently of the parser: d = number of currently open groups *)
Fixpoint balanced (ts : list token) (d : nat) : bool :=
  match ts with
  | [] => Nat.eqb d 0
  | TOpen :: r => balanced r (S d)
  | TClose :: r => match d with O => false | S d' => balanced r d' end
  | _ :: r => balanced r d
  end.

Lemma parse_go_balanced : forall ts stack top t, parse_go ts stack top = Some t -> balanced ts (length stack) = true.
Proof.
  induction ts as [|tok r IH]; intros stack top t H.
  - cbn in H. destruct stack; [reflexivity | discriminate].
  - cbn [parse_go] in H. cbn [balanced]. destruct tok.
    + destruct stack as [|[alts cur] st]; apply IH in H; exact H.
    + destruct (max_expanded <=? N.of_nat (S (length stack))); [discriminate|]. apply IH in H. exact H.
    + destruct stack as [|[alts cur] st]; [discriminate|].
      destruct st as [|[alts' cur'] st']; apply IH in H; exact H.
    + destruct stack as [|[alts cur] st]; apply IH in H; exact H.
Qed.

Lemma parse_go_depth : forall ts stack top t, parse_go ts stack top = Some t -> (length stack < 1000)%nat ->
  (fix depth_ok (ts : list token) (d : nat) : Prop :=
     match ts with
     | [] => True
     | TOpen :: r => (S d < 1000)%nat /\ depth_ok r (S d)
     | TClose :: r => depth_ok r (pred d)
     | _ :: r => depth_ok r d
     end) ts (length stack).
Proof.
  induction ts as [|tok r IH]; intros stack top t H Hd; [exact I|].
  cbn [parse_go] in H. destruct tok.
  - destruct stack as [|[alts cur] st]; apply IH in H; auto.
  - destruct (max_expanded <=? N.of_nat (S (length stack))) eqn:E; [discriminate|].
    unfold max_expanded in E. assert (S (length stack) < 1000)%nat by lia.
    split; [assumption|]. apply IH in H; auto.
  - destruct stack as [|[alts cur] st]; [discriminate|].
    destruct st as [|[alts' cur'] st']; apply IH in H; cbn [length pred] in *; auto; lia.
  - destruct stack as [|[alts cur] st]; apply IH in H; auto.
Qed.

Theorem accepted_is_wellformed : forall p t, parse_pattern p = Some t ->
  (exists r, p = cSLASH :: r) /\ lexically_ok p = true /\
  (exists ts, scan p = Some ts /\ balanced ts 0 = true) /\ (num_variants64 t <= 1000)%Z.
Proof.
  intros p t H. pose proof (parse_pattern_count _ _ H) as Hc. unfold parse_pattern in H.
  destruct (scan p) as [ts|] eqn:Es; [|discriminate].
  destruct (parse_go ts [] []) as [t'|] eqn:Ep; [|discriminate].
  unfold scan in Es. destruct p as [|c r]; [discriminate|].
  destruct (c =? cSLASH) eqn:Ec; [|discriminate].
  split; [exists r; f_equal; lia|]. split.
  - unfold lexically_ok. eapply scan_go_ok; [|exact Es]. lia.
  - split; [|exact Hc]. exists ts. split; [reflexivity|]. exact (parse_go_balanced _ _ _ _ Ep).
Qed.

(* ------------------------------------------------------------------ matching: doublestar is a section variable *)
Section Matching.
  (* gm pattern path = PathPatternMatches(pattern, path): doublestar.Match plus the trailing-slash rule; third-party *)
  Variable gm : bytes -> bytes -> bool.

  Lemma normal_form_render : forall t, normal_form t = true -> render_all t = Some (expand t).
  Proof.
    intros t H. unfold normal_form in H. unfold render_all.
    induction (expand t) as [|s r IH]; [reflexivity|].
    cbn [forallb map all_some] in *. apply andb_prop in H. destruct H as [H1 H2].
    destruct (normalise s) as [s'|]; [|discriminate].
    rewrite (IH H2). cbn. f_equal. f_equal.
    clear -H1. revert s' H1. induction s as [|x s IHs]; intros [|y s'] H; cbn in H; try discriminate; [reflexivity|].
    apply andb_prop in H. destruct H as [Hx Hs]. f_equal; [lia | apply IHs; exact Hs].
  Qed.

  (* if, for this pattern and path, doublestar's handling of groups amounts to trying every alternative (it splices each
     alternative into the pattern text), and rendering does not rewrite any expansion, then the pattern matches the path
     exactly when one of its rendered variants does *)
  Theorem match_iff_some_rendered_variant : forall p t rs path,
    parse_pattern p = Some t -> render_all t = Some rs -> normal_form t = true ->
    gm p path = existsb (fun s => gm s path) (expand t) ->
    gm p path = existsb (fun v => gm v path) rs.
  Proof.
    intros p t rs path _ Hr Hn Hb. rewrite (normal_form_render _ Hn) in Hr. inversion Hr; subst. exact Hb.
  Qed.

  (* outside the normal form the statement fails for every matcher that agrees with doublestar on two facts (both observed
     on the real code on every run): `/**/*` does not match `/`, `/**` does *)
  Definition p_dsstar : bytes := [cSLASH; cSTAR; cSTAR; cSLASH; cSTAR].
  Definition p_ds : bytes := [cSLASH; cSTAR; cSTAR].
  Theorem normalised_variant_refuted :
    gm p_dsstar [cSLASH] = false -> gm p_ds [cSLASH] = true ->
    exists p t rs path, parse_pattern p = Some t /\ render_all t = Some rs /\ normal_form t = false /\
                        expand t = [p] /\ gm p path <> existsb (fun v => gm v path) rs.
  Proof.
    intros H1 H2. exists p_dsstar. eexists. exists [p_ds], [cSLASH].
    split; [vm_compute; reflexivity|]. split; [vm_compute; reflexivity|]. split; [vm_compute; reflexivity|].
    split; [vm_compute; reflexivity|]. cbn [existsb]. rewrite H1, H2. discriminate.
  Qed.
End Matching.

(* ------------------------------------------------------------------ the same statements for the ported matcher (closed facts) *)
Definition p_star_empty_group : bytes := [cSLASH; cSTAR; cOPEN; cCLOSE].     (* slash star brace-open brace-close *)

(* rendering rewrites: the pattern slash-doublestar-slash-star does not match the root path, its only rendered variant does *)
Lemma ported_normalised_variant_refuted :
  exists p t rs path, parse_pattern p = Some t /\ render_all t = Some rs /\ normal_form t = false /\ expand t = [p] /\
                      path_pattern_matches p path <> existsb (fun v => path_pattern_matches v path) rs.
Proof.
  apply (normalised_variant_refuted path_pattern_matches); vm_compute; reflexivity.
Qed.

(* even WITHOUT any rewriting the matcher does not treat groups as "some syntactic expansion matches": a star directly before
   a group is consumed before the alternative is spliced in. The pattern is in normal form, its only expansion is slash-star,
   which matches the root path, while the pattern itself does not *)
Lemma ported_syntactic_expansion_refuted :
  exists p t path, parse_pattern p = Some t /\ normal_form t = true /\
                   path_pattern_matches p path = false /\ existsb (fun s => path_pattern_matches s path) (expand t) = true.
Proof.
  exists p_star_empty_group. eexists. exists [cSLASH].
  split; [vm_compute; reflexivity|]. split; [vm_compute; reflexivity|]. split; vm_compute; reflexivity.
Qed.

(* ------------------------------------------------------------------ rendered variants keep the escapes of brackets and braces *)
Definition plainb (c : N) : bool :=
  negb ((c =? cBSL) || (c =? cLBR) || (c =? cRBR) || (c =? cOPEN) || (c =? cCLOSE)).

(* literal text as parsePatternVariant accumulates it (most recent byte first): plain bytes and escape pairs *)
Inductive okrev : bytes -> Prop :=
| okrev_nil : okrev []
| okrev_plain : forall c r, plainb c = true -> okrev r -> okrev (c :: r)
| okrev_pair : forall c2 r, okrev r -> okrev (c2 :: cBSL :: r).

Lemma scan_ok_app : forall a e b, scan_ok e a = true -> scan_ok e (a ++ b) = scan_ok false b.
Proof.
  induction a as [|c r IH]; intros e b H; cbn [app scan_ok] in *.
  - destruct e; [discriminate | reflexivity].
  - destruct e; [apply IH; exact H|].
    destruct (c =? cBSL); [apply IH; exact H|].
    destruct ((c =? cLBR) || (c =? cRBR) || (c =? cOPEN) || (c =? cCLOSE)); [discriminate | apply IH; exact H].
Qed.

Lemma okrev_scan_ok : forall r, okrev r -> scan_ok false (rev r) = true.
Proof.
  induction 1 as [|c r Hp _ IH|c2 r _ IH]; [reflexivity | |].
  - cbn [rev]. rewrite (scan_ok_app _ _ _ IH). cbn [scan_ok]. unfold plainb in Hp.
    apply negb_true_iff in Hp. repeat (apply orb_false_iff in Hp; destruct Hp as [Hp ?]).
    rewrite Hp. replace ((c =? cLBR) || (c =? cRBR) || (c =? cOPEN) || (c =? cCLOSE)) with false; [reflexivity|].
    symmetry. repeat (apply orb_false_iff; split); assumption.
  - cbn [rev]. rewrite <- app_assoc. rewrite (scan_ok_app _ _ _ IH). reflexivity.
Qed.

Definition comp_ok (c : comp) : Prop := scan_ok false (comp_string c) = true.

Lemma comp_ok_nonlit : forall t x, (t =? tLIT) = false -> comp_ok (t, x).
Proof.
  intros t x H. unfold comp_ok, comp_string. cbn [fst snd].
  destruct (t =? tGLOB); [reflexivity|]. destruct ((t =? tSDT) || (t =? tSD)); [reflexivity|].
  destruct (t =? tSDST); [reflexivity|]. destruct (t =? tSEP); [reflexivity|]. destruct (t =? tANY); [reflexivity|].
  rewrite H. reflexivity.
Qed.

Lemma comp_ok_lit : forall x, scan_ok false x = true -> comp_ok (tLIT, x).
Proof. intros x H. unfold comp_ok, comp_string. cbn. exact H. Qed.

(* a stack entry kept from the stack with its type tested to be a non-literal constant *)
Lemma comp_ok_retype : forall t x k, (t =? k) = true -> (k =? tLIT) = false -> comp_ok (t, x).
Proof. intros t x k H1 H2. apply N.eqb_eq in H1. subst. apply comp_ok_nonlit. exact H2. Qed.

Ltac inv_forall := repeat match goal with H : Forall comp_ok (_ :: _) |- _ => inversion H; subst; clear H end.
Ltac solve_ok := repeat first [ assumption | apply Forall_nil | apply Forall_cons | (apply comp_ok_nonlit; reflexivity) ].

Lemma reduce_ok : forall st, Forall comp_ok st -> Forall comp_ok (reduce_prev_doublestar st).
Proof.
  intros st H. unfold reduce_prev_doublestar. destruct st as [|[u x] r]; [exact H|].
  destruct (u =? tSD); [inv_forall; unfold mk; solve_ok | exact H].
Qed.

Lemma consume_ok : forall runes st, okrev runes -> Forall comp_ok st -> Forall comp_ok (consume_text runes st).
Proof.
  intros runes st Hr Hs. unfold consume_text. destruct runes as [|c r]; [exact Hs|].
  apply Forall_cons; [apply comp_ok_lit; apply okrev_scan_ok; exact Hr | apply reduce_ok; exact Hs].
Qed.

Lemma add_globstar_ok : forall st, Forall comp_ok st -> Forall comp_ok (add_globstar st).
Proof.
  intros st H. unfold add_globstar. destruct (top_is st tGLOB || top_is st tSD); [exact H|]. unfold mk. solve_ok.
Qed.

Lemma components_go_ok : forall n s runes st res, (length s <= n)%nat ->
  okrev runes -> Forall comp_ok st -> components_go s runes st = Some res -> Forall comp_ok res.
Proof.
  induction n as [|n IH]; intros s runes st res Hl Hr Hs H.
  - destruct s; [|cbn in Hl; lia]. cbn in H. inversion H; subst. apply consume_ok; assumption.
  - destruct s as [|c r]; [cbn in H; inversion H; subst; apply consume_ok; assumption|].
    cbn [length] in Hl. cbn [components_go] in H.
    destruct (c =? cSLASH).
    { eapply IH; [| apply okrev_nil | | exact H]; [lia|].
      pose proof (consume_ok _ _ Hr Hs) as H1. set (st1 := consume_text runes st) in *.
      assert (H2 : Forall comp_ok
                (match st1 with
                 | (a, _) :: (b, _) :: (d, _) :: rest =>
                     if (a =? tGLOB) && (b =? tSEP) && (d =? tSD) then mk tSD :: mk tGLOB :: mk tSEP :: rest else st1
                 | _ => st1
                 end)).
      { destruct st1 as [|[a xa] [|[b xb] [|[d xd] rest]]]; try exact H1.
        destruct ((a =? tGLOB) && (b =? tSEP) && (d =? tSD)); [inv_forall; unfold mk; solve_ok | exact H1]. }
      match goal with |- Forall comp_ok (if top_is ?x tSEP then _ else _) => destruct (top_is x tSEP) end;
        [exact H2 | unfold mk; solve_ok]. }
    destruct (c =? cQM).
    { eapply IH; [| apply okrev_nil | | exact H]; [lia|].
      pose proof (consume_ok _ _ Hr (reduce_ok _ Hs)) as H1. set (st1 := consume_text runes (reduce_prev_doublestar st)) in *.
      destruct st1 as [|[a xa] rest]; [unfold mk; solve_ok|].
      destruct (a =? tGLOB); inv_forall; unfold mk; solve_ok. }
    destruct (c =? cDSTAR).
    { eapply IH; [| apply okrev_nil | | exact H]; [lia|].
      pose proof (consume_ok _ _ Hr Hs) as H1. set (st1 := consume_text runes st) in *.
      destruct st1 as [|[a xa] [|[b xb] rest]].
      - apply add_globstar_ok. exact H1.
      - destruct (a =? tSEP); [inv_forall; unfold mk; solve_ok | apply add_globstar_ok; exact H1].
      - destruct ((a =? tSEP) && (b =? tSD)); [inv_forall; solve_ok|].
        destruct (a =? tSEP); [inv_forall; unfold mk; solve_ok | apply add_globstar_ok; exact H1]. }
    destruct (c =? cSTAR).
    { eapply IH; [| apply okrev_nil | | exact H]; [lia|].
      apply add_globstar_ok. apply consume_ok; [exact Hr | apply reduce_ok; exact Hs]. }
    destruct (c =? cBSL) eqn:Eb.
    { destruct r as [|c2 r2]; [discriminate|]. cbn [length] in Hl.
      destruct (is_special c2) eqn:Es.
      - eapply IH; [| | exact Hs | exact H]; [lia|].
        apply N.eqb_eq in Eb. subst c. apply okrev_pair. exact Hr.
      - eapply IH; [| | exact Hs | exact H]; [lia|].
        apply okrev_plain; [|exact Hr]. unfold is_special in Es. unfold plainb.
        repeat (apply orb_false_iff in Es; destruct Es as [Es ?]).
        apply negb_true_iff. repeat (apply orb_false_iff; split); assumption. }
    destruct ((c =? cLBR) || (c =? cRBR) || (c =? cOPEN) || (c =? cCLOSE)) eqn:Ebr; [discriminate|].
    eapply IH; [| | exact Hs | exact H]; [lia|].
    apply okrev_plain; [|exact Hr]. unfold plainb. rewrite Eb. cbn [orb]. rewrite Ebr. reflexivity.
Qed.

Lemma finish_ok : forall st, Forall comp_ok st -> Forall comp_ok (finish st).
Proof.
  intros st H. unfold finish.
  assert (H1 : Forall comp_ok
            (match st with
             | (a, _) :: (b, _) :: (d, x) :: rest =>
                 if (a =? tGLOB) && (b =? tSEP) && (d =? tSD) then (d, x) :: rest else st
             | _ => st
             end)).
  { destruct st as [|[a xa] [|[b xb] [|[d xd] rest]]]; try exact H.
    destruct ((a =? tGLOB) && (b =? tSEP) && (d =? tSD)); [inv_forall; solve_ok | exact H]. }
  match goal with |- Forall comp_ok (match ?s with _ => _ end) => set (st1 := s) in * end.
  destruct st1 as [|[a xa] [|[b xb] rest]].
  - unfold mk. solve_ok.
  - destruct (a =? tSD); unfold mk; solve_ok.
  - destruct ((a =? tSEP) && (b =? tSD)); [inv_forall; unfold mk; solve_ok|].
    destruct (a =? tSD); [inv_forall; unfold mk; solve_ok | unfold mk; solve_ok].
Qed.

Lemma flat_map_scan_ok : forall cs, Forall comp_ok cs -> scan_ok false (variant_string cs) = true.
Proof.
  induction 1 as [|c r Hc _ IH]; [reflexivity|].
  unfold variant_string in *. cbn [flat_map]. rewrite (scan_ok_app _ _ _ Hc). exact IH.
Qed.

(* for EVERY input string: if parsePatternVariant succeeds, the variant string it builds has every bracket and brace escaped *)
Theorem variants_keep_escapes : forall s cs, components s = Some cs -> scan_ok false (variant_string cs) = true.
Proof.
  intros s cs H. unfold components in H.
  destruct (components_go (prepare (S (length s)) s) [] []) as [st|] eqn:E; [|discriminate].
  inversion H; subst. apply flat_map_scan_ok. apply Forall_rev. apply finish_ok.
  eapply (components_go_ok _ _ _ _ _ (le_n _) okrev_nil (Forall_nil _) E).
Qed.

Theorem rendered_keep_escapes : forall t rs, render_all t = Some rs -> Forall (fun v => scan_ok false v = true) rs.
Proof.
  intros t rs H. unfold render_all in H. revert rs H.
  induction (expand t) as [|s r IH]; intros rs H; cbn [map all_some] in H.
  - inversion H. constructor.
  - unfold normalise in H at 1. destruct (components s) as [cs|] eqn:E; cbn [option_map] in H; [|discriminate].
    destruct (all_some (map normalise r)) as [rs'|]; cbn [option_map] in H; [|discriminate].
    inversion H; subst. constructor; [eapply variants_keep_escapes; eauto | apply IH; reflexivity].
Qed.

(* ------------------------------------------------------------------ Compare *)
Lemma bytes_cmp_antisym : forall a b, bytes_cmp b a = CompOpp (bytes_cmp a b).
Proof.
  induction a as [|x a IH]; intros [|y b]; cbn; try reflexivity.
  rewrite (N.compare_antisym x y). destruct (x ?= y); cbn; auto.
Qed.

Lemma bytes_cmp_eq : forall a b, bytes_cmp a b = Eq -> a = b.
Proof.
  induction a as [|x a IH]; intros [|y b] H; cbn in H; try discriminate; [reflexivity|].
  destruct (x ?= y) eqn:E; try discriminate. apply N.compare_eq in E. subst. f_equal. apply IH. exact H.
Qed.

Lemma bytes_cmp_refl : forall a, bytes_cmp a a = Eq.
Proof. induction a as [|x a IH]; cbn; [reflexivity|]. rewrite N.compare_refl. exact IH. Qed.

Lemma bytes_cmp_trans : forall a b c, bytes_cmp a b = Lt -> bytes_cmp b c = Lt -> bytes_cmp a c = Lt.
Proof.
  induction a as [|x a IH]; intros [|y b] [|z c] H1 H2; cbn in *; try discriminate; try reflexivity.
  destruct (x ?= y) eqn:E1; destruct (y ?= z) eqn:E2; try discriminate.
  - apply N.compare_eq in E1, E2. subst. rewrite N.compare_refl. eapply IH; eauto.
  - apply N.compare_eq in E1. subst. rewrite E2. reflexivity.
  - apply N.compare_eq in E2. subst. rewrite E1. reflexivity.
  - rewrite N.compare_lt_iff in *. assert (x < z) by lia. rewrite <- N.compare_lt_iff in H. rewrite H. reflexivity.
Qed.

(* step: decided results flip, undecided stay undecided *)
Lemma step_antisym : forall a b, step b a = option_map CompOpp (step a b).
Proof.
  intros [t s] [u r]. unfold step. cbn [fst snd]. rewrite (N.compare_antisym t u).
  destruct (t ?= u) eqn:E; cbn; try reflexivity.
  apply N.compare_eq in E. subst u.
  destruct ((t =? tGLOB) || (t =? tSD)).
  - rewrite (N.compare_antisym (N.of_nat (length s)) (N.of_nat (length r))).
    destruct (N.of_nat (length s) ?= N.of_nat (length r)); reflexivity.
  - destruct (is_terminal t); [reflexivity|]. destruct (t =? tLIT); [|reflexivity].
    rewrite (bytes_cmp_antisym s r). destruct (bytes_cmp s r); reflexivity.
Qed.

Definition hd' (l : list kcomp) : kcomp := match l with [] => kterm | x :: _ => x end.

Lemma compare_unfold : forall l1 l2,
  compare l1 l2 = match step (hd' l1) (hd' l2) with Some c => c | None => compare (tl l1) (tl l2) end.
Proof. intros [|a r1] [|b r2]; reflexivity. Qed.

Theorem compare_antisym : forall l1 l2, compare l2 l1 = CompOpp (compare l1 l2).
Proof.
  intros l1 l2. remember (length l1 + length l2)%nat as n eqn:Hn. revert l1 l2 Hn.
  induction n as [n IH] using lt_wf_ind. intros l1 l2 Hn.
  rewrite (compare_unfold l2 l1), (compare_unfold l1 l2), step_antisym.
  destruct (step (hd' l1) (hd' l2)) as [c|] eqn:E; cbn; [reflexivity|].
  destruct l1 as [|a r1], l2 as [|b r2]; cbn [tl].
  - cbn in E. discriminate.
  - apply (IH (length r2)); cbn in *; lia.
  - apply (IH (length r1)); cbn in *; lia.
  - apply (IH (length r1 + length r2)%nat); cbn in *; lia.
Qed.

Lemma step_none_eq : forall a b, step a b = None -> forall c, step a c = step b c /\ step c a = step c b.
Proof.
  intros [t s] [u r] H c. destruct c as [v w]. unfold step in *. cbn [fst snd] in *.
  destruct (t ?= u) eqn:E; try discriminate. apply N.compare_eq in E. subst u.
  destruct ((t =? tGLOB) || (t =? tSD)) eqn:Ev.
  - destruct (N.of_nat (length s) ?= N.of_nat (length r)) eqn:El; try discriminate.
    apply N.compare_eq in El. rewrite El.
    split; reflexivity || (destruct (v ?= t) eqn:E2; try reflexivity; apply N.compare_eq in E2; subst v; rewrite Ev; reflexivity).
  - destruct (is_terminal t) eqn:Et; [discriminate|].
    destruct (t =? tLIT) eqn:Elit.
    + destruct (bytes_cmp s r) eqn:Eb; try discriminate. apply bytes_cmp_eq in Eb. subst r. split; reflexivity.
    + split; [reflexivity|]. destruct (v ?= t) eqn:E2; try reflexivity.
      apply N.compare_eq in E2. subst v. rewrite Ev, Et, Elit. reflexivity.
Qed.

Lemma step_trans_lt : forall a b c, step a b = Some Lt -> step b c = Some Lt -> step a c = Some Lt.
Proof.
  intros [t s] [u r] [v w] H1 H2. unfold step in *. cbn [fst snd] in *.
  destruct (t ?= u) eqn:E1; try discriminate; destruct (u ?= v) eqn:E2; try discriminate.
  - apply N.compare_eq in E1, E2. subst u v. rewrite N.compare_refl.
    destruct ((t =? tGLOB) || (t =? tSD)).
    + destruct (N.of_nat (length s) ?= N.of_nat (length r)) eqn:L1; try discriminate.
      destruct (N.of_nat (length r) ?= N.of_nat (length w)) eqn:L2; try discriminate.
      rewrite N.compare_gt_iff in *. assert (N.of_nat (length w) < N.of_nat (length s)) by lia.
      rewrite <- N.compare_gt_iff in H. rewrite H. reflexivity.
    + destruct (is_terminal t); [discriminate|]. destruct (t =? tLIT); [|discriminate].
      destruct (bytes_cmp s r) eqn:B1; try discriminate. destruct (bytes_cmp r w) eqn:B2; try discriminate.
      rewrite (bytes_cmp_trans _ _ _ B1 B2). reflexivity.
  - apply N.compare_eq in E1. subst u. rewrite E2. reflexivity.
  - apply N.compare_eq in E2. subst v. rewrite E1. reflexivity.
  - rewrite N.compare_lt_iff in *. assert (t < v) by lia. rewrite <- N.compare_lt_iff in H. rewrite H. reflexivity.
Qed.

(* a decided Eq happens only between two components of the same terminal type: then the other side decides alike *)
Lemma step_eq_terminal : forall a b, step a b = Some Eq -> fst a = fst b /\ is_terminal (fst a) = true.
Proof.
  intros [t s] [u r] H. unfold step in H. cbn [fst snd] in *.
  destruct (t ?= u) eqn:E; try discriminate. apply N.compare_eq in E. subst u.
  destruct ((t =? tGLOB) || (t =? tSD)).
  - destruct (N.of_nat (length s) ?= N.of_nat (length r)); discriminate.
  - destruct (is_terminal t); [auto|]. destruct (t =? tLIT); [|discriminate].
    destruct (bytes_cmp s r); discriminate.
Qed.

Theorem compare_trans_lt : forall a b c, compare a b = Lt -> compare b c = Lt -> compare a c = Lt.
Proof.
  intros a b c. remember (length a + length b + length c)%nat as n eqn:Hn. revert a b c Hn.
  induction n as [n IH] using lt_wf_ind. intros a b c Hn H1 H2.
  rewrite compare_unfold in H1, H2. rewrite compare_unfold.
  destruct (step (hd' a) (hd' b)) as [c1|] eqn:S1; destruct (step (hd' b) (hd' c)) as [c2|] eqn:S2.
  - subst c1 c2. rewrite (step_trans_lt _ _ _ S1 S2). reflexivity.
  - subst c1. destruct (step_none_eq _ _ S2 (hd' a)) as [_ Hx]. rewrite <- Hx, S1. reflexivity.
  - subst c2. destruct (step_none_eq _ _ S1 (hd' c)) as [Hx _]. rewrite Hx, S2. reflexivity.
  - destruct (step_none_eq _ _ S1 (hd' c)) as [Hx _]. rewrite Hx, S2.
    assert (Hlt : (length (tl a) + length (tl b) + length (tl c) < n)%nat).
    { subst n. destruct a, b, c; cbn [tl length hd'] in *; try lia. cbn in S1. discriminate. }
    exact (IH _ Hlt _ _ _ eq_refl H1 H2).
Qed.

Lemma compare_refl : forall a, compare a a = Eq.
Proof.
  intro a. pose proof (compare_antisym a a) as H. destruct (compare a a); cbn in H; congruence.
Qed.

(* ------------------------------------------------------------------ HighestPrecedencePattern is order independent *)
Section Highest.
  Variable A : Type.
  Variable cmp : A -> A -> comparison.
  Variable dom : A -> Prop.
  Hypothesis cmp_antisym : forall x y, cmp y x = CompOpp (cmp x y).
  Hypothesis cmp_trans : forall x y z, cmp x y = Lt -> cmp y z = Lt -> cmp x z = Lt.
  (* Compare returns 0 only between equal variants *)
  Hypothesis cmp_eq : forall x y, dom x -> dom y -> cmp x y = Eq -> x = y.

  Definition pick (cur c : A) : A := match cmp cur c with Lt => c | _ => cur end.

  Lemma cmp_refl_not_lt : forall x, cmp x x <> Lt.
  Proof. intros x H. pose proof (cmp_antisym x x) as E. rewrite H in E. cbn in E. discriminate. Qed.

  (* m >= p and p >= z give m >= z *)
  Lemma ge_trans : forall m p z, dom p -> dom z -> cmp m p <> Lt -> cmp p z <> Lt -> cmp m z <> Lt.
  Proof.
    intros m p z Dp Dz H1 H2 H3.
    destruct (cmp p z) eqn:E; [| congruence |].
    - apply (cmp_eq _ _ Dp Dz) in E. subst z. congruence.
    - assert (Hz : cmp z p = Lt) by (rewrite cmp_antisym, E; reflexivity).
      pose proof (cmp_trans _ _ _ H3 Hz). congruence.
  Qed.

  Lemma fold_pick_max : forall r x, dom x -> Forall dom r ->
    let m := fold_left pick r x in
    In m (x :: r) /\ (forall y, In y (x :: r) -> cmp m y <> Lt).
  Proof.
    induction r as [|c r IH]; intros x Dx Dr; cbn [fold_left].
    - split; [left; reflexivity|]. intros y [Hy|[]]. subst y. apply cmp_refl_not_lt.
    - inversion Dr as [|c' r' Dc Dr']; subst.
      assert (Dp : dom (pick x c)) by (unfold pick; destruct (cmp x c); assumption).
      destruct (IH (pick x c) Dp Dr') as [Hin Hall]. set (m := fold_left pick r (pick x c)) in *.
      assert (Hpx : cmp (pick x c) x <> Lt /\ cmp (pick x c) c <> Lt).
      { unfold pick. destruct (cmp x c) eqn:E.
        - split; [apply cmp_refl_not_lt | congruence].
        - split; [rewrite (cmp_antisym x c), E; discriminate | apply cmp_refl_not_lt].
        - split; [apply cmp_refl_not_lt | congruence]. }
      assert (Hmp : cmp m (pick x c) <> Lt) by (apply Hall; left; reflexivity).
      split.
      + destruct Hin as [Hin|Hin]; [|right; right; exact Hin].
        unfold pick in Hin. destruct (cmp x c); [left | right; left | left]; congruence.
      + intros y [Hy|[Hy|Hy]].
        * subst y. apply (ge_trans m (pick x c) x Dp Dx Hmp). tauto.
        * subst y. apply (ge_trans m (pick x c) c Dp Dc Hmp). tauto.
        * apply Hall. right. exact Hy.
  Qed.

  Theorem highest_order_independent : forall l l', Permutation l l' -> Forall dom l -> highest cmp l = highest cmp l'.
  Proof.
    intros l l' HP HD.
    destruct l as [|x r].
    - apply Permutation_nil in HP. subst. reflexivity.
    - destruct l' as [|x' r']; [apply Permutation_sym, Permutation_nil in HP; discriminate|].
      unfold highest. f_equal.
      assert (HD' : Forall dom (x' :: r')) by (eapply Permutation_Forall; eauto).
      inversion HD as [|a b Dx Dr]; subst. inversion HD' as [|a b Dx' Dr']; subst.
      destruct (fold_pick_max r x Dx Dr) as [Hin Hmax].
      destruct (fold_pick_max r' x' Dx' Dr') as [Hin' Hmax'].
      fold pick. set (m := fold_left pick r x) in *. set (m' := fold_left pick r' x') in *.
      assert (Hm'l : In m' (x :: r)) by (eapply Permutation_in; [apply Permutation_sym; exact HP | exact Hin']).
      assert (Hml' : In m (x' :: r')) by (eapply Permutation_in; [exact HP | exact Hin]).
      pose proof (Hmax _ Hm'l) as H1. pose proof (Hmax' _ Hml') as H2.
      assert (Dm : dom m) by (rewrite Forall_forall in HD; apply HD; exact Hin).
      assert (Dm' : dom m') by (rewrite Forall_forall in HD; apply HD; exact Hm'l).
      destruct (cmp m m') eqn:E; [apply (cmp_eq _ _ Dm Dm' E) | congruence |].
      rewrite (cmp_antisym m m'), E in H2. cbn in H2. congruence.
  Qed.
  Theorem highest_is_maximum : forall l m, Forall dom l -> highest cmp l = Some m ->
    In m l /\ (forall y, In y l -> cmp m y <> Lt).
  Proof.
    intros l m HD H. destruct l as [|x r]; [discriminate|]. unfold highest in H. inversion H; subst; clear H.
    inversion HD as [|a b Dx Dr]; subst. exact (fold_pick_max r x Dx Dr).
  Qed.
End Highest.

(* instantiated: variants as (variant string, keyed components); any decomposition into submatches *)
Definition vcmp (a b : bytes * list kcomp) : comparison := compare (snd a) (snd b).

Theorem highest_precedence_order_independent : forall (l l' : list (bytes * list kcomp)),
  Permutation l l' ->
  (forall x y, In x l -> In y l -> vcmp x y = Eq -> x = y) ->
  highest vcmp l = highest vcmp l'.
Proof.
  intros l l' HP Heq.
  apply (highest_order_independent _ vcmp (fun x => In x l)); auto.
  - intros x y. apply compare_antisym.
  - intros x y z. apply compare_trans_lt.
  - apply Forall_forall. auto.
Qed.

Theorem highest_precedence_is_maximum : forall (l : list (bytes * list kcomp)) m,
  (forall x y, In x l -> In y l -> vcmp x y = Eq -> x = y) ->
  highest vcmp l = Some m -> In m l /\ (forall y, In y l -> vcmp m y <> Lt).
Proof.
  intros l m Heq H.
  apply (highest_is_maximum _ vcmp (fun x => In x l)); auto.
  - intros x y. apply compare_antisym.
  - intros x y z. apply compare_trans_lt.
  - apply Forall_forall. auto.
Qed.

(* ------------------------------------------------------------------ when does Compare return 0: canonical keys *)
Definition is_varwidth (t : N) : bool := (t =? tGLOB) || (t =? tSD).
(* what Compare looks at in a component: its type; the LENGTH of the submatch for * and /**; the submatch text for a literal *)
Definition key (c : kcomp) : N * bytes :=
  (fst c, if is_varwidth (fst c) then [N.of_nat (length (snd c))] else if fst c =? tLIT then snd c else []).
(* the components Compare can reach: up to the first terminal-type component, the implicit terminal if there is none *)
Fixpoint canon (l : list kcomp) : list kcomp :=
  match l with
  | [] => [kterm]
  | c :: r => if is_terminal (fst c) then [c] else c :: canon r
  end.

Lemma step_none_key : forall a b, step a b = None -> key a = key b /\ is_terminal (fst a) = false.
Proof.
  intros [t s] [u r] H. unfold step in H. cbn [fst snd] in *. unfold key, is_varwidth. cbn [fst snd].
  destruct (t ?= u) eqn:E; try discriminate. apply N.compare_eq in E. subst u.
  destruct ((t =? tGLOB) || (t =? tSD)) eqn:Ev.
  - destruct (N.of_nat (length s) ?= N.of_nat (length r)) eqn:El; try discriminate.
    apply N.compare_eq in El. rewrite El. split; [reflexivity|].
    unfold is_terminal, tGLOB, tSD, tSDT, tSDST, tTERM in *. lia.
  - destruct (is_terminal t) eqn:Et; [discriminate|]. split; [|reflexivity].
    destruct (t =? tLIT); [|reflexivity].
    destruct (bytes_cmp s r) eqn:Eb; try discriminate. apply bytes_cmp_eq in Eb. subst. reflexivity.
Qed.

Lemma key_terminal : forall a b, fst a = fst b -> is_terminal (fst a) = true -> key a = key b.
Proof.
  intros [t s] [u r] H Ht. cbn [fst] in *. subst u. unfold key, is_varwidth. cbn [fst snd].
  assert (E1 : (t =? tGLOB) || (t =? tSD) = false) by (unfold is_terminal, tGLOB, tSD, tSDT, tSDST, tTERM in *; lia).
  assert (E2 : (t =? tLIT) = false) by (unfold is_terminal, tLIT, tSDT, tSDST, tTERM in *; lia).
  rewrite E1, E2. reflexivity.
Qed.

Lemma canon_hd : forall l, is_terminal (fst (hd' l)) = true -> canon l = [hd' l].
Proof. intros [|c r] H; [reflexivity|]. cbn [hd'] in H. cbn [canon]. rewrite H. reflexivity. Qed.

Theorem compare_eq_same_keys : forall a b, compare a b = Eq -> map key (canon a) = map key (canon b).
Proof.
  intros a b. remember (length a + length b)%nat as n eqn:Hn. revert a b Hn.
  induction n as [n IH] using lt_wf_ind. intros a b Hn H.
  rewrite compare_unfold in H.
  destruct (step (hd' a) (hd' b)) as [c|] eqn:S.
  - subst c. destruct (step_eq_terminal _ _ S) as [Hf Ht].
    assert (Htb : is_terminal (fst (hd' b)) = true) by (rewrite <- Hf; exact Ht).
    rewrite (canon_hd _ Ht), (canon_hd _ Htb). cbn [map]. f_equal. apply key_terminal; assumption.
  - destruct (step_none_key _ _ S) as [Hk Hnt].
    assert (Hntb : is_terminal (fst (hd' b)) = false).
    { assert (E : fst (hd' a) = fst (hd' b)) by (pose proof (f_equal fst Hk) as F; unfold key in F; cbn [fst] in F; exact F).
      rewrite <- E. exact Hnt. }
    destruct a as [|x a']; [cbn in Hnt; discriminate|]. destruct b as [|y b']; [cbn in Hntb; discriminate|].
    cbn [hd' tl canon] in *. rewrite Hnt, Hntb. cbn [map]. f_equal; [exact Hk|].
    apply (IH (length a' + length b')%nat); [cbn in Hn; lia | reflexivity | exact H].
Qed.

(* total on variants with distinct canonical keys: they are strictly ordered, one way or the other *)
Corollary compare_total_on_distinct : forall a b, map key (canon a) <> map key (canon b) ->
  (compare a b = Lt /\ compare b a = Gt) \/ (compare a b = Gt /\ compare b a = Lt).
Proof.
  intros a b H. pose proof (compare_antisym a b) as A. destruct (compare a b) eqn:E.
  - exfalso. apply H. apply compare_eq_same_keys. exact E.
  - left. split; [reflexivity | rewrite A; reflexivity].
  - right. split; [reflexivity | rewrite A; reflexivity].
Qed.

(* ------------------------------------------------------------------ the match statement for the ported matcher *)
(* executable per (pattern, path): the matcher treats the groups of this pattern as "some syntactic expansion matches" *)
Definition group_transparent (p : bytes) (t : node) (path : bytes) : bool :=
  Bool.eqb (path_pattern_matches p path) (existsb (fun s => path_pattern_matches s path) (expand t)).

Theorem ported_match_iff_some_rendered_variant : forall p t rs path,
  parse_pattern p = Some t -> render_all t = Some rs -> normal_form t = true -> group_transparent p t path = true ->
  path_pattern_matches p path = existsb (fun v => path_pattern_matches v path) rs.
Proof.
  intros p t rs path Hp Hr Hn Hg. apply (match_iff_some_rendered_variant path_pattern_matches p t rs path Hp Hr Hn).
  unfold group_transparent in Hg. apply eqb_prop in Hg. exact Hg.
Qed.

(* ------------------------------------------------------------------ the carve-outs of the match statement, syntactically,
   and the statement itself on a complete finite scope.
   Marked expansion: the syntactic expansion of the pattern text in which byte 1 marks the place where an alternative of a
   group was spliced in and byte 2 where it ends (the markers add no text). *)
Definition mOPEN : N := 1.
Definition mCLOSE : N := 2.
Fixpoint mark_tokens (ts : list token) (depth : nat) : list token :=
  match ts with
  | [] => []
  | TOpen :: r => TOpen :: TText [mOPEN] :: mark_tokens r (S depth)
  | TClose :: r => TText [mCLOSE] :: TClose :: mark_tokens r (pred depth)
  | TComma :: r => match depth with
                   | O => TComma :: mark_tokens r depth
                   | _ => TText [mCLOSE] :: TComma :: TText [mOPEN] :: mark_tokens r depth
                   end
  | tk :: r => tk :: mark_tokens r depth
  end.
Definition marked_expansions (p : bytes) : list bytes :=
  match scan p with
  | Some ts => match parse_go (mark_tokens ts 0) [] [] with Some t => expand t | None => [] end
  | None => []
  end.

Definition is_marker (c : N) : bool := (c =? mOPEN) || (c =? mCLOSE).
(* the text from here on, markers skipped, begins with two stars *)
Fixpoint starts_dstar (s : bytes) (need : nat) : bool :=
  match need with
  | O => true
  | S k => match s with
           | [] => false
           | c :: r => if is_marker c then starts_dstar r need else (c =? cSTAR) && starts_dstar r k
           end
  end.
(* scan a marked expansion; l1 l2 l3 = the last three bytes of real text (l1 most recent; escaped bytes count as 120),
   looking at every place where a group alternative starts *)
Fixpoint carve_scan (s : bytes) (l1 l2 l3 : N) : bool :=
  match s with
  | [] => false
  | c :: r =>
      if c =? mOPEN then
        (l1 =? cSTAR)                                                   (* star-before-group *)
        || ((l1 =? cSLASH) && (l2 =? cSTAR) && (l3 =? cSTAR))           (* doublestar-slash-before-group *)
        || ((l1 =? cSLASH) && starts_dstar r 2)                         (* slash-before-doublestar-group *)
        || carve_scan r l1 l2 l3
      else if c =? mCLOSE then carve_scan r l1 l2 l3
      else if c =? cBSL then match r with
                             | [] => false
                             | _ :: r2 => carve_scan r2 120 l1 l2
                             end
      else carve_scan r c l1 l2
  end.
(* the four recorded classes: rendering rewrites an expansion, or a star / doublestar-slash / slash-before-doublestar stands
   where an alternative is spliced in *)
Definition carved (p : bytes) (t : node) : bool :=
  negb (normal_form t) || existsb (fun m => carve_scan m 0 0 0) (marked_expansions p).

(* the scope: slash followed by at most k tokens over a b / * ? { , } ** ; all clean paths of length at most 4 over a b / *)
Definition scope_tokens : list bytes :=
  [[97]; [98]; [cSLASH]; [cSTAR]; [cQM]; [cOPEN]; [cCOMMA]; [cCLOSE]; [cSTAR; cSTAR]].
Fixpoint token_strings (k : nat) : list bytes :=
  match k with
  | O => [[]]
  | S k' => [] :: flat_map (fun tk => map (app tk) (token_strings k')) scope_tokens
  end.
Definition scope_patterns (k : nat) : list bytes := map (cons cSLASH) (token_strings k).
Fixpoint has_dslash (s : bytes) : bool :=
  match s with
  | a :: r => match r with b :: _ => ((a =? cSLASH) && (b =? cSLASH)) || has_dslash r | [] => false end
  | [] => false
  end.
Fixpoint abs_strings (k : nat) : list bytes :=
  match k with
  | O => [[]]
  | S k' => [] :: flat_map (fun c => map (cons c) (abs_strings k')) [97; 98; cSLASH]
  end.
Definition scope_paths (k : nat) : list bytes :=
  filter (fun s => negb (has_dslash s)) (map (cons cSLASH) (abs_strings k)).

Definition match_ok_or_carved (p path : bytes) : bool :=
  match parse_pattern p with
  | None => true
  | Some t => match render_all t with
              | None => false
              | Some rs => Bool.eqb (path_pattern_matches p path) (existsb (fun v => path_pattern_matches v path) rs)
                           || carved p t
              end
  end.

Lemma scope_check : forallb (fun p => forallb (match_ok_or_carved p) (scope_paths 3)) (scope_patterns 3) = true.
Proof. vm_compute. reflexivity. Qed.

Theorem match_iff_some_variant_on_scope : forall p path t rs,
  In p (scope_patterns 3) -> In path (scope_paths 3) ->
  parse_pattern p = Some t -> render_all t = Some rs -> carved p t = false ->
  path_pattern_matches p path = existsb (fun v => path_pattern_matches v path) rs.
Proof.
  intros p path t rs Hp Hpath Ht Hr Hc.
  pose proof scope_check as S. rewrite forallb_forall in S. specialize (S _ Hp).
  rewrite forallb_forall in S. specialize (S _ Hpath).
  unfold match_ok_or_carved in S. rewrite Ht, Hr, Hc, orb_false_r in S. apply eqb_prop in S. exact S.
Qed.

(* a slash directly before a group with a doublestar alternative (finding key slash-before-doublestar-group) *)
Lemma slash_before_doublestar_group_refuted :
  exists p t rs path, parse_pattern p = Some t /\ render_all t = Some rs /\ normal_form t = true /\
                      path_pattern_matches p path = false /\ existsb (fun v => path_pattern_matches v path) rs = true.
Proof.
  exists [cSLASH; 97; cSLASH; cOPEN; cSTAR; cSTAR; cCLOSE]. eexists. eexists. exists [cSLASH; 97].
  split; [vm_compute; reflexivity|]. split; [vm_compute; reflexivity|]. split; [vm_compute; reflexivity|].
  split; vm_compute; reflexivity.
Qed.

Lemma compare_irreflexive : forall a, compare a a <> Lt.
Proof. intro a. rewrite compare_refl. discriminate. Qed.
