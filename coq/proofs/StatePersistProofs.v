(* C05 — proofs about models/StatePersist.v: identifiers are never reused over arbitrary operation sequences with
   reloads and prunes anywhere; reload after persist gives back the state (up to the documented normalisation);
   completeness of the codec's field lists regenerated from the Go source. *)
From Coq Require Import String List NArith ZArith Bool Lia ZifyBool ZifyN.
Import ListNotations.
Require Import V.lib.Bytes V.lib.Dec V.models.StatePersist V.gen.PersistFields.
Open Scope N_scope.

(* ================================================================== 1. field lists of the Go codec *)
Definition incl_b (a b : list bytes) : bool := forallb (fun x => existsb (beq x) b) a.
Definition same_set (a b : list bytes) : bool := incl_b a b && incl_b b a && (length a =? length b)%nat.

(* the marshal source / unmarshal destination of the two State fields that go through flatten / unflatten *)
Definition state_sources : list bytes :=
  map (fun f => if beq f (bs "warnings") then bs "flattenWarnings" else if beq f (bs "notices") then bs "flattenNotices" else f)
      state_persisted.
Definition state_dests : list bytes :=
  map (fun f => if beq f (bs "warnings") then bs "unflattenWarnings" else if beq f (bs "notices") then bs "unflattenNotices" else f)
      state_persisted.

(* for one struct: (a) every field of the in-memory struct is either persisted (and then part of the model's record)
   or on the list of runtime-only fields; (b) there is one marshalled field per persisted field; (c) MarshalJSON gives
   every marshalled field a value and (d) reads every persisted field; (e) UnmarshalJSON reads every marshalled field
   and (f) assigns every persisted field *)
Definition codec_complete (struct_fields m_fields written mreads ureads assigns persisted runtime sources dests : list bytes) : bool :=
  same_set struct_fields (persisted ++ runtime)
  && (length m_fields =? length persisted)%nat
  && incl_b m_fields written && incl_b sources mreads && incl_b m_fields ureads && incl_b dests assigns.

Lemma codec_fields_complete :
  codec_complete State_struct_fields State_m_fields State_marshal_written State_marshal_reads State_unmarshal_reads
    State_unmarshal_assigns state_persisted state_runtime state_sources state_dests = true /\
  codec_complete Task_struct_fields Task_m_fields Task_marshal_written Task_marshal_reads Task_unmarshal_reads
    Task_unmarshal_assigns task_persisted task_runtime task_persisted task_persisted = true /\
  codec_complete Change_struct_fields Change_m_fields Change_marshal_written Change_marshal_reads Change_unmarshal_reads
    Change_unmarshal_assigns change_persisted change_runtime change_persisted change_persisted = true /\
  codec_complete Notice_struct_fields Notice_m_fields Notice_marshal_written Notice_marshal_reads Notice_unmarshal_reads
    Notice_unmarshal_assigns notice_persisted [] notice_persisted notice_persisted = true /\
  codec_complete Warning_struct_fields Warning_m_fields Warning_marshal_written Warning_marshal_reads
    Warning_unmarshal_reads Warning_unmarshal_assigns warning_persisted [] warning_persisted warning_persisted = true.
Proof. repeat split; vm_compute; reflexivity. Qed.

(* ================================================================== 2. identifiers *)
Inductive kind := KChange | KTask | KLane | KNotice.
Definition kn (k : kind) : N := match k with KChange => 0 | KTask => 1 | KLane => 2 | KNotice => 3 end.
Definition ctr (k : kind) (s : state) : N :=
  match k with KChange => s_last_change s | KTask => s_last_task s | KLane => s_last_lane s | KNotice => s_last_notice s end.

(* l is strictly increasing, above lo, and bounded by hi *)
Fixpoint between (lo : N) (l : list N) (hi : N) : Prop :=
  match l with
  | [] => lo <= hi
  | x :: r => lo < x /\ between x r hi
  end.

Lemma between_app : forall l1 l2 lo mid hi, between lo l1 mid -> between mid l2 hi -> between lo (l1 ++ l2) hi.
Proof.
  induction l1 as [|x l1 IH]; intros l2 lo mid hi H1 H2; simpl in *.
  - destruct l2 as [|y l2]; simpl in *; [lia | destruct H2; split; [lia | assumption]].
  - destruct H1 as [Hx H1]. split; [assumption | eapply IH; eassumption].
Qed.

Lemma between_le : forall l lo hi, between lo l hi -> lo <= hi.
Proof. induction l as [|x l IH]; intros lo hi H; simpl in *; [assumption | destruct H as [H1 H2]; apply IH in H2; lia]. Qed.

Lemma between_sorted : forall l lo hi, between lo l hi -> strictly_increasing_from lo l = true.
Proof.
  induction l as [|x l IH]; intros lo hi H; simpl in *; [reflexivity|].
  destruct H as [H1 H2]. apply andb_true_intro. split; [apply N.ltb_lt; assumption | eapply IH; eassumption].
Qed.

Lemma between_all_above : forall l lo hi, between lo l hi -> Forall (fun x => lo < x /\ x <= hi) l.
Proof.
  induction l as [|x l IH]; intros lo hi H; simpl in *; [constructor|].
  destruct H as [H1 H2]. constructor.
  - split; [assumption | apply between_le in H2; assumption].
  - apply IH in H2. eapply Forall_impl; [|exact H2]. simpl. intros a [Ha Hb]. split; lia.
Qed.

Lemma ids_of_kind_app : forall k a b, ids_of_kind k (a ++ b) = ids_of_kind k a ++ ids_of_kind k b.
Proof. intros. unfold ids_of_kind. rewrite filter_app, map_app. reflexivity. Qed.

Lemma ids_of_kind_notice_ids : forall k l, ids_of_kind (kn k) (notice_ids l) = match k with KNotice => l | _ => [] end.
Proof.
  intros k l. unfold ids_of_kind, notice_ids. induction l as [|x l IH]; [destruct k; reflexivity|].
  destruct k; simpl in *; try assumption. f_equal. assumption.
Qed.

(* ---- counters under the individual operations *)
Lemma ctr_upd_task : forall k id f s, ctr k (upd_task id f s) = ctr k s.
Proof. intros []; reflexivity. Qed.
Lemma ctr_upd_change : forall k id f s, ctr k (upd_change id f s) = ctr k s.
Proof. intros []; reflexivity. Qed.

Lemma add_notice_ctr : forall uid ty key data rep ex now s s' id fresh,
  add_notice uid ty key data rep ex now s = (s', id, fresh) ->
  ctr KChange s' = ctr KChange s /\ ctr KTask s' = ctr KTask s /\ ctr KLane s' = ctr KLane s /\
  (fresh = true -> id = s_last_notice s + 1 /\ s_last_notice s' = id) /\
  (fresh = false -> s_last_notice s' = s_last_notice s).
Proof.
  intros uid ty key data rep ex now s s' id fresh H. unfold add_notice in H.
  destruct (negb (validate_notice ty key)).
  { inversion H; subst. repeat split; try reflexivity; discriminate. }
  destruct (match ex with Some t => (t, s_lnts s) | None => _ end) as [now' lnts'].
  destruct (find (same_nkey uid ty key) (s_notices s)); inversion H; subst; simpl; repeat split; try reflexivity; discriminate.
Qed.

Lemma repeat_notice_ctr : forall n key kd now s s' ids,
  repeat_notice n key kd now s = (s', ids) ->
  ctr KChange s' = ctr KChange s /\ ctr KTask s' = ctr KTask s /\ ctr KLane s' = ctr KLane s /\
  between (s_last_notice s) ids (s_last_notice s').
Proof.
  induction n as [|n IH]; intros key kd now s s' ids H; simpl in H.
  - inversion H; subst. simpl. repeat split; lia.
  - destruct (add_notice None change_update_b key [(bs "kind", kd)] 0 None now s) as [[s1 nid] fresh] eqn:Ha.
    destruct (repeat_notice n key kd now s1) as [s2 ids2] eqn:Hr.
    inversion H; subst. apply add_notice_ctr in Ha. destruct Ha as (A1 & A2 & A3 & A4 & A5).
    apply IH in Hr. destruct Hr as (B1 & B2 & B3 & B4).
    repeat split; try congruence.
    destruct fresh.
    + destruct (A4 eq_refl) as [E1 E2]. simpl. split; [lia|]. rewrite <- E2. assumption.
    + rewrite <- (A5 eq_refl). assumption.
Qed.

Lemma apply_effects_ctr : forall c e now s s' ids,
  apply_effects c e now s = (s', ids) ->
  ctr KChange s' = ctr KChange s /\ ctr KTask s' = ctr KTask s /\ ctr KLane s' = ctr KLane s /\
  between (s_last_notice s) ids (s_last_notice s').
Proof.
  intros c e now s s' ids H. unfold apply_effects in H.
  destruct (find_change c s) as [ch|].
  2:{ inversion H; subst. simpl. repeat split; lia. }
  match type of H with context [repeat_notice ?n ?k ?kd ?nw ?s1] => destruct (repeat_notice n k kd nw s1) as [s2 ids2] eqn:Hr end.
  inversion H; subst. apply repeat_notice_ctr in Hr. destruct Hr as (B1 & B2 & B3 & B4).
  destruct (e_chg_ready e); simpl in *; repeat split; try assumption.
Qed.

(* the step lemma: per kind, the identifiers handed out by one operation lie strictly above the counter before it,
   are strictly increasing, and are bounded by the counter after it *)
Lemma step_between : forall k s o s' iss,
  step s o = (s', iss) -> between (ctr k s) (ids_of_kind (kn k) iss) (ctr k s').
Proof.
  intros k s o s' iss H. destruct o; simpl in H.
  - (* NewChange *)
    unfold new_change in H.
    match type of H with context [add_notice ?a ?b ?c ?d ?e ?f ?g ?s1] =>
      destruct (add_notice a b c d e f g s1) as [[s2 nid] fresh] eqn:Ha end.
    inversion H; subst. apply add_notice_ctr in Ha. destruct Ha as (A1 & A2 & A3 & A4 & A5). simpl in *.
    destruct fresh.
    + destruct (A4 eq_refl) as [E1 E2]. destruct k; simpl; unfold ids_of_kind; simpl; lia.
    + specialize (A5 eq_refl). destruct k; simpl; unfold ids_of_kind; simpl; lia.
  - (* NewTask *) inversion H; subst. destruct k; simpl; unfold ids_of_kind; simpl; lia.
  - (* NewLane *) inversion H; subst. destruct k; simpl; unfold ids_of_kind; simpl; lia.
  - (* AddTask *) inversion H; subst. unfold add_task. destruct (find_task t s) as [tk|]; [destruct (t_change tk =? 0)|];
      simpl; rewrite ?ctr_upd_change, ?ctr_upd_task; lia.
  - inversion H; subst. unfold wait_for. simpl. rewrite !ctr_upd_task. lia.
  - inversion H; subst. unfold join_lane. simpl. rewrite !ctr_upd_task. lia.
  - inversion H; subst. unfold set_data. destruct (target =? 0); [|destruct (target =? 1)]; simpl;
      rewrite ?ctr_upd_change, ?ctr_upd_task; destruct k; simpl; lia.
  - inversion H; subst. unfold del_data. destruct (target =? 0); [|destruct (target =? 1)]; simpl;
      rewrite ?ctr_upd_change, ?ctr_upd_task; destruct k; simpl; lia.
  - inversion H; subst. unfold task_at. simpl. rewrite ctr_upd_task. lia.
  - inversion H; subst. unfold task_log. simpl. rewrite ctr_upd_task. lia.
  - inversion H; subst. unfold set_progress. simpl. rewrite ctr_upd_task. lia.
  - inversion H; subst. unfold acc_doing. simpl. rewrite ctr_upd_task. lia.
  - (* SetStatus *)
    destruct (task_set_status t new now e s) as [s1 ids] eqn:Ht. inversion H; subst. rewrite ids_of_kind_notice_ids.
    unfold task_set_status in Ht. destruct (find_task t s) as [x|].
    2:{ inversion Ht; subst. destruct k; simpl; lia. }
    destruct ((new =? st_done) && (t_status x =? st_abort)). { inversion Ht; subst. destruct k; simpl; lia. }
    destruct (t_status x =? new). { inversion Ht; subst. destruct k; simpl; lia. }
    apply apply_effects_ctr in Ht. destruct Ht as (B1 & B2 & B3 & B4). rewrite ?ctr_upd_task in *.
    destruct k; simpl in *; try lia. assumption.
  - (* SetToWait *)
    destruct (task_set_to_wait t waited now e s) as [s1 ids] eqn:Ht. inversion H; subst. rewrite ids_of_kind_notice_ids.
    unfold task_set_to_wait in Ht. destruct (find_task t s) as [x|].
    2:{ inversion Ht; subst. destruct k; simpl; lia. }
    destruct (t_status x =? st_abort). { inversion Ht; subst. destruct k; simpl; lia. }
    destruct (t_status x =? st_wait). { inversion Ht; subst. destruct k; simpl; lia. }
    apply apply_effects_ctr in Ht. destruct Ht as (B1 & B2 & B3 & B4). rewrite ?ctr_upd_task in *.
    destruct k; simpl in *; try lia. assumption.
  - (* Change.SetStatus *)
    destruct (change_set_status c new now e s) as [s1 ids] eqn:Ht. inversion H; subst. rewrite ids_of_kind_notice_ids.
    unfold change_set_status in Ht. apply apply_effects_ctr in Ht. destruct Ht as (B1 & B2 & B3 & B4).
    rewrite ?ctr_upd_change in *. destruct k; simpl in *; try lia. assumption.
  - (* AddNotice *)
    destruct (add_notice uid ty key data repeat explicit now s) as [[s1 id] fresh] eqn:Ha. inversion H; subst.
    apply add_notice_ctr in Ha. destruct Ha as (A1 & A2 & A3 & A4 & A5). destruct fresh.
    + destruct (A4 eq_refl) as [E1 E2]. destruct k; simpl in *; unfold ids_of_kind; simpl; lia.
    + specialize (A5 eq_refl). destruct k; simpl in *; unfold ids_of_kind; simpl; lia.
  - inversion H; subst. unfold add_warning. destruct (existsb _ _); destruct k; simpl; lia.
  - inversion H; subst. destruct k; simpl; lia.
  - (* Prune *) inversion H; subst. destruct k; simpl; lia.
  - (* Reload *) inversion H; subst. destruct k; simpl; lia.
Qed.

Lemma run_between : forall ops k s s' iss befores,
  run s ops = (s', iss, befores) -> between (ctr k s) (ids_of_kind (kn k) iss) (ctr k s').
Proof.
  induction ops as [|o ops IH]; intros k s s' iss befores H; simpl in H.
  - inversion H; subst. simpl. lia.
  - destruct (step s o) as [s1 i1] eqn:Hs. destruct (run s1 ops) as [[s2 i2] b2] eqn:Hr.
    inversion H; subst. rewrite ids_of_kind_app.
    eapply between_app; [eapply step_between; eassumption | eapply IH; eassumption].
Qed.

(* main theorem, arbitrary start state: strictly increasing, all above the start counter *)
Theorem ids_never_reused : forall ops k s s' iss befores,
  run s ops = (s', iss, befores) ->
  strictly_increasing_from (ctr k s) (ids_of_kind (kn k) iss) = true /\
  Forall (fun i => ctr k s < i /\ i <= ctr k s') (ids_of_kind (kn k) iss).
Proof.
  intros ops k s s' iss befores H. pose proof (run_between ops k s s' iss befores H) as B.
  split; [eapply between_sorted; eassumption | apply between_all_above; assumption].
Qed.

(* the monitor's formulation, from the empty state *)
Theorem ids_ok_model : forall ops s' iss befores, run empty_state ops = (s', iss, befores) -> ids_ok iss = true.
Proof.
  intros ops s' iss befores H. unfold ids_ok. simpl.
  pose proof (run_between ops KChange _ _ _ _ H) as B0. pose proof (run_between ops KTask _ _ _ _ H) as B1.
  pose proof (run_between ops KLane _ _ _ _ H) as B2. pose proof (run_between ops KNotice _ _ _ _ H) as B3.
  simpl in *. rewrite (between_sorted _ _ _ B0), (between_sorted _ _ _ B1), (between_sorted _ _ _ B2), (between_sorted _ _ _ B3).
  reflexivity.
Qed.

(* identifiers handed out after any point of a history (in particular after a reload) differ from all handed out before *)
Theorem ids_after_differ_from_ids_before : forall ops1 ops2 k s s1 i1 b1 s2 i2 b2,
  run s ops1 = (s1, i1, b1) -> run s1 ops2 = (s2, i2, b2) ->
  forall x y, In x (ids_of_kind (kn k) i1) -> In y (ids_of_kind (kn k) i2) -> x < y.
Proof.
  intros ops1 ops2 k s s1 i1 b1 s2 i2 b2 H1 H2 x y Hx Hy.
  destruct (ids_never_reused _ k _ _ _ _ H1) as [_ F1]. destruct (ids_never_reused _ k _ _ _ _ H2) as [_ F2].
  rewrite Forall_forall in F1, F2. specialize (F1 x Hx). specialize (F2 y Hy). lia.
Qed.

Lemma run_app : forall ops1 ops2 s s1 i1 b1 s2 i2 b2,
  run s ops1 = (s1, i1, b1) -> run s1 ops2 = (s2, i2, b2) -> run s (ops1 ++ ops2) = (s2, i1 ++ i2, b1 ++ b2).
Proof.
  induction ops1 as [|o ops1 IH]; intros ops2 s s1 i1 b1 s2 i2 b2 H1 H2; simpl in *.
  - inversion H1; subst. simpl. assumption.
  - destruct (step s o) as [sa ia] eqn:Hs. destruct (run sa ops1) as [[sb ib] bb] eqn:Hr. inversion H1; subst.
    rewrite (IH ops2 sa s1 ib bb s2 i2 b2 Hr H2). rewrite app_assoc. destruct o; reflexivity.
Qed.

Theorem ids_after_reload_are_new : forall ops1 ops2 k s s1 i1 b1 s2 i2 b2 n1 n2,
  run s ops1 = (s1, i1, b1) -> run (reload n2 (persist n1 s1)) ops2 = (s2, i2, b2) ->
  forall x y, In x (ids_of_kind (kn k) i1) -> In y (ids_of_kind (kn k) i2) -> x < y.
Proof.
  intros ops1 ops2 k s s1 i1 b1 s2 i2 b2 n1 n2 H1 H2.
  assert (R : run s (ops1 ++ [OReload n1 n2]) = (reload n2 (persist n1 s1), i1 ++ [], b1 ++ [s1])).
  { apply (run_app ops1 [OReload n1 n2] s s1 i1 b1); [assumption | reflexivity]. }
  rewrite app_nil_r in R.
  exact (ids_after_differ_from_ids_before _ ops2 k s _ i1 _ s2 i2 b2 R H2).
Qed.

(* ---- objects never carry an identifier above the counter: a fresh identifier is not the id of anything in the state *)
Definition wf (s : state) : Prop :=
  Forall (fun c => c_id c <= s_last_change s) (s_changes s) /\
  Forall (fun t => t_id t <= s_last_task s) (s_tasks s) /\
  Forall (fun n => n_id n <= s_last_notice s) (s_notices s).

Lemma Forall_map_upd : forall A (P : A -> Prop) (sel : A -> bool) (f : A -> A) l,
  (forall x, P x -> P (f x)) -> Forall P l -> Forall P (map (fun x => if sel x then f x else x) l).
Proof.
  intros A P sel f l Hf H. induction H; simpl; constructor; [destruct (sel x); auto | assumption].
Qed.

Lemma Forall_filter : forall A (P : A -> Prop) (p : A -> bool) l, Forall P l -> Forall P (filter p l).
Proof. intros A P p l H. induction H; simpl; [constructor | destruct (p x); [constructor|]; assumption]. Qed.

Lemma wf_upd_task : forall id f s, (forall t, t_id (f t) = t_id t) -> wf s -> wf (upd_task id f s).
Proof.
  intros id f s Hf (A & B & C). repeat split; simpl; try assumption.
  apply Forall_map_upd; [intros x Hx; rewrite Hf; assumption | assumption].
Qed.
Lemma wf_upd_change : forall id f s, (forall c, c_id (f c) = c_id c) -> wf s -> wf (upd_change id f s).
Proof.
  intros id f s Hf (A & B & C). repeat split; simpl; try assumption.
  apply Forall_map_upd; [intros x Hx; rewrite Hf; assumption | assumption].
Qed.

Lemma find_some_in : forall A (p : A -> bool) l x, find p l = Some x -> In x l.
Proof. intros A p l x H. apply find_some in H. tauto. Qed.

Lemma wf_add_notice : forall uid ty key data rep ex now s s' id fresh,
  add_notice uid ty key data rep ex now s = (s', id, fresh) -> wf s -> wf s'.
Proof.
  intros uid ty key data rep ex now s s' id fresh H (A & B & C). unfold add_notice in H.
  destruct (negb (validate_notice ty key)). { inversion H; subst. repeat split; assumption. }
  destruct (match ex with Some t => (t, s_lnts s) | None => _ end) as [now' lnts'].
  destruct (find (same_nkey uid ty key) (s_notices s)) as [old|] eqn:Hf; inversion H; subst; repeat split; simpl; try assumption.
  - apply find_some_in in Hf. pose proof C as C'. rewrite Forall_forall in C'. specialize (C' old Hf).
    apply Forall_map_upd with (f := fun _ => _); [intros; simpl; assumption | assumption].
  - apply Forall_app. split.
    + eapply Forall_impl; [|exact C]. simpl. intros; lia.
    + constructor; [simpl; lia | constructor].
Qed.

Lemma wf_repeat_notice : forall n key kd now s s' ids, repeat_notice n key kd now s = (s', ids) -> wf s -> wf s'.
Proof.
  induction n as [|n IH]; intros key kd now s s' ids H W; simpl in H.
  - inversion H; subst; assumption.
  - destruct (add_notice None change_update_b key [(bs "kind", kd)] 0 None now s) as [[s1 nid] fresh] eqn:Ha.
    destruct (repeat_notice n key kd now s1) as [s2 ids2] eqn:Hr. inversion H; subst.
    eapply IH; [eassumption|]. eapply wf_add_notice; eassumption.
Qed.

Lemma wf_apply_effects : forall c e now s s' ids, apply_effects c e now s = (s', ids) -> wf s -> wf s'.
Proof.
  intros c e now s s' ids H W. unfold apply_effects in H. destruct (find_change c s) as [ch|].
  2:{ inversion H; subst; assumption. }
  match type of H with context [repeat_notice ?n ?k ?kd ?nw ?s1] => destruct (repeat_notice n k kd nw s1) as [s2 ids2] eqn:Hr end.
  inversion H; subst. apply wf_upd_change; [reflexivity|]. eapply wf_repeat_notice; [eassumption|].
  destruct (e_chg_ready e); [|assumption]. apply wf_upd_change; [|assumption]. intros x. destruct (c_ready x); reflexivity.
Qed.

Lemma change_status_id : forall old new now x, t_id (change_status old new now x) = t_id x.
Proof. intros. unfold change_status. destruct (old =? new); [reflexivity|]. destruct (_ && _); reflexivity. Qed.

Lemma wf_step : forall s o s' iss, step s o = (s', iss) -> wf s -> wf s'.
Proof.
  intros s o s' iss H W. destruct o; simpl in H.
  - unfold new_change in H.
    match type of H with context [add_notice ?a ?b ?c ?d ?e ?f ?g ?s1] =>
      destruct (add_notice a b c d e f g s1) as [[s2 nid] fresh] eqn:Ha end.
    inversion H; subst. eapply wf_add_notice; [eassumption|]. destruct W as (A & B & C). repeat split; simpl; try assumption.
    apply Forall_app. split; [eapply Forall_impl; [|exact A]; simpl; intros; lia | constructor; [simpl; lia | constructor]].
  - inversion H; subst. destruct W as (A & B & C). repeat split; simpl; try assumption.
    apply Forall_app. split; [eapply Forall_impl; [|exact B]; simpl; intros; lia | constructor; [simpl; lia | constructor]].
  - inversion H; subst. destruct W as (A & B & C). repeat split; simpl; assumption.
  - inversion H; subst. unfold add_task. destruct (find_task t s) as [tk|]; [destruct (t_change tk =? 0)|]; try assumption.
    apply wf_upd_change; [reflexivity|]. apply wf_upd_task; [reflexivity | assumption].
  - inversion H; subst. unfold wait_for. apply wf_upd_task; [reflexivity|]. apply wf_upd_task; [reflexivity | assumption].
  - inversion H; subst. apply wf_upd_task; [reflexivity | assumption].
  - inversion H; subst. unfold set_data. destruct (target =? 0); [|destruct (target =? 1)].
    + destruct W as (A & B & C). repeat split; assumption.
    + apply wf_upd_change; [reflexivity | assumption].
    + apply wf_upd_task; [reflexivity | assumption].
  - inversion H; subst. unfold del_data. destruct (target =? 0); [|destruct (target =? 1)].
    + destruct W as (A & B & C). repeat split; assumption.
    + apply wf_upd_change; [reflexivity | assumption].
    + apply wf_upd_task; [reflexivity | assumption].
  - inversion H; subst. apply wf_upd_task; [|assumption]. intros x. destruct w; [destruct (status_ready _)|]; reflexivity.
  - inversion H; subst. apply wf_upd_task; [reflexivity | assumption].
  - inversion H; subst. apply wf_upd_task; [reflexivity | assumption].
  - inversion H; subst. apply wf_upd_task; [reflexivity | assumption].
  - destruct (task_set_status t new now e s) as [s1 ids] eqn:Ht. inversion H; subst.
    unfold task_set_status in Ht. destruct (find_task t s) as [x|]; [|inversion Ht; subst; assumption].
    destruct (_ && _); [inversion Ht; subst; assumption|]. destruct (t_status x =? new); [inversion Ht; subst; assumption|].
    eapply wf_apply_effects; [eassumption|]. apply wf_upd_task; [apply change_status_id | assumption].
  - destruct (task_set_to_wait t waited now e s) as [s1 ids] eqn:Ht. inversion H; subst.
    unfold task_set_to_wait in Ht. destruct (find_task t s) as [x|]; [|inversion Ht; subst; assumption].
    destruct (t_status x =? st_abort); [inversion Ht; subst; assumption|].
    destruct (t_status x =? st_wait).
    + inversion Ht; subst. apply wf_upd_task; [reflexivity | assumption].
    + eapply wf_apply_effects; [eassumption|]. apply wf_upd_task; [apply change_status_id|].
      apply wf_upd_task; [reflexivity | assumption].
  - destruct (change_set_status c new now e s) as [s1 ids] eqn:Ht. inversion H; subst.
    unfold change_set_status in Ht. eapply wf_apply_effects; [eassumption|]. apply wf_upd_change; [|assumption].
    intros x. destruct (status_ready new); [destruct (c_ready _)|]; reflexivity.
  - destruct (add_notice uid ty key data repeat explicit now s) as [[s1 id] fresh] eqn:Ha. inversion H; subst.
    eapply wf_add_notice; eassumption.
  - inversion H; subst. unfold add_warning. destruct W as (A & B & C). destruct (existsb _ _); repeat split; assumption.
  - inversion H; subst. destruct W as (A & B & C). repeat split; assumption.
  - inversion H; subst. destruct W as (A & B & C). repeat split; simpl; apply Forall_filter; assumption.
  - (* reload *)
    inversion H; subst. destruct W as (A & B & C). repeat split; simpl.
    + rewrite map_map. rewrite Forall_map. eapply Forall_impl; [|exact A]. intros c Hc. exact Hc.
    + rewrite map_map. rewrite Forall_map. eapply Forall_impl; [|exact B]. intros t Ht. exact Ht.
    + apply Forall_filter. rewrite map_map. rewrite Forall_map. apply Forall_filter. eapply Forall_impl; [|exact C].
      intros n Hn. exact Hn.
Qed.

Theorem wf_run : forall ops s s' iss befores, run s ops = (s', iss, befores) -> wf s -> wf s'.
Proof.
  induction ops as [|o ops IH]; intros s s' iss befores H W; simpl in H.
  - inversion H; subst; assumption.
  - destruct (step s o) as [s1 i1] eqn:Hs. destruct (run s1 ops) as [[s2 i2] b2] eqn:Hr. inversion H; subst.
    eapply IH; [eassumption|]. eapply wf_step; eassumption.
Qed.

Lemma wf_empty : wf empty_state.
Proof. repeat split; constructor. Qed.

(* ================================================================== 3. reload after persist *)
Definition norm_waited (w : N) : N := if w =? st_default then st_done else w.
Definition normalize_task (t : task) : task := set_t_data (decode_data (t_data t)) (set_t_waited (norm_waited (t_waited t)) t).
Definition normalize_change (c : change) : change := set_c_data (decode_data (c_data c)) c.
(* what a save at wall clock n1 followed by a load at wall clock n2 >= n1 yields *)
Definition normalize (now : Z) (s : state) : state :=
  mkState (decode_data (s_data s)) (map normalize_change (s_changes s)) (map normalize_task (s_tasks s))
    (filter (fun w => negb (warning_expired now w)) (s_warnings s))
    (filter (fun n => negb (notice_expired now n)) (s_notices s))
    (s_last_change s) (s_last_task s) (s_last_lane s) (s_last_notice s) (s_lnts s).

Lemma notice_codec_id : forall n, unmarshal_notice (marshal_notice n) = n.
Proof.
  intros [id uid ty key f lo lr occ d rep ex]. unfold marshal_notice, unmarshal_notice. simpl.
  destruct (rep =? 0)%Z eqn:E1; destruct (ex =? 0)%Z eqn:E2; simpl; f_equal; lia.
Qed.
Lemma warning_codec_id : forall w, unmarshal_warning (marshal_warning w) = w.
Proof. intros []. reflexivity. Qed.

Lemma filter_filter_impl : forall A (p q : A -> bool) l, (forall x, q x = true -> p x = true) -> filter q (filter p l) = filter q l.
Proof.
  intros A p q l H. induction l as [|x l IH]; simpl; [reflexivity|].
  destruct (p x) eqn:Ep; simpl.
  - rewrite IH. reflexivity.
  - destruct (q x) eqn:Eq; [apply H in Eq; congruence | assumption].
Qed.

Theorem reload_persist : forall n1 n2 s, (n1 <= n2)%Z -> reload n2 (persist n1 s) = normalize n2 s.
Proof.
  intros n1 n2 s Hle. unfold reload, persist, normalize. simpl. f_equal.
  - rewrite map_map. apply map_ext. intros []. reflexivity.
  - rewrite map_map. apply map_ext. intros []. reflexivity.
  - rewrite map_map. rewrite (map_ext _ (fun w => w)) by (intros; apply warning_codec_id). rewrite map_id.
    apply filter_filter_impl. intros w Hw. unfold warning_expired in *. lia.
  - rewrite map_map. rewrite (map_ext _ (fun n => n)) by (intros; apply notice_codec_id). rewrite map_id.
    apply filter_filter_impl. intros n Hn. unfold notice_expired in *. lia.
Qed.

Lemma decode_data_idem : forall d, decode_data (decode_data d) = decode_data d.
Proof.
  intros d. unfold decode_data. induction d as [|e d IH]; simpl; [reflexivity|].
  destruct (negb (beq (snd e) null_b)) eqn:E; simpl; [rewrite E, IH; reflexivity | assumption].
Qed.

Lemma filter_idem : forall A (p : A -> bool) l, filter p (filter p l) = filter p l.
Proof. intros. apply filter_filter_impl. auto. Qed.

(* a second save and load changes nothing more *)
Theorem normalize_idempotent : forall now s, normalize now (normalize now s) = normalize now s.
Proof.
  intros now s. unfold normalize. simpl. rewrite decode_data_idem, !filter_idem, !map_map. f_equal.
  - apply map_ext. intros []. unfold normalize_change. simpl. rewrite decode_data_idem. reflexivity.
  - apply map_ext. intros []. unfold normalize_task, norm_waited. simpl. rewrite decode_data_idem.
    destruct (t_waited =? st_default) eqn:E; simpl; [reflexivity | rewrite E; reflexivity].
Qed.

(* nothing is lost or duplicated: same change ids and task ids (in the same order), same edges, lanes and counters *)
Theorem reload_no_loss_no_dup : forall n1 n2 s, (n1 <= n2)%Z ->
  let s' := reload n2 (persist n1 s) in
  map c_id (s_changes s') = map c_id (s_changes s) /\ map c_tasks (s_changes s') = map c_tasks (s_changes s) /\
  map t_id (s_tasks s') = map t_id (s_tasks s) /\ map t_status (s_tasks s') = map t_status (s_tasks s) /\
  map t_waits (s_tasks s') = map t_waits (s_tasks s) /\ map t_halts (s_tasks s') = map t_halts (s_tasks s) /\
  map t_lanes (s_tasks s') = map t_lanes (s_tasks s) /\ map t_change (s_tasks s') = map t_change (s_tasks s) /\
  s_last_change s' = s_last_change s /\ s_last_task s' = s_last_task s /\ s_last_lane s' = s_last_lane s /\
  s_last_notice s' = s_last_notice s /\ s_lnts s' = s_lnts s.
Proof.
  intros n1 n2 s Hle s'. subst s'. rewrite (reload_persist n1 n2 s Hle). unfold normalize. simpl.
  rewrite !map_map. repeat split; apply map_ext; intros []; reflexivity.
Qed.

(* ---- the monitor's statement is a theorem of the model (data values other than the JSON literal null) *)
Lemma beq_refl : forall a, beq a a = true.
Proof. induction a as [|x a IH]; simpl; [reflexivity | rewrite N.eqb_refl, IH; reflexivity]. Qed.
Lemma list_eqb_refl : forall A (e : A -> A -> bool) l, (forall x, e x x = true) -> list_eqb e l l = true.
Proof. intros A e l H. induction l as [|x l IH]; simpl; [reflexivity | rewrite H, IH; reflexivity]. Qed.
Lemma existsb_self : forall A (e : A -> A -> bool) (f : A -> A) l x, In x l -> e x (f x) = true -> existsb (e x) (map f l) = true.
Proof.
  intros A e f l x Hin He. apply existsb_exists. exists (f x). split; [apply in_map; assumption | assumption].
Qed.
(* l compared with its image under f, when every element is e-equal to its image *)
Lemma set_eqb_map : forall A (e : A -> A -> bool) (f : A -> A) l, (forall x, e x (f x) = true) -> set_eqb e l (map f l) = true.
Proof.
  intros A e f l H. unfold set_eqb. rewrite map_length, Nat.eqb_refl. simpl. apply andb_true_intro. split.
  - apply forallb_forall. intros x Hx. apply existsb_self; [assumption | apply H].
  - apply forallb_forall. intros y Hy. apply in_map_iff in Hy. destruct Hy as [x [E Hx]]. subst y.
    apply existsb_exists. exists x. split; [assumption | apply H].
Qed.
Lemma set_eqb_refl : forall A (e : A -> A -> bool) l, (forall x, e x x = true) -> set_eqb e l l = true.
Proof. intros A e l H. rewrite <- (map_id l) at 2. apply set_eqb_map. assumption. Qed.
Lemma time_eqb_refl : forall t, time_eqb t t = true.
Proof. intros [z|]; simpl; [apply Z.eqb_refl | reflexivity]. Qed.
Lemma kv_eqb_refl : forall d, kv_eqb d d = true.
Proof. intros d. apply set_eqb_refl. intros [k v]. unfold kv1_eqb. simpl. rewrite !beq_refl. reflexivity. Qed.
Lemma progress_eqb_refl : forall p, progress_eqb p p = true.
Proof. intros [[[l d] t]|]; simpl; [rewrite beq_refl, !Z.eqb_refl; reflexivity | reflexivity]. Qed.
Lemma opt_N_eqb_refl : forall o, opt_N_eqb o o = true.
Proof. intros [x|]; simpl; [apply N.eqb_refl | reflexivity]. Qed.
Lemma notice_eqb_refl : forall n, notice_eqb n n = true.
Proof.
  intros n. unfold notice_eqb. rewrite !N.eqb_refl, !Z.eqb_refl, !beq_refl, opt_N_eqb_refl, kv_eqb_refl. reflexivity.
Qed.
Lemma warning_eqb_refl : forall w, warning_eqb w w = true.
Proof. intros w. unfold warning_eqb. rewrite !Z.eqb_refl, beq_refl, time_eqb_refl. reflexivity. Qed.

Definition no_null (d : kv) : Prop := forall e, In e d -> beq (snd e) null_b = false.
Lemma decode_no_null : forall d, no_null d -> decode_data d = d.
Proof.
  intros d H. unfold decode_data. induction d as [|e d IH]; simpl; [reflexivity|].
  rewrite (H e (or_introl eq_refl)). simpl. f_equal. apply IH. intros e' He'. apply H. right. assumption.
Qed.
Definition state_no_null (s : state) : Prop :=
  no_null (s_data s) /\ Forall (fun c => no_null (c_data c)) (s_changes s) /\ Forall (fun t => no_null (t_data t)) (s_tasks s).

Lemma waited_norm_idem : forall w, waited_norm w =? waited_norm (norm_waited w) = true.
Proof.
  intros w. unfold waited_norm, norm_waited, st_default, st_done.
  destruct (w =? 0) eqn:E; simpl; [reflexivity|]. rewrite E. apply N.eqb_refl.
Qed.

Lemma set_eqb_map_in : forall A (e : A -> A -> bool) (f : A -> A) l, (forall x, In x l -> e x (f x) = true) -> set_eqb e l (map f l) = true.
Proof.
  intros A e f l H. unfold set_eqb. rewrite map_length, Nat.eqb_refl. simpl. apply andb_true_intro. split.
  - apply forallb_forall. intros x Hx. apply existsb_self; [assumption | apply H; assumption].
  - apply forallb_forall. intros y Hy. apply in_map_iff in Hy. destruct Hy as [x [E Hx]]. subst y.
    apply existsb_exists. exists x. split; [assumption | apply H; assumption].
Qed.

Theorem reload_ok_model : forall s, state_no_null s -> reload_ok (s, reload 0 (persist 0 s)) = true.
Proof.
  intros s (D & DC & DT). rewrite (reload_persist 0 0 s) by lia. unfold reload_ok, normalize, state_eqb. simpl.
  rewrite (decode_no_null _ D), kv_eqb_refl, !N.eqb_refl, time_eqb_refl. simpl.
  assert (HC : set_eqb change_eqb (s_changes s) (map normalize_change (s_changes s)) = true).
  { apply set_eqb_map_in. intros c Hc. rewrite Forall_forall in DC. specialize (DC c Hc).
    unfold change_eqb, normalize_change. simpl. rewrite (decode_no_null _ DC).
    rewrite !N.eqb_refl, !beq_refl, eqb_reflx, kv_eqb_refl, !time_eqb_refl.
    rewrite (list_eqb_refl _ N.eqb) by apply N.eqb_refl. reflexivity. }
  assert (HT : set_eqb (task_eqb waited_norm) (s_tasks s) (map normalize_task (s_tasks s)) = true).
  { apply set_eqb_map_in. intros t Ht. rewrite Forall_forall in DT. specialize (DT t Ht).
    unfold task_eqb, normalize_task. simpl. rewrite (decode_no_null _ DT).
    rewrite !N.eqb_refl, !beq_refl, !Z.eqb_refl, eqb_reflx, kv_eqb_refl, progress_eqb_refl, !time_eqb_refl, waited_norm_idem.
    rewrite !(list_eqb_refl _ N.eqb) by apply N.eqb_refl. rewrite (list_eqb_refl _ Z.eqb) by apply Z.eqb_refl.
    rewrite (list_eqb_refl _ beq) by apply beq_refl. reflexivity. }
  rewrite HC, HT. simpl.
  unfold live_warnings, live_notices, warning_expired, notice_expired.
  rewrite (set_eqb_refl _ warning_eqb) by apply warning_eqb_refl.
  rewrite (set_eqb_refl _ notice_eqb) by apply notice_eqb_refl. reflexivity.
Qed.

(* the full statement (without the no-null hypothesis) is false of the faithful model: a data entry whose JSON value is
   the literal null is visible (Has = true) before the save and absent after the load *)
Definition null_witness : state := mkState [(bs "k", bs "null")] [] [] [] [] 0 0 0 0 None.
Lemma null_data_not_roundtrip : reload_ok (null_witness, reload 0 (persist 0 null_witness)) = false.
Proof. vm_compute. reflexivity. Qed.

(* ================================================================== 4. the notices are a map: keys are unique and survive a reload *)
(* the map key of a notice: (user id - None = public -, type, key); noticeKey{hasUserID, userID, noticeType, key} in Go *)
Definition nkey (n : notice) : option N * bytes * bytes := (n_uid n, n_type n, n_key n).
Definition keys_unique (s : state) : Prop := NoDup (map nkey (s_notices s)).

Lemma beq_eq : forall a b, beq a b = true -> a = b.
Proof.
  induction a as [|x a IH]; intros [|y b] H; simpl in H; try discriminate; [reflexivity|].
  apply andb_true_iff in H. destruct H as [H1 H2]. apply N.eqb_eq in H1. subst. f_equal. apply IH. assumption.
Qed.
Lemma opt_N_eqb_eq : forall a b, opt_N_eqb a b = true -> a = b.
Proof. intros [x|] [y|] H; simpl in H; try discriminate; [apply N.eqb_eq in H; subst|]; reflexivity. Qed.

Lemma same_nkey_eq : forall u t k n, same_nkey u t k n = true -> nkey n = (u, t, k).
Proof.
  intros u t k n H. unfold same_nkey in H. apply andb_true_iff in H. destruct H as [H H3]. apply andb_true_iff in H. destruct H as [H1 H2].
  apply opt_N_eqb_eq in H1. apply beq_eq in H2. apply beq_eq in H3. unfold nkey. congruence.
Qed.
Lemma same_nkey_self : forall n, same_nkey (n_uid n) (n_type n) (n_key n) n = true.
Proof. intros n. unfold same_nkey. rewrite opt_N_eqb_refl, !beq_refl. reflexivity. Qed.

Lemma NoDup_map_filter : forall A B (f : A -> B) (p : A -> bool) l, NoDup (map f l) -> NoDup (map f (filter p l)).
Proof.
  intros A B f p l. induction l as [|x l IH]; intros H; simpl; [constructor|]. simpl in H. inversion H as [|? ? Hx Hl]; subst.
  destruct (p x); simpl; [constructor|]; try (apply IH; assumption).
  intro Hin. apply Hx. apply in_map_iff in Hin. destruct Hin as [y [E Hy]]. apply filter_In in Hy. apply in_map_iff. exists y. tauto.
Qed.

Lemma NoDup_snoc : forall A (l : list A) x, NoDup l -> ~ In x l -> NoDup (l ++ [x]).
Proof.
  intros A l x H Hx. induction H as [|y l Hy Hl IH]; simpl; [constructor; [intros []|constructor]|].
  constructor.
  - intro Hin. apply in_app_or in Hin. destruct Hin as [Hin|[Hin|[]]]; [contradiction|]. subst. apply Hx. left; reflexivity.
  - apply IH. intro Hin. apply Hx. right. assumption.
Qed.

Lemma keys_add_notice : forall uid ty key data rep ex now s s' id fresh,
  add_notice uid ty key data rep ex now s = (s', id, fresh) -> keys_unique s -> keys_unique s'.
Proof.
  intros uid ty key data rep ex now s s' id fresh H K. unfold add_notice in H. unfold keys_unique in *.
  destruct (negb (validate_notice ty key)). { inversion H; subst; assumption. }
  destruct (match ex with Some t => (t, s_lnts s) | None => _ end) as [now' lnts'].
  destruct (find (same_nkey uid ty key) (s_notices s)) as [old|] eqn:Hf; inversion H; subst; simpl.
  - (* recurrence: the entry is replaced by one with the same key *)
    apply find_some in Hf. destruct Hf as [_ Ho]. apply same_nkey_eq in Ho.
    assert (E : map nkey (map (fun x => if same_nkey uid ty key x
               then mkNotice (n_id old) (n_uid old) (n_type old) (n_key old) (n_first old) now'
                      (if (rep =? 0)%Z || (n_lastrep old + rep <? now')%Z then now' else n_lastrep old) (n_occ old + 1) data rep (n_expire old)
               else x) (s_notices s)) = map nkey (s_notices s)).
    { rewrite map_map. apply map_ext_in. intros x Hx. destruct (same_nkey uid ty key x) eqn:Ex; [|reflexivity].
      apply same_nkey_eq in Ex. unfold nkey in *. simpl. congruence. }
    rewrite E. assumption.
  - (* first occurrence: a new key *)
    rewrite map_app. simpl. apply NoDup_snoc; [assumption|]. intro Hin. apply in_map_iff in Hin. destruct Hin as [x [Ex Hx]].
    pose proof (find_none _ _ Hf x Hx) as Hn. unfold nkey in Ex. simpl in Ex. inversion Ex; subst.
    rewrite same_nkey_self in Hn. discriminate.
Qed.

Lemma keys_repeat_notice : forall n key kd now s s' ids, repeat_notice n key kd now s = (s', ids) -> keys_unique s -> keys_unique s'.
Proof.
  induction n as [|n IH]; intros key kd now s s' ids H K; simpl in H; [inversion H; subst; assumption|].
  destruct (add_notice None change_update_b key [(bs "kind", kd)] 0 None now s) as [[s1 nid] fresh] eqn:Ha.
  destruct (repeat_notice n key kd now s1) as [s2 ids2] eqn:Hr. inversion H; subst.
  eapply IH; [eassumption|]. eapply keys_add_notice; eassumption.
Qed.

Lemma keys_apply_effects : forall c e now s s' ids, apply_effects c e now s = (s', ids) -> keys_unique s -> keys_unique s'.
Proof.
  intros c e now s s' ids H K. unfold apply_effects in H. destruct (find_change c s) as [ch|]; [|inversion H; subst; assumption].
  match type of H with context [repeat_notice ?n ?k ?kd ?nw ?s1] => destruct (repeat_notice n k kd nw s1) as [s2 ids2] eqn:Hr end.
  inversion H; subst. unfold keys_unique. simpl. eapply keys_repeat_notice in Hr; [exact Hr|].
  destruct (e_chg_ready e); exact K.
Qed.

Lemma keys_step : forall s o s' iss, step s o = (s', iss) -> keys_unique s -> keys_unique s'.
Proof.
  intros s o s' iss H K. destruct o; simpl in H.
  - unfold new_change in H.
    match type of H with context [add_notice ?a ?b ?c ?d ?e ?f ?g ?s1] =>
      destruct (add_notice a b c d e f g s1) as [[s2 nid] fresh] eqn:Ha end.
    inversion H; subst. eapply keys_add_notice; [eassumption|]. exact K.
  - inversion H; subst. exact K.
  - inversion H; subst. exact K.
  - inversion H; subst. unfold add_task. destruct (find_task t s) as [tk|]; [destruct (t_change tk =? 0)|]; exact K.
  - inversion H; subst. exact K.
  - inversion H; subst. exact K.
  - inversion H; subst. unfold set_data. destruct (target =? 0); [|destruct (target =? 1)]; exact K.
  - inversion H; subst. unfold del_data. destruct (target =? 0); [|destruct (target =? 1)]; exact K.
  - inversion H; subst. exact K.
  - inversion H; subst. exact K.
  - inversion H; subst. exact K.
  - inversion H; subst. exact K.
  - destruct (task_set_status t new now e s) as [s1 ids] eqn:Ht. inversion H; subst.
    unfold task_set_status in Ht. destruct (find_task t s) as [x|]; [|inversion Ht; subst; exact K].
    destruct (_ && _); [inversion Ht; subst; exact K|]. destruct (t_status x =? new); [inversion Ht; subst; exact K|].
    eapply keys_apply_effects; [eassumption | exact K].
  - destruct (task_set_to_wait t waited now e s) as [s1 ids] eqn:Ht. inversion H; subst.
    unfold task_set_to_wait in Ht. destruct (find_task t s) as [x|]; [|inversion Ht; subst; exact K].
    destruct (t_status x =? st_abort); [inversion Ht; subst; exact K|].
    destruct (t_status x =? st_wait); [inversion Ht; subst; exact K|].
    eapply keys_apply_effects; [eassumption | exact K].
  - destruct (change_set_status c new now e s) as [s1 ids] eqn:Ht. inversion H; subst.
    unfold change_set_status in Ht. eapply keys_apply_effects; [eassumption | exact K].
  - destruct (add_notice uid ty key data repeat explicit now s) as [[s1 id] fresh] eqn:Ha. inversion H; subst.
    eapply keys_add_notice; eassumption.
  - inversion H; subst. unfold add_warning. destruct (existsb _ _); exact K.
  - inversion H; subst. exact K.
  - inversion H; subst. unfold keys_unique. simpl. apply NoDup_map_filter. exact K.
  - inversion H; subst. unfold keys_unique. simpl. apply NoDup_map_filter. rewrite (map_map marshal_notice unmarshal_notice).
    rewrite (map_ext (fun x => unmarshal_notice (marshal_notice x)) (fun n => n)) by (intros; apply notice_codec_id).
    rewrite map_id. apply NoDup_map_filter. exact K.
Qed.

(* over every op sequence (reloads and prunes anywhere) no two notices of the state have the same map key *)
Theorem keys_unique_run : forall ops s s' iss befores, run s ops = (s', iss, befores) -> keys_unique s -> keys_unique s'.
Proof.
  induction ops as [|o ops IH]; intros s s' iss befores H K; simpl in H; [inversion H; subst; assumption|].
  destruct (step s o) as [s1 i1] eqn:Hs. destruct (run s1 ops) as [[s2 i2] b2] eqn:Hr. inversion H; subst.
  eapply IH; [eassumption|]. eapply keys_step; eassumption.
Qed.

(* a reload keeps the map keys: the reloaded notices carry exactly the keys of the unexpired notices that were saved, in
   the same order, and stay pairwise distinct (so a later occurrence of (user, type, key) finds its notice) *)
Theorem roundtrip_notice_keys : forall n1 n2 s, (n1 <= n2)%Z ->
  map nkey (s_notices (reload n2 (persist n1 s))) = map nkey (filter (fun n => negb (notice_expired n2 n)) (s_notices s)) /\
  (keys_unique s -> keys_unique (reload n2 (persist n1 s))).
Proof.
  intros n1 n2 s H. rewrite (reload_persist n1 n2 s H). unfold normalize, keys_unique. simpl. split; [reflexivity|].
  apply NoDup_map_filter.
Qed.

(* ================================================================== 5. the round trip as one equation over the whole state *)
(* a state is canonical for the wall clock [now] when it has none of the three things a save/load cycle rewrites: a data
   value that is the JSON literal null (the recorded finding data-json-null), a task whose waited status is still Default,
   a warning or notice that has expired *)
Definition canonical (now : Z) (s : state) : Prop :=
  state_no_null s /\ Forall (fun t => t_waited t <> st_default) (s_tasks s) /\
  Forall (fun w => warning_expired now w = false) (s_warnings s) /\ Forall (fun n => notice_expired now n = false) (s_notices s).

Lemma filter_all : forall A (p : A -> bool) l, Forall (fun x => p x = true) l -> filter p l = l.
Proof. intros A p l H. induction H as [|x l Hx Hl IH]; simpl; [reflexivity | rewrite Hx, IH; reflexivity]. Qed.

Lemma map_id_in : forall A (f : A -> A) l, (forall x, In x l -> f x = x) -> map f l = l.
Proof. intros A f l H. rewrite <- (map_id l) at 2. apply map_ext_in. assumption. Qed.

(* load (save s) = s, every persisted field of every change, task, warning and notice, the data and the counters *)
Theorem roundtrip_exact : forall n1 n2 s, (n1 <= n2)%Z -> canonical n2 s -> reload n2 (persist n1 s) = s.
Proof.
  intros n1 n2 s Hle ((D & DC & DT) & W & EW & EN). rewrite (reload_persist n1 n2 s Hle). unfold normalize.
  destruct s as [data chs tks ws ns lc lt ll ln lnts]. simpl in *. f_equal.
  - apply decode_no_null. assumption.
  - apply map_id_in. intros c Hc. rewrite Forall_forall in DC. specialize (DC c Hc). unfold normalize_change.
    rewrite (decode_no_null _ DC). destruct c; reflexivity.
  - apply map_id_in. intros t Ht. rewrite Forall_forall in DT, W. specialize (DT t Ht). specialize (W t Ht).
    unfold normalize_task, norm_waited. simpl. rewrite (decode_no_null _ DT).
    destruct (t_waited t =? st_default) eqn:E; [apply N.eqb_eq in E; contradiction|]. destruct t; reflexivity.
  - apply filter_all. eapply Forall_impl; [|exact EW]. simpl. intros w Hw. rewrite Hw. reflexivity.
  - apply filter_all. eapply Forall_impl; [|exact EN]. simpl. intros n Hn. rewrite Hn. reflexivity.
Qed.

Lemma decode_data_no_null : forall d, no_null (decode_data d).
Proof. intros d e He. unfold decode_data in He. apply filter_In in He. destruct He as [_ He]. apply negb_true_iff in He. exact He. Qed.

(* ... and every state that comes out of a load is canonical: from the first reload on, save/load is the identity *)
Theorem reload_canonical : forall n1 n2 s, (n1 <= n2)%Z -> canonical n2 (reload n2 (persist n1 s)).
Proof.
  intros n1 n2 s Hle. rewrite (reload_persist n1 n2 s Hle). unfold normalize, canonical, state_no_null. simpl. repeat split.
  - apply decode_data_no_null.
  - rewrite Forall_map. apply Forall_forall. intros c _. simpl. apply decode_data_no_null.
  - rewrite Forall_map. apply Forall_forall. intros t _. simpl. apply decode_data_no_null.
  - rewrite Forall_map. apply Forall_forall. intros t _. simpl. unfold norm_waited, st_default, st_done.
    destruct (t_waited t =? 0) eqn:E; [discriminate | apply N.eqb_neq; assumption].
  - apply Forall_forall. intros w Hw. apply filter_In in Hw. destruct Hw as [_ Hw]. apply negb_true_iff in Hw. exact Hw.
  - apply Forall_forall. intros n Hn. apply filter_In in Hn. destruct Hn as [_ Hn]. apply negb_true_iff in Hn. exact Hn.
Qed.

Corollary reload_fixed_point : forall n1 n2 n3 n4 s, (n1 <= n2)%Z -> (n2 <= n3)%Z -> (n3 <= n4)%Z ->
  Forall (fun w => warning_expired n4 w = false) (s_warnings (reload n2 (persist n1 s))) ->
  Forall (fun n => notice_expired n4 n = false) (s_notices (reload n2 (persist n1 s))) ->
  reload n4 (persist n3 (reload n2 (persist n1 s))) = reload n2 (persist n1 s).
Proof.
  intros n1 n2 n3 n4 s H12 H23 H34 HW HN. apply roundtrip_exact; [assumption|].
  destruct (reload_canonical n1 n2 s H12) as (A & B & _ & _). repeat split; try apply A; assumption.
Qed.
