(* C14 — proofs about models/Conflict.v: invariants over arbitrary histories of requests and progress events. *)
From Coq Require Import List NArith Bool Lia ZifyBool ZifyN.
From Coq Require Import String.
Import ListNotations.
Require Import V.lib.Bytes V.gen.ConflictKinds V.models.Conflict.
Open Scope list_scope.
Open Scope N_scope.

(* ------------------------------------------------------------------ small facts *)
Lemma mem_In : forall x l, mem x l = true <-> In x l.
Proof.
  intros x l. unfold mem. rewrite existsb_exists. split.
  - intros [y [Hy E]]. apply N.eqb_eq in E. subst. exact Hy.
  - intros H. exists x. split; [exact H | apply N.eqb_refl].
Qed.

Lemma touches_mono : forall c x snaps, touches c [x] = true -> In x snaps -> touches c snaps = true.
Proof.
  intros c x snaps H Hin. unfold touches in *. rewrite existsb_exists in *. destruct H as [t [Ht Hi]].
  exists t. split; [exact Ht|]. unfold intersects in *. rewrite existsb_exists in *. destruct Hi as [y [Hy Hm]].
  exists y. split; [exact Hy|]. apply mem_In in Hm. destruct Hm as [<-|[]]. apply mem_In. exact Hin.
Qed.

Lemma set_nth_snaps : forall ts i r, map t_snaps (set_nth ts i r) = map t_snaps ts.
Proof.
  induction ts as [|t rest IH]; intros i r; cbn [set_nth map]; [reflexivity|].
  destruct (i =? 0); cbn [map t_snaps]; [reflexivity | rewrite IH; reflexivity].
Qed.

Lemma existsb_map : forall {A B} (f : A -> B) (p : B -> bool) l, existsb p (map f l) = existsb (fun a => p (f a)) l.
Proof. intros A B f p l. induction l as [|a r IH]; cbn; [reflexivity | rewrite IH; reflexivity]. Qed.

Lemma touches_tasks : forall c snaps,
  touches c snaps = existsb (fun s => intersects s snaps) (map t_snaps (c_tasks c)).
Proof. intros. unfold touches. rewrite existsb_map. reflexivity. Qed.

Lemma touches_app : forall i k d ts new snaps,
  touches (mkChange i k d (ts ++ new)) snaps = touches (mkChange i k d ts) snaps || existsb (fun t => intersects (t_snaps t) snaps) new.
Proof. intros. unfold touches. cbn [c_tasks]. apply existsb_app. Qed.

Lemma next_id_gt : forall st c, In c st -> c_id c < next_id st.
Proof.
  induction st as [|a r IH]; intros c H; [contradiction|]. cbn [next_id fold_right]. fold (next_id r).
  destruct H as [->|H]; [lia | specialize (IH c H); lia].
Qed.

Lemma NoDup_snoc : forall (l : list N) a, NoDup l -> ~ In a l -> NoDup (l ++ [a]).
Proof.
  induction l as [|b r IH]; intros a Hnd Hni; cbn; [constructor; [intros [] | constructor]|].
  inversion Hnd as [|? ? Hb Hr]; subst. constructor.
  - intros Hin. apply in_app_or in Hin. destruct Hin as [Hin|[->|[]]]; [contradiction | apply Hni; left; reflexivity].
  - apply IH; [exact Hr | intros Hin; apply Hni; right; exact Hin].
Qed.

(* ------------------------------------------------------------------ the invariant *)
Definition one_per_snap (st : state) : Prop :=
  forall c1 c2 x, In c1 st -> In c2 st -> counts c1 = true -> counts c2 = true ->
    touches c1 [x] = true -> touches c2 [x] = true -> c_id c1 = c_id c2.

Definition inv (st : state) : Prop := NoDup (map c_id st) /\ one_per_snap st.

Lemma counts_relevant : forall ignore c, counts c = true -> relevant ignore c = false -> is_ignored c ignore = true.
Proof.
  intros ignore c H1 H2. unfold counts, relevant in *. cbn [is_ignored] in H1.
  destruct (c_ready c), (kind_in (c_kind c) irrelevant_kinds), (is_ignored c ignore); cbn in *; try discriminate; reflexivity.
Qed.

Lemma accepted_no_touch : forall st snaps ignore c x,
  check_many st snaps ignore = false -> In c st -> counts c = true -> touches c [x] = true -> In x snaps ->
  is_ignored c ignore = true.
Proof.
  intros st snaps ignore c x Hc Hin Hcnt Ht Hx. unfold check_many in Hc. apply orb_false_elim in Hc. destruct Hc as [_ Hc].
  apply counts_relevant; [exact Hcnt|].
  destruct (relevant ignore c) eqn:E; [|reflexivity]. exfalso.
  assert (existsb (fun c => relevant ignore c && touches c snaps) st = true).
  { apply existsb_exists. exists c. split; [exact Hin|]. rewrite E. cbn. eapply touches_mono; eassumption. }
  congruence.
Qed.

Lemma in_progress_spec : forall st i, in_progress st i = true <-> exists c, In c st /\ c_id c = i /\ c_ready c = false.
Proof.
  intros st i. unfold in_progress. rewrite existsb_exists. split.
  - intros [c [Hin H]]. apply andb_prop in H. destruct H as [H1 H2]. exists c. repeat split; [exact Hin | lia | destruct (c_ready c); [discriminate | reflexivity]].
  - intros [c [Hin [H1 H2]]]. exists c. split; [exact Hin|]. rewrite H2. cbn. lia.
Qed.

Lemma new_tasks_in_snaps : forall snaps tasks x,
  forallb (fun t => forallb (fun y => mem y snaps) (t_snaps t)) tasks = true ->
  existsb (fun t => intersects (t_snaps t) [x]) tasks = true -> In x snaps.
Proof.
  intros snaps tasks x Hwf H. rewrite existsb_exists in H. destruct H as [t [Ht Hi]].
  rewrite forallb_forall in Hwf. specialize (Hwf t Ht). rewrite forallb_forall in Hwf.
  unfold intersects in Hi. rewrite existsb_exists in Hi. destruct Hi as [y [Hy Hm]].
  apply mem_In in Hm. destruct Hm as [<-|[]]. apply mem_In. apply Hwf. exact Hy.
Qed.

(* appending a fresh change *)
Lemma inv_new_change : forall st kind dg snaps tasks ignore,
  inv st -> check_many st snaps ignore = false ->
  (forall i, ignore = Some i -> in_progress st i = false) ->
  forallb (fun t => forallb (fun y => mem y snaps) (t_snaps t)) tasks = true ->
  inv (st ++ [mkChange (next_id st) kind dg tasks]).
Proof.
  intros st kind dg snaps tasks ignore [Hnd Hone] Hchk Hign Hwf. set (cn := mkChange (next_id st) kind dg tasks).
  assert (Hold_not_ignored : forall c x, In c st -> counts c = true -> touches c [x] = true -> touches cn [x] = true -> False).
  { intros c x Hin Hcnt Ht Htn.
    assert (Hx : In x snaps) by (eapply new_tasks_in_snaps; [exact Hwf | exact Htn]).
    pose proof (accepted_no_touch _ _ _ _ _ Hchk Hin Hcnt Ht Hx) as Hig.
    destruct ignore as [i|]; [|discriminate]. cbn [is_ignored] in Hig.
    assert (in_progress st i = true).
    { apply in_progress_spec. exists c. repeat split; [exact Hin | lia|].
      unfold counts, relevant in Hcnt. destruct (c_ready c); [discriminate | reflexivity]. }
    rewrite (Hign i eq_refl) in H. discriminate. }
  split.
  - rewrite map_app. cbn [map c_id cn]. apply NoDup_snoc; [exact Hnd|].
    intros Hy. apply in_map_iff in Hy. destruct Hy as [c [Hid Hc]]. pose proof (next_id_gt _ _ Hc). lia.
  - intros c1 c2 x H1 H2 Hc1 Hc2 Ht1 Ht2. apply in_app_or in H1. apply in_app_or in H2.
    destruct H1 as [H1|[<-|[]]]; destruct H2 as [H2|[<-|[]]].
    + eapply Hone; eassumption.
    + exfalso. eapply Hold_not_ignored; eassumption.
    + exfalso. eapply Hold_not_ignored; eassumption.
    + reflexivity.
Qed.

(* new tasks for the requesting change *)
Definition extend (i : N) (tasks : list task) (c : change) : change :=
  if c_id c =? i then mkChange (c_id c) (c_kind c) (c_dg c) (c_tasks c ++ tasks) else c.

Lemma NoDup_map_inj : forall (l : list change) a b, NoDup (map c_id l) -> In a l -> In b l -> c_id a = c_id b -> a = b.
Proof.
  induction l as [|c r IH]; intros a b Hnd Ha Hb E; [contradiction|].
  cbn [map] in Hnd. inversion Hnd as [|? ? Hni Hr]; subst.
  destruct Ha as [<-|Ha]; destruct Hb as [<-|Hb]; [reflexivity | | | apply IH; assumption].
  - exfalso. apply Hni. rewrite E. apply in_map. exact Hb.
  - exfalso. apply Hni. rewrite <- E. apply in_map. exact Ha.
Qed.

Lemma extend_id : forall i tasks c, c_id (extend i tasks c) = c_id c.
Proof. intros. unfold extend. destruct (c_id c =? i); reflexivity. Qed.

Lemma inv_extend : forall st i snaps tasks,
  inv st -> check_many st snaps (Some i) = false -> in_progress st i = true ->
  forallb (fun t => forallb (fun y => mem y snaps) (t_snaps t)) tasks = true ->
  inv (map (extend i tasks) st).
Proof.
  intros st i snaps tasks [Hnd Hone] Hchk Hprog Hwf.
  apply in_progress_spec in Hprog. destruct Hprog as [c0 [Hin0 [Hid0 Hr0]]].
  assert (Hcnt : forall c, In c st -> counts (extend i tasks c) = counts c).
  { intros c Hin. unfold extend. destruct (c_id c =? i) eqn:E; [|reflexivity].
    assert (c = c0) by (apply (NoDup_map_inj st); [exact Hnd | exact Hin | exact Hin0 | lia]). subst c.
    unfold counts, relevant, c_ready in *. cbn [c_tasks c_kind c_id is_ignored]. rewrite forallb_app, Hr0. reflexivity. }
  assert (Htouch : forall c x, In c st -> touches (extend i tasks c) [x] = true ->
            touches c [x] = true \/ (c_id c = i /\ In x snaps)).
  { intros c x Hin H. unfold extend in H. destruct (c_id c =? i) eqn:E; [|left; exact H].
    rewrite touches_app in H. apply orb_prop in H. destruct H as [H|H].
    - left. destruct c; exact H.
    - right. split; [lia | eapply new_tasks_in_snaps; eassumption]. }
  split.
  - rewrite map_map. rewrite (map_ext _ c_id (extend_id i tasks)). exact Hnd.
  - intros d1 d2 x H1 H2 Hc1 Hc2 Ht1 Ht2.
    apply in_map_iff in H1. destruct H1 as [c1 [<- H1]]. apply in_map_iff in H2. destruct H2 as [c2 [<- H2]].
    rewrite !extend_id. rewrite (Hcnt _ H1) in Hc1. rewrite (Hcnt _ H2) in Hc2.
    destruct (Htouch _ _ H1 Ht1) as [T1|[I1 X1]]; destruct (Htouch _ _ H2 Ht2) as [T2|[I2 X2]].
    + eapply Hone; eassumption.
    + pose proof (accepted_no_touch _ _ _ _ _ Hchk H1 Hc1 T1 X2) as Hig. cbn [is_ignored] in Hig. lia.
    + pose proof (accepted_no_touch _ _ _ _ _ Hchk H2 Hc2 T2 X1) as Hig. cbn [is_ignored] in Hig. lia.
    + lia.
Qed.

(* progress of a task *)
Definition progress (ci i : N) (r : bool) (c : change) : change :=
  if (c_id c =? ci) && negb (c_ready c) then mkChange (c_id c) (c_kind c) (c_dg c) (set_nth (c_tasks c) i r) else c.

Lemma progress_id : forall ci i r c, c_id (progress ci i r c) = c_id c.
Proof. intros. unfold progress. destruct (_ && _); reflexivity. Qed.

Lemma progress_touches : forall ci i r c snaps, touches (progress ci i r c) snaps = touches c snaps.
Proof.
  intros. unfold progress. destruct (_ && _); [|reflexivity].
  rewrite !touches_tasks. cbn [c_tasks]. rewrite set_nth_snaps. reflexivity.
Qed.

Lemma progress_counts : forall ci i r c, counts (progress ci i r c) = true -> counts c = true.
Proof.
  intros ci i r c. unfold progress. destruct ((c_id c =? ci) && negb (c_ready c)) eqn:E; [|auto].
  apply andb_prop in E. destruct E as [_ E]. unfold counts, relevant. cbn [c_kind c_id is_ignored].
  destruct (c_ready c); [discriminate|]. intros H. apply andb_prop in H. destruct H as [_ H]. rewrite H. reflexivity.
Qed.

Lemma inv_progress : forall st ci i r, inv st -> inv (map (progress ci i r) st).
Proof.
  intros st ci i r [Hnd Hone]. split.
  - rewrite map_map. rewrite (map_ext _ c_id (progress_id ci i r)). exact Hnd.
  - intros d1 d2 x H1 H2 Hc1 Hc2 Ht1 Ht2.
    apply in_map_iff in H1. destruct H1 as [c1 [<- H1]]. apply in_map_iff in H2. destruct H2 as [c2 [<- H2]].
    rewrite !progress_id. rewrite progress_touches in Ht1, Ht2.
    eapply Hone; eauto using progress_counts.
Qed.

Lemma step_inv : forall st o, req_wf o = true -> inv st -> inv (step st o).
Proof.
  intros st o Hwf Hinv. destruct o as [kind dg re ignore same snaps tasks | ci i r | k l | k l]; [| |discriminate|discriminate].
  - unfold step. destruct (rejected st _) eqn:Hrej; [exact Hinv|].
    cbn [rejected] in Hrej. apply orb_false_elim in Hrej. destruct Hrej as [Hrej _].
    apply orb_false_elim in Hrej. destruct Hrej as [Hchk _]. cbn [req_wf] in Hwf.
    destruct ignore as [j|].
    + destruct (in_progress st j) eqn:Hp.
      * change (inv (map (extend j tasks) st)). eapply inv_extend; eassumption.
      * eapply inv_new_change; try eassumption. intros j' E. injection E as <-. exact Hp.
    + eapply inv_new_change; try eassumption. intros j' E. discriminate.
  - unfold step. change (inv (map (progress ci i r) st)). apply inv_progress. exact Hinv.
Qed.

Lemma run_inv : forall ops st, forallb req_wf ops = true -> inv st -> inv (run st ops).
Proof.
  unfold run. induction ops as [|o r IH]; intros st Hwf Hinv; cbn [fold_left]; [exact Hinv|].
  cbn [forallb] in Hwf. apply andb_prop in Hwf. destruct Hwf as [H1 H2].
  apply IH; [exact H2 | apply step_inv; assumption].
Qed.

(* ------------------------------------------------------------------ the theorems *)
Theorem one_change_per_snap : forall ops, forallb req_wf ops = true ->
  let st := run [] ops in
  forall c1 c2 x, In c1 st -> In c2 st -> counts c1 = true -> counts c2 = true ->
    touches c1 [x] = true -> touches c2 [x] = true -> c_id c1 = c_id c2.
Proof.
  intros ops Hwf st. assert (H : inv st) by (apply run_inv; [exact Hwf | split; [constructor | intros ? ? ? []]]).
  exact (proj2 H).
Qed.

Theorem change_ids_unique : forall ops, forallb req_wf ops = true -> NoDup (map c_id (run [] ops)).
Proof. intros ops Hwf. apply (run_inv ops []); [exact Hwf | split; [constructor | intros ? ? ? []]]. Qed.

Theorem rejected_creates_nothing : forall st o, rejected st o = true -> step st o = st.
Proof.
  intros st o H. destruct o as [kind dg re ignore same snaps tasks | ci i r | k l | k l]; [|discriminate|discriminate|discriminate].
  unfold step. rewrite H. reflexivity.
Qed.

(* a request that touches a snap of an in-progress counting change (other than the requesting one) is rejected *)
Theorem busy_snap_rejected : forall st c x kind dg re ignore same snaps tasks,
  In c st -> counts c = true -> is_ignored c ignore = false -> touches c [x] = true -> In x snaps ->
  rejected st (Request kind dg re ignore same snaps tasks) = true.
Proof.
  intros st c x kind dg re ignore same snaps tasks Hin Hcnt Hig Ht Hx. cbn [rejected].
  destruct (check_many st snaps ignore) eqn:E; [reflexivity|].
  pose proof (accepted_no_touch _ _ _ _ _ E Hin Hcnt Ht Hx). congruence.
Qed.

(* while an exclusive change is in progress every request is rejected (unless it comes from that very change and the
   kind is one of those that may be ignored) *)
Theorem exclusive_blocks_everything : forall st c kind dg re ignore same snaps tasks,
  In c st -> c_ready c = false -> is_exclusive c = true ->
  (is_ignored c ignore = false \/ kind_in (c_kind c) excl_always = true) ->
  rejected st (Request kind dg re ignore same snaps tasks) = true.
Proof.
  intros st c kind dg re ignore same snaps tasks Hin Hr Hex Hig. cbn [rejected]. unfold check_many.
  assert (H : check_exclusive st false ignore = true).
  { unfold check_exclusive. apply existsb_exists. exists c. split; [exact Hin|]. unfold excl_hit. rewrite Hr. cbn [negb andb].
    unfold is_exclusive in Hex.
    destruct (kind_in (c_kind c) excl_always) eqn:E1; [reflexivity|].
    destruct Hig as [Hig|Hig]; [|discriminate]. rewrite Hig. cbn [negb].
    destruct (kind_in (c_kind c) excl_ignorable) eqn:E2; [reflexivity|].
    destruct (kind_in (c_kind c) excl_downgrade) eqn:E3; [|discriminate].
    cbn in Hex. rewrite Hex. reflexivity. }
  rewrite H. reflexivity.
Qed.

(* the other direction: a request that must run exclusively is rejected while any other change is in progress *)
Lemma ordinary_refresh_blocks : nondowngrade_blocks_new_exclusive = true.
Proof. reflexivity. Qed.

Theorem new_exclusive_refused : forall st c kind dg ignore same snaps tasks,
  In c st -> c_ready c = false -> is_ignored c ignore = false ->
  rejected st (Request kind dg true ignore same snaps tasks) = true.
Proof.
  intros st c kind dg ignore same snaps tasks Hin Hr Hig. cbn [rejected].
  assert (H : check_exclusive st true ignore = true).
  { unfold check_exclusive. apply existsb_exists. exists c. split; [exact Hin|]. unfold excl_hit. rewrite Hr, Hig.
    rewrite ordinary_refresh_blocks. cbn [negb andb].
    destruct (kind_in (c_kind c) excl_always); [reflexivity|].
    destruct (kind_in (c_kind c) excl_ignorable); [reflexivity|].
    destruct (kind_in (c_kind c) excl_downgrade); [|reflexivity].
    destruct (c_dg c); reflexivity. }
  rewrite H. cbn. rewrite orb_true_r. reflexivity.
Qed.

(* regression witness of a repaired defect: with an ordinary refresh-snap change in progress a remodel request on
   another snap used to be accepted *)
Definition refresh_in_progress : state := [mkChange 1 (bs "refresh-snap"%string) false [mkTask [1] false]].
Lemma remodel_during_refresh_rejected :
  rejected refresh_in_progress (Request (bs "remodel"%string) false true None true [2] [mkTask [2] false]) = true /\
  rejected refresh_in_progress (Request (bs "remodel"%string) false false None true [2] [mkTask [2] false]) = false.
Proof. vm_compute. split; reflexivity. Qed.

(* a stale snap record *)
Theorem stale_rejected : forall st kind dg re ignore snaps tasks,
  rejected st (Request kind dg re ignore false snaps tasks) = true.
Proof. intros. cbn [rejected negb]. rewrite orb_true_r. reflexivity. Qed.

(* exempt kinds do not count, everything else in progress does *)
Lemma exempt_kinds : irrelevant_kinds = [bs "pre-download"%string; bs "become-operational"%string].
Proof. reflexivity. Qed.
Lemma exclusive_kinds :
  excl_always = [bs "transition-ubuntu-core"%string; bs "transition-to-snapd-snap"%string] /\
  excl_ignorable = [bs "remodel"%string; bs "create-recovery-system"%string; bs "remove-recovery-system"%string] /\
  excl_downgrade = [bs "revert-snap"%string; bs "refresh-snap"%string].
Proof. repeat split; reflexivity. Qed.

(* non-vacuity *)
Definition demo_ops : list op :=
  [Request (bs "remove-snap"%string) false false None true [1] [mkTask [1] false; mkTask [1] false];
   Request (bs "disable-snap"%string) false false None true [1] [mkTask [1] false];
   Request (bs "disable-snap"%string) false false None true [2] [mkTask [2] false];
   Progress 1 0 true; Progress 1 1 true;
   Request (bs "disable-snap"%string) false false None true [1] [mkTask [1] false]].
Lemma demo : forallb req_wf demo_ops = true /\ map c_id (run [] demo_ops) = [1; 2; 3] /\
  map counts (run [] demo_ops) = [false; true; true].
Proof. vm_compute. repeat split; reflexivity. Qed.

(* ------------------------------------------------------------------ the conflict matrix, as equivalences *)
Lemma touches_some : forall c snaps, touches c snaps = true <-> exists x, In x snaps /\ touches c [x] = true.
Proof.
  intros c snaps. split.
  - unfold touches. rewrite existsb_exists. intros [t [Ht Hi]]. unfold intersects in Hi. rewrite existsb_exists in Hi.
    destruct Hi as [y [Hy Hm]]. exists y. split; [apply mem_In; exact Hm|].
    apply existsb_exists. exists t. split; [exact Ht|]. unfold intersects. apply existsb_exists. exists y.
    split; [exact Hy|]. cbn. rewrite N.eqb_refl. reflexivity.
  - intros [x [Hx Ht]]. eapply touches_mono; eassumption.
Qed.

(* one row of the exclusive-kinds table: which in-progress change stops a request (new_excl: the request must itself
   run exclusively) *)
Theorem excl_hit_table : forall new_excl ignore c,
  excl_hit new_excl ignore c =
  negb (c_ready c) &&
  (kind_in (c_kind c) excl_always
   || (kind_in (c_kind c) excl_ignorable && negb (is_ignored c ignore))
   || (kind_in (c_kind c) excl_downgrade && negb (is_ignored c ignore) && (c_dg c || new_excl))
   || (negb (kind_in (c_kind c) excl_always) && negb (kind_in (c_kind c) excl_ignorable)
       && negb (kind_in (c_kind c) excl_downgrade) && new_excl)).
Proof.
  intros new_excl ignore c. unfold excl_hit. rewrite ordinary_refresh_blocks.
  destruct (c_ready c), (kind_in (c_kind c) excl_always), (kind_in (c_kind c) excl_ignorable),
    (kind_in (c_kind c) excl_downgrade), (is_ignored c ignore), (c_dg c), new_excl; reflexivity.
Qed.

(* a request is refused IF AND ONLY IF: an exclusive change is in progress (first table), or an in-progress non-exempt
   change other than the requesting one has a task affecting one of the snaps named by the request, or the snap record
   is stale, or the request must run exclusively and any change of the second table is in progress *)
Theorem rejected_iff : forall st kind dg re ignore same snaps tasks,
  rejected st (Request kind dg re ignore same snaps tasks) = true <->
  (exists c, In c st /\ excl_hit false ignore c = true) \/
  (exists c x, In c st /\ relevant ignore c = true /\ In x snaps /\ touches c [x] = true) \/
  same = false \/
  (re = true /\ exists c, In c st /\ excl_hit true ignore c = true).
Proof.
  intros st kind dg re ignore same snaps tasks. cbn [rejected]. unfold check_many, check_exclusive.
  rewrite !orb_true_iff, andb_true_iff, !existsb_exists, negb_true_iff. split.
  - intros [[[H|H]|H]|[H1 H2]].
    + left. exact H.
    + right; left. destruct H as [c [Hin H]]. apply andb_prop in H. destruct H as [Hr Ht].
      apply touches_some in Ht. destruct Ht as [x [Hx Ht]]. exists c, x. repeat split; assumption.
    + right; right; left. exact H.
    + right; right; right. split; assumption.
  - intros [H|[[c [x [Hin [Hr [Hx Ht]]]]]|[H|[H1 H2]]]].
    + left; left; left. exact H.
    + left; left; right. exists c. split; [exact Hin|]. rewrite Hr. cbn. eapply touches_mono; eassumption.
    + left; right. exact H.
    + right. split; assumption.
Qed.

(* accepted requests: exactly the complement, and what they create *)
Theorem accepted_creates : forall st kind dg re same snaps tasks,
  rejected st (Request kind dg re None same snaps tasks) = false ->
  step st (Request kind dg re None same snaps tasks) = st ++ [mkChange (next_id st) kind dg tasks].
Proof. intros st kind dg re same snaps tasks H. unfold step. rewrite H. reflexivity. Qed.

(* non-vacuity of the matrix: an in-progress install of snap 1 refuses a request on snaps 1 and 2, accepts one on snap 2,
   and is itself no obstacle once finished *)
Definition matrix_state : state := [mkChange 1 (bs "install-snap"%string) false [mkTask [1] false; mkTask [1] true]].
Lemma matrix_example :
  rejected matrix_state (Request (bs "remove-snap"%string) false false None true [1; 2] [mkTask [1] false]) = true /\
  rejected matrix_state (Request (bs "remove-snap"%string) false false None true [2] [mkTask [2] false]) = false /\
  rejected matrix_state (Request (bs "remodel"%string) false true None true [2] [mkTask [2] false]) = true /\
  rejected (step matrix_state (Progress 1 0 true)) (Request (bs "remove-snap"%string) false false None true [1] [mkTask [1] false]) = false.
Proof. vm_compute. repeat split; reflexivity. Qed.
