(* Proofs about models/TaskEngine.v, part 2: the aggregate change status (C03), the ready flag, the abort mapping
   (C01) and the witnesses of finding 11. Stdlib only. *)
From Coq Require Import List NArith ZArith Bool Arith Lia.
Import ListNotations.
Require Import V.models.TaskEngine V.proofs.TaskEngineProofs.

(* ------------------------------------------------------------------ Change.Status: ready iff every task is ready *)
Lemma has_unready_not_all_ready : forall l x, has_status l x = true -> ready x = false -> all_ready l = false.
Proof.
  induction l as [|a l IH]; simpl; intros x H Hr; [discriminate|].
  apply orb_true_iff in H; destruct H as [H|H].
  - apply seqb_eq in H; rewrite H, Hr; reflexivity.
  - rewrite (IH x H Hr); apply andb_false_r.
Qed.

Lemma not_all_ready_has : forall l, all_ready l = false ->
  has_status l Abort || has_status l Undoing || has_status l Undo || has_status l Doing || has_status l Do
  || has_status l Wait = true.
Proof.
  induction l as [|a l IH]; simpl; intros H; [discriminate|].
  destruct (ready (t_st a)) eqn:Er.
  - simpl in H. specialize (IH H). repeat rewrite orb_true_iff in IH. repeat rewrite orb_true_iff.
    destruct IH as [[[[[A|A]|A]|A]|A]|A]; rewrite A; rewrite ?orb_true_r; tauto.
  - destruct (t_st a); simpl in *; try discriminate; rewrite ?orb_true_r; reflexivity.
Qed.

Theorem change_status_ready : forall l, l <> [] -> ready (change_status l) = all_ready l.
Proof.
  intros l Hne. unfold change_status. destruct l as [|a l']; [congruence|]. set (L := a :: l') in *.
  destruct (has_status L Wait && is_change_waiting L) eqn:E.
  - apply andb_true_iff in E; destruct E as [E _].
    rewrite (has_unready_not_all_ready L Wait E eq_refl); reflexivity.
  - clear E. unfold status_order. cbn [find].
    destruct (all_ready L) eqn:A.
    + assert (N : forall x, ready x = false -> has_status L x = false).
      { intros x Hx. destruct (has_status L x) eqn:Hh; [|reflexivity].
        rewrite (has_unready_not_all_ready L x Hh Hx) in A; discriminate. }
      rewrite (N Abort), (N Undoing), (N Undo), (N Doing), (N Do), (N Wait) by reflexivity.
      destruct (has_status L Error); [reflexivity|]. destruct (has_status L Undone); [reflexivity|].
      destruct (has_status L Done); [reflexivity|]. destruct (has_status L Hold); reflexivity.
    + pose proof (not_all_ready_has L A) as D.
      destruct (has_status L Abort); [reflexivity|]. destruct (has_status L Undoing); [reflexivity|].
      destruct (has_status L Undo); [reflexivity|]. destruct (has_status L Doing); [reflexivity|].
      destruct (has_status L Do); [reflexivity|]. destruct (has_status L Wait); [reflexivity|].
      discriminate D.
Qed.

(* without tasks in Wait the aggregate is the first status of the documented priority list that some task has
   (agg_spec is the independent statement used by the monitor; it never looks at the graph in this case) *)
Lemma occurs_has : forall l x, occurs (map t_st l) x = has_status l x.
Proof. intros; unfold occurs, has_status. induction l; simpl; [reflexivity|]. rewrite IHl; reflexivity. Qed.

Theorem change_status_is_priority_aggregate : forall (g : list tdesc) (l : list task),
  has_status l Wait = false -> change_status l = agg_spec g (map t_st l).
Proof.
  intros g l Hw. unfold change_status, agg_spec. destruct l as [|a l']; [reflexivity|]. set (L := a :: l') in *.
  change (map t_st L) with (t_st a :: map t_st l'). cbv beta iota.
  change (t_st a :: map t_st l') with (map t_st L).
  rewrite Hw; simpl andb.
  assert (Hc : change_waiting_spec g (map t_st L) = false).
  { unfold change_waiting_spec. change (existsb (fun x => seqb x Wait) (map t_st L)) with (occurs (map t_st L) Wait).
    rewrite occurs_has, Hw. reflexivity. }
  rewrite Hc. rewrite !occurs_has. unfold status_order. cbn [find]. rewrite Hw.
  repeat (match goal with |- context [has_status L ?x] => destruct (has_status L x) end; try reflexivity).
Qed.

(* ------------------------------------------------------------------ the ready flag is never reset *)
Lemma cready_change_st : forall s t nw, cready s = true -> cready (change_st s t nw) = true.
Proof. intros; unfold change_st, with_panicked, with_cready, with_tasks; repeat des_if; auto. Qed.
Lemma cready_set_status : forall s t nw, cready s = true -> cready (set_status s t nw) = true.
Proof. intros; unfold set_status; repeat des_if; auto using cready_change_st. Qed.
Lemma cready_set_to_wait : forall s t ws, cready s = true -> cready (set_to_wait s t ws) = true.
Proof. intros; unfold set_to_wait; repeat des_if; auto. apply cready_change_st; assumption. Qed.
Lemma cready_try_undo : forall s t, cready s = true -> cready (try_undo s t) = true.
Proof. intros; unfold try_undo; des_if; auto using cready_set_status. Qed.
Lemma cready_set_status_quiet : forall s t nw, cready (set_status_quiet s t nw) = cready s.
Proof. intros; unfold set_status_quiet, with_tasks; des_if; reflexivity. Qed.
Lemma cready_ready_detect : forall s, cready s = true -> cready (ready_detect s) = true.
Proof. intros s H; unfold ready_detect; rewrite H; des_if; [assumption | exact H]. Qed.
Lemma cready_abort_write : forall s t, cready s = true -> cready (abort_write s t) = true.
Proof. intros; unfold abort_write; destruct (eff_status (get s t)); rewrite ?cready_set_status_quiet; auto. Qed.
Lemma cready_abort_lanes : forall d kill al seen s, cready s = true -> cready (abort_lanes d kill al seen s) = true.
Proof. intros; apply (abort_lanes_P (fun x => cready x = true)); auto using cready_abort_write. Qed.
Lemma cready_abort_tasks : forall d wl al seen s, cready s = true -> cready (abort_tasks d wl al seen s) = true.
Proof. intros; apply (abort_tasks_P (fun x => cready x = true)); auto using cready_abort_write. Qed.

Lemma cready_ensure_rest : forall s t, cready s = true -> cready (ensure_rest s t) = true.
Proof.
  intros s t H; unfold ensure_rest; repeat des_if; auto using cready_set_status.
  unfold run; cbn [cready with_slog with_running with_tasks].
  destruct (t_st (get s t)); auto using cready_set_status.
Qed.
Lemma cready_ensure_one : forall s t, cready s = true -> cready (ensure_one s t) = true.
Proof. intros s t H; unfold ensure_one; repeat des_if; auto using cready_ensure_rest, cready_try_undo. Qed.
Lemma cready_ensure_pass : forall order s, cready s = true -> cready (ensure_pass s order) = true.
Proof. unfold ensure_pass; induction order; simpl; intros; auto using cready_ensure_one. Qed.

Lemma cready_finish : forall s t o, cready s = true -> cready (finish s t o) = true.
Proof.
  intros s t o H; unfold finish.
  destruct (panicked s); [assumption|]. destruct (negb (memn t (running s))); [assumption|].
  assert (H0 : cready (remove_running s t) = true) by exact H.
  destruct o.
  - destruct (st (remove_running s t) t); auto using cready_set_status.
  - apply cready_set_status. unfold abort_lanes_top. apply cready_ready_detect, cready_abort_lanes; assumption.
  - repeat des_if; auto using cready_try_undo.
  - repeat des_if; auto using cready_try_undo, cready_set_to_wait.
Qed.

Theorem cready_step : forall s e, cready s = true -> cready (step s e) = true.
Proof.
  intros s e H; destruct e; simpl.
  - apply cready_ensure_pass; assumption.
  - apply cready_finish; assumption.
  - des_if; [assumption|]. unfold abort_change; apply cready_ready_detect, cready_abort_tasks; assumption.
  - assumption.
  - des_if; [assumption|]. unfold resolve_wait; des_if; auto using cready_set_status.
Qed.

Theorem cready_run_events : forall es s, cready s = true -> cready (run_events s es) = true.
Proof. unfold run_events; induction es; simpl; intros; auto using cready_step. Qed.

(* ------------------------------------------------------------------ C01: the abort mapping *)
Lemma st_with_tasks_upd : forall s t f u,
  st (with_tasks s (upd (tasks s) t f)) u = st s u \/
  (u = t /\ t < length (tasks s) /\ st (with_tasks s (upd (tasks s) t f)) u = t_st (f (get s t))).
Proof.
  intros; unfold st, get, with_tasks; cbn [tasks].
  destruct (Nat.eq_dec t u) as [->|Hn].
  - destruct (Nat.lt_ge_cases u (length (tasks s))).
    + right; rewrite nth_upd_same by assumption; auto.
    + left; rewrite upd_out by assumption; reflexivity.
  - left; rewrite nth_upd_other by assumption; reflexivity.
Qed.

Lemma st_change_st : forall s t nw u,
  st (change_st s t nw) u = st s u \/ (u = t /\ st (change_st s t nw) u = nw).
Proof.
  intros; unfold change_st. des_if; [left; reflexivity|].
  assert (X : forall s', tasks s' = upd (tasks s) t (fun tk => set_st tk nw) ->
              st s' u = st s u \/ (u = t /\ st s' u = nw)).
  { intros s' E. unfold st, get; rewrite E.
    destruct (st_with_tasks_upd s t (fun tk => set_st tk nw) u) as [A|[A [B C]]]; unfold st, get, with_tasks in *;
      cbn [tasks] in *; [left; assumption | right; split; [assumption | rewrite C; reflexivity]]. }
  repeat des_if; apply X; reflexivity.
Qed.

Lemma st_set_status : forall s t nw u,
  st (set_status s t nw) u = st s u \/ (u = t /\ st (set_status s t nw) u = nw).
Proof. intros; unfold set_status; repeat des_if; auto using st_change_st. Qed.

Lemma st_set_status_quiet : forall s t nw u,
  st (set_status_quiet s t nw) u = st s u \/ (u = t /\ st (set_status_quiet s t nw) u = nw).
Proof.
  intros; unfold set_status_quiet. des_if; [left; reflexivity|].
  destruct (st_with_tasks_upd s t (fun tk => set_st tk nw) u) as [A|[A [B C]]]; [left; assumption|].
  right; split; [assumption | rewrite C; reflexivity].
Qed.

Lemma st_ready_detect : forall s u, st (ready_detect s) u = st s u.
Proof. intros; unfold ready_detect, with_cready, with_panicked; repeat des_if; reflexivity. Qed.

Lemma amap_refl : forall a, abort_map_ok a a = true.
Proof. destruct a; reflexivity. Qed.
Lemma amap_trans : forall a b c, abort_map_ok a b = true -> abort_map_ok b c = true -> abort_map_ok a c = true.
Proof. destruct a, b; simpl; intros c H1; try discriminate H1; destruct c; simpl; intros H2; auto. Qed.

Lemma abort_write_amap : forall s t u, abort_map_ok (st s u) (st (abort_write s t) u) = true.
Proof.
  intros s t u. unfold abort_write, eff_status.
  destruct (seqb (t_st (get s t)) Wait) eqn:Ew.
  - apply seqb_eq in Ew.
    destruct (t_waited (get s t));
      try apply amap_refl;
      match goal with |- context [set_status_quiet s t ?nw] =>
        destruct (st_set_status_quiet s t nw u) as [A|[A B]]; [rewrite A; apply amap_refl | subst u; rewrite B; unfold st; rewrite Ew; reflexivity]
      end.
  - destruct (t_st (get s t)) eqn:Es;
      try apply amap_refl;
      match goal with |- context [set_status_quiet s t ?nw] =>
        destruct (st_set_status_quiet s t nw u) as [A|[A B]]; [rewrite A; apply amap_refl | subst u; rewrite B; unfold st; rewrite Es; reflexivity]
      end.
Qed.

(* whatever lanes are aborted: a task keeps its status or moves Do->Hold, Doing->Abort, Done->Undo
   (a task in Wait according to the status it waits to get) *)
Theorem abort_lanes_mapping : forall d kill al seen s u,
  abort_map_ok (st s u) (st (abort_lanes d kill al seen s) u) = true.
Proof.
  intros. apply (abort_lanes_P (fun x => abort_map_ok (st s u) (st x u) = true)); auto using amap_refl.
  intros s0 t H. eapply amap_trans; [exact H | apply abort_write_amap].
Qed.

Theorem abort_change_mapping : forall s u, abort_map_ok (st s u) (st (abort_change s) u) = true.
Proof.
  intros. unfold abort_change. rewrite st_ready_detect.
  apply (abort_tasks_P (fun x => abort_map_ok (st s u) (st x u) = true)); auto using amap_refl.
  intros s0 t H. eapply amap_trans; [exact H | apply abort_write_amap].
Qed.

(* the error path of TaskRunner.run: every other task keeps its status or follows the abort mapping; the failing
   task itself ends in Error (unless the engine had panicked, which C03 excludes) *)
Theorem finish_err_mapping : forall s t u,
  panicked s = false -> memn t (running s) = true -> u <> t ->
  abort_map_ok (st s u) (st (finish s t OErr) u) = true.
Proof.
  intros s t u Hp Hr Hn. unfold finish. rewrite Hp, Hr; simpl.
  destruct (st_set_status (abort_lanes_top (remove_running s t) (lanes_of (get (remove_running s t) t))) t Error u)
    as [A|[A _]]; [|congruence].
  rewrite A. unfold abort_lanes_top. rewrite st_ready_detect.
  change (st s u) with (st (remove_running s t) u). apply abort_lanes_mapping.
Qed.

(* ------------------------------------------------------------------ finding 11 (repaired by d3068df): witnesses *)
Definition f11_graph : list tdesc := [([], [1; 2], true); ([], [], true); ([], [], true)].
Definition f11_prefix : list event := [Ensure [0; 1; 2]; Finish 1 OOk; Finish 2 OOk].

(* tasks [C:Do, A:Done, B:Done], change not ready: Change.Abort aborts everything, does not panic and leaves the
   change unready (before the repair: panic, change marked ready, statuses [Hold; Undo; Done]) *)
Lemma f11_witness :
  let s := run_events (init_state f11_graph) f11_prefix in
  map t_st (tasks s) = [Do; Done; Done] /\ cready s = false /\ panicked s = false /\
  panicked (step s UAbort) = false /\ cready (step s UAbort) = false /\
  map t_st (tasks (step s UAbort)) = [Hold; Undo; Undo].
Proof. vm_compute. repeat split; reflexivity. Qed.

(* the guard of the REST API is necessary: aborting a READY change whose tasks are Done still panics *)
Lemma abort_ready_witness :
  let s := run_events (init_state [([], [], true)]) [Ensure [0]; Finish 0 OOk] in
  cready s = true /\ panicked s = false /\ panicked (step s UAbort) = true.
Proof. vm_compute. repeat split; reflexivity. Qed.
