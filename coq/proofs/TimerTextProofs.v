(* C16, string level — proofs about models/TimerText.v *)
From Coq Require Import List NArith ZArith Bool Lia ZifyBool ZifyN ZifyNat.
Import ListNotations.
Require Import V.lib.Bytes V.lib.Dec V.proofs.DecProofs V.models.Timer V.models.TimerText.
Open Scope N_scope.

(* ================================================================== what the parser accepts is well formed *)
Lemma weekday_of_name_range : forall a b c d, weekday_of_name a b c = Some d -> (0 <= d <= 6)%Z.
Proof.
  intros a b c d H. unfold weekday_of_name in H.
  repeat match type of H with (if ?x then _ else _) = _ => destruct x end; inversion H; lia.
Qed.

Lemma parse_weekday_wf : forall s w, parse_weekday s = Some w -> week_wf w = true.
Proof.
  intros s w H. unfold parse_weekday in H.
  destruct s as [|a [|b [|c [|n [|x r]]]]]; try discriminate.
  - destruct (weekday_of_name a b c) as [d|] eqn:E; [|discriminate]. apply weekday_of_name_range in E.
    cbn in H. inversion H; subst w. unfold week_wf; cbn [wday pos]. lia.
  - destruct ((49 <=? n) && (n <=? 53)) eqn:En; [|discriminate].
    destruct (weekday_of_name a b c) as [d|] eqn:E; [|discriminate]. apply weekday_of_name_range in E.
    cbn in H. inversion H; subst w. unfold week_wf, dig; cbn [wday pos]. lia.
Qed.

Lemma fin_wf : forall st en ws,
  week_wf st = true -> week_wf en = true ->
  (if negb (pos st =? 0)%Z && negb (pos en =? 0)%Z then
      if (pos en <? pos st)%Z then None
      else if negb (week_eqb st en) then Some (mkWS st (mkWeek (wday en) 0)) else Some (mkWS st en)
    else Some (mkWS st en)) = Some ws -> ws_wf ws = true.
Proof.
  intros st en ws H1 H2 H. unfold week_wf in *.
  destruct (negb (pos st =? 0)%Z && negb (pos en =? 0)%Z) eqn:E.
  - destruct (pos en <? pos st)%Z; [discriminate|].
    destruct (negb (week_eqb st en)) eqn:E2; inversion H; subst ws;
      unfold ws_wf, week_wf, is_single_day; cbn [ws_start ws_end wday pos].
    + lia.
    + apply negb_false_iff in E2. rewrite E2. lia.
  - inversion H; subst ws. unfold ws_wf, week_wf, is_single_day; cbn [ws_start ws_end]. lia.
Qed.

Lemma parse_week_span_wf : forall s ws, parse_week_span s = Some ws -> ws_wf ws = true.
Proof.
  intros s ws H. unfold parse_week_span in H.
  destruct (split_on 45 s) as [|a [|b [|c r]]]; try discriminate.
  - destruct (parse_weekday a) as [st|] eqn:E; [|discriminate]. apply parse_weekday_wf in E.
    exact (fin_wf st st ws E E H).
  - destruct (parse_weekday a) as [st|] eqn:E1; [|discriminate].
    destruct (parse_weekday b) as [en|] eqn:E2; [|discriminate].
    apply parse_weekday_wf in E1, E2. exact (fin_wf st en ws E1 E2 H).
Qed.

Lemma parse_clock_wf : forall s c, parse_clock s = Some c -> clock_wf c = true.
Proof.
  intros s c H. unfold parse_clock in H.
  destruct s as [|a [|b [|x [|y [|z [|w r]]]]]]; try discriminate.
  - destruct (is_digit a && (b =? 58) && is_d05 x && is_digit y) eqn:E; [|discriminate].
    inversion H; subst c. unfold clock_wf, dig, is_digit, is_d05 in *; cbn [hour minute]. lia.
  - destruct ((a =? 50) && (b =? 52) && (x =? 58) && (y =? 48) && (z =? 48)); [inversion H; reflexivity|].
    match type of H with (if ?e then _ else _) = _ => destruct e eqn:E end; [|discriminate].
    inversion H; subst c. unfold clock_wf, dig, is_digit, is_d05 in *; cbn [hour minute]. lia.
Qed.

Lemma parse_uint32_range : forall s z, parse_uint32 s = Some z -> (0 <= z < 4294967296)%Z.
Proof.
  intros s z H. unfold parse_uint32 in H. destruct (undec s) as [n|]; [|discriminate].
  destruct (n <? 4294967296) eqn:E; [|discriminate]. inversion H; lia.
Qed.

Lemma parse_count_range : forall s c r, parse_count s = Some (c, r) -> (0 <= c < 4294967296)%Z.
Proof.
  intros s c r H. unfold parse_count in H.
  destruct (negb (contains 47 s)); [inversion H; lia|].
  destruct (split_on 47 s) as [|a [|b [|x y]]]; try discriminate.
  destruct (parse_uint32 b) as [v|] eqn:E; [|discriminate]. apply parse_uint32_range in E.
  destruct (v =? 0)%Z; [discriminate|]. inversion H; subst; exact E.
Qed.

Lemma parse_clock_span_wf : forall s cs, parse_clock_span s = Some cs -> cs_wf cs = true /\ split_ok cs = true.
Proof.
  intros s cs H. unfold parse_clock_span in H.
  destruct (parse_count s) as [[cnt rest]|] eqn:EC; [|discriminate]. apply parse_count_range in EC.
  set (rest' := if contains 126 rest then replace_first 126 45 rest else rest) in *.
  assert (G : forall st en, clock_wf st = true -> clock_wf en = true ->
            cs_wf (mkCS st en cnt (contains 126 rest)) = true /\ split_ok (mkCS st en cnt (contains 126 rest)) = true).
  { intros st en A B. unfold cs_wf, split_ok; cbn [cs_start cs_end split]. rewrite A, B. lia. }
  destruct (beq rest' [45]).
  - inversion H; subst cs. apply G; reflexivity.
  - destruct (contains 45 rest').
    + unfold parse_clock_range in H. destruct (cut_first 45 rest') as [[a b]|]; [|discriminate].
      destruct (parse_clock a) as [x|] eqn:E1; [|discriminate]. destruct (parse_clock b) as [y|] eqn:E2; [|discriminate].
      inversion H; subst cs. apply G; eapply parse_clock_wf; eassumption.
    + destruct (parse_clock rest') as [x|] eqn:E1; [|discriminate].
      inversion H; subst cs. apply G; eapply parse_clock_wf; eassumption.
Qed.

Definition sched_ok (s : schedule) : bool :=
  sched_wf s && forallb split_ok (clockspans s) && negb (is_nil_b (weekspans s) && is_nil_b (clockspans s)).

Lemma parse_frags_wf : forall frs e w c, parse_frags frs e = Some (w, c) ->
  forallb ws_wf w = true /\ forallb cs_wf c = true /\ forallb split_ok c = true /\
  (frs <> [] -> w <> [] \/ c <> []).
Proof.
  induction frs as [|f r IH]; intros e w c H; cbn [parse_frags] in H.
  - inversion H; subst. repeat split; auto; try (intros X; contradiction).
  - destruct (is_nil_b f); [discriminate|].
    destruct (contains 58 f).
    + destruct (parse_clock_span f) as [cs|] eqn:E1; [|discriminate].
      destruct (parse_frags r true) as [[w' c']|] eqn:E2; [|discriminate].
      inversion H; subst. apply parse_clock_span_wf in E1 as [A B]. apply IH in E2 as (P & Q & R & _).
      cbn [forallb]. rewrite A, B, Q, R. repeat split; auto; try (intros _; right; discriminate).
    + destruct e; [discriminate|].
      destruct (parse_week_span f) as [ws|] eqn:E1; [|discriminate].
      destruct (parse_frags r false) as [[w' c']|] eqn:E2; [|discriminate].
      inversion H; subst. apply parse_week_span_wf in E1. apply IH in E2 as (P & Q & R & _).
      cbn [forallb]. rewrite E1, P. repeat split; auto; try (intros _; left; discriminate).
Qed.

Lemma split_on_nonnil : forall c l, split_on c l <> [].
Proof.
  intros c l; destruct l as [|x r]; cbn; [discriminate|].
  destruct (x =? c); [discriminate|]. unfold cons_head. destruct (split_on c r); discriminate.
Qed.

Lemma parse_event_set_ok : forall s sc, parse_event_set s = Some sc -> sched_ok sc = true.
Proof.
  intros s sc H. unfold parse_event_set in H.
  destruct (parse_frags (split_on 44 s) false) as [[w c]|] eqn:E; [|discriminate].
  inversion H; subst sc. apply parse_frags_wf in E as (A & B & C & D).
  unfold sched_ok, sched_wf; cbn [weekspans clockspans]. rewrite A, B, C. cbn [andb].
  destruct (D (split_on_nonnil 44 s)) as [X|X]; [destruct w | destruct c]; try contradiction; cbn;
    rewrite ?andb_false_r; reflexivity.
Qed.

Lemma all_some_forall : forall (A : Type) (P : A -> Prop) (l : list (option A)) (r : list A),
  all_some l = Some r -> (forall x, In (Some x) l -> P x) -> Forall P r.
Proof.
  induction l as [|[x|] l IH]; intros r H K; cbn in H; try discriminate.
  - inversion H; constructor.
  - destruct (all_some l) as [t|] eqn:E; [|discriminate]. inversion H; subst r.
    constructor; [apply K; left; reflexivity | apply IH; [reflexivity | intros y Hy; apply K; right; exact Hy]].
Qed.

Lemma all_some_nonnil : forall (A : Type) (l : list (option A)) r, all_some l = Some r -> l <> [] -> r <> [].
Proof.
  intros A [|[x|] l] r H N; [contradiction | | discriminate].
  cbn in H. destruct (all_some l); [inversion H; discriminate | discriminate].
Qed.

Lemma split_cc_nonnil : forall l, split_cc l <> [].
Proof.
  intros [|x [|y r]]; [discriminate | discriminate |].
  change (split_cc (x :: y :: r)) with (if (x =? 44) && (y =? 44) then [] :: split_cc r else cons_head x (split_cc (y :: r))).
  destruct ((x =? 44) && (y =? 44)); [discriminate|]. unfold cons_head. destruct (split_cc (y :: r)); discriminate.
Qed.

(* MAIN: whatever ParseSchedule accepts is a non-empty list of well-formed, non-empty schedules:
   weekdays 0..6, week positions 0..5 with at most one numbered end unless the span is a single day, clocks within
   00:00..23:59 or exactly 24:00, 0 <= split < 2^32 *)
Theorem parse_accepts_only_wf : forall (s : bytes) (l : list schedule),
  parse_schedule s = Some l -> l <> [] /\ Forall (fun sc => sched_ok sc = true) l.
Proof.
  intros s l H. unfold parse_schedule in H. split.
  - eapply all_some_nonnil; [exact H|]. pose proof (split_cc_nonnil s). destruct (split_cc s); [contradiction | discriminate].
  - eapply all_some_forall; [exact H|]. intros sc Hin. apply in_map_iff in Hin as (x & Hx & _).
    eapply parse_event_set_ok; exact Hx.
Qed.

(* ================================================================== format then parse *)
Lemma contains_app : forall c a b, contains c (a ++ b) = contains c a || contains c b.
Proof. intros; unfold contains; apply existsb_app. Qed.

Lemma contains_cons : forall c x l, contains c (x :: l) = (c =? x) || contains c l.
Proof. reflexivity. Qed.

Lemma split_on_nosep : forall c f, contains c f = false -> split_on c f = [f].
Proof.
  intros c; induction f as [|x f IH]; intros H; [reflexivity|].
  cbn in H. apply orb_false_iff in H as [H1 H2]. cbn [split_on]. rewrite N.eqb_sym, H1, (IH H2). reflexivity.
Qed.

Lemma split_on_app : forall c a b, contains c a = false -> split_on c (a ++ c :: b) = a :: split_on c b.
Proof.
  intros c; induction a as [|x a IH]; intros b H; cbn [app split_on].
  - rewrite N.eqb_refl; reflexivity.
  - cbn in H. apply orb_false_iff in H as [H1 H2]. rewrite N.eqb_sym, H1, (IH b H2). reflexivity.
Qed.

Lemma cut_first_app : forall c a b, contains c a = false -> cut_first c (a ++ c :: b) = Some (a, b).
Proof.
  intros c; induction a as [|x a IH]; intros b H; cbn [app cut_first].
  - rewrite N.eqb_refl; reflexivity.
  - cbn in H. apply orb_false_iff in H as [H1 H2]. rewrite N.eqb_sym, H1, (IH b H2). reflexivity.
Qed.

Lemma replace_first_app : forall o n a b, contains o a = false -> replace_first o n (a ++ o :: b) = a ++ n :: b.
Proof.
  intros o n; induction a as [|x a IH]; intros b H; cbn [app replace_first].
  - rewrite N.eqb_refl; reflexivity.
  - cbn in H. apply orb_false_iff in H as [H1 H2]. rewrite N.eqb_sym, H1, (IH b H2). reflexivity.
Qed.

Lemma digits_no : forall c d, forallb is_digit d = true -> (c < 48 \/ 57 < c) -> contains c d = false.
Proof.
  intros c; induction d as [|x d IH]; intros H K; [reflexivity|].
  cbn in H. apply andb_true_iff in H as [H1 H2]. unfold contains in *; cbn [existsb]. rewrite (IH H2 K). unfold is_digit in H1.
  destruct (c =? x) eqn:E; [apply N.eqb_eq in E; subst; lia | reflexivity].
Qed.

(* ---- finite facts, by computation over the complete domains *)
Definition zrange (n : nat) : list Z := map Z.of_nat (seq 0 n).
Lemma in_zrange : forall n z, (0 <= z < Z.of_nat n)%Z -> In z (zrange n).
Proof.
  intros n z H. unfold zrange. replace z with (Z.of_nat (Z.to_nat z)) by lia. apply in_map. apply in_seq. lia.
Qed.

Definition all_clocks : list clock :=
  flat_map (fun h => map (mkClock h) (zrange 60)) (zrange 24) ++ [mkClock 24 0].

Definition clock_fact (c : clock) : bool :=
  let A := fmt_clock c in
  match parse_clock A with Some c' => clock_eqb c c' | None => false end &&
  negb (contains 44 A) && negb (contains 45 A) && negb (contains 47 A) && negb (contains 126 A) &&
  contains 58 A && negb (is_nil_b A) && negb (beq A [45]).

Lemma all_clock_facts : forallb clock_fact all_clocks = true.
Proof. vm_compute. reflexivity. Qed.

Lemma clock_in_all : forall c, clock_wf c = true -> In c all_clocks.
Proof.
  intros [h m] H. unfold clock_wf in H; cbn [hour minute] in H. unfold all_clocks. apply in_or_app.
  destruct (h =? 24)%Z eqn:E.
  - right. assert (h = 24 /\ m = 0)%Z as [-> ->] by lia. left; reflexivity.
  - left. apply in_flat_map. exists h. split; [apply in_zrange; lia | apply in_map; apply in_zrange; lia].
Qed.

Lemma clock_eqb_eq : forall a b, clock_eqb a b = true -> a = b.
Proof. intros [h m] [h' m'] H. unfold clock_eqb in H; cbn in H. f_equal; lia. Qed.

Lemma clock_facts : forall c, clock_wf c = true ->
  let A := fmt_clock c in
  parse_clock A = Some c /\ contains 44 A = false /\ contains 45 A = false /\ contains 47 A = false /\
  contains 126 A = false /\ contains 58 A = true /\ A <> [] /\ beq A [45] = false.
Proof.
  intros c H A. pose proof all_clock_facts as F. rewrite forallb_forall in F.
  specialize (F c (clock_in_all c H)). unfold clock_fact in F. fold A in F.
  destruct (parse_clock A) as [c'|]; [|discriminate F].
  do 7 (apply andb_true_iff in F as [F ?]).
  apply clock_eqb_eq in F; subst c'.
  repeat split; try (apply negb_true_iff; assumption); try assumption.
  intros E; rewrite E in *; discriminate.
Qed.

Definition all_weeks : list week := flat_map (fun d => map (mkWeek d) (zrange 6)) (zrange 7).
Definition all_ws : list weekspan := flat_map (fun a => map (mkWS a) all_weeks) all_weeks.

Definition ws_fact (ws : weekspan) : bool :=
  if ws_wf ws then
    let A := fmt_ws ws in
    match parse_week_span A with Some ws' => ws_eqb ws ws' | None => false end &&
    negb (contains 44 A) && negb (contains 58 A) && negb (is_nil_b A)
  else true.

Lemma all_ws_facts : forallb ws_fact all_ws = true.
Proof. vm_compute. reflexivity. Qed.

Lemma week_in_all : forall w, week_wf w = true -> In w all_weeks.
Proof.
  intros [d p] H. unfold week_wf in H; cbn in H. unfold all_weeks. apply in_flat_map.
  exists d. split; [apply in_zrange; lia | apply in_map; apply in_zrange; lia].
Qed.

Lemma ws_eqb_eq : forall a b, ws_eqb a b = true -> a = b.
Proof.
  intros [[d1 p1] [d2 p2]] [[d3 p3] [d4 p4]] H. unfold ws_eqb, week_eqb in H; cbn in H.
  assert (d1 = d3 /\ p1 = p3 /\ d2 = d4 /\ p2 = p4)%Z as (-> & -> & -> & ->) by lia. reflexivity.
Qed.

Lemma ws_facts : forall ws, ws_wf ws = true ->
  let A := fmt_ws ws in
  parse_week_span A = Some ws /\ contains 44 A = false /\ contains 58 A = false /\ is_nil_b A = false.
Proof.
  intros ws H A. pose proof all_ws_facts as F. rewrite forallb_forall in F.
  assert (I : In ws all_ws).
  { destruct ws as [a b]. unfold ws_wf in H; cbn [ws_start ws_end] in H.
    apply andb_true_iff in H as [H _]. apply andb_true_iff in H as [Ha Hb].
    unfold all_ws. apply in_flat_map. exists a. split; [apply week_in_all; exact Ha | apply in_map; apply week_in_all; exact Hb]. }
  specialize (F ws I). unfold ws_fact in F. rewrite H in F. fold A in F.
  destruct (parse_week_span A) as [ws'|]; [|discriminate F].
  do 3 (apply andb_true_iff in F as [F ?]).
  apply ws_eqb_eq in F; subst ws'.
  repeat split; try (apply negb_true_iff; assumption).
Qed.

(* ---- clock spans *)
Lemma parse_uint32_dec : forall z, (0 <= z < 4294967296)%Z -> parse_uint32 (dec (Z.to_N z)) = Some z.
Proof.
  intros z H. unfold parse_uint32. rewrite undec_dec.
  destruct (Z.to_N z <? 4294967296) eqn:E; [f_equal; lia | lia].
Qed.

Lemma nonnil_b : forall (l : bytes), l <> [] -> is_nil_b l = false.
Proof. intros [|x l] H; [contradiction | reflexivity]. Qed.
Lemma nonnil_app_b : forall (a b : bytes), a <> [] -> is_nil_b (a ++ b) = false.
Proof. intros [|x a] b H; [contradiction | reflexivity]. Qed.

Lemma cs_roundtrip : forall cs, cs_wf cs = true -> split_ok cs = true ->
  parse_clock_span (fmt_cs cs) = Some (norm_cs cs) /\
  contains 58 (fmt_cs cs) = true /\ contains 44 (fmt_cs cs) = false /\ is_nil_b (fmt_cs cs) = false.
Proof.
  intros [st en sp sd] W S. unfold cs_wf in W; cbn [cs_start cs_end split] in W.
  unfold split_ok in S; cbn [split] in S.
  assert (Wst : clock_wf st = true) by lia. assert (Wen : clock_wf en = true) by lia.
  assert (Rsp : (0 <= sp < 4294967296)%Z) by lia.
  destruct (clock_facts st Wst) as (P1 & C1 & M1 & S1 & T1 & K1 & N1 & B1).
  destruct (clock_facts en Wen) as (P2 & C2 & M2 & S2 & T2 & K2 & N2 & B2).
  cbv zeta in *. remember (fmt_clock st) as A eqn:EA. remember (fmt_clock en) as B eqn:EB.
  unfold fmt_cs, norm_cs; cbn [cs_start cs_end split spread]. rewrite <- EA, <- EB.
  destruct (clock_eqb en st) eqn:EQ.
  - (* single time *)
    apply clock_eqb_eq in EQ; subst en.
    split; [|split; [exact K1 | split; [exact C1 | apply nonnil_b; exact N1]]].
    unfold parse_clock_span, parse_count. rewrite S1; cbn [negb]. rewrite T1, B1, M1, P1. reflexivity.
  - set (sep := if sd then 126 else 45).
    set (tail := if (0 <? sp)%Z then 47 :: dec (Z.to_N sp) else []).
    assert (Dg : forall c, (c < 48 \/ 57 < c) -> contains c (dec (Z.to_N sp)) = false)
      by (intros c Hc; apply digits_no; [apply dec_digits | exact Hc]).
    assert (Rest47 : contains 47 (A ++ sep :: B) = false).
    { rewrite contains_app; cbn [contains existsb]. fold (contains 47 B). rewrite S1, S2. unfold sep; destruct sd; reflexivity. }
    assert (PC : parse_count ((A ++ sep :: B) ++ tail) = Some (sp, A ++ sep :: B)).
    { unfold parse_count, tail. destruct (0 <? sp)%Z eqn:Esp.
      - rewrite contains_app. cbn [contains existsb N.eqb Pos.eqb orb]. rewrite orb_true_r; cbn [negb].
        assert (D47 : contains 47 (dec (Z.to_N sp)) = false) by (apply Dg; left; reflexivity).
        assert (PU : parse_uint32 (dec (Z.to_N sp)) = Some sp) by (apply parse_uint32_dec; exact Rsp).
        rewrite (split_on_app 47 (A ++ sep :: B) (dec (Z.to_N sp)) Rest47).
        rewrite (split_on_nosep 47 (dec (Z.to_N sp)) D47). rewrite PU.
        destruct (sp =? 0)%Z eqn:E0; [clear - E0 Esp; lia | reflexivity].
      - rewrite app_nil_r, Rest47; cbn [negb]. f_equal. f_equal. clear - Esp Rsp; lia. }
    assert (FMT : A ++ sep :: B ++ tail = (A ++ sep :: B) ++ tail) by (rewrite <- app_assoc; reflexivity).
    rewrite FMT. split; [|split; [|split]].
    + unfold parse_clock_span. rewrite PC.
      assert (SP : contains 126 (A ++ sep :: B) = sd).
      { rewrite contains_app; cbn [contains existsb]. fold (contains 126 B). rewrite T1, T2. unfold sep; destruct sd; reflexivity. }
      rewrite SP.
      assert (R' : (if sd then replace_first 126 45 (A ++ sep :: B) else A ++ sep :: B) = A ++ 45 :: B).
      { unfold sep; destruct sd; [apply replace_first_app; exact T1 | reflexivity]. }
      rewrite R'.
      assert (NB : beq (A ++ 45 :: B) [45] = false).
      { destruct A as [|a [|a' A']]; [contradiction | | ]; cbn; rewrite ?andb_false_r; try reflexivity.
        all: try (destruct (a =? 45); reflexivity). }
      rewrite NB. rewrite contains_app; cbn [contains existsb N.eqb Pos.eqb orb]. rewrite orb_true_r.
      unfold parse_clock_range. rewrite cut_first_app by exact M1. rewrite P1, P2. reflexivity.
    + rewrite !contains_app. rewrite K1. reflexivity.
    + rewrite !contains_app. cbn [contains existsb]. fold (contains 44 B). rewrite C1, C2.
      unfold tail. destruct (0 <? sp)%Z; [cbn [contains existsb]; fold (contains 44 (dec (Z.to_N sp))); rewrite (Dg 44 (or_introl eq_refl))|];
        unfold sep; destruct sd; reflexivity.
    + apply nonnil_app_b. intros E. apply app_eq_nil in E as [E _]. exact (N1 E).
Qed.

(* ---- the fragment list *)
Lemma join_split : forall frs, frs <> [] -> (forall f, In f frs -> contains 44 f = false) ->
  split_on 44 (join 44 frs) = frs.
Proof.
  induction frs as [|f [|g r] IH]; intros N H; [contradiction | |].
  - cbn [join]. apply split_on_nosep. apply H; left; reflexivity.
  - change (join 44 (f :: g :: r)) with (f ++ 44 :: join 44 (g :: r)).
    rewrite split_on_app by (apply H; left; reflexivity). f_equal.
    apply IH; [discriminate | intros x Hx; apply H; right; exact Hx].
Qed.

Lemma parse_frags_cs : forall C e,
  forallb cs_wf C = true -> forallb split_ok C = true ->
  parse_frags (map fmt_cs C) e = Some ([], map norm_cs C).
Proof.
  induction C as [|cs C IH]; intros e W S; [reflexivity|].
  cbn [forallb] in W, S. apply andb_true_iff in W as [W1 W2]. apply andb_true_iff in S as [S1 S2].
  destruct (cs_roundtrip cs W1 S1) as (P & K & _ & N).
  cbn [map parse_frags]. rewrite N, K, P, (IH true W2 S2). reflexivity.
Qed.

Lemma parse_frags_ws : forall W C,
  forallb ws_wf W = true -> forallb cs_wf C = true -> forallb split_ok C = true ->
  parse_frags (map fmt_ws W ++ map fmt_cs C) false = Some (W, map norm_cs C).
Proof.
  induction W as [|ws W IH]; intros C HW HC HS.
  - cbn [map app]. apply parse_frags_cs; assumption.
  - cbn [forallb] in HW. apply andb_true_iff in HW as [H1 H2].
    destruct (ws_facts ws H1) as (P & _ & K & N).
    cbn [map app parse_frags]. rewrite N, K, P, (IH C H2 HC HS). reflexivity.
Qed.

Lemma frags_no_comma : forall s, sched_ok s = true ->
  forall f, In f (map fmt_ws (weekspans s) ++ map fmt_cs (clockspans s)) -> contains 44 f = false /\ f <> [].
Proof.
  intros s H f Hin. unfold sched_ok, sched_wf in H.
  apply andb_true_iff in H as [H _]. apply andb_true_iff in H as [H HS]. apply andb_true_iff in H as [HW HC].
  rewrite forallb_forall in HW, HC, HS.
  apply in_app_or in Hin as [Hin|Hin]; apply in_map_iff in Hin as (x & <- & Hx).
  - destruct (ws_facts x (HW x Hx)) as (_ & A & _ & B). split; [exact A | intros E; rewrite E in B; discriminate].
  - destruct (cs_roundtrip x (HC x Hx) (HS x Hx)) as (_ & _ & A & B). split; [exact A | intros E; rewrite E in B; discriminate].
Qed.

(* MAIN (one event set): for every well-formed non-empty schedule, parseEventSet (String s) gives s back, up to the
   normalisation of clock spans whose end equals their start (Spread and Split are not printed for them) *)
Theorem event_set_roundtrip : forall s : schedule, sched_ok s = true ->
  parse_event_set (fmt_sched s) = Some (norm_sched s).
Proof.
  intros s H. unfold parse_event_set, fmt_sched.
  assert (NE : map fmt_ws (weekspans s) ++ map fmt_cs (clockspans s) <> []).
  { unfold sched_ok in H. apply andb_true_iff in H as [_ H]. destruct (weekspans s), (clockspans s); cbn in *; try discriminate. }
  rewrite join_split; [|exact NE | intros f Hf; apply (frags_no_comma s H f Hf)].
  pose proof H as H'. unfold sched_ok, sched_wf in H'.
  apply andb_true_iff in H' as [H' _]. apply andb_true_iff in H' as [H' HS]. apply andb_true_iff in H' as [HW HC].
  rewrite (parse_frags_ws _ _ HW HC HS). reflexivity.
Qed.

(* ---- the ",," level *)
Fixpoint no_cc (l : bytes) : bool :=
  match l with
  | x :: ((y :: _) as r) => negb ((x =? 44) && (y =? 44)) && no_cc r
  | _ => true
  end.

Lemma split_cc_nocc : forall l, no_cc l = true -> split_cc l = [l].
Proof.
  induction l as [|x r IH]; intros H; [reflexivity|].
  destruct r as [|y r']; [reflexivity|].
  cbn [no_cc] in H. apply andb_true_iff in H as [H1 H2]. apply negb_true_iff in H1.
  change (split_cc (x :: y :: r')) with (if (x =? 44) && (y =? 44) then [] :: split_cc r' else cons_head x (split_cc (y :: r'))).
  rewrite H1, (IH H2). reflexivity.
Qed.

Lemma nocc_app : forall a b, contains 44 a = false -> a <> [] -> no_cc b = true ->
  (match b with x :: _ => x <> 44 | [] => True end) -> no_cc (a ++ 44 :: b) = true.
Proof.
  induction a as [|x [|x' a'] IH]; intros b H N Hb Hh; [contradiction | |].
  - rewrite contains_cons in H. apply orb_false_iff in H as [H _]. cbn [app no_cc].
    rewrite N.eqb_sym in H. rewrite H; cbn [andb negb].
    destruct b as [|y b']; [reflexivity|]. rewrite N.eqb_refl; cbn [andb].
    destruct (y =? 44) eqn:E; [apply N.eqb_eq in E; contradiction|]. cbn [negb andb]. exact Hb.
  - rewrite contains_cons in H. apply orb_false_iff in H as [H H']. rewrite N.eqb_sym in H.
    change ((x :: x' :: a') ++ 44 :: b) with (x :: (x' :: a') ++ 44 :: b). cbn [no_cc app]. rewrite H; cbn [andb negb].
    apply (IH b); [exact H' | discriminate | exact Hb | exact Hh].
Qed.

Lemma nocc_nosep : forall a, contains 44 a = false -> no_cc a = true.
Proof.
  induction a as [|x [|y a'] IH]; intros H; [reflexivity | reflexivity |].
  rewrite contains_cons in H. apply orb_false_iff in H as [H H']. rewrite N.eqb_sym in H. cbn [no_cc]. rewrite H; cbn [andb negb].
  apply IH. exact H'.
Qed.

Lemma join_nocc : forall frs, (forall f, In f frs -> contains 44 f = false /\ f <> []) ->
  no_cc (join 44 frs) = true /\ (match join 44 frs with x :: _ => x <> 44 | [] => True end).
Proof.
  induction frs as [|f [|g r] IH]; intros H; [split; [reflexivity | exact I] | |].
  - cbn [join]. destruct (H f (or_introl eq_refl)) as [A B]. split; [apply nocc_nosep; exact A|].
    destruct f as [|x f']; [contradiction|]. rewrite contains_cons in A. apply orb_false_iff in A as [A _].
    intros E; subst x; rewrite N.eqb_refl in A; discriminate.
  - change (join 44 (f :: g :: r)) with (f ++ 44 :: join 44 (g :: r)).
    destruct (H f (or_introl eq_refl)) as [A B].
    destruct (IH (fun x Hx => H x (or_intror Hx))) as [P Q]. split.
    + apply nocc_app; assumption.
    + destruct f as [|x f']; [contradiction|]. rewrite contains_cons in A. apply orb_false_iff in A as [A _]. cbn [app].
      intros E; subst x; rewrite N.eqb_refl in A; discriminate.
Qed.

(* MAIN: ParseSchedule (String s) = [s] up to the same normalisation, for every well-formed non-empty schedule;
   by parse_accepts_only_wf every schedule the parser returns is one. *)
Theorem format_parse_roundtrip : forall s : schedule, sched_ok s = true ->
  parse_schedule (fmt_sched s) = Some [norm_sched s].
Proof.
  intros s H. unfold parse_schedule.
  assert (N : no_cc (fmt_sched s) = true) by (apply join_nocc; apply (frags_no_comma s H)).
  rewrite (split_cc_nocc _ N). cbn [map all_some]. rewrite (event_set_roundtrip s H). reflexivity.
Qed.

Corollary parsed_roundtrip : forall (text : bytes) (l : list schedule),
  parse_schedule text = Some l -> Forall (fun s => parse_schedule (fmt_sched s) = Some [norm_sched s]) l.
Proof.
  intros text l H. destruct (parse_accepts_only_wf text l H) as [_ F].
  eapply Forall_impl; [|exact F]. intros s Hs. apply format_parse_roundtrip; exact Hs.
Qed.

(* ================================================================== the normalisation does not change the schedule *)
(* two clock spans / windows that differ at most in the spread flag of an EMPTY span / window *)
Definition span_rel (a b : clockspan) : Prop :=
  cs_start a = cs_start b /\ cs_end a = cs_end b /\ (spread a = spread b \/ cs_end a = cs_start a).
Definition win_rel (a b : window) : Prop :=
  w_start a = w_start b /\ w_end a = w_end b /\ (w_spread a = w_spread b \/ w_start a = w_end a).
Definition owin_rel (a b : option window) : Prop :=
  match a, b with
  | None, None => True
  | Some x, Some y => win_rel x y
  | _, _ => False
  end.

Lemma span_rel_refl : forall a, span_rel a a.
Proof. intros a; repeat split; auto. Qed.

Lemma window_of_rel : forall a b D, span_rel a b -> win_rel (window_of a D) (window_of b D).
Proof.
  intros a b D (H1 & H2 & H3). unfold win_rel, window_of; cbn [w_start w_end w_spread]. rewrite H1, H2.
  split; [reflexivity|]. split; [reflexivity|]. destruct H3 as [H3|H3]; [left; exact H3 | right].
  rewrite <- H1, <- H2, H3. rewrite Z.ltb_irrefl. reflexivity.
Qed.

Lemma pick_rel : forall now last D acc1 acc2 a b, owin_rel acc1 acc2 -> span_rel a b ->
  owin_rel (pick now last D acc1 a) (pick now last D acc2 b).
Proof.
  intros now last D acc1 acc2 a b HA HS. pose proof (window_of_rel a b D HS) as (E1 & E2 & E3).
  unfold pick. rewrite E1, E2.
  destruct (w_end (window_of b D) <? now)%Z; [exact HA|].
  destruct ((w_start (window_of b D) <=? last)%Z && (last <=? w_end (window_of b D))%Z); [exact HA|].
  assert (W : win_rel (window_of a D) (window_of b D)) by (repeat split; assumption).
  destruct acc1 as [x|], acc2 as [y|]; cbn in HA; try contradiction; [|exact W].
  destruct HA as (A1 & A2 & A3). rewrite A1.
  destruct (w_start (window_of b D) <? w_start y)%Z; [exact W | repeat split; assumption].
Qed.

Lemma fold_pick_rel : forall now last D t1 t2, Forall2 span_rel t1 t2 ->
  forall acc1 acc2, owin_rel acc1 acc2 ->
  owin_rel (fold_left (pick now last D) t1 acc1) (fold_left (pick now last D) t2 acc2).
Proof.
  intros now last D t1 t2 F. induction F as [|a b t1 t2 R F IH]; intros acc1 acc2 HA; [exact HA|].
  cbn [fold_left]. apply IH. apply pick_rel; assumption.
Qed.

Lemma week_ok_same : forall s1 s2 D, weekspans s1 = weekspans s2 -> week_ok s1 D = week_ok s2 D.
Proof. intros s1 s2 D H. unfold week_ok. rewrite H. reflexivity. Qed.

Lemma next_from_rel : forall fuel s1 s2 t1 t2 now last t,
  weekspans s1 = weekspans s2 -> Forall2 span_rel t1 t2 ->
  owin_rel (next_from fuel s1 t1 now last t) (next_from fuel s2 t2 now last t).
Proof.
  induction fuel as [|f IH]; intros s1 s2 t1 t2 now last t HW F; [exact I|].
  cbn [next_from]. rewrite (week_ok_same s1 s2 _ HW).
  destruct (negb (week_ok s2 (t / 86400)%Z)); [apply IH; assumption|].
  pose proof (fold_pick_rel now last (t / 86400)%Z t1 t2 F None None I) as R.
  destruct (fold_left (pick now last (t / 86400)%Z) t1 None) as [x|],
           (fold_left (pick now last (t / 86400)%Z) t2 None) as [y|]; cbn in R; try contradiction; [|apply IH; assumption].
  destruct R as (R1 & R2 & R3). rewrite R2.
  destruct (w_end y <? now)%Z; [apply IH; assumption | repeat split; assumption].
Qed.

Lemma clock_spans_norm_rel : forall c, Forall2 span_rel (clock_spans (norm_cs c)) (clock_spans c).
Proof.
  intros c. unfold norm_cs. destruct (clock_eqb (cs_end c) (cs_start c)) eqn:E.
  - unfold clock_spans; cbn [split cs_end cs_start]. rewrite E, !orb_true_r. cbn [Z.eqb orb].
    constructor; [|constructor]. repeat split; cbn [cs_start cs_end]; auto. right. apply clock_eqb_eq; exact E.
  - induction (clock_spans c) as [|x l IH]; constructor; [apply span_rel_refl | exact IH].
Qed.

Lemma flat_map_rel : forall C, Forall2 span_rel (flat_map clock_spans (map norm_cs C)) (flat_map clock_spans C).
Proof.
  induction C as [|c C IH]; [constructor|]. cbn [map flat_map]. apply Forall2_app; [apply clock_spans_norm_rel | exact IH].
Qed.

Lemma flattened_norm_rel : forall s, Forall2 span_rel (flattened (norm_sched s)) (flattened s).
Proof.
  intros s. unfold flattened, norm_sched; cbn [clockspans].
  destruct (clockspans s) as [|c C] eqn:E.
  - cbn [map]. induction (flat_map clock_spans [mkCS (mkClock 0 0) (mkClock 0 0) 0 false]) as [|x l IH];
      constructor; [apply span_rel_refl | exact IH].
  - cbn [map]. change (norm_cs c :: map norm_cs C) with (map norm_cs (c :: C)). apply flat_map_rel.
Qed.

Lemma existsb_includes_rel : forall t D l1 l2, Forall2 span_rel l1 l2 ->
  existsb (span_includes t D) l1 = existsb (span_includes t D) l2.
Proof.
  intros t D l1 l2 F. induction F as [|a b l1 l2 R F IH]; [reflexivity|].
  cbn [existsb]. rewrite IH. f_equal. pose proof (window_of_rel a b D R) as (E1 & E2 & _).
  unfold span_includes. rewrite E1, E2. reflexivity.
Qed.

(* the normalised schedule denotes the same schedule: Includes agrees everywhere, and Next returns windows with the same
   start and end (the spread flag can differ only on an empty window, where the random spread is 0 anyway) *)
Theorem norm_sched_equivalent : forall (s : schedule),
  (forall t, sched_includes (norm_sched s) t = sched_includes s t) /\
  (forall fuel last now, owin_rel (sched_next fuel (norm_sched s) last now) (sched_next fuel s last now)).
Proof.
  intros s. split.
  - intros t. unfold sched_includes. rewrite (week_ok_same (norm_sched s) s _ eq_refl).
    rewrite (existsb_includes_rel t _ _ _ (flattened_norm_rel s)). reflexivity.
  - intros fuel last now. unfold sched_next. apply next_from_rel; [reflexivity | apply flattened_norm_rel].
Qed.

(* (i) the round trip for all well-formed schedules, with the result equivalent to the original *)
Theorem roundtrip_equivalent : forall s : schedule, sched_ok s = true ->
  exists s', parse_schedule (fmt_sched s) = Some [s'] /\
    (forall t, sched_includes s' t = sched_includes s t) /\
    (forall fuel last now, owin_rel (sched_next fuel s' last now) (sched_next fuel s last now)).
Proof.
  intros s H. exists (norm_sched s). split; [apply format_parse_roundtrip; exact H|]. apply norm_sched_equivalent.
Qed.

Lemma sched_ok_wf : forall s, sched_ok s = true -> sched_wf s = true.
Proof. intros s H. unfold sched_ok in H. apply andb_true_iff in H as [H _]. apply andb_true_iff in H as [H _]. exact H. Qed.
