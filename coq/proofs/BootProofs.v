(* C17 -- proofs about models/Boot.v: inductive invariants of the UC20/grub machine and of the UC16/18 machine over
   EVERY event sequence (any length, power loss between any two writes). *)
From Coq Require Import List NArith Bool Lia.
Import ListNotations.
Require Import V.gen.GrubKernelStatus V.models.Boot.
Open Scope N_scope.

(* ------------------------------------------------------------------------------------------------ small facts *)

Lemma mem_In : forall r l, mem r l = true <-> In r l.
Proof.
  unfold mem; intros r l; rewrite existsb_exists; split.
  - intros [x [Hx He]]; apply N.eqb_eq in He; subst; exact Hx.
  - intros H; exists r; split; [exact H | apply N.eqb_refl].
Qed.

Lemma status_eqb_eq : forall a b, status_eqb a b = true <-> a = b.
Proof. destruct a, b; simpl; split; intros; congruence. Qed.

Lemma orev_eqb_eq : forall a b, orev_eqb a b = true -> a = b.
Proof. destruct a, b; simpl; intros H; try congruence. apply N.eqb_eq in H; congruence. Qed.

Lemma revs_eqb_eq : forall a b, revs_eqb a b = true -> a = b.
Proof.
  induction a; destruct b; simpl; intros H; try congruence.
  apply andb_true_iff in H; destruct H as [H1 H2]. apply N.eqb_eq in H1. f_equal; auto.
Qed.

Lemma menv_eqb_eq : forall a b, menv_eqb a b = true -> a = b.
Proof.
  intros [a1 a2 a3 a4] [b1 b2 b3 b4]; unfold menv_eqb; simpl; intros H.
  repeat (apply andb_true_iff in H; destruct H as [H ?]).
  apply N.eqb_eq in H. apply orev_eqb_eq in H2. apply status_eqb_eq in H1. apply revs_eqb_eq in H0. congruence.
Qed.

Lemma modeenv_write_cases : forall old new,
  (modeenv_write old new = [] /\ new = old) \/ modeenv_write old new = [WModeenv new].
Proof.
  intros; unfold modeenv_write; destruct (menv_eqb new old) eqn:E; [left | right]; auto.
  split; auto using menv_eqb_eq.
Qed.

(* grub.cfg as it is now (re-checked against the generated table on every run) *)
Lemma grub_table : forall x, grub_step x = match x with
  | SDef => (SDef, false, false) | STry => (STrying, true, true)
  | STrying => (SDef, false, false) | SBad => (SDef, false, false) end.
Proof. destruct x; reflexivity. Qed.

Lemma grub_fallback_entry : fallback_entry_reboots = true.
Proof. reflexivity. Qed.

(* ------------------------------------------------------------------------------------------------ UC20 invariant *)

Section UC20.
Variable cf : conf.
Variables fx g : bool.
Hypothesis guard : fx || g = true.

Definition live (x : status) : bool := match x with STry | STrying => true | _ => false end.

(* crash-safe part: holds after every single write. try-kernel.efi / try_base only matter while the status is try or
   trying: a left-over link with status "" is never booted nor committed. *)
Definition Ist (gk gb ak ab : list rev) (s : st20) : Prop :=
  In (kl s) gk /\ In (m_base (me s)) gb /\
  (live (ks s) = true -> forall t, tkl s = Some t -> In t gk \/ In t ak) /\
  (live (m_bst (me s)) = true -> forall t, m_try (me s) = Some t -> In t gb \/ In t ab).

(* kernel.efi is trusted by the initramfs *)
Definition Trust (s : st20) : Prop := In (kl s) (m_ck (me s)).

(* what snapd may rely on when no operation is in progress, kernel k and base b being mounted *)
Definition Qb (k b : rev) (s : st20) : Prop :=
  (ks s = STrying -> forall t, tkl s = Some t -> t = k /\ In t (m_ck (me s))) /\
  (m_bst (me s) = STrying -> forall t, m_try (me s) = Some t -> t = b).

Definition Qf (gk gb ak ab : list rev) (k b : rev) (s : st20) : Prop :=
  Ist gk gb ak ab s /\ Trust s /\ Qb k b s.

Definition head_enable (ws : list write20) : Prop :=
  exists ws', (exists r, ws = WEnable r :: ws') \/ (exists a b c, ws = WEnv a b c :: ws').

(* at a point where writes ws remain: crash-safe, and trusted unless this is the window (only if the guard g is on) *)
Definition P (gk gb ak ab : list rev) (nt sk : bool) (k b : rev) (s : st20) (ws : list write20) : Prop :=
  Ist gk gb ak ab s /\ (Trust s \/ (g = true /\ nt = true /\ head_enable ws)) /\
  (* what a restarted snapd relies on when it re-enters the operations on this partial state *)
  (sk && status_eqb (ks s) STrying = false -> Qb k b s).

Fixpoint pend_ok (Pp : st20 -> list write20 -> Prop) (Pf : st20 -> Prop) (s : st20) (ws : list write20) : Prop :=
  match ws with
  | [] => Pf s
  | w :: r => Pp s ws /\ pend_ok Pp Pf (apply20 w s) r
  end.

Definition is_nt (c : option op20) : bool := match c with Some (SetK _ true) => true | _ => false end.
Definition cfin_ak (c : option op20) (s : st20) (a : list rev) := match c with Some o => fin_ak o s a | None => a end.
Definition cfin_ab (c : option op20) (s : st20) (a : list rev) := match c with Some o => fin_ab o s a | None => a end.

(* the image grub chainloaded is the one the initramfs is going to select *)
Definition fwc (i : rev) (s : st20) : Prop :=
  (ks s = SDef \/ ks s = STrying) /\ (ks s = STrying -> tkl s = Some i) /\ (ks s = SDef -> i = kl s).

Definition MI (m : mach) : Prop :=
  match ph m with
  | PhOff => pend m = [] /\ Ist (gk m) (gb m) (ak m) (ab m) (st m) /\ Trust (st m)
  | PhFw i => pend m = [] /\ Ist (gk m) (gb m) (ak m) (ab m) (st m) /\ Trust (st m) /\ fwc i (st m)
  | PhRun k b =>
      pend_ok (P (gk m) (gb m) (ak m) (ab m) (is_nt (cur m)) (is_setk (cur m)) k b)
              (fun s' => Qf (gk m) (gb m) (cfin_ak (cur m) s' (ak m)) (cfin_ab (cur m) s' (ab m)) k b s')
              (st m) (pend m) /\
      (pend m = [] -> cur m = None)
  | PhDead => False
  end.

Lemma Ist_mono : forall gk gb ak ab gk' gb' ak' ab' s,
  incl gk gk' -> incl gb gb' -> incl ak ak' -> incl ab ab' -> Ist gk gb ak ab s -> Ist gk' gb' ak' ab' s.
Proof.
  unfold Ist, incl; intros * Hk Hb Hak Hab (H1 & H2 & H3 & H4); repeat split; auto.
  - intros Hl t Ht; destruct (H3 Hl t Ht); auto.
  - intros Hl t Ht; destruct (H4 Hl t Ht); auto.
Qed.

Lemma st_eta : forall s, {| ks := ks s; kl := kl s; tkl := tkl s; me := me s |} = s.
Proof. destruct s; reflexivity. Qed.

Ltac inv_eqb :=
  repeat match goal with
  | H : N.eqb _ _ = true |- _ => apply N.eqb_eq in H
  | H : N.eqb _ _ = false |- _ => apply N.eqb_neq in H
  | H : status_eqb _ _ = true |- _ => apply status_eqb_eq in H
  | H : mem _ _ = true |- _ => apply mem_In in H
  end.

Ltac splits := repeat match goal with |- _ /\ _ => split end.

Ltac sat :=
  repeat match goal with
  | H : Some _ = Some _ |- _ => inversion H; clear H; subst
  | H : None = Some _ |- _ => discriminate H
  | H : Some _ = None |- _ => discriminate H
  | H : ?a = ?a -> _ |- _ => specialize (H eq_refl)
  | H : forall t, Some ?x = Some t -> _ |- _ => specialize (H x eq_refl)
  | H : forall t, None = Some t -> _ |- _ => clear H
  | H : SDef = STrying -> _ |- _ => clear H
  | H : STry = STrying -> _ |- _ => clear H
  | H : SBad = STrying -> _ |- _ => clear H
  | H : _ /\ _ |- _ => destruct H
  | H : false = true |- _ => discriminate H
  | H : true = false |- _ => discriminate H
  | H : status_eqb _ _ = false |- _ => progress simpl in H
  | H : false = true -> _ |- _ => clear H
  | H : context [live _] |- _ => progress cbn [live] in H
  | H : ?c = true -> forall t, Some ?x = Some t -> _, Hl : ?c = true |- _ => pose proof (H Hl x eq_refl); clear H
  | H : ?c = true -> forall t, None = Some t -> _ |- _ => clear H
  | H : ?c = true -> forall t, ?x = Some t -> _, Hl : ?c = true, Ht : ?x = Some ?u |- _ => pose proof (H Hl u Ht); clear H
  end.

Ltac fin :=
  simpl; intros; subst; inv_eqb; subst; simpl; sat;
  try match goal with H : status_eqb ?x STrying = false |- _ => is_var x; destruct x; simpl in H; try discriminate H end;
  try solve [ congruence | tauto | auto 6 using in_eq, in_cons, in_or_app
            | intuition (subst; auto 6 using in_eq, in_cons, in_or_app; congruence) ].

Ltac break :=
  repeat (first
  [ match goal with |- context [N.eqb ?a ?b] => let E := fresh "E" in destruct (N.eqb a b) eqn:E end
  | match goal with |- context [status_eqb ?a ?b] => let E := fresh "E" in destruct (status_eqb a b) eqn:E end
  | match goal with |- context [match ?x with _ => _ end] => is_var x; destruct x end
  | match goal with |- context [menv_eqb ?a ?b] =>
      let E := fresh "E" in destruct (menv_eqb a b) eqn:E; [apply menv_eqb_eq in E; inversion E; clear E | clear E] end ];
  simpl in *).

Ltac finish :=
  unfold P, Qf, Ist, Trust, Qb, head_enable; simpl; splits;
  try solve [assumption | discriminate | intros; discriminate | auto 4 using in_eq, in_cons]; fin.

Ltac op_start HI HT HQ :=
  match goal with s : st20 |- _ => destruct s as [ks0 kl0 tkl0 [mb mt mbs mck]] end;
  unfold Ist, Trust, Qb in *; simpl in *;
  let I1 := fresh "I1" in let I2 := fresh "I2" in let I3 := fresh "I3" in let I4 := fresh "I4" in
  let Q3 := fresh "Q3" in let Q4 := fresh "Q4" in
  destruct HI as (I1 & I2 & I3 & I4); destruct HQ as (Q3 & Q4).

(* ---- the operations, started in a quiescent state, keep the crash-safe invariant after every write and end quiescent *)

Lemma op_mark : forall gk gb ak ab k b s,
  Qf gk gb ak ab k b s ->
  pend_ok (P (k :: gk) (b :: gb) ak ab false false k b) (fun s' => Qf (k :: gk) (b :: gb) [] [] k b s') s (mark20 s).
Proof.
  intros * (HI & HT & HQ). op_start HI HT HQ.
  unfold mark20, mark_kernel_sn, mark_base_sn, modeenv_write; simpl.
  assert (Hb : In (match mbs, mt with STrying, Some t => t | _, _ => mb end) (b :: gb)).
  { destruct mbs; try (right; exact I2). destruct mt as [t|]; [| right; exact I2].
    destruct (Q4 eq_refl t eq_refl). left; reflexivity. }
  remember (match mbs, mt with STrying, Some t => t | _, _ => mb end) as bsn eqn:Eb. clear Eb.
  assert (Hk : (match ks0, tkl0 with STrying, Some t => t | _, _ => kl0 end) = kl0 \/
               (match ks0, tkl0 with STrying, Some t => t | _, _ => kl0 end) = k /\ In k mck).
  { destruct ks0; auto. destruct tkl0 as [t|]; auto. destruct (Q3 eq_refl t eq_refl); subst; auto. }
  remember (match ks0, tkl0 with STrying, Some t => t | _, _ => kl0 end) as ksn eqn:Ek. clear Ek.
  destruct Hk as [Hk | [Hk Hck]]; subst ksn; break; finish.
Qed.

Lemma op_setk_try : forall gk gb ak ab k b s r,
  Qf gk gb ak ab k b s ->
  pend_ok (P gk gb (if N.eqb r (kl s) then ak else r :: ak) ab false true k b)
          (fun s' => Qf gk gb (if N.eqb r (kl s') then [] else [r]) ab k b s') s (set_next_kernel fx s r false).
Proof.
  intros * (HI & HT & HQ). op_start HI HT HQ.
  unfold set_next_kernel, modeenv_write, set_ck; simpl.
  break; finish.
Qed.

Lemma op_setk_notry : forall gk gb ak ab k b s r,
  Qf gk gb ak ab k b s -> In r gk ->
  pend_ok (P gk gb ak ab true true k b) (fun s' => Qf gk gb [] ab k b s') s (set_next_kernel fx s r true).
Proof.
  intros * (HI & HT & HQ) Hr. op_start HI HT HQ.
  unfold set_next_kernel, modeenv_write, set_ck; simpl.
  break; finish.
  all: destruct fx; simpl in *; try solve [fin]; right; splits; eauto 8.
Qed.

Lemma op_setb_try : forall gk gb ak ab k b s r,
  Qf gk gb ak ab k b s ->
  pend_ok (P gk gb ak (if N.eqb r (m_base (me s)) then ab else r :: ab) false false k b)
          (fun s' => Qf gk gb ak (if N.eqb r (m_base (me s')) then [] else [r]) k b s') s (set_next_base s r false).
Proof.
  intros * (HI & HT & HQ). op_start HI HT HQ.
  unfold set_next_base, modeenv_write, set_bst; simpl.
  break; finish.
Qed.

Lemma op_setb_notry : forall gk gb ak ab k b s r,
  Qf gk gb ak ab k b s -> In r gb ->
  pend_ok (P gk gb ak ab false false k b) (fun s' => Qf gk gb ak [] k b s') s (set_next_base s r true).
Proof.
  intros * (HI & HT & HQ) Hr. op_start HI HT HQ.
  unfold set_next_base, modeenv_write, set_bst; simpl.
  break; finish.
Qed.

Lemma op_mark_env : forall gk gb ak ab k b s,
  Qf gk gb ak ab k b s ->
  pend_ok (P (k :: gk) (b :: gb) ak ab false false k b) (fun s' => Qf (k :: gk) (b :: gb) [] [] k b s') s (mark20_env s).
Proof.
  intros * (HI & HT & HQ). op_start HI HT HQ.
  unfold mark20_env, mark_kernel_sn, mark_base_sn, modeenv_write, orev_is_none; simpl.
  assert (Hb : In (match mbs, mt with STrying, Some t => t | _, _ => mb end) (b :: gb)).
  { destruct mbs; try (right; exact I2). destruct mt as [t|]; [| right; exact I2].
    destruct (Q4 eq_refl t eq_refl). left; reflexivity. }
  remember (match mbs, mt with STrying, Some t => t | _, _ => mb end) as bsn eqn:Eb. clear Eb.
  assert (Hk : (match ks0, tkl0 with STrying, Some t => t | _, _ => kl0 end) = kl0 \/
               (match ks0, tkl0 with STrying, Some t => t | _, _ => kl0 end) = k /\ In k mck).
  { destruct ks0; auto. destruct tkl0 as [t|]; auto. destruct (Q3 eq_refl t eq_refl); subst; auto. }
  remember (match ks0, tkl0 with STrying, Some t => t | _, _ => kl0 end) as ksn eqn:Ek. clear Ek.
  destruct Hk as [Hk | [Hk Hck]]; subst ksn; break; finish.
Qed.

Lemma op_setk_try_env : forall gk gb ak ab k b s r,
  Qf gk gb ak ab k b s ->
  pend_ok (P gk gb (if N.eqb r (kl s) then ak else r :: ak) ab false true k b)
          (fun s' => Qf gk gb (if N.eqb r (kl s') then [] else [r]) ab k b s') s (set_next_kernel_env fx s r false).
Proof.
  intros * (HI & HT & HQ). op_start HI HT HQ.
  unfold set_next_kernel_env, modeenv_write, set_ck; simpl.
  break; finish.
Qed.

Lemma op_setk_notry_env : forall gk gb ak ab k b s r,
  Qf gk gb ak ab k b s -> In r gk ->
  pend_ok (P gk gb ak ab true true k b) (fun s' => Qf gk gb [] ab k b s') s (set_next_kernel_env fx s r true).
Proof.
  intros * (HI & HT & HQ) Hr. op_start HI HT HQ.
  unfold set_next_kernel_env, modeenv_write, set_ck; simpl.
  break; finish.
  all: destruct fx; simpl in *; try solve [fin]; right; splits; eauto 8.
Qed.

(* all operations at once, in the shape start_op uses *)
Lemma op_all : forall gk gb ak ab k b s o,
  Qf gk gb ak ab k b s ->
  match o with SetK r true => In r gk | SetB r true => In r gb | _ => True end ->
  let gk' := match o with Mark => k :: gk | _ => gk end in
  let gb' := match o with Mark => b :: gb | _ => gb end in
  let ak1 := match o with SetK r false => if N.eqb r (kl s) then ak else r :: ak | _ => ak end in
  let ab1 := match o with SetB r false => if N.eqb r (m_base (me s)) then ab else r :: ab | _ => ab end in
  pend_ok (P gk' gb' ak1 ab1 (is_nt (Some o)) (is_setk (Some o)) k b)
          (fun s' => Qf gk' gb' (fin_ak o s' ak1) (fin_ab o s' ab1) k b s') s (writes20 cf fx o s).
Proof.
  intros * HQ Hen. destruct o as [r [|] | r [|] |], cf; simpl.
  - apply op_setk_notry; auto.
  - apply op_setk_notry_env; auto.
  - apply op_setk_try; auto.
  - apply op_setk_try_env; auto.
  - apply op_setb_notry; auto.
  - apply op_setb_notry; auto.
  - apply op_setb_try; auto.
  - apply op_setb_try; auto.
  - apply op_mark; auto.
  - apply op_mark_env; auto.
Qed.

(* the firmware never gets stuck, only rewrites kernel_status, and chainloads what the status it leaves says *)
Lemma firmware_ok : forall tb s s' r, firmware_c cf tb s = (s', r) ->
  kl s' = kl s /\ tkl s' = tkl s /\ me s' = me s /\ r <> FwStuck /\ (live (ks s') = true -> live (ks s) = true) /\
  (forall i, r = FwImage i -> fwc i s').
Proof.
  intros tb s s' r; unfold firmware_c, firmware20, firmware_ns, ns_status; rewrite grub_table.
  destruct cf, tb; destruct (ks s); simpl; try destruct (tkl s) eqn:Et; simpl; intros H; inversion H; subst; simpl;
    repeat split; auto; try discriminate; unfold fwc; simpl;
    try (intros; match goal with Hi : FwImage _ = FwImage _ |- _ => inversion Hi; subst end; auto; try discriminate; congruence).
Qed.

Lemma initramfs_base_ok : forall m m' b, initramfs_base m = (m', b) ->
  m_base m' = m_base m /\ m_try m' = m_try m /\ m_ck m' = m_ck m /\ (live (m_bst m') = true -> live (m_bst m) = true) /\
  (b = m_base m \/ (m_try m = Some b /\ m_bst m = STry)) /\
  (m_bst m' = STrying -> forall t, m_try m' = Some t -> t = b).
Proof.
  intros m m' b; unfold initramfs_base.
  destruct (m_bst m) eqn:Eb; try destruct (m_try m) eqn:Et; simpl; intros H; inversion H; subst; simpl;
    repeat split; simpl; rewrite ?Eb; simpl; auto; try (intros; congruence).
Qed.

(* what the initramfs mounts: the image grub chainloaded, and a known-good revision or the one under trial *)
Lemma mount_ok : forall m i k b, MI m -> ph m = PhFw i -> ph (step20 cf fx g m EInitramfs) = PhRun k b ->
  k = i /\ (In k (gk m) \/ In k (ak m)) /\ (In b (gb m) \/ In b (ab m)) /\ MI (step20 cf fx g m EInitramfs).
Proof.
  intros m i k b HM Hp. unfold MI in HM. rewrite Hp in HM. destruct HM as (_ & HI & HT & (Hks & Hc1 & Hc2)).
  unfold step20. rewrite Hp. unfold initramfs20.
  destruct (initramfs_base (me (st m))) as [m' b'] eqn:Eb.
  destruct (initramfs_base_ok _ _ _ Eb) as (B1 & B2 & B3 & B4 & B5 & B6).
  assert (HI' : Ist (gk m) (gb m) (ak m) (ab m) {| ks := ks (st m); kl := kl (st m); tkl := tkl (st m); me := m' |} /\
                Trust {| ks := ks (st m); kl := kl (st m); tkl := tkl (st m); me := m' |}).
  { unfold Ist, Trust in *; simpl. rewrite B1, B2, B3. intuition. }
  destruct HI' as [HI' HT'].
  assert (Hb : In b' (gb m) \/ In b' (ab m)).
  { destruct HI as (_ & I2 & _ & I4). destruct B5 as [-> | [B5 B5']]; auto. apply I4; auto. rewrite B5'. reflexivity. }
  unfold initramfs_kernel; simpl. rewrite B3.
  destruct Hks as [Eks | Eks]; rewrite Eks; rewrite Eks in HI', HT'; simpl.
  - (* kernel_status "" : kernel.efi *)
    destruct (mem (kl (st m)) (m_ck (me (st m)))) eqn:Em; simpl.
    + intros H; inversion H; subst k b. split; [symmetry; exact (Hc2 Eks) |].
      split; [left; destruct HI as (I1 & _); exact I1 |].
      split; [exact Hb |]. unfold MI; simpl. split; [| reflexivity]. split; [exact HI' | split; [exact HT' |]].
      unfold Qb; simpl. split; [intros; discriminate | exact B6].
    + discriminate.
  - (* trying: try-kernel.efi *)
    rewrite (Hc1 Eks). rewrite (Hc1 Eks) in HI', HT'. destruct (mem i (m_ck (me (st m)))) eqn:Em; simpl; [| discriminate].
    apply mem_In in Em.
    intros H; inversion H; subst k b. split; [reflexivity |].
    split; [destruct HI as (_ & _ & I3 & _); apply I3; [rewrite Eks; reflexivity | exact (Hc1 Eks)] |].
    split; [exact Hb |]. unfold MI; simpl. split; [| reflexivity]. split; [exact HI' | split; [exact HT' |]].
    unfold Qb; simpl. split; [| exact B6].
    intros _ t Ht; inversion Ht; subst. rewrite B3. auto.
Qed.

Theorem MI_step : forall m e, MI m -> MI (step20 cf fx g m e).
Proof.
  intros m e HM0. assert (HM := HM0). unfold MI in HM.
  destruct e.
  - (* EOp *)
    unfold step20.
    destruct (ph m) as [| i | k b |] eqn:Eph; try (unfold MI; rewrite Eph; exact HM).
    destruct (pend m) eqn:Ep; [| unfold MI; rewrite Eph, Ep; exact HM].
    destruct (op_enabled m o) eqn:Een; [| unfold MI; rewrite Eph, Ep; exact HM].
    destruct HM as [HQ Hm]. simpl in HQ. rewrite (Hm eq_refl) in HQ. simpl in HQ.
    assert (Hen : match o with SetK r true => In r (gk m) | SetB r true => In r (gb m) | _ => True end).
    { destruct o as [r [|] | r [|] |]; simpl in *; auto; apply mem_In; auto. }
    pose proof (op_all _ _ _ _ _ _ _ o HQ Hen) as L. simpl in L.
    unfold MI, start_op; simpl. rewrite Eph.
    destruct (writes20 cf fx o (st m)) as [| w ws] eqn:Ew.
    + simpl in *. split; [exact L | reflexivity].
    + split; [exact L | discriminate].
  - (* EWrite *)
    unfold step20.
    destruct (ph m) as [| i | k b |] eqn:Eph; try (unfold MI; rewrite Eph; exact HM).
    destruct (pend m) as [| w ws] eqn:Ep; [unfold MI; rewrite Eph, Ep; exact HM |].
    destruct HM as [[HP Hrest] _]. unfold MI; simpl. rewrite ?Eph.
    destruct ws as [| w2 ws2]; simpl in *.
    + split; [| reflexivity]. destruct (cur m); simpl in *; exact Hrest.
    + split; [| discriminate]. destruct (cur m); simpl in *; exact Hrest.
  - (* EReset *)
    unfold step20.
    destruct (g && in_window m) eqn:Ew; [destruct (ph m); exact HM0 |].
    assert (Hs : Ist (gk m) (gb m) (ak m) (ab m) (st m) /\ Trust (st m)).
    { destruct (ph m) as [| i | k b |] eqn:Eph; try tauto.
      destruct HM as [HQ Hm]. destruct (pend m) as [| w ws] eqn:Ep; simpl in HQ.
      - rewrite (Hm eq_refl) in HQ. destruct HQ as (? & ? & ?); auto.
      - destruct HQ as [[HI [[HT | (Hg & Hnt & ws' & Hh)] _]] _]; auto.
        exfalso. unfold is_nt in Hnt. destruct (cur m) as [[? [|] | |]|] eqn:Ec; try discriminate.
        unfold in_window in Ew. rewrite Ec, Ep, Hg in Ew.
        destruct Hh as [[r9 Hh] | (a1 & a2 & a3 & Hh)]; inversion Hh; subst; simpl in Ew; discriminate. }
    destruct (ph m); unfold MI; simpl; tauto.
  - (* ERestart *)
    unfold step20.
    destruct (ph m) as [| i | k b |] eqn:Eph; try (unfold MI; rewrite Eph; exact HM).
    destruct (pend m) as [| w ws] eqn:Ep; [exact HM0 |].
    destruct ((g && in_window m) || negb (restart_ok m)) eqn:Ew; [exact HM0 |].
    apply Bool.orb_false_iff in Ew. destruct Ew as [Ew Er]. apply Bool.negb_false_iff in Er.
    unfold restart_ok in Er. apply Bool.negb_true_iff in Er.
    destruct HM as [[(HI & HTw & HQb) _] _].
    unfold MI; simpl. rewrite ?Eph. simpl. split; [| reflexivity].
    split; [exact HI |]. split; [| exact (HQb Er)].
    destruct HTw as [HT | (Hg & Hnt & ws' & Hh)]; auto.
    exfalso. unfold is_nt in Hnt. destruct (cur m) as [[? [|] | |]|] eqn:Ec; try discriminate.
    unfold in_window in Ew. rewrite Ec, Ep, Hg in Ew.
    destruct Hh as [[r9 Hh] | (a1 & a2 & a3 & Hh)]; inversion Hh; subst; simpl in Ew; discriminate.
  - (* EFirmware *)
    unfold step20.
    destruct (ph m) as [| i | k b |] eqn:Eph; try (unfold MI; rewrite Eph; exact HM).
    destruct HM as (_ & HI & HT).
    destruct (firmware_c cf tb (st m)) as [s' r] eqn:Ef.
    destruct (firmware_ok _ _ _ _ Ef) as (E1 & E2 & E3 & Hns & E4 & Hfw).
    assert (Ist (gk m) (gb m) (ak m) (ab m) s' /\ Trust s').
    { unfold Ist, Trust in *. rewrite E1, E2, E3. intuition. }
    destruct r; unfold MI; simpl; try tauto; try congruence.
    pose proof (Hfw _ eq_refl). tauto.
  - (* EInitramfs *)
    destruct (ph m) as [| i | k b |] eqn:Eph; try (unfold step20; rewrite Eph; exact HM0).
    destruct (ph (step20 cf fx g m EInitramfs)) as [| i' | k b |] eqn:Er.
    + (* reboot requested *)
      revert Er. unfold step20. rewrite Eph. unfold initramfs20.
      destruct (initramfs_base (me (st m))) as [m' b'] eqn:Eb.
      destruct (initramfs_base_ok _ _ _ Eb) as (B1 & B2 & B3 & B4 & _).
      destruct HM as (_ & HI & HT & _).
      destruct (initramfs_kernel _); simpl; intros Er; try discriminate.
      unfold MI; simpl. unfold Ist, Trust in *; simpl. rewrite B1, B2, B3. intuition.
    + exfalso. revert Er. unfold step20. rewrite Eph. unfold initramfs20.
      destruct (initramfs_base (me (st m))) as [m' b']. destruct (initramfs_kernel _); simpl; discriminate.
    + destruct (mount_ok m i k b HM0 Eph Er) as (_ & _ & _ & H). exact H.
    + (* dead end: impossible *)
      exfalso. revert Er. unfold step20. rewrite Eph. unfold initramfs20.
      destruct (initramfs_base (me (st m))) as [m' b'] eqn:Eb.
      destruct (initramfs_base_ok _ _ _ Eb) as (_ & _ & B3 & _).
      destruct HM as (_ & HI & HT & (Hks & Hc1 & _)).
      unfold initramfs_kernel; simpl. rewrite B3.
      destruct Hks as [Eks | Eks]; rewrite Eks; simpl.
      * unfold Trust in HT. apply mem_In in HT. rewrite HT. simpl. discriminate.
      * rewrite (Hc1 Eks). destruct (mem i (m_ck (me (st m)))); simpl; discriminate.
Qed.

Lemma MI_init : forall k b, MI (init20 k b).
Proof.
  intros; unfold MI, init20, Ist, Trust; simpl. repeat split; auto; intros; discriminate.
Qed.

Theorem MI_run : forall evs m, MI m -> MI (run20 cf fx g m evs).
Proof.
  unfold run20; induction evs as [| e r IH]; simpl; intros m H; auto. apply IH, MI_step, H.
Qed.

End UC20.

(* ------------------------------------------------------------------------------------------------ UC20 consequences *)

Definition reach20 (cf : conf) (fx g : bool) (k0 b0 : rev) (m : mach) : Prop := exists evs, m = run20 cf fx g (init20 k0 b0) evs.

Lemma reach_MI : forall cf fx g k0 b0 m, fx || g = true -> reach20 cf fx g k0 b0 m -> MI g m.
Proof. intros * Hg [evs ->]. apply MI_run; auto. apply MI_init. Qed.

(* whatever the initramfs mounts, at the moment it mounts it, is the image grub chainloaded and is known-good or THE
   revision under trial *)
Lemma mounts_good_or_try : forall cf fx g k0 b0 m i k b, fx || g = true -> reach20 cf fx g k0 b0 m ->
  ph m = PhFw i -> ph (step20 cf fx g m EInitramfs) = PhRun k b ->
  k = i /\ (In k (gk m) \/ In k (ak m)) /\ (In b (gb m) \/ In b (ab m)).
Proof.
  intros * Hg Hr Hp Hs. pose proof (reach_MI _ _ _ _ _ _ Hg Hr) as HM.
  destruct (mount_ok _ _ _ _ _ _ _ HM Hp Hs) as (? & ? & ? & _). auto.
Qed.

Lemma fallback_known_good : forall cf fx g k0 b0 m, fx || g = true -> reach20 cf fx g k0 b0 m ->
  In (kl (st m)) (gk m) /\ In (m_base (me (st m))) (gb m).
Proof.
  intros * Hg Hr. pose proof (reach_MI _ _ _ _ _ _ Hg Hr) as HM. unfold MI in HM.
  destruct (ph m); try tauto.
  - destruct HM as (_ & (? & ? & _) & _); auto.
  - destruct HM as (_ & (? & ? & _) & _); auto.
  - destruct HM as [HQ Hm]. destruct (pend m); simpl in HQ.
    + destruct HQ as ((? & ? & _) & _); auto.
    + destruct HQ as (((? & ? & _) & _) & _); auto.
Qed.

(* the known-good sets grow only when snapd starts marking the boot successful, by what is running *)
Lemma known_good_only_by_mark : forall cf fx g m e,
  (gk (step20 cf fx g m e) = gk m /\ gb (step20 cf fx g m e) = gb m) \/
  (exists k b, ph m = PhRun k b /\ e = EOp Mark /\
               gk (step20 cf fx g m e) = k :: gk m /\ gb (step20 cf fx g m e) = b :: gb m).
Proof.
  intros cf fx g m e. destruct e; unfold step20; simpl.
  - destruct (ph m) as [| i | k b |] eqn:Ep; auto. destruct (pend m); auto. destruct (op_enabled m o); auto.
    destruct o as [? ? | ? ? |]; simpl; auto. right; exists k, b; auto.
  - destruct (ph m); auto. destruct (pend m); auto.
  - destruct (g && in_window m); destruct (ph m); auto.
  - destruct (ph m); auto. destruct (pend m); auto. destruct ((g && in_window m) || negb (restart_ok m)); auto.
  - destruct (ph m); auto. destruct (firmware_c cf tb (st m)); auto.
  - destruct (ph m); auto. destruct (initramfs20 (st m)) as [[? ?] ?]; auto.
Qed.

Lemma never_dead : forall cf fx g k0 b0 m, fx || g = true -> reach20 cf fx g k0 b0 m -> ph m <> PhDead.
Proof.
  intros * Hg Hr Hp. pose proof (reach_MI _ _ _ _ _ _ Hg Hr) as HM. unfold MI in HM. rewrite Hp in HM. exact HM.
Qed.

Lemma reach_Trust : forall cf fx g k0 b0 m, fx || g = true -> reach20 cf fx g k0 b0 m -> g && in_window m = false ->
  In (kl (st m)) (m_ck (me (st m))).
Proof.
  intros * Hg Hr Hw. pose proof (reach_MI _ _ _ _ _ _ Hg Hr) as HM.
  pose proof (MI_step cf fx g Hg m EReset HM) as H2. unfold step20 in H2. rewrite Hw in H2.
  destruct (ph m) eqn:Ep; unfold MI in H2; simpl in H2; tauto.
Qed.

(* a trial boot that fails or is interrupted (kernel_status still trying at the reset) is followed by a boot of the
   kernel kernel.efi points to, which is known-good *)
Lemma failed_kernel_trial_returns : forall cf fx g k0 b0 m, fx || g = true -> reach20 cf fx g k0 b0 m ->
  g && in_window m = false -> ks (st m) = STrying ->
  forall tb, exists b, ph (run20 cf fx g m [EReset; EFirmware tb; EInitramfs]) = PhRun (kl (st m)) b /\ In (kl (st m)) (gk m).
Proof.
  intros * Hg Hr Hw Hk tb.
  pose proof (reach_Trust _ _ _ _ _ _ Hg Hr Hw) as HT. apply mem_In in HT.
  destruct (fallback_known_good _ _ _ _ _ _ Hg Hr) as [Hgk _].
  assert (E1 : step20 cf fx g m EReset = with_st m (st m) PhOff).
  { unfold step20. rewrite Hw. destruct (ph m); reflexivity. }
  unfold run20. cbn [fold_left]. rewrite E1.
  unfold step20; simpl. unfold firmware_c, firmware20, firmware_ns, ns_status.
  rewrite grub_table, Hk; simpl. rewrite Bool.andb_false_r.
  destruct cf; simpl; unfold initramfs20; simpl.
  all: destruct (initramfs_base (me (st m))) as [m' b] eqn:Eb;
    destruct (initramfs_base_ok _ _ _ Eb) as (_ & _ & B3 & _);
    unfold initramfs_kernel; simpl; rewrite B3, HT; simpl; eauto.
Qed.

(* bounded fallback: from every reachable state a reset is followed by a mount within TWO firmware rounds (a try
   kernel that is missing or not trusted costs one extra round; there is no try loop) *)
Lemma boot_terminates : forall cf fx g k0 b0 m, fx || g = true -> reach20 cf fx g k0 b0 m -> g && in_window m = false ->
  forall tb, exists k b,
    ph (run20 cf fx g m [EReset; EFirmware tb; EInitramfs; EFirmware false; EInitramfs]) = PhRun k b.
Proof.
  intros * Hg Hr Hw tb0.
  pose proof (reach_Trust _ _ _ _ _ _ Hg Hr Hw) as HT. apply mem_In in HT.
  assert (E1 : step20 cf fx g m EReset = with_st m (st m) PhOff).
  { unfold step20. rewrite Hw. destruct (ph m); reflexivity. }
  unfold run20. cbn [fold_left]. rewrite E1. unfold with_st.
  destruct (st m) as [ks0 kl0 tkl0 [mb mt mbs mck]]. simpl in HT.
  destruct cf, tb0, ks0, tkl0 as [t|]; destruct mbs, mt as [tb|]; simpl; unfold initramfs_kernel; simpl; rewrite ?HT; simpl;
    try (destruct (mem t mck) eqn:Et; simpl); unfold initramfs_kernel; simpl; rewrite ?HT; simpl; eauto.
Qed.

(* same for the base: base_status still trying when the initramfs runs means the trial failed; the base is mounted *)
Lemma failed_base_trial_returns : forall cf fx g k0 b0 m, fx || g = true -> reach20 cf fx g k0 b0 m ->
  m_bst (me (st m)) = STrying ->
  snd (initramfs_base (me (st m))) = m_base (me (st m)) /\ m_bst (fst (initramfs_base (me (st m)))) = SDef /\
  In (m_base (me (st m))) (gb m).
Proof.
  intros * Hg Hr Hb. destruct (fallback_known_good _ _ _ _ _ _ Hg Hr) as [_ H].
  unfold initramfs_base; rewrite Hb; simpl; auto.
Qed.

(* the full statement is false of the code as it is: a power loss right after the modeenv write of a kernel-switching
   undo leaves kernel.efi on a kernel that current_kernels no longer lists; the initramfs stops *)
Definition dead_end_witness : list ev20 :=
  [EFirmware false; EInitramfs;
   EOp (SetK 2 false); EWrite; EWrite; EWrite; EReset; EFirmware true; EInitramfs;       (* try kernel 2, reboot into it *)
   EOp Mark; EWrite; EWrite; EWrite; EWrite;                                        (* kernel 2 is now known-good *)
   EOp (SetK 1 true); EWrite; EReset;                                               (* undo to 1, power loss after the modeenv *)
   EFirmware false; EInitramfs].

Lemma dead_end_reached : ph (run20 Grub false false (init20 1 1) dead_end_witness) = PhDead.
Proof. vm_compute. reflexivity. Qed.

(* ------------------------------------------------------------------------------------------------ UC16/18 *)

Definition I16 (m : mach16) : Prop :=
  let s := s16 m in
  In (sk s) (gk16 m) /\ In (sc s) (gc16 m) /\
  (forall t, stk s = Some t -> In t (gk16 m) \/ In t (ak16 m)) /\
  (forall t, stc s = Some t -> In t (gc16 m) \/ In t (ac16 m)) /\
  match ph16 m with
  | P16Off => True
  | P16Run k c =>
      (mode s = STrying -> (forall t, stk s = Some t -> t = k) /\ (forall t, stc s = Some t -> t = c))
  end.

Ltac sat16 :=
  repeat match goal with
  | H : Some _ = Some _ |- _ => inversion H; clear H; subst
  | H : None = Some _ |- _ => discriminate H
  | H : ?a = ?a -> _ |- _ => specialize (H eq_refl)
  | H : forall t, Some ?x = Some t -> _ |- _ => specialize (H x eq_refl)
  | H : forall t, None = Some t -> _ |- _ => clear H
  | H : _ /\ _ |- _ => destruct H
  | H : mem _ _ = true |- _ => apply mem_In in H
  | H : N.eqb _ _ = true |- _ => apply N.eqb_eq in H; subst
  | H : forall t, ?x = Some t -> _, H' : ?x = Some ?u |- _ => pose proof (H u H'); clear H
  end.

Ltac fin16 :=
  sat16; repeat split; auto using in_eq, in_cons; intros; try discriminate; sat16;
  try solve [intuition (subst; auto using in_eq, in_cons; congruence)].

(* The contract of the gadget's boot script (not in this repository), as the comment above boot.MarkBootSuccessful
   describes it: it only ever rewrites snap_mode; try -> trying and boots snap_try_* where set; trying -> "" and boots
   snap_*; otherwise boots snap_* (an invalid snap_mode may be left alone or cleared). *)
Definition fw16_ok (fw : st16 -> st16 * rev * rev) : Prop := forall s,
  sk (fst (fst (fw s))) = sk s /\ stk (fst (fst (fw s))) = stk s /\
  sc (fst (fst (fw s))) = sc s /\ stc (fst (fst (fw s))) = stc s /\
  match mode s with
  | STry => mode (fst (fst (fw s))) = STrying /\
            snd (fst (fw s)) = match stk s with Some t => t | None => sk s end /\
            snd (fw s) = match stc s with Some t => t | None => sc s end
  | STrying | SDef => mode (fst (fst (fw s))) = SDef /\ snd (fst (fw s)) = sk s /\ snd (fw s) = sc s
  | SBad => (mode (fst (fst (fw s))) = SBad \/ mode (fst (fst (fw s))) = SDef) /\
            snd (fst (fw s)) = sk s /\ snd (fw s) = sc s
  end.

Lemma firmware16_ok : fw16_ok firmware16.
Proof. intros s; unfold firmware16; destruct (mode s) eqn:E; simpl; rewrite ?E; auto 10. Qed.

Section UC16.
Variable fw : st16 -> st16 * rev * rev.
Hypothesis Hfw : fw16_ok fw.

Theorem I16_step : forall m e, I16 m -> I16 (step16 fw m e).
Proof.
  intros [[md k0 tk0 c0 tc0] p gk0 gc0 ak0 ac0] e (H1 & H2 & H3 & H4 & H5); simpl in *.
  destruct e as [o | |]; unfold step16; simpl.
  - destruct p as [| k c]; [unfold I16; simpl; auto |].
    destruct o as [[|] r [|] |]; simpl.
    + destruct (mem r gk0) eqn:Em; [| unfold I16; simpl; auto].
      unfold I16, set_next16, trial16; simpl. destruct (N.eqb k0 r) eqn:E; simpl; [destruct md; simpl |]; fin16.
    + unfold I16, set_next16, trial16; simpl. destruct (N.eqb k0 r) eqn:E; simpl; [destruct md; simpl |]; fin16.
    + destruct (mem r gc0) eqn:Em; [| unfold I16; simpl; auto].
      unfold I16, set_next16, trial16; simpl. destruct (N.eqb c0 r) eqn:E; simpl; [destruct md; simpl |]; fin16.
    + unfold I16, set_next16, trial16; simpl. destruct (N.eqb c0 r) eqn:E; simpl; [destruct md; simpl |]; fin16.
    + unfold I16, mark16; simpl. destruct md; simpl; destruct tk0, tc0; simpl; fin16.
  - unfold I16; simpl; auto.
  - destruct p as [| k c]; [| unfold I16; simpl; auto].
    pose proof (Hfw {| mode := md; sk := k0; stk := tk0; sc := c0; stc := tc0 |}) as F.
    destruct (fw {| mode := md; sk := k0; stk := tk0; sc := c0; stc := tc0 |}) as [[[md' k1 tk1 c1 tc1] kk] cc].
    simpl in F. destruct F as (F1 & F2 & F3 & F4 & F5). subst k1 tk1 c1 tc1.
    unfold I16; simpl. destruct md; simpl in F5; destruct tk0, tc0; fin16;
      try (destruct F5 as [F5 | F5]; rewrite F5 in *; discriminate).
Qed.

Theorem I16_run : forall evs m, I16 m -> I16 (run16 fw m evs).
Proof. unfold run16; induction evs as [| e r IH]; simpl; intros; auto. apply IH, I16_step; auto. Qed.

End UC16.

Lemma I16_init : forall k c, I16 (init16 k c).
Proof. intros; unfold I16, init16; simpl; repeat split; auto; intros; discriminate. Qed.

(* what the boot script boots, at the moment it boots it, is known-good or THE revision under trial *)
Lemma boots16_good_or_try : forall fw k0 c0 evs k c, fw16_ok fw ->
  let m := run16 fw (init16 k0 c0) evs in
  ph16 m = P16Off -> ph16 (step16 fw m E16Firmware) = P16Run k c ->
  (In k (gk16 m) \/ In k (ak16 m)) /\ (In c (gc16 m) \/ In c (ac16 m)).
Proof.
  intros * Hfw m Hp. pose proof (I16_run fw Hfw evs _ (I16_init k0 c0)) as H. fold m in H. unfold I16 in H.
  destruct H as (H1 & H2 & H3 & H4 & _).
  unfold step16. rewrite Hp. pose proof (Hfw (s16 m)) as F.
  destruct (fw (s16 m)) as [[s' kk] cc]. simpl in F. destruct F as (_ & _ & _ & _ & F5).
  simpl. intros E; inversion E; subst kk cc.
  destruct (mode (s16 m)); destruct F5 as (_ & -> & ->); split; auto;
    try (destruct (stk (s16 m)) eqn:Ek; auto); try (destruct (stc (s16 m)) eqn:Ec; auto).
Qed.

(* snap_kernel / snap_core (the fall-back, never empty) always name known-good revisions: the good one is never
   removed from the boot environment while it is the fallback *)
Lemma fallback16_known_good : forall fw k0 c0 evs, fw16_ok fw ->
  let m := run16 fw (init16 k0 c0) evs in In (sk (s16 m)) (gk16 m) /\ In (sc (s16 m)) (gc16 m).
Proof. intros * Hfw m. pose proof (I16_run fw Hfw evs _ (I16_init k0 c0)) as H. fold m in H. unfold I16 in H. tauto. Qed.

(* a failed trial (snap_mode still trying at the next boot) boots snap_kernel / snap_core, which are known-good *)
Lemma failed_trial16_returns : forall fw k0 c0 evs, fw16_ok fw ->
  let m := run16 fw (init16 k0 c0) evs in mode (s16 m) = STrying ->
  ph16 (run16 fw m [E16Reset; E16Firmware]) = P16Run (sk (s16 m)) (sc (s16 m)) /\
  In (sk (s16 m)) (gk16 m) /\ In (sc (s16 m)) (gc16 m).
Proof.
  intros * Hfw m Hm. split; [| apply fallback16_known_good; auto].
  unfold run16, step16; simpl.
  pose proof (Hfw (s16 m)) as F. destruct (fw (s16 m)) as [[s' kk] cc]. simpl in F.
  rewrite Hm in F. destruct F as (_ & _ & _ & _ & _ & -> & ->). reflexivity.
Qed.

(* known-good only by mark, UC16 *)
Lemma known_good16_only_by_mark : forall fw m e,
  (gk16 (step16 fw m e) = gk16 m /\ gc16 (step16 fw m e) = gc16 m) \/
  (exists k c, ph16 m = P16Run k c /\ e = E16Op Mark16 /\
               gk16 (step16 fw m e) = k :: gk16 m /\ gc16 (step16 fw m e) = c :: gc16 m).
Proof.
  intros fw m e. destruct e as [o | |]; unfold step16; simpl; auto.
  - destruct (ph16 m) as [| k c] eqn:Ep; auto. destruct (op16_enabled m o); auto.
    destruct o as [? ? ? |]; simpl; auto. right; exists k, c; auto.
  - destruct (ph16 m); auto. destruct (fw (s16 m)) as [[? ?] ?]; auto.
Qed.

(* not scriptable: the status only advances try -> trying, and only when the firmware used the try configuration *)
Lemma not_scriptable_spec : forall conf cl,
  not_scriptable_update conf cl =
    match conf with
    | SDef => None
    | STry => Some (match cl with STrying => STrying | _ => SDef end)
    | _ => Some SDef
    end.
Proof. destruct conf, cl; reflexivity. Qed.

(* the known-good revision is never removed from the boot environment while it is the fall-back: kernel.efi /
   snap_kernel names a known-good kernel that current_kernels still lists, and the modeenv base is known-good *)
Lemma fallback_never_removed : forall cf fx g k0 b0 m, fx || g = true -> reach20 cf fx g k0 b0 m ->
  g && in_window m = false ->
  In (kl (st m)) (gk m) /\ In (kl (st m)) (m_ck (me (st m))) /\ In (m_base (me (st m))) (gb m).
Proof.
  intros * Hg Hr Hw. destruct (fallback_known_good _ _ _ _ _ _ Hg Hr). split; auto. split; auto.
  eapply reach_Trust; eauto.
Qed.
