(* C28 (codec part): proofs about models/MountEntry.v. *)
From Coq Require Import List NArith ZArith Bool Lia ZifyBool ZifyN.
Import ListNotations.
Require Import V.lib.Bytes V.lib.Dec V.proofs.DecProofs V.models.MountEntry.
Open Scope N_scope.

(* ------------------------------------------------------------------ escape / unescape *)

Lemma escape_byte_cases : forall c,
  (c = 32 /\ escape_byte c = [92; 48; 52; 48]) \/ (c = 9 /\ escape_byte c = [92; 48; 49; 49]) \/
  (c = 10 /\ escape_byte c = [92; 48; 49; 50]) \/ (c = 92 /\ escape_byte c = [92; 49; 51; 52]) \/
  (c <> 32 /\ c <> 9 /\ c <> 10 /\ c <> 92 /\ escape_byte c = [c]).
Proof.
  intro c. unfold escape_byte.
  destruct (c =? 32) eqn:E1; [left; split; [lia | reflexivity]|].
  destruct (c =? 9) eqn:E2; [right; left; split; [lia | reflexivity]|].
  destruct (c =? 10) eqn:E3; [right; right; left; split; [lia | reflexivity]|].
  destruct (c =? 92) eqn:E4; [right; right; right; left; split; [lia | reflexivity]|].
  right; right; right; right. repeat split; lia.
Qed.

(* unescaping undoes escaping, for every byte string *)
Theorem unescape_escape : forall s, unescape (escape s) = s.
Proof.
  induction s as [|c s IH]; [reflexivity|].
  cbn [escape].
  destruct (escape_byte_cases c) as [[-> ->]|[[-> ->]|[[-> ->]|[[-> ->]|(H1 & H2 & H3 & H4 & ->)]]]];
    try (cbn; rewrite IH; reflexivity).
  cbn [app unescape]. replace (c =? 92) with false by lia. rewrite IH. reflexivity.
Qed.

Definition clean_byte (c : N) : bool := negb (c =? 32) && negb (c =? 9) && negb (c =? 10).

Lemma escape_clean : forall s, forallb clean_byte (escape s) = true.
Proof.
  induction s as [|c s IH]; [reflexivity|].
  cbn [escape]. rewrite forallb_app, IH, andb_true_r.
  destruct (escape_byte_cases c) as [[-> ->]|[[-> ->]|[[-> ->]|[[-> ->]|(H1 & H2 & H3 & H4 & ->)]]]]; try reflexivity.
  cbn. unfold clean_byte. lia.
Qed.

Lemma escape_nonempty : forall s, s <> [] -> escape s <> [].
Proof.
  intros [|c s] H; [congruence|]. cbn [escape].
  destruct (escape_byte_cases c) as [[-> ->]|[[-> ->]|[[-> ->]|[[-> ->]|(H1 & H2 & H3 & H4 & ->)]]]]; discriminate.
Qed.

Lemma escape_starts_hash : forall s, starts_hash (escape s) = starts_hash s.
Proof.
  intros [|c s]; [reflexivity|]. cbn [escape].
  destruct (escape_byte_cases c) as [[-> ->]|[[-> ->]|[[-> ->]|[[-> ->]|(H1 & H2 & H3 & H4 & ->)]]]]; reflexivity.
Qed.

(* ------------------------------------------------------------------ fields *)

Definition nonblank (w : bytes) : bool := forallb (fun c => negb (is_blank c)) w.

Lemma clean_nonblank : forall w, forallb clean_byte w = true -> nonblank w = true.
Proof.
  unfold nonblank. induction w as [|c w IH]; [reflexivity|]. cbn [forallb]. intros H.
  apply andb_true_iff in H as [H1 H2]. rewrite (IH H2), andb_true_r. unfold clean_byte, is_blank in *. lia.
Qed.

Lemma fields_aux_word : forall w cur rest, nonblank w = true ->
  fields_aux cur (w ++ rest) = fields_aux (rev w ++ cur) rest.
Proof.
  induction w as [|c w IH]; intros cur rest H; [reflexivity|].
  cbn [nonblank forallb] in H. apply andb_true_iff in H as [H1 H2].
  cbn [app fields_aux]. destruct (is_blank c); [discriminate|].
  rewrite IH by exact H2. cbn [rev]. rewrite <- app_assoc. reflexivity.
Qed.

Lemma fields_word_sep : forall w rest, w <> [] -> nonblank w = true ->
  fields_aux [] (w ++ 32 :: rest) = w :: fields_aux [] rest.
Proof.
  intros w rest Hne H. rewrite fields_aux_word by exact H. rewrite app_nil_r. cbn [fields_aux].
  replace (is_blank 32) with true by reflexivity.
  destruct (rev w) eqn:E.
  - exfalso. apply Hne. rewrite <- (rev_involutive w), E. reflexivity.
  - rewrite <- E, rev_involutive. reflexivity.
Qed.

Lemma fields_word_end : forall w, w <> [] -> nonblank w = true -> fields_aux [] w = [w].
Proof.
  intros w Hne H. rewrite <- (app_nil_r w) at 1. rewrite fields_aux_word by exact H. rewrite app_nil_r. cbn [fields_aux].
  destruct (rev w) eqn:E.
  - exfalso. apply Hne. rewrite <- (rev_involutive w), E. reflexivity.
  - rewrite <- E, rev_involutive. reflexivity.
Qed.

(* ------------------------------------------------------------------ numbers *)

Lemma digit_props : forall c, is_digit c = true ->
  is_blank c = false /\ (c =? 45) = false /\ (c =? 43) = false /\ (c =? 35) = false /\ (c =? 10) = false /\ (c =? 13) = false.
Proof. unfold is_digit, is_blank. intros. lia. Qed.

Lemma digits_nonblank : forall w, forallb is_digit w = true -> nonblank w = true.
Proof.
  unfold nonblank. induction w as [|c w IH]; [reflexivity|]. cbn [forallb]. intros H.
  apply andb_true_iff in H as [H1 H2]. rewrite (IH H2), andb_true_r.
  destruct (digit_props c H1) as (-> & _). reflexivity.
Qed.

Lemma zdec_shape : forall z, exists c r, zdec z = c :: r /\ forallb is_digit r = true /\ (is_digit c = true \/ c = 45 /\ r <> []).
Proof.
  intros [|p|p]; cbn [zdec].
  - pose proof (dec_digits (Z.to_N 0)) as D. destruct (dec_hd_digit (Z.to_N 0)) as (c & r & E & Hc).
    exists c, r. rewrite E in *. cbn [forallb] in D. apply andb_true_iff in D as [_ D]. auto.
  - pose proof (dec_digits (Z.to_N (Z.pos p))) as D. destruct (dec_hd_digit (Z.to_N (Z.pos p))) as (c & r & E & Hc).
    exists c, r. rewrite E in *. cbn [forallb] in D. apply andb_true_iff in D as [_ D]. auto.
  - exists 45, (dec (N.pos p)). repeat split; [apply dec_digits|]. right. split; [reflexivity | apply dec_nonempty].
Qed.

Lemma zdec_nonblank : forall z, nonblank (zdec z) = true.
Proof.
  intro z. destruct (zdec_shape z) as (c & r & -> & Hr & Hc).
  unfold nonblank. cbn [forallb]. fold (nonblank r). rewrite (digits_nonblank r Hr), andb_true_r.
  destruct Hc as [Hc|[-> _]]; [|reflexivity]. destruct (digit_props c Hc) as (-> & _). reflexivity.
Qed.

Lemma zdec_nonempty : forall z, zdec z <> [].
Proof. intro z. destruct (zdec_shape z) as (c & r & -> & _). discriminate. Qed.

Lemma zdec_no_hash : forall z, starts_hash (zdec z) = false.
Proof.
  intro z. destruct (zdec_shape z) as (c & r & -> & _ & Hc). cbn [starts_hash].
  destruct Hc as [Hc|[-> _]]; [|reflexivity]. destruct (digit_props c Hc) as (_ & _ & _ & -> & _). reflexivity.
Qed.

Lemma atoi_zdec : forall z, in_int z = true -> atoi (zdec z) = Some z.
Proof.
  intros [|p|p] Hz; cbn [zdec].
  - reflexivity.
  - destruct (dec_hd_digit (Z.to_N (Z.pos p))) as (c & r & E & Hc). rewrite E. cbn [atoi].
    destruct (digit_props c Hc) as (_ & -> & -> & _). rewrite <- E. unfold atoi_digits. rewrite undec_dec.
    replace (Z.of_N (Z.to_N (Z.pos p))) with (Z.pos p) by (cbn; reflexivity). rewrite Hz. reflexivity.
  - cbn [atoi]. replace (45 =? 45) with true by reflexivity. unfold atoi_digits. rewrite undec_dec.
    replace (- Z.of_N (N.pos p))%Z with (Z.neg p) by reflexivity. rewrite Hz. reflexivity.
Qed.

(* ------------------------------------------------------------------ join / split *)

Lemma split_on_nonempty : forall sep s, split_on sep s <> [].
Proof.
  induction s as [|c s IH]; cbn [split_on]; [discriminate|].
  destruct (c =? sep); [discriminate|]. destruct (split_on sep s); discriminate.
Qed.

Lemma split_on_piece : forall a, no_comma a = true -> split_on 44 a = [a].
Proof.
  induction a as [|c a IH]; [reflexivity|]. cbn [no_comma forallb]. intros H.
  apply andb_true_iff in H as [H1 H2]. cbn [split_on]. destruct (c =? 44); [discriminate|].
  rewrite (IH H2). reflexivity.
Qed.

Lemma split_on_piece_sep : forall a r, no_comma a = true -> split_on 44 (a ++ 44 :: r) = a :: split_on 44 r.
Proof.
  induction a as [|c a IH]; intros r H.
  - reflexivity.
  - cbn [no_comma forallb] in H. apply andb_true_iff in H as [H1 H2].
    cbn [app split_on]. destruct (c =? 44); [discriminate|]. rewrite (IH r H2). reflexivity.
Qed.

Lemma split_join : forall opts, opts <> [] -> forallb no_comma opts = true -> split_on 44 (join 44 opts) = opts.
Proof.
  induction opts as [|a opts IH]; intros Hne H; [congruence|].
  cbn [forallb] in H. apply andb_true_iff in H as [H1 H2].
  destruct opts as [|b opts].
  - cbn [join]. apply split_on_piece. exact H1.
  - change (join 44 (a :: b :: opts)) with (a ++ 44 :: join 44 (b :: opts)).
    rewrite split_on_piece_sep by exact H1. rewrite IH; [reflexivity | discriminate | exact H2].
Qed.

(* ------------------------------------------------------------------ entry round trip *)

Lemma field_ok_escape : forall f, field_ok f = true ->
  or_none f = escape f /\ escape f <> [] /\ nonblank (escape f) = true /\ starts_hash (escape f) = false.
Proof.
  intros f H. unfold field_ok in H. apply andb_true_iff in H as [H1 H2].
  assert (f <> []) by (destruct f; [discriminate | discriminate]).
  repeat split.
  - destruct f; [congruence | reflexivity].
  - apply escape_nonempty. assumption.
  - apply clean_nonblank, escape_clean.
  - rewrite escape_starts_hash. destruct (starts_hash f); [discriminate | reflexivity].
Qed.

Lemma guard_parts : forall e, guard e = true ->
  field_ok (e_name e) = true /\ field_ok (e_dir e) = true /\ field_ok (e_type e) = true /\
  e_opts e <> [] /\ field_ok (join 44 (e_opts e)) = true /\ forallb no_comma (e_opts e) = true /\
  in_int (e_freq e) = true /\ in_int (e_pass e) = true.
Proof.
  intros e G. unfold guard in G.
  apply andb_true_iff in G as [G H8]. apply andb_true_iff in G as [G H7]. apply andb_true_iff in G as [G H6].
  apply andb_true_iff in G as [G H5]. apply andb_true_iff in G as [G H4]. apply andb_true_iff in G as [G H3].
  apply andb_true_iff in G as [H1 H2].
  repeat split; try assumption. destruct (e_opts e); [discriminate | discriminate].
Qed.

Lemma guard_fields : forall e, guard e = true ->
  fields (entry_string e) =
    [escape (e_name e); escape (e_dir e); escape (e_type e); escape (join 44 (e_opts e)); zdec (e_freq e); zdec (e_pass e)].
Proof.
  intros e G. destruct (guard_parts e G) as (G1 & G2 & G3 & G4 & G5 & G6 & G7 & G8).
  destruct (field_ok_escape _ G1) as (En & Nn & Bn & _).
  destruct (field_ok_escape _ G2) as (Ed & Nd & Bd & _).
  destruct (field_ok_escape _ G3) as (Et & Nt & Bt & _).
  destruct (field_ok_escape _ G5) as (_ & No & Bo & _).
  unfold entry_string, fields. rewrite En, Ed, Et.
  destruct (e_opts e) as [|o os] eqn:EO; [congruence|].
  rewrite fields_word_sep by assumption. rewrite fields_word_sep by assumption.
  rewrite fields_word_sep by assumption. rewrite fields_word_sep by assumption.
  rewrite fields_word_sep by (apply zdec_nonempty || apply zdec_nonblank).
  rewrite fields_word_end by (apply zdec_nonempty || apply zdec_nonblank).
  reflexivity.
Qed.

(* a guarded entry, printed with MountEntry.String and parsed with ParseMountEntry, comes back unchanged *)
Theorem codec_roundtrip : forall e, guard e = true -> parse_entry (entry_string e) = Some e.
Proof.
  intros e G. unfold parse_entry. rewrite (guard_fields e G).
  destruct (guard_parts e G) as (G1 & G2 & G3 & G4 & G5 & G6 & G7 & G8).
  destruct (field_ok_escape _ G1) as (_ & _ & _ & Hn).
  destruct (field_ok_escape _ G2) as (_ & _ & _ & Hd).
  destruct (field_ok_escape _ G3) as (_ & _ & _ & Ht).
  destruct (field_ok_escape _ G5) as (_ & _ & _ & Ho).
  cbn [drop_comment]. rewrite Hn, Hd, Ht, Ho, !zdec_no_hash.
  rewrite !atoi_zdec by assumption. rewrite !unescape_escape.
  rewrite split_join; [destruct e; reflexivity | assumption | assumption].
Qed.

(* ------------------------------------------------------------------ why each guard is there *)

Definition bsl := bs.

Lemma refuted_empty_name : exists e, field_ok (e_name e) = false /\ parse_entry (entry_string e) <> Some e.
Proof. exists (mkEntry [] [98] [99] [[100]] 0 0). split; [reflexivity | vm_compute; discriminate]. Qed.

Lemma refuted_hash_name : exists e, field_ok (e_name e) = false /\ parse_entry (entry_string e) <> Some e.
Proof. exists (mkEntry [35; 97] [98] [99] [[100]] 0 0). split; [reflexivity | vm_compute; discriminate]. Qed.

Lemma refuted_no_options : exists e, e_opts e = [] /\ parse_entry (entry_string e) <> Some e.
Proof. exists (mkEntry [97] [98] [99] [] 0 0). split; [reflexivity | vm_compute; discriminate]. Qed.

Lemma refuted_empty_option : exists e, join 44 (e_opts e) = [] /\ parse_entry (entry_string e) <> Some e.
Proof. exists (mkEntry [97] [98] [99] [[]] 0 0). split; [reflexivity | vm_compute; discriminate]. Qed.

Lemma refuted_comma_option : exists e, forallb no_comma (e_opts e) = false /\ parse_entry (entry_string e) <> Some e.
Proof. exists (mkEntry [97] [98] [99] [[120; 44; 121]] 0 0). split; [reflexivity | vm_compute; discriminate]. Qed.

Lemma refuted_hash_option : exists e, starts_hash (join 44 (e_opts e)) = true /\ parse_entry (entry_string e) <> Some e.
Proof. exists (mkEntry [97] [98] [99] [[35; 100]] 0 0). split; [reflexivity | vm_compute; discriminate]. Qed.

(* ------------------------------------------------------------------ profile round trip *)

Definition no_nl (w : bytes) : bool := forallb (fun c => negb (c =? 10)) w.

Lemma lines_aux_word : forall w cur rest, no_nl w = true -> lines_aux cur (w ++ rest) = lines_aux (rev w ++ cur) rest.
Proof.
  induction w as [|c w IH]; intros cur rest H; [reflexivity|].
  cbn [no_nl forallb] in H. apply andb_true_iff in H as [H1 H2].
  cbn [app lines_aux]. destruct (c =? 10); [discriminate|].
  rewrite IH by exact H2. cbn [rev]. rewrite <- app_assoc. reflexivity.
Qed.

Lemma clean_no_nl : forall w, forallb clean_byte w = true -> no_nl w = true.
Proof.
  unfold no_nl. induction w as [|c w IH]; [reflexivity|]. cbn [forallb]. intros H.
  apply andb_true_iff in H as [H1 H2]. rewrite (IH H2), andb_true_r. unfold clean_byte in *. lia.
Qed.

Lemma digits_no_nl : forall w, forallb is_digit w = true -> no_nl w = true.
Proof.
  unfold no_nl. induction w as [|c w IH]; [reflexivity|]. cbn [forallb]. intros H.
  apply andb_true_iff in H as [H1 H2]. rewrite (IH H2), andb_true_r.
  destruct (digit_props c H1) as (_ & _ & _ & _ & -> & _). reflexivity.
Qed.

Lemma zdec_no_nl : forall z, no_nl (zdec z) = true.
Proof.
  intro z. destruct (zdec_shape z) as (c & r & -> & Hr & Hc).
  unfold no_nl. cbn [forallb]. fold (no_nl r). rewrite (digits_no_nl r Hr), andb_true_r.
  destruct Hc as [Hc|[-> _]]; [|reflexivity]. destruct (digit_props c Hc) as (_ & _ & _ & _ & -> & _). reflexivity.
Qed.

Lemma no_nl_app : forall a b, no_nl (a ++ b) = no_nl a && no_nl b.
Proof. intros. unfold no_nl. apply forallb_app. Qed.

Lemma entry_string_no_nl : forall e, guard e = true -> no_nl (entry_string e) = true.
Proof.
  intros e G. destruct (guard_parts e G) as (G1 & G2 & G3 & G4 & G5 & G6 & G7 & G8).
  destruct (field_ok_escape _ G1) as (En & _). destruct (field_ok_escape _ G2) as (Ed & _).
  destruct (field_ok_escape _ G3) as (Et & _).
  unfold entry_string. rewrite En, Ed, Et. destruct (e_opts e) as [|o os] eqn:EO; [congruence|]. rewrite <- EO.
  repeat (rewrite no_nl_app; cbn [no_nl forallb]; fold (no_nl)).
  change (forallb (fun c : N => negb (c =? 10))) with no_nl.
  rewrite !(clean_no_nl _ (escape_clean _)), !zdec_no_nl. reflexivity.
Qed.

(* the last byte of a printed entry is a decimal digit *)
Lemma zdec_last_digit : forall z, exists c r, rev (zdec z) = c :: r /\ is_digit c = true.
Proof.
  intro z. destruct (zdec_shape z) as (c & r & E & Hr & Hc). rewrite E.
  destruct (rev r) as [|d r'] eqn:ER.
  - assert (r = []) by (rewrite <- (rev_involutive r), ER; reflexivity). subst r. cbn.
    destruct Hc as [Hc|[_ Hc]]; [eauto | congruence].
  - exists d, (r' ++ [c]). cbn [rev]. rewrite ER. split; [reflexivity|].
    assert (In d r) by (apply in_rev; rewrite ER; left; reflexivity).
    rewrite forallb_forall in Hr. auto.
Qed.

Lemma entry_string_rev : forall e, exists c r, rev (entry_string e) = c :: r /\ is_digit c = true.
Proof.
  intro e. unfold entry_string. destruct (zdec_last_digit (e_pass e)) as (c & r & E & Hc).
  repeat (rewrite rev_app_distr; cbn [rev]). rewrite E. cbn [app]. eauto.
Qed.

Lemma digit_suffix_len : forall c r, is_digit c = true -> space_suffix_len (c :: r) = 0%nat.
Proof.
  intros c r H. unfold space_suffix_len, ascii_space, in_2000_block.
  assert ((9 <=? c) && (c <=? 13) || (c =? 32) = false) as -> by (unfold is_digit in H; lia).
  destruct r as [|d r2]; [reflexivity|].
  assert ((d =? 194) && ((c =? 133) || (c =? 160)) = false) as -> by (unfold is_digit in H; lia).
  destruct r2 as [|e r3]; [reflexivity|].
  assert ((e =? 225) && (d =? 154) && (c =? 128) = false) as -> by (unfold is_digit in H; lia).
  assert ((e =? 226) && (d =? 128) && ((128 <=? c) && (c <=? 138) || (c =? 168) || (c =? 169) || (c =? 175)) = false) as ->
    by (unfold is_digit in H; lia).
  assert ((e =? 226) && (d =? 129) && (c =? 159) = false) as -> by (unfold is_digit in H; lia).
  assert ((e =? 227) && (d =? 128) && (c =? 128) = false) as -> by (unfold is_digit in H; lia).
  reflexivity.
Qed.

Lemma trim_left_id : forall n s, space_prefix_len s = 0%nat -> trim_left n s = s.
Proof. intros [|n] s H; [reflexivity|]. cbn [trim_left]. rewrite H. reflexivity. Qed.

Lemma trim_right_id : forall n s, space_suffix_len s = 0%nat -> trim_right_rev n s = s.
Proof. intros [|n] s H; [reflexivity|]. cbn [trim_right_rev]. rewrite H. reflexivity. Qed.

Lemma trim_space_line : forall e, name_untrimmed e = true -> trim_space (entry_string e) = entry_string e.
Proof.
  intros e H. unfold name_untrimmed in H. unfold trim_space.
  destruct (space_prefix_len (entry_string e)) eqn:E; [|discriminate].
  rewrite trim_left_id by exact E.
  destruct (entry_string_rev e) as (c & r & ER & Hc). rewrite ER.
  rewrite trim_right_id by (apply digit_suffix_len; exact Hc).
  rewrite <- ER. apply rev_involutive.
Qed.

Lemma lines_cons : forall e rest, guard e = true ->
  lines_aux [] (entry_string e ++ 10 :: rest) = entry_string e :: lines_aux [] rest.
Proof.
  intros e rest G. rewrite lines_aux_word by (apply entry_string_no_nl; exact G). rewrite app_nil_r.
  cbn [lines_aux]. replace (10 =? 10) with true by reflexivity.
  destruct (entry_string_rev e) as (c & r & ER & Hc). rewrite ER. unfold drop_cr.
  destruct (digit_props c Hc) as (_ & _ & _ & _ & _ & ->). rewrite <- ER, rev_involutive. reflexivity.
Qed.

Lemma guard_line_props : forall e, guard e = true -> starts_hash (entry_string e) = false /\ is_nil_b (entry_string e) = false.
Proof.
  intros e G. destruct (guard_parts e G) as (G1 & _).
  destruct (field_ok_escape _ G1) as (En & Nn & _ & Hn).
  unfold entry_string. rewrite En. destruct (escape (e_name e)) as [|c r] eqn:E; [congruence|].
  cbn [app starts_hash is_nil_b]. cbn [starts_hash] in Hn. auto.
Qed.

(* a profile of guarded entries, none of whose lines begins with a white-space rune that TrimSpace removes,
   written with WriteTo and read with ReadMountProfile, comes back unchanged *)
Theorem profile_roundtrip : forall es, forallb profile_guard es = true -> load_profile (profile_text es) = Some es.
Proof.
  unfold load_profile, lines.
  induction es as [|e es IH]; intros H; [reflexivity|].
  cbn [forallb] in H. apply andb_true_iff in H as [H1 H2]. unfold profile_guard in H1.
  apply andb_true_iff in H1 as [G U].
  cbn [profile_text]. rewrite <- app_comm_cons || idtac.
  change (entry_string e ++ 10 :: profile_text es) with (entry_string e ++ 10 :: profile_text es).
  rewrite lines_cons by exact G. cbn [parse_lines].
  rewrite trim_space_line by exact U.
  destruct (guard_line_props e G) as (-> & ->).
  rewrite codec_roundtrip by exact G. rewrite (IH H2). reflexivity.
Qed.

(* the extra hypothesis is needed: a name that begins with a carriage return loses it *)
Lemma profile_roundtrip_refuted :
  exists e, guard e = true /\ load_profile (profile_text [e]) <> Some [e].
Proof. exists (mkEntry [13; 97] [98] [99] [[100]] 0 0). split; [reflexivity | vm_compute; discriminate]. Qed.

(* ------------------------------------------------------------------ what ParseMountEntry returns meets the guard *)

Lemma fields_aux_nonempty : forall s cur t, In t (fields_aux cur s) -> t <> [].
Proof.
  induction s as [|c s IH]; intros cur t H; cbn [fields_aux] in H.
  - destruct cur as [|x cur]; [destruct H|]. destruct H as [<- | []].
    intro E. apply (f_equal (@rev N)) in E. rewrite rev_involutive in E. discriminate.
  - destruct (is_blank c).
    + destruct cur as [|x cur]; [eapply IH; exact H|].
      destruct H as [<- | H]; [|eapply IH; exact H].
      intro E. apply (f_equal (@rev N)) in E. rewrite rev_involutive in E. discriminate.
    + eapply IH; exact H.
Qed.

Lemma drop_comment_In : forall fs t, In t (drop_comment fs) -> In t fs /\ starts_hash t = false.
Proof.
  induction fs as [|f fs IH]; intros t H; [destruct H|]. cbn [drop_comment] in H.
  destruct (starts_hash f) eqn:E; [destruct H|]. destruct H as [<- | H]; [auto with datatypes|].
  destruct (IH t H). auto with datatypes.
Qed.

Lemma esc_code_not_hash : forall d1 d2 d3 b, esc_code d1 d2 d3 = Some b -> (b =? 35) = false.
Proof.
  intros d1 d2 d3 b. unfold esc_code.
  destruct ((d1 =? 48) && (d2 =? 52) && (d3 =? 48)); [intro H; inversion H; reflexivity|].
  destruct ((d1 =? 48) && (d2 =? 49) && (d3 =? 49)); [intro H; inversion H; reflexivity|].
  destruct ((d1 =? 48) && (d2 =? 49) && (d3 =? 50)); [intro H; inversion H; reflexivity|].
  destruct ((d1 =? 49) && (d2 =? 51) && (d3 =? 52)); [intro H; inversion H; reflexivity | discriminate].
Qed.

Lemma unescape_token : forall t, t <> [] -> starts_hash t = false -> field_ok (unescape t) = true.
Proof.
  intros [|c r] Hne Hh; [congruence|]. cbn [starts_hash] in Hh. unfold field_ok. cbn [unescape].
  destruct (c =? 92) eqn:E.
  - destruct r as [|d1 [|d2 [|d3 r']]]; try (cbn; rewrite Hh; reflexivity).
    destruct (esc_code d1 d2 d3) as [b|] eqn:EC; [|cbn; rewrite Hh; reflexivity].
    cbn. rewrite (esc_code_not_hash _ _ _ _ EC). reflexivity.
  - cbn. rewrite Hh. reflexivity.
Qed.

Lemma join_split : forall s, join 44 (split_on 44 s) = s.
Proof.
  induction s as [|c s IH]; [reflexivity|]. cbn [split_on].
  destruct (c =? 44) eqn:E.
  - apply N.eqb_eq in E. subst c. destruct (split_on 44 s) as [|p ps] eqn:S; [exfalso; eapply split_on_nonempty; exact S|].
    change (join 44 ([] :: p :: ps)) with ([] ++ 44 :: join 44 (p :: ps)). rewrite IH. reflexivity.
  - destruct (split_on 44 s) as [|p ps] eqn:S; [exfalso; eapply split_on_nonempty; exact S|].
    destruct ps as [|q qs].
    + cbn [join] in *. rewrite IH. reflexivity.
    + change (join 44 ((c :: p) :: q :: qs)) with ((c :: p) ++ 44 :: join 44 (q :: qs)).
      change (join 44 (p :: q :: qs)) with (p ++ 44 :: join 44 (q :: qs)) in IH. cbn [app]. rewrite IH. reflexivity.
Qed.

Lemma split_no_comma : forall s, forallb no_comma (split_on 44 s) = true.
Proof.
  induction s as [|c s IH]; [reflexivity|]. cbn [split_on].
  destruct (c =? 44) eqn:E; [cbn [forallb]; rewrite IH; reflexivity|].
  destruct (split_on 44 s) as [|p ps]; [cbn; rewrite E; reflexivity|].
  cbn [forallb] in *. apply andb_true_iff in IH as [H1 H2]. rewrite H2, andb_true_r.
  unfold no_comma in *. cbn [forallb]. rewrite E, H1. reflexivity.
Qed.

Lemma atoi_in_int : forall f z, atoi f = Some z -> in_int z = true.
Proof.
  intros f z. unfold atoi. destruct f as [|c r]; [discriminate|].
  assert (A : forall neg d, atoi_digits neg d = Some z -> in_int z = true).
  { intros neg d. unfold atoi_digits. destruct (undec d); [|discriminate].
    destruct (in_int (if neg then (- Z.of_N n)%Z else Z.of_N n)) eqn:I; [|discriminate]. intro H; inversion H; subst. exact I. }
  destruct (c =? 45); [apply A|]. destruct (c =? 43); apply A.
Qed.

(* every entry ParseMountEntry returns from a line with at least four fields meets the guard ... *)
Theorem parsed_meets_guard : forall s e, parse_entry s = Some e -> e_opts e <> [] -> guard e = true.
Proof.
  intros s e H Ho. unfold parse_entry in H.
  assert (T : forall t, In t (drop_comment (fields s)) -> field_ok (unescape t) = true).
  { intros t Ht. apply drop_comment_In in Ht as [Ht Hh]. apply unescape_token; [|exact Hh].
    eapply fields_aux_nonempty. exact Ht. }
  assert (G : forall n d t o fz pz, field_ok (unescape n) = true -> field_ok (unescape d) = true -> field_ok (unescape t) = true ->
              field_ok (unescape o) = true -> in_int fz = true -> in_int pz = true ->
              guard (mkEntry (unescape n) (unescape d) (unescape t) (split_on 44 (unescape o)) fz pz) = true).
  { intros n d t o fz pz H1 H2 H3 H4 H5 H6. unfold guard. cbn [e_name e_dir e_type e_opts e_freq e_pass].
    rewrite H1, H2, H3, join_split, H4, split_no_comma, H5, H6.
    destruct (split_on 44 (unescape o)) eqn:S; [exfalso; eapply split_on_nonempty; exact S | reflexivity]. }
  destruct (drop_comment (fields s)) as [|n [|d [|t [|o [|f [|p [|x r]]]]]]]; try discriminate.
  - inversion H; subst. cbn in Ho. congruence.
  - inversion H; subst. apply G; try reflexivity; apply T; cbn; auto.
  - destruct (atoi f) as [fz|] eqn:F; [|discriminate]. inversion H; subst.
    apply G; try reflexivity; try (apply T; cbn; auto). eapply atoi_in_int; exact F.
  - destruct (atoi f) as [fz|] eqn:F; [|discriminate]. destruct (atoi p) as [pz|] eqn:P; [|discriminate]. inversion H; subst.
    apply G; try (apply T; cbn; auto); eapply atoi_in_int; eassumption.
Qed.

(* ... hence whatever was read from a profile line with options is written back and read again unchanged *)
Theorem loaded_entry_roundtrip : forall s e, parse_entry s = Some e -> e_opts e <> [] -> parse_entry (entry_string e) = Some e.
Proof. intros s e H Ho. apply codec_roundtrip. eapply parsed_meets_guard; eassumption. Qed.

(* a three field line is accepted with no options and comes back with the option defaults *)
Lemma three_field_line_refuted : exists s e, parse_entry s = Some e /\ parse_entry (entry_string e) <> Some e.
Proof. exists [97; 32; 98; 32; 99], (mkEntry [97] [98] [99] [] 0 0). split; [reflexivity | vm_compute; discriminate]. Qed.

(* the bind entries planWritableMimic records have an empty type: written as none, read back as none *)
Lemma empty_type_refuted :
  exists e, e_type e = [] /\ parse_entry (entry_string e) = Some (mkEntry (e_name e) (e_dir e) none_lit (e_opts e) (e_freq e) (e_pass e)).
Proof.
  exists (mkEntry [47; 97; 47; 98] [47; 97; 47; 98] [] [[114; 98; 105; 110; 100]] 0 0). split; [reflexivity | vm_compute; reflexivity].
Qed.
