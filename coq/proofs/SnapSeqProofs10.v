(* Proofs about models/SnapSeq.v — part 10: the other handlers as ordered effects; a failure after any effect plus the
   handler's own cleanup (or a re-run) leaves nothing behind / equals one undisturbed run (C11). *)
From Coq Require Import List NArith ZArith Bool Arith Lia.
Import ListNotations.
Require Import V.models.SnapSeq V.proofs.SnapSeqProofs V.proofs.SnapSeqProofs8 V.proofs.SnapSeqProofs9.
Open Scope N_scope.

(* ---- unlink-current-snap *)
Theorem uc_effects_ok : forall s, run_effects uc_effects s = do_unlink_current s.
Proof. intros []. reflexivity. Qed.

(* UnlinkSnap fails (having taken effect or not): restoreUnlinkOnError puts the link back, nothing was written *)
Theorem uc_failure_cleanup : forall s i, wf s -> active s = true -> (i <= 1)%nat ->
  uc_cleanup s (run_effects (firstn i uc_effects) s) = s.
Proof.
  intros s i [_ _ _ _ _ _ _ W8] A L. rewrite A in W8.
  destruct i as [|[|i]]; [| |lia]; destruct s; simpl in *; subst; reflexivity.
Qed.

(* ---- mount-snap / its undo *)
Theorem mount_effects_ok : forall r s, run_effects (mount_effects r) s = do_mount r s.
Proof. intros r []. reflexivity. Qed.

Theorem mount_failure_cleanup : forall r s i, wf s -> ~ In r (seq s) -> (i <= 1)%nat ->
  mount_cleanup r (run_effects (firstn i (mount_effects r)) s) = s.
Proof.
  intros r s i [_ _ _ _ _ W6 W7 _] NI L.
  assert (NM : ~ In r (mounted s)) by (intros I; apply NI; apply W7; exact I).
  destruct i as [|[|i]]; [| |lia]; destruct s; simpl in *; unfold mount_cleanup, set_mounted; simpl.
  - rewrite rem_notin; auto.
  - rewrite rem_ins; auto.
Qed.

Theorem undo_mount_retry_idempotent : forall r s i, (i <= 1)%nat ->
  undo_mount r (run_effects (firstn i (undo_mount_effects r)) s) = undo_mount r s.
Proof.
  intros r s i L. destruct i as [|[|i]]; [reflexivity| |lia].
  destruct s. unfold undo_mount. simpl. rewrite rem_idem. reflexivity.
Qed.

(* ---- link-snap *)
Lemma do_link_world : forall o s, mounted (fst (do_link o s)) = mounted s /\ link (fst (do_link o s)) = orev o.
Proof. intros o s. unfold do_link. split; reflexivity. Qed.

Theorem link_effects_ok : forall o s, run_effects (link_effects o s) s = fst (do_link o s).
Proof.
  intros o s. destruct (do_link_world o s) as [M L].
  unfold link_effects, run_effects. cbn [fold_left]. unfold set_cfgs, set_link. cbn [seq cur nb active chan devmode jailmode classic trymode ignoreval cohort lastref inhib cfg revcfg mounted link].
  destruct (fst (do_link o s)) as [sq c a ch d j cl t ig co lr ih nbs cf rc mt lk] eqn:Y. simpl in M, L. subst. reflexivity.
Qed.

(* LinkSnap (or anything after it, before the final Set) fails: the deferred cleanup unlinks.  On a snap that was not linked
   (after unlink-current-snap, or a first install, or a disabled snap) every field but the configuration bookkeeping is as
   before; if the failure is LinkSnap itself, everything is *)
Theorem link_failure_cleanup : forall o s i, link s = 0 -> (i <= 3)%nat ->
  core (link_cleanup (run_effects (firstn i (link_effects o s)) s)) = core s /\
  ((i <= 1)%nat -> link_cleanup (run_effects (firstn i (link_effects o s)) s) = s).
Proof.
  intros o s i L0 L. unfold link_effects.
  destruct i as [|[|[|[|i]]]]; try lia; cbn [firstn run_effects fold_left]; destruct s; simpl in *; subst;
    (split; [reflexivity|intros H; try lia; reflexivity]).
Qed.
