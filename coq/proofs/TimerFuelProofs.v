(* C16 — the day search of Schedule.Next terminates: a bound on the fuel of sched_next.
   Route: a general proof over the model; the only computed ingredients are the calendar facts of
   proofs/TimerCalendarFacts.v (one sweep over a 400-year cycle of DAYS, lifted by periodicity), not a sweep per week span. *)
From Coq Require Import List ZArith Bool Lia ZifyBool.
Import ListNotations.
Require Import V.lib.Civil V.models.Timer V.proofs.TimerProofs V.proofs.TimerCalendarFacts.
Open Scope Z_scope.

(* keep the calendar functions folded in conversion checks *)
Strategy opaque [month_next month_next_loop civil_from_days dom_of month_of].

Lemma sub_assoc1 : forall a b : Z, a - 1 - b = a - (1 + b).
Proof. intros; ring. Qed.

(* ------------------------------------------------------------------ weekdays *)
Lemma weekday_hit : forall D a, 0 <= a <= 6 -> weekday_of (D + (a - weekday_of D) mod 7) = a.
Proof. intros D a Ha. unfold weekday_of. Z.div_mod_to_equations. lia. Qed.

Lemma weekday_range : forall D, 0 <= weekday_of D <= 6.
Proof. intros; unfold weekday_of. pose proof (Z.mod_pos_bound (D + 4) 7). lia. Qed.

(* ------------------------------------------------------------------ anchors of numbered week spans *)
Definition wpos (ws : weekspan) : Z := if anchored_at_start ws then pos (ws_start ws) else pos (ws_end ws).
Definition base (ws : weekspan) (D : Z) : Z * Z :=
  if negb (wpos ws =? 5)
  then (find_nth_weekday D (wday (ws_start ws)) (wpos ws), find_nth_weekday D (wday (ws_end ws)) (wpos ws))
  else (find_last_weekday D (wday (ws_start ws)), find_last_weekday D (wday (ws_end ws))).
Definition anchor (ws : weekspan) (D : Z) : Z :=
  if anchored_at_start ws then fst (base ws D) else snd (base ws D).

Lemma date_range_base : forall ws D,
  date_range ws D =
  (let se := base ws D in
   if (snd se <? fst se) || ((fst se =? snd se) && negb (is_single_day ws))
   then (if anchored_at_start ws then (fst se, snd se + 7) else (fst se - 7, snd se))
   else (fst se, snd se)).
Proof. reflexivity. Qed.

Lemma nth_offset : forall f c n, 1 <= n <= 4 -> 0 <= (c - weekday_of f) mod 7 + 7 * (n - 1) <= 27.
Proof. intros f c n Hn. pose proof (Z.mod_pos_bound (c - weekday_of f) 7). lia. Qed.

(* the nth weekday of a month lies in that month: it has the same first-of-month *)
Lemma nth_same_month : forall D c n, 1 <= n <= 4 ->
  let A := find_nth_weekday D c n in A - dom_of A + 1 = D - dom_of D + 1.
Proof.
  intros D c n Hn A. unfold A, find_nth_weekday. set (f := D - dom_of D + 1).
  pose proof (dom_first D) as F1. fold f in F1.
  destruct (month_start_facts f F1) as (K & _).
  pose proof (nth_offset f c n Hn) as B.
  replace (f + (c - weekday_of f) mod 7 + 7 * (n - 1)) with (f + ((c - weekday_of f) mod 7 + 7 * (n - 1))) by ring.
  rewrite (K _ B). ring.
Qed.

Lemma nth_idem : forall D c x n, 1 <= n <= 4 ->
  find_nth_weekday (find_nth_weekday D c n) x n = find_nth_weekday D x n.
Proof.
  intros D c x n Hn. pose proof (nth_same_month D c n Hn) as E. cbv zeta in E.
  unfold find_nth_weekday at 1. rewrite E. reflexivity.
Qed.

Lemma last_offset : forall N c, 1 <= 1 + (weekday_of (N - 1) - c) mod 7 <= 7.
Proof. intros N c. pose proof (Z.mod_pos_bound (weekday_of (N - 1) - c) 7). lia. Qed.

Lemma last_same_month : forall D c, dom_of D = 1 -> month_next (find_last_weekday D c) = month_next D.
Proof.
  intros D c HD. unfold find_last_weekday. destruct (month_start_facts D HD) as (_ & N1 & _ & _).
  destruct (month_start_facts (month_next D) N1) as (_ & _ & _ & J).
  rewrite sub_assoc1. apply J. apply last_offset.
Qed.

Lemma last_idem : forall D c x, dom_of D = 1 ->
  find_last_weekday (find_last_weekday D c) x = find_last_weekday D x.
Proof.
  intros D c x HD. unfold find_last_weekday at 1. rewrite (last_same_month D c HD). reflexivity.
Qed.

Definition numbered (ws : weekspan) : bool := negb ((pos (ws_start ws) =? 0) && (pos (ws_end ws) =? 0)).

Lemma wpos_range : forall ws, ws_wf ws = true -> numbered ws = true -> 1 <= wpos ws <= 5.
Proof.
  intros ws W N. unfold ws_wf, week_wf, numbered, wpos, anchored_at_start in *.
  destruct (pos (ws_start ws) =? 0) eqn:E; cbn [negb]; lia.
Qed.

Lemma base_idem : forall ws D, ws_wf ws = true -> numbered ws = true -> dom_of D = 1 ->
  base ws (anchor ws D) = base ws D.
Proof.
  intros ws D W N HD. pose proof (wpos_range ws W N) as R. unfold anchor, base.
  destruct (negb (wpos ws =? 5)) eqn:E5.
  - assert (R4 : 1 <= wpos ws <= 4) by lia.
    destruct (anchored_at_start ws); cbn [fst snd]; rewrite !nth_idem by exact R4; reflexivity.
  - destruct (anchored_at_start ws); cbn [fst snd]; rewrite !last_idem by exact HD; reflexivity.
Qed.

Lemma base_close : forall ws D, -6 <= fst (base ws D) - snd (base ws D) <= 6.
Proof.
  intros ws D. unfold base. destruct (negb (wpos ws =? 5)); cbn [fst snd].
  - unfold find_nth_weekday. set (f := D - dom_of D + 1).
    pose proof (Z.mod_pos_bound (wday (ws_start ws) - weekday_of f) 7).
    pose proof (Z.mod_pos_bound (wday (ws_end ws) - weekday_of f) 7). lia.
  - unfold find_last_weekday. set (n := month_next D - 1).
    pose proof (Z.mod_pos_bound (weekday_of n - wday (ws_start ws)) 7).
    pose proof (Z.mod_pos_bound (weekday_of n - wday (ws_end ws)) 7). lia.
Qed.

(* the anchor day of a numbered week span (the nth / last occurrence the span is anchored at) is matched by the span *)
Lemma anchor_match : forall ws D, ws_wf ws = true -> numbered ws = true -> dom_of D = 1 ->
  ws_match ws (anchor ws D) = true.
Proof.
  intros ws D W N HD. unfold ws_match.
  assert (Z0 : (pos (ws_start ws) =? 0) && (pos (ws_end ws) =? 0) = false) by (unfold numbered in N; lia).
  rewrite Z0. rewrite date_range_base, (base_idem ws D W N HD). cbv zeta.
  pose proof (base_close ws D) as C. unfold anchor.
  set (s := fst (base ws D)) in *. set (e := snd (base ws D)) in *.
  destruct (anchored_at_start ws) eqn:EA;
    destruct ((e <? s) || ((s =? e) && negb (is_single_day ws))) eqn:EJ; cbn [fst snd].
  - assert (X : (e + 7 <? s) || (s <? s) = false) by lia. rewrite X. lia.
  - assert (X : (e <? s) || (s <? s) = false) by lia. rewrite X. lia.
  - assert (X : (e <? e) || (e <? s - 7) = false) by lia. rewrite X. lia.
  - assert (X : (e <? e) || (e <? s) = false) by lia. rewrite X. lia.
Qed.

Lemma anchor_bounds : forall ws D, ws_wf ws = true -> numbered ws = true -> dom_of D = 1 ->
  D <= anchor ws D <= D + 30.
Proof.
  intros ws D W N HD. pose proof (wpos_range ws W N) as R. unfold anchor, base.
  destruct (month_start_facts D HD) as (_ & _ & NB & _).
  destruct (negb (wpos ws =? 5)) eqn:E5.
  - assert (R4 : 1 <= wpos ws <= 4) by lia.
    assert (F : D - dom_of D + 1 = D) by lia.
    destruct (anchored_at_start ws); cbn [fst snd]; unfold find_nth_weekday; rewrite F;
      match goal with |- context [(?c - weekday_of D) mod 7] => pose proof (nth_offset D c (wpos ws) R4) end; lia.
  - destruct (anchored_at_start ws); cbn [fst snd]; unfold find_last_weekday;
      match goal with |- context [(weekday_of ?n - ?c) mod 7] => pose proof (Z.mod_pos_bound (weekday_of n - c) 7) end; lia.
Qed.

(* every well-formed week span matches some day among the next 61 *)
Lemma ws_recurs : forall ws D0, ws_wf ws = true -> exists D, D0 < D <= D0 + 61 /\ ws_match ws D = true.
Proof.
  intros ws D0 W. destruct (numbered ws) eqn:N.
  - (* the anchor in the month that contains D0 + 31 *)
    set (f := D0 + 31 - dom_of (D0 + 31) + 1).
    assert (F1 : dom_of f = 1) by apply dom_first.
    pose proof (dom_pos (D0 + 31)) as P1.
    exists (anchor ws f). pose proof (anchor_bounds ws f W N F1). split; [unfold f in *; lia | apply anchor_match; assumption].
  - (* plain weekdays: the start weekday within the next 7 days *)
    unfold numbered in N. assert (Z0 : (pos (ws_start ws) =? 0) && (pos (ws_end ws) =? 0) = true) by lia.
    set (a := wday (ws_start ws)).
    assert (Ha : 0 <= a <= 6) by (unfold ws_wf, week_wf in W; unfold a; lia).
    exists (D0 + 1 + (a - weekday_of (D0 + 1)) mod 7).
    pose proof (Z.mod_pos_bound (a - weekday_of (D0 + 1)) 7). split; [lia|].
    unfold ws_match. rewrite Z0. unfold weekday_match. rewrite (weekday_hit (D0 + 1) a Ha). fold a.
    destruct (a <=? wday (ws_end ws)) eqn:E; lia.
Qed.

Lemma week_ok_recurs : forall s D0, forallb ws_wf (weekspans s) = true ->
  exists D, D0 < D <= D0 + 61 /\ week_ok s D = true.
Proof.
  intros s D0 W. unfold week_ok. destruct (weekspans s) as [|ws l] eqn:E.
  - exists (D0 + 1). split; [lia | reflexivity].
  - cbn [forallb] in W. apply andb_true_iff in W as [W1 _].
    destruct (ws_recurs ws D0 W1) as (D & B & M). exists D. split; [exact B|]. cbn [existsb]. rewrite M. reflexivity.
Qed.

(* ------------------------------------------------------------------ flattened clock spans *)
Lemma clock_add_nonneg : forall c d, clock_nonneg c -> 0 <= d -> clock_nonneg (clock_add c d).
Proof.
  intros c d [H1 H2] Hd. unfold clock_add, clock_nonneg, clock_ns, hour_ns, minute_ns; cbn [hour minute].
  split; apply Z.rem_nonneg; try lia; apply Z.quot_pos; lia.
Qed.

Lemma clock_wf_nonneg : forall c, clock_wf c = true -> clock_nonneg c.
Proof. intros c H. unfold clock_wf in H. unfold clock_nonneg. lia. Qed.

Lemma clock_spans_ok : forall ts, cs_wf ts = true ->
  clock_spans ts <> [] /\ forall cs, In cs (clock_spans ts) -> clock_nonneg (cs_start cs) /\ clock_nonneg (cs_end cs).
Proof.
  intros ts W. unfold cs_wf in W.
  assert (Ws : clock_nonneg (cs_start ts)) by (apply clock_wf_nonneg; lia).
  assert (We : clock_nonneg (cs_end ts)) by (apply clock_wf_nonneg; lia).
  unfold clock_spans.
  destruct ((split ts =? 0) || (split ts =? 1) || clock_eqb (cs_end ts) (cs_start ts)) eqn:E.
  - split; [discriminate|]. intros cs [<-|[]]. split; assumption.
  - assert (S2 : 2 <= split ts) by lia.
    set (step := Z.quot (Z.abs (clock_sub (cs_end ts) (cs_start ts))) (split ts)).
    assert (St : 0 <= step) by (apply Z.quot_pos; lia).
    split.
    + intros Hm. apply map_eq_nil in Hm. destruct (Z.to_nat (split ts)) eqn:EN; [lia | cbn [seq] in Hm; discriminate].
    + intros cs Hin. apply in_map_iff in Hin as (i & <- & _). cbn [cs_start cs_end].
      assert (A : clock_nonneg (clock_add (cs_start ts) (Z.of_nat i * step))) by (apply clock_add_nonneg; [exact Ws | lia]).
      split; [exact A | apply clock_add_nonneg; [exact A | exact St]].
Qed.

Lemma flattened_ok : forall s, forallb cs_wf (clockspans s) = true ->
  flattened s <> [] /\ forall cs, In cs (flattened s) -> clock_nonneg (cs_start cs) /\ clock_nonneg (cs_end cs).
Proof.
  intros s W. unfold flattened.
  set (l := match clockspans s with [] => [mkCS (mkClock 0 0) (mkClock 0 0) 0 false] | c :: l0 => c :: l0 end).
  assert (Wl : forallb cs_wf l = true) by (unfold l; destruct (clockspans s); [reflexivity | exact W]).
  assert (Nl : l <> []) by (unfold l; destruct (clockspans s); discriminate).
  rewrite forallb_forall in Wl. split.
  - destruct l as [|ts l']; [contradiction|]. cbn [flat_map].
    intros H. apply app_eq_nil in H as [H _]. exact (proj1 (clock_spans_ok ts (Wl ts (or_introl eq_refl))) H).
  - intros cs Hin. apply in_flat_map in Hin as (ts & Hts & Hcs). exact (proj2 (clock_spans_ok ts (Wl ts Hts)) cs Hcs).
Qed.

(* ------------------------------------------------------------------ the day loop terminates *)
Lemma window_bounds : forall cs D, clock_nonneg (cs_start cs) -> clock_nonneg (cs_end cs) ->
  D * 86400 <= w_start (window_of cs D) /\ D * 86400 <= w_end (window_of cs D).
Proof.
  intros cs D [H1 H2] [H3 H4]. unfold window_of, clock_time; cbn [w_start w_end]. destruct (_ <? _); lia.
Qed.

Lemma pick_keeps_some : forall now last D tsp a, exists w, fold_left (pick now last D) tsp (Some a) = Some w.
Proof.
  induction tsp as [|cs tsp IH]; intros a; cbn [fold_left]; [eexists; reflexivity|].
  unfold pick at 2. destruct (_ <? now); [apply IH|]. destruct (_ && _); [apply IH|].
  destruct (_ <? w_start a); apply IH.
Qed.

Lemma pick_finds : forall now last D tsp,
  tsp <> [] -> (forall cs, In cs tsp -> now <= w_end (window_of cs D) /\ last < w_start (window_of cs D)) ->
  exists w, fold_left (pick now last D) tsp None = Some w /\ now <= w_end w.
Proof.
  intros now last D tsp N H. destruct tsp as [|cs tsp]; [contradiction|].
  destruct (H cs (or_introl eq_refl)) as [H1 H2]. cbn [fold_left]. unfold pick at 2.
  assert (E1 : (w_end (window_of cs D) <? now) = false) by lia.
  assert (E2 : (w_start (window_of cs D) <=? last) && (last <=? w_end (window_of cs D)) = false) by lia.
  rewrite E1, E2.
  destruct (pick_keeps_some now last D tsp (window_of cs D)) as (w & Hw). exists w. split; [exact Hw|].
  apply pick_fold_spec in Hw as [Hw | (c & _ & _ & Hn & _)]; [inversion Hw; subst; exact H1 | exact Hn].
Qed.

Lemma next_from_total : forall fuel s tsp now last t k,
  tsp <> [] -> (forall cs, In cs tsp -> clock_nonneg (cs_start cs) /\ clock_nonneg (cs_end cs)) ->
  0 <= k < Z.of_nat fuel -> week_ok s (t / 86400 + k) = true ->
  now < (t / 86400 + k) * 86400 -> last < (t / 86400 + k) * 86400 ->
  exists w, next_from fuel s tsp now last t = Some w.
Proof.
  induction fuel as [|f IH]; intros s tsp now last t k N C Hk W Hn Hl; [lia|].
  cbn [next_from].
  assert (Shift : 1 <= k -> exists w, next_from f s tsp now last (t + 86400) = Some w).
  { intros K1. apply (IH s tsp now last (t + 86400) (k - 1) N C); [lia | | |];
      replace ((t + 86400) / 86400) with (t / 86400 + 1) by (rewrite <- (Z.div_add t 1 86400) by lia; f_equal; lia);
      replace (t / 86400 + 1 + (k - 1)) with (t / 86400 + k) by ring; assumption. }
  destruct (Z.eq_dec k 0) as [K0|K0].
  - subst k. rewrite Z.add_0_r in *. rewrite W. cbn [negb].
    destruct (pick_finds now last (t / 86400) tsp N) as (w & Hw & He).
    { intros cs Hin. destruct (C cs Hin) as [A B]. destruct (window_bounds cs (t / 86400) A B). lia. }
    rewrite Hw. assert (E : (w_end w <? now) = false) by lia. rewrite E. eexists; reflexivity.
  - destruct (negb (week_ok s (t / 86400))); [apply Shift; lia|].
    destruct (fold_left (pick now last (t / 86400)) tsp None) as [w|]; [|apply Shift; lia].
    destruct (w_end w <? now); [apply Shift; lia | eexists; reflexivity].
Qed.

(* the fuel that always suffices: the days between last and now, plus 64 *)
Definition next_fuel (last now : Z) : nat := Z.to_nat (Z.max 0 (now / 86400 - last / 86400)) + 64.

(* MAIN: for every schedule with well-formed week spans and clock spans (what ParseSchedule accepts) and every last and
   now, the day search of Schedule.Next finds a window within next_fuel last now days: the out-of-fuel value is never
   returned. (Any weekday recurs within 7 days; a numbered week span recurs within 61 days.) *)
Theorem next_fuel_suffices : forall (s : schedule) (last now : Z),
  sched_wf s = true -> exists w, sched_next (next_fuel last now) s last now = Some w.
Proof.
  intros s last now W. unfold sched_wf in W. apply andb_true_iff in W as [WW WC].
  destruct (flattened_ok s WC) as [N C].
  set (D0 := Z.max (now / 86400) (last / 86400)).
  destruct (week_ok_recurs s D0 WW) as (D & B & M).
  pose proof (Z.mod_pos_bound now 86400 ltac:(lia)). pose proof (Z.div_mod now 86400 ltac:(lia)).
  pose proof (Z.mod_pos_bound last 86400 ltac:(lia)). pose proof (Z.div_mod last 86400 ltac:(lia)).
  unfold sched_next.
  apply (next_from_total (next_fuel last now) s (flattened s) now last last (D - last / 86400) N C).
  - unfold next_fuel, D0 in *. lia.
  - replace (last / 86400 + (D - last / 86400)) with D by ring. exact M.
  - replace (last / 86400 + (D - last / 86400)) with D by ring. unfold D0 in *. lia.
  - replace (last / 86400 + (D - last / 86400)) with D by ring. unfold D0 in *. lia.
Qed.

(* ... hence, unconditionally: Schedule.Next returns a window of the schedule *)
Theorem next_in_window_total : forall (s : schedule) (last now : Z), sched_wf s = true ->
  exists w k cs, sched_next (next_fuel last now) s last now = Some w /\
    0 <= k < Z.of_nat (next_fuel last now) /\ In cs (flattened s) /\
    let D := last / 86400 + k in
    w = window_of cs D /\ week_ok s D = true /\ now <= w_end w /\ (last < w_start w \/ w_end w < last) /\
    (forall cs', In cs' (flattened s) -> now <= w_end (window_of cs' D) ->
                 (last < w_start (window_of cs' D) \/ w_end (window_of cs' D) < last) ->
                 w_start w <= w_start (window_of cs' D)).
Proof.
  intros s last now W. destruct (next_fuel_suffices s last now W) as (w & Hw).
  destruct (next_in_window _ s last now w Hw) as (k & cs & Hk & Hin & H).
  exists w, k, cs. split; [exact Hw | split; [exact Hk | split; [exact Hin | exact H]]].
Qed.

(* more fuel never changes the answer *)
Lemma next_from_more_fuel : forall f s tsp now last t w, next_from f s tsp now last t = Some w ->
  forall g, (f <= g)%nat -> next_from g s tsp now last t = Some w.
Proof.
  induction f as [|f IH]; intros s tsp now last t w H g Hg; [discriminate|].
  destruct g as [|g]; [lia|]. cbn [next_from] in *.
  destruct (negb (week_ok s (t / 86400))); [apply IH; [exact H | lia]|].
  destruct (fold_left (pick now last (t / 86400)) tsp None) as [w0|]; [|apply IH; [exact H | lia]].
  destruct (w_end w0 <? now); [apply IH; [exact H | lia] | exact H].
Qed.
