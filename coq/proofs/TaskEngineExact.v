(* Proofs about models/TaskEngine.v, part 15 (C01): the abort set exactly, when no nested abortLanes call happens, and
   witnesses that in general neither bound of the closure sandwich is tight. Stdlib only. *)
From Coq Require Import List NArith ZArith Bool Arith Lia.
Import ListNotations.
Require Import V.models.TaskEngine V.proofs.TaskEngineProofs V.proofs.TaskEngineStatus V.proofs.TaskEngineReady
               V.proofs.TaskEngineDoing V.proofs.TaskEngineFuel V.proofs.TaskEngineLive V.proofs.TaskEngineClosure
               V.proofs.TaskEngineLower.

(* A1: the lane tasks abortLanes selects (those the healthy-lane exemption does not spare: select_abort), closed under
   halt edges *)
Inductive inA1 (s : state) (L0 : list nat) : nat -> Prop :=
| A1_sel : forall t, In t (select_abort (tasks s) L0) -> inA1 s L0 t
| A1_halt : forall t h, inA1 s L0 t -> In h (t_halts (get s t)) -> inA1 s L0 h.

Section Exact.
  Variable s : state.
  Variable L0 : list nat.
  (* no nested call: every task reached has all its lanes in the kill list *)
  Hypothesis NN : forall t, inA1 s L0 t -> forall x, In x (lanes_of (get s t)) -> In x L0.

  Lemma abort_loop_within : forall f wl seen s0 lanes,
    same_graph s s0 -> (forall t, In t wl -> inA1 s L0 t) -> lanes = [] ->
    snd (abort_loop f wl (L0 ++ []) seen s0 lanes) = [] /\
    (forall u, ~ inA1 s L0 u -> st (fst (fst (abort_loop f wl (L0 ++ []) seen s0 lanes))) u = st s0 u).
  Proof.
    induction f; intros wl seen s0 lanes G Hw ->.
    - simpl. destruct wl; simpl; auto.
    - destruct wl as [|t rest]; [simpl; auto|].
      rewrite abort_loop_S. destruct (memn t seen).
      + apply IHf; auto. intros x Hx. apply Hw. right; assumption.
      + assert (At : inA1 s L0 t) by (apply Hw; left; reflexivity).
        assert (El : extra_lanes (get s0 t) (L0 ++ []) = []).
        { unfold extra_lanes. apply flat_map_all_in. intros x Hx. rewrite (sg_lanes s s0 t G) in Hx.
          apply memn_In. rewrite app_nil_r. apply (NN t At x Hx). }
        rewrite El. change (@nil nat ++ []) with (@nil nat).
        destruct (IHf (rest ++ filter (fun h => negb (memn h (t :: seen))) (t_halts (get s0 t))) (t :: seen)
                      (abort_write s0 t) []) as (A & B); auto.
        * apply sg_abort_write; assumption.
        * intros x Hx. apply in_app_or in Hx. destruct Hx as [Hx|Hx]; [apply Hw; right; assumption|].
          apply filter_In in Hx. destruct Hx as [Hx _]. rewrite (sg_halts s s0 t G) in Hx. eapply A1_halt; eauto.
        * split; [assumption|]. intros u Hu. rewrite (B u Hu).
          destruct (abort_write_lv s0 t) as (_ & A2 & _). apply A2. intros ->. contradiction.
  Qed.

  (* exactly A1 is aborted: outside A1 nothing changes ... *)
  Theorem abort_exact_outside : forall u, ~ inA1 s L0 u -> st (abort_lanes_top s L0) u = st s u.
  Proof.
    intros u Hu. unfold abort_lanes_top. rewrite st_ready_detect. unfold depth_fuel.
    rewrite abort_lanes_S. destruct (select_abort (tasks s) L0) eqn:Es; [reflexivity|]. rewrite <- Es.
    destruct (abort_loop_within (loop_fuel s (select_abort (tasks s) L0)) (select_abort (tasks s) L0) [] s []
                                (sg_refl s) (fun t Ht => A1_sel s L0 t Ht) eq_refl) as (A & B).
    destruct (abort_loop _ _ _ _ _ _) as [[s1 seen1] lanes]; cbn [fst snd abort_cont] in *.
    subst lanes. apply B. assumption.
  Qed.
End Exact.

(* ... and everything in A1 is dead afterwards (this half needs no hypothesis on nesting) *)
Theorem abort_exact_inside : forall (s : state) (L0 : list nat) (u : nat),
  oof s = false -> inA1 s L0 u -> lv (abort_lanes_top s L0) u = false.
Proof.
  intros s L0 u Ho Hu. unfold abort_lanes_top.
  rewrite (lv_eq_tasks _ (ready_detect (abort_lanes (depth_fuel s) L0 [] [] s)) u (tasks_ready_detect _)).
  assert (H0 : cinv s s [] [] []).
  { split; [apply sg_refl|]. split; [intros x []|]. split; [intros x h []| intros x []]. }
  destruct (abort_lanes_cinv s (depth_fuel s) L0 [] [] s H0) as [O|(sF & G & D & C & B)].
  { pose proof (abort_lanes_fuel_ok (depth_fuel s) L0 [] [] s) as E.
    rewrite E in O; [congruence|]. pose proof (nu_mono s [] L0). pose proof (nu_nil s). lia. }
  apply D. induction Hu as [t Ht | t h _ IH Hh].
  - destruct (B t) as [A|[]]; [|assumption]. apply in_or_app. left. assumption.
  - destruct (C t h IH Hh) as [A|[]]. assumption.
Qed.

(* ------------------------------------------------------------------ neither bound of the sandwich is tight.
   Graph: S in lanes 1 and 2, F in lane 1, K in lane 2 (no wait edges). S is in the upper closure of lane 1 but not in
   the lower one. With K live (Do) S is SPARED by aborting lane 1; with K dead (Hold) S is ABORTED. *)
Definition sw_graph : list tdesc := [([1; 2], [], true); ([1], [], true); ([2], [], true)].
Definition sw_live : state := init_state sw_graph.
Definition sw_dead : state :=
  with_tasks sw_live (upd (tasks sw_live) 2 (fun tk => set_st tk Hold)).

Scheme lowR_mind := Minimality for lowR Sort Prop.

Lemma sandwich_not_tight :
  (inR sw_live [1] 0 /\ ~ lowR sw_live [1] 0 /\ st (abort_lanes_top sw_live [1]) 0 = st sw_live 0) /\
  (inR sw_dead [1] 0 /\ ~ lowR sw_dead [1] 0 /\ st sw_dead 0 = Do /\ st (abort_lanes_top sw_dead [1]) 0 = Hold).
Proof.
  assert (NL : forall s, tasks s = tasks sw_live \/ tasks s = tasks sw_dead -> ~ lowR s [1] 0).
  { intros s Hs F.
    assert (H : forall t, lowR s [1] t -> t = 1).
    { apply (lowR_mind s [1] (fun t => t = 1)).
      - intros t L Hall. unfold get in Hall. destruct Hs as [E|E]; rewrite E in Hall, L;
          (destruct t as [|[|[|t]]]; [ | reflexivity | | simpl in L; lia]);
          (exfalso; assert (X : In 2 [1]) by (apply Hall; simpl; auto); destruct X as [X|[]]; discriminate X).
      - intros t h _ -> Hh. unfold get in Hh. destruct Hs as [E|E]; rewrite E in Hh; simpl in Hh; destruct Hh. }
    specialize (H 0 F). discriminate H. }
  split; (split; [|split]).
  - apply (R_lane sw_live [1] 0 1); [simpl; lia | simpl; left; reflexivity | apply L_kill; left; reflexivity].
  - apply NL. left; reflexivity.
  - vm_compute. reflexivity.
  - apply (R_lane sw_dead [1] 0 1); [simpl; lia | simpl; left; reflexivity | apply L_kill; left; reflexivity].
  - apply NL. right; reflexivity.
  - split; vm_compute; reflexivity.
Qed.
