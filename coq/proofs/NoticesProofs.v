(* C08 — proofs about models/Notices.v *)
From Coq Require Import List NArith ZArith Bool Lia.
Import ListNotations.
Require Import V.lib.Bytes V.models.Notices.
Open Scope Z_scope.

Lemma bump_gt : forall c l, l < bump c (Some l).
Proof. intros c l. unfold bump. destruct (c >? l) eqn:E; lia. Qed.
